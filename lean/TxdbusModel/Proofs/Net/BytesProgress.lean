import TxdbusModel.Proofs.Net.BytesSim
import TxdbusModel.Proofs.Net.Progress
/-
C11 - byte-level PROGRESS: from every byte-level state that a message-level state abstracts (`Sim`), the canonical
draining schedule `drain` (Net/Bytes.lean: reads of everything queued, Deferred firings) reaches `BNet.Quiescent`,
provided what it serialises on the way stays in the codec's domain.

Shape of the proof: every draining step is matched by message-level steps whose NUMBER is known (a read of everything
queued on a link surfaces every message queued on it: `read_cuts` + `Sim.read_all_empties_up`/`_down`), each of these
message-level steps lowers the potential of Proofs/Net/Progress.lean, and the link is not empty - so the potential of
the abstracting message-level state strictly decreases along `drain`.
-/
namespace Txdbus.Net
open Txdbus.Proto

variable {V α : Type}

/-! ### the potential under single message-level steps (general forms of the cases of `progress`) -/

theorem weight_sendAnswer (w : World V) (cl : Client V) (s : Option Nat) (n : Nat) (a : Answer V) :
    weight (sendAnswer w cl s n a) = weight cl + 2 := by
  simp only [sendAnswer, weight, List.map_append, List.sum_append, List.map_cons, List.map_nil, List.sum_cons,
    List.sum_nil, wUp]
  omega

theorem receive_down (w : World V) (j : Nat) (cl : Client V) (m : Msg V) (beh : Behaviour V) :
    (receive w j cl m beh).down = cl.down := by
  cases m with
  | call n sender dest p i mem g args =>
    simp only [receive, dispatch]
    cases check w j p i mem g with
    | builtin sg b => rfl
    | refused nm t => rfl
    | run ifc md fn => cases beh <;> rfl
  | reply sn rs sender dest content =>
    simp only [receive, complete]
    cases pLookup cl.pending rs <;> rfl

theorem weight_receive (w : World V) (j : Nat) (cl : Client V) (m : Msg V) (beh : Behaviour V) :
    weight (receive w j cl m beh) + 1 ≤ weight cl + wDown m := by
  cases m with
  | call n sender dest p i mem g args =>
    simp only [receive, dispatch, wDown]
    cases check w j p i mem g with
    | builtin sg b => rw [weight_sendAnswer]; omega
    | refused nm t => rw [weight_sendAnswer]; omega
    | run ifc md fn =>
      cases beh with
      | now r =>
        simp only
        rw [weight_sendAnswer]
        simp only [weight]
        omega
      | deferred =>
        simp only [weight, List.length_append, List.length_cons, List.length_nil]
        omega
  | reply sn rs sender dest content =>
    simp only [receive, complete, wDown]
    cases pLookup cl.pending rs <;> simp only [weight] <;> omega

/-- the bus forwards (or drops) the head of a non-empty `up` queue: the potential falls, the queue loses its head -/
theorem potential_toBus (w : World V) (net : Net V) (c : Nat) (hc : c < net.n) (m : Msg V) (rest : List (Msg V))
    (hup : (net.cl c).up = m :: rest) :
    potential (step w net (.toBus c)) + 1 ≤ potential net ∧ ((step w net (.toBus c)).cl c).up = rest ∧
      (step w net (.toBus c)).n = net.n := by
  simp only [step, hc, if_true]
  rw [busStep_eq, hup]
  simp only
  have hW : weight (net.cl c) =
      wUp m + ((rest.map wUp).sum + ((net.cl c).down.map wDown).sum + 3 * (net.cl c).exec.length) := by
    simp only [weight, hup, List.map_cons, List.sum_cons]; omega
  have h1 := potential_upd' net c (fun cl => { cl with up := rest }) hc _
    ((rest.map wUp).sum + ((net.cl c).down.map wDown).sum + 3 * (net.cl c).exec.length) hW rfl
  have hwu : 2 ≤ wUp m := by cases m <;> simp [wUp]
  have hpop : potential (popUp net c rest) + wUp m = potential net := by
    simp only [popUp]; omega
  have hdrop : ∀ x, potential (addDropped (popUp net c rest) x) = potential (popUp net c rest) := fun _ => rfl
  cases hd : (m.withSender c).dest with
  | none =>
    simp only
    refine ⟨by rw [hdrop]; omega, by rw [drp_up]; simp, rfl⟩
  | some d =>
    simp only
    split
    · rename_i hdn
      have h2 := potential_upd' (popUp net c rest) d (fun cl => { cl with down := cl.down ++ [m.withSender c] })
        (by simpa [popUp] using hdn) (weight ((popUp net c rest).cl d))
        (weight ((popUp net c rest).cl d) + wDown (m.withSender c)) rfl
        (by simp only [weight, List.map_append, List.sum_append, List.map_cons, List.map_nil, List.sum_cons,
              List.sum_nil]; omega)
      have h3 := wDown_withSender m c
      have : potential (pushDown (popUp net c rest) d (m.withSender c)) =
          potential (popUp net c rest) + wDown (m.withSender c) := by
        simp only [pushDown]; omega
      refine ⟨by omega, by rw [fwd_up]; simp, rfl⟩
    · refine ⟨by rw [hdrop]; omega, by rw [drp_up]; simp, rfl⟩

theorem potential_toBus_many (w : World V) (c : Nat) :
    ∀ (l : List (Msg V)) (net : Net V) (tail : List (Msg V)), c < net.n → (net.cl c).up = l ++ tail →
      potential (run w net (l.map (fun _ => Step.toBus c))) + l.length ≤ potential net := by
  intro l
  induction l with
  | nil => intro net tail _ _; simp [run]
  | cons m l ih =>
    intro net tail hc hup
    obtain ⟨h1, h2, h3⟩ := potential_toBus w net c hc m (l ++ tail) (by simpa using hup)
    have ih' := ih (step w net (.toBus c)) tail (by rw [h3]; exact hc) h2
    have e : run w net ((m :: l).map (fun _ => Step.toBus c)) =
        run w (step w net (.toBus c)) (l.map (fun _ => Step.toBus c)) := rfl
    rw [e, List.length_cons]
    omega

/-- client `c` handles the head of a non-empty `down` queue, whatever the invoked method does -/
theorem potential_toClient (w : World V) (net : Net V) (c : Nat) (hc : c < net.n) (m : Msg V)
    (rest : List (Msg V)) (hdown : (net.cl c).down = m :: rest) (beh : Behaviour V) :
    potential (step w net (.toClient c beh)) + 1 ≤ potential net ∧ ((step w net (.toClient c beh)).cl c).down = rest ∧
      (step w net (.toClient c beh)).n = net.n := by
  simp only [step, hc, if_true, clientStep, hdown]
  have key : weight { net.cl c with down := rest } + wDown m = weight (net.cl c) := by
    simp only [weight, hdown, List.map_cons, List.sum_cons]; omega
  have hr := weight_receive w c { net.cl c with down := rest } m beh
  obtain ⟨R, hR⟩ : ∃ R, weight (receive w c { net.cl c with down := rest } m beh) = R := ⟨_, rfl⟩
  obtain ⟨R0, hR0⟩ : ∃ R0, weight { net.cl c with down := rest } = R0 := ⟨_, rfl⟩
  rw [hR0] at key hr
  rw [hR] at hr
  have h1 := potential_upd' net c (fun cl => receive w c { cl with down := rest } m beh) hc (R0 + wDown m) R
    key.symm hR
  refine ⟨by omega, ?_, rfl⟩
  rw [Net.upd_cl_same, receive_down]

theorem potential_toClient_many (w : World V) (c : Nat) :
    ∀ (l : List (Msg V)) (behs : List (Behaviour V)) (net : Net V) (tail : List (Msg V)), c < net.n →
      (net.cl c).down = l ++ tail →
      potential (run w net ((behsFor l behs).map (fun beh => Step.toClient c beh))) + l.length ≤ potential net := by
  intro l
  induction l with
  | nil => intro behs net tail _ _; simp [run, behsFor]
  | cons m l ih =>
    intro behs net tail hc hdown
    cases behs with
    | nil =>
      obtain ⟨h1, h2, h3⟩ := potential_toClient w net c hc m (l ++ tail) (by simpa using hdown) .deferred
      have ih' := ih [] (step w net (.toClient c .deferred)) tail (by rw [h3]; exact hc) h2
      have e : run w net ((behsFor (m :: l) []).map (fun beh => Step.toClient c beh)) =
          run w (step w net (.toClient c .deferred)) ((behsFor l []).map (fun beh => Step.toClient c beh)) := rfl
      rw [e, List.length_cons]
      omega
    | cons beh behs =>
      obtain ⟨h1, h2, h3⟩ := potential_toClient w net c hc m (l ++ tail) (by simpa using hdown) beh
      have ih' := ih behs (step w net (.toClient c beh)) tail (by rw [h3]; exact hc) h2
      have e : run w net ((behsFor (m :: l) (beh :: behs)).map (fun beh => Step.toClient c beh)) =
          run w (step w net (.toClient c beh)) ((behsFor l behs).map (fun beh => Step.toClient c beh)) := rfl
      rw [e, List.length_cons]
      omega

/-- the oldest unfired Deferred of client `c` fires, with any result -/
theorem potential_resolve_head (w : World V) (net : Net V) (c : Nat) (hc : c < net.n) (e : Exec) (rest : List Exec)
    (hexec : (net.cl c).exec = e :: rest) (res : Result V) :
    potential (step w net (.resolve c e.tok res)) + 1 = potential net := by
  have ht : takeExec e.tok (net.cl c).exec = some (e, rest) := by rw [hexec]; simp [takeExec]
  simp only [step, hc, if_true, resolveStep, ht]
  have key : weight { net.cl c with exec := rest } + 3 = weight (net.cl c) := by
    simp only [weight, hexec, List.length_cons]; omega
  have hs := weight_sendAnswer w { net.cl c with exec := rest } e.sender e.serial (.result e.sigOut e.nret res)
  obtain ⟨R0, hR0⟩ : ∃ R0, weight { net.cl c with exec := rest } = R0 := ⟨_, rfl⟩
  rw [hR0] at key hs
  have h1 := potential_upd' net c (fun cl => sendAnswer w { cl with exec := rest } e.sender e.serial
    (.result e.sigOut e.nret res)) hc (R0 + 3) (R0 + 2) key.symm hs
  omega

/-! ### reads, with the number of messages they surface -/

section
variable {C : WireCodec V} {Ok : Msg V → Prop}

theorem encAll_eq_nil (hC : C.Laws Ok) (q : List (Msg V)) (hokq : ∀ m, m ∈ q → Ok m) (hq : encAll C q = []) :
    q = [] := by
  cases q with
  | nil => rfl
  | cons m t =>
    exfalso
    have := (hC.wellformed m (hokq m List.mem_cons_self)).1
    have hl : (encAll C (m :: t)).length = 0 := by rw [hq]; rfl
    simp only [encAll, List.map_cons, List.flatten_cons, List.length_append] at hl
    omega

/-- `bstep_simulated` for a read by the bus, with the matching schedule spelled out: `j` times `toBus c`, where the
first `j` messages of the queue are those the read completes -/
theorem readBus_simulated (hC : C.Laws Ok) (A : Auth α) (w : World V) {b : BNet V α} {net : Net V}
    (h : Sim C b net noPre noPre) (hok : ∀ m, m ∈ b.sent → Ok m) (c k : Nat) (hc : c < b.n) :
    ∃ j, Sim C (bstep C A w b (.readBus c k))
        (run w net (((net.cl c).up.take j).map (fun _ => Step.toBus c))) noPre noPre ∧
      ((bstep C A w b (.readBus c k)).busRx c).buffer ++ (bstep C A w b (.readBus c k)).upWire c =
        encAll C ((net.cl c).up.drop j) := by
  simp only [bstep, hc, if_true]
  obtain ⟨tail, hup, hwire⟩ := h.upL c
  simp only [noPre, List.nil_append] at hup
  have hokq : ∀ m, m ∈ (net.cl c).up → Ok m := fun m hm => hok m (h.sub c m (Or.inl hm))
  obtain ⟨j, hj1, hj2, hj3, hj4⟩ := read_cuts hC A (b.busRx c) (b.upWire c) k (net.cl c).up hokq (h.busOk c).1
    (h.busOk c).2 (by rw [hup]; exact hwire)
  refine ⟨j, ?_, ?_⟩
  · rw [hj1]
    have h1 : Sim C
        ({ b with upWire := fun i => if i = c then (b.upWire c).drop k else b.upWire i,
                  busRx := fun i => if i = c then (Proto.step A (b.busRx c) ((b.upWire c).take k)).1 else b.busRx i })
        net (fun i => if i = c then (net.cl c).up.take j else noPre i) noPre := by
      refine ⟨h.n_eq, h.dropped, h.cl, ?_, h.downL, ?_, h.cliOk, h.sub⟩
      · intro i
        by_cases hi : i = c
        · subst hi
          refine ⟨(net.cl i).up.drop j, by simp, ?_⟩
          simp only [if_true]; exact hj2
        · simp only [hi, if_false]; exact h.upL i
      · intro i
        by_cases hi : i = c
        · subst hi; simp only [if_true]; exact ⟨hj3, hj4⟩
        · simp only [hi, if_false]; exact h.busOk i
    have h2 := Sim.bus_many hC w (c := c) ((net.cl c).up.take j) _ _ _ h1 hc (by simp)
      (fun m hm => hokq m (List.mem_of_mem_take hm))
    have : (fun i => if i = c then [] else (fun i => if i = c then (net.cl c).up.take j else noPre i) i) =
        (noPre : Nat → List (Msg V)) := by
      funext i; by_cases hi : i = c <;> simp [hi, noPre]
    rw [this] at h2
    exact h2
  · obtain ⟨g1, g2⟩ := busFold_up (C := C) c (rawMsgs (Proto.step A (b.busRx c) ((b.upWire c).take k)).2)
      { b with upWire := fun i => if i = c then (b.upWire c).drop k else b.upWire i,
               busRx := fun i => if i = c then (Proto.step A (b.busRx c) ((b.upWire c).take k)).1 else b.busRx i }
    rw [g1, g2]
    simp only [if_true]
    exact hj2

theorem cliHandleAll_down (w : World V) (c : Nat) (raws : List Bytes) :
    ∀ (behs : List (Behaviour V)) (b : BNet V α),
      (b.cliHandleAll C w c raws behs).downWire = b.downWire ∧ (b.cliHandleAll C w c raws behs).cliRx = b.cliRx := by
  have one : ∀ (b : BNet V α) raw beh, (b.cliHandle C w c raw beh).downWire = b.downWire ∧
      (b.cliHandle C w c raw beh).cliRx = b.cliRx := by
    intro b raw beh
    unfold BNet.cliHandle
    cases C.dec raw with
    | none => exact ⟨rfl, rfl⟩
    | some m => exact ⟨rfl, rfl⟩
  induction raws with
  | nil => intro behs b; cases behs <;> exact ⟨rfl, rfl⟩
  | cons r t ih =>
    intro behs b
    cases behs with
    | nil =>
      obtain ⟨h1, h2⟩ := ih [] (b.cliHandle C w c r .deferred)
      obtain ⟨g1, g2⟩ := one b r .deferred
      exact ⟨h1.trans g1, h2.trans g2⟩
    | cons beh behs =>
      obtain ⟨h1, h2⟩ := ih behs (b.cliHandle C w c r beh)
      obtain ⟨g1, g2⟩ := one b r beh
      exact ⟨h1.trans g1, h2.trans g2⟩

/-- `bstep_simulated` for a read by a client, with the matching schedule spelled out -/
theorem readClient_simulated (hC : C.Laws Ok) (A : Auth α) (w : World V) {b : BNet V α} {net : Net V}
    (h : Sim C b net noPre noPre) (hok : ∀ m, m ∈ b.sent → Ok m) (c k : Nat) (behs : List (Behaviour V))
    (hc : c < b.n) :
    ∃ j, Sim C (bstep C A w b (.readClient c k behs))
        (run w net ((behsFor ((net.cl c).down.take j) behs).map (fun beh => Step.toClient c beh))) noPre noPre ∧
      ((bstep C A w b (.readClient c k behs)).cliRx c).buffer ++ (bstep C A w b (.readClient c k behs)).downWire c =
        encAll C ((net.cl c).down.drop j) := by
  simp only [bstep, hc, if_true]
  obtain ⟨tail, hdown, hwire⟩ := h.downL c
  simp only [noPre, List.nil_append] at hdown
  have hokq : ∀ m, m ∈ (net.cl c).down → Ok m := fun m hm => hok m (h.sub c m (Or.inr hm))
  obtain ⟨j, hj1, hj2, hj3, hj4⟩ := read_cuts hC A (b.cliRx c) (b.downWire c) k (net.cl c).down hokq (h.cliOk c).1
    (h.cliOk c).2 (by rw [hdown]; exact hwire)
  refine ⟨j, ?_, ?_⟩
  · rw [hj1]
    have h1 : Sim C
        ({ b with downWire := fun i => if i = c then (b.downWire c).drop k else b.downWire i,
                  cliRx := fun i => if i = c then (Proto.step A (b.cliRx c) ((b.downWire c).take k)).1 else b.cliRx i })
        net noPre (fun i => if i = c then (net.cl c).down.take j else noPre i) := by
      refine ⟨h.n_eq, h.dropped, h.cl, h.upL, ?_, h.busOk, ?_, h.sub⟩
      · intro i
        by_cases hi : i = c
        · subst hi
          refine ⟨(net.cl i).down.drop j, by simp, ?_⟩
          simp only [if_true]; exact hj2
        · simp only [hi, if_false]; exact h.downL i
      · intro i
        by_cases hi : i = c
        · subst hi; simp only [if_true]; exact ⟨hj3, hj4⟩
        · simp only [hi, if_false]; exact h.cliOk i
    have h2 := Sim.cli_many hC w (c := c) ((net.cl c).down.take j) behs _ _ _ h1 hc (by simp)
      (fun m hm => hokq m (List.mem_of_mem_take hm))
    have : (fun i => if i = c then [] else (fun i => if i = c then (net.cl c).down.take j else noPre i) i) =
        (noPre : Nat → List (Msg V)) := by
      funext i; by_cases hi : i = c <;> simp [hi, noPre]
    rw [this] at h2
    exact h2
  · obtain ⟨g1, g2⟩ := cliHandleAll_down (C := C) w c (rawMsgs (Proto.step A (b.cliRx c) ((b.downWire c).take k)).2) behs
      { b with downWire := fun i => if i = c then (b.downWire c).drop k else b.downWire i,
               cliRx := fun i => if i = c then (Proto.step A (b.cliRx c) ((b.downWire c).take k)).1 else b.cliRx i }
    rw [g1, g2]
    simp only [if_true]
    exact hj2

/-- A read that takes everything queued for client `c` leaves the link from the bus EMPTY (twin of
`Sim.read_all_empties_up`). -/
theorem Sim.read_all_empties_down (hC : C.Laws Ok) (A : Auth α) (w : World V) {b : BNet V α} {net : Net V}
    (h : Sim C b net noPre noPre) (hok : ∀ m, m ∈ b.sent → Ok m) {c : Nat} (hc : c < b.n)
    (behs : List (Behaviour V)) :
    (bstep C A w b (.readClient c (b.downWire c).length behs)).downWire c = [] ∧
    ((bstep C A w b (.readClient c (b.downWire c).length behs)).cliRx c).buffer = [] := by
  simp only [bstep, hc, if_true]
  obtain ⟨h1, h2⟩ := cliHandleAll_down (C := C) w c
    (rawMsgs (Proto.step A (b.cliRx c) (List.take (b.downWire c).length (b.downWire c))).2) behs
    { b with downWire := fun i => if i = c then (b.downWire c).drop (b.downWire c).length else b.downWire i,
             cliRx := fun i => if i = c then
               (Proto.step A (b.cliRx c) ((b.downWire c).take (b.downWire c).length)).1 else b.cliRx i }
  rw [h1, h2]
  simp only [if_true, List.drop_length, List.take_length, true_and]
  obtain ⟨tail, hdown, hwire⟩ := h.downL c
  simp only [noPre, List.nil_append] at hdown
  rw [step_auth A _ _ (h.cliOk c).1]
  obtain ⟨_, g2, _⟩ := binStep_frames (b.cliRx c) (b.downWire c) (h.cliOk c).2
  rw [g2, hwire]
  have hwf : ∀ m ∈ tail.map C.enc, Spec.WellFormed m := by
    intro m hm
    obtain ⟨x, hx, rfl⟩ := List.mem_map.mp hm
    exact hC.wellformed x (hok x (h.sub c x (Or.inr (by rw [hdown]; exact hx))))
  have := frames_flatten_wellFormed (tail.map C.enc) hwf []
  rw [List.append_nil, frames_nil] at this
  show (Spec.frames (tail.map C.enc).flatten).2 = []
  rw [this]

/-! ### every draining step lowers the potential of the abstracting state -/

theorem take_length_of_drop_nil {β : Type} (l : List β) (j : Nat) (h : l.drop j = []) : (l.take j).length = l.length := by
  have := List.length_drop (i := j) (l := l)
  rw [h] at this
  simp only [List.length_nil] at this
  rw [List.length_take]
  omega

theorem readBus_all_progress (hC : C.Laws Ok) (A : Auth α) (w : World V) {b : BNet V α} {net : Net V}
    (h : Sim C b net noPre noPre) (hok : ∀ m, m ∈ b.sent → Ok m) {c : Nat} (hc : c < b.n)
    (hne : (b.busRx c).buffer ++ b.upWire c ≠ []) :
    ∃ sts, Sim C (bstep C A w b (.readBus c (b.upWire c).length)) (run w net sts) noPre noPre ∧
      potential (run w net sts) < potential net := by
  obtain ⟨j, hsim, hbuf⟩ := readBus_simulated hC A w h hok c (b.upWire c).length hc
  obtain ⟨e1, e2⟩ := h.read_all_empties_up hC A w hok hc
  rw [e1, e2] at hbuf
  have hokq : ∀ m, m ∈ (net.cl c).up → Ok m := fun m hm => hok m (h.sub c m (Or.inl hm))
  have hdrop := encAll_eq_nil hC _ (fun m hm => hokq m (List.mem_of_mem_drop hm)) hbuf.symm
  have hlen := take_length_of_drop_nil _ _ hdrop
  have hupne : (net.cl c).up ≠ [] := by
    obtain ⟨tail, hup, hwire⟩ := h.upL c
    simp only [noPre, List.nil_append] at hup
    intro e
    rw [hup] at e
    rw [e] at hwire
    exact hne hwire
  have hpos : 0 < (net.cl c).up.length := List.length_pos_iff.mpr hupne
  have hp := potential_toBus_many w c ((net.cl c).up.take j) net ((net.cl c).up.drop j)
    (by rw [h.n_eq]; exact hc) (List.take_append_drop j _).symm
  exact ⟨_, hsim, by omega⟩

theorem readClient_all_progress (hC : C.Laws Ok) (A : Auth α) (w : World V) {b : BNet V α} {net : Net V}
    (h : Sim C b net noPre noPre) (hok : ∀ m, m ∈ b.sent → Ok m) {c : Nat} (hc : c < b.n)
    (behs : List (Behaviour V)) (hne : (b.cliRx c).buffer ++ b.downWire c ≠ []) :
    ∃ sts, Sim C (bstep C A w b (.readClient c (b.downWire c).length behs)) (run w net sts) noPre noPre ∧
      potential (run w net sts) < potential net := by
  obtain ⟨j, hsim, hbuf⟩ := readClient_simulated hC A w h hok c (b.downWire c).length behs hc
  obtain ⟨e1, e2⟩ := h.read_all_empties_down hC A w hok hc behs
  rw [e1, e2] at hbuf
  have hokq : ∀ m, m ∈ (net.cl c).down → Ok m := fun m hm => hok m (h.sub c m (Or.inr hm))
  have hdrop := encAll_eq_nil hC _ (fun m hm => hokq m (List.mem_of_mem_drop hm)) hbuf.symm
  have hlen := take_length_of_drop_nil _ _ hdrop
  have hdne : (net.cl c).down ≠ [] := by
    obtain ⟨tail, hdown, hwire⟩ := h.downL c
    simp only [noPre, List.nil_append] at hdown
    intro e
    rw [hdown] at e
    rw [e] at hwire
    exact hne hwire
  have hpos : 0 < (net.cl c).down.length := List.length_pos_iff.mpr hdne
  have hp := potential_toClient_many w c ((net.cl c).down.take j) behs net ((net.cl c).down.drop j)
    (by rw [h.n_eq]; exact hc) (List.take_append_drop j _).symm
  exact ⟨_, hsim, by omega⟩

theorem resolve_head_progress (A : Auth α) (w : World V) {b : BNet V α} {net : Net V}
    (h : Sim C b net noPre noPre) {c : Nat} (hc : c < b.n)
    (e : Exec) (rest : List Exec) (hexec : (b.cl c).exec = e :: rest) (res : Result V) :
    ∃ sts, Sim C (bstep C A w b (.resolve c e.tok res)) (run w net sts) noPre noPre ∧
      potential (run w net sts) < potential net := by
  have hex : (net.cl c).exec = e :: rest := by rw [← hexec, h.cl c]; rfl
  have hp := potential_resolve_head w net c (by rw [h.n_eq]; exact hc) e rest hex res
  refine ⟨[.resolve c e.tok res], ?_, by simp only [run, List.foldl_cons, List.foldl_nil]; omega⟩
  -- same construction as in `bstep_simulated`
  simp only [bstep, run, List.foldl_cons, List.foldl_nil, step, h.n_eq, resolveStep, hc, if_true]
  have hex' : (net.cl c).exec = (b.cl c).exec := by rw [h.cl c]; rfl
  rw [hex']
  have ht : takeExec e.tok (b.cl c).exec = some (e, rest) := by rw [hexec]; simp [takeExec]
  simp only [ht]
  exact h.client_op c (fun cl => sendAnswer w { cl with exec := rest } e.sender e.serial
    (.result e.sigOut e.nret res)) (fun cl u d => by simp [sendAnswer, Client.withQ])

/-! ### the picker -/

theorem pickAt_none (fire : Nat → Exec → Result V) (b : BNet V α) (j : Nat) (h : b.pickAt fire j = none) :
    b.upWire j = [] ∧ b.downWire j = [] ∧ (b.busRx j).buffer = [] ∧ (b.cliRx j).buffer = [] ∧ (b.cl j).exec = [] := by
  unfold BNet.pickAt at h
  split at h
  · exact absurd h (by simp)
  · rename_i h1
    split at h
    · exact absurd h (by simp)
    · rename_i h2
      simp only [Bool.or_eq_true, Bool.not_eq_true', List.isEmpty_eq_false_iff, not_or, ne_eq,
        Decidable.not_not] at h1 h2
      cases hx : (b.cl j).exec with
      | nil => exact ⟨h1.1, h2.1, h1.2, h2.2, rfl⟩
      | cons e t => rw [hx] at h; exact absurd h (by simp)

theorem pick_none (fire : Nat → Exec → Result V) (b : BNet V α) :
    ∀ k, b.pick fire k = none → ∀ j, j < k → b.pickAt fire j = none := by
  intro k
  induction k with
  | zero => intro _ j hj; omega
  | succ k ih =>
    intro h j hj
    simp only [BNet.pick] at h
    cases hp : b.pick fire k with
    | some st => rw [hp] at h; exact absurd h (by simp)
    | none =>
      rw [hp] at h
      by_cases hjk : j = k
      · rw [hjk]; exact h
      · exact ih hp j (by omega)

theorem pick_some (fire : Nat → Exec → Result V) (b : BNet V α) :
    ∀ k st, b.pick fire k = some st → ∃ j, j < k ∧ b.pickAt fire j = some st := by
  intro k
  induction k with
  | zero => intro st h; exact absurd h (by simp [BNet.pick])
  | succ k ih =>
    intro st h
    simp only [BNet.pick] at h
    cases hp : b.pick fire k with
    | some st' =>
      rw [hp] at h
      obtain ⟨j, hj, hs⟩ := ih st' hp
      injection h with h
      exact ⟨j, by omega, by rw [← h]; exact hs⟩
    | none =>
      rw [hp] at h
      exact ⟨k, by omega, h⟩

/-- nothing to pick = byte-level quiescence -/
theorem quiescent_of_pick_none (fire : Nat → Exec → Result V) (b : BNet V α) (h : b.pick fire b.n = none) :
    b.Quiescent :=
  fun j hj => pickAt_none fire b j (pick_none fire b b.n h j hj)

/-- **Byte-level progress, one step.**  The draining step picked in a state abstracted by `net` is matched by
message-level steps that strictly lower the potential. -/
theorem pick_progress (hC : C.Laws Ok) (A : Auth α) (w : World V) (fire : Nat → Exec → Result V) {b : BNet V α}
    {net : Net V} (h : Sim C b net noPre noPre) (hok : ∀ m, m ∈ b.sent → Ok m) (st : BStep V)
    (hp : b.pick fire b.n = some st) :
    ∃ sts, Sim C (bstep C A w b st) (run w net sts) noPre noPre ∧ potential (run w net sts) < potential net := by
  obtain ⟨j, hj, hs⟩ := pick_some fire b b.n st hp
  unfold BNet.pickAt at hs
  split at hs
  · rename_i h1
    injection hs with hs
    subst hs
    refine readBus_all_progress hC A w h hok hj ?_
    intro e
    obtain ⟨e1, e2⟩ := List.append_eq_nil_iff.mp e
    simp [e1, e2] at h1
  · split at hs
    · rename_i h2
      injection hs with hs
      subst hs
      refine readClient_all_progress hC A w h hok hj [] ?_
      intro e
      obtain ⟨e1, e2⟩ := List.append_eq_nil_iff.mp e
      simp [e1, e2] at h2
    · cases hx : (b.cl j).exec with
      | nil => rw [hx] at hs; exact absurd hs (by simp)
      | cons e t =>
        rw [hx] at hs
        injection hs with hs
        subst hs
        exact resolve_head_progress A w h hj e t hx _

/-! ### the draining schedule reaches quiescence -/

theorem brun_cons (C : WireCodec V) (A : Auth α) (w : World V) (b : BNet V α) (st : BStep V) (l : List (BStep V)) :
    brun C A w b (st :: l) = brun C A w (bstep C A w b st) l := rfl

theorem brun_append (C : WireCodec V) (A : Auth α) (w : World V) (b : BNet V α) (l1 l2 : List (BStep V)) :
    brun C A w b (l1 ++ l2) = brun C A w (brun C A w b l1) l2 := by
  simp [brun, List.foldl_append]

/-- **Byte-level `quiescence_reachable`** from any state abstracted by a message-level state: if everything the
draining schedule serialises stays in the codec's domain, then some finite prefix of it ends in `BNet.Quiescent`. -/
theorem drain_reaches_quiescence (hC : C.Laws Ok) (A : Auth α) (w : World V) (fire : Nat → Exec → Result V) :
    ∀ (k : Nat) (b : BNet V α) (net : Net V), Sim C b net noPre noPre → potential net ≤ k →
      (∀ fuel m, m ∈ (brun C A w b (drain C A w fire fuel b)).sent → Ok m) →
      ∃ fuel, (brun C A w b (drain C A w fire fuel b)).Quiescent ∧
        ∃ sts, Sim C (brun C A w b (drain C A w fire fuel b)) (run w net sts) noPre noPre := by
  intro k
  induction k with
  | zero =>
    intro b net h hk hok
    cases hp : b.pick fire b.n with
    | none => exact ⟨0, quiescent_of_pick_none fire b hp, [], h⟩
    | some st =>
      obtain ⟨sts, _, hlt⟩ := pick_progress hC A w fire h (hok 0) st hp
      omega
  | succ k ih =>
    intro b net h hk hok
    cases hp : b.pick fire b.n with
    | none => exact ⟨0, quiescent_of_pick_none fire b hp, [], h⟩
    | some st =>
      obtain ⟨sts, hs, hlt⟩ := pick_progress hC A w fire h (hok 0) st hp
      have hok' : ∀ fuel m, m ∈ (brun C A w (bstep C A w b st) (drain C A w fire fuel (bstep C A w b st))).sent →
          Ok m := by
        intro fuel m hm
        apply hok (fuel + 1) m
        simp only [drain, hp, brun_cons]
        exact hm
      obtain ⟨fuel, hq, sts2, hs2⟩ := ih (bstep C A w b st) (run w net sts) hs (by omega) hok'
      refine ⟨fuel + 1, ?_, sts ++ sts2, ?_⟩
      · simp only [drain, hp, brun_cons]; exact hq
      · simp only [drain, hp, brun_cons]
        have : run w net (sts ++ sts2) = run w (run w net sts) sts2 := by simp [run, List.foldl_append]
        rw [this]; exact hs2

/-- once the draining schedule has stopped, more fuel does not lengthen it (so the domain hypothesis of
`drain_reaches_quiescence`, stated for every fuel, is checked by ONE evaluation) -/
theorem drain_stable (C : WireCodec V) (A : Auth α) (w : World V) (fire : Nat → Exec → Result V) :
    ∀ (N : Nat) (b : BNet V α),
      (brun C A w b (drain C A w fire N b)).pick fire (brun C A w b (drain C A w fire N b)).n = none →
      ∀ f, N ≤ f → drain C A w fire f b = drain C A w fire N b := by
  intro N
  induction N with
  | zero =>
    intro b h f _
    simp only [drain, brun, List.foldl_nil] at h
    cases f with
    | zero => rfl
    | succ f => simp only [drain, h]
  | succ N ih =>
    intro b h f hf
    cases f with
    | zero => omega
    | succ f =>
      cases hp : b.pick fire b.n with
      | none => simp only [drain, hp]
      | some st =>
        simp only [drain, hp, brun_cons] at h ⊢
        rw [ih (bstep C A w b st) h f (by omega)]

/-- the prefixes of the draining schedule: less fuel gives a prefix -/
theorem drain_prefix (C : WireCodec V) (A : Auth α) (w : World V) (fire : Nat → Exec → Result V) :
    ∀ (f : Nat) (b : BNet V α), ∃ l, drain C A w fire (f + 1) b = drain C A w fire f b ++ l := by
  intro f
  induction f with
  | zero => intro b; exact ⟨_, rfl⟩
  | succ f ih =>
    intro b
    cases hp : b.pick fire b.n with
    | none => exact ⟨[], by simp [drain, hp]⟩
    | some st =>
      obtain ⟨l, hl⟩ := ih (bstep C A w b st)
      refine ⟨l, ?_⟩
      have e1 : drain C A w fire (f + 1 + 1) b = st :: drain C A w fire (f + 1) (bstep C A w b st) := by
        simp only [drain, hp]
      have e2 : drain C A w fire (f + 1) b = st :: drain C A w fire f (bstep C A w b st) := by
        simp only [drain, hp]
      rw [e1, e2, hl]; rfl

/-- what has been serialised after less fuel has been serialised after more -/
theorem drain_sent_mono (C : WireCodec V) (A : Auth α) (w : World V) (fire : Nat → Exec → Result V) (b : BNet V α) :
    ∀ (f g : Nat), f ≤ g → ∀ m, m ∈ (brun C A w b (drain C A w fire f b)).sent →
      m ∈ (brun C A w b (drain C A w fire g b)).sent := by
  intro f g hfg
  induction g with
  | zero =>
    have : f = 0 := by omega
    subst this; intro m hm; exact hm
  | succ g ih =>
    by_cases hf : f = g + 1
    · subst hf; intro m hm; exact hm
    · intro m hm
      obtain ⟨l, hl⟩ := drain_prefix C A w fire g b
      rw [hl, brun_append]
      exact brun_sent C A w l _ m (ih (by omega) m hm)

/-- The domain hypothesis of `drain_reaches_quiescence`, stated for every fuel, follows from ONE evaluation: the
schedule has stopped after `N` steps and what it has serialised by then is in the domain. -/
theorem drain_domain_of_stopped (C : WireCodec V) (Ok : Msg V → Prop) (A : Auth α) (w : World V)
    (fire : Nat → Exec → Result V) (b : BNet V α) (N : Nat)
    (hstop : (brun C A w b (drain C A w fire N b)).pick fire (brun C A w b (drain C A w fire N b)).n = none)
    (hN : ∀ m, m ∈ (brun C A w b (drain C A w fire N b)).sent → Ok m) :
    ∀ fuel m, m ∈ (brun C A w b (drain C A w fire fuel b)).sent → Ok m := by
  intro fuel m hm
  by_cases hf : N ≤ fuel
  · rw [drain_stable C A w fire N b hstop fuel hf] at hm
    exact hN m hm
  · exact hN m (drain_sent_mono C A w fire b fuel N (by omega) m hm)

/-- the draining schedule consists of reads (every invocation returning a Deferred) and firings with `fire` -/
theorem drain_mem (C : WireCodec V) (A : Auth α) (w : World V) (fire : Nat → Exec → Result V) :
    ∀ (fuel : Nat) (b : BNet V α) (st : BStep V), st ∈ drain C A w fire fuel b →
      (∃ c k, st = .readBus c k) ∨ (∃ c k, st = .readClient c k []) ∨ (∃ c e, st = .resolve c e.tok (fire c e)) := by
  intro fuel
  induction fuel with
  | zero => intro b st h; simp [drain] at h
  | succ fuel ih =>
    intro b st h
    cases hp : b.pick fire b.n with
    | none => simp [drain, hp] at h
    | some st0 =>
      simp only [drain, hp, List.mem_cons] at h
      rcases h with h | h
      · subst h
        obtain ⟨j, _, hs⟩ := pick_some fire b b.n st hp
        unfold BNet.pickAt at hs
        split at hs
        · injection hs with hs; exact Or.inl ⟨_, _, hs.symm⟩
        · split at hs
          · injection hs with hs; exact Or.inr (Or.inl ⟨_, _, hs.symm⟩)
          · cases hx : (b.cl j).exec with
            | nil => rw [hx] at hs; exact absurd hs (by simp)
            | cons e t =>
              rw [hx] at hs
              injection hs with hs
              exact Or.inr (Or.inr ⟨_, _, hs.symm⟩)
      · exact ih _ st h

end

end Txdbus.Net
