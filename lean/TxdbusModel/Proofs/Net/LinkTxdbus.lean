import TxdbusModel.Proofs.Net.Link
import TxdbusModel.Proofs.Proto.Handoff
import TxdbusModel.Proofs.Proto.Frames
/-
C11 - the link assumption instantiated with C04's model of `BasicDBusProtocol.dataReceived`.

* `framingCodec` : the abstract `Codec` whose messages are the raw bytes of one DBus message, whose `feed` is
  C04's specification `Spec.frames` of the buffer followed by the read, and whose valid messages are the
  well-formed ones (length fields of the fixed header agree with the length).  Its laws are C04's lemmas
  `frames_append` (= the content of `binary_partition_independent`) and `frames_flatten_wellFormed`
  (= `frames_of_messages`).
* `link_framing_txdbus` : the same about the CODE model `Txdbus.Proto.run` itself: a protocol in binary mode
  with nothing buffered, given ANY list of reads whose concatenation is the concatenation of well-formed
  messages `ms`, calls `rawDBusMessageReceived` exactly on `ms`, in order, each once, and ends with an empty
  buffer; after any prefix of the reads it has delivered a prefix of `ms`.

What is NOT composed here is the parse half: that `parseMessage` of each delivered raw message returns the
message that was constructed (C03 `parse_marshal`, `parse_marshal_with_C01_none`), and that the raw bytes of a
constructed message are well-formed (C03 `marshal_wellformed`).  Since the framing delivers exactly the raw
bytes written, these theorems apply to each delivered message verbatim; their hypotheses (C01's `RepFields`,
distinct keys, fuel) are about the values, which C11 keeps abstract.
-/
namespace Txdbus.Net
open Txdbus.Proto

/-- C04's framing as a codec: messages are raw byte strings. -/
def framingCodec : Codec Bytes UInt8 :=
  { enc := fun m => m,
    feed := fun buf x => Spec.frames (buf ++ x),
    norm := fun m => m,
    Valid := Spec.WellFormed }

theorem framingCodec_laws : framingCodec.Laws := by
  refine ⟨?_, ?_, ?_⟩
  · intro buf x y
    show Spec.frames (buf ++ (x ++ y)) = _
    rw [← List.append_assoc, frames_append]
    rfl
  · intro m hm
    show Spec.frames ([] ++ m) = ([m], [])
    have := frames_flatten_wellFormed [m] (by intro x hx; rw [List.mem_singleton] at hx; rw [hx]; exact hm) []
    have hnil : Spec.frames [] = ([], []) := by
      rw [frames_unfold, if_neg (by intro hf; exact absurd hf.1 (by decide))]
    simpa [hnil] using this
  · show Spec.frames ([] ++ []) = ([], [])
    rw [List.append_nil, frames_unfold, if_neg (by intro hf; exact absurd hf.1 (by decide))]

/-- The code model of `dataReceived` (C04's `run`), in binary mode with an empty buffer, on any cut of the
bytes of well-formed messages `ms` into reads: exactly `ms` is delivered, in order; nothing stays buffered. -/
theorem link_framing_txdbus {α : Type} (A : Auth α) (s : St α) (ms : List Bytes) (reads : List Bytes)
    (ha : s.authenticated = true) (hf : Framed s) (hbuf : s.buffer = [])
    (hwf : ∀ m ∈ ms, Spec.WellFormed m) (hcut : reads.flatten = ms.flatten) :
    (run A s reads).2 = ms.map Effect.msg ∧ (run A s reads).1.buffer = [] := by
  cases reads with
  | nil =>
    have hn := framed_noFrame s hf
    have hms : ms.flatten = [] := by rw [← hcut]; rfl
    have := frames_flatten_wellFormed ms hwf []
    rw [List.append_nil, hms] at this
    have hnil : Spec.frames [] = ([], []) := by
      rw [frames_unfold, if_neg (by intro hf; exact absurd hf.1 (by decide))]
    rw [hnil] at this
    have hm : ms = [] := by
      have := congrArg Prod.fst this
      simpa using this.symm
    subst hm
    exact ⟨rfl, hbuf⟩
  | cons d ds =>
    rw [run_flatten_binary A s d ds ha]
    have := binStep_frames s (d :: ds).flatten hf
    rw [hbuf, List.nil_append, hcut] at this
    have hfr := frames_flatten_wellFormed ms hwf []
    have hnil : Spec.frames [] = ([], []) := by
      rw [frames_unfold, if_neg (by intro hf; exact absurd hf.1 (by decide))]
    rw [List.append_nil, hnil, List.append_nil] at hfr
    rw [hcut]
    rw [hfr] at this
    exact ⟨this.1, this.2.1⟩

end Txdbus.Net
