import TxdbusModel.Proofs.Net.Agree
import TxdbusModel.Properties.C15
/-
C11 - "…or discovered by introspection": the agreement hypothesis of the headline theorem discharged for an
introspected proxy, by composition with C15's round trip.

`introspectedProxy` is the model of `getRemoteObject(busName, path)` without `interfaces`: C15's code models
`generate` (= `generateIntrospectionXML` of the exporter) and `getInterfaces` (= `getInterfacesFromXML` run by the
caller on its heap of `DBusInterface` objects and its `knownInterfaces` cache), the returned interface objects
translated into this model's `Iface` (`ifaceOfIntro`: names and signatures from `List Char` to `String`, the
counts from `Int` to `Nat`).

`introspected_interfaces_agree`: under the hypotheses of C15's `handler_gen_fresh` (the object's interfaces were
declared through the API, their names and the three standard names are pairwise distinct, and either replacement
is requested or none of the names is in the caller's cache), and given that this model's exported object lists the
same declared interfaces (`o.ifaces = map ifaceOfIntro (declared)`), every interface of the introspected proxy
either `AgreesIn` the exported object or is one of the three standard interfaces the XML appends.

The cache case "name known, no replacement" is NOT covered: C15's `known_reused_unless_replaced` says the cached
object is reused as it is, so agreement then depends on what the cache holds (seeded change C11d is that case).
-/
namespace Txdbus.Net
open Txdbus.Intro

def methodOfIntro (m : Intro.Method) : MethodDecl :=
  { name := String.ofList m.name, sigIn := String.ofList m.sigIn, sigOut := String.ofList m.sigOut,
    nargs := m.nargs.toNat, nret := m.nret.toNat }

def ifaceOfIntro (i : Intro.Interface) : Iface :=
  { name := String.ofList i.name, methods := i.methods.map methodOfIntro }

/-- the names of the standard interfaces `generateIntrospectionXML` appends, as this model's strings -/
def stdNames : List String := stdIfaces.map (fun d => String.ofList d.name)

/-- `getRemoteObject(busName, path)` with `interfaces=None`: introspect, parse, build the proxy.  The returned
objects are read off the heap position by position (`r.getD …`: an object id always denotes an object in a real
process; the default only keeps the list positional for ill-formed heaps). -/
def introspectedProxy (dest : Nat) (path : Str) (exported : List (Str × List Cached))
    (heap : List Interface) (known : List (Str × Nat)) (replace : Bool) : Option Proxy :=
  match generate path exported with
  | .ok (some evs) =>
    match getInterfaces heap known replace evs with
    | .ok st => some { dest := dest, path := String.ofList path,
                       ifaces := st.result.map (fun r => ifaceOfIntro (r.getD (Interface.new []))) }
    | .error _ => none
  | _ => none

theorem ofList_eq_iff (l : List Char) (s : String) : String.ofList l = s ↔ l = s.toList := by
  constructor
  · intro h; rw [← h, String.toList_ofList]
  · intro h; rw [h, String.ofList_toList]

/-- looking a method up in the translated interface = translating the dict lookup -/
theorem method?_ofIntro (i : Interface) (n : String) :
    (ifaceOfIntro i).method? n = (dget Method.name i.methods n.toList).map methodOfIntro := by
  simp only [Iface.method?, ifaceOfIntro]
  induction i.methods with
  | nil => rfl
  | cons x t ih =>
    simp only [List.map_cons, List.find?_cons, dget]
    by_cases h : x.name = n.toList
    · have : (methodOfIntro x).name = n := by
        simp only [methodOfIntro]; exact (ofList_eq_iff _ _).mpr h
      simp [h, this]
    · have : ((methodOfIntro x).name == n) = false := by
        simp only [methodOfIntro, beq_eq_false_iff_ne, ne_eq]; intro e; exact h ((ofList_eq_iff _ _).mp e)
      simp only [h, if_false, this]
      exact ih

theorem sameDefinitions_mem {ds rs : List Interface} (h : SameDefinitions ds rs) :
    ∀ r, r ∈ rs → ∃ d, d ∈ ds ∧ SameDefinition d r := by
  induction h with
  | nil => intro r hr; cases hr
  | cons hd _ ih =>
    intro r hr
    rcases List.mem_cons.mp hr with rfl | hr
    · exact ⟨_, List.mem_cons_self, hd⟩
    · obtain ⟨d, hd', hs⟩ := ih r hr
      exact ⟨d, List.mem_cons_of_mem _ hd', hs⟩

/-- in a list whose names are pairwise distinct, looking an element's name up finds that element -/
theorem find?_name_of_nodup (l : List Interface) (hn : (l.map (·.name)).Nodup) (d : Interface) (hd : d ∈ l) :
    (l.map ifaceOfIntro).find? (fun x => x.name == (ifaceOfIntro d).name) = some (ifaceOfIntro d) := by
  induction l with
  | nil => cases hd
  | cons x t ih =>
    simp only [List.map_cons, List.nodup_cons] at hn
    simp only [List.map_cons, List.find?_cons]
    rcases List.mem_cons.mp hd with rfl | hd
    · simp
    · have hne : x.name ≠ d.name := by
        intro e
        exact hn.1 (by rw [e]; exact List.mem_map.mpr ⟨d, hd, rfl⟩)
      have : ((ifaceOfIntro x).name == (ifaceOfIntro d).name) = false := by
        simp only [ifaceOfIntro, beq_eq_false_iff_ne, ne_eq]
        intro e; exact hne (String.ofList_injective e)
      rw [this]
      exact ih hn.2 hd

/-- **Agreement of an introspected proxy** (composition with C15 `handler_gen_fresh`). -/
theorem introspected_interfaces_agree {path : Str} {exported : List (Str × List Cached)} {cs : List Cached}
    (hobj : exportedGet? exported path = some cs) (hdecl : Declared cs)
    (hnames : ((decl cs).map (·.name)).Nodup)
    (heap : List Interface) (known : List (Str × Nat)) (replace : Bool)
    (hfresh : replace = true ∨ ∀ d ∈ decl cs, kget? known d.name = none)
    (o : ExpObj) (ho : o.ifaces = (cs.map (·.iface)).map ifaceOfIntro) (dest : Nat) :
    ∃ px, introspectedProxy dest path exported heap known replace = some px ∧
      px.dest = dest ∧ px.path = String.ofList path ∧
      ∀ i, i ∈ px.ifaces → i.AgreesIn o ∨ i.name ∈ stdNames := by
  obtain ⟨evs, st, rs, h1, h2, h3, h4⟩ := handler_gen_fresh hobj hdecl hnames heap known replace hfresh
  have hres : st.result.map (fun r => ifaceOfIntro (r.getD (Interface.new []))) = rs.map ifaceOfIntro := by
    rw [h4]; simp
  refine ⟨{ dest := dest, path := String.ofList path, ifaces := rs.map ifaceOfIntro }, ?_, rfl, rfl, ?_⟩
  · simp only [introspectedProxy, h1, h2, hres]
  · intro i hi
    obtain ⟨r, hr, rfl⟩ := List.mem_map.mp hi
    obtain ⟨d, hd, hs⟩ := sameDefinitions_mem h3 r hr
    rcases List.mem_append.mp hd with hd | hd
    · left
      have hn1 : ((cs.map (·.iface)).map (·.name)).Nodup := by
        have : (decl cs).map (·.name) = (cs.map (·.iface)).map (·.name) ++ stdIfaces.map (·.name) := by
          simp [decl]
        rw [this] at hnames
        exact (List.nodup_append.mp hnames).1
      have hname : (ifaceOfIntro r).name = (ifaceOfIntro d).name := by
        simp only [ifaceOfIntro]; rw [hs.name]
      refine ⟨ifaceOfIntro d, ?_, hname.symm, ?_⟩
      · rw [ho, hname]
        exact find?_name_of_nodup _ hn1 d hd
      · intro n
        rw [method?_ofIntro, method?_ofIntro, hs.methods]
    · right
      simp only [stdNames, ifaceOfIntro]
      rw [hs.name]
      exact List.mem_map.mpr ⟨d, hd, rfl⟩

/-- What must hold of ONE declared interface `d` of the object for the introspected proxy to agree on it: the parse
creates a new object for it (replacement requested, or the name not in the caller's cache), or the caller's cache holds
under that name an object with the same definition.  The last case is what seeded change C11d / a stale cache violates. -/
def FreshOrSame (heap : List Interface) (known : List (Str × Nat)) (replace : Bool) (d : Interface) : Prop :=
  replace = true ∨ kget? known d.name = none ∨
    ∃ k e, kget? known d.name = some k ∧ heap[k]? = some e ∧ SameDefinition d e

/-- **Agreement of an introspected proxy, interface by interface** (composition with C15
`known_reused_unless_replaced`).  Whatever the caller's heap and cache hold: the proxy exists and lists one
interface per declared-or-standard interface, in order; and at every position `j` whose declaration `d` is
`FreshOrSame`, the proxy's interface agrees with the exported object (or `d` is one of the standard three). -/
theorem introspected_position_agrees {path : Str} {exported : List (Str × List Cached)} {cs : List Cached}
    (hobj : exportedGet? exported path = some cs) (hdecl : Declared cs)
    (hnames : ((decl cs).map (·.name)).Nodup)
    (heap : List Interface) (known : List (Str × Nat)) (replace : Bool)
    (o : ExpObj) (ho : o.ifaces = (cs.map (·.iface)).map ifaceOfIntro) (dest : Nat) :
    ∃ px, introspectedProxy dest path exported heap known replace = some px ∧
      px.dest = dest ∧ px.path = String.ofList path ∧ px.ifaces.length = (decl cs).length ∧
      ∀ (j : Nat) (d : Interface) (i : Iface), (decl cs)[j]? = some d → px.ifaces[j]? = some i →
        FreshOrSame heap known replace d →
        i.AgreesIn o ∨ i.name ∈ stdNames := by
  obtain ⟨evs, st, h1, h2, hlen, hheap, hidx⟩ :=
    known_reused_unless_replaced hobj hdecl hnames heap known replace
  refine ⟨{ dest := dest, path := String.ofList path,
            ifaces := st.result.map (fun r => ifaceOfIntro (r.getD (Interface.new []))) }, ?_, rfl, rfl, ?_, ?_⟩
  · simp only [introspectedProxy, h1, h2]
  · simp [HState.result, hlen]
  · intro j d i hd hi hcond
    -- the object returned at position j holds the same definition as d
    have hx : ∃ x, st.result[j]? = some (some x) ∧ SameDefinition d x := by
      obtain ⟨hreuse, hfresh⟩ := hidx j d hd
      have fresh_case : (replace = true ∨ kget? known d.name = none) → ∃ x, st.result[j]? = some (some x) ∧
          SameDefinition d x := by
        intro hc
        obtain ⟨id, r, e1, _, e3, e4, _⟩ := hfresh hc
        exact ⟨r, by simp [HState.result, e1, e3], e4⟩
      rcases hcond with h | h | ⟨k, e, hk, he, hs⟩
      · exact fresh_case (Or.inl h)
      · exact fresh_case (Or.inr h)
      · cases hr : replace with
        | true => exact fresh_case (Or.inl hr)
        | false =>
          obtain ⟨e1, _⟩ := hreuse hr k hk
          have hk' : k < heap.length := by
            rcases Nat.lt_or_ge k heap.length with h | h
            · exact h
            · rw [List.getElem?_eq_none h] at he; cases he
          refine ⟨e, ?_, hs⟩
          simp [HState.result, e1, hheap k hk', he]
    obtain ⟨x, hxr, hs⟩ := hx
    have hi' : i = ifaceOfIntro x := by
      simp only [List.getElem?_map, hxr, Option.map_some, Option.getD_some, Option.some.injEq] at hi
      exact hi.symm
    subst hi'
    have hdm : d ∈ decl cs := List.mem_of_getElem? hd
    rcases List.mem_append.mp hdm with hd' | hd'
    · left
      have hn1 : ((cs.map (·.iface)).map (·.name)).Nodup := by
        have : (decl cs).map (·.name) = (cs.map (·.iface)).map (·.name) ++ stdIfaces.map (·.name) := by
          simp [decl]
        rw [this] at hnames
        exact (List.nodup_append.mp hnames).1
      have hname : (ifaceOfIntro x).name = (ifaceOfIntro d).name := by
        simp only [ifaceOfIntro]; rw [hs.name]
      refine ⟨ifaceOfIntro d, ?_, hname.symm, ?_⟩
      · rw [ho, hname]
        exact find?_name_of_nodup _ hn1 d hd'
      · intro n
        rw [method?_ofIntro, method?_ofIntro, hs.methods]
    · right
      simp only [stdNames, ifaceOfIntro]
      rw [hs.name]
      exact List.mem_map.mpr ⟨d, hd', rfl⟩

theorem stdNames_eq :
    stdNames = [Gen.Dispatch.introspectPair.1, Gen.Dispatch.peerPair.1, Gen.Dispatch.managedPair.1] := by decide

/-- an interface that is none of the three standard ones has no member the handler answers itself -/
theorem notBuiltin_of_not_std {iname : String} (h : iname ∉ stdNames) (member : String) : NotBuiltin iname member := by
  rw [stdNames_eq] at h
  simp only [List.mem_cons, List.not_mem_nil, or_false, not_or] at h
  exact ⟨fun e => h.2.1 e.1, fun e => h.1 e.1, fun e => h.2.2 e.1⟩

end Txdbus.Net
