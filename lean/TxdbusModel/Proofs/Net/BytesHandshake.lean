import TxdbusModel.Proofs.Net.BytesSim
import TxdbusModel.Proofs.Proto.Split
/-
C11 - the handshake before binary mode.

`BNet.initH`: every receiver is still in line mode and each wire starts with the remaining authentication lines.  A run
from there in which the FIRST read on every link takes (at least) all of these lines - so that the final handshake line
and message bytes may arrive in the same read, the case of C04 `handoff` - is, step for step, a run from `BNet.init`
(after the handshake) with those first reads shortened by the handshake: `handshake_run_reduces`.  The relation `HRel`
says the two byte-level states are equal except that on a link nobody has read yet the handshake bytes are still in front
of the wire.  Every theorem about runs from `BNet.init` transfers.

The single-read hand-off is C04's (`lineLoop_handshake`, `lineFinish_success`, `split_unlines`, `join_split`,
`binStep_frames` - the steps of the proof of C04 `handoff`, for one read).
-/
namespace Txdbus.Net
open Txdbus.Proto
open Txdbus.Gen.ProtoConst

variable {V α : Type}

/-- the remaining handshake of a link is acceptable: lines without CR LF, within the length limit; the authenticator
continues over all but the last and reports success at the last -/
def HandshakeOK (A : Auth α) (a : α) (lines : List Bytes) (last : Bytes) : Prop :=
  (∀ l ∈ lines ++ [last], Spec.hasCRLF l = false ∧ l.length ≤ maxAuthLength) ∧
  ∃ a1 a', authRun A a lines = some a1 ∧ A.handle a1 last = (a', .success)

theorem rawMsgs_append (a b : List Effect) : rawMsgs (a ++ b) = rawMsgs a ++ rawMsgs b := by
  induction a with
  | nil => rfl
  | cons e t ih => cases e <;> simp [rawMsgs, ih]

theorem rawMsgs_lines (ls : List Bytes) : rawMsgs (ls.map Effect.line) = [] := by
  induction ls with
  | nil => rfl
  | cons l t ih => simp [rawMsgs, ih]

/-- ONE read that contains the whole remaining handshake and `rest`: the receiver hands the lines to the authenticator,
switches to binary mode and frames `rest` - what it delivers and what it keeps is what a receiver already in binary
mode with an empty buffer delivers and keeps on `rest`. -/
theorem handoff_one_read (A : Auth α) (s : St α) (lines : List Bytes) (last rest : Bytes)
    (hr : Ready s) (ha : s.authenticated = false) (hbuf : s.buffer = []) (hcl : s.closed = false)
    (hnext : s.nextMsgLen = 0) (hok : HandshakeOK A s.auth lines last) :
    rawMsgs (Proto.step A s (Spec.unlines (lines ++ [last]) ++ rest)).2 = (Spec.frames rest).1 ∧
    (Proto.step A s (Spec.unlines (lines ++ [last]) ++ rest)).1.buffer = (Spec.frames rest).2 ∧
    (Proto.step A s (Spec.unlines (lines ++ [last]) ++ rest)).1.authenticated = true ∧
    Framed (Proto.step A s (Spec.unlines (lines ++ [last]) ++ rest)).1 := by
  obtain ⟨hlines, a1, a', hrun, hlast⟩ := hok
  have hsp := split_unlines (lines ++ [last]) rest (fun l hl => (hlines l hl).1)
  have hone : Proto.step A s (Spec.unlines (lines ++ [last]) ++ rest) =
      lineFinish s (splitCRLF rest).2
        ⟨.success, a', false, (lines ++ [last]).map Effect.line, (splitCRLF rest).1⟩ := by
    rw [step_line A s _ ha hr, lineBody_eq, hbuf, List.nil_append, hsp, hcl,
      lineLoop_handshake A s.auth a1 a' lines last _ (fun l hl => (hlines l hl).2) hrun hlast]
  rw [lineFinish_success _ _ _ rfl] at hone
  simp only [join_split] at hone
  have hfr : Framed (handoffState s ⟨.success, a', false, (lines ++ [last]).map Effect.line, (splitCRLF rest).1⟩) := by
    refine Or.inl ⟨hnext, ?_⟩
    show ([] : Bytes).length < 16
    decide
  have hb := binStep_frames _ rest hfr
  simp only [handoffState, List.nil_append] at hb
  simp only [handoffState] at hone
  rw [hone]
  refine ⟨?_, hb.2.1, rfl, hb.2.2⟩
  show rawMsgs (_ ++ _) = _
  rw [rawMsgs_append, rawMsgs_lines, hb.1, rawMsgs_map, List.nil_append]

/-! ### the relation between a state before and the state after the handshake -/

/-- two receivers in binary mode that will behave alike: same buffer, both between two reads -/
def BinEq (s t : St α) : Prop :=
  s.authenticated = true ∧ t.authenticated = true ∧ Framed s ∧ Framed t ∧ s.buffer = t.buffer

/-- a receiver that nobody has read from yet, still in line mode, about to accept `lines ++ [last]` -/
def FreshRx (A : Auth α) (s : St α) (hs : Bytes) : Prop :=
  Ready s ∧ s.authenticated = false ∧ s.buffer = [] ∧ s.closed = false ∧ s.nextMsgLen = 0 ∧
  ∃ lines last, hs = Spec.unlines (lines ++ [last]) ∧ HandshakeOK A s.auth lines last

/-- the post-handshake twin of a fresh receiver: binary mode, nothing buffered -/
def IdleRx (t : St α) : Prop := t.authenticated = true ∧ t.buffer = [] ∧ t.nextMsgLen = 0

/-- one link: either nobody has read yet (the handshake bytes are still in front of the wire), or both sides agree -/
def LinkRel (A : Auth α) (hs : Bytes) (rxH : St α) (wireH : Bytes) (rx : St α) (wire : Bytes) : Prop :=
  (FreshRx A rxH hs ∧ wireH = hs ++ wire ∧ IdleRx rx) ∨ (BinEq rxH rx ∧ wireH = wire)

structure HRel (A : Auth α) (hsUp hsDown : Nat → Bytes) (bH b : BNet V α) : Prop where
  n : bH.n = b.n
  cl : bH.cl = b.cl
  dropped : bH.dropped = b.dropped
  sent : bH.sent = b.sent
  up : ∀ c, LinkRel A (hsUp c) (bH.busRx c) (bH.upWire c) (b.busRx c) (b.upWire c)
  down : ∀ c, LinkRel A (hsDown c) (bH.cliRx c) (bH.downWire c) (b.cliRx c) (b.downWire c)

theorem LinkRel.append {A : Auth α} {hs : Bytes} {rxH rx : St α} {wH w : Bytes}
    (h : LinkRel A hs rxH wH rx w) (x : Bytes) : LinkRel A hs rxH (wH ++ x) rx (w ++ x) := by
  rcases h with ⟨h1, h2, h3⟩ | ⟨h1, h2⟩
  · exact Or.inl ⟨h1, by rw [h2, List.append_assoc], h3⟩
  · exact Or.inr ⟨h1, by rw [h2]⟩

section
variable {C : WireCodec V} {A : Auth α} {hsUp hsDown : Nat → Bytes} {bH b : BNet V α}

theorem HRel.flush (h : HRel A hsUp hsDown bH b) (c : Nat) (cl' : Client V) :
    HRel A hsUp hsDown (bH.flush C c cl') (b.flush C c cl') := by
  refine ⟨h.n, ?_, h.dropped, ?_, ?_, h.down⟩
  · simp only [BNet.flush, h.cl]
  · simp only [BNet.flush, h.sent]
  · intro j
    by_cases hj : j = c
    · subst hj
      simp only [BNet.flush, if_true]
      exact (h.up j).append _
    · simp only [BNet.flush, hj, if_false]
      exact h.up j

theorem HRel.busHandle (h : HRel A hsUp hsDown bH b) (c : Nat) (raw : Bytes) :
    HRel A hsUp hsDown (bH.busHandle C c raw) (b.busHandle C c raw) := by
  unfold BNet.busHandle
  cases C.dec raw with
  | none => exact h
  | some m =>
    simp only
    cases (m.withSender c).dest with
    | none => exact ⟨(by first | rfl | exact h.n), h.cl, by simp only [h.dropped], h.sent, h.up, h.down⟩
    | some d =>
      simp only [h.n]
      split
      · refine ⟨(by first | rfl | exact h.n), h.cl, h.dropped, by simp only [h.sent], h.up, ?_⟩
        intro j
        by_cases hj : j = d
        · subst hj
          simp only [if_true]
          exact (h.down j).append _
        · simp only [hj, if_false]
          exact h.down j
      · exact ⟨(by first | rfl | exact h.n), h.cl, by simp only [h.dropped], h.sent, h.up, h.down⟩

theorem HRel.busFold (c : Nat) (raws : List Bytes) :
    ∀ {bH b : BNet V α}, HRel A hsUp hsDown bH b →
      HRel A hsUp hsDown (raws.foldl (fun acc raw => acc.busHandle C c raw) bH)
        (raws.foldl (fun acc raw => acc.busHandle C c raw) b) := by
  induction raws with
  | nil => intro bH b h; exact h
  | cons r t ih => intro bH b h; exact ih (h.busHandle c r)

theorem HRel.cliHandle (w : World V) (h : HRel A hsUp hsDown bH b) (c : Nat) (raw : Bytes) (beh : Behaviour V) :
    HRel A hsUp hsDown (bH.cliHandle C w c raw beh) (b.cliHandle C w c raw beh) := by
  unfold BNet.cliHandle
  cases C.dec raw with
  | none => exact h
  | some m =>
    simp only [h.cl]
    exact h.flush c _

theorem HRel.cliHandleAll (w : World V) (c : Nat) (raws : List Bytes) :
    ∀ (behs : List (Behaviour V)) {bH b : BNet V α}, HRel A hsUp hsDown bH b →
      HRel A hsUp hsDown (bH.cliHandleAll C w c raws behs) (b.cliHandleAll C w c raws behs) := by
  induction raws with
  | nil => intro behs bH b h; cases behs <;> exact h
  | cons r t ih =>
    intro behs bH b h
    cases behs with
    | nil => exact ih [] (h.cliHandle w c r .deferred)
    | cons beh behs => exact ih behs (h.cliHandle w c r beh)

end

/-- One read on one link, on both sides: `k` bytes on the side that still has the handshake in front (at least the
whole handshake if nobody has read yet), `k - |handshake|` resp. `k` bytes on the other.  Same messages completed, the
link related again. -/
theorem LinkRel.read (A : Auth α) {hs : Bytes} {rxH rx : St α} {wH w : Bytes}
    (h : LinkRel A hs rxH wH rx w) (k : Nat) (hk : rxH.authenticated = false → hs.length ≤ k) :
    ∃ k', rawMsgs (Proto.step A rxH (wH.take k)).2 = rawMsgs (Proto.step A rx (w.take k')).2 ∧
      LinkRel A hs (Proto.step A rxH (wH.take k)).1 (wH.drop k) (Proto.step A rx (w.take k')).1 (w.drop k') := by
  rcases h with ⟨hf, hw, hi⟩ | ⟨he, hw⟩
  · obtain ⟨hr, ha, hbuf, hcl, hnext, lines, last, hhs, hok⟩ := hf
    have hle := hk ha
    obtain ⟨i, rfl⟩ : ∃ i, k = hs.length + i := ⟨k - hs.length, by omega⟩
    refine ⟨i, ?_, ?_⟩
    · rw [hw, List.take_length_add_append, hhs]
      obtain ⟨h1, _, _, _⟩ := handoff_one_read A rxH lines last (w.take i) hr ha hbuf hcl hnext hok
      rw [h1, step_auth A rx _ hi.1]
      have hfr : Framed rx := Or.inl ⟨hi.2.2, by show rx.buffer.length < 16; rw [hi.2.1]; decide⟩
      obtain ⟨g1, _, _⟩ := binStep_frames rx (w.take i) hfr
      rw [g1, rawMsgs_map, hi.2.1, List.nil_append]
    · refine Or.inr ⟨?_, ?_⟩
      · rw [hw, List.take_length_add_append, hhs]
        obtain ⟨_, h2, h3, h4⟩ := handoff_one_read A rxH lines last (w.take i) hr ha hbuf hcl hnext hok
        have hfr : Framed rx := Or.inl ⟨hi.2.2, by show rx.buffer.length < 16; rw [hi.2.1]; decide⟩
        rw [step_auth A rx _ hi.1]
        obtain ⟨_, g2, g3⟩ := binStep_frames rx (w.take i) hfr
        refine ⟨h3, by rw [binStep_auth]; exact hi.1, h4, g3, ?_⟩
        rw [h2, g2, hi.2.1, List.nil_append]
      · rw [hw, List.drop_length_add_append]
  · obtain ⟨a1, a2, f1, f2, hb⟩ := he
    refine ⟨k, ?_, ?_⟩
    · rw [hw, step_auth A rxH _ a1, step_auth A rx _ a2]
      obtain ⟨g1, _, _⟩ := binStep_frames rxH (w.take k) f1
      obtain ⟨g1', _, _⟩ := binStep_frames rx (w.take k) f2
      rw [g1, g1', hb]
    · refine Or.inr ⟨?_, by rw [hw]⟩
      rw [hw, step_auth A rxH _ a1, step_auth A rx _ a2]
      obtain ⟨_, g2, g3⟩ := binStep_frames rxH (w.take k) f1
      obtain ⟨_, g2', g3'⟩ := binStep_frames rx (w.take k) f2
      exact ⟨by rw [binStep_auth]; exact a1, by rw [binStep_auth]; exact a2, g3, g3', by rw [g2, g2', hb]⟩

/-- the restriction on schedules: the first read on a link takes at least the whole remaining handshake -/
def wholeHandshake (hsUp hsDown : Nat → Bytes) (b : BNet V α) : BStep V → Prop
  | .readBus c k => (b.busRx c).authenticated = false → (hsUp c).length ≤ k
  | .readClient c k _ => (b.cliRx c).authenticated = false → (hsDown c).length ≤ k
  | _ => True

def HSRun (C : WireCodec V) (A : Auth α) (w : World V) (hsUp hsDown : Nat → Bytes) : BNet V α → List (BStep V) → Prop
  | _, [] => True
  | b, st :: t => wholeHandshake hsUp hsDown b st ∧ HSRun C A w hsUp hsDown (bstep C A w b st) t

instance (hsUp hsDown : Nat → Bytes) (b : BNet V α) (st : BStep V) : Decidable (wholeHandshake hsUp hsDown b st) := by
  cases st <;> unfold wholeHandshake <;> exact inferInstance

instance decHSRun (C : WireCodec V) (A : Auth α) (w : World V) (hsUp hsDown : Nat → Bytes) :
    ∀ (b : BNet V α) (l : List (BStep V)), Decidable (HSRun C A w hsUp hsDown b l)
  | _, [] => isTrue trivial
  | b, st :: t => by
    unfold HSRun
    exact @instDecidableAnd _ _ _ (decHSRun C A w hsUp hsDown (bstep C A w b st) t)

/-- **One step.**  A step of the network that still has handshakes in front of some wires is a step of the
post-handshake network (a first read shortened by the handshake). -/
theorem HRel.step (C : WireCodec V) (A : Auth α) (w : World V) {hsUp hsDown : Nat → Bytes} {bH b : BNet V α}
    (h : HRel A hsUp hsDown bH b) (st : BStep V) (hst : wholeHandshake hsUp hsDown bH st) :
    ∃ st', HRel A hsUp hsDown (bstep C A w bH st) (bstep C A w b st') := by
  cases st with
  | call c req =>
    refine ⟨.call c req, ?_⟩
    simp only [bstep, h.n, h.cl]
    split
    · exact h.flush c _
    · exact h
  | resolve c tok res =>
    refine ⟨.resolve c tok res, ?_⟩
    simp only [bstep, h.n, h.cl]
    split
    · cases takeExec tok (b.cl c).exec with
      | none => exact h
      | some pr => exact h.flush c _
    · exact h
  | expire c serial =>
    refine ⟨.expire c serial, ?_⟩
    simp only [bstep, h.n, h.cl]
    split
    · cases pLookup (b.cl c).pending serial with
      | none => exact h
      | some v => exact ⟨(by first | rfl | exact h.n), by simp only [h.cl], h.dropped, h.sent, h.up, h.down⟩
    · exact h
  | readBus c k =>
    by_cases hc : c < b.n
    · obtain ⟨k', hm, hl⟩ := (h.up c).read A k hst
      refine ⟨.readBus c k', ?_⟩
      simp only [bstep, h.n, hc, if_true]
      rw [hm]
      apply HRel.busFold
      refine ⟨(by first | rfl | exact h.n), h.cl, h.dropped, h.sent, ?_, h.down⟩
      intro j
      by_cases hj : j = c
      · subst hj; simp only [if_true]; exact hl
      · simp only [hj, if_false]; exact h.up j
    · exact ⟨.readBus c k, by simpa [bstep, h.n, hc] using h⟩
  | readClient c k behs =>
    by_cases hc : c < b.n
    · obtain ⟨k', hm, hl⟩ := (h.down c).read A k hst
      refine ⟨.readClient c k' behs, ?_⟩
      simp only [bstep, h.n, hc, if_true]
      rw [hm]
      apply HRel.cliHandleAll
      refine ⟨(by first | rfl | exact h.n), h.cl, h.dropped, h.sent, h.up, ?_⟩
      intro j
      by_cases hj : j = c
      · subst hj; simp only [if_true]; exact hl
      · simp only [hj, if_false]; exact h.down j
    · exact ⟨.readClient c k behs, by simpa [bstep, h.n, hc] using h⟩

/-- **Runs.**  Every run from a state with handshakes in front, whose first read on each link takes the whole
handshake, is matched step for step by a run of the post-handshake state. -/
theorem handshake_run_reduces (C : WireCodec V) (A : Auth α) (w : World V) {hsUp hsDown : Nat → Bytes} :
    ∀ (steps : List (BStep V)) {bH b : BNet V α}, HRel A hsUp hsDown bH b → HSRun C A w hsUp hsDown bH steps →
      ∃ steps', steps'.length = steps.length ∧ HRel A hsUp hsDown (brun C A w bH steps) (brun C A w b steps') := by
  intro steps
  induction steps with
  | nil => intro bH b h _; exact ⟨[], rfl, h⟩
  | cons st t ih =>
    intro bH b h hrun
    obtain ⟨st', h1⟩ := h.step C A w st hrun.1
    obtain ⟨t', hlen, h2⟩ := ih h1 hrun.2
    exact ⟨st' :: t', by simp [hlen], h2⟩

/-- a direction of a link at the synthetic start: already binary (`hs = []`), or an acceptable remaining handshake -/
def HsOK (A : Auth α) (a : α) (hs : Bytes) : Prop :=
  hs = [] ∨ ∃ lines last, hs = Spec.unlines (lines ++ [last]) ∧ HandshakeOK A a lines last

theorem unlines_ne_nil (lines : List Bytes) (last : Bytes) : Spec.unlines (lines ++ [last]) ≠ [] := by
  intro e
  have : (Spec.unlines (lines ++ [last])).length = 0 := by rw [e]; rfl
  simp [Spec.unlines] at this

/-- the two initial states are related: a link either still has its handshake in front, or is binary on both sides
(the authenticator state of a binary receiver plays no role) -/
theorem hrel_init (A : Auth α) (n : Nat) (first : Nat → Nat) (a0 : α) (aUp aDown : Nat → α) (hsUp hsDown : Nat → Bytes)
    (hup : ∀ c, HsOK A (aUp c) (hsUp c)) (hdown : ∀ c, HsOK A (aDown c) (hsDown c)) :
    HRel A hsUp hsDown (BNet.initH n first aUp aDown hsUp hsDown : BNet V α) (BNet.init n first a0) := by
  have idle : ∀ (cl : Bool) (a : α) (fb : Bool),
      Framed ({ St.init cl a with authenticated := true, firstByte := fb } : St α) :=
    fun cl a fb => Or.inl ⟨rfl, by show (0 : Nat) < 16; omega⟩
  refine ⟨rfl, rfl, rfl, rfl, ?_, ?_⟩
  · intro c
    rcases hup c with h | ⟨lines, last, hhs, hok⟩
    · refine Or.inr ⟨⟨?_, rfl, ?_, idle _ _ _, ?_⟩, ?_⟩
      · simp [BNet.initH, h]
      · simp only [BNet.initH, h, List.isEmpty_nil, if_true]; exact idle _ _ _
      · simp [BNet.initH, BNet.init, h, St.init]
      · simp [BNet.initH, BNet.init, h]
    · have hne : (hsUp c).isEmpty = false := by
        rw [hhs]; cases hx : Spec.unlines (lines ++ [last]) with
        | nil => exact absurd hx (unlines_ne_nil lines last)
        | cons _ _ => rfl
      refine Or.inl ⟨?_, by simp [BNet.initH, BNet.init], rfl, rfl, rfl⟩
      simp only [BNet.initH, hne]
      exact ⟨Or.inr rfl, rfl, rfl, rfl, rfl, lines, last, hhs, hok⟩
  · intro c
    rcases hdown c with h | ⟨lines, last, hhs, hok⟩
    · refine Or.inr ⟨⟨?_, rfl, ?_, idle _ _ _, ?_⟩, ?_⟩
      · simp [BNet.initH, h]
      · simp only [BNet.initH, h, List.isEmpty_nil, if_true]; exact idle _ _ _
      · simp [BNet.initH, BNet.init, h, St.init]
      · simp [BNet.initH, BNet.init, h]
    · have hne : (hsDown c).isEmpty = false := by
        rw [hhs]; cases hx : Spec.unlines (lines ++ [last]) with
        | nil => exact absurd hx (unlines_ne_nil lines last)
        | cons _ _ => rfl
      refine Or.inl ⟨?_, by simp [BNet.initH, BNet.init], rfl, rfl, rfl⟩
      simp only [BNet.initH, hne]
      exact ⟨Or.inl rfl, rfl, rfl, rfl, rfl, lines, last, hhs, hok⟩

/-- quiescence of the state with handshakes is quiescence of its twin: a wire that still starts with a handshake is
not empty -/
theorem HRel.quiescent {A : Auth α} {hsUp hsDown : Nat → Bytes} {bH b : BNet V α} (h : HRel A hsUp hsDown bH b)
    (hq : bH.Quiescent) : b.Quiescent := by
  intro j hj
  obtain ⟨u, d, bb, cb, e⟩ := hq j (by rw [h.n]; exact hj)
  have hu : b.upWire j = [] ∧ (b.busRx j).buffer = [] := by
    rcases h.up j with ⟨hf, hw, _⟩ | ⟨he, hw⟩
    · obtain ⟨_, _, _, _, _, lines, last, hhs, _⟩ := hf
      rw [u, hhs] at hw
      have := List.append_eq_nil_iff.mp hw.symm
      exact absurd this.1 (unlines_ne_nil lines last)
    · exact ⟨by rw [← hw]; exact u, by rw [← he.2.2.2.2]; exact bb⟩
  have hd : b.downWire j = [] ∧ (b.cliRx j).buffer = [] := by
    rcases h.down j with ⟨hf, hw, _⟩ | ⟨he, hw⟩
    · obtain ⟨_, _, _, _, _, lines, last, hhs, _⟩ := hf
      rw [d, hhs] at hw
      have := List.append_eq_nil_iff.mp hw.symm
      exact absurd this.1 (unlines_ne_nil lines last)
    · exact ⟨by rw [← hw]; exact d, by rw [← he.2.2.2.2]; exact cb⟩
  exact ⟨hu.1, hd.1, hu.2, hd.2, by rw [← h.cl]; exact e⟩

end Txdbus.Net
