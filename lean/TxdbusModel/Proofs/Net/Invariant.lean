import TxdbusModel.Proofs.Net.Basic
/-
C11 - the invariant of the network model.

For every issued call (caller `a`, record `r`) the network holds exactly one *token*: the call message
in the caller's `up` queue, the stamped call message in the exporter's `down` queue (or in the bus's
`dropped` log when the destination is not attached), an unfired Deferred at the exporter, the reply in
the exporter's `up` queue, the reply in the caller's `down` queue, or the completion in the caller's
log (`tokens = 1`).  Every item anywhere in the network belongs to an issued call and sits where that
call's record says (`UpOK`, `DownOK`, `DropOK`, `ExecOK`), every reply carries `replyOf` an answer logged
by the exporter (`AnsOK`), every invocation carries the arguments of the call (`InvOK`), every completion
is `outcomeOf` such an answer (`ComplOK`).
-/
namespace Txdbus.Net

variable {V : Type}

/-! ### item predicates -/

def UpOK (w : World V) (net : Net V) (j : Nat) : Msg V → Prop
  | .call n sender dest p i mem g args =>
      ∃ r, r ∈ (net.cl j).issued ∧ Msg.call n sender dest p i mem g args = callMsg none r
  | .reply _ rs sender dest c =>
      sender = none ∧ ∃ a, a < net.n ∧ dest = some a ∧ ∃ r, r ∈ (net.cl a).issued ∧ r.serial = rs ∧ r.dest = j ∧
        ∃ ans, (some a, rs, ans) ∈ (net.cl j).answers ∧ c = replyOf w ans

def DownOK (w : World V) (net : Net V) (j : Nat) : Msg V → Prop
  | .call n sender dest p i mem g args =>
      ∃ a, a < net.n ∧ ∃ r, r ∈ (net.cl a).issued ∧ r.dest = j ∧
        Msg.call n sender dest p i mem g args = callMsg (some a) r
  | .reply _ rs _ _ c =>
      ∃ r, r ∈ (net.cl j).issued ∧ r.serial = rs ∧ r.dest < net.n ∧
        ∃ ans, (some j, rs, ans) ∈ (net.cl r.dest).answers ∧ c = replyOf w ans

def DropOK (net : Net V) (m : Msg V) : Prop :=
  ∃ a, a < net.n ∧ ∃ r, r ∈ (net.cl a).issued ∧ ¬ r.dest < net.n ∧ m = callMsg (some a) r

def ExecOK (w : World V) (net : Net V) (j : Nat) (e : Exec) : Prop :=
  ∃ a, a < net.n ∧ e.sender = some a ∧ ∃ r, r ∈ (net.cl a).issued ∧ r.serial = e.serial ∧ r.dest = j ∧
    ∃ i m f, check w j r.path r.iface r.member r.sig = .run i m f ∧ e.sigOut = m.sigOut ∧ e.nret = m.nret

/-- the answer logged for a call is what `handleMethodCallMessage` decides for it -/
def AnswerFits (w : World V) (j : Nat) (r : CallRec V) (ans : Answer V) : Prop :=
  match check w j r.path r.iface r.member r.sig with
  | .builtin sg b => ans = .builtin sg b
  | .refused n t => ans = .refused n t
  | .run _ m _ => ∃ res, ans = .result m.sigOut m.nret res

def AnsOK (w : World V) (net : Net V) (j : Nat) (x : Option Nat × Nat × Answer V) : Prop :=
  ∃ a, a < net.n ∧ x.1 = some a ∧ ∃ r, r ∈ (net.cl a).issued ∧ r.serial = x.2.1 ∧ r.dest = j ∧
    AnswerFits w j r x.2.2

def InvOK (w : World V) (net : Net V) (j : Nat) (iv : Invocation V) : Prop :=
  ∃ a, a < net.n ∧ ∃ r, r ∈ (net.cl a).issued ∧ r.dest = j ∧
    ∃ i m f, check w j r.path r.iface r.member r.sig = .run i m f ∧
      iv = { sender := some a, serial := r.serial, path := r.path, iface := i.name, member := r.member,
             args := r.args, impl := f.id }

def ComplOK (w : World V) (net : Net V) (a : Nat) (x : Nat × Outcome V) : Prop :=
  ∃ r, r ∈ (net.cl a).issued ∧ r.serial = x.1 ∧
    (x.2 = .timedOut ∨
     (x.2.isTimeout = false ∧ r.dest < net.n ∧
      ∃ ans, (some a, x.1, ans) ∈ (net.cl r.dest).answers ∧ x.2 = outcomeOf r.retSig (replyOf w ans)))

/-! ### counting the tokens of one call -/

/-- Where the call `(a, r)` can be: the seven stages. -/
structure Stages where
  callUp : Nat        -- call message on caller -> bus
  callDown : Nat      -- call message on bus -> exporter, stamped with the caller's name
  dropped : Nat       -- the bus had no such destination
  executing : Nat     -- unfired Deferred at the exporter
  replyUp : Nat       -- reply on exporter -> bus
  replyDown : Nat     -- reply on bus -> caller
  completed : Nat     -- completion by the reply recorded at the caller
  late : Nat          -- the reply arrived after the call had timed out and was ignored

def stages (net : Net V) (a : Nat) (r : CallRec V) : Stages :=
  { callUp := (net.cl a).up.countP (isCall r.serial),
    callDown := (net.cl r.dest).down.countP (isCallFrom a r.serial),
    dropped := net.dropped.countP (isCallFrom a r.serial),
    executing := (net.cl r.dest).exec.countP (execKey a r.serial),
    replyUp := (net.cl r.dest).up.countP (isReplyTo a r.serial),
    replyDown := (net.cl a).down.countP (isReply r.serial),
    completed := (net.cl a).completions.countP (complReplyKey r.serial),
    late := (net.cl a).late.countP (lateKey r.serial) }

def Stages.total (s : Stages) : Nat :=
  s.callUp + s.callDown + s.dropped + s.executing + s.replyUp + s.replyDown + s.completed + s.late

def tokens (net : Net V) (a : Nat) (r : CallRec V) : Nat := (stages net a r).total

def answersFor (net : Net V) (a : Nat) (r : CallRec V) : Nat :=
  (net.cl r.dest).answers.countP (ansKey a r.serial)

def resultsFor (net : Net V) (a : Nat) (r : CallRec V) : Nat :=
  (net.cl r.dest).answers.countP (ansResKey a r.serial)

def invocationsFor (net : Net V) (a : Nat) (r : CallRec V) : Nat :=
  (net.cl r.dest).invocations.countP (invKey a r.serial)

/-! ### the invariant -/

structure Inv (w : World V) (net : Net V) : Prop where
  up_ok : ∀ j m, m ∈ (net.cl j).up → UpOK w net j m
  down_ok : ∀ j m, m ∈ (net.cl j).down → DownOK w net j m
  drop_ok : ∀ m, m ∈ net.dropped → DropOK net m
  exec_ok : ∀ j e, e ∈ (net.cl j).exec → ExecOK w net j e
  ans_ok : ∀ j x, x ∈ (net.cl j).answers → AnsOK w net j x
  inv_ok : ∀ j iv, iv ∈ (net.cl j).invocations → InvOK w net j iv
  compl_ok : ∀ a x, x ∈ (net.cl a).completions → ComplOK w net a x
  serial_lt : ∀ a r, r ∈ (net.cl a).issued → r.serial < (net.cl a).nextSerial
  serial_uniq : ∀ a r r', r ∈ (net.cl a).issued → r' ∈ (net.cl a).issued → r.serial = r'.serial → r = r'
  pend : ∀ a r, r ∈ (net.cl a).issued → (net.cl a).completions.countP (complKey r.serial) = 0 →
    pLookup (net.cl a).pending r.serial = some r.retSig
  /-- what is pending is an issued call that has not completed in any way -/
  pend_inv : ∀ a s v, pLookup (net.cl a).pending s = some v →
    ∃ r, r ∈ (net.cl a).issued ∧ r.serial = s ∧ v = r.retSig ∧ (net.cl a).completions.countP (complKey s) = 0
  /-- a Deferred fires at most once (reply or deadline, whichever comes first) -/
  compl_le : ∀ a s, (net.cl a).completions.countP (complKey s) ≤ 1
  /-- a reply is ignored only when its call has completed (by its deadline) -/
  late_ok : ∀ a s, s ∈ (net.cl a).late → 1 ≤ (net.cl a).completions.countP (complKey s)
  tok : ∀ a r, r ∈ (net.cl a).issued → tokens net a r = 1
  ans_cnt : ∀ a r, r ∈ (net.cl a).issued →
    answersFor net a r = (stages net a r).replyUp + (stages net a r).replyDown + (stages net a r).completed +
      (stages net a r).late
  inv_cnt : ∀ a r, r ∈ (net.cl a).issued →
    invocationsFor net a r = (stages net a r).executing + resultsFor net a r

/-! ### growth of the logs -/

/-- `net'` has the same clients and at least the log entries of `net`. -/
structure Le (net net' : Net V) : Prop where
  n_eq : net'.n = net.n
  issued : ∀ j r, r ∈ (net.cl j).issued → r ∈ (net'.cl j).issued
  answers : ∀ j x, x ∈ (net.cl j).answers → x ∈ (net'.cl j).answers

theorem UpOK.mono {w : World V} {net net' : Net V} (h : Le net net') {j : Nat} {m : Msg V}
    (hm : UpOK w net j m) : UpOK w net' j m := by
  cases m with
  | call n sender dest p i mem g args =>
    obtain ⟨r, hr, e⟩ := hm
    exact ⟨r, h.issued _ _ hr, e⟩
  | reply sn rs sender dest c =>
    obtain ⟨hs, a, ha, hd, r, hr, h1, h2, ans, hans, hc⟩ := hm
    exact ⟨hs, a, by rw [h.n_eq]; exact ha, hd, r, h.issued _ _ hr, h1, h2, ans, h.answers _ _ hans, hc⟩

theorem DownOK.mono {w : World V} {net net' : Net V} (h : Le net net') {j : Nat} {m : Msg V}
    (hm : DownOK w net j m) : DownOK w net' j m := by
  cases m with
  | call n sender dest p i mem g args =>
    obtain ⟨a, ha, r, hr, hd, e⟩ := hm
    exact ⟨a, by rw [h.n_eq]; exact ha, r, h.issued _ _ hr, hd, e⟩
  | reply sn rs sender dest c =>
    obtain ⟨r, hr, h1, h2, ans, hans, hc⟩ := hm
    exact ⟨r, h.issued _ _ hr, h1, by rw [h.n_eq]; exact h2, ans, h.answers _ _ hans, hc⟩

theorem DropOK.mono {net net' : Net V} (h : Le net net') {m : Msg V} (hm : DropOK net m) : DropOK net' m := by
  obtain ⟨a, ha, r, hr, hd, e⟩ := hm
  exact ⟨a, by rw [h.n_eq]; exact ha, r, h.issued _ _ hr, by rw [h.n_eq]; exact hd, e⟩

theorem ExecOK.mono {w : World V} {net net' : Net V} (h : Le net net') {j : Nat} {e : Exec}
    (hm : ExecOK w net j e) : ExecOK w net' j e := by
  obtain ⟨a, ha, hs, r, hr, h1, h2, rest⟩ := hm
  exact ⟨a, by rw [h.n_eq]; exact ha, hs, r, h.issued _ _ hr, h1, h2, rest⟩

theorem AnsOK.mono {w : World V} {net net' : Net V} (h : Le net net') {j : Nat} {x : Option Nat × Nat × Answer V}
    (hm : AnsOK w net j x) : AnsOK w net' j x := by
  obtain ⟨a, ha, hs, r, hr, h1, h2, rest⟩ := hm
  exact ⟨a, by rw [h.n_eq]; exact ha, hs, r, h.issued _ _ hr, h1, h2, rest⟩

theorem InvOK.mono {w : World V} {net net' : Net V} (h : Le net net') {j : Nat} {iv : Invocation V}
    (hm : InvOK w net j iv) : InvOK w net' j iv := by
  obtain ⟨a, ha, r, hr, h1, rest⟩ := hm
  exact ⟨a, by rw [h.n_eq]; exact ha, r, h.issued _ _ hr, h1, rest⟩

theorem ComplOK.mono {w : World V} {net net' : Net V} (h : Le net net') {a : Nat} {x : Nat × Outcome V}
    (hm : ComplOK w net a x) : ComplOK w net' a x := by
  obtain ⟨r, hr, h1, h2⟩ := hm
  refine ⟨r, h.issued _ _ hr, h1, ?_⟩
  rcases h2 with h2 | ⟨h0, h2, ans, hans, ho⟩
  · exact Or.inl h2
  · exact Or.inr ⟨h0, by rw [h.n_eq]; exact h2, ans, h.answers _ _ hans, ho⟩

/-! ### the initial state -/

theorem Inv.init (w : World V) (n : Nat) (first : Nat → Nat) : Inv w (Net.init n first) := by
  constructor <;> intros <;> simp_all [Net.init, Client.init, pLookup]

/-! ### a key no issued call has is nowhere in the network -/

section fresh
variable {w : World V} {net : Net V}

theorem Inv.no_callUp (inv : Inv w net) {a s : Nat} (h : ∀ r, r ∈ (net.cl a).issued → r.serial ≠ s) :
    (net.cl a).up.countP (isCall s) = 0 := by
  apply countP_eq_zero_of
  intro m hm
  have ok := inv.up_ok a m hm
  cases m with
  | call n sender dest p i mem g args =>
    obtain ⟨r, hr, e⟩ := ok
    simp only [callMsg, Msg.call.injEq] at e
    simp only [isCall, beq_eq_false_iff_ne, ne_eq]
    intro hn
    exact h r hr (by rw [← e.1, hn])
  | reply sn rs sender dest c => rfl

theorem Inv.no_callFrom_down (inv : Inv w net) {a s : Nat} (d : Nat)
    (h : ∀ r, r ∈ (net.cl a).issued → r.serial ≠ s) :
    (net.cl d).down.countP (isCallFrom a s) = 0 := by
  apply countP_eq_zero_of
  intro m hm
  have ok := inv.down_ok d m hm
  cases m with
  | call n sender dest p i mem g args =>
    obtain ⟨a', _, r, hr, _, e⟩ := ok
    simp only [callMsg, Msg.call.injEq] at e
    simp only [isCallFrom, Bool.and_eq_false_iff, beq_eq_false_iff_ne, ne_eq]
    by_cases hn : n = s
    · right
      intro hs
      rw [e.2.1] at hs
      have : a' = a := by injection hs
      subst this
      exact h r hr (by rw [← e.1, hn])
    · left; exact hn
  | reply sn rs sender dest c => rfl

theorem Inv.no_callFrom_dropped (inv : Inv w net) {a s : Nat}
    (h : ∀ r, r ∈ (net.cl a).issued → r.serial ≠ s) :
    net.dropped.countP (isCallFrom a s) = 0 := by
  apply countP_eq_zero_of
  intro m hm
  obtain ⟨a', _, r, hr, _, e⟩ := inv.drop_ok m hm
  subst e
  simp only [callMsg, isCallFrom, Bool.and_eq_false_iff, beq_eq_false_iff_ne, ne_eq]
  by_cases hn : r.serial = s
  · right
    intro hs
    have : a' = a := by injection hs
    subst this
    exact h r hr hn
  · left; exact hn

theorem Inv.no_exec (inv : Inv w net) {a s : Nat} (d : Nat)
    (h : ∀ r, r ∈ (net.cl a).issued → r.serial ≠ s) :
    (net.cl d).exec.countP (execKey a s) = 0 := by
  apply countP_eq_zero_of
  intro e he
  obtain ⟨a', _, hs, r, hr, h1, _⟩ := inv.exec_ok d e he
  simp only [execKey, Bool.and_eq_false_iff, beq_eq_false_iff_ne, ne_eq]
  by_cases hn : e.serial = s
  · left
    intro hs'
    rw [hs] at hs'
    have : a' = a := by injection hs'
    subst this
    exact h r hr (by rw [h1, hn])
  · right; exact hn

theorem Inv.no_replyTo (inv : Inv w net) {a s : Nat} (d : Nat)
    (h : ∀ r, r ∈ (net.cl a).issued → r.serial ≠ s) :
    (net.cl d).up.countP (isReplyTo a s) = 0 := by
  apply countP_eq_zero_of
  intro m hm
  have ok := inv.up_ok d m hm
  cases m with
  | call n sender dest p i mem g args => rfl
  | reply sn rs sender dest c =>
    obtain ⟨_, a', _, hd, r, hr, h1, _⟩ := ok
    simp only [isReplyTo, Bool.and_eq_false_iff, beq_eq_false_iff_ne, ne_eq]
    by_cases hn : rs = s
    · right
      intro hs'
      rw [hd] at hs'
      have : a' = a := by injection hs'
      subst this
      exact h r hr (by rw [h1, hn])
    · left; exact hn

theorem Inv.no_reply (inv : Inv w net) {a s : Nat} (h : ∀ r, r ∈ (net.cl a).issued → r.serial ≠ s) :
    (net.cl a).down.countP (isReply s) = 0 := by
  apply countP_eq_zero_of
  intro m hm
  have ok := inv.down_ok a m hm
  cases m with
  | call n sender dest p i mem g args => rfl
  | reply sn rs sender dest c =>
    obtain ⟨r, hr, h1, _⟩ := ok
    simp only [isReply, beq_eq_false_iff_ne, ne_eq]
    intro hn
    exact h r hr (by rw [h1, hn])

theorem Inv.no_compl (inv : Inv w net) {a s : Nat} (h : ∀ r, r ∈ (net.cl a).issued → r.serial ≠ s) :
    (net.cl a).completions.countP (complKey s) = 0 := by
  apply countP_eq_zero_of
  intro x hx
  obtain ⟨r, hr, h1, _⟩ := inv.compl_ok a x hx
  simp only [complKey, beq_eq_false_iff_ne, ne_eq]
  intro hn
  exact h r hr (by rw [h1, hn])

theorem Inv.no_complReply (inv : Inv w net) {a s : Nat} (h : ∀ r, r ∈ (net.cl a).issued → r.serial ≠ s) :
    (net.cl a).completions.countP (complReplyKey s) = 0 := by
  have := inv.no_compl h
  rw [List.countP_eq_zero] at this ⊢
  intro x hx
  have := this x hx
  simp only [complReplyKey, complKey] at this ⊢
  simp [this]

theorem Inv.no_late (inv : Inv w net) {a s : Nat} (h : ∀ r, r ∈ (net.cl a).issued → r.serial ≠ s) :
    (net.cl a).late.countP (lateKey s) = 0 := by
  apply countP_eq_zero_of
  intro x hx
  simp only [lateKey, beq_eq_false_iff_ne, ne_eq]
  intro hn
  have h1 := inv.late_ok a x hx
  rw [hn] at h1
  have := inv.no_compl h
  omega

theorem Inv.no_ans (inv : Inv w net) {a s : Nat} (d : Nat) (h : ∀ r, r ∈ (net.cl a).issued → r.serial ≠ s) :
    (net.cl d).answers.countP (ansKey a s) = 0 := by
  apply countP_eq_zero_of
  intro x hx
  obtain ⟨a', _, hs, r, hr, h1, _⟩ := inv.ans_ok d x hx
  simp only [ansKey, Bool.and_eq_false_iff, beq_eq_false_iff_ne, ne_eq]
  by_cases hn : x.2.1 = s
  · left
    intro hs'
    rw [hs] at hs'
    have : a' = a := by injection hs'
    subst this
    exact h r hr (by rw [h1, hn])
  · right; exact hn

theorem Inv.no_inv (inv : Inv w net) {a s : Nat} (d : Nat) (h : ∀ r, r ∈ (net.cl a).issued → r.serial ≠ s) :
    (net.cl d).invocations.countP (invKey a s) = 0 := by
  apply countP_eq_zero_of
  intro iv hiv
  obtain ⟨a', _, r, hr, _, i, m, f, _, e⟩ := inv.inv_ok d iv hiv
  subst e
  simp only [invKey, Bool.and_eq_false_iff, beq_eq_false_iff_ne, ne_eq]
  by_cases hn : r.serial = s
  · left
    intro hs'
    have : a' = a := by injection hs'
    subst this
    exact h r hr hn
  · right; exact hn

end fresh

end Txdbus.Net
