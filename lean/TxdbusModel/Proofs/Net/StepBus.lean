import TxdbusModel.Proofs.Net.Invariant
/-
C11 - the invariant is preserved when the bus reads one message and forwards (or drops) it.
-/
namespace Txdbus.Net

variable {V : Type}

/-- the bus consumed the head of client `c`'s `up` queue -/
def popUp (net : Net V) (c : Nat) (rest : List (Msg V)) : Net V :=
  net.upd c (fun cl => { cl with up := rest })

/-- the bus wrote `m` to client `d` -/
def pushDown (net : Net V) (d : Nat) (m : Msg V) : Net V :=
  net.upd d (fun cl => { cl with down := cl.down ++ [m] })

def addDropped (net : Net V) (m : Msg V) : Net V := { net with dropped := net.dropped ++ [m] }

theorem busStep_eq (net : Net V) (c : Nat) :
    busStep net c = match (net.cl c).up with
      | [] => net
      | m :: rest =>
        match (m.withSender c).dest with
        | none => addDropped (popUp net c rest) (m.withSender c)
        | some d => if d < net.n then pushDown (popUp net c rest) d (m.withSender c)
                    else addDropped (popUp net c rest) (m.withSender c) := by
  unfold busStep
  cases (net.cl c).up with
  | nil => rfl
  | cons m rest => rfl

section proj
variable (net : Net V) (c d : Nat) (rest : List (Msg V)) (m : Msg V) (j : Nat)

theorem fwd_up : ((pushDown (popUp net c rest) d m).cl j).up = if j = c then rest else (net.cl j).up := by
  simp only [pushDown, popUp, Net.upd_cl]; repeat' split <;> simp_all
theorem fwd_down : ((pushDown (popUp net c rest) d m).cl j).down =
    if j = d then (net.cl j).down ++ [m] else (net.cl j).down := by
  simp only [pushDown, popUp, Net.upd_cl]; repeat' split <;> simp_all
theorem fwd_exec : ((pushDown (popUp net c rest) d m).cl j).exec = (net.cl j).exec := by
  simp only [pushDown, popUp, Net.upd_cl]; repeat' split <;> simp_all
theorem fwd_completions : ((pushDown (popUp net c rest) d m).cl j).completions = (net.cl j).completions := by
  simp only [pushDown, popUp, Net.upd_cl]; repeat' split <;> simp_all
theorem fwd_answers : ((pushDown (popUp net c rest) d m).cl j).answers = (net.cl j).answers := by
  simp only [pushDown, popUp, Net.upd_cl]; repeat' split <;> simp_all
theorem fwd_invocations : ((pushDown (popUp net c rest) d m).cl j).invocations = (net.cl j).invocations := by
  simp only [pushDown, popUp, Net.upd_cl]; repeat' split <;> simp_all
theorem fwd_issued : ((pushDown (popUp net c rest) d m).cl j).issued = (net.cl j).issued := by
  simp only [pushDown, popUp, Net.upd_cl]; repeat' split <;> simp_all
theorem fwd_pending : ((pushDown (popUp net c rest) d m).cl j).pending = (net.cl j).pending := by
  simp only [pushDown, popUp, Net.upd_cl]; repeat' split <;> simp_all
theorem fwd_nextSerial : ((pushDown (popUp net c rest) d m).cl j).nextSerial = (net.cl j).nextSerial := by
  simp only [pushDown, popUp, Net.upd_cl]; repeat' split <;> simp_all
theorem fwd_late : ((pushDown (popUp net c rest) d m).cl j).late = (net.cl j).late := by
  simp only [pushDown, popUp, Net.upd_cl]; repeat' split <;> simp_all
theorem fwd_dropped : (pushDown (popUp net c rest) d m).dropped = net.dropped := rfl
theorem fwd_n : (pushDown (popUp net c rest) d m).n = net.n := rfl

theorem drp_up : ((addDropped (popUp net c rest) m).cl j).up = if j = c then rest else (net.cl j).up := by
  simp only [addDropped, popUp, Net.upd_cl]; repeat' split <;> simp_all
theorem drp_down : ((addDropped (popUp net c rest) m).cl j).down = (net.cl j).down := by
  simp only [addDropped, popUp, Net.upd_cl]; repeat' split <;> simp_all
theorem drp_exec : ((addDropped (popUp net c rest) m).cl j).exec = (net.cl j).exec := by
  simp only [addDropped, popUp, Net.upd_cl]; repeat' split <;> simp_all
theorem drp_completions : ((addDropped (popUp net c rest) m).cl j).completions = (net.cl j).completions := by
  simp only [addDropped, popUp, Net.upd_cl]; repeat' split <;> simp_all
theorem drp_answers : ((addDropped (popUp net c rest) m).cl j).answers = (net.cl j).answers := by
  simp only [addDropped, popUp, Net.upd_cl]; repeat' split <;> simp_all
theorem drp_invocations : ((addDropped (popUp net c rest) m).cl j).invocations = (net.cl j).invocations := by
  simp only [addDropped, popUp, Net.upd_cl]; repeat' split <;> simp_all
theorem drp_issued : ((addDropped (popUp net c rest) m).cl j).issued = (net.cl j).issued := by
  simp only [addDropped, popUp, Net.upd_cl]; repeat' split <;> simp_all
theorem drp_pending : ((addDropped (popUp net c rest) m).cl j).pending = (net.cl j).pending := by
  simp only [addDropped, popUp, Net.upd_cl]; repeat' split <;> simp_all
theorem drp_nextSerial : ((addDropped (popUp net c rest) m).cl j).nextSerial = (net.cl j).nextSerial := by
  simp only [addDropped, popUp, Net.upd_cl]; repeat' split <;> simp_all
theorem drp_late : ((addDropped (popUp net c rest) m).cl j).late = (net.cl j).late := by
  simp only [addDropped, popUp, Net.upd_cl]; repeat' split <;> simp_all
theorem drp_dropped : (addDropped (popUp net c rest) m).dropped = net.dropped ++ [m] := rfl
theorem drp_n : (addDropped (popUp net c rest) m).n = net.n := rfl

end proj

section
variable {w : World V} {net : Net V} {c : Nat}

theorem mem_of_ite_tail {α : Type} {b : Prop} [Decidable b] {l rest : List α} {x y : α}
    (h : b → l = x :: rest) (hy : y ∈ (if b then rest else l)) : y ∈ l := by
  by_cases hb : b
  · simp only [hb, if_true] at hy; rw [h hb]; exact List.mem_cons_of_mem _ hy
  · simpa [hb] using hy

/-- A message forwarded to an attached destination. -/
theorem Inv.forward (inv : Inv w net) {m m' : Msg V} {rest : List (Msg V)} {d : Nat}
    (hup : (net.cl c).up = m :: rest)
    (hnew : DownOK w net d m')
    (hs : ∀ a r, r ∈ (net.cl a).issued →
      (if a = c ∧ isCall r.serial m = true then 1 else 0) =
        (if r.dest = d ∧ isCallFrom a r.serial m' = true then 1 else 0) ∧
      (if r.dest = c ∧ isReplyTo a r.serial m = true then 1 else 0) =
        (if a = d ∧ isReply r.serial m' = true then 1 else 0)) :
    Inv w (pushDown (popUp net c rest) d m') := by
  have hle : Le net (pushDown (popUp net c rest) d m') :=
    ⟨rfl, fun j r h => by rw [fwd_issued]; exact h, fun j x h => by rw [fwd_answers]; exact h⟩
  have hu : ∀ j, j = c → (net.cl j).up = m :: rest := fun j h => h ▸ hup
  constructor
  · intro j x hx
    rw [fwd_up] at hx
    exact (inv.up_ok j x (mem_of_ite_tail (hu j) hx)).mono hle
  · intro j x hx
    rw [fwd_down] at hx
    by_cases hj : j = d
    · simp only [hj, if_true, List.mem_append, List.mem_singleton] at hx
      rcases hx with hx | hx
      · exact (inv.down_ok j x (hj ▸ hx)).mono hle
      · rw [hx, hj]; exact hnew.mono hle
    · simp only [hj, if_false] at hx
      exact (inv.down_ok j x hx).mono hle
  · intro x hx
    exact (inv.drop_ok x hx).mono hle
  · intro j e he
    rw [fwd_exec] at he
    exact (inv.exec_ok j e he).mono hle
  · intro j x hx
    rw [fwd_answers] at hx
    exact (inv.ans_ok j x hx).mono hle
  · intro j iv hiv
    rw [fwd_invocations] at hiv
    exact (inv.inv_ok j iv hiv).mono hle
  · intro a x hx
    rw [fwd_completions] at hx
    exact (inv.compl_ok a x hx).mono hle
  · intro a r h
    rw [fwd_issued] at h; rw [fwd_nextSerial]
    exact inv.serial_lt a r h
  · intro a r r' h h'
    rw [fwd_issued] at h h'
    exact inv.serial_uniq a r r' h h'
  · intro a r h hz
    rw [fwd_issued] at h; rw [fwd_completions] at hz; rw [fwd_pending]
    exact inv.pend a r h hz
  · intro a s v hp
    rw [fwd_pending] at hp; rw [fwd_issued, fwd_completions]
    exact inv.pend_inv a s v hp
  · intro a s
    rw [fwd_completions]; exact inv.compl_le a s
  · intro a s hs
    rw [fwd_late] at hs; rw [fwd_completions]; exact inv.late_ok a s hs
  · intro a r h
    rw [fwd_issued] at h
    have := inv.tok a r h
    have e1 := countP_ite_tail (isCall r.serial) (a = c) (net.cl a).up rest m (hu a)
    have e2 := countP_ite_tail (isReplyTo a r.serial) (r.dest = c) (net.cl r.dest).up rest m (hu r.dest)
    obtain ⟨h1, h2⟩ := hs a r h
    simp only [tokens, stages, Stages.total, fwd_up, fwd_down, fwd_exec, fwd_completions, fwd_late, fwd_dropped,
      countP_ite_snoc] at this ⊢
    omega
  · intro a r h
    rw [fwd_issued] at h
    have := inv.ans_cnt a r h
    have e2 := countP_ite_tail (isReplyTo a r.serial) (r.dest = c) (net.cl r.dest).up rest m (hu r.dest)
    obtain ⟨h1, h2⟩ := hs a r h
    simp only [answersFor, stages, fwd_up, fwd_down, fwd_exec, fwd_completions, fwd_late, fwd_dropped, fwd_answers,
      countP_ite_snoc] at this ⊢
    omega
  · intro a r h
    rw [fwd_issued] at h
    have := inv.inv_cnt a r h
    simp only [invocationsFor, resultsFor, stages, fwd_exec, fwd_answers, fwd_invocations] at this ⊢
    exact this

/-- A call message whose destination is not attached: logged and dropped. -/
theorem Inv.drop (inv : Inv w net) {m m' : Msg V} {rest : List (Msg V)}
    (hup : (net.cl c).up = m :: rest)
    (hnew : DropOK net m')
    (hs : ∀ a r, r ∈ (net.cl a).issued →
      (if a = c ∧ isCall r.serial m = true then 1 else 0) = (if isCallFrom a r.serial m' = true then 1 else 0) ∧
      (if r.dest = c ∧ isReplyTo a r.serial m = true then 1 else 0) = 0) :
    Inv w (addDropped (popUp net c rest) m') := by
  have hle : Le net (addDropped (popUp net c rest) m') :=
    ⟨rfl, fun j r h => by rw [drp_issued]; exact h, fun j x h => by rw [drp_answers]; exact h⟩
  have hu : ∀ j, j = c → (net.cl j).up = m :: rest := fun j h => h ▸ hup
  constructor
  · intro j x hx
    rw [drp_up] at hx
    exact (inv.up_ok j x (mem_of_ite_tail (hu j) hx)).mono hle
  · intro j x hx
    rw [drp_down] at hx
    exact (inv.down_ok j x hx).mono hle
  · intro x hx
    rw [drp_dropped, List.mem_append, List.mem_singleton] at hx
    rcases hx with hx | hx
    · exact (inv.drop_ok x hx).mono hle
    · rw [hx]; exact hnew.mono hle
  · intro j e he
    rw [drp_exec] at he
    exact (inv.exec_ok j e he).mono hle
  · intro j x hx
    rw [drp_answers] at hx
    exact (inv.ans_ok j x hx).mono hle
  · intro j iv hiv
    rw [drp_invocations] at hiv
    exact (inv.inv_ok j iv hiv).mono hle
  · intro a x hx
    rw [drp_completions] at hx
    exact (inv.compl_ok a x hx).mono hle
  · intro a r h
    rw [drp_issued] at h; rw [drp_nextSerial]
    exact inv.serial_lt a r h
  · intro a r r' h h'
    rw [drp_issued] at h h'
    exact inv.serial_uniq a r r' h h'
  · intro a r h hz
    rw [drp_issued] at h; rw [drp_completions] at hz; rw [drp_pending]
    exact inv.pend a r h hz
  · intro a s v hp
    rw [drp_pending] at hp; rw [drp_issued, drp_completions]
    exact inv.pend_inv a s v hp
  · intro a s
    rw [drp_completions]; exact inv.compl_le a s
  · intro a s hs
    rw [drp_late] at hs; rw [drp_completions]; exact inv.late_ok a s hs
  · intro a r h
    rw [drp_issued] at h
    have := inv.tok a r h
    have e1 := countP_ite_tail (isCall r.serial) (a = c) (net.cl a).up rest m (hu a)
    have e2 := countP_ite_tail (isReplyTo a r.serial) (r.dest = c) (net.cl r.dest).up rest m (hu r.dest)
    obtain ⟨h1, h2⟩ := hs a r h
    simp only [tokens, stages, Stages.total, drp_up, drp_down, drp_exec, drp_completions, drp_late, drp_dropped,
      countP_snoc] at this ⊢
    omega
  · intro a r h
    rw [drp_issued] at h
    have := inv.ans_cnt a r h
    have e2 := countP_ite_tail (isReplyTo a r.serial) (r.dest = c) (net.cl r.dest).up rest m (hu r.dest)
    obtain ⟨h1, h2⟩ := hs a r h
    simp only [answersFor, stages, drp_up, drp_down, drp_exec, drp_completions, drp_late, drp_dropped, drp_answers,
      countP_snoc] at this ⊢
    omega
  · intro a r h
    rw [drp_issued] at h
    have := inv.inv_cnt a r h
    simp only [invocationsFor, resultsFor, stages, drp_exec, drp_answers, drp_invocations] at this ⊢
    exact this

theorem Inv.step_toBus (inv : Inv w net) (c : Nat) : Inv w (step w net (.toBus c)) := by
  simp only [step]
  split
  case isFalse => exact inv
  case isTrue hc =>
  rw [busStep_eq]
  cases hup : (net.cl c).up with
  | nil => exact inv
  | cons m rest =>
    have ok := inv.up_ok c m (by rw [hup]; exact List.mem_cons_self)
    cases m with
    | call n sender dest p i mem g args =>
      obtain ⟨r0, hr0, e⟩ := ok
      simp only [callMsg, Msg.call.injEq] at e
      obtain ⟨e1, e2, e3, e4, e5, e6, e7, e8⟩ := e
      subst e1 e2 e3 e4 e5 e6 e7 e8
      simp only [Msg.withSender, Msg.dest]
      have key : ∀ a r, r ∈ (net.cl a).issued → (a = c ∧ r0.serial = r.serial) → r = r0 := by
        intro a r h ⟨ha, hs⟩
        exact inv.serial_uniq c r r0 (ha ▸ h) hr0 hs.symm
      split
      case isTrue hd =>
        refine inv.forward hup ⟨c, hc, r0, hr0, rfl, rfl⟩ ?_
        intro a r h
        constructor
        · simp only [isCall, isCallFrom, beq_iff_eq, Bool.and_eq_true, Option.some.injEq]
          by_cases hk : a = c ∧ r0.serial = r.serial
          · have := key a r h hk
            simp [hk.1, hk.2, this]
          · have : ¬ (r.dest = r0.dest ∧ r0.serial = r.serial ∧ c = a) := fun ⟨_, h2, h3⟩ => hk ⟨h3.symm, h2⟩
            simp [hk, this]
        · simp [isReplyTo, isReply]
      case isFalse hd =>
        refine inv.drop hup ⟨c, hc, r0, hr0, hd, rfl⟩ ?_
        intro a r h
        constructor
        · simp only [isCall, isCallFrom, beq_iff_eq, Bool.and_eq_true, Option.some.injEq]
          by_cases hk : a = c ∧ r0.serial = r.serial
          · simp [hk.1, hk.2]
          · have : ¬ (r0.serial = r.serial ∧ c = a) := fun ⟨h2, h3⟩ => hk ⟨h3.symm, h2⟩
            simp [hk, this]
        · simp [isReplyTo]
    | reply sn rs sender dest content =>
      obtain ⟨hsn, a0, ha0, hd, r0, hr0, h1, h2, ans, hans, hc'⟩ := ok
      subst hsn hd
      simp only [Msg.withSender, Msg.dest, ha0, if_true]
      refine inv.forward hup ⟨r0, hr0, h1, by rw [h2]; exact hc, ans, by rw [h2]; exact hans, hc'⟩ ?_
      intro a r h
      constructor
      · simp [isCall, isCallFrom]
      · simp only [isReplyTo, isReply, beq_iff_eq, Bool.and_eq_true, Option.some.injEq]
        by_cases hk : a = a0 ∧ rs = r.serial
        · have : r = r0 := inv.serial_uniq a0 r r0 (hk.1 ▸ h) hr0 (by rw [h1]; exact hk.2.symm)
          simp [hk.1, hk.2, this, h2]
        · have : ¬ (r.dest = c ∧ rs = r.serial ∧ a0 = a) := fun ⟨_, h2, h3⟩ => hk ⟨h3.symm, h2⟩
          simp [hk, this]

end

end Txdbus.Net
