import TxdbusModel.Net.Compose
/-
C11 - basic lemmas for the network model: the `_pendingCalls` dictionary, taking a Deferred out of
the list of unfired ones, counting with appended / removed elements, the key predicates that say
"this item belongs to the call (caller a, serial s)".
-/
namespace Txdbus.Net

variable {V : Type}

/-! ### `_pendingCalls` -/

theorem pLookup_erase (p : Pending) (k s : Nat) :
    pLookup (pErase p k) s = if s = k then none else pLookup p s := by
  induction p with
  | nil => simp [pErase, pLookup]
  | cons e t ih =>
    obtain ⟨k', v⟩ := e
    simp only [pErase, List.filter] at ih ⊢
    by_cases hk : k' = k
    · subst hk
      simp only [ne_eq, not_true_eq_false, decide_false]
      rw [ih]
      by_cases hs : s = k'
      · simp [hs]
      · have : ¬ k' = s := fun h => hs h.symm
        simp [hs, pLookup, this]
    · simp only [ne_eq, hk, not_false_eq_true, decide_true, pLookup]
      rw [ih]
      by_cases hs : s = k
      · subst hs; simp [hk]
      · simp [hs]

theorem pLookup_append_single (p : Pending) (k : Nat) (v : Option String) (s : Nat) :
    pLookup (p ++ [(k, v)]) s = match pLookup p s with
      | some x => some x
      | none => if k = s then some v else none := by
  induction p with
  | nil => simp [pLookup]
  | cons e t ih =>
    obtain ⟨k', v'⟩ := e
    simp only [List.cons_append, pLookup]
    by_cases h : k' = s
    · simp [h]
    · simp [h, ih]

theorem pLookup_insert (p : Pending) (k : Nat) (v : Option String) (s : Nat) :
    pLookup (pInsert p k v) s = if s = k then some v else pLookup p s := by
  unfold pInsert
  rw [pLookup_append_single, pLookup_erase]
  by_cases h : s = k
  · subst h; simp
  · have : ¬ k = s := fun e => h e.symm
    simp only [h, if_false, this]
    cases pLookup p s <;> rfl

/-! ### unfired Deferreds -/

theorem takeExec_count {tok : Nat} {l rest : List Exec} {e : Exec} (p : Exec → Bool)
    (h : takeExec tok l = some (e, rest)) :
    l.countP p = rest.countP p + (p e).toNat := by
  induction l generalizing rest with
  | nil => simp [takeExec] at h
  | cons x t ih =>
    unfold takeExec at h
    by_cases hx : x.tok = tok
    · simp only [hx, if_true, Option.some.injEq, Prod.mk.injEq] at h
      obtain ⟨rfl, rfl⟩ := h
      rw [List.countP_cons]; cases p x <;> rfl
    · simp only [hx, if_false] at h
      cases ht : takeExec tok t with
      | none => simp [ht] at h
      | some pr =>
        obtain ⟨y, r⟩ := pr
        simp only [ht, Option.some.injEq, Prod.mk.injEq] at h
        obtain ⟨rfl, rfl⟩ := h
        rw [List.countP_cons, List.countP_cons, ih ht]
        omega

theorem takeExec_mem {tok : Nat} {l rest : List Exec} {e : Exec} (h : takeExec tok l = some (e, rest)) :
    e ∈ l ∧ ∀ x, x ∈ rest → x ∈ l := by
  induction l generalizing rest with
  | nil => simp [takeExec] at h
  | cons x t ih =>
    unfold takeExec at h
    by_cases hx : x.tok = tok
    · simp only [hx, if_true, Option.some.injEq, Prod.mk.injEq] at h
      obtain ⟨rfl, rfl⟩ := h
      exact ⟨List.mem_cons_self, fun y hy => List.mem_cons_of_mem _ hy⟩
    · simp only [hx, if_false] at h
      cases ht : takeExec tok t with
      | none => simp [ht] at h
      | some pr =>
        obtain ⟨y, r⟩ := pr
        simp only [ht, Option.some.injEq, Prod.mk.injEq] at h
        obtain ⟨rfl, rfl⟩ := h
        obtain ⟨h1, h2⟩ := ih ht
        refine ⟨List.mem_cons_of_mem _ h1, fun z hz => ?_⟩
        rcases List.mem_cons.mp hz with rfl | hz
        · exact List.mem_cons_self
        · exact List.mem_cons_of_mem _ (h2 z hz)

/-! ### counting -/

theorem countP_snoc {α : Type} (p : α → Bool) (l : List α) (x : α) :
    (l ++ [x]).countP p = l.countP p + (if p x then 1 else 0) := by
  rw [List.countP_append, List.countP_cons, List.countP_nil]; simp

theorem countP_cons_toNat {α : Type} (p : α → Bool) (x : α) (l : List α) :
    (x :: l).countP p = l.countP p + (p x).toNat := by
  rw [List.countP_cons]; cases p x <;> rfl

theorem countP_eq_zero_of {α : Type} (p : α → Bool) (l : List α) (h : ∀ x, x ∈ l → p x = false) :
    l.countP p = 0 := by
  rw [List.countP_eq_zero]
  intro x hx
  simp [h x hx]

theorem countP_one_filter {α : Type} (p : α → Bool) (l : List α) (h : l.countP p = 1) :
    ∃ x, l.filter p = [x] ∧ x ∈ l ∧ p x = true := by
  have hl : (l.filter p).length = 1 := by rw [← List.countP_eq_length_filter]; exact h
  match hf : l.filter p, hl with
  | [x], _ =>
    have hx : x ∈ l.filter p := by rw [hf]; exact List.mem_singleton.mpr rfl
    rw [List.mem_filter] at hx
    exact ⟨x, rfl, hx.1, hx.2⟩

/-! ### which call an item belongs to -/

/-- a call message with serial `s` (in the caller's own `up` queue) -/
def isCall (s : Nat) : Msg V → Bool
  | .call n _ _ _ _ _ _ _ => n == s
  | .reply _ _ _ _ _ => false

/-- a call message the bus stamped with sender `a`, serial `s` -/
def isCallFrom (a s : Nat) : Msg V → Bool
  | .call n sender _ _ _ _ _ _ => n == s && sender == some a
  | .reply _ _ _ _ _ => false

/-- a reply addressed to `a` answering serial `s` (in the exporter's `up` queue) -/
def isReplyTo (a s : Nat) : Msg V → Bool
  | .call _ _ _ _ _ _ _ _ => false
  | .reply _ rs _ d _ => rs == s && d == some a

/-- a reply answering serial `s`: what `methodReturnReceived`/`errorReceived` look at -/
def isReply (s : Nat) : Msg V → Bool
  | .call _ _ _ _ _ _ _ _ => false
  | .reply _ rs _ _ _ => rs == s

def execKey (a s : Nat) (e : Exec) : Bool := e.sender == some a && e.serial == s

def ansKey (a s : Nat) (x : Option Nat × Nat × Answer V) : Bool := x.1 == some a && x.2.1 == s

def Answer.isResult : Answer V → Bool
  | .result _ _ _ => true
  | _ => false

def ansResKey (a s : Nat) (x : Option Nat × Nat × Answer V) : Bool := ansKey a s x && x.2.2.isResult

def invKey (a s : Nat) (i : Invocation V) : Bool := i.sender == some a && i.serial == s

def complKey (s : Nat) (x : Nat × Outcome V) : Bool := x.1 == s

def Outcome.isTimeout : Outcome V → Bool
  | .timedOut => true
  | _ => false

/-- a completion of serial `s` brought about by a reply (not by the deadline) -/
def complReplyKey (s : Nat) (x : Nat × Outcome V) : Bool := x.1 == s && !x.2.isTimeout

def lateKey (s : Nat) (x : Nat) : Bool := x == s

/-! ### `Net.upd` -/

@[simp] theorem Net.upd_n (net : Net V) (c : Nat) (f : Client V → Client V) : (net.upd c f).n = net.n := rfl

@[simp] theorem Net.upd_dropped (net : Net V) (c : Nat) (f : Client V → Client V) :
    (net.upd c f).dropped = net.dropped := rfl

theorem Net.upd_cl (net : Net V) (c : Nat) (f : Client V → Client V) (j : Nat) :
    (net.upd c f).cl j = if j = c then f (net.cl j) else net.cl j := rfl

@[simp] theorem Net.upd_cl_same (net : Net V) (c : Nat) (f : Client V → Client V) :
    (net.upd c f).cl c = f (net.cl c) := by simp [Net.upd_cl]

theorem Net.upd_cl_ne (net : Net V) (c : Nat) (f : Client V → Client V) {j : Nat} (h : j ≠ c) :
    (net.upd c f).cl j = net.cl j := by simp [Net.upd_cl, h]

theorem Net.upd_same (net : Net V) (c : Nat) (f : Client V → Client V) (h : f (net.cl c) = net.cl c) :
    net.upd c f = net := by
  cases net with
  | mk n cl dropped =>
    simp only [Net.upd, Net.mk.injEq, true_and, and_true]
    funext j
    by_cases hj : j = c
    · subst hj; simpa using h
    · simp [hj]

theorem countP_ite_snoc {α : Type} (p : α → Bool) (b : Prop) [Decidable b] (l : List α) (x : α) :
    (if b then l ++ [x] else l).countP p = l.countP p + (if b ∧ p x = true then 1 else 0) := by
  by_cases hb : b <;> simp [hb]

theorem countP_ite_tail {α : Type} (p : α → Bool) (b : Prop) [Decidable b] (l rest : List α) (x : α)
    (h : b → l = x :: rest) :
    (if b then rest else l).countP p + (if b ∧ p x = true then 1 else 0) = l.countP p := by
  by_cases hb : b
  · simp only [hb, if_true, true_and, h hb, List.countP_cons]
  · simp [hb]

end Txdbus.Net
