import TxdbusModel.Proofs.Net.Move
import TxdbusModel.Proofs.Net.StepCall
import TxdbusModel.Proofs.Net.StepBus
/-
C11 - the invariant is preserved when a client reads one message (dispatch of a call, completion by a
reply) and when the application fires a Deferred returned by an exported method.
-/
namespace Txdbus.Net

variable {V : Type}

theorem sendAnswer_moved (w : World V) (cl : Client V) (D : List (Msg V)) (E : List Exec) (sender : Option Nat)
    (serial : Nat) (a : Answer V) :
    sendAnswer w { cl with down := D, exec := E } sender serial a =
      moved cl D E [] [(sender, serial, a)] [.reply cl.nextSerial serial none sender (replyOf w a)]
        (cl.nextSerial + 1) cl.nextTok := by
  simp [sendAnswer, moved]

theorem sendAnswer_inv_moved (w : World V) (cl : Client V) (D : List (Msg V)) (iv : Invocation V)
    (sender : Option Nat) (serial : Nat) (a : Answer V) :
    sendAnswer w { cl with down := D, invocations := cl.invocations ++ [iv] } sender serial a =
      moved cl D cl.exec [iv] [(sender, serial, a)] [.reply cl.nextSerial serial none sender (replyOf w a)]
        (cl.nextSerial + 1) cl.nextTok := by
  simp [sendAnswer, moved]

theorem b2n_comm (b1 b2 : Bool) :
    (if (b1 && b2) = true then 1 else 0) = (if (b2 && b1) = true then (1 : Nat) else 0) := by
  cases b1 <;> cases b2 <;> rfl

section
variable {w : World V} {net : Net V} {c : Nat}

/-- An answer is sent for the stamped call at the head of the `down` queue (with or without an invocation). -/
theorem Inv.answer_call (inv : Inv w net) {a0 : Nat} {r0 : CallRec V} {rest : List (Msg V)}
    {I : List (Invocation V)} {ans : Answer V}
    (ha0 : a0 < net.n) (hr0 : r0 ∈ (net.cl a0).issued) (hdest : r0.dest = c)
    (hdown : (net.cl c).down = callMsg (some a0) r0 :: rest)
    (hfit : AnswerFits w c r0 ans)
    (hI : ∀ iv, iv ∈ I → InvOK w net c iv)
    (hIc : ∀ a s, I.countP (invKey a s) = (ansResKey a s (some a0, r0.serial, ans)).toNat) :
    Inv w (net.upd c (fun cl => moved cl rest (net.cl c).exec I [(some a0, r0.serial, ans)]
      [.reply (net.cl c).nextSerial r0.serial none (some a0) (replyOf w ans)] ((net.cl c).nextSerial + 1)
      (net.cl c).nextTok)) := by
  apply inv.exporter_move
  · intro x hx; rw [hdown]; exact List.mem_cons_of_mem _ hx
  · intro e he; exact Or.inl he
  · exact hI
  · intro x hx
    rw [List.mem_singleton] at hx; subst hx
    exact ⟨a0, ha0, rfl, r0, hr0, rfl, hdest, hfit⟩
  · intro m hm
    rw [List.mem_singleton] at hm; subst hm
    refine ⟨rfl, a0, ha0, rfl, r0, by rw [mv_issued]; exact hr0, rfl, hdest, ans, ?_, rfl⟩
    rw [mv_answers]; simp
  · omega
  · intro s; simp [isCall]
  · intro s; rw [hdown]; simp [callMsg, isReply]
  · intro a s
    rw [hdown]
    simp only [countP_cons_toNat, List.countP_nil, callMsg, isCallFrom, isReplyTo]
    omega
  · intro a s
    simp only [countP_cons_toNat, List.countP_nil, ansKey, isReplyTo]
    cases (some a0 == some a) <;> cases (r0.serial == s) <;> rfl
  · intro a s
    rw [hIc a s]
    simp only [countP_cons_toNat, List.countP_nil]
    cases ansResKey a s (some a0, r0.serial, ans) <;> simp <;> omega

theorem cvtReply_not_timeout (retSig : Option String) (sig : String) (body : List V) :
    (cvtReply retSig sig body).isTimeout = false := by
  unfold cvtReply
  simp only
  repeat' (first | rfl | split)

theorem outcomeOf_not_timeout (retSig : Option String) (content : Reply V) :
    (outcomeOf retSig content).isTimeout = false := by
  cases content with
  | ret sig body => exact cvtReply_not_timeout retSig sig body
  | err name text => rfl

/-- The pending table and the completion counts after the call with serial `s0`, not completed so far, completes
(by its reply or by its deadline). -/
theorem Inv.after_completion (inv : Inv w net) {s0 : Nat} {o : Outcome V}
    (hK : (net.cl c).completions.countP (complKey s0) = 0) :
    (∀ r, r ∈ (net.cl c).issued → ((net.cl c).completions ++ [(s0, o)]).countP (complKey r.serial) = 0 →
      pLookup (pErase (net.cl c).pending s0) r.serial = some r.retSig) ∧
    (∀ s v, pLookup (pErase (net.cl c).pending s0) s = some v → ∃ r, r ∈ (net.cl c).issued ∧ r.serial = s ∧
      v = r.retSig ∧ ((net.cl c).completions ++ [(s0, o)]).countP (complKey s) = 0) ∧
    (∀ s, ((net.cl c).completions ++ [(s0, o)]).countP (complKey s) ≤ 1) ∧
    (∀ s, s ∈ (net.cl c).late → 1 ≤ ((net.cl c).completions ++ [(s0, o)]).countP (complKey s)) := by
  have cnt : ∀ s, ((net.cl c).completions ++ [(s0, o)]).countP (complKey s) =
      (net.cl c).completions.countP (complKey s) + (s0 == s).toNat := by
    intro s
    rw [List.countP_append, countP_cons_toNat, List.countP_nil]; simp [complKey]
  refine ⟨?_, ?_, ?_, ?_⟩
  · intro r hr hz
    rw [cnt] at hz
    have hne : ¬ s0 = r.serial := by
      intro e; simp [e] at hz
    rw [pLookup_erase, if_neg (fun e => hne e.symm)]
    exact inv.pend c r hr (by omega)
  · intro s v hp
    rw [pLookup_erase] at hp
    by_cases hs : s = s0
    · simp [hs] at hp
    · simp only [hs, if_false] at hp
      obtain ⟨r, hr, h1, h2, h3⟩ := inv.pend_inv c s v hp
      refine ⟨r, hr, h1, h2, ?_⟩
      rw [cnt, h3]
      have : (s0 == s) = false := by simpa using fun e => hs e.symm
      simp [this]
  · intro s
    rw [cnt]
    by_cases hs : s0 = s
    · rw [← hs, hK]; simp
    · have : (s0 == s) = false := by simpa using hs
      have := inv.compl_le c s
      simp [*]
  · intro s hs
    rw [cnt]
    have := inv.late_ok c s hs
    omega

theorem Inv.step_toClient (inv : Inv w net) (c : Nat) (beh : Behaviour V) :
    Inv w (step w net (.toClient c beh)) := by
  simp only [step]
  split
  case isFalse => exact inv
  case isTrue hc =>
  unfold clientStep
  cases hdown : (net.cl c).down with
  | nil => exact inv
  | cons m rest =>
    simp only
    have ok := inv.down_ok c m (by rw [hdown]; exact List.mem_cons_self)
    cases m with
    | call n sender dest p i mem g args =>
      obtain ⟨a0, ha0, r0, hr0, hdest, e⟩ := ok
      rw [e] at hdown
      simp only [callMsg, Msg.call.injEq] at e
      obtain ⟨e1, e2, e3, e4, e5, e6, e7, e8⟩ := e
      subst e1 e2 e3 e4 e5 e6 e7 e8
      simp only [receive, dispatch]
      cases hck : check w c r0.path r0.iface r0.member r0.sig with
      | builtin sg b =>
        simp only
        rw [Net.upd_congr net c _ (fun cl => moved cl rest (net.cl c).exec [] [(some a0, r0.serial, .builtin sg b)]
          [.reply (net.cl c).nextSerial r0.serial none (some a0) (replyOf w (.builtin sg b))]
          ((net.cl c).nextSerial + 1) (net.cl c).nextTok) (by simp [sendAnswer, moved])]
        refine inv.answer_call ha0 hr0 hdest hdown ?_ (by simp) ?_
        · simp only [AnswerFits, hck]
        · intro a s; simp [ansResKey, Answer.isResult]
      | refused nm t =>
        simp only
        rw [Net.upd_congr net c _ (fun cl => moved cl rest (net.cl c).exec [] [(some a0, r0.serial, .refused nm t)]
          [.reply (net.cl c).nextSerial r0.serial none (some a0) (replyOf w (.refused nm t))]
          ((net.cl c).nextSerial + 1) (net.cl c).nextTok) (by simp [sendAnswer, moved])]
        refine inv.answer_call ha0 hr0 hdest hdown ?_ (by simp) ?_
        · simp only [AnswerFits, hck]
        · intro a s; simp [ansResKey, Answer.isResult]
      | run ifc md fn =>
        simp only
        have hiv : InvOK w net c (⟨some a0, r0.serial, r0.path, ifc.name, r0.member, r0.args, fn.id⟩ : Invocation V) :=
          ⟨a0, ha0, r0, hr0, hdest, ifc, md, fn, hck, rfl⟩
        cases beh with
        | now res =>
          simp only
          rw [Net.upd_congr net c _ (fun cl => moved cl rest (net.cl c).exec
            [(⟨some a0, r0.serial, r0.path, ifc.name, r0.member, r0.args, fn.id⟩ : Invocation V)]
            [(some a0, r0.serial, .result md.sigOut md.nret res)]
            [.reply (net.cl c).nextSerial r0.serial none (some a0) (replyOf w (.result md.sigOut md.nret res))]
            ((net.cl c).nextSerial + 1) (net.cl c).nextTok) (by simp [sendAnswer, moved])]
          refine inv.answer_call ha0 hr0 hdest hdown ?_ ?_ ?_
          · simp only [AnswerFits, hck]; exact ⟨res, rfl⟩
          · intro iv h; rw [List.mem_singleton] at h; rw [h]; exact hiv
          · intro a s
            simp only [countP_cons_toNat, List.countP_nil, ansResKey, ansKey, invKey, Answer.isResult,
              Bool.and_true, Nat.zero_add]
        | deferred =>
          simp only
          rw [Net.upd_congr net c _ (fun cl => moved cl rest
            ((net.cl c).exec ++ [{ tok := (net.cl c).nextTok, sender := some a0, serial := r0.serial,
                                   sigOut := md.sigOut, nret := md.nret }])
            [(⟨some a0, r0.serial, r0.path, ifc.name, r0.member, r0.args, fn.id⟩ : Invocation V)] [] [] (net.cl c).nextSerial ((net.cl c).nextTok + 1)) (by simp [moved])]
          apply inv.exporter_move
          · intro x hx; rw [hdown]; exact List.mem_cons_of_mem _ hx
          · intro e he
            rw [List.mem_append, List.mem_singleton] at he
            rcases he with he | he
            · exact Or.inl he
            · right; rw [he]
              exact ⟨a0, ha0, rfl, r0, hr0, rfl, hdest, ifc, md, fn, hck, rfl, rfl⟩
          · intro iv h; rw [List.mem_singleton] at h; rw [h]; exact hiv
          · intro x hx; simp at hx
          · intro m hm; simp at hm
          · omega
          · intro s; simp
          · intro s; rw [hdown]; simp [callMsg, isReply]
          · intro a s
            rw [hdown]
            simp only [countP_cons_toNat, List.countP_nil, List.countP_append, callMsg, isCallFrom, execKey]
            cases (some a0 == some a) <;> cases (r0.serial == s) <;> simp <;> omega
          · intro a s; simp
          · intro a s
            simp only [countP_cons_toNat, List.countP_nil, List.countP_append, invKey, execKey]
            omega
    | reply sn rs sender dest content =>
      obtain ⟨r0, hr0, hrs, hdn, ans, hans, hcont⟩ := ok
      cases hp : pLookup (net.cl c).pending rs with
      | some v =>
        obtain ⟨r1, hr1, hs1, hv, hK⟩ := inv.pend_inv c rs v hp
        have e10 : r1 = r0 := inv.serial_uniq c r1 r0 hr1 hr0 (by rw [hs1, hrs])
        subst e10
        rw [Net.upd_congr net c _ (fun cl => callerMoved cl rest (pErase (net.cl c).pending rs)
          [(rs, outcomeOf r1.retSig content)] []) (by simp [receive, complete, callerMoved, hp, hv])]
        obtain ⟨h1, h2, h3, h4⟩ := inv.after_completion (c := c) (o := outcomeOf r1.retSig content) hK
        apply inv.caller_move
        · intro x hx; rw [hdown]; exact List.mem_cons_of_mem _ hx
        · intro x hx
          rw [List.mem_singleton] at hx; subst hx
          exact ⟨r1, hr0, hrs, Or.inr ⟨outcomeOf_not_timeout _ _, hdn, ans, hans, by rw [hcont]⟩⟩
        · intro a s; rw [hdown]; simp [isCallFrom]
        · intro s
          rw [hdown]
          simp only [countP_cons_toNat, List.countP_nil, complReplyKey, isReply, outcomeOf_not_timeout,
            Bool.not_false, Bool.and_true]
          omega
        · exact h1
        · exact h2
        · exact h3
        · intro s hs; rw [List.append_nil] at hs; exact h4 s hs
      | none =>
        have hK : 1 ≤ (net.cl c).completions.countP (complKey rs) := by
          apply Classical.byContradiction
          intro hn
          have h0 : (net.cl c).completions.countP (complKey r0.serial) = 0 := by rw [hrs]; omega
          have := inv.pend c r0 hr0 h0
          rw [hrs, hp] at this
          cases this
        rw [Net.upd_congr net c _ (fun cl => callerMoved cl rest (net.cl c).pending [] [rs])
          (by simp [receive, complete, callerMoved, hp])]
        apply inv.caller_move
        · intro x hx; rw [hdown]; exact List.mem_cons_of_mem _ hx
        · intro x hx; simp at hx
        · intro a s; rw [hdown]; simp [isCallFrom]
        · intro s
          rw [hdown]
          simp only [countP_cons_toNat, List.countP_nil, lateKey, isReply]
          omega
        · intro r hr hz; rw [List.append_nil] at hz; exact inv.pend c r hr hz
        · intro s v hv; rw [List.append_nil]; exact inv.pend_inv c s v hv
        · intro s; rw [List.append_nil]; exact inv.compl_le c s
        · intro s hs
          rw [List.append_nil]
          rw [List.mem_append, List.mem_singleton] at hs
          rcases hs with hs | hs
          · exact inv.late_ok c s hs
          · rw [hs]; exact hK

theorem Inv.step_expire (inv : Inv w net) (c : Nat) (s0 : Nat) : Inv w (step w net (.expire c s0)) := by
  simp only [step]
  split
  case isFalse => exact inv
  case isTrue hc =>
  unfold expireStep
  cases hp : pLookup (net.cl c).pending s0 with
  | none => exact inv
  | some v =>
    simp only
    obtain ⟨r1, hr1, hs1, hv, hK⟩ := inv.pend_inv c s0 v hp
    rw [Net.upd_congr net c _ (fun cl => callerMoved cl (net.cl c).down (pErase (net.cl c).pending s0)
      [(s0, .timedOut)] []) (by simp [callerMoved])]
    obtain ⟨h1, h2, h3, h4⟩ := inv.after_completion (c := c) (o := (.timedOut : Outcome V)) hK
    apply inv.caller_move
    · intro x hx; exact hx
    · intro x hx
      rw [List.mem_singleton] at hx; subst hx
      exact ⟨r1, hr1, hs1, Or.inl rfl⟩
    · intro a s; rfl
    · intro s
      simp [countP_cons_toNat, complReplyKey, Outcome.isTimeout]
    · exact h1
    · exact h2
    · exact h3
    · intro s hs; rw [List.append_nil] at hs; exact h4 s hs

theorem Inv.step_resolve (inv : Inv w net) (c : Nat) (tok : Nat) (res : Result V) :
    Inv w (step w net (.resolve c tok res)) := by
  simp only [step]
  split
  case isFalse => exact inv
  case isTrue hc =>
  unfold resolveStep
  cases ht : takeExec tok (net.cl c).exec with
  | none => exact inv
  | some pr =>
    obtain ⟨e, rest⟩ := pr
    simp only
    obtain ⟨hmem, hsub⟩ := takeExec_mem ht
    obtain ⟨a0, ha0, hsender, r0, hr0, hserial, hdest, ifc, md, fn, hck, hso, hnr⟩ := inv.exec_ok c e hmem
    rw [Net.upd_congr net c _ (fun cl => moved cl (net.cl c).down rest []
      [(e.sender, e.serial, .result e.sigOut e.nret res)]
      [.reply (net.cl c).nextSerial e.serial none e.sender (replyOf w (.result e.sigOut e.nret res))]
      ((net.cl c).nextSerial + 1) (net.cl c).nextTok) (by simp [sendAnswer, moved])]
    apply inv.exporter_move
    · intro x hx; exact hx
    · intro x hx; exact Or.inl (hsub x hx)
    · intro iv h; simp at h
    · intro x hx
      rw [List.mem_singleton] at hx; subst hx
      refine ⟨a0, ha0, hsender, r0, hr0, hserial, hdest, ?_⟩
      simp only [AnswerFits, hck, hso, hnr]
      exact ⟨res, rfl⟩
    · intro m hm
      rw [List.mem_singleton] at hm; subst hm
      refine ⟨rfl, a0, ha0, hsender, r0, by rw [mv_issued]; exact hr0, hserial, hdest,
        .result e.sigOut e.nret res, ?_, rfl⟩
      rw [mv_answers, hsender]; simp
    · omega
    · intro s; simp [isCall]
    · intro s; rfl
    · intro a s
      rw [takeExec_count (execKey a s) ht]
      simp only [countP_cons_toNat, List.countP_nil, isReplyTo, execKey]
      cases (e.sender == some a) <;> cases (e.serial == s) <;> simp <;> omega
    · intro a s
      simp only [countP_cons_toNat, List.countP_nil, ansKey, isReplyTo]
      cases (e.sender == some a) <;> cases (e.serial == s) <;> rfl
    · intro a s
      rw [takeExec_count (execKey a s) ht]
      simp only [countP_cons_toNat, List.countP_nil, ansResKey, ansKey, execKey, Answer.isResult, Bool.and_true]
      cases (e.sender == some a) <;> cases (e.serial == s) <;> simp <;> omega

theorem Inv.step (inv : Inv w net) (st : Step V) : Inv w (step w net st) := by
  cases st with
  | call c req => exact inv.step_call c req
  | toBus c => exact inv.step_toBus c
  | toClient c beh => exact inv.step_toClient c beh
  | resolve c tok res => exact inv.step_resolve c tok res
  | expire c s0 => exact inv.step_expire c s0

theorem Inv.run (inv : Inv w net) (steps : List (Step V)) : Inv w (run w net steps) := by
  induction steps generalizing net with
  | nil => exact inv
  | cons st rest ih => exact ih (inv.step st)

end

end Txdbus.Net
