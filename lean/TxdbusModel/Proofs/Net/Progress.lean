import TxdbusModel.Proofs.Net.StepBus
/-
C11 - quiescence can always be reached: the premise of `C11_end_to_end` is never vacuous.

From EVERY state of the network (reachable or not) some finite schedule of deliveries and Deferred
firings leads to a quiescent state: nothing is ever stuck in a queue.  Each message and each unfired
Deferred carries a weight that strictly decreases along its way (call in `up` 5, call in `down` 4,
Deferred 3, reply in `up` 2, reply in `down` 1); every enabled delivery/firing lowers the total.
-/
namespace Txdbus.Net

variable {V : Type}

def wUp : Msg V → Nat
  | .call _ _ _ _ _ _ _ _ => 5
  | .reply _ _ _ _ _ => 2

def wDown : Msg V → Nat
  | .call _ _ _ _ _ _ _ _ => 4
  | .reply _ _ _ _ _ => 1

def weight (cl : Client V) : Nat :=
  (cl.up.map wUp).sum + (cl.down.map wDown).sum + 3 * cl.exec.length

def potentialUpTo (cl : Nat → Client V) : Nat → Nat
  | 0 => 0
  | k + 1 => potentialUpTo cl k + weight (cl k)

def potential (net : Net V) : Nat := potentialUpTo net.cl net.n

theorem potentialUpTo_congr (cl cl' : Nat → Client V) (k : Nat) (h : ∀ j, j < k → cl' j = cl j) :
    potentialUpTo cl' k = potentialUpTo cl k := by
  induction k with
  | zero => rfl
  | succ k ih =>
    simp only [potentialUpTo]
    rw [ih (fun j hj => h j (by omega)), h k (by omega)]

theorem potentialUpTo_upd (cl : Nat → Client V) (c : Nat) (x : Client V) (k : Nat) (hc : c < k) :
    potentialUpTo (fun j => if j = c then x else cl j) k + weight (cl c) = potentialUpTo cl k + weight x := by
  induction k with
  | zero => omega
  | succ k ih =>
    simp only [potentialUpTo]
    by_cases hk : c = k
    · subst hk
      have := potentialUpTo_congr cl (fun j => if j = c then x else cl j) c
        (fun j hj => by simp [Nat.ne_of_lt hj])
      simp only [if_true] at this ⊢
      omega
    · have := ih (by omega)
      have hne : ¬ k = c := fun e => hk e.symm
      simp only [hne, if_false]
      omega

theorem potential_upd (net : Net V) (c : Nat) (f : Client V → Client V) (hc : c < net.n) :
    potential (net.upd c f) + weight (net.cl c) = potential net + weight (f (net.cl c)) := by
  have := potentialUpTo_upd net.cl c (f (net.cl c)) net.n hc
  simp only [potential, Net.upd]
  have e : (fun j => if j = c then f (net.cl j) else net.cl j) = (fun j => if j = c then f (net.cl c) else net.cl j) := by
    funext j; by_cases hj : j = c <;> simp [hj]
  rw [e]; exact this

/-- `potential_upd` with the two weights named by the caller (so that arithmetic never depends on the
syntactic form of a record update). -/
theorem potential_upd' (net : Net V) (c : Nat) (f : Client V → Client V) (hc : c < net.n) (wOld wNew : Nat)
    (ho : weight (net.cl c) = wOld) (hn : weight (f (net.cl c)) = wNew) :
    potential (net.upd c f) + wOld = potential net + wNew := by
  rw [← ho, ← hn]; exact potential_upd net c f hc

theorem wDown_withSender (m : Msg V) (c : Nat) : wDown (m.withSender c) + 1 = wUp m := by
  cases m <;> rfl

/-- Some step lowers the potential of a state that is not quiescent. -/
theorem progress (w : World V) (net : Net V) (h : ¬ net.Quiescent) :
    ∃ st, potential (step w net st) < potential net := by
  have : ∃ j, j < net.n ∧ ¬ ((net.cl j).up = [] ∧ (net.cl j).down = [] ∧ (net.cl j).exec = []) := by
    apply Classical.byContradiction
    intro hn
    apply h
    intro j hj
    apply Classical.byContradiction
    intro hq
    exact hn ⟨j, hj, hq⟩
  obtain ⟨j, hj, hne⟩ := this
  -- the three components of the weight of client j
  let U := ((net.cl j).up.map wUp).sum
  let D := ((net.cl j).down.map wDown).sum
  let E := (net.cl j).exec.length
  have hW : weight (net.cl j) = U + D + 3 * E := rfl
  cases hup : (net.cl j).up with
  | cons m rest =>
    refine ⟨.toBus j, ?_⟩
    simp only [step, hj, if_true]
    rw [busStep_eq, hup]
    simp only
    have hU : U = wUp m + (rest.map wUp).sum := by simp only [U, hup, List.map_cons, List.sum_cons]
    have h1 := potential_upd' net j (fun cl => { cl with up := rest }) hj (U + D + 3 * E)
      ((rest.map wUp).sum + D + 3 * E) hW rfl
    have hdrop : ∀ x, potential (addDropped (popUp net j rest) x) = potential (popUp net j rest) := fun _ => rfl
    have hwu : 2 ≤ wUp m := by cases m <;> simp [wUp]
    have hpop : potential (popUp net j rest) + wUp m = potential net := by
      simp only [popUp]; omega
    cases hd : (m.withSender j).dest with
    | none =>
      simp only
      rw [hdrop]; omega
    | some d =>
      simp only
      split
      · rename_i hdn
        have h2 := potential_upd' (popUp net j rest) d (fun cl => { cl with down := cl.down ++ [m.withSender j] })
          (by simpa [popUp] using hdn) (weight ((popUp net j rest).cl d))
          (weight ((popUp net j rest).cl d) + wDown (m.withSender j)) rfl
          (by simp only [weight, List.map_append, List.sum_append, List.map_cons, List.map_nil, List.sum_cons,
                List.sum_nil]; omega)
        have h3 := wDown_withSender m j
        have : potential (pushDown (popUp net j rest) d (m.withSender j)) =
            potential (popUp net j rest) + wDown (m.withSender j) := by
          simp only [pushDown]; omega
        omega
      · rw [hdrop]; omega
  | nil =>
    have hU : U = 0 := by simp only [U, hup, List.map_nil, List.sum_nil]
    cases hdown : (net.cl j).down with
    | cons m rest =>
      refine ⟨.toClient j .deferred, ?_⟩
      simp only [step, hj, if_true, clientStep, hdown]
      have hD : D = wDown m + (rest.map wDown).sum := by simp only [D, hdown, List.map_cons, List.sum_cons]
      suffices ∃ wNew, weight (receive w j { net.cl j with down := rest } m .deferred) = wNew ∧ wNew < U + D + 3 * E by
        obtain ⟨wNew, hn, hlt⟩ := this
        have h1 := potential_upd' net j (fun cl => receive w j { cl with down := rest } m .deferred) hj
          (U + D + 3 * E) wNew hW hn
        omega
      cases m with
      | call n sender dest p i mem g args =>
        have hDm : D = 4 + (rest.map wDown).sum := hD
        simp only [receive, dispatch]
        cases check w j p i mem g with
        | builtin sg b =>
          refine ⟨2 + (rest.map wDown).sum + 3 * E, ?_, by omega⟩
          simp only [sendAnswer, weight, hup, List.map_append, List.sum_append, List.map_cons, List.map_nil,
            List.sum_cons, List.sum_nil, wUp, E]
          omega
        | refused nm t =>
          refine ⟨2 + (rest.map wDown).sum + 3 * E, ?_, by omega⟩
          simp only [sendAnswer, weight, hup, List.map_append, List.sum_append, List.map_cons, List.map_nil,
            List.sum_cons, List.sum_nil, wUp, E]
          omega
        | run ifc md =>
          refine ⟨(rest.map wDown).sum + 3 * (E + 1), ?_, by omega⟩
          simp only [weight, hup, List.map_nil, List.sum_nil, List.length_append, List.length_cons,
            List.length_nil, E]
          omega
      | reply sn rs sender dest content =>
        have hDm : D = 1 + (rest.map wDown).sum := hD
        refine ⟨(rest.map wDown).sum + 3 * E, ?_, by omega⟩
        simp only [receive, complete]
        cases pLookup (net.cl j).pending rs with
        | none => simp only [weight, hup, List.map_nil, List.sum_nil, E]; omega
        | some rsig => simp only [weight, hup, List.map_nil, List.sum_nil, E]; omega
    | nil =>
      have hD : D = 0 := by simp only [D, hdown, List.map_nil, List.sum_nil]
      cases hexec : (net.cl j).exec with
      | nil => exact absurd ⟨hup, hdown, hexec⟩ hne
      | cons e rest =>
        refine ⟨.resolve j e.tok (.raised ⟨none, "", ""⟩), ?_⟩
        have ht : takeExec e.tok (net.cl j).exec = some (e, rest) := by
          rw [hexec]; simp [takeExec]
        have hE : E = rest.length + 1 := by simp only [E, hexec, List.length_cons]
        simp only [step, hj, if_true, resolveStep, ht]
        have h1 := potential_upd' net j (fun cl => sendAnswer w { cl with exec := rest } e.sender e.serial
          (.result e.sigOut e.nret (.raised ⟨none, "", ""⟩))) hj (U + D + 3 * E) (2 + 3 * rest.length) hW
          (by simp only [sendAnswer, weight, hup, hdown, List.map_append, List.sum_append, List.map_cons,
                List.map_nil, List.sum_cons, List.sum_nil, wUp]; omega)
        omega

/-- From every state some schedule reaches a quiescent state. -/
theorem quiescence_reachable_aux (w : World V) : ∀ (k : Nat) (net : Net V), potential net ≤ k →
    ∃ steps, (run w net steps).Quiescent := by
  intro k
  induction k with
  | zero =>
    intro net hk
    by_cases hq : net.Quiescent
    · exact ⟨[], hq⟩
    · obtain ⟨st, hlt⟩ := progress w net hq
      omega
  | succ k ih =>
    intro net hk
    by_cases hq : net.Quiescent
    · exact ⟨[], hq⟩
    · obtain ⟨st, hlt⟩ := progress w net hq
      obtain ⟨steps, hs⟩ := ih (step w net st) (by omega)
      exact ⟨st :: steps, hs⟩

end Txdbus.Net
