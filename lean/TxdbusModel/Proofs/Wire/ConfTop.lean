import TxdbusModel.Proofs.Wire.ConfMarshal
import TxdbusModel.Proofs.Wire.ConfNormal
import TxdbusModel.Proofs.Wire.ToSpecSound
import TxdbusModel.Proofs.Wire.TopLevel
/-
Whole-signature theorems for the second formulation of conformance (`Conf`), and the link from the
executable checks of the driver (`toSpecTop`, `keysOKCheck`) to the hypotheses of the theorems.
-/
set_option linter.unusedSimpArgs false

namespace Txdbus
namespace Code

theorem marshal_eq_spec_conf (A : AlignTable) (hA : PadOK A) (hpos : A.Pos) (le : Bool) (ts : List Ty) (pv : PyVal)
    (items : List PyVal) (vs : List Val) (lall : List PyVal) (k' off : Nat) (bs : Bytes) (fuel : Nat)
    (hitems : structFields pv = some items) (hrep : ConfFields lall vs true ts items 0 k')
    (henc : Spec.encodeAll A (endianOf le) ts vs off = some bs) (hfuel : depthAll vs ≤ fuel) :
    marshal fuel (renderAll ts) pv off le (some []) = .ok (bs.length, bs, some (lall.take k')) := by
  unfold marshal marshalTop
  unfold Spec.encodeAll at henc
  have h := marshalSeq_conf A hA hpos lall le vs true ts items 0 k' off bs fuel hrep henc hfuel
  simp only [fdsArg, if_true, List.take_zero] at h
  simp only [topItems_of_fields pv items hitems, lazyPieces_renderAll, h]
  simp

/-! ### the executable checks certify the hypotheses -/

theorem keyForms_eq (ks : List PyVal) (kfs : List KeyForm) (h : keyForms ks = some kfs) :
    ks.map keyForm? = kfs.map some := by
  induction ks generalizing kfs with
  | nil => simp only [keyForms, Option.some.injEq] at h; subst h; rfl
  | cons k ks ih =>
    simp only [keyForms] at h
    split at h <;> try (simp at h; done)
    rename_i kf kfs' hk hks
    simp only [Option.some.injEq] at h; subst h
    simp [hk, ih kfs' hks]

theorem distinctKeysCheck_sound (ks : List PyVal) (h : distinctKeysCheck ks = true) : DistinctKeys ks := by
  unfold distinctKeysCheck at h
  split at h <;> try (simp at h; done)
  rename_i kfs hk
  exact ⟨kfs, keyForms_eq ks kfs hk, by simpa using h⟩

mutual
theorem keysOKCheck_sound : ∀ pv : PyVal, keysOKCheck pv = true → KeysOKB pv
  | .list xs, h => by simp only [keysOKCheck] at h; simp only [KeysOKB]; exact keysOKCheckList_sound xs h
  | .tuple xs, h => by simp only [keysOKCheck] at h; simp only [KeysOKB]; exact keysOKCheckList_sound xs h
  | .obj _ _ fs, h => by simp only [keysOKCheck] at h; simp only [KeysOKB]; exact keysOKCheckList_sound fs h
  | .dict kvs, h => by
    simp only [keysOKCheck, Bool.and_eq_true] at h
    simp only [KeysOKB]
    exact ⟨distinctKeysCheck_sound _ h.1, keysOKCheckPairs_sound kvs h.2⟩
  | .none, _ => by simp [KeysOKB]
  | .bool _, _ => by simp [KeysOKB]
  | .int _ _, _ => by simp [KeysOKB]
  | .float _, _ => by simp [KeysOKB]
  | .str _ _, _ => by simp [KeysOKB]
  | .bytearray _, _ => by simp [KeysOKB]
  | .other _, _ => by simp [KeysOKB]
theorem keysOKCheckList_sound : ∀ xs : List PyVal, keysOKCheckList xs = true → KeysOKBList xs
  | [], _ => by simp [KeysOKBList]
  | x :: xs, h => by
    simp only [keysOKCheckList, Bool.and_eq_true] at h
    simp only [KeysOKBList]
    exact ⟨keysOKCheck_sound x h.1, keysOKCheckList_sound xs h.2⟩
theorem keysOKCheckPairs_sound : ∀ kvs : List (PyVal × PyVal), keysOKCheckPairs kvs = true → KeysOKBPairs kvs
  | [], _ => by simp [KeysOKBPairs]
  | (k, v) :: kvs, h => by
    simp only [keysOKCheckPairs, Bool.and_eq_true] at h
    simp only [KeysOKBPairs]
    exact ⟨keysOKCheck_sound k h.1.1, keysOKCheck_sound v h.1.2, keysOKCheckPairs_sound kvs h.2⟩
end

/-- What `toSpecTop` answers is a witness of conformance (with the descriptor list it returns). -/
theorem toSpecTop_sound (n : Nat) (ts : List Ty) (pv : PyVal) (vs : List Val) (fdl : List PyVal)
    (h : toSpecTop n ts pv = some (vs, fdl)) :
    ∃ items, structFields pv = some items ∧ ConfFields fdl vs true ts items 0 fdl.length := by
  unfold toSpecTop at h
  split at h <;> try (simp at h; done)
  rename_i items hitems
  rw [toSpecStructFields_eq] at hitems
  have hs := toSpecFields_sound n true ts items [] vs fdl h
  exact ⟨items, hitems, by simpa using hs.2 fdl (List.prefix_refl _)⟩

theorem keysOKB_fields (pv : PyVal) (items : List PyVal) (h : structFields pv = some items) (hk : KeysOKB pv) :
    KeysOKBList items := (fields_plainB pv items h).2 hk

end Code
end Txdbus
