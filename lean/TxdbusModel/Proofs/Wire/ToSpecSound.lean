import TxdbusModel.Wire.ToSpec
import TxdbusModel.Proofs.Wire.Conf
import TxdbusModel.Proofs.Wire.SigParse
/-
Soundness of the executable reading `Code.toSpec` w.r.t. the conformance relation `Code.Conf`: whenever the
driver's `specenc` operation finds a spec value for a generated case, the case satisfies the hypotheses
`ConfFields …` of `C01_roundtrip_conf` / `C02_encode_conf`, with the descriptor list the function returns.
-/
set_option linter.unusedSimpArgs false

namespace Txdbus
namespace Code

theorem isPlainScalar_plainB (pv : PyVal) (h : isPlainScalar pv = true) : plainB pv = pv := by
  cases pv <;> simp [isPlainScalar] at h <;> try rfl
  all_goals (rename_i c _; cases c <;> simp [isPlainScalar] at h <;> rfl)

theorem toSpecArrayElems_eq (pv : PyVal) : toSpecArrayElems pv = arrayElems pv := by
  cases pv <;> rfl

theorem toSpecStructFields_eq (pv : PyVal) : toSpecStructFields pv = structFields pv := by
  cases pv <;> rfl

theorem prefix_getElem (fds : List PyVal) (pv : PyVal) (lall : List PyVal) (h : fds ++ [pv] <+: lall) :
    lall[fds.length]? = some pv := by
  obtain ⟨r, rfl⟩ := h
  simp

theorem toSpecBasic_sound (fd : Bool) (c : Basic) (pv : PyVal) (fds : List PyVal) (v : Val) (fds' : List PyVal)
    (h : toSpecBasic fd c pv fds = some (v, fds')) :
    fds <+: fds' ∧ ∀ lall, fds' <+: lall → Conf lall v fd (.basic c) pv fds.length fds'.length := by
  cases c
  case h =>
    simp only [toSpecBasic] at h
    split at h <;> try (simp at h; done)
    rename_i hc
    simp only [Bool.and_eq_true] at hc
    simp only [Option.some.injEq, Prod.mk.injEq] at h
    obtain ⟨rfl, rfl⟩ := h
    refine ⟨List.prefix_append _ _, fun lall hl => ?_⟩
    simp only [Conf]
    exact ⟨.h, rfl, Or.inl ⟨rfl, hc.1, rfl, by simp, prefix_getElem fds pv lall hl, isPlainScalar_plainB pv hc.2⟩⟩
  case b =>
    cases pv <;> simp only [toSpecBasic] at h <;> try (simp at h; done)
    · simp only [Option.some.injEq, Prod.mk.injEq] at h
      obtain ⟨rfl, rfl⟩ := h
      refine ⟨List.prefix_refl _, fun lall _ => ?_⟩
      simp only [Conf]
      exact ⟨.b, rfl, Or.inr ⟨by decide, Or.inl rfl, rfl⟩⟩
    · rename_i cls n
      cases cls <;> simp only at h <;> try (simp at h; done)
      split at h
      · rename_i h0
        simp only [Option.some.injEq, Prod.mk.injEq] at h
        obtain ⟨rfl, rfl⟩ := h
        refine ⟨List.prefix_refl _, fun lall _ => ?_⟩
        simp only [Conf]
        exact ⟨.b, rfl, Or.inr ⟨by decide, Or.inr (by simp [h0]), rfl⟩⟩
      · split at h <;> try (simp at h; done)
        rename_i h1
        simp only [Option.some.injEq, Prod.mk.injEq] at h
        obtain ⟨rfl, rfl⟩ := h
        refine ⟨List.prefix_refl _, fun lall _ => ?_⟩
        simp only [Conf]
        exact ⟨.b, rfl, Or.inr ⟨by decide, Or.inr (by simp [h1]), rfl⟩⟩
  case d =>
    cases pv <;> simp only [toSpecBasic] at h <;> try (simp at h; done)
    simp only [Option.some.injEq, Prod.mk.injEq] at h
    obtain ⟨rfl, rfl⟩ := h
    refine ⟨List.prefix_refl _, fun lall _ => ?_⟩
    simp only [Conf]
    exact ⟨.d, rfl, Or.inr ⟨by decide, rfl, rfl⟩⟩
  case s =>
    cases pv <;> simp only [toSpecBasic] at h <;> try (simp at h; done)
    simp only [Option.some.injEq, Prod.mk.injEq] at h
    obtain ⟨rfl, rfl⟩ := h
    refine ⟨List.prefix_refl _, fun lall _ => ?_⟩
    simp only [Conf]
    exact ⟨.s, rfl, Or.inr ⟨by decide, ⟨_, _, rfl, rfl⟩, rfl⟩⟩
  case o =>
    cases pv <;> simp only [toSpecBasic] at h <;> try (simp at h; done)
    split at h <;> try (simp at h; done)
    rename_i hp
    simp only [Option.some.injEq, Prod.mk.injEq] at h
    obtain ⟨rfl, rfl⟩ := h
    refine ⟨List.prefix_refl _, fun lall _ => ?_⟩
    simp only [Conf]
    exact ⟨.o, rfl, Or.inr ⟨by decide, ⟨_, _, rfl, rfl, hp⟩, rfl⟩⟩
  case g =>
    cases pv <;> simp only [toSpecBasic] at h <;> try (simp at h; done)
    split at h <;> try (simp at h; done)
    rename_i bs hb
    simp only [Option.some.injEq, Prod.mk.injEq] at h
    obtain ⟨rfl, rfl⟩ := h
    refine ⟨List.prefix_refl _, fun lall _ => ?_⟩
    simp only [Conf]
    exact ⟨.g, rfl, Or.inr ⟨by decide, ⟨_, _, rfl, hb⟩, rfl⟩⟩
  all_goals
    cases pv <;> simp only [toSpecBasic] at h <;> try (simp at h; done)
    split at h <;> try (simp at h; done)
    rename_i hcls
    simp only [Option.some.injEq, Prod.mk.injEq] at h
    obtain ⟨rfl, rfl⟩ := h
    refine ⟨List.prefix_refl _, fun lall _ => ?_⟩
    simp only [Conf]
    exact ⟨_, rfl, Or.inr ⟨by decide, ⟨_, hcls, rfl⟩, rfl⟩⟩

theorem toSpecBasic_nofd (c : Basic) (pv : PyVal) (fds : List PyVal) (v : Val) (fds' : List PyVal)
    (h : toSpecBasic false c pv fds = some (v, fds')) : fds' = fds := by
  cases c <;> cases pv <;> simp only [toSpecBasic, Bool.false_and, Bool.false_eq_true, if_false, reduceCtorEq] at h <;>
    try (simp at h; done)
  all_goals first
    | (simp only [Option.some.injEq, Prod.mk.injEq] at h; exact h.2.symm)
    | (split at h <;> first
        | (simp at h; done)
        | (simp only [Option.some.injEq, Prod.mk.injEq] at h; exact h.2.symm)
        | (split at h <;> first
            | (simp at h; done)
            | (simp only [Option.some.injEq, Prod.mk.injEq] at h; exact h.2.symm)))
    | (rename_i cls n; cases cls <;> simp only at h <;> first
        | (simp at h; done)
        | (split at h <;> first
            | (simp only [Option.some.injEq, Prod.mk.injEq] at h; exact h.2.symm)
            | (split at h <;> first
                | (simp at h; done)
                | (simp only [Option.some.injEq, Prod.mk.injEq] at h; exact h.2.symm))))

mutual
/-- Without a descriptor list (`fd = false`, inside a variant) nothing is appended. -/
theorem toSpec_nofd :
    ∀ (fuel : Nat) (t : Ty) (pv : PyVal) (fds : List PyVal) (v : Val) (fds' : List PyVal),
      toSpec fuel false t pv fds = some (v, fds') → fds' = fds
  | 0, _, _, _, _, _, h => by simp [toSpec] at h
  | fuel + 1, .basic c, pv, fds, v, fds', h => by
    simp only [toSpec] at h
    exact toSpecBasic_nofd c pv fds v fds' h
  | fuel + 1, .variant, pv, fds, v, fds', h => by
    simp only [toSpec] at h
    split at h <;> try (simp at h; done)
    split at h <;> try (simp at h; done)
    split at h <;> try (simp at h; done)
    split at h <;> try (simp at h; done)
    simp only [Option.some.injEq, Prod.mk.injEq] at h
    exact h.2.symm
  | fuel + 1, .array el, pv, fds, v, fds', h => by
    simp only [toSpec] at h
    cases el with
    | dict kt vt =>
      simp only at h
      cases pv <;> simp only at h <;> try (simp at h; done)
      split at h <;> try (simp at h; done)
      rename_i vs fds2 hel
      simp only [Option.some.injEq, Prod.mk.injEq] at h
      rw [← h.2]; exact toSpecElems_nofd fuel _ _ fds vs fds2 hel
    | basic c =>
      simp only at h
      split at h <;> try (simp at h; done)
      split at h <;> try (simp at h; done)
      rename_i vs fds2 hel
      simp only [Option.some.injEq, Prod.mk.injEq] at h
      rw [← h.2]; exact toSpecElems_nofd fuel _ _ fds vs fds2 hel
    | variant =>
      simp only at h
      split at h <;> try (simp at h; done)
      split at h <;> try (simp at h; done)
      rename_i vs fds2 hel
      simp only [Option.some.injEq, Prod.mk.injEq] at h
      rw [← h.2]; exact toSpecElems_nofd fuel _ _ fds vs fds2 hel
    | array e =>
      simp only at h
      split at h <;> try (simp at h; done)
      split at h <;> try (simp at h; done)
      rename_i vs fds2 hel
      simp only [Option.some.injEq, Prod.mk.injEq] at h
      rw [← h.2]; exact toSpecElems_nofd fuel _ _ fds vs fds2 hel
    | struct fs =>
      simp only at h
      split at h <;> try (simp at h; done)
      split at h <;> try (simp at h; done)
      rename_i vs fds2 hel
      simp only [Option.some.injEq, Prod.mk.injEq] at h
      rw [← h.2]; exact toSpecElems_nofd fuel _ _ fds vs fds2 hel
  | fuel + 1, .struct fs, pv, fds, v, fds', h => by
    simp only [toSpec] at h
    split at h <;> try (simp at h; done)
    split at h <;> try (simp at h; done)
    rename_i vs fds2 hel
    simp only [Option.some.injEq, Prod.mk.injEq] at h
    rw [← h.2]; exact toSpecFields_nofd fuel _ _ fds vs fds2 hel
  | fuel + 1, .dict kt vt, pv, fds, v, fds', h => by
    simp only [toSpec] at h
    split at h <;> try (simp at h; done)
    split at h <;> try (simp at h; done)
    rename_i a fds1 ha
    split at h <;> try (simp at h; done)
    rename_i b fds2 hb
    simp only [Option.some.injEq, Prod.mk.injEq] at h
    have h1 := toSpec_nofd fuel _ _ fds a fds1 ha
    subst h1
    rw [← h.2]; exact toSpec_nofd fuel _ _ _ b fds2 hb
theorem toSpecElems_nofd :
    ∀ (fuel : Nat) (el : Ty) (xs : List PyVal) (fds : List PyVal) (vs : List Val) (fds' : List PyVal),
      toSpecElems fuel false el xs fds = some (vs, fds') → fds' = fds
  | 0, _, _, _, _, _, h => by simp [toSpecElems] at h
  | fuel + 1, el, [], fds, vs, fds', h => by
    simp only [toSpecElems, Option.some.injEq, Prod.mk.injEq] at h
    exact h.2.symm
  | fuel + 1, el, x :: xs, fds, vs, fds', h => by
    simp only [toSpecElems] at h
    split at h <;> try (simp at h; done)
    rename_i v fds1 hv
    split at h <;> try (simp at h; done)
    rename_i vs' fds2 hvs
    simp only [Option.some.injEq, Prod.mk.injEq] at h
    have h1 := toSpec_nofd fuel _ _ fds v fds1 hv
    subst h1
    rw [← h.2]; exact toSpecElems_nofd fuel _ _ _ vs' fds2 hvs
theorem toSpecFields_nofd :
    ∀ (fuel : Nat) (ts : List Ty) (xs : List PyVal) (fds : List PyVal) (vs : List Val) (fds' : List PyVal),
      toSpecFields fuel false ts xs fds = some (vs, fds') → fds' = fds
  | 0, _, _, _, _, _, h => by simp [toSpecFields] at h
  | fuel + 1, [], [], fds, vs, fds', h => by
    simp only [toSpecFields, Option.some.injEq, Prod.mk.injEq] at h
    exact h.2.symm
  | fuel + 1, t :: ts, x :: xs, fds, vs, fds', h => by
    simp only [toSpecFields] at h
    split at h <;> try (simp at h; done)
    rename_i v fds1 hv
    split at h <;> try (simp at h; done)
    rename_i vs' fds2 hvs
    simp only [Option.some.injEq, Prod.mk.injEq] at h
    have h1 := toSpec_nofd fuel _ _ fds v fds1 hv
    subst h1
    rw [← h.2]; exact toSpecFields_nofd fuel _ _ _ vs' fds2 hvs
  | fuel + 1, [], _ :: _, fds, vs, fds', h => by simp [toSpecFields] at h
  | fuel + 1, _ :: _, [], fds, vs, fds', h => by simp [toSpecFields] at h
end

mutual
theorem toSpec_sound :
    ∀ (fuel : Nat) (fd : Bool) (t : Ty) (pv : PyVal) (fds : List PyVal) (v : Val) (fds' : List PyVal),
      toSpec fuel fd t pv fds = some (v, fds') →
      fds <+: fds' ∧ ∀ lall, fds' <+: lall → Conf lall v fd t pv fds.length fds'.length
  | 0, _, _, _, _, _, _, h => by simp [toSpec] at h
  | fuel + 1, fd, .basic c, pv, fds, v, fds', h => by
    simp only [toSpec] at h
    exact toSpecBasic_sound fd c pv fds v fds' h
  | fuel + 1, fd, .variant, pv, fds, v, fds', h => by
    simp only [toSpec] at h
    split at h <;> try (simp at h; done)
    rename_i sg hsg
    split at h <;> try (simp at h; done)
    rename_i t' _
    split at h <;> try (simp at h; done)
    rename_i hren
    split at h <;> try (simp at h; done)
    rename_i v' fdsx hv'
    simp only [Option.some.injEq, Prod.mk.injEq] at h
    obtain ⟨rfl, rfl⟩ := h
    have ih := toSpec_sound fuel false t' pv fds v' fdsx hv'
    refine ⟨List.prefix_refl _, fun lall hl => ?_⟩
    simp only [Conf]
    refine ⟨trivial, by rw [hsg, hren], ?_, trivial⟩
    -- inside a variant no descriptor is handed out: the inner list is the outer one
    have hsame : fdsx = fds := toSpec_nofd fuel t' pv fds v' fdsx hv'
    subst hsame
    exact ih.2 lall hl
  | fuel + 1, fd, .array el, pv, fds, v, fds', h => by
    simp only [toSpec] at h
    cases el with
    | dict kt vt =>
      simp only at h
      cases pv <;> simp only at h <;> try (simp at h; done)
      rename_i kvs
      split at h <;> try (simp at h; done)
      rename_i vs fds2 hel
      simp only [Option.some.injEq, Prod.mk.injEq] at h
      obtain ⟨rfl, rfl⟩ := h
      have ih := toSpecElems_sound fuel fd (.dict kt vt) _ fds vs fds2 hel
      refine ⟨ih.1, fun lall hl => ?_⟩
      simp only [Conf]
      exact ⟨_, rfl, Or.inl ⟨kt, vt, kvs, rfl, rfl, ih.2 lall hl⟩⟩
    | basic c =>
      simp only at h
      split at h <;> try (simp at h; done)
      rename_i xs hxs
      split at h <;> try (simp at h; done)
      rename_i vs fds2 hel
      simp only [Option.some.injEq, Prod.mk.injEq] at h
      obtain ⟨rfl, rfl⟩ := h
      have ih := toSpecElems_sound fuel fd _ xs fds vs fds2 hel
      refine ⟨ih.1, fun lall hl => ?_⟩
      simp only [Conf]
      rw [toSpecArrayElems_eq] at hxs
      exact ⟨_, rfl, Or.inr ⟨by intro kt vt; simp, xs, hxs, ih.2 lall hl⟩⟩
    | variant =>
      simp only at h
      split at h <;> try (simp at h; done)
      rename_i xs hxs
      split at h <;> try (simp at h; done)
      rename_i vs fds2 hel
      simp only [Option.some.injEq, Prod.mk.injEq] at h
      obtain ⟨rfl, rfl⟩ := h
      have ih := toSpecElems_sound fuel fd _ xs fds vs fds2 hel
      refine ⟨ih.1, fun lall hl => ?_⟩
      simp only [Conf]
      rw [toSpecArrayElems_eq] at hxs
      exact ⟨_, rfl, Or.inr ⟨by intro kt vt; simp, xs, hxs, ih.2 lall hl⟩⟩
    | array e =>
      simp only at h
      split at h <;> try (simp at h; done)
      rename_i xs hxs
      split at h <;> try (simp at h; done)
      rename_i vs fds2 hel
      simp only [Option.some.injEq, Prod.mk.injEq] at h
      obtain ⟨rfl, rfl⟩ := h
      have ih := toSpecElems_sound fuel fd _ xs fds vs fds2 hel
      refine ⟨ih.1, fun lall hl => ?_⟩
      simp only [Conf]
      rw [toSpecArrayElems_eq] at hxs
      exact ⟨_, rfl, Or.inr ⟨by intro kt vt; simp, xs, hxs, ih.2 lall hl⟩⟩
    | struct fs =>
      simp only at h
      split at h <;> try (simp at h; done)
      rename_i xs hxs
      split at h <;> try (simp at h; done)
      rename_i vs fds2 hel
      simp only [Option.some.injEq, Prod.mk.injEq] at h
      obtain ⟨rfl, rfl⟩ := h
      have ih := toSpecElems_sound fuel fd _ xs fds vs fds2 hel
      refine ⟨ih.1, fun lall hl => ?_⟩
      simp only [Conf]
      rw [toSpecArrayElems_eq] at hxs
      exact ⟨_, rfl, Or.inr ⟨by intro kt vt; simp, xs, hxs, ih.2 lall hl⟩⟩
  | fuel + 1, fd, .struct fs, pv, fds, v, fds', h => by
    simp only [toSpec] at h
    split at h <;> try (simp at h; done)
    rename_i xs hxs
    split at h <;> try (simp at h; done)
    rename_i vs fds2 hel
    simp only [Option.some.injEq, Prod.mk.injEq] at h
    obtain ⟨rfl, rfl⟩ := h
    have ih := toSpecFields_sound fuel fd fs xs fds vs fds2 hel
    refine ⟨ih.1, fun lall hl => ?_⟩
    simp only [Conf]
    rw [toSpecStructFields_eq] at hxs
    exact ⟨fs, xs, rfl, hxs, ih.2 lall hl⟩
  | fuel + 1, fd, .dict kt vt, pv, fds, v, fds', h => by
    simp only [toSpec] at h
    split at h <;> try (simp at h; done)
    rename_i x y hxy
    split at h <;> try (simp at h; done)
    rename_i a fds1 ha
    split at h <;> try (simp at h; done)
    rename_i b fds2 hb
    simp only [Option.some.injEq, Prod.mk.injEq] at h
    obtain ⟨rfl, rfl⟩ := h
    have iha := toSpec_sound fuel fd kt x fds a fds1 ha
    have ihb := toSpec_sound fuel fd vt y fds1 b fds2 hb
    refine ⟨List.IsPrefix.trans iha.1 ihb.1, fun lall hl => ?_⟩
    simp only [Conf]
    rw [toSpecStructFields_eq] at hxy
    exact ⟨kt, vt, x, y, fds1.length, rfl, hxy, iha.2 lall (List.IsPrefix.trans ihb.1 hl), ihb.2 lall hl⟩
theorem toSpecElems_sound :
    ∀ (fuel : Nat) (fd : Bool) (el : Ty) (xs : List PyVal) (fds : List PyVal) (vs : List Val) (fds' : List PyVal),
      toSpecElems fuel fd el xs fds = some (vs, fds') →
      fds <+: fds' ∧ ∀ lall, fds' <+: lall → ConfElems lall vs fd el xs fds.length fds'.length
  | 0, _, _, _, _, _, _, h => by simp [toSpecElems] at h
  | fuel + 1, fd, el, [], fds, vs, fds', h => by
    simp only [toSpecElems, Option.some.injEq, Prod.mk.injEq] at h
    obtain ⟨rfl, rfl⟩ := h
    exact ⟨List.prefix_refl _, fun lall _ => by simp [ConfElems]⟩
  | fuel + 1, fd, el, x :: xs, fds, vs, fds', h => by
    simp only [toSpecElems] at h
    split at h <;> try (simp at h; done)
    rename_i v fds1 hv
    split at h <;> try (simp at h; done)
    rename_i vs' fds2 hvs
    simp only [Option.some.injEq, Prod.mk.injEq] at h
    obtain ⟨rfl, rfl⟩ := h
    have ih1 := toSpec_sound fuel fd el x fds v fds1 hv
    have ih2 := toSpecElems_sound fuel fd el xs fds1 vs' fds2 hvs
    refine ⟨List.IsPrefix.trans ih1.1 ih2.1, fun lall hl => ?_⟩
    simp only [ConfElems]
    exact ⟨x, xs, fds1.length, rfl, ih1.2 lall (List.IsPrefix.trans ih2.1 hl), ih2.2 lall hl⟩
theorem toSpecFields_sound :
    ∀ (fuel : Nat) (fd : Bool) (ts : List Ty) (xs : List PyVal) (fds : List PyVal) (vs : List Val) (fds' : List PyVal),
      toSpecFields fuel fd ts xs fds = some (vs, fds') →
      fds <+: fds' ∧ ∀ lall, fds' <+: lall → ConfFields lall vs fd ts xs fds.length fds'.length
  | 0, _, _, _, _, _, _, h => by simp [toSpecFields] at h
  | fuel + 1, fd, [], [], fds, vs, fds', h => by
    simp only [toSpecFields, Option.some.injEq, Prod.mk.injEq] at h
    obtain ⟨rfl, rfl⟩ := h
    exact ⟨List.prefix_refl _, fun lall _ => by simp [ConfFields]⟩
  | fuel + 1, fd, t :: ts, x :: xs, fds, vs, fds', h => by
    simp only [toSpecFields] at h
    split at h <;> try (simp at h; done)
    rename_i v fds1 hv
    split at h <;> try (simp at h; done)
    rename_i vs' fds2 hvs
    simp only [Option.some.injEq, Prod.mk.injEq] at h
    obtain ⟨rfl, rfl⟩ := h
    have ih1 := toSpec_sound fuel fd t x fds v fds1 hv
    have ih2 := toSpecFields_sound fuel fd ts xs fds1 vs' fds2 hvs
    refine ⟨List.IsPrefix.trans ih1.1 ih2.1, fun lall hl => ?_⟩
    simp only [ConfFields]
    exact ⟨t, ts, x, xs, fds1.length, rfl, rfl, ih1.2 lall (List.IsPrefix.trans ih2.1 hl), ih2.2 lall hl⟩
  | fuel + 1, fd, [], _ :: _, fds, vs, fds', h => by simp [toSpecFields] at h
  | fuel + 1, fd, _ :: _, [], fds, vs, fds', h => by simp [toSpecFields] at h
end

end Code
end Txdbus
