import TxdbusModel.Proofs.Wire.Normal
import TxdbusModel.Proofs.Wire.Conf
/-
Decoded = `plainB` (input) for the second formulation of conformance (`Conf`): the counterpart of
Normal.lean, with the `Boolean` wrapper read as the boolean it stands for.
-/
set_option linter.unusedSimpArgs false

namespace Txdbus
namespace Code

mutual
/-- Every dict inside the value has (after normalisation with `plainB`) hashable, pairwise distinct keys. -/
def KeysOKB : PyVal → Prop
  | .list xs => KeysOKBList xs
  | .tuple xs => KeysOKBList xs
  | .obj _ _ fs => KeysOKBList fs
  | .dict kvs => DistinctKeys (plainBPairs kvs |>.map (·.1)) ∧ KeysOKBPairs kvs
  | _ => True
def KeysOKBList : List PyVal → Prop
  | [] => True
  | x :: xs => KeysOKB x ∧ KeysOKBList xs
def KeysOKBPairs : List (PyVal × PyVal) → Prop
  | [] => True
  | (k, v) :: kvs => KeysOKB k ∧ KeysOKB v ∧ KeysOKBPairs kvs
end

/-! ### small facts about `plainB` -/

theorem plainBList_bytes (bs : List UInt8) :
    plainBList (bs.map fun b => PyVal.int .plain b.toNat) = bs.map fun b => PyVal.int .plain b.toNat := by
  induction bs with
  | nil => rfl
  | cons b bs ih => simp [plainBList, plainB, ih]

theorem keysOKBList_bytes (bs : List UInt8) : KeysOKBList (bs.map fun b => PyVal.int .plain b.toNat) := by
  induction bs with
  | nil => trivial
  | cons b bs ih => simp [KeysOKBList, KeysOKB, ih]

theorem plainBList_items (kvs : List (PyVal × PyVal)) :
    plainBList (kvs.map fun kv => PyVal.tuple [kv.1, kv.2]) =
      (plainBPairs kvs).map fun p => PyVal.list [p.1, p.2] := by
  induction kvs with
  | nil => rfl
  | cons kv kvs ih =>
    obtain ⟨k, v⟩ := kv
    simp [plainBList, plainB, plainBPairs, ih]

theorem keysOKBList_items (kvs : List (PyVal × PyVal)) (h : KeysOKBPairs kvs) :
    KeysOKBList (kvs.map fun kv => PyVal.tuple [kv.1, kv.2]) := by
  induction kvs with
  | nil => trivial
  | cons kv kvs ih =>
    obtain ⟨k, v⟩ := kv
    simp only [KeysOKBPairs] at h
    simp [KeysOKBList, KeysOKB, h.1, h.2.1, ih h.2.2]

theorem fields_plainB (pv : PyVal) (items : List PyVal) (hi : structFields pv = some items) :
    plainB pv = .list (plainBList items) ∧ (KeysOKB pv → KeysOKBList items) := by
  cases pv <;> simp only [structFields, Option.some.injEq, reduceCtorEq] at hi <;> subst hi <;>
    simp [plainB, KeysOKB]

theorem fromSpec_cscalar (lall : List PyVal) (v : Val) (fd : Bool) (t : Ty) (pv : PyVal) (k k' : Nat)
    (hv : (∃ n, v = .int n) ∨ (∃ b, v = .bool b) ∨ (∃ b, v = .double b) ∨ (∃ b, v = .str b))
    (hr : ConfScalar lall v fd t pv k k') : fromSpec (some lall) v t = some (plainB pv) := by
  obtain ⟨c, rfl, hcase⟩ := hr
  rcases hcase with ⟨rfl, rfl, rfl, rfl, hl, hpl⟩ | ⟨hc, hb, rfl⟩
  · simp [fromSpec, hl, hpl]
  · cases c <;> rcases hv with ⟨n, rfl⟩ | ⟨b, rfl⟩ | ⟨b, rfl⟩ | ⟨b, rfl⟩ <;> simp only [ConfBasic] at hb <;>
      first
      | (exfalso; exact hc rfl)
      | (obtain ⟨cls, hcls, rfl⟩ := hb; cases cls <;> first | exact absurd rfl hcls | simp [fromSpec, plainB])
      | (rcases hb with rfl | rfl
         · simp [fromSpec, plainB]
         · cases b <;> simp [fromSpec, plainB])
      | (subst hb; simp [fromSpec, plainB])
      | (obtain ⟨cls, cs, rfl, rfl⟩ := hb; simp [fromSpec, plainB, utf8Decode_encode])
      | (obtain ⟨cls, cs, rfl, rfl, _⟩ := hb; simp [fromSpec, plainB, utf8Decode_encode])
      | (obtain ⟨cls, cs, rfl, ha⟩ := hb; simp [fromSpec, plainB, asciiDecode_encode _ _ ha])

mutual
theorem fromSpec_of_conf (lall : List PyVal) :
    ∀ (v : Val) (fd : Bool) (t : Ty) (pv : PyVal) (k k' : Nat),
      Conf lall v fd t pv k k' → KeysOKB pv → fromSpec (some lall) v t = some (plainB pv)
  | .int n, fd, t, pv, k, k', hr, _ => by
    simp only [Conf] at hr; exact fromSpec_cscalar lall _ fd t pv k k' (Or.inl ⟨_, rfl⟩) hr
  | .bool b, fd, t, pv, k, k', hr, _ => by
    simp only [Conf] at hr; exact fromSpec_cscalar lall _ fd t pv k k' (Or.inr (Or.inl ⟨_, rfl⟩)) hr
  | .double b, fd, t, pv, k, k', hr, _ => by
    simp only [Conf] at hr; exact fromSpec_cscalar lall _ fd t pv k k' (Or.inr (Or.inr (Or.inl ⟨_, rfl⟩))) hr
  | .str b, fd, t, pv, k, k', hr, _ => by
    simp only [Conf] at hr; exact fromSpec_cscalar lall _ fd t pv k k' (Or.inr (Or.inr (Or.inr ⟨_, rfl⟩))) hr
  | .variant t' v', fd, t, pv, k, k', hr, hk => by
    simp only [Conf] at hr
    obtain ⟨rfl, _, hrep, _⟩ := hr
    simp only [fromSpec]
    exact fromSpec_of_conf lall v' false t' pv _ _ hrep hk
  | .array vs, fd, t, pv, k, k', hr, hk => by
    simp only [Conf] at hr
    obtain ⟨el, rfl, hcase⟩ := hr
    rcases hcase with ⟨kt, vt, kvs, rfl, rfl, hrep⟩ | ⟨hnd, xs, hx, hrep⟩
    · simp only [KeysOKB] at hk
      have ih := fromSpecList_of_conf lall vs fd _ _ k k' hrep (keysOKBList_items kvs hk.2)
      simp only [dictItems] at ih
      rw [plainBList_items] at ih
      simp only [fromSpec, ih, Option.bind_some, plainB]
      exact dictOf_distinct (plainBPairs kvs) hk.1
    · have hpl : plainB pv = .list (plainBList xs) ∧ KeysOKBList xs := by
        cases pv <;> simp only [arrayElems, Option.some.injEq, reduceCtorEq] at hx <;> subst hx
        · exact ⟨by simp [plainB, plainBList_bytes], keysOKBList_bytes _⟩
        · exact ⟨by simp [plainB], by simpa [KeysOKB] using hk⟩
        · exact ⟨by simp [plainB], by simpa [KeysOKB] using hk⟩
      have ih := fromSpecList_of_conf lall vs fd el xs k k' hrep hpl.2
      cases el <;> first | (exfalso; exact hnd _ _ rfl) | simp [fromSpec, ih, hpl.1]
  | .struct vs, fd, t, pv, k, k', hr, hk => by
    simp only [Conf] at hr
    obtain ⟨fs, items, rfl, hitems, hrep⟩ := hr
    obtain ⟨hp, hko⟩ := fields_plainB pv items hitems
    have ih := fromSpecFields_of_conf lall vs fd fs items k k' hrep (hko hk)
    simp [fromSpec, ih, hp]
  | .entry a b, fd, t, pv, k, k', hr, hk => by
    simp only [Conf] at hr
    obtain ⟨kt, vt, x, y, k1, rfl, hitems, hra, hrb⟩ := hr
    obtain ⟨hp, hko⟩ := fields_plainB pv [x, y] hitems
    have hk' := hko hk
    simp only [KeysOKBList] at hk'
    have iha := fromSpec_of_conf lall a fd kt x k k1 hra hk'.1
    have ihb := fromSpec_of_conf lall b fd vt y k1 k' hrb hk'.2.1
    simp [fromSpec, iha, ihb, hp, plainBList]
theorem fromSpecList_of_conf (lall : List PyVal) :
    ∀ (vs : List Val) (fd : Bool) (el : Ty) (items : List PyVal) (k k' : Nat),
      ConfElems lall vs fd el items k k' → KeysOKBList items →
      fromSpecList (some lall) vs el = some (plainBList items)
  | [], fd, el, items, k, k', hr, _ => by
    simp only [ConfElems] at hr
    obtain ⟨rfl, _⟩ := hr
    rfl
  | v :: vs, fd, el, items, k, k', hr, hk => by
    simp only [ConfElems] at hr
    obtain ⟨x, xs, k1, rfl, hrv, hrs⟩ := hr
    simp only [KeysOKBList] at hk
    have ih1 := fromSpec_of_conf lall v fd el x k k1 hrv hk.1
    have ih2 := fromSpecList_of_conf lall vs fd el xs k1 k' hrs hk.2
    simp [fromSpecList, ih1, ih2, plainBList]
theorem fromSpecFields_of_conf (lall : List PyVal) :
    ∀ (vs : List Val) (fd : Bool) (ts : List Ty) (items : List PyVal) (k k' : Nat),
      ConfFields lall vs fd ts items k k' → KeysOKBList items →
      fromSpecFields (some lall) vs ts = some (plainBList items)
  | [], fd, ts, items, k, k', hr, _ => by
    simp only [ConfFields] at hr
    obtain ⟨rfl, rfl, _⟩ := hr
    rfl
  | v :: vs, fd, ts, items, k, k', hr, hk => by
    simp only [ConfFields] at hr
    obtain ⟨t, ts', x, xs, k1, rfl, rfl, hrv, hrs⟩ := hr
    simp only [KeysOKBList] at hk
    have ih1 := fromSpec_of_conf lall v fd t x k k1 hrv hk.1
    have ih2 := fromSpecFields_of_conf lall vs fd ts' xs k1 k' hrs hk.2
    simp [fromSpecFields, ih1, ih2, plainBList]
end

end Code
end Txdbus
