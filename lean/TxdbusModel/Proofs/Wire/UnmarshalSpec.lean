import TxdbusModel.Proofs.Wire.UnmarshalBasic
import TxdbusModel.Proofs.Wire.SpecRoundtrip
/-
Code = Spec, part 5 (decoding direction): on every spec-conformant encoding (the image of
`Spec.encode` with the alignment table of the specification), placed at its offset inside arbitrary
surrounding bytes, `Code.unmarshalOne` / `unmarshalSeq` / `unmarshalElems` applied to the rendered type
return the encoded value (`fromSpec`) and the number of bytes of the encoding.
-/
set_option linter.unusedSimpArgs false

namespace Txdbus
namespace Code
open Gen.Wire (Fn)

theorem asciiDecode_sigBytes (t : Ty) : asciiDecode (Spec.sigBytes t) = some t.render :=
  asciiDecode_encode _ _ (asciiEncode_render t)

/-- `unmarshal(vsig, data, offset)` for a signature holding one complete type, at an aligned offset. -/
theorem unmarshalTop_single (A : AlignTable) (hA : PadOK A) (hpos : A.Pos) (one : List Char → Nat → URes) (t : Ty) (offset : Nat)
    (hal : padLen (A t.code) offset = 0) :
    unmarshalTop one t.render offset =
      match one t.render offset with
      | .ok (n, v) => .ok (n, [v])
      | .error e => .error e := by
  unfold unmarshalTop
  simp only [lazyPieces_render, unmarshalSeq, head?_render, hA, hal, Nat.add_zero]
  cases h : one t.render offset with
  | error e => simp
  | ok r =>
    obtain ⟨n, v⟩ := r
    simp

theorem code_ne_brace (t : Ty) (h : ∀ kt vt, t ≠ .dict kt vt) : t.code ≠ '{' := by
  cases t with
  | basic c => exact (Basic.code_ne c).2.2.1
  | variant => decide
  | array e => simp [Ty.code]
  | struct fs => simp [Ty.code]
  | dict kt vt => exact absurd rfl (h kt vt)

mutual
theorem unmarshalOne_spec (A : AlignTable) (hA : PadOK A) (hpos : A.Pos) (le : Bool) (fds : Fds) (data : Bytes) :
    ∀ (v : Val) (t : Ty) (pre bs rest : Bytes) (off : Nat) (pv : PyVal) (fuel : Nat),
      t.WF = true → Spec.encode A (endianOf le) t v off = some bs →
      data = pre ++ (bs ++ rest) → pre.length = off → fromSpec fds v t = some pv → v.depth ≤ fuel →
      unmarshalOne le data fds fuel t.render off = .ok (bs.length, pv)
  | .int n, t, pre, bs, rest, off, pv, fuel, _, he, hd, hp, hv, hf => by
    cases t <;> simp only [Spec.encode, reduceCtorEq] at he
    simp only [Val.depth] at hf
    obtain ⟨f, rfl⟩ : ∃ f, fuel = f + 1 := ⟨fuel - 1, by omega⟩
    exact unmarshalOne_basic le fds f _ _ pv data pre bs rest off he hd hp hv
  | .bool b, t, pre, bs, rest, off, pv, fuel, _, he, hd, hp, hv, hf => by
    cases t <;> simp only [Spec.encode, reduceCtorEq] at he
    simp only [Val.depth] at hf
    obtain ⟨f, rfl⟩ : ∃ f, fuel = f + 1 := ⟨fuel - 1, by omega⟩
    exact unmarshalOne_basic le fds f _ _ pv data pre bs rest off he hd hp hv
  | .double b, t, pre, bs, rest, off, pv, fuel, _, he, hd, hp, hv, hf => by
    cases t <;> simp only [Spec.encode, reduceCtorEq] at he
    simp only [Val.depth] at hf
    obtain ⟨f, rfl⟩ : ∃ f, fuel = f + 1 := ⟨fuel - 1, by omega⟩
    exact unmarshalOne_basic le fds f _ _ pv data pre bs rest off he hd hp hv
  | .str b, t, pre, bs, rest, off, pv, fuel, _, he, hd, hp, hv, hf => by
    cases t <;> simp only [Spec.encode, reduceCtorEq] at he
    simp only [Val.depth] at hf
    obtain ⟨f, rfl⟩ : ∃ f, fuel = f + 1 := ⟨fuel - 1, by omega⟩
    exact unmarshalOne_basic le fds f _ _ pv data pre bs rest off he hd hp hv
  | .variant t' v', t, pre, bs, rest, off, pv, fuel, _, he, hd, hp, hv, hf => by
    cases t <;> simp only [Spec.encode, reduceCtorEq] at he
    · simp [Spec.encBasic] at he
    split at he <;> try (simp at he; done)
    rename_i hok
    split at he <;> try (simp at he; done)
    rename_i body hbody
    simp only [Option.some.injEq] at he; subst he
    simp only [Val.depth] at hf
    obtain ⟨f, rfl⟩ : ∃ f, fuel = f + 1 := ⟨fuel - 1, by omega⟩
    have hok' := hok
    simp only [Spec.variantTypeOk, Bool.and_eq_true, decide_eq_true_eq] at hok'
    have hpos' := hpos t'
    simp only [fromSpec] at hv
    simp only [List.length_append, encUInt_length, Spec.sigBytes_length, List.length_cons, List.length_nil] at hbody ⊢
    -- the signature
    have hsg := uSignature_at le data pre (Spec.sigBytes t')
      (zeros (padLen (A t'.code) (off + (1 + t'.render.length + (0 + 1)))) ++ body ++ rest) off
      (by rw [hd]; simp [Nat.add_assoc]) hp (by simpa using hok'.2)
    simp only [Spec.sigBytes_length] at hsg
    have ih := unmarshalOne_spec A hA hpos le fds data v' t'
      (pre ++ (encUInt (endianOf le) 1 t'.render.length ++ Spec.sigBytes t' ++ [0]) ++
        zeros (padLen (A t'.code) (off + (1 + t'.render.length + (0 + 1)))))
      body rest _ pv f hok'.1 hbody (by rw [hd]; simp [Nat.add_assoc]) (by simp; omega) hv (by omega)
    simp only [Ty.render, unmarshalOne, List.head?_cons, udisp_v, uSignature, hsg.1, hsg.2, asciiDecode_sigBytes, uframe_signature,
      head?_render, hA]
    have e1 : off + (2 + t'.render.length) = off + (1 + t'.render.length + (0 + 1)) := by omega
    rw [e1, unmarshalTop_single A hA hpos _ t' _ (padLen_after _ _ hpos'), ih]
    simp only [Except.ok.injEq, Prod.mk.injEq, and_true, zeros_length]
    omega
  | .array vs, t, pre, bs, rest, off, pv, fuel, hw, he, hd, hp, hv, hf => by
    cases t <;> simp only [Spec.encode, reduceCtorEq] at he
    · simp [Spec.encBasic] at he
    rename_i el
    split at he <;> try (simp at he; done)
    rename_i body hbody
    split at he <;> try (simp at he; done)
    rename_i hmax
    simp only [Option.some.injEq] at he; subst he
    simp only [Val.depth] at hf
    simp only [Ty.WF] at hw
    obtain ⟨f, rfl⟩ : ∃ f, fuel = f + 1 := ⟨fuel - 1, by omega⟩
    have hlt : body.length < 256 ^ 4 := by unfold Spec.maxArray at hmax; omega
    have hlen := uLenWord_at le .unmarshal_array 'I' 4 (ufmt_array le) rfl data pre
      (zeros (padLen (A el.code) (off + 4)) ++ body ++ rest) off body.length
      (by rw [hd]; simp [Nat.add_assoc]) hp hlt
    -- the elements
    have hvals : ∃ values, fromSpecList fds vs el = some values := by
      cases hl : fromSpecList fds vs el with
      | some values => exact ⟨values, rfl⟩
      | none =>
        cases el <;> simp [fromSpec, hl] at hv
    obtain ⟨values, hvals⟩ := hvals
    have ih := unmarshalElems_spec A hA hpos le fds data vs el
      (pre ++ encUInt (endianOf le) 4 body.length ++ zeros (padLen (A el.code) (off + 4)))
      body rest _ values f body.length hw hbody (by rw [hd]; simp [Nat.add_assoc]) (by simp; omega) hvals (by omega)
      (Nat.le_refl _)
    simp only [Ty.render, unmarshalOne, List.head?_cons, udisp_a, hlen, List.tail, head?_render, hA, ih]
    simp only [ne_eq, not_true_eq_false, if_false]
    by_cases hdict : ∃ kt vt, el = .dict kt vt
    · obtain ⟨kt, vt, rfl⟩ := hdict
      simp only [fromSpec, hvals, Option.bind_some, dictOf] at hv
      simp only [Ty.code, if_true]
      cases hb : buildDict values [] with
      | error e => simp [hb] at hv
      | ok d =>
        simp only [hb, Option.some.injEq] at hv; subst hv
        simp only [Except.ok.injEq, Prod.mk.injEq, and_true, List.length_append, encUInt_length, zeros_length]
        omega
    · have hne : el.code ≠ '{' := code_ne_brace el (fun kt vt h => hdict ⟨kt, vt, h⟩)
      have hv' : pv = .list values := by
        cases el <;> simp [fromSpec, hvals] at hv <;> first | exact hv.symm | (exfalso; exact hdict ⟨_, _, rfl⟩)
      subst hv'
      simp only [hne, if_false]
      simp only [Except.ok.injEq, Prod.mk.injEq, and_true, List.length_append, encUInt_length, zeros_length]
      omega
  | .struct vs, t, pre, bs, rest, off, pv, fuel, hw, he, hd, hp, hv, hf => by
    cases t <;> simp only [Spec.encode, reduceCtorEq] at he
    · simp [Spec.encBasic] at he
    rename_i fs
    simp only [Val.depth] at hf
    simp only [Ty.WF, Bool.and_eq_true] at hw
    obtain ⟨f, rfl⟩ : ∃ f, fuel = f + 1 := ⟨fuel - 1, by omega⟩
    simp only [fromSpec] at hv
    cases hl : fromSpecFields fds vs fs with
    | none => simp [hl] at hv
    | some values =>
      simp only [hl, Option.map_some, Option.some.injEq] at hv; subst hv
      have ih := unmarshalSeq_spec A hA hpos le fds data vs fs pre bs rest off values f hw.2 he hd hp hl (by omega)
      have hdisp : unmarshalOne le data fds (f + 1) (Ty.struct fs).render off =
          match unmarshalTop (unmarshalOne le data fds f) (Ty.struct fs).render.tail.dropLast off with
          | .error e => .error e
          | .ok (n, vs) => .ok (n, .list vs) := by
        simp only [Ty.render, unmarshalOne, List.head?_cons, udisp_struct]
        rfl
      rw [hdisp, struct_inner]
      unfold unmarshalTop
      simp only [lazyPieces_renderAll, ih]
      simp
  | .entry a b, t, pre, bs, rest, off, pv, fuel, hw, he, hd, hp, hv, hf => by
    cases t <;> simp only [Spec.encode, reduceCtorEq] at he
    · simp [Spec.encBasic] at he
    rename_i kt vt
    split at he <;> try (simp at he; done)
    rename_i kb hkb
    split at he <;> try (simp at he; done)
    rename_i vb hvb
    simp only [Option.some.injEq] at he; subst he
    simp only [Val.depth] at hf
    simp only [Ty.WF, Bool.and_eq_true] at hw
    obtain ⟨f, rfl⟩ : ∃ f, fuel = f + 1 := ⟨fuel - 1, by omega⟩
    simp only [fromSpec] at hv
    cases hx : fromSpec fds a kt with
    | none => simp [hx] at hv
    | some x =>
      cases hy : fromSpec fds b vt with
      | none => simp [hx, hy] at hv
      | some y =>
        simp only [hx, hy, Option.some.injEq] at hv; subst hv
        have iha := unmarshalOne_spec A hA hpos le fds data a kt (pre ++ zeros (padLen (A kt.code) off)) kb
          (zeros (padLen (A vt.code) (off + padLen (A kt.code) off + kb.length)) ++ vb ++ rest)
          _ x f hw.1 hkb (by rw [hd]; simp [Nat.add_assoc]) (by simp; omega) hx (by omega)
        have ihb := unmarshalOne_spec A hA hpos le fds data b vt
          (pre ++ zeros (padLen (A kt.code) off) ++ kb ++
            zeros (padLen (A vt.code) (off + padLen (A kt.code) off + kb.length)))
          vb rest _ y f hw.2 hvb (by rw [hd]; simp [Nat.add_assoc]) (by simp; omega) hy (by omega)
        have hdisp : unmarshalOne le data fds (f + 1) (Ty.dict kt vt).render off =
            match unmarshalTop (unmarshalOne le data fds f) (Ty.dict kt vt).render.tail.dropLast off with
            | .error e => .error e
            | .ok (n, vs) => .ok (n, .list vs) := by
          simp only [Ty.render, unmarshalOne, List.head?_cons, udisp_dict]
          rfl
        rw [hdisp, dict_inner]
        unfold unmarshalTop
        have hlp := lazyPieces_renderAll [kt, vt]
        simp only [List.map_cons, List.map_nil] at hlp
        simp only [hlp, unmarshalSeq, head?_render, hA, iha, ihb]
        simp only [Except.ok.injEq, Prod.mk.injEq, and_true, List.length_append, zeros_length]
        omega
theorem unmarshalElems_spec (A : AlignTable) (hA : PadOK A) (hpos : A.Pos) (le : Bool) (fds : Fds) (data : Bytes) :
    ∀ (vs : List Val) (el : Ty) (pre body rest : Bytes) (off : Nat) (values : List PyVal) (fuel n : Nat),
      el.WF = true → Spec.encodeElems A (endianOf le) el vs off = some body →
      data = pre ++ (body ++ rest) → pre.length = off → fromSpecList fds vs el = some values →
      depthAll vs ≤ fuel → body.length ≤ n →
      unmarshalElems (unmarshalOne le data fds fuel el.render) el.code (off + body.length) n off =
        .ok (off + body.length, values)
  | [], el, pre, body, rest, off, values, fuel, n, _, he, _, _, hv, _, _ => by
    simp only [Spec.encodeElems, Option.some.injEq] at he; subst he
    simp only [fromSpecList, Option.some.injEq] at hv; subst hv
    unfold unmarshalElems
    simp
  | v :: vs, el, pre, body, rest, off, values, fuel, n, hw, he, hd, hp, hv, hf, hn => by
    simp only [Spec.encodeElems] at he
    split at he <;> try (simp at he; done)
    rename_i b hb
    split at he <;> try (simp at he; done)
    rename_i r hr
    simp only [Option.some.injEq] at he; subst he
    simp only [depthAll] at hf
    simp only [fromSpecList] at hv
    cases hx : fromSpec fds v el with
    | none => simp [hx] at hv
    | some x =>
      cases hxs : fromSpecList fds vs el with
      | none => simp [hx, hxs] at hv
      | some xs =>
        simp only [hx, hxs, Option.some.injEq] at hv; subst hv
        have hne := Spec.encode_nonempty _ _ v el _ b hw hb
        simp only [List.length_append, zeros_length] at hn
        obtain ⟨m, rfl⟩ : ∃ m, n = m + 1 := ⟨n - 1, by omega⟩
        have ih1 := unmarshalOne_spec A hA hpos le fds data v el (pre ++ zeros (padLen (A el.code) off)) b
          (r ++ rest) _ x fuel hw hb (by rw [hd]; simp [Nat.add_assoc]) (by simp; omega) hx (by omega)
        have ih2 := unmarshalElems_spec A hA hpos le fds data vs el
          (pre ++ zeros (padLen (A el.code) off) ++ b) r rest _ xs fuel m hw hr
          (by rw [hd]; simp [Nat.add_assoc]) (by simp; omega) hxs (by omega) (by omega)
        unfold unmarshalElems
        have hlt : off < off + (zeros (padLen (A el.code) off) ++ b ++ r).length := by
          simp only [List.length_append, zeros_length]; omega
        simp only [hlt, if_true, hA, ih1]
        have hnz : ¬ (b.length = 0) := by omega
        simp only [hnz, if_false]
        have hstop : off + (zeros (padLen (A el.code) off) ++ b ++ r).length =
            off + padLen (A el.code) off + b.length + r.length := by
          simp only [List.length_append, zeros_length]; omega
        rw [hstop, ih2]
theorem unmarshalSeq_spec (A : AlignTable) (hA : PadOK A) (hpos : A.Pos) (le : Bool) (fds : Fds) (data : Bytes) :
    ∀ (vs : List Val) (ts : List Ty) (pre bs rest : Bytes) (off : Nat) (values : List PyVal) (fuel : Nat),
      allWF ts = true → Spec.encodeFields A (endianOf le) ts vs off = some bs →
      data = pre ++ (bs ++ rest) → pre.length = off → fromSpecFields fds vs ts = some values →
      depthAll vs ≤ fuel →
      unmarshalSeq (unmarshalOne le data fds fuel) (ts.map Ty.render) none off = .ok (off + bs.length, values)
  | [], ts, pre, bs, rest, off, values, fuel, _, he, _, _, hv, _ => by
    cases ts <;> simp only [Spec.encodeFields, reduceCtorEq] at he
    simp only [Option.some.injEq] at he; subst he
    simp only [fromSpecFields, Option.some.injEq] at hv; subst hv
    simp [unmarshalSeq]
  | v :: vs, ts, pre, bs, rest, off, values, fuel, hw, he, hd, hp, hv, hf => by
    cases ts with
    | nil => simp [Spec.encodeFields] at he
    | cons t ts =>
      simp only [Spec.encodeFields] at he
      split at he <;> try (simp at he; done)
      rename_i b hb
      split at he <;> try (simp at he; done)
      rename_i r hr
      simp only [Option.some.injEq] at he; subst he
      simp only [depthAll] at hf
      simp only [allWF, Bool.and_eq_true] at hw
      simp only [fromSpecFields] at hv
      cases hx : fromSpec fds v t with
      | none => simp [hx] at hv
      | some x =>
        cases hxs : fromSpecFields fds vs ts with
        | none => simp [hx, hxs] at hv
        | some xs =>
          simp only [hx, hxs, Option.some.injEq] at hv; subst hv
          have ih1 := unmarshalOne_spec A hA hpos le fds data v t (pre ++ zeros (padLen (A t.code) off)) b
            (r ++ rest) _ x fuel hw.1 hb (by rw [hd]; simp [Nat.add_assoc]) (by simp; omega) hx (by omega)
          have ih2 := unmarshalSeq_spec A hA hpos le fds data vs ts
            (pre ++ zeros (padLen (A t.code) off) ++ b) r rest _ xs fuel hw.2 hr
            (by rw [hd]; simp [Nat.add_assoc]) (by simp; omega) hxs (by omega)
          simp only [List.map_cons, unmarshalSeq, head?_render, hA, ih1, ih2]
          simp only [Except.ok.injEq, Prod.mk.injEq, and_true, List.length_append, zeros_length]
          omega
end

end Code
end Txdbus
