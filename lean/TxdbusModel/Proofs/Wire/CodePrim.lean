import TxdbusModel.Proofs.Wire.Rep
import TxdbusModel.Proofs.Wire.SpecBasic
import TxdbusModel.Proofs.Wire.Utf8
/-
Code = Spec, part 1: the primitives of the code model (`padLenOf`, `pack`, `unpackFrom`) compute what the
spec's primitives compute, for the generated tables.  The comparison of the generated ALIGNMENT table
with the specification's is in AlignSpec.lean (used by C02 only: the round trip C01 holds for whatever
alignments the table lists).
-/
namespace Txdbus
namespace Code
open Gen.Wire (Fn)

/-! ### the generated alignment table, whatever its values -/

/-- The 17 type codes of the specification. -/
def typeCodes : List Char :=
  ['y', 'b', 'n', 'q', 'i', 'u', 'x', 't', 'd', 's', 'o', 'g', 'a', '(', 'v', '{', 'h']

/-- The code's padding function `pad[tcode]` computes the padding rule for alignment table `A`. -/
abbrev PadOK (A : AlignTable) : Prop := ∀ (t : Ty) (x : Nat), padLenOf t.code x = .ok (padLen (A t.code) x)

/-- The generated table `dbus_types` as an alignment table (whatever its entries are). -/
def genAlign : AlignTable := fun c => (Gen.Wire.alignTable.lookup c).getD 1

/-- Sanity of the generated table, whatever its values: every one of the 17 type codes has an alignment
between 1 and 8 (so that `padding[...]` has the key). -/
theorem genAlign_sane : ∀ c ∈ typeCodes, ∃ a, Gen.Wire.alignTable.lookup c = some a ∧ 0 < a ∧ a ≤ 8 := by
  decide

theorem code_mem_typeCodes (t : Ty) : t.code ∈ typeCodes := by
  cases t with
  | basic c => cases c <;> decide
  | variant => decide
  | array _ => simp [Ty.code, typeCodes]
  | struct _ => simp [Ty.code, typeCodes]
  | dict _ _ => simp [Ty.code, typeCodes]

theorem genAlign_pos : AlignTable.Pos genAlign := by
  intro t
  obtain ⟨a, h1, h2, _⟩ := genAlign_sane t.code (code_mem_typeCodes t)
  simp [genAlign, h1, h2]

/-- `pad[tcode]` is the padding rule for the generated table - for ANY entries between 1 and 8: the
round trip C01 does not depend on the alignments being the specification's. -/
theorem padOK_gen : PadOK genAlign := by
  intro t x
  obtain ⟨a, h1, h2, h3⟩ := genAlign_sane t.code (code_mem_typeCodes t)
  have hmax : 7 ≤ Gen.Wire.maxPad := by decide     -- whatever the `padding` table's size (or none at all)
  unfold padLenOf
  simp only [genAlign, h1, Option.getD_some, padLen]
  have ha : ¬ (a = 0) := by omega
  simp only [ha, if_false]
  have hm := Nat.mod_lt x h2
  by_cases h0 : x % a = 0
  · simp [h0]
  · have h4 : a - x % a ≤ Gen.Wire.maxPad := by omega
    have h5 : (a - x % a) % a = a - x % a := Nat.mod_eq_of_lt (by omega)
    simp [h0, h4, h5]

/-! ### struct formats -/

/-- The format `lendian and '<X' or '>X'`. -/
def fmtLE (letter : Char) (le : Bool) : Char × Char := (if le then '<' else '>', letter)

theorem fmtEndian_fmtLE (letter : Char) (le : Bool) : fmtEndian? (fmtLE letter le).1 = some (endianOf le) := by
  cases le <;> rfl

theorem pack_uint (letter : Char) (le : Bool) (k : Nat) (pv : PyVal) (n : Int)
    (hk : fmtKind? letter = some (.uint k)) (hv : pv.asInt? = some n) (h0 : 0 ≤ n) (h1 : n < (256 ^ k : Nat)) :
    pack (fmtLE letter le) pv = .ok (encUInt (endianOf le) k n.toNat) := by
  unfold pack
  rw [fmtEndian_fmtLE]
  simp only [fmtLE, hk, hv, h0, h1, and_self, if_true]

theorem pack_sint (letter : Char) (le : Bool) (k : Nat) (pv : PyVal) (n : Int)
    (hk : fmtKind? letter = some (.sint k)) (hv : pv.asInt? = some n)
    (h0 : -((256 ^ k / 2 : Nat) : Int) ≤ n) (h1 : n < ((256 ^ k / 2 : Nat) : Int)) :
    pack (fmtLE letter le) pv = .ok (encSInt (endianOf le) k n) := by
  unfold pack
  rw [fmtEndian_fmtLE]
  simp only [fmtLE, hk, hv, h0, h1, and_self, if_true]

theorem pack_double (le : Bool) (bits : UInt64) :
    pack (fmtLE 'd' le) (.float bits) = .ok (encUInt (endianOf le) 8 bits.toNat) := by
  unfold pack
  rw [fmtEndian_fmtLE]
  rfl

end Code
end Txdbus
