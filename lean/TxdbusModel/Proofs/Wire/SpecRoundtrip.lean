import TxdbusModel.Proofs.Wire.SpecBasic
/-
Round trip of the spec codec, part 2: containers and variants, by structural recursion over the value.
-/
namespace Txdbus
namespace Spec

/-- Every value of a type without empty structs occupies at least one byte. -/
theorem encode_nonempty (A : AlignTable) (e : Endian) :
    ∀ (v : Val) (t : Ty) (off : Nat) (bs : Bytes), t.WF = true → encode A e t v off = some bs → 0 < bs.length
  | .int n, t, off, bs, _, h => by
    cases t <;> simp only [encode, reduceCtorEq] at h
    exact encBasic_nonempty _ _ _ _ h
  | .bool b, t, off, bs, _, h => by
    cases t <;> simp only [encode, reduceCtorEq] at h
    exact encBasic_nonempty _ _ _ _ h
  | .double b, t, off, bs, _, h => by
    cases t <;> simp only [encode, reduceCtorEq] at h
    exact encBasic_nonempty _ _ _ _ h
  | .str b, t, off, bs, _, h => by
    cases t <;> simp only [encode, reduceCtorEq] at h
    exact encBasic_nonempty _ _ _ _ h
  | .variant t' v', t, off, bs, _, h => by
    cases t <;> simp only [encode, reduceCtorEq] at h
    · exact encBasic_nonempty _ _ _ _ h
    · split at h <;> try (simp at h; done)
      split at h <;> try (simp at h; done)
      simp only [Option.some.injEq] at h; subst h
      simp; omega
  | .array vs, t, off, bs, _, h => by
    cases t <;> simp only [encode, reduceCtorEq] at h
    · exact encBasic_nonempty _ _ _ _ h
    · split at h <;> try (simp at h; done)
      split at h <;> try (simp at h; done)
      simp only [Option.some.injEq] at h; subst h
      simp; omega
  | .struct [], t, off, bs, hw, h => by
    cases t <;> simp only [encode, reduceCtorEq] at h
    · exact encBasic_nonempty _ _ _ _ h
    · rename_i fs
      cases fs with
      | nil => simp [Ty.WF] at hw
      | cons f fs => simp [encodeFields] at h
  | .struct (v :: vs), t, off, bs, hw, h => by
    cases t <;> simp only [encode, reduceCtorEq] at h
    · exact encBasic_nonempty _ _ _ _ h
    · rename_i fs
      cases fs with
      | nil => simp [Ty.WF] at hw
      | cons f fs =>
        simp only [Ty.WF, allWF, List.isEmpty_cons, Bool.not_false, Bool.true_and, Bool.and_eq_true] at hw
        simp only [encodeFields] at h
        split at h <;> try (simp at h; done)
        rename_i b hb
        split at h <;> try (simp at h; done)
        simp only [Option.some.injEq] at h; subst h
        have := encode_nonempty A e v f _ b hw.1 hb
        simp; omega
  | .entry k v, t, off, bs, hw, h => by
    cases t <;> simp only [encode, reduceCtorEq] at h
    · exact encBasic_nonempty _ _ _ _ h
    · rename_i kt vt
      simp only [Ty.WF, Bool.and_eq_true] at hw
      split at h <;> try (simp at h; done)
      rename_i kb hkb
      split at h <;> try (simp at h; done)
      simp only [Option.some.injEq] at h; subst h
      have := encode_nonempty A e k kt _ kb hw.1 hkb
      simp; omega

theorem variantDec_succ (A : AlignTable) (e : Endian) (d : Nat) :
    variantDec A e (d + 1) = decodeWith A e (variantDec A e d) := rfl

mutual
theorem rt_val (A : AlignTable) (e : Endian) :
    ∀ (v : Val) (t : Ty) (off : Nat) (bs rest : Bytes) (depth : Nat),
      t.WF = true → encode A e t v off = some bs → v.vdepth ≤ depth →
      decodeWith A e (variantDec A e depth) t (bs ++ rest) off = some (v, rest, off + bs.length)
  | .int n, t, off, bs, rest, depth, _, h, _ => by
    cases t <;> simp only [encode, reduceCtorEq] at h
    simp only [decodeWith]; exact rt_basic _ _ _ _ _ _ h
  | .bool b, t, off, bs, rest, depth, _, h, _ => by
    cases t <;> simp only [encode, reduceCtorEq] at h
    simp only [decodeWith]; exact rt_basic _ _ _ _ _ _ h
  | .double b, t, off, bs, rest, depth, _, h, _ => by
    cases t <;> simp only [encode, reduceCtorEq] at h
    simp only [decodeWith]; exact rt_basic _ _ _ _ _ _ h
  | .str b, t, off, bs, rest, depth, _, h, _ => by
    cases t <;> simp only [encode, reduceCtorEq] at h
    simp only [decodeWith]; exact rt_basic _ _ _ _ _ _ h
  | .variant t' v', t, off, bs, rest, depth, _, h, hd => by
    cases t <;> simp only [encode, reduceCtorEq] at h
    · simp only [decodeWith]; exact rt_basic _ _ _ _ _ _ h
    · split at h <;> try (simp at h; done)
      rename_i hok
      split at h <;> try (simp at h; done)
      rename_i body hbody
      simp only [Option.some.injEq] at h; subst h
      have hok' := hok
      simp only [variantTypeOk, Bool.and_eq_true, decide_eq_true_eq] at hok'
      -- the signature
      have hsig : encBasic e .g (.str (sigBytes t')) =
          some (encUInt e 1 t'.render.length ++ sigBytes t' ++ [0]) := by
        simp [encBasic, Basic.shape, strOk_sigBytes, hok'.2]
      have h1 := rt_basic e .g _ _ (zeros (padLen (A t'.code) (off + (encUInt e 1 t'.render.length ++ sigBytes t' ++ [0]).length)) ++ body ++ rest) off hsig
      simp only [Val.vdepth] at hd
      obtain ⟨d, rfl⟩ : ∃ d, depth = d + 1 := ⟨depth - 1, by omega⟩
      have ih := rt_val A e v' t' _ body rest d hok'.1 hbody (by omega)
      simp only [decodeWith]
      simp only [List.append_assoc] at h1 ⊢
      rw [h1]
      simp only [bytesToChars_sigBytes, parseSingle_render, hok, if_true]
      rw [skipPad_zeros]
      simp only [variantDec_succ]
      simp only [List.append_assoc] at ih
      simp only [List.length_append, List.length_cons, List.length_nil] at ih ⊢
      rw [ih]
      simp; omega
  | .array vs, t, off, bs, rest, depth, hw, h, hd => by
    cases t <;> simp only [encode, reduceCtorEq] at h
    · simp only [decodeWith]; exact rt_basic _ _ _ _ _ _ h
    · rename_i el
      split at h <;> try (simp at h; done)
      rename_i body hbody
      split at h <;> try (simp at h; done)
      rename_i hmax
      simp only [Option.some.injEq] at h; subst h
      simp only [Ty.WF] at hw
      simp only [Val.vdepth] at hd
      have ih := rt_elems A e vs el _ body rest depth body.length hw hbody hd (Nat.le_refl _)
      have hlt : body.length < 256 ^ 4 := by unfold maxArray at hmax; omega
      simp only [decodeWith, List.append_assoc]
      rw [takeN_append 4 _ _ (by simp)]
      simp only [decUInt_encUInt e 4 _ hlt, hmax, if_true]
      rw [skipPad_zeros]
      simp only []
      rw [ih]
      simp; omega
  | .struct vs, t, off, bs, rest, depth, hw, h, hd => by
    cases t <;> simp only [encode, reduceCtorEq] at h
    · simp only [decodeWith]; exact rt_basic _ _ _ _ _ _ h
    · rename_i fs
      simp only [Ty.WF, Bool.and_eq_true] at hw
      simp only [Val.vdepth] at hd
      have ih := rt_fields A e vs fs off bs rest depth hw.2 h hd
      simp only [decodeWith, ih]
  | .entry k v, t, off, bs, rest, depth, hw, h, hd => by
    cases t <;> simp only [encode, reduceCtorEq] at h
    · simp only [decodeWith]; exact rt_basic _ _ _ _ _ _ h
    · rename_i kt vt
      simp only [Ty.WF, Bool.and_eq_true] at hw
      simp only [Val.vdepth] at hd
      split at h <;> try (simp at h; done)
      rename_i kb hkb
      split at h <;> try (simp at h; done)
      rename_i vb hvb
      simp only [Option.some.injEq] at h; subst h
      have ih1 := rt_val A e k kt _ kb (zeros (padLen (A vt.code) (off + padLen (A kt.code) off + kb.length)) ++ vb ++ rest) depth hw.1 hkb (by omega)
      have ih2 := rt_val A e v vt _ vb rest depth hw.2 hvb (by omega)
      simp only [decodeWith, List.append_assoc]
      rw [skipPad_zeros]
      simp only [List.append_assoc] at ih1
      simp only []
      rw [ih1]
      simp only []
      rw [skipPad_zeros]
      simp only []
      rw [ih2]
      simp; omega
theorem rt_elems (A : AlignTable) (e : Endian) :
    ∀ (vs : List Val) (el : Ty) (off : Nat) (body rest : Bytes) (depth fuel : Nat),
      el.WF = true → encodeElems A e el vs off = some body → vdepthAll vs ≤ depth → body.length ≤ fuel →
      decodeElems (decodeWith A e (variantDec A e depth) el) (A el.code) fuel (body ++ rest) off (off + body.length)
        = some (vs, rest, off + body.length)
  | [], el, off, body, rest, depth, fuel, _, h, _, _ => by
    simp only [encodeElems, Option.some.injEq] at h; subst h
    unfold decodeElems
    simp
  | v :: vs, el, off, body, rest, depth, fuel, hw, h, hd, hf => by
    simp only [encodeElems] at h
    split at h <;> try (simp at h; done)
    rename_i b hb
    split at h <;> try (simp at h; done)
    rename_i r hr
    simp only [Option.some.injEq] at h; subst h
    simp only [vdepthAll] at hd
    have hne := encode_nonempty A e v el _ b hw hb
    have ih1 := rt_val A e v el _ b (r ++ rest) depth hw hb (by omega)
    simp only [List.length_append, zeros_length] at hf
    obtain ⟨f, rfl⟩ : ∃ f, fuel = f + 1 := ⟨fuel - 1, by omega⟩
    have ih2 := rt_elems A e vs el _ r rest depth f hw hr (by omega) (by omega)
    unfold decodeElems
    have hne1 : ¬ (off = off + (zeros (padLen (A el.code) off) ++ b ++ r).length) := by
      simp only [List.length_append, zeros_length]; omega
    have hne2 : ¬ (off + (zeros (padLen (A el.code) off) ++ b ++ r).length < off) := by omega
    simp only [List.append_assoc]
    rw [skipPad_zeros]
    simp only []
    rw [ih1]
    have hne3 : ¬ (off + padLen (A el.code) off + b.length ≤ off) := by omega
    simp only [hne3, if_false]
    have hstop : off + (zeros (padLen (A el.code) off) ++ (b ++ r)).length
        = off + padLen (A el.code) off + b.length + r.length := by
      simp only [List.length_append, zeros_length]; omega
    rw [hstop, ih2]
    rw [if_neg (by omega), if_neg (by omega)]
theorem rt_fields (A : AlignTable) (e : Endian) :
    ∀ (vs : List Val) (ts : List Ty) (off : Nat) (bs rest : Bytes) (depth : Nat),
      allWF ts = true → encodeFields A e ts vs off = some bs → vdepthAll vs ≤ depth →
      decodeFieldsWith A e (variantDec A e depth) ts (bs ++ rest) off = some (vs, rest, off + bs.length)
  | [], ts, off, bs, rest, depth, _, h, _ => by
    cases ts <;> simp only [encodeFields, reduceCtorEq] at h
    simp only [Option.some.injEq] at h; subst h
    simp [decodeFieldsWith]
  | v :: vs, ts, off, bs, rest, depth, hw, h, hd => by
    cases ts with
    | nil => simp [encodeFields] at h
    | cons t ts =>
      simp only [encodeFields] at h
      split at h <;> try (simp at h; done)
      rename_i b hb
      split at h <;> try (simp at h; done)
      rename_i r hr
      simp only [Option.some.injEq] at h; subst h
      simp only [vdepthAll] at hd
      simp only [allWF, Bool.and_eq_true] at hw
      have ih1 := rt_val A e v t _ b (r ++ rest) depth hw.1 hb (by omega)
      have ih2 := rt_fields A e vs ts _ r rest depth hw.2 hr (by omega)
      simp only [decodeFieldsWith, List.append_assoc]
      rw [skipPad_zeros]
      simp only []
      rw [ih1]
      simp only []
      rw [ih2]
      simp; omega
end

/-! A nest of `d` variants occupies more than `d` bytes, so the length of the data bounds the depth. -/
mutual
theorem vdepth_le_length (A : AlignTable) (e : Endian) :
    ∀ (v : Val) (t : Ty) (off : Nat) (bs : Bytes), encode A e t v off = some bs → v.vdepth ≤ bs.length
  | .int n, t, off, bs, h => by simp [Val.vdepth]
  | .bool b, t, off, bs, h => by simp [Val.vdepth]
  | .double b, t, off, bs, h => by simp [Val.vdepth]
  | .str b, t, off, bs, h => by simp [Val.vdepth]
  | .variant t' v', t, off, bs, h => by
    cases t <;> simp only [encode, reduceCtorEq] at h
    · simp [encBasic] at h
    · split at h <;> try (simp at h; done)
      split at h <;> try (simp at h; done)
      rename_i body hbody
      simp only [Option.some.injEq] at h; subst h
      have := vdepth_le_length A e v' t' _ body hbody
      simp [Val.vdepth]; omega
  | .array vs, t, off, bs, h => by
    cases t <;> simp only [encode, reduceCtorEq] at h
    · simp [encBasic] at h
    · split at h <;> try (simp at h; done)
      rename_i body hbody
      split at h <;> try (simp at h; done)
      simp only [Option.some.injEq] at h; subst h
      have := vdepth_elems A e vs _ _ body hbody
      simp [Val.vdepth]; omega
  | .struct vs, t, off, bs, h => by
    cases t <;> simp only [encode, reduceCtorEq] at h
    · simp [encBasic] at h
    · have := vdepth_fields A e vs _ _ bs h
      simpa [Val.vdepth] using this
  | .entry k v, t, off, bs, h => by
    cases t <;> simp only [encode, reduceCtorEq] at h
    · simp [encBasic] at h
    · split at h <;> try (simp at h; done)
      rename_i kb hkb
      split at h <;> try (simp at h; done)
      rename_i vb hvb
      simp only [Option.some.injEq] at h; subst h
      have := vdepth_le_length A e k _ _ kb hkb
      have := vdepth_le_length A e v _ _ vb hvb
      simp [Val.vdepth]; omega
theorem vdepth_elems (A : AlignTable) (e : Endian) :
    ∀ (vs : List Val) (el : Ty) (off : Nat) (bs : Bytes), encodeElems A e el vs off = some bs → vdepthAll vs ≤ bs.length
  | [], el, off, bs, h => by simp [vdepthAll]
  | v :: vs, el, off, bs, h => by
    simp only [encodeElems] at h
    split at h <;> try (simp at h; done)
    rename_i b hb
    split at h <;> try (simp at h; done)
    rename_i r hr
    simp only [Option.some.injEq] at h; subst h
    have := vdepth_le_length A e v el _ b hb
    have := vdepth_elems A e vs el _ r hr
    simp [vdepthAll]; omega
theorem vdepth_fields (A : AlignTable) (e : Endian) :
    ∀ (vs : List Val) (ts : List Ty) (off : Nat) (bs : Bytes), encodeFields A e ts vs off = some bs → vdepthAll vs ≤ bs.length
  | [], ts, off, bs, h => by simp [vdepthAll]
  | v :: vs, ts, off, bs, h => by
    cases ts with
    | nil => simp [encodeFields] at h
    | cons t ts =>
      simp only [encodeFields] at h
      split at h <;> try (simp at h; done)
      rename_i b hb
      split at h <;> try (simp at h; done)
      rename_i r hr
      simp only [Option.some.injEq] at h; subst h
      have := vdepth_le_length A e v t _ b hb
      have := vdepth_fields A e vs ts _ r hr
      simp [vdepthAll]; omega
end

/-- Round trip of the spec codec with an explicit bound on the nesting of variants. -/
theorem decodeAll_encodeAll (A : AlignTable) (e : Endian) (ts : List Ty) (vs : List Val) (off : Nat)
    (bs pre suf : Bytes) (depth : Nat) (hts : allWF ts = true) (hpre : pre.length = off)
    (henc : encodeAll A e ts vs off = some bs) (hd : vdepthAll vs ≤ depth) :
    decodeAll A e depth ts (pre ++ bs ++ suf) off = some (vs, bs.length) := by
  unfold decodeAll
  unfold encodeAll at henc
  have h := rt_fields A e vs ts off bs suf depth hts henc hd
  have hdrop : (pre ++ bs ++ suf).drop off = bs ++ suf := by
    subst hpre; simp
  have hle : off ≤ (pre ++ bs ++ suf).length := by
    subst hpre; simp
  simp only [hle, if_true, hdrop, h]
  simp

end Spec
end Txdbus
