import TxdbusModel.Proofs.Wire.MarshalBasic
import TxdbusModel.Proofs.Sig.Split
/-
Code = Spec, part 3 (encoding direction): `Code.marshalOne` / `marshalSeq` / `marshalElems` applied to the
rendered type produce exactly the bytes of `Spec.encode` with the alignment table of the specification,
for every Python value denoting the spec value (`Rep`).  Structural recursion over the spec value.
-/
set_option linter.unusedSimpArgs false

namespace Txdbus
namespace Code
open Gen.Wire (Fn)

theorem head?_render (t : Ty) : t.render.head? = some t.code := by
  cases t <;> simp [Ty.render, Ty.code]

theorem asciiEncode_of_ok : ∀ cs : List Char, (∀ c ∈ cs, sigCharOk c) →
    asciiEncode cs = some (cs.map fun c => UInt8.ofNat c.toNat)
  | [], _ => rfl
  | c :: cs, h => by
    have hc := h c (by simp)
    have ih := asciiEncode_of_ok cs (fun c' hc' => h c' (by simp [hc']))
    unfold sigCharOk at hc
    simp only [asciiEncode, ih, List.map_cons]
    have : c.toNat < 128 := hc.2
    simp [this]

theorem asciiEncode_render (t : Ty) : asciiEncode t.render = some (Spec.sigBytes t) :=
  asciiEncode_of_ok _ t.render_ascii

theorem mSignature_render (le : Bool) (t : Ty) (fds : Fds) (h : t.render.length < 256) :
    mSignature le t.render fds =
      .ok (2 + t.render.length, encUInt (endianOf le) 1 t.render.length ++ Spec.sigBytes t ++ [0], fds) := by
  unfold mSignature
  simp only [asciiEncode_render, fmt_signature, frame_signature, Spec.sigBytes_length]
  rw [pack_uint 'B' le 1 (.int .plain (t.render.length : Int)) _ rfl rfl (by omega) (by omega)]
  simp

theorem padLen_after (a x : Nat) (ha : 0 < a) : padLen a (x + padLen a x) = 0 :=
  (padLen_eq_zero_iff a _ ha).2 (padLen_aligned a x ha)

theorem lazyPieces_render (t : Ty) : lazyPieces t.render = ([t.render], none) := by
  have := lazyPieces_renderAll [t]
  simpa [renderAll] using this

/-- `marshal(vsig, [var], start)` for a signature holding one complete type, at an aligned offset. -/
theorem marshalTop_single (A : AlignTable) (hA : PadOK A) (hpos : A.Pos) (one : List Char → PyVal → Nat → Fds → MRes) (t : Ty) (pv : PyVal) (start : Nat)
    (fds : Fds) (hal : padLen (A t.code) start = 0) :
    marshalTop one t.render (.list [pv]) start fds =
      match one t.render pv start fds with
      | .ok (n, bs, fds1) => .ok (n, bs, fds1)
      | .error e => .error e := by
  unfold marshalTop
  simp only [topItems, pyIter, lazyPieces_render, marshalSeq, head?_render, hA, hal, Nat.add_zero]
  cases h : one t.render pv start fds with
  | error e => simp
  | ok r =>
    obtain ⟨n, bs, fds1⟩ := r
    simp [zeros]

theorem struct_inner (fs : List Ty) : (Ty.struct fs).render.tail.dropLast = renderAll fs := by
  simp [Ty.render]

theorem dict_inner (kt vt : Ty) : (Ty.dict kt vt).render.tail.dropLast = renderAll [kt, vt] := by
  simp [Ty.render, renderAll]

theorem fdsArg_take_succ (lall : List PyVal) (k : Nat) (pv : PyVal) (h : lall[k]? = some pv) :
    lall.take k ++ [pv] = lall.take (k + 1) := by
  rw [List.take_add_one, h]; rfl

theorem marshalOne_scalar (A : AlignTable) (hA : PadOK A) (hpos : A.Pos) (lall : List PyVal) (le : Bool) (v : Val) (fd : Bool) (t : Ty) (pv : PyVal)
    (k k' off : Nat) (bs : Bytes) (fuel : Nat) (hr : RepScalar lall v fd t pv k k')
    (he : Spec.encode A (endianOf le) t v off = some bs) (hf : 1 ≤ fuel) :
    marshalOne le fuel t.render pv off (fdsArg fd lall k) = .ok (bs.length, bs, fdsArg fd lall k') := by
  obtain ⟨f, rfl⟩ : ∃ f, fuel = f + 1 := ⟨fuel - 1, by omega⟩
  obtain ⟨c, rfl, hcase⟩ := hr
  simp only [Spec.encode] at he
  rcases hcase with ⟨rfl, rfl, rfl, rfl, hl, _⟩ | ⟨_, hb, rfl⟩
  · obtain ⟨h, rfl⟩ := encBasic_uint _ .h 4 rfl _ _ he
    have hk : k < lall.length := by
      have := List.getElem?_eq_some_iff.1 hl
      exact this.1
    have hlen : (lall.take k).length = k := by simp; omega
    simp only [Ty.render, marshalOne, Basic.code, List.head?_cons, disp_h, fdsArg, if_true]
    rw [mFixed_uint le _ 'I' 4 (.int .plain ((lall.take k).length : Int)) (k : Int) _ (fmt_unix_fd le) size_unix_fd rfl
      (by simp [PyVal.asInt?, hlen]) h]
    simp [fdsArg_take_succ lall k pv hl]
  · simp only [Ty.render]
    exact marshalOne_basic le f c v pv off _ bs hb he

mutual
theorem marshalOne_spec (A : AlignTable) (hA : PadOK A) (hpos : A.Pos) (lall : List PyVal) (le : Bool) :
    ∀ (v : Val) (fd : Bool) (t : Ty) (pv : PyVal) (k k' off : Nat) (bs : Bytes) (fuel : Nat),
      Rep lall v fd t pv k k' → Spec.encode A (endianOf le) t v off = some bs → v.depth ≤ fuel →
      marshalOne le fuel t.render pv off (fdsArg fd lall k) = .ok (bs.length, bs, fdsArg fd lall k')
  | .int n, fd, t, pv, k, k', off, bs, fuel, hr, he, hf => by
    simp only [Rep] at hr; simp only [Val.depth] at hf
    exact marshalOne_scalar A hA hpos lall le _ fd t pv k k' off bs fuel hr he hf
  | .bool b, fd, t, pv, k, k', off, bs, fuel, hr, he, hf => by
    simp only [Rep] at hr; simp only [Val.depth] at hf
    exact marshalOne_scalar A hA hpos lall le _ fd t pv k k' off bs fuel hr he hf
  | .double b, fd, t, pv, k, k', off, bs, fuel, hr, he, hf => by
    simp only [Rep] at hr; simp only [Val.depth] at hf
    exact marshalOne_scalar A hA hpos lall le _ fd t pv k k' off bs fuel hr he hf
  | .str b, fd, t, pv, k, k', off, bs, fuel, hr, he, hf => by
    simp only [Rep] at hr; simp only [Val.depth] at hf
    exact marshalOne_scalar A hA hpos lall le _ fd t pv k k' off bs fuel hr he hf
  | .variant t' v', fd, t, pv, k, k', off, bs, fuel, hr, he, hf => by
    simp only [Rep] at hr
    obtain ⟨rfl, hsig, hrep, rfl⟩ := hr
    simp only [Spec.encode] at he
    split at he <;> try (simp at he; done)
    rename_i hok
    split at he <;> try (simp at he; done)
    rename_i body hbody
    simp only [Option.some.injEq] at he; subst he
    simp only [Val.depth] at hf
    obtain ⟨f, rfl⟩ : ∃ f, fuel = f + 1 := ⟨fuel - 1, by omega⟩
    have ih := marshalOne_spec A hA hpos lall le v' false t' pv _ _ _ body f hrep hbody (by omega)
    have hok' := hok
    simp only [Spec.variantTypeOk, Bool.and_eq_true, decide_eq_true_eq] at hok'
    have hpos' := hpos t'
    simp only [List.length_append, encUInt_length, Spec.sigBytes_length, List.length_cons, List.length_nil] at ih hbody ⊢
    simp only [Ty.render, marshalOne, List.head?_cons, disp_v, hsig, mSignature_render le t' _ hok'.2,
      head?_render, hA]
    have e1 : off + (2 + t'.render.length) = off + (1 + t'.render.length + (0 + 1)) := by omega
    rw [e1, marshalTop_single A hA hpos _ t' pv _ none (padLen_after _ _ hpos')]
    simp only [fdsArg] at ih
    simp only [Bool.false_eq_true, if_false] at ih
    rw [ih]
    simp only [Except.ok.injEq, Prod.mk.injEq, and_true, zeros_length]
    omega
  | .array vs, fd, t, pv, k, k', off, bs, fuel, hr, he, hf => by
    simp only [Rep] at hr
    obtain ⟨el, items, rfl, _, hitems, hrep⟩ := hr
    simp only [Spec.encode] at he
    split at he <;> try (simp at he; done)
    rename_i body hbody
    split at he <;> try (simp at he; done)
    rename_i hmax
    simp only [Option.some.injEq] at he; subst he
    simp only [Val.depth] at hf
    obtain ⟨f, rfl⟩ : ∃ f, fuel = f + 1 := ⟨fuel - 1, by omega⟩
    have ih := marshalElems_spec A hA hpos lall le vs fd el items k k' _ body f 0 hrep hbody (by omega)
    have hlt : (body.length : Int) < ((256 ^ 4 : Nat) : Int) := by
      unfold Spec.maxArray at hmax; omega
    simp only [Ty.render, marshalOne, List.head?_cons, disp_a, List.tail, head?_render, hA, hitems, ih,
      fmt_array, frame_array, Nat.zero_add]
    rw [pack_uint 'I' le 4 (.int .plain (body.length : Int)) _ rfl rfl (by omega) hlt]
    simp only [Int.toNat_natCast, zeros_length, List.length_append, encUInt_length]
  | .struct vs, fd, t, pv, k, k', off, bs, fuel, hr, he, hf => by
    simp only [Rep] at hr
    obtain ⟨fs, items, rfl, _, hitems, hrep⟩ := hr
    simp only [Spec.encode] at he
    simp only [Val.depth] at hf
    obtain ⟨f, rfl⟩ : ∃ f, fuel = f + 1 := ⟨fuel - 1, by omega⟩
    have ih := marshalSeq_spec A hA hpos lall le vs fd fs items k k' off bs f hrep he (by omega)
    have hd : marshalOne le (f + 1) (Ty.struct fs).render pv off (fdsArg fd lall k) =
        marshalTop (marshalOne le f) (Ty.struct fs).render.tail.dropLast pv off (fdsArg fd lall k) := by
      simp only [Ty.render, marshalOne, List.head?_cons, disp_struct]
    rw [hd, struct_inner]
    unfold marshalTop
    simp only [hitems, lazyPieces_renderAll, ih]
    simp
  | .entry a b, fd, t, pv, k, k', off, bs, fuel, hr, he, hf => by
    simp only [Rep] at hr
    obtain ⟨kt, vt, x, y, k1, rfl, _, hitems, hra, hrb⟩ := hr
    simp only [Spec.encode] at he
    split at he <;> try (simp at he; done)
    rename_i kb hkb
    split at he <;> try (simp at he; done)
    rename_i vb hvb
    simp only [Option.some.injEq] at he; subst he
    simp only [Val.depth] at hf
    obtain ⟨f, rfl⟩ : ∃ f, fuel = f + 1 := ⟨fuel - 1, by omega⟩
    have iha := marshalOne_spec A hA hpos lall le a fd kt x k k1 _ kb f hra hkb (by omega)
    have ihb := marshalOne_spec A hA hpos lall le b fd vt y k1 k' _ vb f hrb hvb (by omega)
    have hd : marshalOne le (f + 1) (Ty.dict kt vt).render pv off (fdsArg fd lall k) =
        marshalTop (marshalOne le f) (Ty.dict kt vt).render.tail.dropLast pv off (fdsArg fd lall k) := by
      simp only [Ty.render, marshalOne, List.head?_cons, disp_dict]
    rw [hd, dict_inner]
    unfold marshalTop
    have hlp := lazyPieces_renderAll [kt, vt]
    simp only [List.map_cons, List.map_nil] at hlp
    simp only [hitems, hlp, marshalSeq, head?_render, hA, iha, ihb]
    simp only [Except.ok.injEq, Prod.mk.injEq, and_true, List.append_nil, List.length_append, zeros_length,
      List.append_assoc]
    omega
theorem marshalElems_spec (A : AlignTable) (hA : PadOK A) (hpos : A.Pos) (lall : List PyVal) (le : Bool) :
    ∀ (vs : List Val) (fd : Bool) (el : Ty) (items : List PyVal) (k k' off : Nat) (body : Bytes) (fuel dl : Nat),
      RepElems lall vs fd el items k k' →
      Spec.encodeElems A (endianOf le) el vs off = some body → depthAll vs ≤ fuel →
      marshalElems (marshalOne le fuel el.render) el.code items off dl (fdsArg fd lall k) =
        .ok (off + body.length, dl + body.length, body, fdsArg fd lall k')
  | [], fd, el, items, k, k', off, body, fuel, dl, hr, he, _ => by
    simp only [RepElems] at hr
    obtain ⟨rfl, rfl⟩ := hr
    simp only [Spec.encodeElems, Option.some.injEq] at he; subst he
    simp [marshalElems]
  | v :: vs, fd, el, items, k, k', off, body, fuel, dl, hr, he, hf => by
    simp only [RepElems] at hr
    obtain ⟨x, xs, k1, rfl, hrv, hrs⟩ := hr
    simp only [Spec.encodeElems] at he
    split at he <;> try (simp at he; done)
    rename_i b hb
    split at he <;> try (simp at he; done)
    rename_i r hr'
    simp only [Option.some.injEq] at he; subst he
    simp only [depthAll] at hf
    have ih1 := marshalOne_spec A hA hpos lall le v fd el x k k1 _ b fuel hrv hb (by omega)
    have ih2 := marshalElems_spec A hA hpos lall le vs fd el xs k1 k' _ r fuel
      (dl + padLen (A el.code) off + b.length) hrs hr' (by omega)
    simp only [marshalElems, hA, ih1, ih2]
    simp only [Except.ok.injEq, Prod.mk.injEq, and_true, List.length_append, zeros_length]
    omega
theorem marshalSeq_spec (A : AlignTable) (hA : PadOK A) (hpos : A.Pos) (lall : List PyVal) (le : Bool) :
    ∀ (vs : List Val) (fd : Bool) (ts : List Ty) (items : List PyVal) (k k' off : Nat) (bs : Bytes) (fuel : Nat),
      RepFields lall vs fd ts items k k' →
      Spec.encodeFields A (endianOf le) ts vs off = some bs → depthAll vs ≤ fuel →
      marshalSeq (marshalOne le fuel) (ts.map Ty.render) none items off (fdsArg fd lall k) =
        .ok (off + bs.length, bs, fdsArg fd lall k')
  | [], fd, ts, items, k, k', off, bs, fuel, hr, he, _ => by
    simp only [RepFields] at hr
    obtain ⟨rfl, rfl, rfl⟩ := hr
    simp only [Spec.encodeFields, Option.some.injEq] at he; subst he
    simp [marshalSeq]
  | v :: vs, fd, ts, items, k, k', off, bs, fuel, hr, he, hf => by
    simp only [RepFields] at hr
    obtain ⟨t, ts', x, xs, k1, rfl, rfl, hrv, hrs⟩ := hr
    simp only [Spec.encodeFields] at he
    split at he <;> try (simp at he; done)
    rename_i b hb
    split at he <;> try (simp at he; done)
    rename_i r hr'
    simp only [Option.some.injEq] at he; subst he
    simp only [depthAll] at hf
    have ih1 := marshalOne_spec A hA hpos lall le v fd t x k k1 _ b fuel hrv hb (by omega)
    have ih2 := marshalSeq_spec A hA hpos lall le vs fd ts' xs k1 k' _ r fuel hrs hr' (by omega)
    simp only [List.map_cons, marshalSeq, head?_render, hA, ih1, ih2]
    simp only [Except.ok.injEq, Prod.mk.injEq, and_true, List.length_append, zeros_length]
    omega
end

end Code
end Txdbus
