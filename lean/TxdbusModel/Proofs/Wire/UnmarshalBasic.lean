import TxdbusModel.Proofs.Wire.CodePrim
import TxdbusModel.Proofs.Wire.MarshalSpec
/-
Code = Spec, part 4 (decoding direction): on the bytes `Spec.encBasic` produces, placed anywhere in a
byte string, the per-type unmarshallers of the basic types return the value (`fromSpec`) and the length.
-/
set_option linter.unusedSimpArgs false

namespace Txdbus
namespace Code
open Gen.Wire (Fn)

/-! ### table obligations: dispatch, formats and sizes of the unmarshallers -/

theorem udisp_y : Gen.Wire.unmarshallers.lookup 'y' = some Fn.unmarshal_byte := by decide
theorem udisp_b : Gen.Wire.unmarshallers.lookup 'b' = some Fn.unmarshal_boolean := by decide
theorem udisp_n : Gen.Wire.unmarshallers.lookup 'n' = some Fn.unmarshal_int16 := by decide
theorem udisp_q : Gen.Wire.unmarshallers.lookup 'q' = some Fn.unmarshal_uint16 := by decide
theorem udisp_i : Gen.Wire.unmarshallers.lookup 'i' = some Fn.unmarshal_int32 := by decide
theorem udisp_u : Gen.Wire.unmarshallers.lookup 'u' = some Fn.unmarshal_uint32 := by decide
theorem udisp_x : Gen.Wire.unmarshallers.lookup 'x' = some Fn.unmarshal_int64 := by decide
theorem udisp_t : Gen.Wire.unmarshallers.lookup 't' = some Fn.unmarshal_uint64 := by decide
theorem udisp_d : Gen.Wire.unmarshallers.lookup 'd' = some Fn.unmarshal_double := by decide
theorem udisp_s : Gen.Wire.unmarshallers.lookup 's' = some Fn.unmarshal_string := by decide
theorem udisp_o : Gen.Wire.unmarshallers.lookup 'o' = some Fn.unmarshal_string := by decide
theorem udisp_g : Gen.Wire.unmarshallers.lookup 'g' = some Fn.unmarshal_signature := by decide
theorem udisp_h : Gen.Wire.unmarshallers.lookup 'h' = some Fn.unmarshal_unix_fd := by decide
theorem udisp_a : Gen.Wire.unmarshallers.lookup 'a' = some Fn.unmarshal_array := by decide
theorem udisp_v : Gen.Wire.unmarshallers.lookup 'v' = some Fn.unmarshal_variant := by decide
theorem udisp_struct : Gen.Wire.unmarshallers.lookup '(' = some Fn.unmarshal_struct := by decide
theorem udisp_dict : Gen.Wire.unmarshallers.lookup '{' = some Fn.unmarshal_struct := by decide

theorem ufmt_byte (le : Bool) : fmtOf .unmarshal_byte 0 le = .ok (fmtLE 'B' le) := by cases le <;> rfl
theorem ufmt_boolean (le : Bool) : fmtOf .unmarshal_boolean 0 le = .ok (fmtLE 'I' le) := by cases le <;> rfl
theorem ufmt_int16 (le : Bool) : fmtOf .unmarshal_int16 0 le = .ok (fmtLE 'h' le) := by cases le <;> rfl
theorem ufmt_uint16 (le : Bool) : fmtOf .unmarshal_uint16 0 le = .ok (fmtLE 'H' le) := by cases le <;> rfl
theorem ufmt_int32 (le : Bool) : fmtOf .unmarshal_int32 0 le = .ok (fmtLE 'i' le) := by cases le <;> rfl
theorem ufmt_uint32 (le : Bool) : fmtOf .unmarshal_uint32 0 le = .ok (fmtLE 'I' le) := by cases le <;> rfl
theorem ufmt_int64 (le : Bool) : fmtOf .unmarshal_int64 0 le = .ok (fmtLE 'q' le) := by cases le <;> rfl
theorem ufmt_uint64 (le : Bool) : fmtOf .unmarshal_uint64 0 le = .ok (fmtLE 'Q' le) := by cases le <;> rfl
theorem ufmt_double (le : Bool) : fmtOf .unmarshal_double 0 le = .ok (fmtLE 'd' le) := by cases le <;> rfl
theorem ufmt_string (le : Bool) : fmtOf .unmarshal_string 0 le = .ok (fmtLE 'I' le) := by cases le <;> rfl
theorem ufmt_signature (le : Bool) : fmtOf .unmarshal_signature 0 le = .ok (fmtLE 'B' le) := by cases le <;> rfl
theorem ufmt_unix_fd (le : Bool) : fmtOf .unmarshal_unix_fd 0 le = .ok (fmtLE 'I' le) := by cases le <;> rfl
theorem ufmt_array (le : Bool) : fmtOf .unmarshal_array 0 le = .ok (fmtLE 'I' le) := by cases le <;> rfl

theorem usize_byte : sizeOf .unmarshal_byte = .ok 1 := rfl
theorem usize_boolean : sizeOf .unmarshal_boolean = .ok 4 := rfl
theorem usize_int16 : sizeOf .unmarshal_int16 = .ok 2 := rfl
theorem usize_uint16 : sizeOf .unmarshal_uint16 = .ok 2 := rfl
theorem usize_int32 : sizeOf .unmarshal_int32 = .ok 4 := rfl
theorem usize_uint32 : sizeOf .unmarshal_uint32 = .ok 4 := rfl
theorem usize_int64 : sizeOf .unmarshal_int64 = .ok 8 := rfl
theorem usize_uint64 : sizeOf .unmarshal_uint64 = .ok 8 := rfl
theorem usize_double : sizeOf .unmarshal_double = .ok 8 := rfl
theorem usize_unix_fd : sizeOf .unmarshal_unix_fd = .ok 4 := rfl

/-! ### reading from the data -/

theorem pySlice_mid (pre w rest : Bytes) : pySlice (pre ++ (w ++ rest)) pre.length (pre.length + w.length) = w := by
  unfold pySlice
  rw [← List.append_assoc, List.take_append_of_le_length (by simp)]
  simp [List.take_of_length_le]

theorem pySlice_mid' (data pre w rest : Bytes) (a b : Nat) (hd : data = pre ++ (w ++ rest))
    (ha : a = pre.length) (hb : b = pre.length + w.length) : pySlice data a b = w := by
  subst hd ha hb; exact pySlice_mid pre w rest

theorem unpackFrom_at (letter : Char) (le : Bool) (kind : FmtKind) (hk : fmtKind? letter = some kind)
    (data pre w rest : Bytes) (off : Nat) (hd : data = pre ++ (w ++ rest)) (hp : pre.length = off)
    (hw : w.length = kind.size) :
    unpackFrom (fmtLE letter le) data off =
      match kind with
      | .uint _ => .ok (.int .plain (decUInt (endianOf le) w))
      | .sint _ => .ok (.int .plain (decSInt (endianOf le) w))
      | .double => .ok (.float (UInt64.ofNat (decUInt (endianOf le) w))) := by
  unfold unpackFrom
  rw [fmtEndian_fmtLE]
  simp only [fmtLE, hk]
  have hlen : off + kind.size ≤ data.length := by
    subst hd hp; simp; omega
  have hs : pySlice data off (off + kind.size) = w :=
    pySlice_mid' data pre w rest _ _ hd hp.symm (by omega)
  simp only [hlen, if_true, hs]
  cases kind <;> rfl

theorem uFixed_uint (le : Bool) (f : Fn) (letter : Char) (k : Nat)
    (hf : fmtOf f 0 le = .ok (fmtLE letter le)) (hs : sizeOf f = .ok k) (hk : fmtKind? letter = some (.uint k))
    (data pre rest : Bytes) (off n : Nat) (hd : data = pre ++ (encUInt (endianOf le) k n ++ rest))
    (hp : pre.length = off) (hn : n < 256 ^ k) :
    uFixed le data f off = .ok (k, .int .plain (n : Int)) := by
  unfold uFixed
  simp only [hf, hs]
  rw [unpackFrom_at letter le (.uint k) hk data pre _ rest off hd hp (by simp [FmtKind.size])]
  simp only [decUInt_encUInt _ _ _ hn]

theorem uFixed_sint (le : Bool) (f : Fn) (letter : Char) (k : Nat) (hpos : 0 < k)
    (hf : fmtOf f 0 le = .ok (fmtLE letter le)) (hs : sizeOf f = .ok k) (hk : fmtKind? letter = some (.sint k))
    (data pre rest : Bytes) (off : Nat) (n : Int) (hd : data = pre ++ (encSInt (endianOf le) k n ++ rest))
    (hp : pre.length = off)
    (hn : -((256 ^ k / 2 : Nat) : Int) ≤ n ∧ n < ((256 ^ k / 2 : Nat) : Int)) :
    uFixed le data f off = .ok (k, .int .plain n) := by
  unfold uFixed
  simp only [hf, hs]
  rw [unpackFrom_at letter le (.sint k) hk data pre _ rest off hd hp (by simp [FmtKind.size])]
  simp only [decSInt_encSInt _ _ hpos _ hn.1 hn.2]

theorem uLenWord_at (le : Bool) (f : Fn) (letter : Char) (k : Nat)
    (hf : fmtOf f 0 le = .ok (fmtLE letter le)) (hk : fmtKind? letter = some (.uint k))
    (data pre rest : Bytes) (off n : Nat) (hd : data = pre ++ (encUInt (endianOf le) k n ++ rest))
    (hp : pre.length = off) (hn : n < 256 ^ k) :
    uLenWord le data f off = .ok n := by
  unfold uLenWord
  simp only [hf]
  rw [unpackFrom_at letter le (.uint k) hk data pre _ rest off hd hp (by simp [FmtKind.size])]
  simp only [decUInt_encUInt _ _ _ hn, Int.toNat_natCast]

/-- `unmarshal_string` on `u32 len ++ bytes ++ [0]`. -/
theorem uString_at (le : Bool) (data pre s rest : Bytes) (off : Nat)
    (hd : data = pre ++ ((encUInt (endianOf le) 4 s.length ++ s ++ [0]) ++ rest)) (hp : pre.length = off)
    (hn : s.length < 4294967296) :
    uLenWord le data .unmarshal_string off = .ok s.length ∧
      pySlice data (off + 4) (off + 4 + s.length) = s := by
  constructor
  · apply uLenWord_at le _ 'I' 4 (ufmt_string le) rfl data pre (s ++ [0] ++ rest) off s.length _ hp (by omega)
    rw [hd]; simp
  · apply pySlice_mid' data (pre ++ encUInt (endianOf le) 4 s.length) s ([0] ++ rest)
    · rw [hd]; simp
    · simp; omega
    · simp; omega

theorem uSignature_at (le : Bool) (data pre s rest : Bytes) (off : Nat)
    (hd : data = pre ++ ((encUInt (endianOf le) 1 s.length ++ s ++ [0]) ++ rest)) (hp : pre.length = off)
    (hn : s.length < 256) :
    uLenWord le data .unmarshal_signature off = .ok s.length ∧
      pySlice data (off + 1) (off + 1 + s.length) = s := by
  constructor
  · apply uLenWord_at le _ 'B' 1 (ufmt_signature le) rfl data pre (s ++ [0] ++ rest) off s.length _ hp (by omega)
    rw [hd]; simp
  · apply pySlice_mid' data (pre ++ encUInt (endianOf le) 1 s.length) s ([0] ++ rest)
    · rw [hd]; simp
    · simp; omega
    · simp; omega

/-- The unmarshallers of the basic types invert `Spec.encBasic`. -/
theorem unmarshalOne_basic (le : Bool) (fds : Fds) (fuel : Nat) (c : Basic) (v : Val) (pv : PyVal)
    (data pre bs rest : Bytes) (off : Nat) (he : Spec.encBasic (endianOf le) c v = some bs)
    (hd : data = pre ++ (bs ++ rest)) (hp : pre.length = off)
    (hv : fromSpec fds v (.basic c) = some pv) :
    unmarshalOne le data fds (fuel + 1) [c.code] off = .ok (bs.length, pv) := by
  cases c
  case y =>
    cases v <;> try (simp [Spec.encBasic, Basic.shape] at he; done)
    obtain ⟨h, rfl⟩ := encBasic_uint _ .y 1 rfl _ _ he
    simp only [fromSpec, Option.some.injEq] at hv; subst hv
    simp only [unmarshalOne, Basic.code, List.head?_cons, udisp_y]
    rw [uFixed_uint le _ 'B' 1 (ufmt_byte le) usize_byte rfl data pre rest off _ hd hp (by omega)]
    simp [Int.toNat_of_nonneg h.1]
  case q =>
    cases v <;> try (simp [Spec.encBasic, Basic.shape] at he; done)
    obtain ⟨h, rfl⟩ := encBasic_uint _ .q 2 rfl _ _ he
    simp only [fromSpec, Option.some.injEq] at hv; subst hv
    simp only [unmarshalOne, Basic.code, List.head?_cons, udisp_q]
    rw [uFixed_uint le _ 'H' 2 (ufmt_uint16 le) usize_uint16 rfl data pre rest off _ hd hp (by omega)]
    simp [Int.toNat_of_nonneg h.1]
  case u =>
    cases v <;> try (simp [Spec.encBasic, Basic.shape] at he; done)
    obtain ⟨h, rfl⟩ := encBasic_uint _ .u 4 rfl _ _ he
    simp only [fromSpec, Option.some.injEq] at hv; subst hv
    simp only [unmarshalOne, Basic.code, List.head?_cons, udisp_u]
    rw [uFixed_uint le _ 'I' 4 (ufmt_uint32 le) usize_uint32 rfl data pre rest off _ hd hp (by omega)]
    simp [Int.toNat_of_nonneg h.1]
  case t =>
    cases v <;> try (simp [Spec.encBasic, Basic.shape] at he; done)
    obtain ⟨h, rfl⟩ := encBasic_uint _ .t 8 rfl _ _ he
    simp only [fromSpec, Option.some.injEq] at hv; subst hv
    simp only [unmarshalOne, Basic.code, List.head?_cons, udisp_t]
    rw [uFixed_uint le _ 'Q' 8 (ufmt_uint64 le) usize_uint64 rfl data pre rest off _ hd hp (by omega)]
    simp [Int.toNat_of_nonneg h.1]
  case n =>
    cases v <;> try (simp [Spec.encBasic, Basic.shape] at he; done)
    obtain ⟨h, rfl⟩ := encBasic_sint _ .n 2 rfl _ _ he
    simp only [fromSpec, Option.some.injEq] at hv; subst hv
    simp only [unmarshalOne, Basic.code, List.head?_cons, udisp_n]
    rw [uFixed_sint le _ 'h' 2 (by omega) (ufmt_int16 le) usize_int16 rfl data pre rest off _ hd hp h]
    simp
  case i =>
    cases v <;> try (simp [Spec.encBasic, Basic.shape] at he; done)
    obtain ⟨h, rfl⟩ := encBasic_sint _ .i 4 rfl _ _ he
    simp only [fromSpec, Option.some.injEq] at hv; subst hv
    simp only [unmarshalOne, Basic.code, List.head?_cons, udisp_i]
    rw [uFixed_sint le _ 'i' 4 (by omega) (ufmt_int32 le) usize_int32 rfl data pre rest off _ hd hp h]
    simp
  case x =>
    cases v <;> try (simp [Spec.encBasic, Basic.shape] at he; done)
    obtain ⟨h, rfl⟩ := encBasic_sint _ .x 8 rfl _ _ he
    simp only [fromSpec, Option.some.injEq] at hv; subst hv
    simp only [unmarshalOne, Basic.code, List.head?_cons, udisp_x]
    rw [uFixed_sint le _ 'q' 8 (by omega) (ufmt_int64 le) usize_int64 rfl data pre rest off _ hd hp h]
    simp
  case h =>
    cases v <;> try (simp [Spec.encBasic, Basic.shape] at he; done)
    obtain ⟨h, rfl⟩ := encBasic_uint _ .h 4 rfl _ _ he
    rename_i n
    simp only [fromSpec] at hv
    cases fds with
    | none => simp at hv
    | some l =>
      simp only [Option.map_some, Option.some.injEq] at hv; subst hv
      simp only [unmarshalOne, Basic.code, List.head?_cons, udisp_h, usize_unix_fd]
      rw [uLenWord_at le _ 'I' 4 (ufmt_unix_fd le) rfl data pre rest off n.toNat hd hp (by omega)]
      simp
  case b =>
    cases v <;> try (simp [Spec.encBasic, Basic.shape] at he; done)
    rename_i b
    simp only [Spec.encBasic, Basic.shape, Option.some.injEq] at he; subst he
    simp only [fromSpec, Option.some.injEq] at hv; subst hv
    simp only [unmarshalOne, Basic.code, List.head?_cons, udisp_b]
    rw [uFixed_uint le _ 'I' 4 (ufmt_boolean le) usize_boolean rfl data pre rest off _ hd hp (by split <;> omega)]
    cases b <;> simp
  case d =>
    cases v <;> try (simp [Spec.encBasic, Basic.shape] at he; done)
    rename_i bits
    simp only [Spec.encBasic, Basic.shape, Option.some.injEq] at he; subst he
    simp only [fromSpec, Option.some.injEq] at hv; subst hv
    have hlt : bits.toNat < 256 ^ 8 := by have := UInt64.toNat_lt bits; omega
    simp only [unmarshalOne, Basic.code, List.head?_cons, udisp_d, uFixed, ufmt_double, usize_double]
    rw [unpackFrom_at 'd' le .double rfl data pre _ rest off hd hp (by simp [FmtKind.size])]
    simp [decUInt_encUInt _ _ _ hlt]
  case s =>
    cases v <;> try (simp [Spec.encBasic, Basic.shape] at he; done)
    rename_i s
    simp only [Spec.encBasic, Basic.shape] at he
    split at he <;> try (simp at he; done)
    rename_i h
    simp only [Option.some.injEq] at he; subst he
    obtain ⟨h1, h2⟩ := uString_at le data pre s rest off hd hp h.2
    simp only [fromSpec] at hv
    simp only [unmarshalOne, Basic.code, List.head?_cons, udisp_s, h1, h2, uframe_string]
    cases hdec : utf8Decode s with
    | none => simp [hdec] at hv
    | some cs =>
      simp only [hdec, Option.map_some, Option.some.injEq] at hv; subst hv
      simp; omega
  case o =>
    cases v <;> try (simp [Spec.encBasic, Basic.shape] at he; done)
    rename_i s
    simp only [Spec.encBasic, Basic.shape] at he
    split at he <;> try (simp at he; done)
    rename_i h
    simp only [Option.some.injEq] at he; subst he
    obtain ⟨h1, h2⟩ := uString_at le data pre s rest off hd hp h.2
    simp only [fromSpec] at hv
    simp only [unmarshalOne, Basic.code, List.head?_cons, udisp_o, h1, h2, uframe_string]
    cases hdec : utf8Decode s with
    | none => simp [hdec] at hv
    | some cs =>
      simp only [hdec, Option.map_some, Option.some.injEq] at hv; subst hv
      simp; omega
  case g =>
    cases v <;> try (simp [Spec.encBasic, Basic.shape] at he; done)
    rename_i s
    simp only [Spec.encBasic, Basic.shape] at he
    split at he <;> try (simp at he; done)
    rename_i h
    simp only [Option.some.injEq] at he; subst he
    obtain ⟨h1, h2⟩ := uSignature_at le data pre s rest off hd hp h.2
    simp only [fromSpec] at hv
    simp only [unmarshalOne, Basic.code, List.head?_cons, udisp_g, uSignature, h1, h2, uframe_signature]
    cases hdec : asciiDecode s with
    | none => simp [hdec] at hv
    | some cs =>
      simp only [hdec, Option.map_some, Option.some.injEq] at hv; subst hv
      simp; omega

end Code
end Txdbus
