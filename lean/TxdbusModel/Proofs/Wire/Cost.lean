import TxdbusModel.Wire.Cost
/-
Lemmas for property C05 about the cost model `Wire/Cost.lean`: the potential argument.

Potential of an offset: `pot L data off = (L + 2) * (data.length - off)`, `L` = a bound on the length of every
signature in play (the top-level one; a variant's is at most 255).  Every successful reader
(fixed-size, string, signature, array length word, variant signature) passes at least one byte that lies inside
the data, so it releases `L + 2` units: 1 pays its own invocation, 1 + `L` pay - once per array iteration, for
the first byte the iteration passes - the struct / dict-entry invocations of the element signature.  A variant
pays the invocations of the signature it introduces with the bytes that carry that signature.
An array iteration that passes no byte inside the data returns 0 bytes (alignment of struct / dict entry is 8
and the loop has just aligned the offset), which the repaired loop rejects: `StillOne` / `StillSeq`.
Core Lean only.
-/
open Txdbus Txdbus.Cost
open Txdbus.Gen.C05Wire (UKind)
namespace Txdbus.Cost
/-! ### Tables -/

/-- What the proofs need from the two tables. -/
structure Tables.Good (T : Tables) : Prop where
  fixed_pos : ∀ c need adv cls, T.kindOf c = some (.fixed need adv cls) → 1 ≤ need ∧ 1 ≤ adv
  struct_align : ∀ c, T.kindOf c = some .struct → T.alignOf c = some 8

def kindEntryOk (T : Tables) : Char × UKind → Bool
  | (_, .fixed need adv _) => decide (1 ≤ need) && decide (1 ≤ adv)
  | (c, .struct) => T.alignOf c == some 8
  | _ => true

def Tables.goodB (T : Tables) : Bool := T.kind.all (kindEntryOk T)

theorem lookup_mem {α β} [BEq α] [LawfulBEq α] (a : α) (b : β) : ∀ (l : List (α × β)), l.lookup a = some b → (a, b) ∈ l
  | [], h => by simp [List.lookup] at h
  | (k, v) :: l, h => by
    simp only [List.lookup] at h
    split at h
    · rename_i heq
      have : a = k := by simpa using heq
      cases h; subst this; exact List.mem_cons_self
    · exact List.mem_cons_of_mem _ (lookup_mem a b l h)

theorem Tables.good_of_goodB (T : Tables) (h : T.goodB = true) : T.Good := by
  have hall := List.all_eq_true.mp h
  constructor
  · intro c need adv cls hk
    have := hall _ (lookup_mem _ _ _ hk)
    simpa [kindEntryOk] using this
  · intro c hk
    have := hall _ (lookup_mem _ _ _ hk)
    simpa [kindEntryOk] using this

theorem genTables_good : genTables.Good := Tables.good_of_goodB _ (by decide)

theorem firstType_split : ∀ (s ct rest : List Char), firstType s = .ok (ct, rest) →
    ct.length + rest.length = s.length ∧ 1 ≤ ct.length
  | [], ct, rest, h => by simp [firstType] at h
  | c :: cs, ct, rest, h => by
    unfold firstType at h
    split at h
    · split at h
      · cases h; simp [List.length_take, List.length_drop]; omega
      · cases h
    · split at h
      · split at h
        · cases h; simp [List.length_take, List.length_drop]; omega
        · cases h
      · split at h
        · split at h
          · rename_i ct' rest' heq
            have := firstType_split cs ct' rest' heq
            cases h
            simp; omega
          · cases h
        · cases h; simp; omega

theorem asciiDecode_length : ∀ (bs : List UInt8) (cs : List Char), asciiDecode bs = some cs → cs.length = bs.length
  | [], cs, h => by simp [asciiDecode] at h; subst h; rfl
  | b :: bs, cs, h => by
    unfold asciiDecode at h
    split at h
    · split at h
      · rename_i cs' heq
        cases h
        simp [asciiDecode_length bs cs' heq]
      · cases h
    · cases h

theorem slice_length_le (data : List UInt8) (a b : Nat) : a + (slice data a b).length ≤ max a data.length := by
  simp [slice, List.length_take, List.length_drop]; omega

theorem padLen_dvd (off : Nat) (h : 8 ∣ off) : padLen 8 off = 0 := by
  simp [padLen]; omega

theorem padLen_aligned (off : Nat) : 8 ∣ off + padLen 8 off := by
  simp only [padLen]; split <;> omega


theorem slice_length_le' (data : List UInt8) (a b : Nat) : (slice data a b).length ≤ b - a := by
  simp [slice, List.length_take]; omega

theorem uval_byte_lt (le : Bool) (bs : List UInt8) (h : bs.length ≤ 1) : uval le bs < 256 := by
  match bs, h with
  | [], _ => simp [uval, leVal]
  | [b], _ =>
    have := b.toNat_lt
    cases le <;> simp [uval, leVal] <;> omega

/-- the potential: `(L + 2)` units per data byte not yet passed. -/
def pot (L : Nat) (data : List UInt8) (off : Nat) : Nat := (L + 2) * (data.length - off)

theorem pot_mono (L : Nat) (data : List UInt8) {off off' : Nat} (h : off ≤ off') : pot L data off' ≤ pot L data off :=
  Nat.mul_le_mul_left _ (by omega)

theorem pot_drop (L : Nat) (data : List UInt8) {off off' : Nat} (d : Nat) (h1 : off + d ≤ data.length) (h2 : off + d ≤ off') :
    pot L data off' + (L + 2) * d ≤ pot L data off := by
  have : (data.length - off') + d ≤ data.length - off := by omega
  have := Nat.mul_le_mul_left (L + 2) this
  simpa [pot, Nat.mul_add] using this

theorem pot_progress (L : Nat) (data : List UInt8) {off off' : Nat} (h : data.length - off' < data.length - off) :
    pot L data off' + (L + 2) ≤ pot L data off := by
  have : (data.length - off') + 1 ≤ data.length - off := by omega
  have := Nat.mul_le_mul_left (L + 2) this
  simpa [pot, Nat.mul_add] using this


/-! ### The invariant of one call -/

/-- What is proved about the result `r` of a call (`one` / `seq`) on a signature of length `n` at offset `off`
with fuel `f`; `need` = the fuel that is certainly enough. -/
structure InvCall (data : List UInt8) (L n off need f : Nat) (r : Out) : Prop where
  mono : r.st = .ok → off ≤ r.off
  okB : r.st = .ok → r.steps + pot L data r.off ≤ n + pot L data off
  okP : r.st = .ok → data.length - r.off < data.length - off →
    r.steps + L + pot L data r.off ≤ n + pot L data off
  errB : ∀ e, r.st = .err e → r.steps ≤ n + pot L data off
  fuel : r.st = .outOfFuel → f < need
  sz : r.size ≤ r.steps

/-- The array loop over elements of signature length `n`. -/
structure InvLoop (data : List UInt8) (L n off f : Nat) (r : Out) : Prop where
  mono : r.st = .ok → off ≤ r.off
  okB : r.st = .ok → r.steps + pot L data r.off ≤ pot L data off
  errB : ∀ e, r.st = .err e → r.steps ≤ n + pot L data off
  fuel : r.st = .outOfFuel → f < 2 * n + 2 * (data.length - off) + 2
  sz : r.size ≤ r.steps

/-- A per-type call that passes no byte inside the data is a struct / dict-entry call, and from an 8-aligned
offset it returns 0 bytes. -/
def StillOne (T : Tables) (data : List UInt8) (ct : List Char) (off : Nat) (r : Out) : Prop :=
  r.st = .ok → data.length - r.off = data.length - off →
    (∃ c tl, ct = c :: tl ∧ T.kindOf c = some .struct) ∧ (8 ∣ off → r.off = off)

def StillSeq (data : List UInt8) (off : Nat) (r : Out) : Prop :=
  r.st = .ok → data.length - r.off = data.length - off → 8 ∣ off → r.off = off

theorem inv_fail (data : List UInt8) (L n off need f : Nat) (e : Err) (o s d fr w : Nat)
    (hs : s ≤ n + pot L data off) : InvCall data L n off need f (fail e o s d fr w) := by
  constructor <;> simp [fail] <;> omega

theorem still_fail (T : Tables) (data : List UInt8) (ct : List Char) (off : Nat) (e : Err) (o s d fr w : Nat) :
    StillOne T data ct off (fail e o s d fr w) := by
  intro h; simp [fail] at h

/-- A reader that succeeded after passing at least one byte inside the data. -/
theorem inv_leaf (T : Tables) (data : List UInt8) (L n off need f : Nat) (ct : List Char) (r : Out)
    (hn : 1 ≤ n) (hst : r.st = .ok) (h1 : off + 1 ≤ data.length) (h2 : off + 1 ≤ r.off)
    (hsteps : r.steps = 1) (hsz : r.size ≤ 1) :
    InvCall data L n off need f r ∧ StillOne T data ct off r := by
  have hp := pot_drop L data 1 h1 h2
  refine ⟨⟨?_, ?_, ?_, ?_, ?_, ?_⟩, ?_⟩
  · intro _; omega
  · intro _; omega
  · intro _ _; omega
  · intro e he; rw [hst] at he; cases he
  · intro he; rw [hst] at he; cases he
  · omega
  · intro _ hrem; omega

/-! ### The induction step, one function at a time -/

/-- Fuel that is certainly enough for `one` / `seq` on a signature of length `n` at `off`. -/
def needOne (data : List UInt8) (n off : Nat) : Nat := 2 * n + 2 * (data.length - off) + 1
def needSeq (data : List UInt8) (n off : Nat) : Nat := 2 * n + 2 * (data.length - off) + 2

def POne (T : Tables) (fds : Option (List Nat)) (data : List UInt8) (le : Bool) (L f : Nat) : Prop :=
  ∀ ct off, ct.length ≤ L →
    InvCall data L ct.length off (needOne data ct.length off) f (one T true fds data le f ct off) ∧
    StillOne T data ct off (one T true fds data le f ct off)

def PSeq (T : Tables) (fds : Option (List Nat)) (data : List UInt8) (le : Bool) (L f : Nat) : Prop :=
  ∀ sig off, sig.length ≤ L →
    InvCall data L sig.length off (needSeq data sig.length off) f (seq T true fds data le f sig off) ∧
    StillSeq data off (seq T true fds data le f sig off)

def PLoop (T : Tables) (fds : Option (List Nat)) (data : List UInt8) (le : Bool) (L f : Nat) : Prop :=
  ∀ tsig a off endOff, tsig.length ≤ L → (∃ tc tl, tsig = tc :: tl ∧ T.alignOf tc = some a) →
    InvLoop data L tsig.length off f (loop T true fds data le f tsig a off endOff)

theorem one_step (T : Tables) (hT : T.Good) (fds : Option (List Nat)) (data : List UInt8) (le : Bool) (L : Nat) (hL : 255 ≤ L) (f : Nat)
    (hSeq : PSeq T fds data le L f) (hLoop : PLoop T fds data le L f) : POne T fds data le L (f + 1) := by
  intro ct off hct
  cases ct with
  | nil => rw [one]; exact ⟨inv_fail _ _ _ _ _ _ _ _ _ _ _ _ (by omega), still_fail _ _ _ _ _ _ _ _ _ _⟩
  | cons c tl =>
    have hn : 1 ≤ (c :: tl).length := by simp
    rw [one]
    cases hk : T.kindOf c with
    | none => exact ⟨inv_fail _ _ _ _ _ _ _ _ _ _ _ _ (by omega), still_fail _ _ _ _ _ _ _ _ _ _⟩
    | some k =>
      cases k with
      | fixed need adv cls =>
        obtain ⟨hneed, hadv⟩ := hT.fixed_pos c need adv cls hk
        simp only []
        by_cases h : off + need ≤ data.length
        · simp only [h, if_true]
          split
          · split
            · exact ⟨inv_fail _ _ _ _ _ _ _ _ _ _ _ _ (by omega), still_fail _ _ _ _ _ _ _ _ _ _⟩
            · exact inv_leaf T data L _ off _ _ _ _ hn rfl (by omega) (by simp; omega) rfl (by simp)
          · exact inv_leaf T data L _ off _ _ _ _ hn rfl (by omega) (by simp; omega) rfl (by simp)
        · simp only [h, if_false]
          exact ⟨inv_fail _ _ _ _ _ _ _ _ _ _ _ _ (by omega), still_fail _ _ _ _ _ _ _ _ _ _⟩
      | string =>
        simp only []
        by_cases h : off + 4 ≤ data.length
        · simp only [h, if_true]
          split
          · exact ⟨inv_fail _ _ _ _ _ _ _ _ _ _ _ _ (by omega), still_fail _ _ _ _ _ _ _ _ _ _⟩
          · exact inv_leaf T data L _ off _ _ _ _ hn rfl (by omega) (by simp; omega) rfl (by simp)
        · simp only [h, if_false]
          exact ⟨inv_fail _ _ _ _ _ _ _ _ _ _ _ _ (by omega), still_fail _ _ _ _ _ _ _ _ _ _⟩
      | signature =>
        simp only []
        by_cases h : off + 1 ≤ data.length
        · simp only [h, if_true]
          split
          · exact ⟨inv_fail _ _ _ _ _ _ _ _ _ _ _ _ (by omega), still_fail _ _ _ _ _ _ _ _ _ _⟩
          · exact inv_leaf T data L _ off _ _ _ _ hn rfl (by omega) (by simp; omega) rfl (by simp)
        · simp only [h, if_false]
          exact ⟨inv_fail _ _ _ _ _ _ _ _ _ _ _ _ (by omega), still_fail _ _ _ _ _ _ _ _ _ _⟩
      | array =>
        simp only []
        by_cases h : off + 4 ≤ data.length
        · simp only [h, if_true]
          split
          · exact ⟨inv_fail _ _ _ _ _ _ _ _ _ _ _ _ (by omega), still_fail _ _ _ _ _ _ _ _ _ _⟩
          · rename_i tc tl'
            split
            · exact ⟨inv_fail _ _ _ _ _ _ _ _ _ _ _ _ (by omega), still_fail _ _ _ _ _ _ _ _ _ _⟩
            · rename_i a ha
              have hl := hLoop (tc :: tl') a (off + 4 + padLen a (off + 4))
                (off + 4 + padLen a (off + 4) + uval le (slice data off (off + 4)))
                (by simp at hct ⊢; omega) ⟨tc, tl', rfl, ha⟩
              have hd := pot_drop L data (off := off) (off' := off + 4 + padLen a (off + 4)) 4 h (by omega)
              have hge : off + 4 ≤ off + 4 + padLen a (off + 4) := Nat.le_add_right _ _
              have hlen : (c :: tc :: tl').length = (tc :: tl').length + 1 := by simp
              generalize off + 4 + padLen a (off + 4) = start at *
              generalize loop T true fds data le f (tc :: tl') a start (start + uval le (slice data off (off + 4))) = r at *
              split
              · rename_i hok
                have hm := hl.mono hok
                have hB := hl.okB hok
                have hz := hl.sz
                have hokres : ∀ (v : List Shape),
                    InvCall data L (c :: tc :: tl').length off (needOne data (c :: tc :: tl').length off) (f + 1)
                      { st := .ok, off := r.off, steps := r.steps + 1, depth := r.depth + 1, frames := r.frames,
                        size := r.size + 1, vals := v, work := r.work + (1 + (c :: tc :: tl').length), chars := r.chars } ∧
                    StillOne T data (c :: tc :: tl') off
                      { st := .ok, off := r.off, steps := r.steps + 1, depth := r.depth + 1, frames := r.frames,
                        size := r.size + 1, vals := v, work := r.work + (1 + (c :: tc :: tl').length), chars := r.chars } := by
                  intro v
                  refine ⟨⟨?_, ?_, ?_, ?_, ?_, ?_⟩, ?_⟩
                  · intro _; simp only; omega
                  · intro _; simp only; omega
                  · intro _ _; simp only; omega
                  · intro e he; simp at he
                  · intro he; simp at he
                  · simp only; omega
                  · intro _ hrem; simp only at hrem; omega
                split
                · split
                  · exact ⟨inv_fail _ _ _ _ _ _ _ _ _ _ _ _ (by omega), still_fail _ _ _ _ _ _ _ _ _ _⟩
                  · exact hokres _
                · exact hokres _
              · rename_i hne
                refine ⟨⟨?_, ?_, ?_, ?_, ?_, ?_⟩, ?_⟩
                · intro hh; simp only at hh; exact absurd hh (by simpa using hne)
                · intro hh; simp only at hh; exact absurd hh (by simpa using hne)
                · intro hh; simp only at hh; exact absurd hh (by simpa using hne)
                · intro e he; have := hl.errB e he; simp only at this ⊢; omega
                · intro he; have := hl.fuel he; simp only [needOne] at this ⊢; omega
                · simp only; omega
                · intro hh; simp only at hh; exact absurd hh (by simpa using hne)
        · simp only [h, if_false]
          exact ⟨inv_fail _ _ _ _ _ _ _ _ _ _ _ _ (by omega), still_fail _ _ _ _ _ _ _ _ _ _⟩
      | struct =>
        simp only []
        have hdl : tl.dropLast.length + 1 ≤ (c :: tl).length := by
          simp [List.length_dropLast]
        obtain ⟨hi, hs⟩ := hSeq tl.dropLast off (by omega)
        generalize seq T true fds data le f tl.dropLast off = r at hi hs ⊢
        refine ⟨⟨?_, ?_, ?_, ?_, ?_, ?_⟩, ?_⟩
        · intro h; exact hi.mono h
        · intro h; have := hi.okB h; simp only at this ⊢; omega
        · intro h hp; have := hi.okP h hp; simp only at this ⊢; omega
        · intro e h; have := hi.errB e h; simp only at this ⊢; omega
        · intro h; have := hi.fuel h; simp only [needOne, needSeq] at this ⊢; omega
        · have := hi.sz; simp only; omega
        · intro h hrem
          exact ⟨⟨c, tl, rfl, hk⟩, fun h8 => hs h hrem h8⟩
      | variant =>
        simp only []
        by_cases h : off + 1 ≤ data.length
        · simp only [h, if_true]
          split
          · exact ⟨inv_fail _ _ _ _ _ _ _ _ _ _ _ _ (by omega), still_fail _ _ _ _ _ _ _ _ _ _⟩
          · rename_i vsig heq
            have hvl := asciiDecode_length _ _ heq
            have hsl := slice_length_le data (off + 1) (off + 1 + uval le (slice data off (off + 1)))
            have hsl' := slice_length_le' data (off + 1) (off + 1 + uval le (slice data off (off + 1)))
            have hb := uval_byte_lt le (slice data off (off + 1)) (by have := slice_length_le' data off (off + 1); omega)
            generalize uval le (slice data off (off + 1)) = slen at *
            generalize (slice data (off + 1) (off + 1 + slen)).length = sl at *
            split
            · exact ⟨inv_fail _ _ _ _ _ _ _ _ _ _ _ _ (by omega), still_fail _ _ _ _ _ _ _ _ _ _⟩
            · rename_i vc vt
              split
              · exact ⟨inv_fail _ _ _ _ _ _ _ _ _ _ _ _ (by omega), still_fail _ _ _ _ _ _ _ _ _ _⟩
              · rename_i a _
                have hvL : (vc :: vt).length ≤ L := by omega
                obtain ⟨hi, _⟩ := hSeq (vc :: vt) (off + 1 + slen + 1 + padLen a (off + 1 + slen + 1)) hvL
                have hd := pot_drop L data (off := off)
                  (off' := off + 1 + slen + 1 + padLen a (off + 1 + slen + 1)) (1 + sl) (by omega) (by omega)
                have e1 : (L + 2) * (1 + sl) = (L + 2) + (L + 2) * sl := by rw [Nat.mul_add, Nat.mul_one]
                have e2 : sl ≤ (L + 2) * sl := Nat.le_mul_of_pos_left _ (by omega)
                have hge : off + 1 + slen + 1 ≤ off + 1 + slen + 1 + padLen a (off + 1 + slen + 1) := Nat.le_add_right _ _
                generalize off + 1 + slen + 1 + padLen a (off + 1 + slen + 1) = off2 at *
                generalize seq T true fds data le f (vc :: vt) off2 = r at *
                split
                · rename_i hok
                  have hm := hi.mono hok
                  have hB := hi.okB hok
                  have hz := hi.sz
                  split
                  · exact ⟨inv_fail _ _ _ _ _ _ _ _ _ _ _ _ (by omega), still_fail _ _ _ _ _ _ _ _ _ _⟩
                  · refine ⟨⟨?_, ?_, ?_, ?_, ?_, ?_⟩, ?_⟩
                    · intro _; simp only; omega
                    · intro _; simp only; omega
                    · intro _ _; simp only; omega
                    · intro e he; simp at he
                    · intro he; simp at he
                    · simp only; omega
                    · intro _ hrem; simp only at hrem; omega
                · rename_i hne
                  refine ⟨⟨?_, ?_, ?_, ?_, ?_, ?_⟩, ?_⟩
                  · intro hh; simp only at hh; exact absurd hh (by simpa using hne)
                  · intro hh; simp only at hh; exact absurd hh (by simpa using hne)
                  · intro hh; simp only at hh; exact absurd hh (by simpa using hne)
                  · intro e he; have := hi.errB e he; simp only at this ⊢; omega
                  · intro he; have := hi.fuel he; simp only [needOne, needSeq] at this ⊢; omega
                  · simp only; omega
                  · intro hh; simp only at hh; exact absurd hh (by simpa using hne)
        · simp only [h, if_false]
          exact ⟨inv_fail _ _ _ _ _ _ _ _ _ _ _ _ (by omega), still_fail _ _ _ _ _ _ _ _ _ _⟩

theorem seq_step (T : Tables) (hT : T.Good) (fds : Option (List Nat)) (data : List UInt8) (le : Bool) (L : Nat) (f : Nat)
    (hOne : POne T fds data le L f) (hSeq : PSeq T fds data le L f) : PSeq T fds data le L (f + 1) := by
  intro sig off hsig
  cases sig with
  | nil =>
    rw [seq]
    refine ⟨⟨?_, ?_, ?_, ?_, ?_, ?_⟩, ?_⟩
    · intro _; exact Nat.le_refl _
    · intro _; exact Nat.le_refl _
    · intro _ h; simp only at h; omega
    · intro e he; simp at he
    · intro he; simp at he
    · exact Nat.le_refl _
    · intro _ _ _; rfl
  | cons c0 cs0 =>
    rw [seq]
    simp only []
    split
    · exact ⟨inv_fail _ _ _ _ _ _ _ _ _ _ _ _ (by omega), fun h => by simp [fail] at h⟩
    · rename_i ct rest hft
      obtain ⟨hlen, hct1⟩ := firstType_split _ _ _ hft
      generalize (c0 :: cs0).length = n at *
      split
      · exact ⟨inv_fail _ _ _ _ _ _ _ _ _ _ _ _ (by omega), fun h => by simp [fail] at h⟩
      · rename_i c ctl
        split
        · exact ⟨inv_fail _ _ _ _ _ _ _ _ _ _ _ _ (by omega), fun h => by simp [fail] at h⟩
        · rename_i a ha
          obtain ⟨hi1, hs1⟩ := hOne (c :: ctl) (off + padLen a off) (by omega)
          have hpm := pot_mono L data (Nat.le_add_right off (padLen a off))
          have hpge : off ≤ off + padLen a off := Nat.le_add_right _ _
          generalize hp : off + padLen a off = p at *
          generalize one T true fds data le f (c :: ctl) p = r1 at *
          split
          · rename_i hok1
            have hm1 := hi1.mono hok1
            have hB1 := hi1.okB hok1
            obtain ⟨hi2, hs2⟩ := hSeq rest r1.off (by omega)
            generalize seq T true fds data le f rest r1.off = r2 at *
            refine ⟨⟨?_, ?_, ?_, ?_, ?_, ?_⟩, ?_⟩
            · intro h; have := hi2.mono h; simp only; omega
            · intro h; have := hi2.okB h; simp only; omega
            · intro h hprog
              have hm2 := hi2.mono h
              have hB2 := hi2.okB h
              simp only at hprog ⊢
              by_cases hA : data.length - p < data.length - off
              · have := pot_progress L data hA; omega
              · by_cases hB : data.length - r1.off < data.length - p
                · have := hi1.okP hok1 hB; omega
                · have hC : data.length - r2.off < data.length - r1.off := by omega
                  have := hi2.okP h hC; omega
            · intro e he; have := hi2.errB e he; simp only; omega
            · intro he; have := hi2.fuel he; simp only [needSeq] at this ⊢; omega
            · have := hi1.sz; have := hi2.sz; simp only; omega
            · intro h hrem h8
              have hm2 := hi2.mono h
              simp only at hrem ⊢
              obtain ⟨⟨c', tl', hcc, hk⟩, h8p⟩ := hs1 hok1 (by omega)
              have hcc' : c' = c := by cases hcc; rfl
              subst hcc'
              have ha8 := hT.struct_align _ hk
              rw [ha] at ha8
              cases ha8
              have hp0 : p = off := by rw [← hp, padLen_dvd off h8]; rfl
              have h1 : r1.off = off := by rw [← hp0]; exact h8p (by rw [hp0]; exact h8)
              have := hs2 h (by omega) (by rw [h1]; exact h8)
              omega
          · rename_i hne
            refine ⟨⟨?_, ?_, ?_, ?_, ?_, ?_⟩, ?_⟩
            · intro hh; simp only at hh; exact absurd hh (by simpa using hne)
            · intro hh; simp only at hh; exact absurd hh (by simpa using hne)
            · intro hh; simp only at hh; exact absurd hh (by simpa using hne)
            · intro e he; have := hi1.errB e he; simp only at this ⊢; omega
            · intro he; have := hi1.fuel he; simp only [needOne, needSeq] at this ⊢; omega
            · simp only; omega
            · intro hh; simp only at hh; exact absurd hh (by simpa using hne)

theorem invLoop_fail (data : List UInt8) (L n off f : Nat) (e : Err) (o s d fr w : Nat)
    (hs : s ≤ n + pot L data off) : InvLoop data L n off f (fail e o s d fr w) := by
  constructor <;> simp [fail] <;> omega

theorem loop_step (T : Tables) (hT : T.Good) (fds : Option (List Nat)) (data : List UInt8) (le : Bool) (L : Nat) (f : Nat)
    (hOne : POne T fds data le L f) (hLoop : PLoop T fds data le L f) : PLoop T fds data le L (f + 1) := by
  intro tsig a off endOff hlen hal
  rw [loop]
  by_cases hlt : off < endOff
  · simp only [hlt, if_true]
    obtain ⟨hi1, hs1⟩ := hOne tsig (off + padLen a off) hlen
    have hpm := pot_mono L data (Nat.le_add_right off (padLen a off))
    have hpge : off ≤ off + padLen a off := Nat.le_add_right _ _
    have hal8 : (∃ c tl, tsig = c :: tl ∧ T.kindOf c = some .struct) → 8 ∣ off + padLen a off := by
      rintro ⟨c', tl', hcc, hk⟩
      obtain ⟨tc, tl, htc, ha⟩ := hal
      rw [htc] at hcc
      cases hcc
      have ha8 := hT.struct_align _ hk
      rw [ha] at ha8
      cases ha8
      exact padLen_aligned off
    generalize off + padLen a off = p at *
    generalize one T true fds data le f tsig p = r1 at *
    split
    · rename_i hok1
      have hm1 := hi1.mono hok1
      have hB1 := hi1.okB hok1
      by_cases hz : r1.off = p
      · simp only [hz, Bool.true_and, beq_self_eq_true, if_true]
        exact invLoop_fail _ _ _ _ _ _ _ _ _ _ _ (by omega)
      · have hz' : (true && r1.off == p) = false := by simp [hz]
        simp only [hz', Bool.false_eq_true, if_false]
        have hprog : data.length - r1.off < data.length - p := by
          apply Nat.lt_of_le_of_ne (by omega)
          intro heq
          obtain ⟨hstruct, h8p⟩ := hs1 hok1 heq
          exact hz (h8p (hal8 hstruct))
        have hP1 := hi1.okP hok1 hprog
        have hl2 := hLoop tsig a r1.off endOff hlen hal
        generalize loop T true fds data le f tsig a r1.off endOff = r2 at *
        refine ⟨?_, ?_, ?_, ?_, ?_⟩
        · intro h; have := hl2.mono h; simp only; omega
        · intro h; have := hl2.okB h; simp only; omega
        · intro e he; have := hl2.errB e he; simp only; omega
        · intro he; have := hl2.fuel he; omega
        · have := hi1.sz; have := hl2.sz; simp only; omega
    · rename_i hne
      refine ⟨?_, ?_, ?_, ?_, ?_⟩
      · intro hh; simp only at hh; exact absurd hh (by simpa using hne)
      · intro hh; simp only at hh; exact absurd hh (by simpa using hne)
      · intro e he; have := hi1.errB e he; simp only at this ⊢; omega
      · intro he; have := hi1.fuel he; simp only [needOne] at this ⊢; omega
      · simp only; omega
  · simp only [hlt, if_false]
    by_cases heq : off = endOff
    · simp only [heq, if_true]
      refine ⟨?_, ?_, ?_, ?_, ?_⟩
      · intro _; exact Nat.le_refl _
      · intro _; simp
      · intro e he; simp at he
      · intro he; simp at he
      · exact Nat.le_refl _
    · simp only [heq, if_false]
      exact invLoop_fail _ _ _ _ _ _ _ _ _ _ _ (by omega)

/-! ### The induction -/

theorem invCall_noFuel (data : List UInt8) (L n off need f : Nat) (h : f < need) :
    InvCall data L n off need f noFuel := by
  constructor <;> simp [noFuel] <;> omega

theorem all_inv (T : Tables) (hT : T.Good) (fds : Option (List Nat)) (data : List UInt8) (le : Bool) (L : Nat) (hL : 255 ≤ L) :
    ∀ f, POne T fds data le L f ∧ PSeq T fds data le L f ∧ PLoop T fds data le L f
  | 0 => by
    refine ⟨?_, ?_, ?_⟩
    · intro ct off _
      rw [one]
      exact ⟨invCall_noFuel _ _ _ _ _ _ (by simp [needOne]), fun h => by simp [noFuel] at h⟩
    · intro sig off _
      rw [seq]
      exact ⟨invCall_noFuel _ _ _ _ _ _ (by simp [needSeq]), fun h => by simp [noFuel] at h⟩
    · intro tsig a off endOff _ _
      rw [loop]
      constructor <;> simp [noFuel]
  | f + 1 => by
    obtain ⟨h1, h2, h3⟩ := all_inv T hT fds data le L hL f
    exact ⟨one_step T hT fds data le L hL f h2 h3, seq_step T hT fds data le L f h1 h2, loop_step T hT fds data le L f h1 h3⟩

/-! ### Consequences for `unmarshal` -/

theorem unmarshal_st (T : Tables) (chk : Bool) (fds : Option (List Nat)) (fuel : Nat) (sig : List Char) (data : List UInt8) (off : Nat) (le : Bool) :
    (unmarshal T chk fds fuel sig data off le).st = (seq T chk fds data le fuel sig off).st := rfl
theorem unmarshal_steps (T : Tables) (chk : Bool) (fds : Option (List Nat)) (fuel : Nat) (sig : List Char) (data : List UInt8) (off : Nat) (le : Bool) :
    (unmarshal T chk fds fuel sig data off le).steps = (seq T chk fds data le fuel sig off).steps := rfl
theorem unmarshal_size (T : Tables) (chk : Bool) (fds : Option (List Nat)) (fuel : Nat) (sig : List Char) (data : List UInt8) (off : Nat) (le : Bool) :
    (unmarshal T chk fds fuel sig data off le).size = (seq T chk fds data le fuel sig off).size := rfl
theorem unmarshal_off (T : Tables) (chk : Bool) (fds : Option (List Nat)) (fuel : Nat) (sig : List Char) (data : List UInt8) (off : Nat) (le : Bool) :
    (unmarshal T chk fds fuel sig data off le).off = (seq T chk fds data le fuel sig off).off := rfl

/-- The invariant of the top-level call, for any `L` that bounds the signature and 255. -/
theorem unmarshal_inv (T : Tables) (hT : T.Good) (fds : Option (List Nat)) (fuel : Nat) (sig : List Char) (data : List UInt8) (off : Nat)
    (le : Bool) (L : Nat) (hL : 255 ≤ L) (hs : sig.length ≤ L) :
    InvCall data L sig.length off (needSeq data sig.length off) fuel (seq T true fds data le fuel sig off) :=
  ((all_inv T hT fds data le L hL fuel).2.1 sig off hs).1

theorem fuel_adequate_gen (T : Tables) (hT : T.Good) (fds : Option (List Nat)) (sig : List Char) (data : List UInt8) (off : Nat) (le : Bool)
    (fuel : Nat) (hf : fuelFor sig data ≤ fuel) :
    (unmarshal T true fds fuel sig data off le).st ≠ .outOfFuel := by
  intro h
  have := (unmarshal_inv T hT fds fuel sig data off le (max sig.length 255) (by omega) (by omega)).fuel h
  simp only [needSeq, fuelFor] at this hf
  omega

theorem steps_linear_gen (T : Tables) (hT : T.Good) (fds : Option (List Nat)) (sig : List Char) (data : List UInt8) (off : Nat) (le : Bool)
    (fuel : Nat) (hne : (unmarshal T true fds fuel sig data off le).st ≠ .outOfFuel) :
    (unmarshal T true fds fuel sig data off le).steps ≤ stepBound sig data off := by
  have hi := unmarshal_inv T hT fds fuel sig data off le (max sig.length 255) (by omega) (by omega)
  rw [unmarshal_st] at hne
  rw [unmarshal_steps]
  have hpot : stepBound sig data off = sig.length + pot (max sig.length 255) data off + 1 := rfl
  rw [hpot]
  generalize seq T true fds data le fuel sig off = r at *
  cases hst : r.st with
  | ok => have := hi.okB hst; omega
  | err e => have := hi.errB e hst; omega
  | outOfFuel => exact absurd hst hne

theorem size_le_steps_gen (T : Tables) (hT : T.Good) (fds : Option (List Nat)) (sig : List Char) (data : List UInt8) (off : Nat) (le : Bool)
    (fuel : Nat) : (unmarshal T true fds fuel sig data off le).size ≤ (unmarshal T true fds fuel sig data off le).steps :=
  (unmarshal_inv T hT fds fuel sig data off le (max sig.length 255) (by omega) (by omega)).sz

/-! ### parseMessage (repaired code) -/

theorem parseMessage_gen (T : Tables) (hT : T.Good) (hf : List Char) (mtypes : List Nat) (sigCode : Nat)
    (fds : Option (List Nat)) (data : List UInt8) (fuel : Nat) (hfuel : parseFuel hf data ≤ fuel) :
    (parseMessage T hf mtypes sigCode true fds fuel data).st ≠ .outOfFuel ∧
    (parseMessage T hf mtypes sigCode true fds fuel data).steps ≤ parseStepBound hf data := by
  unfold parseMessage
  cases data with
  | nil => simp
  | cons b0 tl =>
    simp only []
    generalize hle : (b0.toNat == 108) = le
    generalize hdata : b0 :: tl = data at *
    have hL : 255 ≤ max hf.length 255 := by omega
    have hA := fuel_adequate_gen T hT fds hf data 0 le fuel (by simp only [parseFuel, fuelFor] at hfuel ⊢; omega)
    have hi := unmarshal_inv T hT fds fuel hf data 0 le (max hf.length 255) hL (by omega)
    have hbody : ∀ (s : List Char) (k : Nat), s.length ≤ 255 →
        (unmarshal T true fds fuel s (data.drop k) 0 le).st ≠ .outOfFuel ∧
        (unmarshal T true fds fuel s (data.drop k) 0 le).steps ≤ 255 + pot (max hf.length 255) data k := by
      intro s k hs
      have hfb : fuelFor s (data.drop k) ≤ fuel := by
        simp only [parseFuel, fuelFor, List.length_drop] at hfuel ⊢; omega
      have hne := fuel_adequate_gen T hT fds s (data.drop k) 0 le fuel hfb
      refine ⟨hne, ?_⟩
      have hib := unmarshal_inv T hT fds fuel s (data.drop k) 0 le (max hf.length 255) hL (by omega)
      rw [unmarshal_st] at hne
      rw [unmarshal_steps]
      have hp : pot (max hf.length 255) (data.drop k) 0 = pot (max hf.length 255) data k := by
        simp [pot, List.length_drop]
      generalize seq T true fds (data.drop k) le fuel s 0 = r at *
      cases hst : r.st with
      | ok => have := hib.okB hst; omega
      | err e => have := hib.errB e hst; omega
      | outOfFuel => exact absurd hst hne
    have hbound : parseStepBound hf data = hf.length + 255 + pot (max hf.length 255) data 0 + 2 := by
      simp [parseStepBound, pot]
    rw [hbound]
    rw [unmarshal_st] at hA
    simp only [unmarshal_st, unmarshal_steps, unmarshal_off]
    generalize seq T true fds data le fuel hf 0 = h at *
    have hh : h.st ≠ .outOfFuel → h.steps ≤ hf.length + pot (max hf.length 255) data 0 := by
      intro hne
      cases hst : h.st with
      | ok => have := hi.okB hst; omega
      | err e => have := hi.errB e hst; omega
      | outOfFuel => exact absurd hst hne
    have hh' := hh hA
    split
    · rename_i hok
      have hB := hi.okB hok
      have hm : h.off ≤ h.off + padLen 8 h.off := Nat.le_add_right _ _
      have hpm := pot_mono (max hf.length 255) data hm
      split
      · split
        · refine ⟨by simp, ?_⟩; simp only; omega
        · split
          · split
            · refine ⟨by simp, ?_⟩; simp only; omega
            · split
              · refine ⟨by simp, ?_⟩; simp only; omega
              · split
                · rename_i s0 _ _
                  split
                  · refine ⟨by simp, ?_⟩; simp only; omega
                  · rename_i hlen255
                    have hs255 : s0.length ≤ 255 := by simpa using hlen255
                    have hb := hbody s0 (h.off + padLen 8 h.off) hs255
                    rw [unmarshal_st, unmarshal_steps] at hb
                    refine ⟨hb.1, ?_⟩
                    have := hb.2
                    simp only
                    omega
                · refine ⟨by simp, ?_⟩; simp only; omega
          · refine ⟨by simp, ?_⟩; simp only; omega
      · refine ⟨by simp, ?_⟩; simp only; omega
    · rename_i st hne
      refine ⟨?_, ?_⟩
      · simpa using hA
      · simp only; omega

/-! ### The array loop before commit 635620f -/

theorem kind_paren : genTables.kindOf '(' = some .struct := by decide
theorem kind_a : genTables.kindOf 'a' = some .array := by decide
theorem align_paren : genTables.alignOf '(' = some 8 := by decide
theorem align_a : genTables.alignOf 'a' = some 4 := by decide

/-- The array loop as it was before commit 635620f, on the element signature `()`: from an 8-aligned offset
below `endOff` it never reaches the end - it runs out of every fuel. -/
theorem prefix_loop_unit (fds : Option (List Nat)) (data : List UInt8) (le : Bool) (endOff : Nat) :
    ∀ (n off : Nat), off < endOff → 8 ∣ off →
      (loop genTables false fds data le n ['(', ')'] 8 off endOff).st = .outOfFuel
  | 0, off, _, _ => by rw [loop]; rfl
  | n + 1, off, hlt, h8 => by
    rw [loop]
    simp only [hlt, if_true, padLen_dvd off h8, Nat.add_zero]
    cases n with
    | zero => rw [one]; rfl
    | succ m =>
      rw [one]
      simp only [kind_paren]
      cases m with
      | zero => rw [seq]; rfl
      | succ k =>
        have hs : seq genTables false fds data le (k + 1) (['(', ')'] : List Char).tail.dropLast off
            = { st := .ok, off := off, steps := 0, depth := 0, frames := 0, size := 0, vals := [], work := 0, chars := 0 } := by
          show seq genTables false fds data le (k + 1) [] off = _
          rw [seq]
        simp only [List.tail_cons] at hs
        simp only [hs, Bool.false_and, Bool.false_eq_true, if_false]
        exact prefix_loop_unit fds data le endOff (k + 1 + 1) off hlt h8


theorem first_aunit : firstType ['a', '(', ')'] = .ok (['a', '(', ')'], []) := by decide

/-- `unmarshal('a()', data)` with the loop as it was before 635620f: whenever the array length word is not
zero, no amount of fuel is enough. -/
theorem prefix_array_unit (fds : Option (List Nat)) (data : List UInt8) (le : Bool) (h4 : 4 ≤ data.length)
    (hw : uval le (slice data 0 4) ≠ 0) :
    ∀ n, (unmarshal genTables false fds n ['a', '(', ')'] data 0 le).st = .outOfFuel
  | 0 => by rw [unmarshal_st, seq]; rfl
  | n + 1 => by
    rw [unmarshal_st, seq]
    simp only [first_aunit, align_a]
    have hp : padLen 4 0 = 0 := by decide
    simp only [hp, Nat.add_zero]
    cases n with
    | zero => rw [one]; rfl
    | succ m =>
      rw [one]
      simp only [kind_a, align_paren]
      have h4' : 0 + 4 ≤ data.length := by omega
      simp only [h4', if_true]
      have hp8 : padLen 8 (0 + 4) = 4 := by decide
      simp only [hp8]
      have := prefix_loop_unit fds data le (0 + 4 + 4 + uval le (slice data 0 (0 + 4))) m (0 + 4 + 4)
        (by simp only [Nat.zero_add] at hw ⊢; omega) (by decide)
      simp only [this]


end Txdbus.Cost
