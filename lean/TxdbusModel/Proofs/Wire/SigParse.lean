import TxdbusModel.Wire.SigParse
/-
The parser of Wire/SigParse is a left inverse of `Ty.render` (hence rendering is injective), and the
characters of a rendered type are ASCII (so that a signature survives the trip through bytes).
-/
namespace Txdbus

mutual
/-- Step budget that `parseTy` needs for `t.render`. -/
def Ty.psize : Ty → Nat
  | .basic _ => 1
  | .variant => 1
  | .array e => e.psize + 1
  | .struct fs => psizeAll fs + 1
  | .dict k v => max k.psize v.psize + 1
def psizeAll : List Ty → Nat
  | [] => 1
  | t :: ts => max t.psize (psizeAll ts) + 1
end

theorem Basic.ofCode?_code (c : Basic) : Basic.ofCode? c.code = some c := by
  cases c <;> rfl

theorem Ty.render_eq_code_cons (t : Ty) : ∃ tl, t.render = t.code :: tl := by
  cases t <;> simp [Ty.render, Ty.code]

theorem Ty.code_ne_close (t : Ty) : t.code ≠ ')' := by
  cases t with
  | basic c => exact (Basic.code_ne c).2.1
  | _ => simp [Ty.code]

mutual
theorem parseTy_render : ∀ (t : Ty) (n : Nat) (rest : List Char), t.psize ≤ n →
    parseTy n (t.render ++ rest) = some (t, rest)
  | .basic c, n, rest, h => by
    have hn := Basic.code_ne c
    cases n with
    | zero => simp [Ty.psize] at h
    | succ n =>
      simp [Ty.render, parseTy, hn, Basic.ofCode?_code]
  | .variant, n, rest, h => by
    cases n with
    | zero => simp [Ty.psize] at h
    | succ n => simp [Ty.render, parseTy]
  | .array e, n, rest, h => by
    cases n with
    | zero => simp [Ty.psize] at h
    | succ n =>
      have ih := parseTy_render e n rest (by simp [Ty.psize] at h; omega)
      simp [Ty.render, parseTy, ih]
  | .struct fs, n, rest, h => by
    cases n with
    | zero => simp [Ty.psize] at h
    | succ n =>
      have ih := parseTys_render fs n (')' :: rest) (by simp [Ty.psize] at h; omega) (Or.inr ⟨rest, rfl⟩)
      simp only [Ty.render, List.cons_append, List.append_assoc]
      simp [parseTy, ih]
  | .dict k v, n, rest, h => by
    cases n with
    | zero => simp [Ty.psize] at h
    | succ n =>
      simp only [Ty.psize] at h
      have ih1 := parseTy_render k n (v.render ++ '}' :: rest) (by omega)
      have ih2 := parseTy_render v n ('}' :: rest) (by omega)
      simp only [Ty.render, List.cons_append, List.append_assoc]
      simp [parseTy, ih1, ih2]
theorem parseTys_render : ∀ (ts : List Ty) (n : Nat) (rest : List Char), psizeAll ts ≤ n →
    (rest = [] ∨ ∃ r, rest = ')' :: r) → parseTys n (renderAll ts ++ rest) = some (ts, rest)
  | [], n, rest, h, hr => by
    cases n with
    | zero => simp [psizeAll] at h
    | succ n =>
      rcases hr with rfl | ⟨r, rfl⟩ <;> simp [renderAll, parseTys]
  | t :: ts, n, rest, h, hr => by
    cases n with
    | zero => simp [psizeAll] at h
    | succ n =>
      simp only [psizeAll] at h
      have ih1 := parseTy_render t n (renderAll ts ++ rest) (by omega)
      have ih2 := parseTys_render ts n rest (by omega) hr
      obtain ⟨tl, htl⟩ := t.render_eq_code_cons
      have hc := t.code_ne_close
      simp only [renderAll, List.append_assoc]
      rw [htl] at ih1 ⊢
      simp only [List.cons_append] at ih1 ⊢
      simp [parseTys, hc, ih1, ih2]
end

mutual
theorem Ty.psize_le_length : ∀ t : Ty, t.psize ≤ t.render.length ∧ 1 ≤ t.render.length
  | .basic _ => by simp [Ty.psize, Ty.render]
  | .variant => by simp [Ty.psize, Ty.render]
  | .array e => by
    have := e.psize_le_length
    simp [Ty.psize, Ty.render]; omega
  | .struct fs => by
    have := psizeAll_le_length fs
    simp [Ty.psize, Ty.render]; omega
  | .dict k v => by
    have := k.psize_le_length
    have := v.psize_le_length
    simp [Ty.psize, Ty.render]; omega
theorem psizeAll_le_length : ∀ ts : List Ty, psizeAll ts ≤ (renderAll ts).length + 1
  | [] => by simp [psizeAll, renderAll]
  | t :: ts => by
    have := t.psize_le_length
    have := psizeAll_le_length ts
    simp [psizeAll, renderAll]; omega
end

/-- The parser recovers the type from its rendering. -/
theorem parseSingle_render (t : Ty) : parseSingle t.render = some t := by
  have h := parseTy_render t (t.render.length + 1) [] (by have := t.psize_le_length; omega)
  simp only [List.append_nil] at h
  simp [parseSingle, h]

theorem parseSig_renderAll (ts : List Ty) : parseSig (renderAll ts) = some ts := by
  have h := parseTys_render ts ((renderAll ts).length + 1) [] (psizeAll_le_length ts) (Or.inl rfl)
  simp only [List.append_nil] at h
  simp [parseSig, h]

theorem Ty.render_injective {a b : Ty} (h : a.render = b.render) : a = b := by
  have ha := parseSingle_render a
  rw [h, parseSingle_render b] at ha
  exact (Option.some.inj ha).symm

/-! Rendered signatures are ASCII and contain no NUL. -/

def sigCharOk (c : Char) : Prop := 0 < c.toNat ∧ c.toNat < 128

theorem Basic.code_ok (c : Basic) : sigCharOk c.code := by cases c <;> (unfold sigCharOk; decide)

mutual
theorem Ty.render_ascii : ∀ t : Ty, ∀ c ∈ t.render, sigCharOk c
  | .basic bc => by simp [Ty.render]; exact bc.code_ok
  | .variant => by simp [Ty.render, sigCharOk]
  | .array e => by
    have := e.render_ascii
    simp only [Ty.render, List.mem_cons]
    rintro c (rfl | h)
    · unfold sigCharOk; decide
    · exact this c h
  | .struct fs => by
    have := renderAll_ascii fs
    simp only [Ty.render, List.mem_cons, List.mem_append, List.not_mem_nil, or_false]
    rintro c (rfl | h | rfl)
    · unfold sigCharOk; decide
    · exact this c h
    · unfold sigCharOk; decide
  | .dict k v => by
    have hk := k.render_ascii
    have hv := v.render_ascii
    simp only [Ty.render, List.mem_cons, List.mem_append, List.not_mem_nil, or_false]
    rintro c (rfl | (h | h) | rfl)
    · unfold sigCharOk; decide
    · exact hk c h
    · exact hv c h
    · unfold sigCharOk; decide
theorem renderAll_ascii : ∀ ts : List Ty, ∀ c ∈ renderAll ts, sigCharOk c
  | [] => by simp [renderAll]
  | t :: ts => by
    have h1 := t.render_ascii
    have h2 := renderAll_ascii ts
    simp only [renderAll, List.mem_append]
    rintro c (h | h)
    · exact h1 c h
    · exact h2 c h
end

end Txdbus
