import TxdbusModel.Proofs.Wire.Claim
import TxdbusModel.Properties.C01
/-
Bridge from C19's conformance relation `Travels` (Wire/Claim.lean) to the hypotheses of the wire round
trip `C01_roundtrip` (Properties/C01.lean) for the signature 'v':
  * the spec value a conforming Python value denotes (`Code.Rep`),
  * the reference encoder accepts it (`Spec.encode ... = some _`) provided the value is not larger than
    the wire format allows (`PyVal.wt`, `PyVal.sigsShort`).
Imports the C01/C02 development read-only.  Core Lean only.
-/
set_option linter.unusedSimpArgs false
namespace Txdbus
open Code

/-- The object-path test used by C19's `Travels` when talking about the code: `validateObjectPath` accepts. -/
def okPathV (s : List Char) : Bool := decide (Valid.validateObjectPath s = .accept)

/-! ### a generous upper bound of the encoded size -/

mutual
/-- Upper bound (in bytes) of the encoding of a value under any type it conforms to, at any offset,
including alignment padding and a variant's signature. -/
def PyVal.wt : PyVal → Nat
  | .str _ s => 300 + (utf8Encode s).length
  | .bytearray bs => 300 + 308 * bs.length
  | .list xs => 300 + wtList xs
  | .tuple xs => 300 + wtList xs
  | .dict kvs => 300 + wtPairs kvs
  | _ => 300
def wtList : List PyVal → Nat
  | [] => 0
  | x :: xs => x.wt + 8 + wtList xs
def wtPairs : List (PyVal × PyVal) → Nat
  | [] => 0
  | (k, v) :: rest => k.wt + v.wt + 24 + wtPairs rest
end

/-- The signature inferred for this very value (if any) fits the one-byte length of a variant signature. -/
def PyVal.sigShort (v : PyVal) : Bool :=
  match inferTy v with
  | some t => decide (t.render.length < 256)
  | Option.none => true

mutual
/-- Every sub-value's inferred signature is at most 255 characters. -/
def PyVal.sigsShort : PyVal → Bool
  | .list xs => (PyVal.list xs).sigShort && sigsShortList xs
  | .tuple xs => (PyVal.tuple xs).sigShort && sigsShortList xs
  | .dict kvs => (PyVal.dict kvs).sigShort && sigsShortPairs kvs
  | v => v.sigShort
def sigsShortList : List PyVal → Bool
  | [] => true
  | x :: xs => x.sigsShort && sigsShortList xs
def sigsShortPairs : List (PyVal × PyVal) → Bool
  | [] => true
  | (k, v) :: rest => k.sigsShort && v.sigsShort && sigsShortPairs rest
end

theorem sigsShort_sigShort (v : PyVal) (h : v.sigsShort = true) : v.sigShort = true := by
  cases v <;> simp_all [PyVal.sigsShort]

theorem sigsShortList_mem : ∀ (xs : List PyVal), sigsShortList xs = true → ∀ e ∈ xs, e.sigsShort = true
  | [], _, e, he => by simp at he
  | x :: xs, h, e, he => by
      simp [sigsShortList] at h
      rcases List.mem_cons.mp he with rfl | he
      · exact h.1
      · exact sigsShortList_mem xs h.2 e he

theorem sigsShortPairs_mem : ∀ (kvs : List (PyVal × PyVal)), sigsShortPairs kvs = true →
    ∀ kv ∈ kvs, kv.1.sigsShort = true ∧ kv.2.sigsShort = true
  | [], _, e, he => by simp at he
  | (k, v) :: rest, h, e, he => by
      simp [sigsShortPairs] at h
      rcases List.mem_cons.mp he with rfl | he
      · exact ⟨h.1.1, h.1.2⟩
      · exact sigsShortPairs_mem rest h.2 e he

theorem wtList_mem : ∀ (xs : List PyVal) (e : PyVal), e ∈ xs → e.wt + 8 ≤ wtList xs
  | [], e, he => by simp at he
  | x :: xs, e, he => by
      simp only [wtList]
      rcases List.mem_cons.mp he with rfl | he
      · omega
      · have := wtList_mem xs e he; omega

theorem wtPairs_mem : ∀ (kvs : List (PyVal × PyVal)) (kv : PyVal × PyVal), kv ∈ kvs →
    kv.1.wt + kv.2.wt + 24 ≤ wtPairs kvs
  | [], e, he => by simp at he
  | (k, v) :: rest, e, he => by
      simp only [wtPairs]
      rcases List.mem_cons.mp he with rfl | he
      · simp only; omega
      · have := wtPairs_mem rest e he; omega

/-! ### the generated alignment table: paddings are at most 7 bytes -/

theorem genAlign_le8 (t : Ty) : genAlign t.code ≤ 8 := by
  obtain ⟨a, h1, _, h3⟩ := genAlign_sane t.code (code_mem_typeCodes t)
  simp [genAlign, h1, h3]

theorem pad_le7 (t : Ty) (off : Nat) : padLen (genAlign t.code) off ≤ 7 := by
  have h1 := padLen_lt (genAlign t.code) off (genAlign_pos t)
  have h2 := genAlign_le8 t
  omega

/-- Extra room reserved for a variant wrapper (signature <= 257 bytes, padding <= 7). -/
def slack : Ty → Nat
  | .variant => 0
  | _ => 272

/-! ### scalars -/

theorem bridge_int (e : Endian) (cls : IntCls) (n : Int) (c : Basic)
    (h : fitsBasic okPathV (.int cls n) c = true) :
    Rep [] (.int n) false (.basic c) (.int cls n) 0 0 ∧
    ∀ off, ∃ bs, Spec.encode genAlign e (.basic c) (.int n) off = some bs ∧ bs.length ≤ 8 := by
  cases c <;> simp [fitsBasic, Basic.intRange?] at h
  all_goals
    refine ⟨?_, ?_⟩
    · simp only [Rep, RepScalar]
      refine ⟨_, rfl, Or.inr ⟨by decide, ?_, trivial⟩⟩
      simp [RepBasic]
    · intro off
      simp only [Spec.encode, Spec.encBasic, Basic.shape]
      simp [h]

theorem strOk_utf8 (s : List Char) (h : s.contains (Char.ofNat 0) = false) : Spec.strOk (utf8Encode s) = true := by
  simp only [Spec.strOk, Bool.not_eq_true', List.contains_eq_mem, decide_eq_false_iff_not]
  rw [utf8Encode_no_nul]
  simpa using h

theorem bridge_basic (e : Endian) (pv : PyVal) (c : Basic) (h : fitsBasic okPathV pv c = true)
    (hw : pv.wt ≤ Spec.maxArray) :
    ∃ val, Rep [] val false (.basic c) pv 0 0 ∧
      ∀ off, ∃ bs, Spec.encode genAlign e (.basic c) val off = some bs ∧ bs.length + 272 ≤ pv.wt := by
  cases pv with
  | int cls n =>
    obtain ⟨hr, he⟩ := bridge_int e cls n c h
    refine ⟨.int n, hr, fun off => ?_⟩
    obtain ⟨bs, hb, hl⟩ := he off
    exact ⟨bs, hb, by simp [PyVal.wt]; omega⟩
  | bool b =>
    cases c <;> simp [fitsBasic, Basic.intRange?] at h
    refine ⟨.bool b, ?_, fun off => ?_⟩
    · simp only [Rep, RepScalar]
      exact ⟨_, rfl, Or.inr ⟨by decide, by simp [RepBasic], trivial⟩⟩
    · simp [Spec.encode, Spec.encBasic, Basic.shape, PyVal.wt]
  | float bits =>
    cases c <;> simp [fitsBasic, Basic.intRange?] at h
    refine ⟨.double bits, ?_, fun off => ?_⟩
    · simp only [Rep, RepScalar]
      exact ⟨_, rfl, Or.inr ⟨by decide, by simp [RepBasic], trivial⟩⟩
    · simp [Spec.encode, Spec.encBasic, Basic.shape, PyVal.wt]
  | str cls s =>
    cases c <;> simp [fitsBasic, Basic.intRange?] at h
    · -- s
      have hw' : (utf8Encode s).length < 4294967296 := by
        simp [PyVal.wt, Spec.maxArray] at hw; omega
      refine ⟨.str (utf8Encode s), ?_, fun off => ?_⟩
      · simp only [Rep, RepScalar]
        exact ⟨_, rfl, Or.inr ⟨by decide, ⟨cls, s, rfl, rfl⟩, trivial⟩⟩
      · simp [Spec.encode, Spec.encBasic, Basic.shape, PyVal.wt, strOk_utf8 s (by simpa using h), hw']
        omega
    · -- o
      have hw' : (utf8Encode s).length < 4294967296 := by
        simp [PyVal.wt, Spec.maxArray] at hw; omega
      refine ⟨.str (utf8Encode s), ?_, fun off => ?_⟩
      · simp only [Rep, RepScalar]
        refine ⟨_, rfl, Or.inr ⟨by decide, ⟨cls, s, rfl, rfl, ?_⟩, trivial⟩⟩
        simpa [okPathV] using h.2
      · simp [Spec.encode, Spec.encBasic, Basic.shape, PyVal.wt, strOk_utf8 s (by simpa using h.1), hw']
        omega
    · -- g
      have hsome : (asciiEncode s).isSome := (asciiEncode_isSome_iff s).mpr (fun ch hch => (h.1 ch hch).1)
      obtain ⟨bs, hbs⟩ := Option.isSome_iff_exists.mp hsome
      have hutf := asciiEncode_eq_utf8 hbs
      have hlen := asciiEncode_length hbs
      have hnul : s.contains (Char.ofNat 0) = false := by
        simp only [List.contains_eq_mem, decide_eq_false_iff_not]
        intro hm
        exact (h.1 _ hm).2 (by decide)
      have hok : Spec.strOk bs = true := by rw [← hutf]; exact strOk_utf8 s hnul
      refine ⟨.str bs, ?_, fun off => ?_⟩
      · simp only [Rep, RepScalar]
        exact ⟨_, rfl, Or.inr ⟨by decide, ⟨cls, s, rfl, hbs⟩, trivial⟩⟩
      · have h255 : bs.length < 256 := by omega
        simp [Spec.encode, Spec.encBasic, Basic.shape, PyVal.wt, hok, h255, hutf]
        omega
  | none => cases c <;> simp [fitsBasic, Basic.intRange?] at h
  | bytearray _ => cases c <;> simp [fitsBasic, Basic.intRange?] at h
  | list _ => cases c <;> simp [fitsBasic, Basic.intRange?] at h
  | tuple _ => cases c <;> simp [fitsBasic, Basic.intRange?] at h
  | dict _ => cases c <;> simp [fitsBasic, Basic.intRange?] at h
  | obj _ _ _ => cases c <;> simp [fitsBasic, Basic.intRange?] at h
  | other _ => cases c <;> simp [fitsBasic, Basic.intRange?] at h

/-! ### containers -/

/-- `pv` denotes a spec value of type `t` that the reference encoder accepts at every offset, within the
size bound. -/
def Good (e : Endian) (pv : PyVal) (t : Ty) : Prop :=
  ∃ val, Rep [] val false t pv 0 0 ∧
    ∀ off, ∃ bs, Spec.encode genAlign e t val off = some bs ∧ bs.length + slack t ≤ pv.wt

theorem good_elems (e : Endian) (el : Ty) : ∀ xs : List PyVal, (∀ x ∈ xs, Good e x el) →
    ∃ vals, RepElems [] vals false el xs 0 0 ∧
      ∀ off, ∃ bs, Spec.encodeElems genAlign e el vals off = some bs ∧ bs.length ≤ wtList xs
  | [], _ => ⟨[], by simp [RepElems], fun off => ⟨[], by simp [Spec.encodeElems], by simp⟩⟩
  | x :: xs, h => by
      obtain ⟨val, hrep, henc⟩ := h x (by simp)
      obtain ⟨vals, hreps, hencs⟩ := good_elems e el xs (fun y hy => h y (by simp [hy]))
      refine ⟨val :: vals, ?_, fun off => ?_⟩
      · simp only [RepElems]
        exact ⟨x, xs, 0, rfl, hrep, hreps⟩
      · obtain ⟨b, hb, hbl⟩ := henc (off + padLen (genAlign el.code) off)
        obtain ⟨r, hr, hrl⟩ := hencs (off + padLen (genAlign el.code) off + b.length)
        refine ⟨zeros (padLen (genAlign el.code) off) ++ b ++ r, by simp [Spec.encodeElems, hb, hr], ?_⟩
        have := pad_le7 el off
        simp [wtList]
        omega

theorem good_fields (e : Endian) : ∀ (xs : List PyVal) (fs : List Ty), xs.length = fs.length →
    (∀ i (h1 : i < xs.length) (h2 : i < fs.length), Good e xs[i] fs[i]) →
    ∃ vals, RepFields [] vals false fs xs 0 0 ∧
      ∀ off, ∃ bs, Spec.encodeFields genAlign e fs vals off = some bs ∧ bs.length ≤ wtList xs
  | [], [], _, _ => ⟨[], by simp [RepFields], fun off => ⟨[], by simp [Spec.encodeFields], by simp⟩⟩
  | [], _ :: _, hl, _ => by simp at hl
  | _ :: _, [], hl, _ => by simp at hl
  | x :: xs, t :: ts, hl, h => by
      have h0 : Good e x t := h 0 (Nat.zero_lt_succ _) (Nat.zero_lt_succ _)
      obtain ⟨val, hrep, henc⟩ := h0
      obtain ⟨vals, hreps, hencs⟩ := good_fields e xs ts (by simpa using hl)
        (fun i h1 h2 => h (i + 1) (Nat.succ_lt_succ h1) (Nat.succ_lt_succ h2))
      refine ⟨val :: vals, ?_, fun off => ?_⟩
      · simp only [RepFields]
        exact ⟨t, ts, x, xs, 0, rfl, rfl, hrep, hreps⟩
      · obtain ⟨b, hb, hbl⟩ := henc (off + padLen (genAlign t.code) off)
        obtain ⟨r, hr, hrl⟩ := hencs (off + padLen (genAlign t.code) off + b.length)
        refine ⟨zeros (padLen (genAlign t.code) off) ++ b ++ r, by simp [Spec.encodeFields, hb, hr], ?_⟩
        have := pad_le7 t off
        simp [wtList] at hbl ⊢
        omega

theorem good_entries (e : Endian) (kt vt : Ty) : ∀ kvs : List (PyVal × PyVal),
    (∀ kv ∈ kvs, Good e kv.1 kt) → (∀ kv ∈ kvs, Good e kv.2 vt) →
    ∃ vals, RepElems [] vals false (.dict kt vt) (kvs.map fun kv => .tuple [kv.1, kv.2]) 0 0 ∧
      ∀ off, ∃ bs, Spec.encodeElems genAlign e (.dict kt vt) vals off = some bs ∧ bs.length ≤ wtPairs kvs
  | [], _, _ => ⟨[], by simp [RepElems], fun off => ⟨[], by simp [Spec.encodeElems], by simp⟩⟩
  | (k, v) :: rest, hk, hv => by
      obtain ⟨a, hra, hea⟩ := hk (k, v) (by simp)
      obtain ⟨b, hrb, heb⟩ := hv (k, v) (by simp)
      obtain ⟨vals, hreps, hencs⟩ := good_entries e kt vt rest (fun y hy => hk y (by simp [hy]))
        (fun y hy => hv y (by simp [hy]))
      refine ⟨.entry a b :: vals, ?_, fun off => ?_⟩
      · simp only [List.map_cons, RepElems]
        refine ⟨_, _, 0, rfl, ?_, hreps⟩
        simp only [Rep]
        exact ⟨kt, vt, k, v, 0, rfl, trivial, rfl, hra, hrb⟩
      · let p0 := padLen (genAlign (Ty.dict kt vt).code) off
        let pk := padLen (genAlign kt.code) (off + p0)
        obtain ⟨kb, hkb, hkl⟩ := hea (off + p0 + pk)
        let pv := padLen (genAlign vt.code) (off + p0 + pk + kb.length)
        obtain ⟨vb, hvb, hvl⟩ := heb (off + p0 + pk + kb.length + pv)
        obtain ⟨r, hr, hrl⟩ := hencs (off + p0 + (pk + (kb.length + (pv + vb.length))))
        refine ⟨zeros p0 ++ (zeros pk ++ kb ++ (zeros pv ++ vb)) ++ r, ?_, ?_⟩
        · simp only [Spec.encodeElems, Spec.encode]
          simp [p0, pk, pv, hkb, hvb, hr]
        · have h1 := pad_le7 (Ty.dict kt vt) off
          have h2 := pad_le7 kt (off + p0)
          have h3 := pad_le7 vt (off + p0 + pk + kb.length)
          simp [wtPairs, p0, pk, pv] at hkl hvl h1 h2 h3 ⊢
          omega

/-! ### the main induction -/

theorem inferTy_slack (v : PyVal) (t : Ty) (h : inferTy v = some t) : slack t = 272 := by
  cases v with
  | none => simp [inferTy] at h
  | bool _ => simp [inferTy] at h; subst h; rfl
  | int cls n => cases cls <;> simp [inferTy, IntCls.basic?] at h <;> subst h <;> rfl
  | float _ => simp [inferTy] at h; subst h; rfl
  | str _ _ => simp [inferTy] at h; subst h; rfl
  | bytearray _ => simp [inferTy] at h; subst h; rfl
  | list xs =>
    cases xs with
    | nil => simp [inferTy] at h; subst h; rfl
    | cons x xs =>
      simp only [inferTy] at h
      split at h
      · cases hx : inferTy x with
        | none => simp [hx] at h
        | some tx => simp [hx] at h; subst h; rfl
      · simp at h; subst h; rfl
  | tuple xs =>
    cases xs with
    | nil => simp [inferTy] at h
    | cons x xs =>
      simp only [inferTy] at h
      cases hts : inferTys (x :: xs) with
      | none => simp [hts] at h
      | some ts => simp [hts] at h; subst h; rfl
  | dict kvs =>
    cases kvs with
    | nil => simp [inferTy] at h; subst h; rfl
    | cons kv rest =>
      obtain ⟨k, v⟩ := kv
      simp only [inferTy] at h
      cases hk : inferLastKey ((k, v) :: rest) with
      | none => simp [hk] at h
      | some kt =>
        cases kt with
        | basic kc =>
          simp only [hk] at h
          split at h
          · cases hv : inferTy v with
            | none => simp [hv] at h
            | some vt => simp [hv] at h; subst h; rfl
          · simp at h; subst h; rfl
        | variant => simp [hk] at h
        | array _ => simp [hk] at h
        | struct _ => simp [hk] at h
        | dict _ _ => simp [hk] at h
  | obj _ _ _ => simp [inferTy] at h
  | other _ => simp [inferTy] at h

theorem wtList_bytes (bs : List UInt8) : wtList (bs.map fun b => PyVal.int .plain b.toNat) = 308 * bs.length := by
  induction bs with
  | nil => simp [wtList]
  | cons b bs ih => simp [wtList, ih, PyVal.wt]; omega

theorem good_byte (e : Endian) (b : UInt8) : Good e (.int .plain b.toNat) (.basic .y) := by
  have hfit : fitsBasic okPathV (.int .plain b.toNat) .y = true := by
    have := b.toNat_lt
    simp [fitsBasic, Basic.intRange?]
    omega
  obtain ⟨val, hr, he⟩ := bridge_basic e (.int .plain b.toNat) .y hfit (by simp [PyVal.wt, Spec.maxArray])
  exact ⟨val, hr, fun off => by simpa [slack] using he off⟩

theorem arrayShape_list (el : Ty) (xs : List PyVal) (h : el.notEntry = true) : arrayShape el (.list xs) := by
  cases el <;> simp_all [arrayShape, Ty.notEntry]

theorem sigBytes_length (t : Ty) : (Spec.sigBytes t).length = t.render.length := by
  simp [Spec.sigBytes]

/-- The variant step: a value good for the type inferred for it is good as the content of a variant. -/
theorem good_variant (e : Endian) (pv : PyVal) (t : Ty) (ht : inferTy pv = some t) (hg : Good e pv t)
    (hs : pv.sigShort = true) :
    ∃ val, Rep [] val false t pv 0 0 ∧
      ∀ off, ∃ bs, Spec.encode genAlign e .variant (.variant t val) off = some bs ∧ bs.length ≤ pv.wt := by
  obtain ⟨val, hr, he⟩ := hg
  have hsl := inferTy_slack pv t ht
  have hshort : t.render.length < 256 := by simpa [PyVal.sigShort, ht] using hs
  have hWF : t.WF = true := Ty.wf_imp_WF t (inferTy_wf pv t ht)
  refine ⟨val, hr, fun off => ?_⟩
  let sgl := (encUInt e 1 t.render.length ++ Spec.sigBytes t ++ [0]).length
  obtain ⟨body, hb, hbl⟩ := he (off + sgl + padLen (genAlign t.code) (off + sgl))
  have hp := pad_le7 t (off + sgl)
  refine ⟨encUInt e 1 t.render.length ++ Spec.sigBytes t ++ [0] ++ zeros (padLen (genAlign t.code) (off + sgl)) ++ body, ?_, ?_⟩
  · simp only [Spec.encode, Spec.variantTypeOk, hWF, hshort]
    have hb' : Spec.encode genAlign e t val (off + (encUInt e 1 t.render.length ++ Spec.sigBytes t ++ [0]).length + padLen (genAlign t.code) (off + (encUInt e 1 t.render.length ++ Spec.sigBytes t ++ [0]).length)) = some body := hb
    rw [hb']
    simp [sgl]
    congr 3
  · rw [hsl] at hbl
    simp [sgl, sigBytes_length] at hbl hp ⊢
    omega

/-- Main induction: a conforming value of bounded size denotes a spec value the encoder accepts. -/
theorem bridge (e : Endian) (pv : PyVal) (t : Ty) (h : Travels okPathV pv t) :
    pv.sigsShort = true → pv.wt ≤ Spec.maxArray → Good e pv t := by
  induction h with
  | basic pv c hf =>
    intro _ hw
    obtain ⟨val, hr, he⟩ := bridge_basic e pv c hf hw
    exact ⟨val, hr, fun off => by simpa [slack] using he off⟩
  | variant pv t ht _ ih =>
    intro hs hw
    obtain ⟨val, hr, he⟩ := good_variant e pv t ht (ih hs hw) (sigsShort_sigShort pv hs)
    exact ⟨.variant t val, by simp only [Rep]; exact ⟨trivial, sigFromPy_of_inferTy pv t ht, hr, trivial⟩,
      fun off => by simpa [slack] using he off⟩
  | list xs el hne _ ih =>
    intro hs hw
    have hs' : sigsShortList xs = true := by simp [PyVal.sigsShort] at hs; exact hs.2
    have hg : ∀ x ∈ xs, Good e x el := fun x hx =>
      ih x hx (sigsShortList_mem xs hs' x hx) (by have := wtList_mem xs x hx; simp [PyVal.wt] at hw; omega)
    obtain ⟨vals, hreps, hencs⟩ := good_elems e el xs hg
    refine ⟨.array vals, ?_, fun off => ?_⟩
    · simp only [Rep]
      exact ⟨el, xs, rfl, arrayShape_list el xs hne, rfl, hreps⟩
    · obtain ⟨body, hb, hbl⟩ := hencs (off + 4 + padLen (genAlign el.code) (off + 4))
      have hp := pad_le7 el (off + 4)
      have hmax : body.length ≤ Spec.maxArray := by simp [PyVal.wt] at hw; omega
      refine ⟨_, by simp [Spec.encode, hb, hmax]; rfl, ?_⟩
      simp [slack, PyVal.wt]
      omega
  | bytearray bs =>
    intro _ hw
    obtain ⟨vals, hreps, hencs⟩ := good_elems e (.basic .y) (bs.map fun b => PyVal.int .plain b.toNat)
      (fun x hx => by
        obtain ⟨b, _, rfl⟩ := List.mem_map.mp hx
        exact good_byte e b)
    refine ⟨.array vals, ?_, fun off => ?_⟩
    · simp only [Rep]
      exact ⟨.basic .y, _, rfl, by simp [arrayShape], rfl, hreps⟩
    · obtain ⟨body, hb, hbl⟩ := hencs (off + 4 + padLen (genAlign (Ty.basic .y).code) (off + 4))
      have hp := pad_le7 (Ty.basic .y) (off + 4)
      rw [wtList_bytes] at hbl
      have hmax : body.length ≤ Spec.maxArray := by simp [PyVal.wt] at hw; omega
      refine ⟨_, by simp [Spec.encode, hb, hmax]; rfl, ?_⟩
      simp [slack, PyVal.wt]
      omega
  | tuple xs fs hl _ ih =>
    intro hs hw
    have hs' : sigsShortList xs = true := by simp [PyVal.sigsShort] at hs; exact hs.2
    have hg : ∀ i (h1 : i < xs.length) (h2 : i < fs.length), Good e xs[i] fs[i] := fun i h1 h2 =>
      ih i h1 h2 (sigsShortList_mem xs hs' _ (List.getElem_mem h1))
        (by have := wtList_mem xs _ (List.getElem_mem h1); simp [PyVal.wt] at hw; omega)
    obtain ⟨vals, hreps, hencs⟩ := good_fields e xs fs hl hg
    refine ⟨.struct vals, ?_, fun off => ?_⟩
    · simp only [Rep]
      exact ⟨fs, xs, rfl, trivial, rfl, hreps⟩
    · obtain ⟨body, hb, hbl⟩ := hencs off
      refine ⟨body, by simp [Spec.encode, hb], ?_⟩
      simp [slack, PyVal.wt]
      omega
  | dict kvs kt vt _ _ ihk ihv =>
    intro hs hw
    have hs' : sigsShortPairs kvs = true := by simp [PyVal.sigsShort] at hs; exact hs.2
    have hgk : ∀ kv ∈ kvs, Good e kv.1 kt := fun kv hkv =>
      ihk kv hkv (sigsShortPairs_mem kvs hs' kv hkv).1
        (by have := wtPairs_mem kvs kv hkv; simp [PyVal.wt] at hw; omega)
    have hgv : ∀ kv ∈ kvs, Good e kv.2 vt := fun kv hkv =>
      ihv kv hkv (sigsShortPairs_mem kvs hs' kv hkv).2
        (by have := wtPairs_mem kvs kv hkv; simp [PyVal.wt] at hw; omega)
    obtain ⟨vals, hreps, hencs⟩ := good_entries e kt vt kvs hgk hgv
    refine ⟨.array vals, ?_, fun off => ?_⟩
    · simp only [Rep]
      exact ⟨.dict kt vt, _, rfl, by simp [arrayShape], rfl, hreps⟩
    · obtain ⟨body, hb, hbl⟩ := hencs (off + 4 + padLen (genAlign (Ty.dict kt vt).code) (off + 4))
      have hp := pad_le7 (Ty.dict kt vt) (off + 4)
      have hmax : body.length ≤ Spec.maxArray := by simp [PyVal.wt] at hw; omega
      refine ⟨_, by simp [Spec.encode, hb, hmax]; rfl, ?_⟩
      simp [slack, PyVal.wt]
      omega

/-! ### the round trip of a variant -/

/-- VARIANT ROUND TRIP on the code model of marshal.py, for every value that conforms to the type inferred
for it: `marshal('v', [v], off, lendian, [])` succeeds and `unmarshal('v', pre + bytes + suf, off, lendian, [])`
returns the normal form `plain v` (wrappers as plain values, tuples as lists, byte arrays as integer lists,
floats bit for bit) and reports the same number of bytes - both byte orders, every offset, arbitrary
surrounding bytes, every sufficient step budget. -/
theorem variant_roundtrip_travels (le : Bool) (v : PyVal) (t : Ty) (off : Nat) (pre suf : Bytes)
    (ht : inferTy v = some t) (htr : Travels okPathV v t) (hkeys : KeysOK v)
    (hs : v.sigsShort = true) (hw : v.wt ≤ Spec.maxArray) (hpre : pre.length = off) :
    ∃ bs fuel0, ∀ fuel, fuel0 ≤ fuel →
      Code.marshal fuel ['v'] (.list [v]) off le (some []) = .ok (bs.length, bs, some []) ∧
      Code.unmarshal fuel ['v'] (pre ++ bs ++ suf) off le (some []) = .ok (bs.length, [plain v]) := by
  obtain ⟨val, hr, he⟩ := good_variant (endianOf le) v t ht (bridge (endianOf le) v t htr hs hw)
    (sigsShort_sigShort v hs)
  obtain ⟨b, hb, _⟩ := he (off + padLen (genAlign (Ty.variant).code) off)
  refine ⟨zeros (padLen (genAlign (Ty.variant).code) off) ++ b ++ [], depthAll [.variant t val], fun fuel hf => ?_⟩
  have hrep : RepFields [] [.variant t val] true [.variant] [v] 0 ([] : List PyVal).length := by
    simp only [RepFields, List.length_nil]
    refine ⟨.variant, [], v, [], 0, rfl, rfl, ?_, rfl, rfl, rfl⟩
    simp only [Rep]
    exact ⟨trivial, sigFromPy_of_inferTy v t ht, hr, trivial⟩
  have henc : Spec.encodeAll genAlign (endianOf le) [.variant] [.variant t val] off =
      some (zeros (padLen (genAlign (Ty.variant).code) off) ++ b ++ []) := by
    simp [Spec.encodeAll, Spec.encodeFields, hb]
  have h := C01_roundtrip le [.variant] (.list [v]) [v] [.variant t val] [] off _ pre suf fuel
    (by decide) rfl hrep (by simp [KeysOKList, hkeys]) henc hpre hf
  simpa [renderAll, Ty.render, plainList] using h

end Txdbus
