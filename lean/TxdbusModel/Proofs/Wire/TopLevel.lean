import TxdbusModel.Proofs.Wire.MarshalSpec
import TxdbusModel.Proofs.Wire.UnmarshalSpec
/-
Code = Spec at the level of `marshal()` / `unmarshal()` (a whole signature), shared by C01 and C02.
-/
namespace Txdbus
namespace Code

/-- `marshal(render ts, pv, off, lendian, [])` produces exactly the bytes of the spec encoder (alignment
table of the specification) for the spec values `vs` that the Python values denote, reports their
number, and leaves the descriptors met, in wire order, in the descriptor list. -/
theorem marshal_eq_spec (A : AlignTable) (hA : PadOK A) (hpos : A.Pos) (le : Bool) (ts : List Ty) (pv : PyVal) (items : List PyVal) (vs : List Val)
    (lall : List PyVal) (k' off : Nat) (bs : Bytes) (fuel : Nat)
    (hitems : topItems pv = .ok items) (hrep : RepFields lall vs true ts items 0 k')
    (henc : Spec.encodeAll A (endianOf le) ts vs off = some bs) (hfuel : depthAll vs ≤ fuel) :
    marshal fuel (renderAll ts) pv off le (some []) = .ok (bs.length, bs, some (lall.take k')) := by
  unfold marshal marshalTop
  unfold Spec.encodeAll at henc
  have h := marshalSeq_spec A hA hpos lall le vs true ts items 0 k' off bs fuel hrep henc hfuel
  simp only [fdsArg, if_true, List.take_zero] at h
  simp only [hitems, lazyPieces_renderAll, h]
  simp

/-- `unmarshal(render ts, pre ++ bytes ++ suf, off, lendian, fds)` on a spec-conformant encoding returns
the encoded values and the number of bytes of the encoding. -/
theorem unmarshal_eq_spec (A : AlignTable) (hA : PadOK A) (hpos : A.Pos) (le : Bool) (fds : Fds) (ts : List Ty) (vs : List Val) (off : Nat)
    (bs pre suf : Bytes) (values : List PyVal) (fuel : Nat)
    (hts : allWF ts = true) (henc : Spec.encodeAll A (endianOf le) ts vs off = some bs)
    (hpre : pre.length = off) (hval : fromSpecFields fds vs ts = some values) (hfuel : depthAll vs ≤ fuel) :
    unmarshal fuel (renderAll ts) (pre ++ bs ++ suf) off le fds = .ok (bs.length, values) := by
  unfold unmarshal unmarshalTop
  unfold Spec.encodeAll at henc
  have h := unmarshalSeq_spec A hA hpos le fds (pre ++ bs ++ suf) vs ts pre bs suf off values fuel hts henc
    (by simp) hpre hval hfuel
  simp only [lazyPieces_renderAll, h]
  simp

/-! ### arity (repair bf83351): `marshal` succeeds only if there is exactly one value per complete type -/

theorem marshalSeq_ok_arity (one : List Char → PyVal → Nat → Fds → MRes) :
    ∀ (pieces : List (List Char)) (items : List PyVal) (start : Nat) (fds : Fds) (r : Nat × Bytes × Fds),
      marshalSeq one pieces none items start fds = .ok r → pieces.length = items.length
  | [], [], _, _, _, _ => rfl
  | [], _ :: _, _, _, _, h => by simp [marshalSeq] at h
  | _ :: _, [], _, _, _, h => by simp [marshalSeq] at h
  | ct :: pieces, v :: vs, start, fds, r, h => by
    simp only [marshalSeq] at h
    split at h <;> try (simp at h; done)
    split at h <;> try (simp at h; done)
    split at h <;> try (simp at h; done)
    split at h <;> try (simp at h; done)
    rename_i hrec
    have := marshalSeq_ok_arity one pieces vs _ _ _ hrec
    simp [this]

/-- If `marshal(render ts, pv, ...)` returns at all, `pv` holds exactly as many values as `ts` has types (for
whatever values, conforming or not): a body never silently lacks or drops a value. -/
theorem marshal_ok_arity (fuel : Nat) (ts : List Ty) (pv : PyVal) (off : Nat) (le : Bool) (fds : Fds)
    (r : Nat × Bytes × Fds) (h : marshal fuel (renderAll ts) pv off le fds = .ok r) :
    ∃ items, topItems pv = .ok items ∧ items.length = ts.length := by
  unfold marshal marshalTop at h
  split at h <;> try (simp at h; done)
  rename_i items hitems
  simp only [lazyPieces_renderAll] at h
  split at h <;> try (simp at h; done)
  rename_i hseq
  have := marshalSeq_ok_arity _ _ _ _ _ _ hseq
  exact ⟨items, hitems, by simpa using this.symm⟩

end Code
end Txdbus
