import TxdbusModel.Proofs.Wire.Rep
import TxdbusModel.Proofs.Wire.Utf8
/-
What decoding returns, in terms of the Python value that was encoded: `fromSpec` of the spec value
denoted by a conforming Python value `pv` is `plain pv` (typed wrappers as their plain value, tuples and
`dbusOrder` objects as lists, byte arrays as lists of integers; a dict stays a dict provided its keys are
hashable and pairwise distinct under Python equality - which a real Python dict guarantees).
-/
set_option linter.unusedSimpArgs false

namespace Txdbus
namespace Code

/-- Keys as Python sees them: all hashable, pairwise different (`keysEqual`: `True == 1 == 1.0`, ...). -/
def DistinctKeys (ks : List PyVal) : Prop :=
  ∃ kfs : List KeyForm, ks.map keyForm? = kfs.map some ∧ kfs.Pairwise (fun a b => keysEqual a b = false)

mutual
/-- Every dict inside the value has (after normalisation) hashable, pairwise distinct keys. -/
def KeysOK : PyVal → Prop
  | .list xs => KeysOKList xs
  | .tuple xs => KeysOKList xs
  | .obj _ _ fs => KeysOKList fs
  | .dict kvs => DistinctKeys (plainPairs kvs |>.map (·.1)) ∧ KeysOKPairs kvs
  | _ => True
def KeysOKList : List PyVal → Prop
  | [] => True
  | x :: xs => KeysOK x ∧ KeysOKList xs
def KeysOKPairs : List (PyVal × PyVal) → Prop
  | [] => True
  | (k, v) :: kvs => KeysOK k ∧ KeysOK v ∧ KeysOKPairs kvs
end

/-! ### `d[k] = v` with distinct keys appends -/

theorem dictSet_append (kf : KeyForm) (k v : PyVal) :
    ∀ acc : List (KeyForm × PyVal × PyVal), (∀ e ∈ acc, keysEqual e.1 kf = false) →
      dictSet kf k v acc = acc ++ [(kf, k, v)]
  | [], _ => rfl
  | (kf', k', v') :: rest, h => by
    have h1 := h (kf', k', v') (by simp)
    have ih := dictSet_append kf k v rest (fun e he => h e (by simp [he]))
    simp only at h1
    simp [dictSet, h1, ih]

theorem buildDict_distinct :
    ∀ (pairs : List (PyVal × PyVal)) (kfs : List KeyForm) (acc : List (KeyForm × PyVal × PyVal)),
      pairs.map (fun p => keyForm? p.1) = kfs.map some →
      kfs.Pairwise (fun a b => keysEqual a b = false) →
      (∀ e ∈ acc, ∀ kf ∈ kfs, keysEqual e.1 kf = false) →
      ∃ d, buildDict (pairs.map fun p => .list [p.1, p.2]) acc = .ok d ∧
        d.map (fun x => (x.2.1, x.2.2)) = acc.map (fun x => (x.2.1, x.2.2)) ++ pairs
  | [], kfs, acc, _, _, _ => ⟨acc, by simp [buildDict]⟩
  | (k, v) :: pairs, kfs, acc, hk, hp, hacc => by
    cases kfs with
    | nil => simp at hk
    | cons kf kfs =>
      simp only [List.map_cons, List.cons.injEq] at hk
      obtain ⟨hk1, hk2⟩ := hk
      rw [List.pairwise_cons] at hp
      have hset := dictSet_append kf k v acc (fun e he => hacc e he kf (by simp))
      obtain ⟨d, hd1, hd2⟩ := buildDict_distinct pairs kfs (acc ++ [(kf, k, v)]) hk2 hp.2 (by
        intro e he kf' hkf'
        simp only [List.mem_append, List.mem_singleton] at he
        rcases he with he | rfl
        · exact hacc e he kf' (by simp [hkf'])
        · exact hp.1 kf' hkf')
      refine ⟨d, ?_, ?_⟩
      · simp only [List.map_cons, buildDict, hk1, hset, hd1]
      · rw [hd2]; simp

theorem dictOf_distinct (pairs : List (PyVal × PyVal)) (h : DistinctKeys (pairs.map (·.1))) :
    dictOf (pairs.map fun p => .list [p.1, p.2]) = some (.dict pairs) := by
  obtain ⟨kfs, h1, h2⟩ := h
  obtain ⟨d, hd1, hd2⟩ := buildDict_distinct pairs kfs [] (by rw [List.map_map] at h1; exact h1) h2 (by simp)
  unfold dictOf
  simp only [hd1]
  simp at hd2
  simp [hd2]

/-! ### small facts about `plain` -/

theorem plainList_bytes (bs : List UInt8) :
    plainList (bs.map fun b => PyVal.int .plain b.toNat) = bs.map fun b => PyVal.int .plain b.toNat := by
  induction bs with
  | nil => rfl
  | cons b bs ih => simp [plainList, plain, ih]

theorem keysOKList_bytes (bs : List UInt8) : KeysOKList (bs.map fun b => PyVal.int .plain b.toNat) := by
  induction bs with
  | nil => trivial
  | cons b bs ih => simp [KeysOKList, KeysOK, ih]

theorem plainList_items (kvs : List (PyVal × PyVal)) :
    plainList (kvs.map fun kv => PyVal.tuple [kv.1, kv.2]) =
      (plainPairs kvs).map fun p => PyVal.list [p.1, p.2] := by
  induction kvs with
  | nil => rfl
  | cons kv kvs ih =>
    obtain ⟨k, v⟩ := kv
    simp [plainList, plain, plainPairs, ih]

theorem keysOKList_items (kvs : List (PyVal × PyVal)) (h : KeysOKPairs kvs) :
    KeysOKList (kvs.map fun kv => PyVal.tuple [kv.1, kv.2]) := by
  induction kvs with
  | nil => trivial
  | cons kv kvs ih =>
    obtain ⟨k, v⟩ := kv
    simp only [KeysOKPairs] at h
    simp [KeysOKList, KeysOK, h.1, h.2.1, ih h.2.2]

theorem topItems_plain (pv : PyVal) (items : List PyVal) (hs : structShape pv) (hi : topItems pv = .ok items) :
    plain pv = .list (plainList items) ∧ (KeysOK pv → KeysOKList items) := by
  cases pv <;> simp only [structShape] at hs <;> simp only [topItems, pyIter, Except.ok.injEq] at hi <;> subst hi <;>
    simp [plain, KeysOK]

theorem fromSpec_scalar (lall : List PyVal) (v : Val) (fd : Bool) (t : Ty) (pv : PyVal) (k k' : Nat)
    (hv : (∃ n, v = .int n) ∨ (∃ b, v = .bool b) ∨ (∃ b, v = .double b) ∨ (∃ b, v = .str b))
    (hr : RepScalar lall v fd t pv k k') : fromSpec (some lall) v t = some (plain pv) := by
  obtain ⟨c, rfl, hcase⟩ := hr
  rcases hcase with ⟨rfl, rfl, rfl, rfl, hl, hpl⟩ | ⟨hc, hb, rfl⟩
  · simp [fromSpec, hl, hpl]
  · cases c <;> rcases hv with ⟨n, rfl⟩ | ⟨b, rfl⟩ | ⟨b, rfl⟩ | ⟨b, rfl⟩ <;> simp only [RepBasic] at hb <;>
      first
      | (exfalso; exact hc rfl)
      | (obtain ⟨cls, rfl⟩ := hb; simp [fromSpec, plain])
      | (subst hb; simp [fromSpec, plain])
      | (obtain ⟨cls, cs, rfl, rfl⟩ := hb; simp [fromSpec, plain, utf8Decode_encode])
      | (obtain ⟨cls, cs, rfl, rfl, _⟩ := hb; simp [fromSpec, plain, utf8Decode_encode])
      | (obtain ⟨cls, cs, rfl, ha⟩ := hb; simp [fromSpec, plain, asciiDecode_encode _ _ ha])

mutual
theorem fromSpec_of_rep (lall : List PyVal) :
    ∀ (v : Val) (fd : Bool) (t : Ty) (pv : PyVal) (k k' : Nat),
      Rep lall v fd t pv k k' → KeysOK pv → fromSpec (some lall) v t = some (plain pv)
  | .int n, fd, t, pv, k, k', hr, _ => by
    simp only [Rep] at hr; exact fromSpec_scalar lall _ fd t pv k k' (Or.inl ⟨_, rfl⟩) hr
  | .bool b, fd, t, pv, k, k', hr, _ => by
    simp only [Rep] at hr; exact fromSpec_scalar lall _ fd t pv k k' (Or.inr (Or.inl ⟨_, rfl⟩)) hr
  | .double b, fd, t, pv, k, k', hr, _ => by
    simp only [Rep] at hr; exact fromSpec_scalar lall _ fd t pv k k' (Or.inr (Or.inr (Or.inl ⟨_, rfl⟩))) hr
  | .str b, fd, t, pv, k, k', hr, _ => by
    simp only [Rep] at hr; exact fromSpec_scalar lall _ fd t pv k k' (Or.inr (Or.inr (Or.inr ⟨_, rfl⟩))) hr
  | .variant t' v', fd, t, pv, k, k', hr, hk => by
    simp only [Rep] at hr
    obtain ⟨rfl, _, hrep, _⟩ := hr
    simp only [fromSpec]
    exact fromSpec_of_rep lall v' false t' pv _ _ hrep hk
  | .array vs, fd, t, pv, k, k', hr, hk => by
    simp only [Rep] at hr
    obtain ⟨el, items, rfl, hshape, hitems, hrep⟩ := hr
    cases pv <;> simp only [arrayItems, Except.ok.injEq, reduceCtorEq] at hitems
    case list xs =>
      subst hitems
      have ih := fromSpecList_of_rep lall vs fd el xs k k' hrep (by simpa [KeysOK] using hk)
      cases el <;> simp only [arrayShape] at hshape <;> simp [fromSpec, ih, plain]
    case tuple xs =>
      subst hitems
      have ih := fromSpecList_of_rep lall vs fd el xs k k' hrep (by simpa [KeysOK] using hk)
      cases el <;> simp only [arrayShape] at hshape <;> simp [fromSpec, ih, plain]
    case bytearray bs =>
      subst hitems
      have ih := fromSpecList_of_rep lall vs fd el _ k k' hrep (keysOKList_bytes bs)
      rw [plainList_bytes] at ih
      cases el <;> simp only [arrayShape] at hshape <;> simp [fromSpec, ih, plain]
    case dict kvs =>
      subst hitems
      simp only [KeysOK] at hk
      have ih := fromSpecList_of_rep lall vs fd el _ k k' hrep (keysOKList_items kvs hk.2)
      rw [plainList_items] at ih
      cases el <;> simp only [arrayShape] at hshape
      simp only [fromSpec, ih, Option.bind_some, plain]
      exact dictOf_distinct (plainPairs kvs) hk.1
  | .struct vs, fd, t, pv, k, k', hr, hk => by
    simp only [Rep] at hr
    obtain ⟨fs, items, rfl, hshape, hitems, hrep⟩ := hr
    obtain ⟨hp, hko⟩ := topItems_plain pv items hshape hitems
    have ih := fromSpecFields_of_rep lall vs fd fs items k k' hrep (hko hk)
    simp [fromSpec, ih, hp]
  | .entry a b, fd, t, pv, k, k', hr, hk => by
    simp only [Rep] at hr
    obtain ⟨kt, vt, x, y, k1, rfl, hshape, hitems, hra, hrb⟩ := hr
    obtain ⟨hp, hko⟩ := topItems_plain pv [x, y] hshape hitems
    have hk' := hko hk
    simp only [KeysOKList] at hk'
    have iha := fromSpec_of_rep lall a fd kt x k k1 hra hk'.1
    have ihb := fromSpec_of_rep lall b fd vt y k1 k' hrb hk'.2.1
    simp [fromSpec, iha, ihb, hp, plainList]
theorem fromSpecList_of_rep (lall : List PyVal) :
    ∀ (vs : List Val) (fd : Bool) (el : Ty) (items : List PyVal) (k k' : Nat),
      RepElems lall vs fd el items k k' → KeysOKList items →
      fromSpecList (some lall) vs el = some (plainList items)
  | [], fd, el, items, k, k', hr, _ => by
    simp only [RepElems] at hr
    obtain ⟨rfl, _⟩ := hr
    rfl
  | v :: vs, fd, el, items, k, k', hr, hk => by
    simp only [RepElems] at hr
    obtain ⟨x, xs, k1, rfl, hrv, hrs⟩ := hr
    simp only [KeysOKList] at hk
    have ih1 := fromSpec_of_rep lall v fd el x k k1 hrv hk.1
    have ih2 := fromSpecList_of_rep lall vs fd el xs k1 k' hrs hk.2
    simp [fromSpecList, ih1, ih2, plainList]
theorem fromSpecFields_of_rep (lall : List PyVal) :
    ∀ (vs : List Val) (fd : Bool) (ts : List Ty) (items : List PyVal) (k k' : Nat),
      RepFields lall vs fd ts items k k' → KeysOKList items →
      fromSpecFields (some lall) vs ts = some (plainList items)
  | [], fd, ts, items, k, k', hr, _ => by
    simp only [RepFields] at hr
    obtain ⟨rfl, rfl, _⟩ := hr
    rfl
  | v :: vs, fd, ts, items, k, k', hr, hk => by
    simp only [RepFields] at hr
    obtain ⟨t, ts', x, xs, k1, rfl, rfl, hrv, hrs⟩ := hr
    simp only [KeysOKList] at hk
    have ih1 := fromSpec_of_rep lall v fd t x k k1 hrv hk.1
    have ih2 := fromSpecFields_of_rep lall vs fd ts' xs k1 k' hrs hk.2
    simp [fromSpecFields, ih1, ih2, plainList]
end

end Code
end Txdbus
