import TxdbusModel.Proofs.Wire.CostVsCode
namespace Txdbus.CostVsCode
open Txdbus
open Txdbus.Gen.Wire (Fn)

theorem elems_congr (elem elem' : Nat → Code.URes) (tc : Char) (stop : Nat)
    (h : ∀ off, elem off ≠ .error .recursion → elem' off = elem off) :
    ∀ n off, Code.unmarshalElems elem tc stop n off ≠ .error .recursion →
      Code.unmarshalElems elem' tc stop n off = Code.unmarshalElems elem tc stop n off := by
  intro n
  induction n with
  | zero =>
    intro off _
    rw [Code.unmarshalElems.eq_def, Code.unmarshalElems.eq_def elem]
  | succ n ih =>
    intro off hne
    rw [Code.unmarshalElems.eq_def] at hne ⊢
    rw [Code.unmarshalElems.eq_def elem]
    by_cases hlt : off < stop
    · simp only [hlt, if_true] at hne ⊢
      cases hp : Code.padLenOf tc off with
      | error e => rfl
      | ok p =>
        simp only [hp] at hne ⊢
        have he : elem (off + p) ≠ .error .recursion := by
          intro hh; rw [hh] at hne; exact hne rfl
        rw [h _ he]
        cases hel : elem (off + p) with
        | error e => rfl
        | ok nv =>
          obtain ⟨nb, v⟩ := nv
          simp only [hel] at hne ⊢
          by_cases hz : nb = 0
          · simp only [hz, if_true]
          · simp only [hz, if_false] at hne ⊢
            have hr : Code.unmarshalElems elem tc stop n (off + p + nb) ≠ .error .recursion := by
              intro hh; rw [hh] at hne; exact hne rfl
            rw [ih _ hr]
    · simp only [hlt, if_false]

end Txdbus.CostVsCode
