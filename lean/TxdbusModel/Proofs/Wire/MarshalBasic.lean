import TxdbusModel.Proofs.Wire.CodePrim
/-
Code = Spec, part 2 (encoding direction): the per-type marshallers of the basic types produce the
bytes of `Spec.encBasic`.  The dispatch table, the struct formats and the constant sizes are the
generated ones (`Gen/Wire.lean`); the lemmas `disp_*`, `fmt_*`, `size_*` are the table obligations.
-/
set_option linter.unusedSimpArgs false

namespace Txdbus
namespace Code
open Gen.Wire (Fn)

/-! ### table obligations: dispatch, formats and sizes of the marshallers -/

theorem disp_y : Gen.Wire.marshallers.lookup 'y' = some Fn.marshal_byte := by decide
theorem disp_b : Gen.Wire.marshallers.lookup 'b' = some Fn.marshal_boolean := by decide
theorem disp_n : Gen.Wire.marshallers.lookup 'n' = some Fn.marshal_int16 := by decide
theorem disp_q : Gen.Wire.marshallers.lookup 'q' = some Fn.marshal_uint16 := by decide
theorem disp_i : Gen.Wire.marshallers.lookup 'i' = some Fn.marshal_int32 := by decide
theorem disp_u : Gen.Wire.marshallers.lookup 'u' = some Fn.marshal_uint32 := by decide
theorem disp_x : Gen.Wire.marshallers.lookup 'x' = some Fn.marshal_int64 := by decide
theorem disp_t : Gen.Wire.marshallers.lookup 't' = some Fn.marshal_uint64 := by decide
theorem disp_d : Gen.Wire.marshallers.lookup 'd' = some Fn.marshal_double := by decide
theorem disp_s : Gen.Wire.marshallers.lookup 's' = some Fn.marshal_string := by decide
theorem disp_o : Gen.Wire.marshallers.lookup 'o' = some Fn.marshal_object_path := by decide
theorem disp_g : Gen.Wire.marshallers.lookup 'g' = some Fn.marshal_signature := by decide
theorem disp_h : Gen.Wire.marshallers.lookup 'h' = some Fn.marshal_unix_fd := by decide
theorem disp_a : Gen.Wire.marshallers.lookup 'a' = some Fn.marshal_array := by decide
theorem disp_v : Gen.Wire.marshallers.lookup 'v' = some Fn.marshal_variant := by decide
theorem disp_struct : Gen.Wire.marshallers.lookup '(' = some Fn.marshal_struct := by decide
theorem disp_dict : Gen.Wire.marshallers.lookup '{' = some Fn.marshal_struct := by decide

theorem fmt_byte (le : Bool) : fmtOf .marshal_byte 0 le = .ok (fmtLE 'B' le) := by cases le <;> rfl
theorem fmt_boolean (le : Bool) : fmtOf .marshal_boolean 0 le = .ok (fmtLE 'I' le) := by cases le <;> rfl
theorem fmt_int16 (le : Bool) : fmtOf .marshal_int16 0 le = .ok (fmtLE 'h' le) := by cases le <;> rfl
theorem fmt_uint16 (le : Bool) : fmtOf .marshal_uint16 0 le = .ok (fmtLE 'H' le) := by cases le <;> rfl
theorem fmt_int32 (le : Bool) : fmtOf .marshal_int32 0 le = .ok (fmtLE 'i' le) := by cases le <;> rfl
theorem fmt_uint32 (le : Bool) : fmtOf .marshal_uint32 0 le = .ok (fmtLE 'I' le) := by cases le <;> rfl
theorem fmt_int64 (le : Bool) : fmtOf .marshal_int64 0 le = .ok (fmtLE 'q' le) := by cases le <;> rfl
theorem fmt_uint64 (le : Bool) : fmtOf .marshal_uint64 0 le = .ok (fmtLE 'Q' le) := by cases le <;> rfl
theorem fmt_double (le : Bool) : fmtOf .marshal_double 0 le = .ok (fmtLE 'd' le) := by cases le <;> rfl
theorem fmt_string (le : Bool) : fmtOf .marshal_string 0 le = .ok (fmtLE 'I' le) := by cases le <;> rfl
theorem fmt_signature (le : Bool) : fmtOf .marshal_signature 0 le = .ok (fmtLE 'B' le) := by cases le <;> rfl
theorem fmt_unix_fd (le : Bool) : fmtOf .marshal_unix_fd 0 le = .ok (fmtLE 'I' le) := by cases le <;> rfl
theorem fmt_array (le : Bool) : fmtOf .marshal_array 0 le = .ok (fmtLE 'I' le) := by cases le <;> rfl

theorem frame_string : frameOf .marshal_string = .ok 5 := rfl
theorem frame_signature : frameOf .marshal_signature = .ok 2 := rfl
theorem frame_array : frameOf .marshal_array = .ok 4 := rfl
theorem uframe_string : frameOf .unmarshal_string = .ok 5 := rfl
theorem uframe_signature : frameOf .unmarshal_signature = .ok 2 := rfl

theorem size_byte : sizeOf .marshal_byte = .ok 1 := rfl
theorem size_boolean : sizeOf .marshal_boolean = .ok 4 := rfl
theorem size_int16 : sizeOf .marshal_int16 = .ok 2 := rfl
theorem size_uint16 : sizeOf .marshal_uint16 = .ok 2 := rfl
theorem size_int32 : sizeOf .marshal_int32 = .ok 4 := rfl
theorem size_uint32 : sizeOf .marshal_uint32 = .ok 4 := rfl
theorem size_int64 : sizeOf .marshal_int64 = .ok 8 := rfl
theorem size_uint64 : sizeOf .marshal_uint64 = .ok 8 := rfl
theorem size_double : sizeOf .marshal_double = .ok 8 := rfl
theorem size_unix_fd : sizeOf .marshal_unix_fd = .ok 4 := rfl

/-! ### fixed-size marshallers -/

theorem mFixed_uint (le : Bool) (f : Fn) (letter : Char) (k : Nat) (pv : PyVal) (n : Int) (fds : Fds)
    (hf : fmtOf f 0 le = .ok (fmtLE letter le)) (hs : sizeOf f = .ok k)
    (hk : fmtKind? letter = some (.uint k)) (hv : pv.asInt? = some n)
    (hr : 0 ≤ n ∧ n < (256 ^ k : Nat)) :
    mFixed le f pv fds = .ok (k, encUInt (endianOf le) k n.toNat, fds) := by
  unfold mFixed
  simp only [hf, hs, pack_uint letter le k pv n hk hv hr.1 hr.2]

theorem mFixed_sint (le : Bool) (f : Fn) (letter : Char) (k : Nat) (pv : PyVal) (n : Int) (fds : Fds)
    (hf : fmtOf f 0 le = .ok (fmtLE letter le)) (hs : sizeOf f = .ok k)
    (hk : fmtKind? letter = some (.sint k)) (hv : pv.asInt? = some n)
    (hr : -((256 ^ k / 2 : Nat) : Int) ≤ n ∧ n < ((256 ^ k / 2 : Nat) : Int)) :
    mFixed le f pv fds = .ok (k, encSInt (endianOf le) k n, fds) := by
  unfold mFixed
  simp only [hf, hs, pack_sint letter le k pv n hk hv hr.1 hr.2]

/-- Unfolding `Spec.encBasic` for an unsigned integer type. -/
theorem encBasic_uint (e : Endian) (c : Basic) (k : Nat) (hc : c.shape = .uint k) (n : Int) (bs : Bytes)
    (he : Spec.encBasic e c (.int n) = some bs) :
    (0 ≤ n ∧ n < (256 ^ k : Nat)) ∧ bs = encUInt e k n.toNat := by
  unfold Spec.encBasic at he
  rw [hc] at he
  dsimp only at he
  split at he <;> try (simp at he; done)
  rename_i h
  simp only [Option.some.injEq] at he
  exact ⟨h, he.symm⟩

theorem encBasic_sint (e : Endian) (c : Basic) (k : Nat) (hc : c.shape = .sint k) (n : Int) (bs : Bytes)
    (he : Spec.encBasic e c (.int n) = some bs) :
    (-((256 ^ k / 2 : Nat) : Int) ≤ n ∧ n < ((256 ^ k / 2 : Nat) : Int)) ∧ bs = encSInt e k n := by
  unfold Spec.encBasic at he
  rw [hc] at he
  dsimp only at he
  split at he <;> try (simp at he; done)
  rename_i h
  simp only [Option.some.injEq] at he
  exact ⟨h, he.symm⟩

theorem mString_spec (le : Bool) (cls : StrCls) (cs : List Char) (fds : Fds) (bs : Bytes)
    (he : (if Spec.strOk (utf8Encode cs) = true ∧ (utf8Encode cs).length < 4294967296
            then some (encUInt (endianOf le) 4 (utf8Encode cs).length ++ utf8Encode cs ++ [0]) else none) = some bs) :
    mString le (.str cls cs) fds = .ok (bs.length, bs, fds) := by
  split at he <;> try (simp at he; done)
  rename_i h
  simp only [Option.some.injEq] at he; subst he
  have hnul : cs.contains (Char.ofNat 0) = false := by
    have h1 := h.1
    simp only [Spec.strOk, Bool.not_eq_true', List.contains_eq_mem, decide_eq_false_iff_not] at h1
    rw [utf8Encode_no_nul] at h1
    simpa using h1
  unfold mString
  simp only [hnul, fmt_string, frame_string]
  rw [pack_uint 'I' le 4 (.int .plain ((utf8Encode cs).length : Int)) _ rfl rfl (by omega) (by omega)]
  simp
  omega

/-- The marshallers of the basic types (all but `h`) produce `Spec.encBasic`. -/
theorem marshalOne_basic (le : Bool) (fuel : Nat) (c : Basic) (v : Val) (pv : PyVal) (off : Nat) (fds : Fds)
    (bs : Bytes) (hr : RepBasic c v pv) (he : Spec.encBasic (endianOf le) c v = some bs) :
    marshalOne le (fuel + 1) [c.code] pv off fds = .ok (bs.length, bs, fds) := by
  cases c
  case h => simp [RepBasic] at hr
  case y =>
    cases v <;> simp only [RepBasic] at hr
    obtain ⟨h, rfl⟩ := encBasic_uint _ .y 1 rfl _ _ he
    simp only [marshalOne, Basic.code, List.head?, disp_y]
    obtain ⟨cls, rfl⟩ := hr
    rw [mFixed_uint le _ 'B' 1 _ _ fds (fmt_byte le) size_byte rfl rfl h]; simp
  case q =>
    cases v <;> simp only [RepBasic] at hr
    obtain ⟨h, rfl⟩ := encBasic_uint _ .q 2 rfl _ _ he
    simp only [marshalOne, Basic.code, List.head?, disp_q]
    obtain ⟨cls, rfl⟩ := hr
    rw [mFixed_uint le _ 'H' 2 _ _ fds (fmt_uint16 le) size_uint16 rfl rfl h]; simp
  case u =>
    cases v <;> simp only [RepBasic] at hr
    obtain ⟨h, rfl⟩ := encBasic_uint _ .u 4 rfl _ _ he
    simp only [marshalOne, Basic.code, List.head?, disp_u]
    obtain ⟨cls, rfl⟩ := hr
    rw [mFixed_uint le _ 'I' 4 _ _ fds (fmt_uint32 le) size_uint32 rfl rfl h]; simp
  case t =>
    cases v <;> simp only [RepBasic] at hr
    obtain ⟨h, rfl⟩ := encBasic_uint _ .t 8 rfl _ _ he
    simp only [marshalOne, Basic.code, List.head?, disp_t]
    obtain ⟨cls, rfl⟩ := hr
    rw [mFixed_uint le _ 'Q' 8 _ _ fds (fmt_uint64 le) size_uint64 rfl rfl h]; simp
  case n =>
    cases v <;> simp only [RepBasic] at hr
    obtain ⟨h, rfl⟩ := encBasic_sint _ .n 2 rfl _ _ he
    simp only [marshalOne, Basic.code, List.head?, disp_n]
    obtain ⟨cls, rfl⟩ := hr
    rw [mFixed_sint le _ 'h' 2 _ _ fds (fmt_int16 le) size_int16 rfl rfl h]; simp
  case i =>
    cases v <;> simp only [RepBasic] at hr
    obtain ⟨h, rfl⟩ := encBasic_sint _ .i 4 rfl _ _ he
    simp only [marshalOne, Basic.code, List.head?, disp_i]
    obtain ⟨cls, rfl⟩ := hr
    rw [mFixed_sint le _ 'i' 4 _ _ fds (fmt_int32 le) size_int32 rfl rfl h]; simp
  case x =>
    cases v <;> simp only [RepBasic] at hr
    obtain ⟨h, rfl⟩ := encBasic_sint _ .x 8 rfl _ _ he
    simp only [marshalOne, Basic.code, List.head?, disp_x]
    obtain ⟨cls, rfl⟩ := hr
    rw [mFixed_sint le _ 'q' 8 _ _ fds (fmt_int64 le) size_int64 rfl rfl h]; simp
  case b =>
    cases v <;> simp only [RepBasic] at hr
    rename_i b
    simp only [Spec.encBasic, Basic.shape, Option.some.injEq] at he; subst he
    simp only [marshalOne, Basic.code, List.head?, disp_b]
    rw [mFixed_uint le _ 'I' 4 _ (if truthy pv = true then 1 else 0) fds (fmt_boolean le) size_boolean rfl rfl
      (by split <;> simp)]
    subst hr
    cases b <;> simp [truthy]
  case d =>
    cases v <;> simp only [RepBasic] at hr
    rename_i bits
    subst hr
    simp only [Spec.encBasic, Basic.shape, Option.some.injEq] at he; subst he
    simp only [marshalOne, Basic.code, List.head?, disp_d, mFixed, fmt_double, size_double, pack_double]
    simp
  case s =>
    cases v <;> simp only [RepBasic] at hr
    obtain ⟨cls, cs, rfl, rfl⟩ := hr
    simp only [Spec.encBasic, Basic.shape] at he
    simp only [marshalOne, Basic.code, List.head?, disp_s]
    exact mString_spec le cls cs fds bs he
  case o =>
    cases v <;> simp only [RepBasic] at hr
    obtain ⟨cls, cs, rfl, rfl, hp⟩ := hr
    simp only [Spec.encBasic, Basic.shape] at he
    simp only [marshalOne, Basic.code, List.head?, disp_o, validateObjectPathPy, hp]
    exact mString_spec le cls cs fds bs he
  case g =>
    cases v <;> simp only [RepBasic] at hr
    obtain ⟨cls, cs, rfl, ha⟩ := hr
    simp only [Spec.encBasic, Basic.shape] at he
    split at he <;> try (simp at he; done)
    rename_i h
    simp only [Option.some.injEq] at he; subst he
    simp only [marshalOne, Basic.code, List.head?, disp_g, mSignature, ha, fmt_signature, frame_signature]
    rw [pack_uint 'B' le 1 (.int .plain ((List.length _ : Nat) : Int)) _ rfl rfl (by omega) (by omega)]
    simp
    omega

end Code
end Txdbus
