import TxdbusModel.Wire.SigParse
import TxdbusModel.Sig.Parse
/-
Signature validity (Sig/Parse: `Ty.valid`, `sigValid`, owned by C19) implies the only part of it on which
the wire theorems depend: no empty structs (`Ty.WF`, `allWF`).
-/
namespace Txdbus

theorem isBasic_WF (k : Ty) (h : k.isBasic = true) : k.WF = true := by
  cases k <;> simp [Ty.isBasic] at h <;> simp [Ty.WF]

mutual
theorem Ty.wf_imp_WF : ∀ t : Ty, t.wf = true → t.WF = true
  | .basic _, _ => by simp [Ty.WF]
  | .variant, _ => by simp [Ty.WF]
  | .array (.dict k v), h => by
    simp only [Ty.wf, Bool.and_eq_true] at h
    simp only [Ty.WF, Bool.and_eq_true]
    exact ⟨isBasic_WF k h.1, Ty.wf_imp_WF v h.2⟩
  | .array (.basic c), _ => by simp [Ty.WF]
  | .array .variant, _ => by simp [Ty.WF]
  | .array (.array e), h => by
    simp only [Ty.wf] at h
    simp only [Ty.WF]
    exact Ty.wf_imp_WF (.array e) h
  | .array (.struct fs), h => by
    simp only [Ty.wf] at h
    simp only [Ty.WF]
    exact Ty.wf_imp_WF (.struct fs) h
  | .struct fs, h => by
    simp only [Ty.wf, Bool.and_eq_true] at h
    simp only [Ty.WF, Bool.and_eq_true]
    exact ⟨h.1, wfAll_imp_allWF fs h.2⟩
  | .dict _ _, h => by simp [Ty.wf] at h
theorem wfAll_imp_allWF : ∀ ts : List Ty, wfAll ts = true → allWF ts = true
  | [], _ => rfl
  | t :: ts, h => by
    simp only [wfAll, Bool.and_eq_true] at h
    simp only [allWF, Bool.and_eq_true]
    exact ⟨Ty.wf_imp_WF t h.1, wfAll_imp_allWF ts h.2⟩
end

/-- A valid signature has no empty structs. -/
theorem sigValid_allWF (ts : List Ty) (h : sigValid ts = true) : allWF ts = true := by
  simp only [sigValid, Bool.and_eq_true, List.all_eq_true] at h
  have h1 := h.1
  clear h
  induction ts with
  | nil => rfl
  | cons t ts ih =>
    simp only [allWF, Bool.and_eq_true]
    constructor
    · have := h1 t (by simp)
      simp only [Ty.valid, Bool.and_eq_true] at this
      exact Ty.wf_imp_WF t this.1.1
    · exact ih (fun x hx => h1 x (by simp [hx]))

end Txdbus
