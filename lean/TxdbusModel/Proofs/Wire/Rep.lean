import TxdbusModel.Wire.Spec
import TxdbusModel.Wire.Code
/-
The relation between Python values and spec values used by the statements of C01 / C02:

* `Rep lall v fd t pv k k'` - "the Python value `pv`, handed to `marshal` for type `t`, conforms to `t`
  and denotes the spec value `v`": the Python class the type asks for at every position (see
  `RepBasic`, `arrayShape`, `structShape`), the spec value being what the DBus type system sees in it.
* `plain pv` - the documented normalisation of a Python value (wrappers plain, tuples / objects as
  lists, byte arrays as integer lists): what decoding the encoding of `pv` returns.  Descriptors (`h`): the spec
  value is the index; `lall` is the descriptor list after the whole call, `k` / `k'` the number of
  descriptors handed out before / after this value; `fd = false` inside a variant, where txdbus passes no
  descriptor list (an `h` there cannot be marshalled).
* `fromSpec fds v t` - the Python value that decoding the spec value yields: plain ints, bools, floats,
  plain strs, lists for arrays, structs and dict entries, a dict for an array of dict entries (built
  with Python's insertion semantics), the content for a variant, `fds[i]` (or `None`) for a descriptor.
* `Val.depth` - nesting depth (the step budget the code model needs).
-/
namespace Txdbus

mutual
def Val.depth : Val → Nat
  | .variant _ v => v.depth + 1
  | .array vs => depthAll vs + 1
  | .struct vs => depthAll vs + 1
  | .entry k v => max k.depth v.depth + 1
  | _ => 1
def depthAll : List Val → Nat
  | [] => 0
  | v :: vs => max v.depth (depthAll vs)
end

def endianOf (le : Bool) : Endian := if le then .little else .big

namespace Code

/-- The `oobFDs` argument when `k` descriptors have been handed out (`fd = false`: `None`). -/
def fdsArg (fd : Bool) (lall : List PyVal) (k : Nat) : Fds := if fd then some (lall.take k) else none

/-- A Python value of the class that the basic type `c` asks for (all basic types but `h`) denotes a
basic spec value: an `int` (plain or one of the typed wrappers, not a `bool`) for the integer types, a
`bool` for `b`, a `float` for `d`, a `str` (plain or wrapped) for `s` / `o` / `g` - for `o` one that
`validateObjectPath` accepts, for `g` an ASCII one. -/
def RepBasic (c : Basic) (v : Val) (pv : PyVal) : Prop :=
  match c, v with
  | .h, _ => False
  | .b, .bool b => pv = .bool b
  | .d, .double bits => pv = .float bits
  | .s, .str bs => ∃ cls cs, pv = .str cls cs ∧ bs = utf8Encode cs
  | .o, .str bs => ∃ cls cs, pv = .str cls cs ∧ bs = utf8Encode cs ∧ Valid.validateObjectPath cs = .accept
  | .g, .str bs => ∃ cls cs, pv = .str cls cs ∧ asciiEncode cs = some bs
  | .b, _ => False
  | .d, _ => False
  | .s, _ => False
  | .o, _ => False
  | .g, _ => False
  | _, .int n => ∃ cls, pv = .int cls n
  | _, _ => False

mutual
/-- The documented normalisation of a Python value: typed wrappers as their plain value, tuples and
objects declaring their field order as lists, byte arrays as lists of integers. -/
def plain : PyVal → PyVal
  | .int _ n => .int .plain n
  | .str _ s => .str .plain s
  | .bytearray bs => .list (bs.map fun b => .int .plain b.toNat)
  | .list xs => .list (plainList xs)
  | .tuple xs => .list (plainList xs)
  | .dict kvs => .dict (plainPairs kvs)
  | .obj _ _ fields => .list (plainList fields)
  | v => v
def plainList : List PyVal → List PyVal
  | [] => []
  | x :: xs => plain x :: plainList xs
def plainPairs : List (PyVal × PyVal) → List (PyVal × PyVal)
  | [] => []
  | (k, v) :: kvs => (plain k, plain v) :: plainPairs kvs
end

/-- An array of dict entries is given as a `dict`, every other array as a list, tuple or bytearray. -/
def arrayShape (el : Ty) (pv : PyVal) : Prop :=
  match el, pv with
  | .dict _ _, .dict _ => True
  | .dict _ _, _ => False
  | _, .list _ => True
  | _, .tuple _ => True
  | _, .bytearray _ => True
  | _, _ => False

/-- A struct (or one dict entry) is given as a list, a tuple or an object with `dbusOrder`. -/
def structShape : PyVal → Prop
  | .list _ => True
  | .tuple _ => True
  | .obj _ _ _ => True
  | _ => False

/-- Scalars: a descriptor denotes its index, everything else by `RepBasic`. -/
def RepScalar (lall : List PyVal) (v : Val) (fd : Bool) (t : Ty) (pv : PyVal) (k k' : Nat) : Prop :=
  ∃ c, t = .basic c ∧
    ((c = .h ∧ fd = true ∧ v = .int k ∧ k' = k + 1 ∧ lall[k]? = some pv ∧ plain pv = pv) ∨
     (c ≠ .h ∧ RepBasic c v pv ∧ k' = k))

mutual
def Rep (lall : List PyVal) : Val → Bool → Ty → PyVal → Nat → Nat → Prop
  | .int n, fd, t, pv, k, k' => RepScalar lall (.int n) fd t pv k k'
  | .bool b, fd, t, pv, k, k' => RepScalar lall (.bool b) fd t pv k k'
  | .double b, fd, t, pv, k, k' => RepScalar lall (.double b) fd t pv k k'
  | .str b, fd, t, pv, k, k' => RepScalar lall (.str b) fd t pv k k'
  | .variant t' v', _, t, pv, k, k' =>
    t = .variant ∧ sigFromPy pv = .ok t'.render ∧ Rep lall v' false t' pv k k ∧ k' = k
  | .array vs, fd, t, pv, k, k' =>
    ∃ el items, t = .array el ∧ arrayShape el pv ∧ arrayItems pv = .ok items ∧ RepElems lall vs fd el items k k'
  | .struct vs, fd, t, pv, k, k' =>
    ∃ fs items, t = .struct fs ∧ structShape pv ∧ topItems pv = .ok items ∧ RepFields lall vs fd fs items k k'
  | .entry a b, fd, t, pv, k, k' =>
    ∃ kt vt x y k1, t = .dict kt vt ∧ structShape pv ∧ topItems pv = .ok [x, y] ∧
      Rep lall a fd kt x k k1 ∧ Rep lall b fd vt y k1 k'
def RepElems (lall : List PyVal) : List Val → Bool → Ty → List PyVal → Nat → Nat → Prop
  | [], _, _, items, k, k' => items = [] ∧ k' = k
  | v :: vs, fd, el, items, k, k' =>
    ∃ x xs k1, items = x :: xs ∧ Rep lall v fd el x k k1 ∧ RepElems lall vs fd el xs k1 k'
def RepFields (lall : List PyVal) : List Val → Bool → List Ty → List PyVal → Nat → Nat → Prop
  | [], _, fs, items, k, k' => fs = [] ∧ items = [] ∧ k' = k
  | v :: vs, fd, fs, items, k, k' =>
    ∃ t ts x xs k1, fs = t :: ts ∧ items = x :: xs ∧ Rep lall v fd t x k k1 ∧ RepFields lall vs fd ts xs k1 k'
end

/-- The dict `unmarshal_array` builds from decoded `[key, value]` lists. -/
def dictOf (values : List PyVal) : Option PyVal :=
  match buildDict values [] with
  | .ok d => some (.dict (d.map fun x => (x.2.1, x.2.2)))
  | .error _ => none

mutual
def fromSpec (fds : Fds) : Val → Ty → Option PyVal
  | .int n, t =>
    match t with
    | .basic .h => fds.map fun l => (l[n.toNat]?).getD .none
    | _ => some (.int .plain n)
  | .bool b, _ => some (.bool b)
  | .double bits, _ => some (.float bits)
  | .str bs, t =>
    match t with
    | .basic .g => (asciiDecode bs).map (.str .plain)
    | _ => (utf8Decode bs).map (.str .plain)
  | .variant t' v', _ => fromSpec fds v' t'
  | .array vs, t =>
    match t with
    | .array (.dict kt vt) => (fromSpecList fds vs (.dict kt vt)).bind dictOf
    | .array el => (fromSpecList fds vs el).map .list
    | _ => none
  | .struct vs, t =>
    match t with
    | .struct fs => (fromSpecFields fds vs fs).map .list
    | _ => none
  | .entry a b, t =>
    match t with
    | .dict kt vt =>
      match fromSpec fds a kt, fromSpec fds b vt with
      | some x, some y => some (.list [x, y])
      | _, _ => none
    | _ => none
def fromSpecList (fds : Fds) : List Val → Ty → Option (List PyVal)
  | [], _ => some []
  | v :: vs, el =>
    match fromSpec fds v el, fromSpecList fds vs el with
    | some x, some xs => some (x :: xs)
    | _, _ => none
def fromSpecFields (fds : Fds) : List Val → List Ty → Option (List PyVal)
  | [], [] => some []
  | v :: vs, t :: ts =>
    match fromSpec fds v t, fromSpecFields fds vs ts with
    | some x, some xs => some (x :: xs)
    | _, _ => none
  | _, _ => none
end

end Code
end Txdbus
