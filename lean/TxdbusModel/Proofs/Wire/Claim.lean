import TxdbusModel.Wire.Claim
import TxdbusModel.Proofs.Wire.Infer
/-
Inside the claim, a value conforms to the type inferred for it.  Core Lean only.
-/
namespace Txdbus

theorem inferLastKey_of_all (t : Ty) : ∀ kvs : List (PyVal × PyVal), kvs ≠ [] →
    (∀ kv, kv ∈ kvs → inferTy kv.1 = some t) → inferLastKey kvs = some t
  | [], hne, _ => absurd rfl hne
  | [(k, v)], _, h => by simpa [inferLastKey] using h (k, v) (by simp)
  | _ :: p :: rest, _, h => by
      have := inferLastKey_of_all t (p :: rest) (by simp) (fun kv hkv => h kv (by simp [List.mem_cons] at hkv ⊢; exact Or.inr hkv))
      simpa [inferLastKey] using this

theorem inferTys_index : ∀ (xs : List PyVal) (ts : List Ty), inferTys xs = some ts →
    xs.length = ts.length ∧ ∀ i (h1 : i < xs.length) (h2 : i < ts.length), inferTy xs[i] = some ts[i]
  | [], ts, h => by
      simp [inferTys] at h; subst h; simp
  | x :: xs, ts, h => by
      simp only [inferTys] at h
      cases hx : inferTy x with
      | none => simp [hx] at h
      | some t =>
        cases hxs : inferTys xs with
        | none => simp [hx, hxs] at h
        | some ts' =>
          simp [hx, hxs] at h
          subst h
          obtain ⟨hl, hi⟩ := inferTys_index xs ts' hxs
          refine ⟨by simp [hl], ?_⟩
          intro i h1 h2
          cases i with
          | zero => simpa using hx
          | succ j => simpa using hi j (by simpa using h1) (by simpa using h2)

theorem inferTys_of_all : ∀ (xs : List PyVal), (∀ e, e ∈ xs → ∃ t, inferTy e = some t) →
    ∃ ts, inferTys xs = some ts
  | [], _ => ⟨[], by simp [inferTys]⟩
  | x :: xs, h => by
      obtain ⟨t, ht⟩ := h x (by simp)
      obtain ⟨ts, hts⟩ := inferTys_of_all xs (fun e he => h e (by simp [he]))
      exact ⟨t :: ts, by simp [inferTys, ht, hts]⟩

/-- Inside the claim the value conforms to the type inferred for it. -/
theorem claim_travels (okPath : List Char → Bool) (v : PyVal) (h : InClaim okPath v) :
    ∃ t, inferTy v = some t ∧ Travels okPath v t := by
  induction h with
  | scalar v c _ ht hf => exact ⟨_, ht, .basic v c hf⟩
  | bytearray bs => exact ⟨.array (.basic .y), by simp [inferTy], .bytearray bs⟩
  | listEmpty => exact ⟨.array .variant, by simp [inferTy], .list [] _ (by simp [Ty.notEntry]) (by simp)⟩
  | listSame x xs hsame _ _ hshare ihx ihxs =>
      obtain ⟨el, hel, htx⟩ := ihx
      refine ⟨.array el, by simp [inferTy, hsame, hel], .list _ _ (inferTy_notEntry x el hel) ?_⟩
      intro e he
      rcases List.mem_cons.mp he with rfl | he
      · exact htx
      · obtain ⟨t, ht, htr⟩ := ihxs e he
        rw [hshare e he, hel] at ht
        cases ht
        exact htr
  | listMixed x xs hmixed _ _ ihx ihxs =>
      refine ⟨.array .variant, by simp [inferTy, hmixed], .list _ _ (by simp [Ty.notEntry]) ?_⟩
      intro e he
      rcases List.mem_cons.mp he with rfl | he
      · obtain ⟨t, ht, htr⟩ := ihx
        exact .variant _ t ht htr
      · obtain ⟨t, ht, htr⟩ := ihxs e he
        exact .variant _ t ht htr
  | tuple xs hne _ ih =>
      obtain ⟨ts, hts⟩ := inferTys_of_all xs (fun e he => by obtain ⟨t, ht, _⟩ := ih e he; exact ⟨t, ht⟩)
      obtain ⟨hl, hi⟩ := inferTys_index xs ts hts
      cases xs with
      | nil => exact absurd rfl hne
      | cons x xs' =>
        refine ⟨.struct ts, by simp [inferTy, hts], .tuple _ ts hl ?_⟩
        intro i h1 h2
        obtain ⟨t, ht, htr⟩ := ih (x :: xs')[i] (List.getElem_mem h1)
        rw [hi i h1 h2] at ht
        cases ht
        exact htr
  | dictEmpty => exact ⟨.array (.dict (.basic .s) .variant), by simp [inferTy], .dict [] _ _ (by simp) (by simp)⟩
  | dictSame k v rest kc hsame hkt hkf _ _ hshare ihv ihrest =>
      obtain ⟨vt, hvt, htv⟩ := ihv
      have hk := inferLastKey_of_all (.basic kc) ((k, v) :: rest) (by simp) hkt
      refine ⟨.array (.dict (.basic kc) vt), by simp [inferTy, hk, hsame, hvt], .dict _ _ _ ?_ ?_⟩
      · intro kv hkv
        exact .basic _ _ (hkf kv hkv)
      · intro kv hkv
        rcases List.mem_cons.mp hkv with rfl | hkv
        · exact htv
        · obtain ⟨t, ht, htr⟩ := ihrest kv hkv
          rw [hshare kv hkv, hvt] at ht
          cases ht
          exact htr
  | dictMixed k v rest kc hmixed hkt hkf _ _ ihv ihrest =>
      have hk := inferLastKey_of_all (.basic kc) ((k, v) :: rest) (by simp) hkt
      refine ⟨.array (.dict (.basic kc) .variant), by simp [inferTy, hk, hmixed], .dict _ _ _ ?_ ?_⟩
      · intro kv hkv
        exact .basic _ _ (hkf kv hkv)
      · intro kv hkv
        rcases List.mem_cons.mp hkv with rfl | hkv
        · obtain ⟨t, ht, htr⟩ := ihv
          exact .variant _ t ht htr
        · obtain ⟨t, ht, htr⟩ := ihrest kv hkv
          exact .variant _ t ht htr

end Txdbus
