import TxdbusModel.Proofs.Wire.Rep
import TxdbusModel.Wire.ToSpec
/-
`Conf` - conformance of a Python value to a DBus type and the spec value it denotes, second formulation
(added after review; `Rep` of Rep.lean is kept unchanged because other properties import it):

* stated WITHOUT the code model: the items of a container are read off the Python value by pattern
  matching (`arrayElems`, `structFields`; a `dict` denotes the array of its items `(k, v)` IN ITERATION
  ORDER), not through `Code.arrayItems` / `Code.topItems`; the only model it mentions is `sigFromPy`
  (what "the signature of its content" means for a variant is C19's inference model);
* the typed wrapper `Boolean` is a conforming value for `b` (`Boolean(0)` / `Boolean(1)`), and its plain
  value is the `bool` (`plainB`); in exchange a `Boolean` instance is not accepted for the integer types
  (`Rep` accepts it there and not for `b`): together the two relations cover every wrapper at every type.
-/
namespace Txdbus
namespace Code

/-- The elements of an array given as a list, a tuple or a bytearray (its bytes as integers). -/
def arrayElems : PyVal → Option (List PyVal)
  | .list xs => some xs
  | .tuple xs => some xs
  | .bytearray bs => some (bs.map fun b => .int .plain b.toNat)
  | _ => none

/-- The fields of a struct given as a list, a tuple or an object declaring its field order. -/
def structFields : PyVal → Option (List PyVal)
  | .list xs => some xs
  | .tuple xs => some xs
  | .obj _ _ fields => some fields
  | _ => none

/-- The items of a dict, in iteration order, each as the pair `(key, value)`. -/
def dictItems (kvs : List (PyVal × PyVal)) : List PyVal := kvs.map fun kv => .tuple [kv.1, kv.2]

def ConfBasic (c : Basic) (v : Val) (pv : PyVal) : Prop :=
  match c, v with
  | .h, _ => False
  | .b, .bool b => pv = .bool b ∨ pv = .int .boolean (if b then 1 else 0)
  | .d, .double bits => pv = .float bits
  | .s, .str bs => ∃ cls cs, pv = .str cls cs ∧ bs = utf8Encode cs
  | .o, .str bs => ∃ cls cs, pv = .str cls cs ∧ bs = utf8Encode cs ∧ Valid.validateObjectPath cs = .accept
  | .g, .str bs => ∃ cls cs, pv = .str cls cs ∧ asciiEncode cs = some bs
  | .b, _ => False
  | .d, _ => False
  | .s, _ => False
  | .o, _ => False
  | .g, _ => False
  | _, .int n => ∃ cls, cls ≠ .boolean ∧ pv = .int cls n
  | _, _ => False

def ConfScalar (lall : List PyVal) (v : Val) (fd : Bool) (t : Ty) (pv : PyVal) (k k' : Nat) : Prop :=
  ∃ c, t = .basic c ∧
    ((c = .h ∧ fd = true ∧ v = .int k ∧ k' = k + 1 ∧ lall[k]? = some pv ∧ plainB pv = pv) ∨
     (c ≠ .h ∧ ConfBasic c v pv ∧ k' = k))

mutual
def Conf (lall : List PyVal) : Val → Bool → Ty → PyVal → Nat → Nat → Prop
  | .int n, fd, t, pv, k, k' => ConfScalar lall (.int n) fd t pv k k'
  | .bool b, fd, t, pv, k, k' => ConfScalar lall (.bool b) fd t pv k k'
  | .double b, fd, t, pv, k, k' => ConfScalar lall (.double b) fd t pv k k'
  | .str b, fd, t, pv, k, k' => ConfScalar lall (.str b) fd t pv k k'
  | .variant t' v', _, t, pv, k, k' =>
    t = .variant ∧ sigFromPy pv = .ok t'.render ∧ Conf lall v' false t' pv k k ∧ k' = k
  | .array vs, fd, t, pv, k, k' =>
    ∃ el, t = .array el ∧
      ((∃ kt vt kvs, el = .dict kt vt ∧ pv = .dict kvs ∧ ConfElems lall vs fd el (dictItems kvs) k k') ∨
       ((∀ kt vt, el ≠ .dict kt vt) ∧ ∃ xs, arrayElems pv = some xs ∧ ConfElems lall vs fd el xs k k'))
  | .struct vs, fd, t, pv, k, k' =>
    ∃ fs xs, t = .struct fs ∧ structFields pv = some xs ∧ ConfFields lall vs fd fs xs k k'
  | .entry a b, fd, t, pv, k, k' =>
    ∃ kt vt x y k1, t = .dict kt vt ∧ structFields pv = some [x, y] ∧
      Conf lall a fd kt x k k1 ∧ Conf lall b fd vt y k1 k'
def ConfElems (lall : List PyVal) : List Val → Bool → Ty → List PyVal → Nat → Nat → Prop
  | [], _, _, items, k, k' => items = [] ∧ k' = k
  | v :: vs, fd, el, items, k, k' =>
    ∃ x xs k1, items = x :: xs ∧ Conf lall v fd el x k k1 ∧ ConfElems lall vs fd el xs k1 k'
def ConfFields (lall : List PyVal) : List Val → Bool → List Ty → List PyVal → Nat → Nat → Prop
  | [], _, fs, items, k, k' => fs = [] ∧ items = [] ∧ k' = k
  | v :: vs, fd, fs, items, k, k' =>
    ∃ t ts x xs k1, fs = t :: ts ∧ items = x :: xs ∧ Conf lall v fd t x k k1 ∧ ConfFields lall vs fd ts xs k1 k'
end

end Code
end Txdbus
