import TxdbusModel.Proofs.Wire.Cost
import TxdbusModel.Proofs.Wire.Utf8
/-
Second induction over the cost model (property C05): the `work`, `depth` and `chars` counters.

* `work`  - with `S = (L+1)^2` (the most `genCompleteTypes` can touch to produce one piece of a signature of length <= L)
            and `W = S + L + 1` (`workUnit L`): `work <= W * steps + bytes passed inside the data (+ S on failure)`.
            Slices of the data (string / signature reads) are paid by the offset advance; every invocation brings `W`:
            `1 + |ct|` for itself, `S` for the scan that produced its piece.
* `depth` - every nesting level costs a signature character or a data byte: `depth <= |sig| + bytes passed`.
* `chars` - decoded strings are disjoint slices of the data: `chars <= bytes passed`.
Core Lean only.
-/
open Txdbus Txdbus.Cost
open Txdbus.Gen.C05Wire (UKind)
namespace Txdbus.Cost

/-! ### The generator's cost -/

theorem findEnd_lt (b e : Char) : ∀ (cs : List Char) (d x : Nat), findEnd b e d cs = some x → x < cs.length
  | [], d, x, h => by simp [findEnd] at h
  | c :: cs, d, x, h => by
    unfold findEnd at h
    split at h
    · cases hr : findEnd b e (d + 1) cs with
      | none => simp [hr] at h
      | some y => simp [hr] at h; have := findEnd_lt b e cs _ _ hr; simp; omega
    · split at h
      · split at h
        · cases h; simp
        · cases hr : findEnd b e (d - 1) cs with
          | none => simp [hr] at h
          | some y => simp [hr] at h; have := findEnd_lt b e cs _ _ hr; simp; omega
      · cases hr : findEnd b e d cs with
        | none => simp [hr] at h
        | some y => simp [hr] at h; have := findEnd_lt b e cs _ _ hr; simp; omega

theorem sq_succ (n : Nat) : (n + 1 + 1) * (n + 1 + 1) = (n + 1) * (n + 1) + 2 * n + 3 := by
  simp only [Nat.add_mul, Nat.mul_add]; omega

theorem firstCost_le : ∀ s : List Char, firstCost s ≤ (s.length + 1) * (s.length + 1)
  | [] => by simp [firstCost]
  | c :: cs => by
    have hsq := sq_succ cs.length
    have hpos : 0 ≤ (cs.length + 1) * (cs.length + 1) := Nat.zero_le _
    have hge : cs.length + 1 ≤ (cs.length + 1) * (cs.length + 1) := Nat.le_mul_of_pos_left _ (by omega)
    unfold firstCost
    simp only [List.length_cons]
    split
    · split
      · rename_i x hx
        have := findEnd_lt _ _ _ _ _ hx
        omega
      · omega
    · split
      · split
        · rename_i x hx
          have := findEnd_lt _ _ _ _ _ hx
          omega
        · omega
      · split
        · have ih := firstCost_le cs
          split
          · rename_i ct rest hft
            have := (firstType_split _ _ _ hft).1
            show cs.length + firstCost cs + (ct.length + 1) ≤ (cs.length + 1 + 1) * (cs.length + 1 + 1)
            omega
          · omega
        · omega

theorem sq_mono {n L : Nat} (h : n ≤ L) : (n + 1) * (n + 1) ≤ (L + 1) * (L + 1) :=
  Nat.mul_le_mul (by omega) (by omega)

/-! ### decoded strings are no longer than the bytes they come from -/

theorem utf8EncodeChar_pos (c : Char) : 1 ≤ (utf8EncodeChar c).length := by
  unfold utf8EncodeChar
  simp only []
  split
  · simp
  · split
    · simp
    · split <;> simp

theorem utf8Encode_length_ge : ∀ cs : List Char, cs.length ≤ (utf8Encode cs).length
  | [] => by simp [utf8Encode]
  | c :: cs => by
    have := utf8EncodeChar_pos c
    have := utf8Encode_length_ge cs
    simp [utf8Encode]; omega

theorem utf8Decode_length_le {bs : List UInt8} {cs : List Char} (h : utf8Decode bs = some cs) :
    cs.length ≤ bs.length := by
  have := utf8Encode_decode h
  rw [← this]
  exact utf8Encode_length_ge cs


/-! ### The invariant -/

/-- `S`, `W`: the scan constant and the per-invocation constant; `sOk` / `sErr`: where the scan reserve sits
(`one`: `S` spare on success; `seq`: `S` extra on failure; `loop`: none). -/
structure InvW (data : List UInt8) (S W n off sOk sErr : Nat) (r : Out) : Prop where
  mono : r.st = .ok → off ≤ r.off
  wOk : r.st = .ok → r.work + sOk + (data.length - r.off) ≤ W * r.steps + (data.length - off)
  wErr : ∀ e, r.st = .err e → r.work ≤ W * r.steps + (data.length - off) + sErr
  dOk : r.st = .ok → r.depth + (data.length - r.off) ≤ n + (data.length - off)
  dErr : ∀ e, r.st = .err e → r.depth ≤ n + (data.length - off)
  cOk : r.st = .ok → r.chars + (data.length - r.off) ≤ data.length - off

theorem invW_fail (data : List UInt8) (S W n off sOk sErr : Nat) (e : Err) (o s d fr w : Nat)
    (hw : w ≤ W * s + (data.length - off) + sErr) (hd : d ≤ n + (data.length - off)) :
    InvW data S W n off sOk sErr (fail e o s d fr w) := by
  constructor <;> simp [fail] <;> omega

theorem invW_noFuel (data : List UInt8) (S W n off sOk sErr : Nat) : InvW data S W n off sOk sErr noFuel := by
  constructor <;> simp [noFuel]

def QOne (T : Tables) (fds : Option (List Nat)) (data : List UInt8) (le : Bool) (L S W f : Nat) : Prop :=
  ∀ ct off, ct.length ≤ L → InvW data S W ct.length off S 0 (one T true fds data le f ct off)
def QSeq (T : Tables) (fds : Option (List Nat)) (data : List UInt8) (le : Bool) (L S W f : Nat) : Prop :=
  ∀ sig off, sig.length ≤ L → InvW data S W sig.length off 0 S (seq T true fds data le f sig off)
def QLoop (T : Tables) (fds : Option (List Nat)) (data : List UInt8) (le : Bool) (L S W f : Nat) : Prop :=
  ∀ tsig a off endOff, tsig.length ≤ L → InvW data S W tsig.length off 0 0 (loop T true fds data le f tsig a off endOff)

/-- a reader that succeeded: one invocation, `1 + |ct| + sl` work where the `sl` sliced bytes lie inside the data
and are passed, `cs` decoded characters out of them. -/
theorem invW_leaf (data : List UInt8) (L S W n off : Nat) (hW : W = S + L + 1) (r : Out) (sl : Nat)
    (hn1 : 1 ≤ n) (hnL : n ≤ L) (hst : r.st = .ok) (hsteps : r.steps = 1) (hdepth : r.depth = 1)
    (hwork : r.work = 1 + n + sl) (hoff : off ≤ r.off) (hin : (data.length - r.off) + sl ≤ data.length - off)
    (hch : r.chars ≤ sl) : InvW data S W n off S 0 r := by
  have hw1 : W * r.steps = W := by rw [hsteps, Nat.mul_one]
  refine ⟨?_, ?_, ?_, ?_, ?_, ?_⟩
  · intro _; exact hoff
  · intro _; omega
  · intro e he; rw [hst] at he; cases he
  · intro _; omega
  · intro e he; rw [hst] at he; cases he
  · intro _; omega


theorem oneW_step (T : Tables) (fds : Option (List Nat)) (data : List UInt8) (le : Bool) (L S W : Nat)
    (hL : 255 ≤ L) (hW : W = S + L + 1) (f : Nat)
    (hSeq : QSeq T fds data le L S W f) (hLoop : QLoop T fds data le L S W f) : QOne T fds data le L S W (f + 1) := by
  intro ct off hct
  cases ct with
  | nil => rw [one]; exact invW_fail _ _ _ _ _ _ _ _ _ _ _ _ _ (by omega) (by omega)
  | cons c tl =>
    have hn : 1 ≤ (c :: tl).length := by simp
    have hW1 : W * 1 = W := Nat.mul_one W
    rw [one]
    cases hk : T.kindOf c with
    | none => exact invW_fail _ _ _ _ _ _ _ _ _ _ _ _ _ (by omega) (by omega)
    | some k =>
      cases k with
      | fixed need adv cls =>
        simp only []
        by_cases h : off + need ≤ data.length
        · simp only [h, if_true]
          split
          · split
            · exact invW_fail _ _ _ _ _ _ _ _ _ _ _ _ _ (by omega) (by omega)
            · exact invW_leaf data L S W _ off hW _ 0 hn hct rfl rfl rfl rfl (by simp) (by simp <;> omega) (by simp)
          · exact invW_leaf data L S W _ off hW _ 0 hn hct rfl rfl rfl rfl (by simp) (by simp <;> omega) (by simp)
        · simp only [h, if_false]
          exact invW_fail _ _ _ _ _ _ _ _ _ _ _ _ _ (by omega) (by omega)
      | string =>
        simp only []
        by_cases h : off + 4 ≤ data.length
        · simp only [h, if_true]
          have hsl := slice_length_le data (off + 4) (off + 4 + uval le (slice data off (off + 4)))
          have hsl' := slice_length_le' data (off + 4) (off + 4 + uval le (slice data off (off + 4)))
          split
          · exact invW_fail _ _ _ _ _ _ _ _ _ _ _ _ _ (by omega) (by omega)
          · rename_i str hdec
            have hch := utf8Decode_length_le hdec
            exact invW_leaf data L S W _ off hW _ _ hn hct rfl rfl rfl rfl (by simp <;> omega) (by simp <;> omega) (by simpa using hch)
        · simp only [h, if_false]
          exact invW_fail _ _ _ _ _ _ _ _ _ _ _ _ _ (by omega) (by omega)
      | signature =>
        simp only []
        by_cases h : off + 1 ≤ data.length
        · simp only [h, if_true]
          have hsl := slice_length_le data (off + 1) (off + 1 + uval le (slice data off (off + 1)))
          have hsl' := slice_length_le' data (off + 1) (off + 1 + uval le (slice data off (off + 1)))
          split
          · exact invW_fail _ _ _ _ _ _ _ _ _ _ _ _ _ (by omega) (by omega)
          · rename_i str hdec
            have hch := asciiDecode_length _ _ hdec
            exact invW_leaf data L S W _ off hW _ _ hn hct rfl rfl rfl rfl (by simp <;> omega) (by simp <;> omega) (by simp <;> omega)
        · simp only [h, if_false]
          exact invW_fail _ _ _ _ _ _ _ _ _ _ _ _ _ (by omega) (by omega)
      | array =>
        simp only []
        by_cases h : off + 4 ≤ data.length
        · simp only [h, if_true]
          split
          · exact invW_fail _ _ _ _ _ _ _ _ _ _ _ _ _ (by omega) (by omega)
          · rename_i tc tl'
            split
            · exact invW_fail _ _ _ _ _ _ _ _ _ _ _ _ _ (by omega) (by omega)
            · rename_i a ha
              have hl := hLoop (tc :: tl') a (off + 4 + padLen a (off + 4))
                (off + 4 + padLen a (off + 4) + uval le (slice data off (off + 4))) (by simp at hct ⊢; omega)
              have hge : off + 4 ≤ off + 4 + padLen a (off + 4) := Nat.le_add_right _ _
              have hlen : (c :: tc :: tl').length = (tc :: tl').length + 1 := by simp
              generalize off + 4 + padLen a (off + 4) = start at *
              generalize loop T true fds data le f (tc :: tl') a start (start + uval le (slice data off (off + 4))) = r at *
              have hmul : W * (r.steps + 1) = W * r.steps + W := by rw [Nat.mul_add, Nat.mul_one]
              generalize (c :: tc :: tl').length = n at *
              generalize (tc :: tl').length = n' at *
              split
              · rename_i hok
                have hm := hl.mono hok
                have hw := hl.wOk hok
                have hd := hl.dOk hok
                have hc := hl.cOk hok
                have hokres : ∀ (v : List Shape),
                    InvW data S W n off S 0
                      { st := .ok, off := r.off, steps := r.steps + 1, depth := r.depth + 1, frames := r.frames,
                        size := r.size + 1, vals := v, work := r.work + (1 + n), chars := r.chars } := by
                  intro v
                  refine ⟨?_, ?_, ?_, ?_, ?_, ?_⟩
                  · intro _; simp only; omega
                  · intro _; simp only; omega
                  · intro e he; simp at he
                  · intro _; simp only; omega
                  · intro e he; simp at he
                  · intro _; simp only; omega
                split
                · split
                  · exact invW_fail _ _ _ _ _ _ _ _ _ _ _ _ _ (by omega) (by omega)
                  · exact hokres _
                · exact hokres _
              · rename_i hne
                refine ⟨?_, ?_, ?_, ?_, ?_, ?_⟩
                · intro hh; simp only at hh; exact absurd hh (by simpa using hne)
                · intro hh; simp only at hh; exact absurd hh (by simpa using hne)
                · intro e he; have := hl.wErr e he; simp only at this ⊢; omega
                · intro hh; simp only at hh; exact absurd hh (by simpa using hne)
                · intro e he; have := hl.dErr e he; simp only at this ⊢; omega
                · intro hh; simp only at hh; exact absurd hh (by simpa using hne)
        · simp only [h, if_false]
          exact invW_fail _ _ _ _ _ _ _ _ _ _ _ _ _ (by omega) (by omega)
      | struct =>
        simp only []
        have hdl : tl.dropLast.length + 1 ≤ (c :: tl).length := by
          simp [List.length_dropLast]
        have hi := hSeq tl.dropLast off (by omega)
        generalize seq T true fds data le f tl.dropLast off = r at hi ⊢
        have hmul : W * (r.steps + 1) = W * r.steps + W := by rw [Nat.mul_add, Nat.mul_one]
        generalize (c :: tl).length = n at *
        generalize tl.dropLast.length = n' at *
        refine ⟨?_, ?_, ?_, ?_, ?_, ?_⟩
        · intro h; exact hi.mono h
        · intro h; have := hi.wOk h; simp only at this ⊢; omega
        · intro e h; have := hi.wErr e h; simp only at this ⊢; omega
        · intro h; have := hi.dOk h; simp only at this ⊢; omega
        · intro e h; have := hi.dErr e h; simp only at this ⊢; omega
        · intro h; have := hi.cOk h; simp only at this ⊢; omega
      | variant =>
        simp only []
        by_cases h : off + 1 ≤ data.length
        · simp only [h, if_true]
          have hsl := slice_length_le data (off + 1) (off + 1 + uval le (slice data off (off + 1)))
          have hsl' := slice_length_le' data (off + 1) (off + 1 + uval le (slice data off (off + 1)))
          have hb := uval_byte_lt le (slice data off (off + 1)) (by have := slice_length_le' data off (off + 1); omega)
          split
          · exact invW_fail _ _ _ _ _ _ _ _ _ _ _ _ _ (by omega) (by omega)
          · rename_i vsig heq
            have hvl := asciiDecode_length _ _ heq
            generalize uval le (slice data off (off + 1)) = slen at *
            generalize (slice data (off + 1) (off + 1 + slen)).length = sl at *
            split
            · exact invW_fail _ _ _ _ _ _ _ _ _ _ _ _ _ (by omega) (by omega)
            · rename_i vc vt
              split
              · exact invW_fail _ _ _ _ _ _ _ _ _ _ _ _ _ (by omega) (by omega)
              · rename_i a _
                have hvL : (vc :: vt).length ≤ L := by omega
                have hi := hSeq (vc :: vt) (off + 1 + slen + 1 + padLen a (off + 1 + slen + 1)) hvL
                have hge : off + 1 + slen + 1 ≤ off + 1 + slen + 1 + padLen a (off + 1 + slen + 1) := Nat.le_add_right _ _
                generalize off + 1 + slen + 1 + padLen a (off + 1 + slen + 1) = off2 at *
                generalize seq T true fds data le f (vc :: vt) off2 = r at *
                have hmul : W * (r.steps + 1) = W * r.steps + W := by rw [Nat.mul_add, Nat.mul_one]
                generalize (c :: tl).length = n at *
                generalize (vc :: vt).length = nv at *
                split
                · rename_i hok
                  have hm := hi.mono hok
                  have hw := hi.wOk hok
                  have hd := hi.dOk hok
                  have hc := hi.cOk hok
                  split
                  · exact invW_fail _ _ _ _ _ _ _ _ _ _ _ _ _ (by omega) (by omega)
                  · refine ⟨?_, ?_, ?_, ?_, ?_, ?_⟩
                    · intro _; simp only; omega
                    · intro _; simp only; omega
                    · intro e he; simp at he
                    · intro _; simp only; omega
                    · intro e he; simp at he
                    · intro _; simp only; omega
                · rename_i hne
                  refine ⟨?_, ?_, ?_, ?_, ?_, ?_⟩
                  · intro hh; simp only at hh; exact absurd hh (by simpa using hne)
                  · intro hh; simp only at hh; exact absurd hh (by simpa using hne)
                  · intro e he; have := hi.wErr e he; simp only at this ⊢; omega
                  · intro hh; simp only at hh; exact absurd hh (by simpa using hne)
                  · intro e he; have := hi.dErr e he; simp only at this ⊢; omega
                  · intro hh; simp only at hh; exact absurd hh (by simpa using hne)
        · simp only [h, if_false]
          exact invW_fail _ _ _ _ _ _ _ _ _ _ _ _ _ (by omega) (by omega)

theorem seqW_step (T : Tables) (fds : Option (List Nat)) (data : List UInt8) (le : Bool) (L S W : Nat)
    (hS : S = (L + 1) * (L + 1)) (f : Nat)
    (hOne : QOne T fds data le L S W f) (hSeq : QSeq T fds data le L S W f) : QSeq T fds data le L S W (f + 1) := by
  intro sig off hsig
  cases sig with
  | nil =>
    rw [seq]
    refine ⟨?_, ?_, ?_, ?_, ?_, ?_⟩
    · intro _; exact Nat.le_refl _
    · intro _; simp
    · intro e he; simp at he
    · intro _; simp
    · intro e he; simp at he
    · intro _; simp
  | cons c0 cs0 =>
    rw [seq]
    simp only []
    have hfc : firstCost (c0 :: cs0) ≤ S := by
      rw [hS]; exact Nat.le_trans (firstCost_le _) (sq_mono hsig)
    have hse : scanErr (c0 :: cs0) ≤ S := by
      rw [hS]; exact sq_mono hsig
    generalize firstCost (c0 :: cs0) = fc at *
    generalize scanErr (c0 :: cs0) = se at *
    split
    · exact invW_fail _ _ _ _ _ _ _ _ _ _ _ _ _ (by omega) (by omega)
    · rename_i ct rest hft
      obtain ⟨hlen, hct1⟩ := firstType_split _ _ _ hft
      generalize (c0 :: cs0).length = n at *
      split
      · exact invW_fail _ _ _ _ _ _ _ _ _ _ _ _ _ (by omega) (by omega)
      · rename_i c ctl
        split
        · exact invW_fail _ _ _ _ _ _ _ _ _ _ _ _ _ (by omega) (by omega)
        · rename_i a ha
          have hi1 := hOne (c :: ctl) (off + padLen a off) (by omega)
          have hpge : off ≤ off + padLen a off := Nat.le_add_right _ _
          generalize off + padLen a off = p at *
          generalize one T true fds data le f (c :: ctl) p = r1 at *
          generalize (c :: ctl).length = n1 at *
          split
          · rename_i hok1
            have hm1 := hi1.mono hok1
            have hw1 := hi1.wOk hok1
            have hd1 := hi1.dOk hok1
            have hc1 := hi1.cOk hok1
            have hi2 := hSeq rest r1.off (by omega)
            generalize seq T true fds data le f rest r1.off = r2 at *
            have hmul : W * (r1.steps + r2.steps) = W * r1.steps + W * r2.steps := Nat.mul_add _ _ _
            refine ⟨?_, ?_, ?_, ?_, ?_, ?_⟩
            · intro h; have := hi2.mono h; simp only; omega
            · intro h; have := hi2.wOk h; have := hi2.mono h; simp only; omega
            · intro e he; have := hi2.wErr e he; simp only; omega
            · intro h; have := hi2.dOk h; have := hi2.mono h; simp only; omega
            · intro e he; have := hi2.dErr e he; simp only; omega
            · intro h; have := hi2.cOk h; have := hi2.mono h; simp only; omega
          · rename_i hne
            refine ⟨?_, ?_, ?_, ?_, ?_, ?_⟩
            · intro hh; simp only at hh; exact absurd hh (by simpa using hne)
            · intro hh; simp only at hh; exact absurd hh (by simpa using hne)
            · intro e he; have := hi1.wErr e he; simp only at this ⊢; omega
            · intro hh; simp only at hh; exact absurd hh (by simpa using hne)
            · intro e he; have := hi1.dErr e he; simp only at this ⊢; omega
            · intro hh; simp only at hh; exact absurd hh (by simpa using hne)

theorem loopW_step (T : Tables) (fds : Option (List Nat)) (data : List UInt8) (le : Bool) (L S W : Nat) (f : Nat)
    (hOne : QOne T fds data le L S W f) (hLoop : QLoop T fds data le L S W f) : QLoop T fds data le L S W (f + 1) := by
  intro tsig a off endOff hlen
  rw [loop]
  by_cases hlt : off < endOff
  · simp only [hlt, if_true]
    have hi1 := hOne tsig (off + padLen a off) hlen
    have hpge : off ≤ off + padLen a off := Nat.le_add_right _ _
    generalize off + padLen a off = p at *
    generalize one T true fds data le f tsig p = r1 at *
    split
    · rename_i hok1
      have hm1 := hi1.mono hok1
      have hw1 := hi1.wOk hok1
      have hd1 := hi1.dOk hok1
      have hc1 := hi1.cOk hok1
      by_cases hz : r1.off = p
      · simp only [hz, Bool.true_and, beq_self_eq_true, if_true]
        exact invW_fail _ _ _ _ _ _ _ _ _ _ _ _ _ (by omega) (by omega)
      · have hz' : (true && r1.off == p) = false := by simp [hz]
        simp only [hz', Bool.false_eq_true, if_false]
        have hl2 := hLoop tsig a r1.off endOff hlen
        generalize loop T true fds data le f tsig a r1.off endOff = r2 at *
        have hmul : W * (r1.steps + r2.steps) = W * r1.steps + W * r2.steps := Nat.mul_add _ _ _
        refine ⟨?_, ?_, ?_, ?_, ?_, ?_⟩
        · intro h; have := hl2.mono h; simp only; omega
        · intro h; have := hl2.wOk h; have := hl2.mono h; simp only; omega
        · intro e he; have := hl2.wErr e he; simp only; omega
        · intro h; have := hl2.dOk h; have := hl2.mono h; simp only; omega
        · intro e he; have := hl2.dErr e he; simp only; omega
        · intro h; have := hl2.cOk h; have := hl2.mono h; simp only; omega
    · rename_i hne
      refine ⟨?_, ?_, ?_, ?_, ?_, ?_⟩
      · intro hh; simp only at hh; exact absurd hh (by simpa using hne)
      · intro hh; simp only at hh; exact absurd hh (by simpa using hne)
      · intro e he; have := hi1.wErr e he; simp only at this ⊢; omega
      · intro hh; simp only at hh; exact absurd hh (by simpa using hne)
      · intro e he; have := hi1.dErr e he; simp only at this ⊢; omega
      · intro hh; simp only at hh; exact absurd hh (by simpa using hne)
  · simp only [hlt, if_false]
    by_cases heq : off = endOff
    · simp only [heq, if_true]
      refine ⟨?_, ?_, ?_, ?_, ?_, ?_⟩
      · intro _; exact Nat.le_refl _
      · intro _; simp
      · intro e he; simp at he
      · intro _; simp
      · intro e he; simp at he
      · intro _; simp
    · simp only [heq, if_false]
      exact invW_fail _ _ _ _ _ _ _ _ _ _ _ _ _ (by omega) (by omega)

theorem all_invW (T : Tables) (fds : Option (List Nat)) (data : List UInt8) (le : Bool) (L : Nat) (hL : 255 ≤ L) :
    ∀ f, QOne T fds data le L ((L + 1) * (L + 1)) (workUnit L) f ∧ QSeq T fds data le L ((L + 1) * (L + 1)) (workUnit L) f ∧
      QLoop T fds data le L ((L + 1) * (L + 1)) (workUnit L) f
  | 0 => by
    refine ⟨?_, ?_, ?_⟩
    · intro ct off _; rw [one]; exact invW_noFuel _ _ _ _ _ _ _
    · intro sig off _; rw [seq]; exact invW_noFuel _ _ _ _ _ _ _
    · intro tsig a off endOff _; rw [loop]; exact invW_noFuel _ _ _ _ _ _ _
  | f + 1 => by
    obtain ⟨h1, h2, h3⟩ := all_invW T fds data le L hL f
    exact ⟨oneW_step T fds data le L _ _ hL rfl f h2 h3, seqW_step T fds data le L _ _ rfl f h1 h2,
      loopW_step T fds data le L _ _ f h1 h3⟩

/-! ### Consequences -/

theorem unmarshal_work (T : Tables) (chk : Bool) (fds : Option (List Nat)) (fuel : Nat) (sig : List Char) (data : List UInt8) (off : Nat) (le : Bool) :
    (unmarshal T chk fds fuel sig data off le).work = (seq T chk fds data le fuel sig off).work := rfl
theorem unmarshal_depth (T : Tables) (chk : Bool) (fds : Option (List Nat)) (fuel : Nat) (sig : List Char) (data : List UInt8) (off : Nat) (le : Bool) :
    (unmarshal T chk fds fuel sig data off le).depth = (seq T chk fds data le fuel sig off).depth := rfl
theorem unmarshal_chars (T : Tables) (chk : Bool) (fds : Option (List Nat)) (fuel : Nat) (sig : List Char) (data : List UInt8) (off : Nat) (le : Bool) :
    (unmarshal T chk fds fuel sig data off le).chars = (seq T chk fds data le fuel sig off).chars := rfl

theorem unmarshal_invW (T : Tables) (fds : Option (List Nat)) (fuel : Nat) (sig : List Char) (data : List UInt8)
    (off : Nat) (le : Bool) (L : Nat) (hL : 255 ≤ L) (hs : sig.length ≤ L) :
    InvW data ((L + 1) * (L + 1)) (workUnit L) sig.length off 0 ((L + 1) * (L + 1)) (seq T true fds data le fuel sig off) :=
  (all_invW T fds data le L hL fuel).2.1 sig off hs

theorem work_linear_gen (T : Tables) (hT : T.Good) (fds : Option (List Nat)) (sig : List Char) (data : List UInt8)
    (off : Nat) (le : Bool) (fuel : Nat) (hne : (unmarshal T true fds fuel sig data off le).st ≠ .outOfFuel) :
    (unmarshal T true fds fuel sig data off le).work ≤ workBound sig data off := by
  have hsteps := steps_linear_gen T hT fds sig data off le fuel hne
  have hi := unmarshal_invW T fds fuel sig data off le (max sig.length 255) (by omega) (by omega)
  rw [unmarshal_st] at hne
  rw [unmarshal_steps] at hsteps
  rw [unmarshal_work]
  have hmul := Nat.mul_le_mul_left (workUnit (max sig.length 255)) hsteps
  simp only [workBound]
  generalize seq T true fds data le fuel sig off = r at *
  cases hst : r.st with
  | ok => have := hi.wOk hst; omega
  | err e => have := hi.wErr e hst; omega
  | outOfFuel => exact absurd hst hne

theorem depth_bounded_gen (T : Tables) (fds : Option (List Nat)) (sig : List Char) (data : List UInt8)
    (off : Nat) (le : Bool) (fuel : Nat) (hne : (unmarshal T true fds fuel sig data off le).st ≠ .outOfFuel) :
    (unmarshal T true fds fuel sig data off le).depth ≤ sig.length + (data.length - off) := by
  have hi := unmarshal_invW T fds fuel sig data off le (max sig.length 255) (by omega) (by omega)
  rw [unmarshal_st] at hne
  rw [unmarshal_depth]
  generalize seq T true fds data le fuel sig off = r at *
  cases hst : r.st with
  | ok => have := hi.dOk hst; omega
  | err e => have := hi.dErr e hst; omega
  | outOfFuel => exact absurd hst hne

theorem chars_bounded_gen (T : Tables) (fds : Option (List Nat)) (sig : List Char) (data : List UInt8)
    (off : Nat) (le : Bool) (fuel : Nat) (hok : (unmarshal T true fds fuel sig data off le).st = .ok) :
    (unmarshal T true fds fuel sig data off le).chars ≤ data.length - off := by
  have hi := unmarshal_invW T fds fuel sig data off le (max sig.length 255) (by omega) (by omega)
  rw [unmarshal_st] at hok
  rw [unmarshal_chars]
  have := hi.cOk hok
  omega

/-! ### parseMessage (repaired code): work, depth, characters -/

theorem parseMessage_work_gen (T : Tables) (hT : T.Good) (hf : List Char) (mtypes : List Nat) (sigCode : Nat)
    (fds : Option (List Nat)) (data : List UInt8) (fuel : Nat) (hfuel : parseFuel hf data ≤ fuel) :
    (parseMessage T hf mtypes sigCode true fds fuel data).work ≤ parseWorkBound hf data ∧
    (parseMessage T hf mtypes sigCode true fds fuel data).depth ≤ max hf.length 255 + data.length ∧
    ((parseMessage T hf mtypes sigCode true fds fuel data).st = .ok →
      (parseMessage T hf mtypes sigCode true fds fuel data).chars ≤ data.length) := by
  unfold parseMessage
  cases data with
  | nil => simp
  | cons b0 tl =>
    simp only []
    generalize hle : (b0.toNat == 108) = le
    generalize hdata : b0 :: tl = data at *
    have hL : 255 ≤ max hf.length 255 := by omega
    have hA := fuel_adequate_gen T hT fds hf data 0 le fuel (by simp only [parseFuel, fuelFor] at hfuel ⊢; omega)
    have hi := unmarshal_inv T hT fds fuel hf data 0 le (max hf.length 255) hL (by omega)
    have hiW := unmarshal_invW T fds fuel hf data 0 le (max hf.length 255) hL (by omega)
    have hbody : ∀ (s : List Char) (k : Nat), s.length ≤ 255 →
        (unmarshal T true fds fuel s (data.drop k) 0 le).steps ≤ 255 + pot (max hf.length 255) data k ∧
        (unmarshal T true fds fuel s (data.drop k) 0 le).work ≤
          workUnit (max hf.length 255) * (unmarshal T true fds fuel s (data.drop k) 0 le).steps + (data.length - k)
            + (max hf.length 255 + 1) * (max hf.length 255 + 1) ∧
        (unmarshal T true fds fuel s (data.drop k) 0 le).depth ≤ 255 + (data.length - k) ∧
        ((unmarshal T true fds fuel s (data.drop k) 0 le).st = .ok →
          (unmarshal T true fds fuel s (data.drop k) 0 le).chars ≤ data.length - k) := by
      intro s k hs
      have hfb : fuelFor s (data.drop k) ≤ fuel := by
        simp only [parseFuel, fuelFor, List.length_drop] at hfuel ⊢; omega
      have hne := fuel_adequate_gen T hT fds s (data.drop k) 0 le fuel hfb
      have hib := unmarshal_inv T hT fds fuel s (data.drop k) 0 le (max hf.length 255) hL (by omega)
      have hibW := unmarshal_invW T fds fuel s (data.drop k) 0 le (max hf.length 255) hL (by omega)
      rw [unmarshal_st] at hne
      simp only [unmarshal_st, unmarshal_steps, unmarshal_work, unmarshal_depth, unmarshal_chars]
      have hp : pot (max hf.length 255) (data.drop k) 0 = pot (max hf.length 255) data k := by
        simp [pot, List.length_drop]
      have hlk : (data.drop k).length - 0 = data.length - k := by simp [List.length_drop]
      generalize seq T true fds (data.drop k) le fuel s 0 = r at *
      cases hst : r.st with
      | ok =>
        have := hib.okB hst; have := hibW.wOk hst; have := hibW.dOk hst; have := hibW.cOk hst
        refine ⟨by omega, by omega, by omega, fun _ => by omega⟩
      | err e =>
        have := hib.errB e hst; have := hibW.wErr e hst; have := hibW.dErr e hst
        refine ⟨by omega, by omega, by omega, fun h => by cases h⟩
      | outOfFuel => exact absurd hst hne
    have hbound : parseStepBound hf data = hf.length + 255 + pot (max hf.length 255) data 0 + 2 := by
      simp [parseStepBound, pot]
    simp only [parseWorkBound]
    rw [hbound]
    rw [unmarshal_st] at hA
    simp only [unmarshal_st, unmarshal_steps, unmarshal_off, unmarshal_work, unmarshal_depth, unmarshal_chars]
    generalize seq T true fds data le fuel hf 0 = h at *
    generalize workUnit (max hf.length 255) = W at *
    generalize (max hf.length 255 + 1) * (max hf.length 255 + 1) = S at *
    have hWs : ∀ a b : Nat, a ≤ b → W * a ≤ W * b := fun a b hab => Nat.mul_le_mul_left W hab
    split
    · rename_i hok
      have hB := hi.okB hok
      have hwO := hiW.wOk hok
      have hdO := hiW.dOk hok
      have hcO := hiW.cOk hok
      have hmo := hiW.mono hok
      have hm : h.off ≤ h.off + padLen 8 h.off := Nat.le_add_right _ _
      have hpm := pot_mono (max hf.length 255) data hm
      have hmulh := hWs h.steps (hf.length + 255 + pot (max hf.length 255) data 0 + 2) (by omega)
      split
      · split
        · refine ⟨by simp only; omega, by simp only; omega, fun hh => by simp at hh⟩
        · split
          · split
            · refine ⟨by simp only; omega, by simp only; omega, fun _ => by simp only; omega⟩
            · split
              · refine ⟨by simp only; omega, by simp only; omega, fun _ => by simp only; omega⟩
              · split
                · rename_i s0 _ _
                  split
                  · refine ⟨by simp only; omega, by simp only; omega, fun hh => by simp at hh⟩
                  · rename_i hlen255
                    have hs255 : s0.length ≤ 255 := by simpa using hlen255
                    obtain ⟨hb1, hb2, hb3, hb4⟩ := hbody s0 (h.off + padLen 8 h.off) hs255
                    simp only [unmarshal_st, unmarshal_steps, unmarshal_work, unmarshal_depth, unmarshal_chars] at hb1 hb2 hb3 hb4
                    generalize seq T true fds (List.drop (h.off + padLen 8 h.off) data) le fuel s0 0 = b at *
                    have hmulb := hWs (h.steps + b.steps) (hf.length + 255 + pot (max hf.length 255) data 0 + 2) (by omega)
                    have hadd : W * (h.steps + b.steps) = W * h.steps + W * b.steps := Nat.mul_add _ _ _
                    refine ⟨by simp only; omega, by simp only; omega, fun hh => ?_⟩
                    have := hb4 hh
                    simp only
                    omega
                · refine ⟨by simp only; omega, by simp only; omega, fun hh => by revert hh; split <;> simp⟩
          · refine ⟨by simp only; omega, by simp only; omega, fun hh => by simp at hh⟩
      · refine ⟨by simp only; omega, by simp only; omega, fun hh => by simp at hh⟩
    · rename_i st hne
      have hmulh : h.st ≠ .outOfFuel → h.steps ≤ hf.length + pot (max hf.length 255) data 0 := by
        intro hne'
        cases hst : h.st with
        | ok => have := hi.okB hst; omega
        | err e => have := hi.errB e hst; omega
        | outOfFuel => exact absurd hst hne'
      have hs := hmulh hA
      have hm2 := hWs h.steps (hf.length + 255 + pot (max hf.length 255) data 0 + 2) (by omega)
      cases hst : h.st with
      | ok => exact absurd hst (by simpa using hne)
      | err e =>
        have := hiW.wErr e hst; have := hiW.dErr e hst
        refine ⟨by simp only; omega, by simp only; omega, fun hh => by cases hh⟩
      | outOfFuel => exact absurd hst hA

end Txdbus.Cost
