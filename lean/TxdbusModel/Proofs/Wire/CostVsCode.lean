import TxdbusModel.Proofs.Wire.CostWork
import TxdbusModel.Wire.Code
import TxdbusModel.Wire.CostValue
/-
The two hand models of `marshal.unmarshal` agree (composition of C05 with C01 / C02).

`Wire/Cost.lean` (C05: status, offset, steps / work / depth; shapes of values) and `Wire/Code.lean` (C01 / C02: the Python
values) were written independently and are tied to the source by different correspondence streams.  Here it is proved
that, on the generated tables of BOTH (`Gen/C05Wire.lean` and `Gen/Wire.lean`), they are the same decoder as far as the
outcome goes: same success / failure, same exception class, same number of consumed bytes, same number of values -
for every signature string (unbalanced, unknown codes, empty), every data, offset and byte order.

Fuel.  The two models count different things: `Cost` spends one unit per call of `one` / `seq` / `loop` along the longest
chain (call -> callee | continuation), `Code` one unit per NESTING LEVEL of per-type calls (`RecursionError` when it
runs out).  The simulation is therefore stated for any Cost run that did not run out of fuel and any Code fuel above the
`depth` the Cost run reports; `unmarshal_fuel_adequate` and `unmarshal_depth_bounded` turn both into computable bounds.

What relates the values: `Rel v s` - `v : PyVal` and `s : Cost.Shape` are both lists / both unhashable non-lists / both
hashable, and if they are lists their elements have the same such tags.  That is exactly what the only value-dependent
control flow inside `unmarshal` looks at (`d[item[0]] = item[1]` for `a{..}`).

Core Lean only.
-/
namespace Txdbus.CostVsCode
open Txdbus
open Txdbus.Gen.C05Wire (UKind)
open Txdbus.Gen.Wire (Fn)

/-! ### Errors -/

/-- The exception classes of the cost model as `PyErr`. -/
def toPy : Cost.Err → PyErr
  | .struct => .struct
  | .key => .key
  | .index => .index
  | .type => .type
  | .runtime => .runtime
  | .unicode => .unicode
  | .marshalling => .marshalling

theorem toPy_inj : ∀ a b, toPy a = toPy b → a = b := by
  intro a b; cases a <;> cases b <;> simp [toPy]

theorem toPy_ne_recursion (e : Cost.Err) : toPy e ≠ .recursion := by cases e <;> simp [toPy]
theorem toPy_ne_other (e : Cost.Err) : toPy e ≠ .other := by cases e <;> simp [toPy]

theorem toPy_splitErr (e : SplitErr) : toPy (Cost.splitErr e) = Code.splitErr e := by cases e <;> rfl

/-! ### Bytes -/

theorem leVal_eq : ∀ bs : List UInt8, Cost.leVal bs = Txdbus.leVal bs
  | [] => rfl
  | b :: bs => by simp [Cost.leVal, Txdbus.leVal, leVal_eq bs]

def endOf (le : Bool) : Endian := if le then .little else .big

theorem uval_eq (le : Bool) (bs : List UInt8) : decUInt (endOf le) bs = Cost.uval le bs := by
  cases le <;> simp [endOf, decUInt, Cost.uval, leVal_eq]

theorem slice_eq (data : List UInt8) (a b : Nat) : Code.pySlice data a b = Cost.slice data a b := by
  simp [Code.pySlice, Cost.slice, List.drop_take]

/-! ### Values -/

/-- 1: a `list`; 2: not a list and unhashable; 0: hashable. -/
def vtag : PyVal → Nat
  | .list _ => 1
  | .dict _ => 2
  | .bytearray _ => 2
  | _ => 0

def stag : Cost.Shape → Nat
  | .list _ => 1
  | .dict _ => 2
  | _ => 0

def vkids : PyVal → List Nat
  | .list xs => xs.map vtag
  | _ => []

def skids : Cost.Shape → List Nat
  | .list ys => ys.map stag
  | _ => []

/-- The shape `s` says about the value `v` everything the decoder's control flow can see. -/
def Rel (v : PyVal) (s : Cost.Shape) : Prop := vtag v = stag s ∧ vkids v = skids s

inductive RelL : List PyVal → List Cost.Shape → Prop
  | nil : RelL [] []
  | cons {v s vs ss} : Rel v s → RelL vs ss → RelL (v :: vs) (s :: ss)

theorem scalar_tag (v : PyVal) (h : CostValue.isFdScalar v = true) : vtag v = 0 := by
  cases v <;> simp [CostValue.isFdScalar] at h <;> rfl

theorem scalar_nodes (v : PyVal) (h : CostValue.isFdScalar v = true) : v.nodes = 1 := by
  cases v <;> simp [CostValue.isFdScalar] at h <;> simp [PyVal.nodes]

theorem relL_tags : ∀ {vs ss}, RelL vs ss → vs.map vtag = ss.map stag
  | _, _, .nil => rfl
  | _, _, .cons h t => by simp [h.1, relL_tags t]

theorem relL_append {a b} {c d} (h1 : RelL a c) (h2 : RelL b d) : RelL (a ++ b) (c ++ d) := by
  induction h1 with
  | nil => simpa using h2
  | cons h _ ih => exact .cons h ih

theorem rel_list {vs ss} (h : RelL vs ss) : Rel (.list vs) (.list ss) := ⟨rfl, relL_tags h⟩

theorem keyForm_isSome (v : PyVal) : (Code.keyForm? v).isSome = (vtag v == 0) := by
  cases v <;> simp [Code.keyForm?, vtag]
  all_goals (try split) <;> (try split) <;> simp

theorem hashable_eq (s : Cost.Shape) : s.hashable = (stag s == 0) := by
  cases s <;> simp [Cost.Shape.hashable, stag]

/-! ### The two sets of generated tables say the same -/

theorem lookup_none_of_all {α β γ} [BEq α] [LawfulBEq α] (l : List (α × β)) (m : List (α × γ))
    (h : m.all (fun p => (l.lookup p.1).isSome) = true) (a : α) (hl : l.lookup a = none) : m.lookup a = none := by
  cases hm : m.lookup a with
  | none => rfl
  | some c =>
    have := List.all_eq_true.mp h _ (Cost.lookup_mem _ _ _ hm)
    simp [hl] at this

/-- alignment: `Gen.Wire.alignTable` and `Gen.C05Wire.alignTable` have the same entries, every alignment is 1, 2, 4 or 8,
and `padding` lists every pad below 8. -/
def alignOkB : Bool :=
  Gen.C05Wire.alignTable.all (fun p => Gen.Wire.alignTable.lookup p.1 == some p.2 &&
    (p.2 == 1 || p.2 == 2 || p.2 == 4 || p.2 == 8)) &&
  Gen.Wire.alignTable.all (fun p => (Gen.C05Wire.alignTable.lookup p.1).isSome) &&
  decide (7 ≤ Gen.Wire.maxPad)

theorem alignOk : alignOkB = true := by decide

theorem padLenOf_some (c : Char) (a x : Nat) (h : Cost.genTables.alignOf c = some a) :
    Code.padLenOf c x = .ok (Cost.padLen a x) := by
  have hok := alignOk
  simp only [alignOkB, Bool.and_eq_true, decide_eq_true_eq] at hok
  obtain ⟨⟨h1, _⟩, h3⟩ := hok
  have := List.all_eq_true.mp h1 _ (Cost.lookup_mem _ _ _ h)
  simp only [Bool.and_eq_true, beq_iff_eq, Bool.or_eq_true] at this
  obtain ⟨hl, ha⟩ := this
  unfold Code.padLenOf
  simp only [hl, Cost.padLen]
  have hm := Nat.mod_lt x (show 0 < a by omega)
  have ha0 : a ≠ 0 := by omega
  simp only [ha0, if_false]
  split <;> simp <;> omega

theorem padLenOf_none (c : Char) (x : Nat) (h : Cost.genTables.alignOf c = none) :
    Code.padLenOf c x = .error .key := by
  have hok := alignOk
  simp only [alignOkB, Bool.and_eq_true] at hok
  have := lookup_none_of_all Gen.C05Wire.alignTable Gen.Wire.alignTable hok.1.2 c h
  unfold Code.padLenOf
  simp [this]

/-- The classes of functions `Code.unmarshalOne` distinguishes. -/
inductive FC where
  | fixed | bool | fd | string | signature | array | struct | variant | bad
  deriving DecidableEq, Repr

def fnClass : Fn → FC
  | .unmarshal_byte | .unmarshal_int16 | .unmarshal_uint16 | .unmarshal_int32 | .unmarshal_uint32
  | .unmarshal_int64 | .unmarshal_uint64 | .unmarshal_double => .fixed
  | .unmarshal_boolean => .bool
  | .unmarshal_unix_fd => .fd
  | .unmarshal_string => .string
  | .unmarshal_signature => .signature
  | .unmarshal_array => .array
  | .unmarshal_struct => .struct
  | .unmarshal_variant => .variant
  | _ => .bad

/-- The arms of `Code.unmarshalOne`, by class. -/
def codeArm (lendian : Bool) (data : Bytes) (fds : Code.Fds) (fuel : Nat) (ct : List Char) (offset : Nat) (f : Fn) :
    FC → Code.URes
  | .fixed => Code.uFixed lendian data f offset
  | .bool =>
    match Code.uFixed lendian data f offset with
    | .ok (n, .int _ v) => .ok (n, .bool (v ≠ 0))
    | .ok _ => .error .other
    | .error e => .error e
  | .fd =>
    match Code.sizeOf f, Code.uLenWord lendian data f offset with
    | .ok n, .ok index =>
      match fds with
      | none => .error .type
      | some l => .ok (n, (l[index]?).getD .none)
    | .error e, _ => .error e
    | _, .error e => .error e
  | .string =>
    match Code.uLenWord lendian data f offset with
    | .error e => .error e
    | .ok slen =>
      match utf8Decode (Code.pySlice data (offset + 4) (offset + 4 + slen)), Code.frameOf f with
      | some s, .ok fr => .ok (fr + slen, .str .plain s)
      | none, _ => .error .unicode
      | _, .error e => .error e
  | .signature =>
    match Code.uSignature lendian data offset with
    | .error e => .error e
    | .ok (n, s) => .ok (n, .str .plain s)
  | .array =>
    match Code.uLenWord lendian data f offset with
    | .error e => .error e
    | .ok dataLen =>
      let tsig := ct.tail
      match tsig.head? with
      | none => .error .index
      | some ec =>
        match Code.padLenOf ec (offset + 4) with
        | .error e => .error e
        | .ok p0 =>
          let first := offset + 4 + p0
          let stop := first + dataLen
          match Code.unmarshalElems (Code.unmarshalOne lendian data fds fuel tsig) ec stop dataLen first with
          | .error e => .error e
          | .ok (off', values) =>
            if off' ≠ stop then .error .marshalling
            else if ec = '{' then
              match Code.buildDict values [] with
              | .error e => .error e
              | .ok d => .ok (off' - offset, .dict (d.map fun x => (x.2.1, x.2.2)))
            else .ok (off' - offset, .list values)
  | .struct =>
    match Code.unmarshalTop (Code.unmarshalOne lendian data fds fuel) ct.tail.dropLast offset with
    | .error e => .error e
    | .ok (n, vs) => .ok (n, .list vs)
  | .variant =>
    match Code.uSignature lendian data offset with
    | .error e => .error e
    | .ok (nsig, vsig) =>
      match vsig.head? with
      | none => .error .index
      | some vc =>
        match Code.padLenOf vc (offset + nsig) with
        | .error e => .error e
        | .ok p =>
          match Code.unmarshalTop (Code.unmarshalOne lendian data fds fuel) vsig (offset + nsig + p) with
          | .error e => .error e
          | .ok (nvar, vs) =>
            match vs with
            | v :: _ => .ok (nsig + p + nvar, v)
            | [] => .error .index
  | .bad => .error .other

theorem unmarshalOne_succ (le : Bool) (data : Bytes) (fds : Code.Fds) (g : Nat) (c : Char) (tl : List Char) (off : Nat) :
    Code.unmarshalOne le data fds (g + 1) (c :: tl) off =
      match Gen.Wire.unmarshallers.lookup c with
      | none => .error .key
      | some f => codeArm le data fds g (c :: tl) off f (fnClass f) := by
  simp only [Code.unmarshalOne, List.head?_cons]
  cases Gen.Wire.unmarshallers.lookup c with
  | none => rfl
  | some f => cases f <;> rfl

theorem unmarshalOne_nil (le : Bool) (data : Bytes) (fds : Code.Fds) (g : Nat) (off : Nat) :
    Code.unmarshalOne le data fds (g + 1) [] off = .error .index := by
  simp [Code.unmarshalOne]

/-! ### What the tables say about each reader -/

/-- `f`'s first format reads an unsigned `k`-byte integer in the byte order selected by `le`. -/
def wordOkB (f : Fn) (k : Nat) (le : Bool) : Bool :=
  match Code.fmtOf f 0 le with
  | .ok fmt => Code.fmtEndian? fmt.1 == some (endOf le) && Code.fmtKind? fmt.2 == some (.uint k)
  | .error _ => false

/-- `f` reads `need` bytes with its first format and reports `adv`. -/
def fixedOkB (f : Fn) (need adv : Nat) (le : Bool) : Bool :=
  match Code.sizeOf f, Code.fmtOf f 0 le with
  | .ok n, .ok fmt =>
    n == adv && (Code.fmtEndian? fmt.1).isSome &&
      (match Code.fmtKind? fmt.2 with
       | some kind => kind.size == need
       | none => false)
  | _, _ => false

def sizeIsB (f : Fn) (adv : Nat) : Bool :=
  match Code.sizeOf f with
  | .ok n => n == adv
  | .error _ => false

def frameIsB (f : Fn) (k : Nat) : Bool :=
  match Code.frameOf f with
  | .ok n => n == k
  | .error _ => false

/-- The entry `k` of `Gen.C05Wire.kindTable` describes the function `f` of `Gen.Wire.unmarshallers`. -/
def kfB (k : UKind) (f : Fn) : Bool :=
  match k with
  | .fixed need adv cls =>
    if cls = 2 then
      fnClass f == .fd && sizeIsB f adv && wordOkB f need true && wordOkB f need false
    else
      (fnClass f == .fixed && fixedOkB f need adv true && fixedOkB f need adv false) ||
      (fnClass f == .bool && sizeIsB f adv && wordOkB f need true && wordOkB f need false)
  | .string => fnClass f == .string && wordOkB f 4 true && wordOkB f 4 false && frameIsB f 5
  | .signature => fnClass f == .signature
  | .array => fnClass f == .array && wordOkB f 4 true && wordOkB f 4 false
  | .struct => fnClass f == .struct
  | .variant => fnClass f == .variant

def kindOkB : Bool :=
  Gen.C05Wire.kindTable.all (fun p =>
    match Gen.Wire.unmarshallers.lookup p.1 with
    | some f => kfB p.2 f
    | none => false) &&
  Gen.Wire.unmarshallers.all (fun p => (Gen.C05Wire.kindTable.lookup p.1).isSome) &&
  (wordOkB .unmarshal_signature 1 true && wordOkB .unmarshal_signature 1 false && frameIsB .unmarshal_signature 2)

theorem kindOk : kindOkB = true := by decide

theorem kind_some (c : Char) (k : UKind) (h : Cost.genTables.kindOf c = some k) :
    ∃ f, Gen.Wire.unmarshallers.lookup c = some f ∧ kfB k f = true := by
  have hok := kindOk
  simp only [kindOkB, Bool.and_eq_true] at hok
  have := List.all_eq_true.mp hok.1.1 _ (Cost.lookup_mem _ _ _ h)
  simp only at this
  split at this
  · rename_i f hf; exact ⟨f, hf, this⟩
  · cases this

theorem kind_none (c : Char) (h : Cost.genTables.kindOf c = none) : Gen.Wire.unmarshallers.lookup c = none := by
  have hok := kindOk
  simp only [kindOkB, Bool.and_eq_true] at hok
  exact lookup_none_of_all Gen.C05Wire.kindTable Gen.Wire.unmarshallers hok.1.2 c h

theorem sig_word (le : Bool) : wordOkB .unmarshal_signature 1 le = true := by cases le <;> decide
theorem sig_frame : Code.frameOf .unmarshal_signature = .ok 2 := by decide

/-! ### The primitives of `Code` in the vocabulary of `Cost` -/

theorem uLenWord_eq (f : Fn) (k : Nat) (le : Bool) (data : Bytes) (off : Nat) (h : wordOkB f k le = true) :
    Code.uLenWord le data f off =
      if off + k ≤ data.length then .ok (Cost.uval le (Cost.slice data off (off + k))) else .error .struct := by
  unfold wordOkB at h
  split at h
  · rename_i fmt hf
    simp only [Bool.and_eq_true, beq_iff_eq] at h
    unfold Code.uLenWord Code.unpackFrom
    simp only [hf, h.1, h.2, Code.FmtKind.size]
    by_cases hle : off + k ≤ data.length
    · simp [hle, uval_eq, slice_eq]
    · simp [hle]
  · cases h

theorem frameOf_eq (f : Fn) (k : Nat) (h : frameIsB f k = true) : Code.frameOf f = .ok k := by
  unfold frameIsB at h
  split at h
  · rename_i n hn; simp only [beq_iff_eq] at h; rw [hn, h]
  · cases h

theorem sizeOf_eq (f : Fn) (k : Nat) (h : sizeIsB f k = true) : Code.sizeOf f = .ok k := by
  unfold sizeIsB at h
  split at h
  · rename_i n hn; simp only [beq_iff_eq] at h; rw [hn, h]
  · cases h

/-- a fixed-size reader: `struct.error` iff fewer than `need` bytes are left, else a hashable scalar and `adv` bytes. -/
theorem uFixed_eq (f : Fn) (need adv : Nat) (le : Bool) (data : Bytes) (off : Nat) (h : fixedOkB f need adv le = true) :
    (off + need ≤ data.length → ∃ v, Code.uFixed le data f off = .ok (adv, v) ∧ vtag v = 0 ∧ v.nodes = 1) ∧
    (¬ off + need ≤ data.length → Code.uFixed le data f off = .error .struct) := by
  unfold fixedOkB at h
  split at h
  · rename_i n fmt hs hf
    simp only [Bool.and_eq_true, beq_iff_eq] at h
    obtain ⟨⟨hn, he⟩, hk⟩ := h
    split at hk
    · rename_i kind hkind
      simp only [beq_iff_eq] at hk
      obtain ⟨e, he'⟩ := Option.isSome_iff_exists.mp he
      unfold Code.uFixed Code.unpackFrom
      simp only [hs, hf, he', hkind, hk, hn]
      constructor
      · intro hle
        simp only [hle, if_true]
        cases kind <;> exact ⟨_, rfl, rfl, by simp [PyVal.nodes]⟩
      · intro hle
        simp only [hle, if_false]
    · cases hk
  · cases h

/-- the fixed-size reader behind `b` (an unsigned word turned into a `bool`). -/
theorem uBool_eq (f : Fn) (need adv : Nat) (le : Bool) (data : Bytes) (off : Nat)
    (hs : sizeIsB f adv = true) (hw : wordOkB f need le = true) :
    Code.uFixed le data f off =
      if off + need ≤ data.length then .ok (adv, .int .plain (Cost.uval le (Cost.slice data off (off + need))))
      else .error .struct := by
  have hs' := sizeOf_eq f adv hs
  unfold wordOkB at hw
  split at hw
  · rename_i fmt hf
    simp only [Bool.and_eq_true, beq_iff_eq] at hw
    unfold Code.uFixed Code.unpackFrom
    simp only [hs', hf, hw.1, hw.2, Code.FmtKind.size]
    by_cases hle : off + need ≤ data.length
    · simp [hle, uval_eq, slice_eq]
    · simp [hle]
  · cases hw

theorem uSignature_eq (le : Bool) (data : Bytes) (off : Nat) :
    Code.uSignature le data off =
      if off + 1 ≤ data.length then
        match asciiDecode (Cost.slice data (off + 1) (off + 1 + Cost.uval le (Cost.slice data off (off + 1)))) with
        | some s => .ok (2 + Cost.uval le (Cost.slice data off (off + 1)), s)
        | none => .error .unicode
      else .error .struct := by
  unfold Code.uSignature
  rw [uLenWord_eq _ 1 le data off (sig_word le), sig_frame]
  by_cases hle : off + 1 ≤ data.length
  · simp only [hle, if_true, slice_eq]
    cases asciiDecode (Cost.slice data (off + 1) (off + 1 + Cost.uval le (Cost.slice data off (off + 1)))) <;> rfl
  · simp only [hle, if_false]

/-! ### `d = {}; for item in values: d[item[0]] = item[1]` -/

theorem keyForm_some_of_tag (v : PyVal) (h : vtag v = 0) : ∃ kf, Code.keyForm? v = some kf := by
  have := keyForm_isSome v
  rw [h] at this
  exact Option.isSome_iff_exists.mp (by simpa using this)

theorem keyForm_none_of_tag (v : PyVal) (h : vtag v ≠ 0) : Code.keyForm? v = none := by
  have := keyForm_isSome v
  cases hk : Code.keyForm? v with
  | none => rfl
  | some kf => rw [hk] at this; simp at this; exact absurd this h

/-- objects held by the dict under construction. -/
def tripleNodes : List (Code.KeyForm × PyVal × PyVal) → Nat
  | [] => 0
  | (_, k, v) :: rest => k.nodes + v.nodes + tripleNodes rest

theorem tripleNodes_dictSet (kf : Code.KeyForm) (k v : PyVal) :
    ∀ acc, tripleNodes (Code.dictSet kf k v acc) ≤ tripleNodes acc + k.nodes + v.nodes
  | [] => by simp [Code.dictSet, tripleNodes]
  | (kf', k', v') :: rest => by
    simp only [Code.dictSet]
    split
    · simp only [tripleNodes]; omega
    · have := tripleNodes_dictSet kf k v rest
      simp only [tripleNodes]; omega

theorem nodesPairs_map : ∀ d : List (Code.KeyForm × PyVal × PyVal),
    nodesPairs (d.map fun x => (x.2.1, x.2.2)) = tripleNodes d
  | [] => by simp [nodesPairs, tripleNodes]
  | (_, k, v) :: rest => by simp [nodesPairs, tripleNodes, nodesPairs_map rest]

theorem buildDict_agree {vs : List PyVal} {ss : List Cost.Shape} (h : RelL vs ss) :
    ∀ acc, (Cost.dictErr ss = none →
        ∃ d, Code.buildDict vs acc = .ok d ∧ tripleNodes d ≤ tripleNodes acc + nodesList vs) ∧
      (∀ e, Cost.dictErr ss = some e → Code.buildDict vs acc = .error (toPy e)) := by
  induction h with
  | nil => intro acc; simp [Cost.dictErr, Code.buildDict, nodesList]
  | @cons v s vs ss hr _ ih =>
    intro acc
    obtain ⟨ht, hk⟩ := hr
    cases s with
    | list ys =>
      cases v <;> simp only [vtag, stag] at ht <;> try (exact absurd ht (by decide))
      rename_i xs
      simp only [vkids, skids] at hk
      match ys, xs, hk with
      | [], [], _ => simp [Cost.dictErr, Code.buildDict, toPy]
      | [_], [_], _ => simp [Cost.dictErr, Code.buildDict, toPy]
      | [_], _ :: _ :: _, hk => simp at hk
      | _ :: _ :: _, [_], hk => simp at hk
      | k :: _ :: _, x :: x2 :: xs2, hk =>
        simp only [List.map_cons, List.cons.injEq] at hk
        simp only [Cost.dictErr, Code.buildDict]
        by_cases hh : stag k = 0
        · obtain ⟨kf, hkf⟩ := keyForm_some_of_tag x (by omega)
          simp only [hashable_eq, hh, beq_self_eq_true, if_true, hkf]
          refine ⟨fun hn => ?_, (ih _).2⟩
          obtain ⟨d, hd, hle⟩ := (ih _).1 hn
          refine ⟨d, hd, ?_⟩
          have := tripleNodes_dictSet kf x x2 acc
          simp only [nodesList, PyVal.nodes]
          omega
        · have hkf := keyForm_none_of_tag x (by omega)
          simp [hashable_eq, hh, hkf, toPy]
    | int _ | dbl _ | none | str _ | dict _ =>
      cases v <;> simp only [vtag, stag] at ht <;> try (exact absurd ht (by decide))
      all_goals simp [Cost.dictErr, Code.buildDict, toPy]

/-! ### The simulation relation -/

/-- The descriptor lists the two models get: both `None` or both a list, and the value model's descriptors are
scalars (`CostValue.isFdScalar`: no containers; in txdbus they are ints).  The cost model's descriptor NUMBERS are not related to anything: they do not
influence control flow. -/
def FdsRel (fc : Option (List Nat)) (fv : Code.Fds) : Prop :=
  fc.isSome = fv.isSome ∧ ∀ l, fv = some l → ∀ v ∈ l, CostValue.isFdScalar v = true

/-- a per-type call: same outcome, same number of bytes, related value. -/
structure AgreeOne (off : Nat) (r : Cost.Out) (c : Code.URes) : Prop where
  ok : r.st = .ok → ∃ n v s, c = .ok (n, v) ∧ r.off = off + n ∧ r.vals = [s] ∧ Rel v s ∧ v.nodes ≤ r.size
  err : ∀ e, r.st = .err e → c = .error (toPy e)

/-- the loop of `unmarshal`: same outcome, same final offset, related values. -/
structure AgreeSeq (off : Nat) (r : Cost.Out) (c : Except PyErr (Nat × List PyVal)) : Prop where
  ok : r.st = .ok → ∃ vs, c = .ok (r.off, vs) ∧ off ≤ r.off ∧ RelL vs r.vals ∧ nodesList vs ≤ r.size
  err : ∀ e, r.st = .err e → c = .error (toPy e)

/-- the array loop: `Cost.loop` includes the final `offset == end_offset` check, `Code.unmarshalElems` leaves it to its
caller. -/
structure AgreeLoop (endOff : Nat) (r : Cost.Out) (c : Except PyErr (Nat × List PyVal)) : Prop where
  ok : r.st = .ok → ∃ vs, c = .ok (endOff, vs) ∧ r.off = endOff ∧ RelL vs r.vals ∧ nodesList vs ≤ r.size
  err : ∀ e, r.st = .err e →
    c = .error (toPy e) ∨ (e = .marshalling ∧ ∃ o vs, c = .ok (o, vs) ∧ o ≠ endOff)

/-- `g` = the fuel of the value model (nesting levels of per-type calls it may still open). -/
def Sim1 (off g : Nat) (r : Cost.Out) (c : Code.URes) : Prop :=
  r.st ≠ .outOfFuel → r.depth < g → AgreeOne off r c

def SimS (off g : Nat) (r : Cost.Out) (c : Except PyErr (Nat × List PyVal)) : Prop :=
  r.st ≠ .outOfFuel → r.depth < g → AgreeSeq off r c

def SimL (endOff g : Nat) (r : Cost.Out) (c : Except PyErr (Nat × List PyVal)) : Prop :=
  r.st ≠ .outOfFuel → r.depth < g → AgreeLoop endOff r c

theorem sim1_fail (off g : Nat) (e : Cost.Err) (o s d fr w : Nat) (c : Code.URes) (h : c = .error (toPy e)) :
    Sim1 off g (Cost.fail e o s d fr w) c := by
  intro _ _
  exact ⟨fun h' => by simp [Cost.fail] at h', fun e' h' => by simp only [Cost.fail, Cost.Status.err.injEq] at h'; rw [← h', h]⟩

theorem sim1_leaf (off g n : Nat) (v : PyVal) (s : Cost.Shape) (r : Cost.Out) (c : Code.URes)
    (hst : r.st = .ok) (hc : c = .ok (n, v)) (ho : r.off = off + n) (hv : r.vals = [s]) (hr : Rel v s)
    (hn : v.nodes ≤ r.size) : Sim1 off g r c := by
  intro _ _
  exact ⟨fun _ => ⟨n, v, s, hc, ho, hv, hr, hn⟩, fun e he => by rw [hst] at he; cases he⟩

theorem rel_scalar (v : PyVal) (s : Cost.Shape) (hv : vtag v = 0) (hs : stag s = 0) : Rel v s := by
  refine ⟨hv.trans hs.symm, ?_⟩
  have h1 : vkids v = [] := by cases v <;> simp [vtag] at hv <;> rfl
  have h2 : skids s = [] := by cases s <;> simp [stag] at hs <;> rfl
  rw [h1, h2]

theorem stag_fixedShape (cls : Nat) (le : Bool) (bs : List UInt8) : stag (Cost.fixedShape cls le bs) = 0 := by
  unfold Cost.fixedShape
  split
  · rfl
  · split <;> rfl

theorem simS_fail (off g : Nat) (e : Cost.Err) (o s d fr w : Nat) (c : Except PyErr (Nat × List PyVal))
    (h : c = .error (toPy e)) : SimS off g (Cost.fail e o s d fr w) c := by
  intro _ _
  exact ⟨fun h' => by simp [Cost.fail] at h', fun e' h' => by simp only [Cost.fail, Cost.Status.err.injEq] at h'; rw [← h', h]⟩

/-- `Code.unmarshalTop` = `Code.unmarshalSeq` on the lazily split signature, reporting the byte count. -/
theorem top_of_seq (one : List Char → Nat → Code.URes) (sig : List Char) (off : Nat) (r : Cost.Out)
    (h : AgreeSeq off r (Code.unmarshalSeq one (lazyFuel sig.length sig).1 (lazyFuel sig.length sig).2 off)) :
    (r.st = .ok → ∃ vs, Code.unmarshalTop one sig off = .ok (r.off - off, vs) ∧ off ≤ r.off ∧ RelL vs r.vals ∧
      nodesList vs ≤ r.size) ∧
    (∀ e, r.st = .err e → Code.unmarshalTop one sig off = .error (toPy e)) := by
  unfold Code.unmarshalTop lazyPieces
  constructor
  · intro hok
    obtain ⟨vs, hc, hle, hrel, hnod⟩ := h.ok hok
    simp only [hc]
    exact ⟨vs, rfl, hle, hrel, hnod⟩
  · intro e he
    simp only [h.err e he]

section
variable (fc : Option (List Nat)) (fv : Code.Fds) (data : Bytes) (le : Bool)

def POne (f : Nat) : Prop :=
  ∀ g ct off, Sim1 off g (Cost.one Cost.genTables true fc data le f ct off) (Code.unmarshalOne le data fv g ct off)

def PSeq (f : Nat) : Prop :=
  ∀ g n sig off, sig.length ≤ n →
    SimS off g (Cost.seq Cost.genTables true fc data le f sig off)
      (Code.unmarshalSeq (Code.unmarshalOne le data fv g) (lazyFuel n sig).1 (lazyFuel n sig).2 off)

def PLoop (f : Nat) : Prop :=
  ∀ g n ec tl a off endOff, Cost.genTables.alignOf ec = some a → endOff - off ≤ n →
    SimL endOff g (Cost.loop Cost.genTables true fc data le f (ec :: tl) a off endOff)
      (Code.unmarshalElems (Code.unmarshalOne le data fv g (ec :: tl)) ec endOff n off)

theorem one_sim (hfds : FdsRel fc fv) (f : Nat) (hSeq : PSeq fc fv data le f) (hLoop : PLoop fc fv data le f) :
    POne fc fv data le (f + 1) := by
  intro g ct off
  cases g with
  | zero => intro _ h; exact absurd h (Nat.not_lt_zero _)
  | succ g =>
  cases ct with
  | nil => rw [Cost.one, unmarshalOne_nil]; exact sim1_fail _ _ _ _ _ _ _ _ _ rfl
  | cons c tl =>
    rw [Cost.one, unmarshalOne_succ]
    cases hk : Cost.genTables.kindOf c with
    | none => rw [kind_none c hk]; exact sim1_fail _ _ _ _ _ _ _ _ _ rfl
    | some k =>
      obtain ⟨fn, hfn, hkf⟩ := kind_some c k hk
      rw [hfn]
      simp only []
      cases k with
      | fixed need adv cls =>
        simp only []
        have hword : ∀ k, wordOkB fn k true = true → wordOkB fn k false = true → wordOkB fn k le = true := by
          intro k h1 h2; cases le <;> assumption
        by_cases hc : cls = 2
        · simp only [kfB, hc, if_true, Bool.and_eq_true, beq_iff_eq] at hkf
          obtain ⟨⟨⟨hcl, hsz⟩, hw1⟩, hw2⟩ := hkf
          rw [hcl]
          simp only [codeArm, sizeOf_eq fn adv hsz, uLenWord_eq fn need le data off (hword _ hw1 hw2), hc, if_true]
          by_cases hle : off + need ≤ data.length
          · simp only [hle, if_true]
            obtain ⟨hs, hl⟩ := hfds
            cases fc with
            | none =>
              cases fv with
              | none => exact sim1_fail _ _ _ _ _ _ _ _ _ rfl
              | some l => simp at hs
            | some lc =>
              cases fv with
              | none => simp at hs
              | some l =>
                have hsc : CostValue.isFdScalar ((l[Cost.uval le (Cost.slice data off (off + need))]?).getD PyVal.none) = true := by
                  cases hi : l[Cost.uval le (Cost.slice data off (off + need))]? with
                  | none => rfl
                  | some x => exact hl l rfl x (List.mem_of_getElem? hi)
                refine sim1_leaf off _ adv _ _ _ _ rfl rfl rfl rfl (rel_scalar _ _ (scalar_tag _ hsc) ?_)
                  (by rw [scalar_nodes _ hsc]; exact Nat.le_refl _)
                split <;> rfl
          · simp only [hle, if_false]
            exact sim1_fail _ _ _ _ _ _ _ _ _ rfl
        · simp only [kfB, hc, if_false, Bool.or_eq_true, Bool.and_eq_true, beq_iff_eq] at hkf
          rcases hkf with ⟨⟨hcl, h1⟩, h2⟩ | ⟨⟨⟨hcl, hsz⟩, hw1⟩, hw2⟩
          · have hfx : fixedOkB fn need adv le = true := by cases le <;> assumption
            obtain ⟨hok, herr⟩ := uFixed_eq fn need adv le data off hfx
            rw [hcl]
            simp only [codeArm, hc, if_false]
            by_cases hle : off + need ≤ data.length
            · obtain ⟨v, hv, ht, hnod⟩ := hok hle
              simp only [hle, if_true]
              exact sim1_leaf off _ adv v _ _ _ rfl hv rfl rfl (rel_scalar _ _ ht (stag_fixedShape _ _ _))
                (by rw [hnod]; exact Nat.le_refl _)
            · simp only [hle, if_false]
              exact sim1_fail _ _ _ _ _ _ _ _ _ (herr hle)
          · rw [hcl]
            simp only [codeArm, uBool_eq fn need adv le data off hsz (hword _ hw1 hw2), hc, if_false]
            by_cases hle : off + need ≤ data.length
            · simp only [hle, if_true]
              exact sim1_leaf off _ adv _ _ _ _ rfl rfl rfl rfl (rel_scalar _ _ rfl (stag_fixedShape _ _ _))
                (by simp [PyVal.nodes])
            · simp only [hle, if_false]
              exact sim1_fail _ _ _ _ _ _ _ _ _ rfl
      | string =>
        simp only [kfB, Bool.and_eq_true, beq_iff_eq] at hkf
        obtain ⟨⟨⟨hcl, hw1⟩, hw2⟩, hfr⟩ := hkf
        have hw : wordOkB fn 4 le = true := by cases le <;> assumption
        rw [hcl]
        simp only [codeArm, uLenWord_eq fn 4 le data off hw, frameOf_eq fn 5 hfr, slice_eq]
        by_cases hle : off + 4 ≤ data.length
        · simp only [hle, if_true]
          cases hu : utf8Decode (Cost.slice data (off + 4) (off + 4 + Cost.uval le (Cost.slice data off (off + 4)))) with
          | none => exact sim1_fail _ _ _ _ _ _ _ _ _ rfl
          | some s =>
            exact sim1_leaf off _ (5 + Cost.uval le (Cost.slice data off (off + 4))) _ _ _ _ rfl rfl
              (by simp only; omega) rfl (rel_scalar _ _ rfl rfl) (by simp [PyVal.nodes])
        · simp only [hle, if_false]
          exact sim1_fail _ _ _ _ _ _ _ _ _ rfl
      | signature =>
        simp only [kfB, beq_iff_eq] at hkf
        rw [hkf]
        simp only [codeArm, uSignature_eq]
        by_cases hle : off + 1 ≤ data.length
        · simp only [hle, if_true]
          cases hu : asciiDecode (Cost.slice data (off + 1) (off + 1 + Cost.uval le (Cost.slice data off (off + 1)))) with
          | none => exact sim1_fail _ _ _ _ _ _ _ _ _ rfl
          | some s =>
            exact sim1_leaf off _ (2 + Cost.uval le (Cost.slice data off (off + 1))) _ _ _ _ rfl rfl
              (by simp only; omega) rfl (rel_scalar _ _ rfl rfl) (by simp [PyVal.nodes])
        · simp only [hle, if_false]
          exact sim1_fail _ _ _ _ _ _ _ _ _ rfl
      | array =>
        simp only [kfB, Bool.and_eq_true, beq_iff_eq] at hkf
        obtain ⟨⟨hcl, hw1⟩, hw2⟩ := hkf
        have hw : wordOkB fn 4 le = true := by cases le <;> assumption
        rw [hcl]
        simp only [codeArm, uLenWord_eq fn 4 le data off hw, List.tail_cons]
        by_cases hle : off + 4 ≤ data.length
        · simp only [hle, if_true]
          generalize Cost.uval le (Cost.slice data off (off + 4)) = dlen
          cases tl with
          | nil => exact sim1_fail _ _ _ _ _ _ _ _ _ rfl
          | cons tc tl' =>
            simp only [List.head?_cons]
            cases ha : Cost.genTables.alignOf tc with
            | none =>
              simp only [padLenOf_none tc _ ha]
              exact sim1_fail _ _ _ _ _ _ _ _ _ rfl
            | some a =>
              simp only [padLenOf_some tc a _ ha]
              generalize hp : Cost.padLen a (off + 4) = p
              generalize hstart : off + 4 + p = start
              have hl := hLoop g dlen tc tl' a start (start + dlen) ha (by omega)
              generalize Cost.loop Cost.genTables true fc data le f (tc :: tl') a start (start + dlen) = r at hl ⊢
              split
              · rename_i hok
                have key : r.depth < g → ∃ vs, Code.unmarshalElems (Code.unmarshalOne le data fv g (tc :: tl')) tc
                    (start + dlen) dlen start = .ok (start + dlen, vs) ∧ r.off = start + dlen ∧ RelL vs r.vals ∧
                    nodesList vs ≤ r.size :=
                  fun hd => (hl (by rw [hok]; simp) hd).ok hok
                by_cases hb : tc = '{'
                · simp only [hb, if_true]
                  rw [hb] at key
                  cases hde : Cost.dictErr r.vals with
                  | some e =>
                    intro _ hd
                    simp only [Cost.fail] at hd
                    obtain ⟨vs, hc, _, hrel, _⟩ := key (by omega)
                    simp only [hc, ne_eq, not_true_eq_false, if_false, (buildDict_agree hrel []).2 e hde]
                    exact ⟨fun h' => by simp [Cost.fail] at h',
                      fun e' h' => by simp only [Cost.fail, Cost.Status.err.injEq] at h'; rw [← h']⟩
                  | none =>
                    intro _ hd
                    simp only at hd
                    obtain ⟨vs, hc, hro, hrel, hnod⟩ := key (by omega)
                    obtain ⟨d, hd', hdn⟩ := (buildDict_agree hrel []).1 hde
                    simp only [hc, ne_eq, not_true_eq_false, if_false, hd']
                    refine ⟨fun _ => ⟨_, _, _, rfl, by simp only; omega, rfl, ⟨rfl, rfl⟩, ?_⟩, fun e he => by simp at he⟩
                    simp only [PyVal.nodes, nodesPairs_map, tripleNodes] at hdn ⊢
                    omega
                · simp only [hb, if_false]
                  intro _ hd
                  simp only at hd
                  obtain ⟨vs, hc, hro, hrel, hnod⟩ := key (by omega)
                  simp only [hc, ne_eq, not_true_eq_false, if_false]
                  exact ⟨fun _ => ⟨_, _, _, rfl, by simp only; omega, rfl, rel_list hrel,
                    by simp only [PyVal.nodes]; omega⟩, fun e he => by simp at he⟩
              · rename_i st hnok
                intro hne hd
                simp only at hne hd
                have hag := hl hne (by omega)
                constructor
                · intro hok; exact absurd hok hnok
                · intro e he
                  simp only at he
                  rcases hag.err e he with hc | ⟨hm, o, vs, hc, hno⟩
                  · simp only [hc]
                  · simp only [hc, ne_eq, hno, not_false_eq_true, if_true, hm, toPy]
        · simp only [hle, if_false]
          exact sim1_fail _ _ _ _ _ _ _ _ _ rfl
      | struct =>
        simp only [kfB, beq_iff_eq] at hkf
        rw [hkf]
        simp only [codeArm, List.tail_cons]
        have hs := hSeq g tl.dropLast.length tl.dropLast off (Nat.le_refl _)
        generalize Cost.seq Cost.genTables true fc data le f tl.dropLast off = r at hs ⊢
        intro hne hd
        simp only at hne hd
        have ha := top_of_seq _ _ _ r (hs hne (by omega))
        constructor
        · intro hok
          simp only at hok
          obtain ⟨vs, hc, hle, hrel, hnod⟩ := ha.1 hok
          rw [hc]
          exact ⟨r.off - off, .list vs, .list r.vals, rfl, by simp only; omega, rfl, rel_list hrel,
            by simp only [PyVal.nodes]; omega⟩
        · intro e he
          simp only at he
          rw [ha.2 e he]
      | variant =>
        simp only [kfB, beq_iff_eq] at hkf
        rw [hkf]
        simp only [codeArm, uSignature_eq]
        by_cases hle : off + 1 ≤ data.length
        · simp only [hle, if_true]
          generalize Cost.uval le (Cost.slice data off (off + 1)) = slen
          generalize (Cost.slice data (off + 1) (off + 1 + slen)).length = sl
          cases hu : asciiDecode (Cost.slice data (off + 1) (off + 1 + slen)) with
          | none => exact sim1_fail _ _ _ _ _ _ _ _ _ rfl
          | some vsig =>
            simp only []
            cases vsig with
            | nil => exact sim1_fail _ _ _ _ _ _ _ _ _ rfl
            | cons vc vt =>
              simp only [List.head?_cons]
              have e1 : off + (2 + slen) = off + 1 + slen + 1 := by omega
              rw [e1]
              cases ha : Cost.genTables.alignOf vc with
              | none =>
                simp only [padLenOf_none vc _ ha]
                exact sim1_fail _ _ _ _ _ _ _ _ _ rfl
              | some a =>
                simp only [padLenOf_some vc a _ ha]
                have hs := hSeq g (vc :: vt).length (vc :: vt) (off + 1 + slen + 1 + Cost.padLen a (off + 1 + slen + 1))
                  (Nat.le_refl _)
                have hge : off + 1 + slen + 1 ≤ off + 1 + slen + 1 + Cost.padLen a (off + 1 + slen + 1) :=
                  Nat.le_add_right _ _
                generalize hp : Cost.padLen a (off + 1 + slen + 1) = p at *
                generalize hoff2 : off + 1 + slen + 1 + p = off2 at *
                generalize Cost.seq Cost.genTables true fc data le f (vc :: vt) off2 = r at hs ⊢
                split
                · rename_i hok
                  split
                  · rename_i hnil
                    intro _ hd
                    simp only [Cost.fail] at hd
                    obtain ⟨vs, hc, _, hrel, _⟩ := (top_of_seq _ _ _ r (hs (by rw [hok]; simp) (by omega))).1 hok
                    rw [hnil] at hrel
                    cases hrel
                    rw [hc]
                    exact ⟨fun h' => by simp [Cost.fail] at h',
                      fun e' h' => by simp only [Cost.fail, Cost.Status.err.injEq] at h'; rw [← h']; rfl⟩
                  · rename_i v tail hcons
                    intro _ hd
                    simp only at hd
                    obtain ⟨vs, hc, hle2, hrel, hnod⟩ := (top_of_seq _ _ _ r (hs (by rw [hok]; simp) (by omega))).1 hok
                    rw [hcons] at hrel
                    cases hrel with
                    | cons hv _ =>
                      rw [hc]
                      simp only [nodesList] at hnod
                      exact ⟨fun _ => ⟨_, _, v, rfl, by simp only; omega, rfl, hv, by simp only; omega⟩,
                        fun e he => by simp at he⟩
                · rename_i st hnok
                  intro hne hd
                  simp only at hne hd
                  have ha := top_of_seq _ _ _ r (hs hne (by omega))
                  constructor
                  · intro hok; exact absurd hok hnok
                  · intro e he
                    simp only at he
                    rw [ha.2 e he]
        · simp only [hle, if_false]
          exact sim1_fail _ _ _ _ _ _ _ _ _ rfl

theorem lazyFuel_nil (n : Nat) : lazyFuel n ([] : List Char) = ([], none) := by cases n <;> rfl

theorem seq_sim (f : Nat) (hOne : POne fc fv data le f) (hSeq : PSeq fc fv data le f) :
    PSeq fc fv data le (f + 1) := by
  intro g n sig off hn
  cases sig with
  | nil =>
    rw [Cost.seq, lazyFuel_nil]
    simp only [Code.unmarshalSeq]
    intro _ _
    exact ⟨fun _ => ⟨[], rfl, Nat.le_refl _, .nil, Nat.le_refl _⟩, fun e he => by simp at he⟩
  | cons c0 cs0 =>
    cases n with
    | zero => simp at hn
    | succ n =>
      rw [Cost.seq]
      simp only [lazyFuel]
      cases hft : firstType (c0 :: cs0) with
      | error e =>
        simp only [Code.unmarshalSeq]
        exact simS_fail _ _ _ _ _ _ _ _ _ (by rw [toPy_splitErr])
      | ok p =>
        obtain ⟨ct, rest⟩ := p
        have hrest : rest.length ≤ n := by
          have h1 := (Cost.firstType_split _ _ _ hft).1
          have h2 := (Cost.firstType_split _ _ _ hft).2
          simp only [List.length_cons] at hn h1
          omega
        simp only []
        cases ct with
        | nil =>
          simp only [Code.unmarshalSeq, List.head?_nil]
          exact simS_fail _ _ _ _ _ _ _ _ _ rfl
        | cons c ctl =>
          simp only [Code.unmarshalSeq, List.head?_cons]
          cases ha : Cost.genTables.alignOf c with
          | none =>
            simp only [padLenOf_none c _ ha]
            exact simS_fail _ _ _ _ _ _ _ _ _ rfl
          | some a =>
            simp only [padLenOf_some c a _ ha]
            have h1 := hOne g (c :: ctl) (off + Cost.padLen a off)
            have hpge : off ≤ off + Cost.padLen a off := Nat.le_add_right _ _
            generalize off + Cost.padLen a off = p at *
            generalize Cost.one Cost.genTables true fc data le f (c :: ctl) p = r1 at h1 ⊢
            generalize Code.unmarshalOne le data fv g (c :: ctl) p = c1 at h1 ⊢
            split
            · rename_i hok
              intro hne hd
              simp only at hne hd
              obtain ⟨n1, v, s, hc1, ho1, hv1, hr1, hnod1⟩ := (h1 (by rw [hok]; simp) (by omega)).ok hok
              have h2 := hSeq g n rest r1.off hrest hne (by omega)
              subst hc1
              simp only [← ho1]
              constructor
              · intro hok2
                simp only at hok2
                obtain ⟨vs, hc2, hle2, hrel2, hnod2⟩ := h2.ok hok2
                simp only [hc2]
                exact ⟨_, rfl, by omega, by rw [hv1]; exact .cons hr1 hrel2, by simp only [nodesList]; omega⟩
              · intro e he
                simp only at he
                simp only [h2.err e he]
            · rename_i st hnok
              intro hne hd
              simp only at hne hd
              have hag := h1 hne (by omega)
              constructor
              · intro hok; exact absurd hok hnok
              · intro e he
                simp only at he
                simp only [hag.err e he]

theorem loop_sim (f : Nat) (hOne : POne fc fv data le f) (hLoop : PLoop fc fv data le f) :
    PLoop fc fv data le (f + 1) := by
  intro g n ec tl a off endOff ha hn
  rw [Cost.loop, Code.unmarshalElems.eq_def]
  by_cases hlt : off < endOff
  · simp only [hlt, if_true]
    cases n with
    | zero => omega
    | succ n =>
      simp only [padLenOf_some ec a _ ha]
      have h1 := hOne g (ec :: tl) (off + Cost.padLen a off)
      have hpge : off ≤ off + Cost.padLen a off := Nat.le_add_right _ _
      generalize off + Cost.padLen a off = p at *
      generalize Cost.one Cost.genTables true fc data le f (ec :: tl) p = r1 at h1 ⊢
      generalize Code.unmarshalOne le data fv g (ec :: tl) p = c1 at h1 ⊢
      split
      · rename_i hok
        by_cases hz : r1.off = p
        · simp only [hz, beq_self_eq_true, Bool.and_self, if_true]
          intro _ hd
          simp only [Cost.fail] at hd
          obtain ⟨n1, v, s, hc1, ho1, _, _, _⟩ := (h1 (by rw [hok]; simp) hd).ok hok
          have hn0 : n1 = 0 := by omega
          subst hc1
          simp only [hn0, if_true]
          exact ⟨fun h' => by simp [Cost.fail] at h',
            fun e' h' => by simp only [Cost.fail, Cost.Status.err.injEq] at h'; rw [← h']; exact Or.inl rfl⟩
        · have hz' : (true && r1.off == p) = false := by simp [hz]
          simp only [hz', Bool.false_eq_true, if_false]
          intro hne hd
          simp only at hne hd
          obtain ⟨n1, v, s, hc1, ho1, hv1, hr1, hnod1⟩ := (h1 (by rw [hok]; simp) (by omega)).ok hok
          have hn1 : n1 ≠ 0 := by omega
          have h2 := hLoop g n ec tl a r1.off endOff ha (by omega) hne (by omega)
          subst hc1
          simp only [hn1, if_false, ← ho1]
          constructor
          · intro hok2
            simp only at hok2
            obtain ⟨vs, hc2, hro, hrel2, hnod2⟩ := h2.ok hok2
            simp only [hc2]
            exact ⟨_, rfl, hro, by rw [hv1]; exact .cons hr1 hrel2, by simp only [nodesList]; omega⟩
          · intro e he
            simp only at he
            rcases h2.err e he with hc | ⟨hm, o, vs, hc, hno⟩
            · left; simp only [hc]
            · right; simp only [hc]; exact ⟨hm, o, _, rfl, hno⟩
      · rename_i st hnok
        intro hne hd
        simp only at hne hd
        have hag := h1 hne hd
        constructor
        · intro hok; exact absurd hok hnok
        · intro e he
          simp only at he
          left
          simp only [hag.err e he]
  · simp only [hlt, if_false]
    by_cases heq : off = endOff
    · simp only [heq, if_true]
      intro _ _
      exact ⟨fun _ => ⟨[], rfl, rfl, .nil, Nat.le_refl _⟩, fun e he => by simp at he⟩
    · simp only [heq, if_false]
      intro _ _
      exact ⟨fun h' => by simp [Cost.fail] at h',
        fun e' h' => by
          simp only [Cost.fail, Cost.Status.err.injEq] at h'
          exact Or.inr ⟨h'.symm, off, [], rfl, heq⟩⟩

theorem all_sim (hfds : FdsRel fc fv) :
    ∀ f, POne fc fv data le f ∧ PSeq fc fv data le f ∧ PLoop fc fv data le f
  | 0 => by
    refine ⟨?_, ?_, ?_⟩
    · intro g ct off; rw [Cost.one]; intro h; exact absurd rfl h
    · intro g n sig off _; rw [Cost.seq]; intro h; exact absurd rfl h
    · intro g n ec tl a off endOff _ _; rw [Cost.loop]; intro h; exact absurd rfl h
  | f + 1 => by
    obtain ⟨h1, h2, h3⟩ := all_sim hfds f
    exact ⟨one_sim fc fv data le hfds f h2 h3, seq_sim fc fv data le f h1 h2, loop_sim fc fv data le f h1 h3⟩

end

theorem relL_length : ∀ {vs ss}, RelL vs ss → vs.length = ss.length
  | _, _, .nil => rfl
  | _, _, .cons _ t => by simp [relL_length t]

/-- The simulation at the top level: a run of the cost model that did not run out of its fuel, against the value model
with more fuel than the nesting depth the cost model reports. -/
theorem sim_unmarshal (fc : Option (List Nat)) (fv : Code.Fds) (hfds : FdsRel fc fv) (sig : List Char) (data : Bytes)
    (off : Nat) (le : Bool) (fuelC fuelV : Nat)
    (hne : (Cost.unmarshal Cost.genTables true fc fuelC sig data off le).st ≠ .outOfFuel)
    (hd : (Cost.unmarshal Cost.genTables true fc fuelC sig data off le).depth < fuelV) :
    ((Cost.unmarshal Cost.genTables true fc fuelC sig data off le).st = .ok →
      ∃ vs, Code.unmarshal fuelV sig data off le fv =
          .ok ((Cost.unmarshal Cost.genTables true fc fuelC sig data off le).off - off, vs) ∧
        off ≤ (Cost.unmarshal Cost.genTables true fc fuelC sig data off le).off ∧
        RelL vs (Cost.unmarshal Cost.genTables true fc fuelC sig data off le).vals ∧
        nodesList vs ≤ (Cost.unmarshal Cost.genTables true fc fuelC sig data off le).size) ∧
    (∀ e, (Cost.unmarshal Cost.genTables true fc fuelC sig data off le).st = .err e →
      Code.unmarshal fuelV sig data off le fv = .error (toPy e)) :=
  top_of_seq _ sig off (Cost.seq Cost.genTables true fc data le fuelC sig off)
    ((all_sim fc fv data le hfds fuelC).2.1 fuelV sig.length sig off (Nat.le_refl _) hne hd)

/-- Descriptor lists of the value model whose entries are scalars (in txdbus: ints). -/
def FdsPlain (fv : Code.Fds) : Prop := ∀ l, fv = some l → ∀ v ∈ l, CostValue.isFdScalar v = true

theorem fdsPlain_none : FdsPlain none := by intro l h; cases h

theorem fdsPlain_ints (l : List Int) : FdsPlain (some (l.map fun n => PyVal.int .plain n)) := by
  intro l' h v hv
  cases h
  obtain ⟨n, _, rfl⟩ := List.mem_map.mp hv
  rfl

theorem fdsRel_of_plain (fv : Code.Fds) (h : FdsPlain fv) : FdsRel (fv.map fun _ => []) fv := by
  refine ⟨?_, h⟩
  cases fv <;> rfl

/-- **The two models agree** (generic form; `Properties/C05.lean: cost_agrees_with_code`). -/
theorem agree_gen (fc : Option (List Nat)) (fv : Code.Fds) (hfds : FdsRel fc fv) (sig : List Char) (data : Bytes)
    (off : Nat) (le : Bool) (fuelC fuelV : Nat) (hC : Cost.fuelFor sig data ≤ fuelC)
    (hV : Cost.codeFuel sig data off ≤ fuelV) :
    let r := Cost.unmarshal Cost.genTables true fc fuelC sig data off le
    let c := Code.unmarshal fuelV sig data off le fv
    (r.st = .ok ↔ ∃ n vs, c = .ok (n, vs)) ∧
    (∀ n vs, c = .ok (n, vs) → r.off = off + n ∧ vs.length = r.vals.length ∧ RelL vs r.vals ∧ nodesList vs ≤ r.size) ∧
    (∀ e, r.st = .err e ↔ c = .error (toPy e)) ∧
    (∀ e', c = .error e' → ∃ e, e' = toPy e) := by
  intro r c
  have hne : r.st ≠ .outOfFuel := Cost.fuel_adequate_gen _ Cost.genTables_good fc sig data off le fuelC hC
  have hdb : r.depth ≤ sig.length + (data.length - off) := Cost.depth_bounded_gen _ fc sig data off le fuelC hne
  have hd : r.depth < fuelV := by simp only [Cost.codeFuel] at hV; omega
  obtain ⟨hok, herr⟩ := sim_unmarshal fc fv hfds sig data off le fuelC fuelV hne hd
  cases hst : r.st with
  | outOfFuel => exact absurd hst hne
  | ok =>
    obtain ⟨vs, hc, hle, hrel, hnod⟩ := hok hst
    have hc' : c = .ok (r.off - off, vs) := hc
    have hle' : off ≤ r.off := hle
    refine ⟨⟨fun _ => ⟨_, _, hc'⟩, fun _ => rfl⟩, ?_, ?_, ?_⟩
    · intro n vs' h
      rw [hc'] at h
      cases h
      exact ⟨by omega, relL_length hrel, hrel, hnod⟩
    · intro e
      constructor
      · intro h; cases h
      · intro h; rw [hc'] at h; cases h
    · intro e' h; rw [hc'] at h; cases h
  | err e =>
    have hc : c = .error (toPy e) := herr e hst
    refine ⟨⟨fun h => (by cases h), fun ⟨n, vs, h⟩ => (by rw [hc] at h; cases h)⟩, ?_, ?_, ?_⟩
    · intro n vs h; rw [hc] at h; cases h
    · intro e2
      constructor
      · intro h; cases h; exact hc
      · intro h
        rw [hc] at h
        injection h with h
        rw [toPy_inj _ _ h]
    · intro e' h
      rw [hc] at h
      cases h
      exact ⟨e, rfl⟩

/-- The fuel bound of C05 is sufficient for the VALUE model: with `|sig| + (|data| - off) + 1` units (or more)
`Code.unmarshal` never answers `RecursionError` (its out-of-fuel outcome), nor the `other` error that stands for a
table the model does not understand. -/
theorem code_fuel_gen (fv : Code.Fds) (hfv : FdsPlain fv) (sig : List Char) (data : Bytes) (off : Nat) (le : Bool)
    (fuelV : Nat) (hV : Cost.codeFuel sig data off ≤ fuelV) :
    Code.unmarshal fuelV sig data off le fv ≠ .error .recursion ∧
    Code.unmarshal fuelV sig data off le fv ≠ .error .other := by
  have h := (agree_gen _ fv (fdsRel_of_plain fv hfv) sig data off le _ fuelV (Nat.le_refl _) hV).2.2.2
  constructor
  · intro hc
    obtain ⟨e, he⟩ := h _ hc
    exact toPy_ne_recursion e he.symm
  · intro hc
    obtain ⟨e, he⟩ := h _ hc
    exact toPy_ne_other e he.symm

/-! ### Fuel monotonicity of the value model

A statement about `Wire/Code.lean` alone (proved here because the computable fuel bound comes from C05): an outcome that
is not `RecursionError` does not change when more fuel is given.  Together with `code_fuel_gen` this makes every
outcome independent of the fuel from `codeFuel` on. -/

theorem elems_congr (elem elem' : Nat → Code.URes) (tc : Char) (stop : Nat)
    (h : ∀ off, elem off ≠ .error .recursion → elem' off = elem off) :
    ∀ n off, Code.unmarshalElems elem tc stop n off ≠ .error .recursion →
      Code.unmarshalElems elem' tc stop n off = Code.unmarshalElems elem tc stop n off := by
  intro n
  induction n with
  | zero =>
    intro off _
    rw [Code.unmarshalElems.eq_def, Code.unmarshalElems.eq_def elem]
  | succ n ih =>
    intro off hne
    rw [Code.unmarshalElems.eq_def] at hne ⊢
    rw [Code.unmarshalElems.eq_def elem]
    by_cases hlt : off < stop
    · simp only [hlt, if_true] at hne ⊢
      cases hp : Code.padLenOf tc off with
      | error e => rfl
      | ok p =>
        simp only [hp] at hne ⊢
        have he : elem (off + p) ≠ .error .recursion := by
          intro hh; rw [hh] at hne; exact hne rfl
        rw [h _ he]
        cases hel : elem (off + p) with
        | error e => rfl
        | ok nv =>
          obtain ⟨nb, v⟩ := nv
          simp only [hel] at hne ⊢
          by_cases hz : nb = 0
          · simp only [hz, if_true]
          · simp only [hz, if_false] at hne ⊢
            have hr : Code.unmarshalElems elem tc stop n (off + p + nb) ≠ .error .recursion := by
              intro hh; rw [hh] at hne; exact hne rfl
            rw [ih _ hr]
    · simp only [hlt, if_false]

theorem seq_congr (one one' : List Char → Nat → Code.URes)
    (h : ∀ ct off, one ct off ≠ .error .recursion → one' ct off = one ct off) (perr : Option SplitErr) :
    ∀ pieces off, Code.unmarshalSeq one pieces perr off ≠ .error .recursion →
      Code.unmarshalSeq one' pieces perr off = Code.unmarshalSeq one pieces perr off := by
  intro pieces
  induction pieces with
  | nil => intro off _; simp only [Code.unmarshalSeq]
  | cons ct ps ih =>
    intro off hne
    simp only [Code.unmarshalSeq] at hne ⊢
    cases hh : ct.head? with
    | none => rfl
    | some tc =>
      simp only [hh] at hne ⊢
      cases hp : Code.padLenOf tc off with
      | error e => rfl
      | ok p =>
        simp only [hp] at hne ⊢
        have he : one ct (off + p) ≠ .error .recursion := by
          intro hh; rw [hh] at hne; exact hne rfl
        rw [h _ _ he]
        cases hel : one ct (off + p) with
        | error e => rfl
        | ok nv =>
          obtain ⟨nb, v⟩ := nv
          simp only [hel] at hne ⊢
          have hr : Code.unmarshalSeq one ps perr (off + p + nb) ≠ .error .recursion := by
            intro hh; rw [hh] at hne; exact hne rfl
          rw [ih _ hr]

theorem top_congr (one one' : List Char → Nat → Code.URes)
    (h : ∀ ct off, one ct off ≠ .error .recursion → one' ct off = one ct off) (sig : List Char) (off : Nat)
    (hne : Code.unmarshalTop one sig off ≠ .error .recursion) :
    Code.unmarshalTop one' sig off = Code.unmarshalTop one sig off := by
  unfold Code.unmarshalTop at hne ⊢
  have hr : Code.unmarshalSeq one (lazyPieces sig).1 (lazyPieces sig).2 off ≠ .error .recursion := by
    intro hh; simp only [hh] at hne; exact hne rfl
  simp only [seq_congr one one' h _ _ _ hr]

/-- One more unit of fuel does not change an outcome that is not `RecursionError`. -/
theorem one_mono (le : Bool) (data : Bytes) (fds : Code.Fds) :
    ∀ g ct off, Code.unmarshalOne le data fds g ct off ≠ .error .recursion →
      Code.unmarshalOne le data fds (g + 1) ct off = Code.unmarshalOne le data fds g ct off
  | 0, ct, off, hne => by exfalso; apply hne; simp [Code.unmarshalOne]
  | g + 1, ct, off, hne => by
    have ih := one_mono le data fds g
    cases ct with
    | nil => rw [unmarshalOne_nil, unmarshalOne_nil]
    | cons c tl =>
      rw [unmarshalOne_succ] at hne ⊢
      rw [unmarshalOne_succ le data fds g]
      cases hl : Gen.Wire.unmarshallers.lookup c with
      | none => rfl
      | some f =>
        simp only [hl] at hne ⊢
        cases hc : fnClass f with
        | fixed | bool | fd | string | signature | bad => rfl
        | array =>
          rw [hc] at hne
          simp only [codeArm, List.tail_cons] at hne ⊢
          cases hw : Code.uLenWord le data f off with
          | error e => rfl
          | ok dlen =>
            simp only [hw] at hne ⊢
            cases hh : tl.head? with
            | none => rfl
            | some ec =>
              simp only [hh] at hne ⊢
              cases hp : Code.padLenOf ec (off + 4) with
              | error e => rfl
              | ok p0 =>
                simp only [hp] at hne ⊢
                have hr : Code.unmarshalElems (Code.unmarshalOne le data fds g tl) ec (off + 4 + p0 + dlen) dlen
                    (off + 4 + p0) ≠ .error .recursion := by
                  intro hh; simp only [hh] at hne; exact hne rfl
                rw [elems_congr (Code.unmarshalOne le data fds g tl) (Code.unmarshalOne le data fds (g + 1) tl) ec _
                  (fun off h => ih tl off h) _ _ hr]
        | struct =>
          rw [hc] at hne
          simp only [codeArm, List.tail_cons] at hne ⊢
          have hr : Code.unmarshalTop (Code.unmarshalOne le data fds g) tl.dropLast off ≠ .error .recursion := by
            intro hh; simp only [hh] at hne; exact hne rfl
          rw [top_congr (Code.unmarshalOne le data fds g) (Code.unmarshalOne le data fds (g + 1))
            (fun ct off h => ih ct off h) _ _ hr]
        | variant =>
          rw [hc] at hne
          simp only [codeArm] at hne ⊢
          cases hs : Code.uSignature le data off with
          | error e => rfl
          | ok nv =>
            obtain ⟨nsig, vsig⟩ := nv
            simp only [hs] at hne ⊢
            cases hh : vsig.head? with
            | none => rfl
            | some vc =>
              simp only [hh] at hne ⊢
              cases hp : Code.padLenOf vc (off + nsig) with
              | error e => rfl
              | ok p =>
                simp only [hp] at hne ⊢
                have hr : Code.unmarshalTop (Code.unmarshalOne le data fds g) vsig (off + nsig + p) ≠
                    .error .recursion := by
                  intro hh; simp only [hh] at hne; exact hne rfl
                rw [top_congr (Code.unmarshalOne le data fds g) (Code.unmarshalOne le data fds (g + 1))
                  (fun ct off h => ih ct off h) _ _ hr]

theorem one_mono_add (le : Bool) (data : Bytes) (fds : Code.Fds) (g : Nat) :
    ∀ k ct off, Code.unmarshalOne le data fds g ct off ≠ .error .recursion →
      Code.unmarshalOne le data fds (g + k) ct off = Code.unmarshalOne le data fds g ct off
  | 0, _, _, _ => rfl
  | k + 1, ct, off, h => by
    have h1 := one_mono_add le data fds g k ct off h
    have h2 : Code.unmarshalOne le data fds (g + k) ct off ≠ .error .recursion := by rw [h1]; exact h
    rw [← Nat.add_assoc, one_mono le data fds (g + k) ct off h2, h1]

theorem unmarshal_mono_add (sig : List Char) (data : Bytes) (off : Nat) (le : Bool) (fds : Code.Fds) (g k : Nat)
    (h : Code.unmarshal g sig data off le fds ≠ .error .recursion) :
    Code.unmarshal (g + k) sig data off le fds = Code.unmarshal g sig data off le fds :=
  top_congr (Code.unmarshalOne le data fds g) (Code.unmarshalOne le data fds (g + k))
    (fun ct off h => one_mono_add le data fds g k ct off h) sig off h

/-- From `codeFuel` on, the outcome of the value model does not depend on the fuel: it is the outcome of ANY fuel that
did not run out. -/
theorem code_fuel_indep_gen (fv : Code.Fds) (hfv : FdsPlain fv) (sig : List Char) (data : Bytes) (off : Nat) (le : Bool)
    (g : Nat) (hg : Code.unmarshal g sig data off le fv ≠ .error .recursion)
    (fuel : Nat) (hV : Cost.codeFuel sig data off ≤ fuel) :
    Code.unmarshal fuel sig data off le fv = Code.unmarshal g sig data off le fv := by
  have hf := (code_fuel_gen fv hfv sig data off le fuel hV).1
  have h1 := unmarshal_mono_add sig data off le fv g (max g fuel - g) hg
  have h2 := unmarshal_mono_add sig data off le fv fuel (max g fuel - fuel) hf
  have e1 : g + (max g fuel - g) = max g fuel := by omega
  have e2 : fuel + (max g fuel - fuel) = max g fuel := by omega
  rw [e1] at h1
  rw [e2] at h2
  rw [← h2, h1]

/-! ### Fuel adequacy of the value model, directly (no hypothesis on the descriptors)

`code_fuel_gen` above gets "never `RecursionError`" out of the simulation and therefore inherits its hypothesis on the
descriptor list.  The recursion structure of `Code.unmarshal` does not depend on what the descriptors are; the
direct argument below needs no such hypothesis (review 3, item 1.2). -/

theorem padLenOf_norec (c : Char) (x : Nat) : Code.padLenOf c x ≠ .error .recursion := by
  unfold Code.padLenOf
  split
  · simp
  · split
    · simp
    · simp only []
      repeat' split
      all_goals simp

theorem unpackFrom_norec (fmt : Char × Char) (data : Bytes) (off : Nat) :
    Code.unpackFrom fmt data off ≠ .error .recursion := by
  unfold Code.unpackFrom
  repeat' split
  all_goals simp

theorem sizeOf_cases (f : Fn) : (∃ n, Code.sizeOf f = .ok n) ∨ Code.sizeOf f = .error .other := by
  unfold Code.sizeOf; split <;> simp

theorem fmtOf_cases (f : Fn) (n : Nat) (le : Bool) : (∃ x, Code.fmtOf f n le = .ok x) ∨ Code.fmtOf f n le = .error .other := by
  unfold Code.fmtOf
  split
  · split <;> simp
  · simp

theorem frameOf_cases (f : Fn) : (∃ n, Code.frameOf f = .ok n) ∨ Code.frameOf f = .error .other := by
  unfold Code.frameOf; split <;> simp

theorem uFixed_norec (le : Bool) (data : Bytes) (f : Fn) (off : Nat) : Code.uFixed le data f off ≠ .error .recursion := by
  unfold Code.uFixed
  rcases sizeOf_cases f with ⟨n, h1⟩ | h1 <;> rcases fmtOf_cases f 0 le with ⟨x, h2⟩ | h2 <;> simp only [h1, h2]
  · have := unpackFrom_norec x data off
    cases hu : Code.unpackFrom x data off with
    | ok v => simp
    | error e => intro h; simp at h; rw [hu, h] at this; exact this rfl
  all_goals simp

theorem uLenWord_norec (le : Bool) (data : Bytes) (f : Fn) (off : Nat) : Code.uLenWord le data f off ≠ .error .recursion := by
  unfold Code.uLenWord
  rcases fmtOf_cases f 0 le with ⟨x, h2⟩ | h2 <;> simp only [h2]
  · have := unpackFrom_norec x data off
    cases hu : Code.unpackFrom x data off with
    | ok v => cases v <;> simp
    | error e => intro h; simp at h; rw [hu, h] at this; exact this rfl
  · simp

theorem uSignature_norec (le : Bool) (data : Bytes) (off : Nat) : Code.uSignature le data off ≠ .error .recursion := by
  rw [uSignature_eq]
  repeat' split
  all_goals simp

theorem buildDict_norec : ∀ (vs : List PyVal) (acc : List (Code.KeyForm × PyVal × PyVal)),
    Code.buildDict vs acc ≠ .error .recursion
  | [], acc => by simp [Code.buildDict]
  | item :: items, acc => by
    unfold Code.buildDict
    split
    · split
      · exact buildDict_norec items _
      · simp
    · simp
    · simp

theorem elems_norec (elem : Nat → Code.URes) (tc : Char) (stop : Nat) :
    ∀ n off, stop - off ≤ n → (∀ off', off ≤ off' → elem off' ≠ .error .recursion) →
      Code.unmarshalElems elem tc stop n off ≠ .error .recursion := by
  intro n
  induction n with
  | zero =>
    intro off hn _
    rw [Code.unmarshalElems.eq_def]
    have : ¬ off < stop := by omega
    simp [this]
  | succ n ih =>
    intro off hn helem
    rw [Code.unmarshalElems.eq_def]
    by_cases hlt : off < stop
    · simp only [hlt, if_true]
      cases hp : Code.padLenOf tc off with
      | error e => intro h; simp only [Except.error.injEq] at h; rw [h] at hp; exact padLenOf_norec _ _ hp
      | ok p =>
        simp only []
        cases hel : elem (off + p) with
        | error e =>
          intro h; simp only [Except.error.injEq] at h; rw [h] at hel; exact helem _ (Nat.le_add_right _ _) hel
        | ok nv =>
          obtain ⟨nb, v⟩ := nv
          simp only []
          by_cases hz : nb = 0
          · simp [hz]
          · simp only [hz, if_false]
            have := ih (off + p + nb) (by omega) (fun off' h => helem off' (by omega))
            cases hr : Code.unmarshalElems elem tc stop n (off + p + nb) with
            | error e => intro h; simp only [Except.error.injEq] at h; rw [h] at hr; exact this hr
            | ok x => simp
    · simp [hlt]

theorem seq_norec (one : List Char → Nat → Code.URes) (perr : Option SplitErr) :
    ∀ pieces off, (∀ ct off', ct ∈ pieces → off ≤ off' → one ct off' ≠ .error .recursion) →
      Code.unmarshalSeq one pieces perr off ≠ .error .recursion := by
  intro pieces
  induction pieces with
  | nil =>
    intro off _
    simp only [Code.unmarshalSeq]
    cases perr with
    | none => simp
    | some e => cases e <;> simp [Code.splitErr]
  | cons ct ps ih =>
    intro off hone
    simp only [Code.unmarshalSeq]
    cases hh : ct.head? with
    | none => simp
    | some tc =>
      simp only []
      cases hp : Code.padLenOf tc off with
      | error e => intro h; simp only [Except.error.injEq] at h; rw [h] at hp; exact padLenOf_norec _ _ hp
      | ok p =>
        simp only []
        cases hel : one ct (off + p) with
        | error e =>
          intro h; simp only [Except.error.injEq] at h; rw [h] at hel
          exact hone ct _ List.mem_cons_self (Nat.le_add_right _ _) hel
        | ok nv =>
          obtain ⟨nb, v⟩ := nv
          simp only []
          have := ih (off + p + nb) (fun ct' off' hm h => hone ct' off' (List.mem_cons_of_mem _ hm) (by omega))
          cases hr : Code.unmarshalSeq one ps perr (off + p + nb) with
          | error e => intro h; simp only [Except.error.injEq] at h; rw [h] at hr; exact this hr
          | ok x => simp

theorem lazyFuel_len : ∀ (n : Nat) (s ct : List Char), ct ∈ (lazyFuel n s).1 → ct.length ≤ s.length
  | _, [], ct, h => by rw [lazyFuel_nil] at h; simp at h
  | 0, _ :: _, ct, h => by simp [lazyFuel] at h
  | n + 1, c :: cs, ct, h => by
    simp only [lazyFuel] at h
    cases hft : firstType (c :: cs) with
    | error e => simp [hft] at h
    | ok p =>
      obtain ⟨ct0, rest⟩ := p
      simp only [hft, List.mem_cons] at h
      have hs := (Cost.firstType_split _ _ _ hft).1
      rcases h with rfl | h
      · omega
      · have := lazyFuel_len n rest ct h
        omega

theorem top_norec (one : List Char → Nat → Code.URes) (sig : List Char) (off : Nat)
    (h : ∀ ct off', ct.length ≤ sig.length → off ≤ off' → one ct off' ≠ .error .recursion) :
    Code.unmarshalTop one sig off ≠ .error .recursion := by
  unfold Code.unmarshalTop lazyPieces
  have := seq_norec one (lazyFuel sig.length sig).2 (lazyFuel sig.length sig).1 off
    (fun ct off' hm hle => h ct off' (lazyFuel_len _ _ _ hm) hle)
  cases hr : Code.unmarshalSeq one (lazyFuel sig.length sig).1 (lazyFuel sig.length sig).2 off with
  | error e => intro h'; simp only [hr, Except.error.injEq] at h'; rw [h'] at hr; exact this hr
  | ok x => simp [hr]

/-- `norec_cases X using p with a`: case split on the intermediate result `X` (with `p : X ≠ .error .recursion`) in a
goal `(match X with | .error e => .error e | .ok a => ..) ≠ .error .recursion`; closes the error case. -/
local macro "norec_cases " x:term " using " p:term " with " a:ident hx:ident : tactic =>
  `(tactic| (have hX := $p
             cases $hx:ident : $x
             · intro h'; simp only [Except.error.injEq] at h'; rw [$hx:ident, h'] at hX; exact hX rfl
             rename_i $a:ident
             try simp only []))

/-- **Direct depth argument on the value model alone**: more fuel than `|ct| + (|data| - off)` and a per-type call never
runs out of it.  Every nesting level is paid for by a signature character (array, struct, dict entry) or, for a
variant, by the bytes that carry its signature.  No hypothesis on the descriptors. -/
theorem one_norec (le : Bool) (data : Bytes) (fds : Code.Fds) :
    ∀ g ct off, ct.length + (data.length - off) < g → Code.unmarshalOne le data fds g ct off ≠ .error .recursion
  | 0, _, _, h => by omega
  | g + 1, ct, off, h => by
    have ih := one_norec le data fds g
    cases ct with
    | nil => rw [unmarshalOne_nil]; simp
    | cons c tl =>
      rw [unmarshalOne_succ]
      simp only [List.length_cons] at h
      cases hl : Gen.Wire.unmarshallers.lookup c with
      | none => simp
      | some f =>
        simp only []
        cases hc : fnClass f with
        | fixed => simp only [codeArm]; exact uFixed_norec _ _ _ _
        | bool =>
          simp only [codeArm]
          norec_cases (Code.uFixed le data f off) using (uFixed_norec le data f off) with nv hx
          obtain ⟨n, v⟩ := nv
          cases v <;> simp
        | fd =>
          simp only [codeArm]
          rcases sizeOf_cases f with ⟨n, h1⟩ | h1 <;> simp only [h1]
          · norec_cases (Code.uLenWord le data f off) using (uLenWord_norec le data f off) with i hx
            cases fds <;> simp
          · cases Code.uLenWord le data f off <;> simp
        | string =>
          simp only [codeArm]
          norec_cases (Code.uLenWord le data f off) using (uLenWord_norec le data f off) with slen hx
          rcases frameOf_cases f with ⟨n, h1⟩ | h1 <;> simp only [h1] <;>
            cases utf8Decode (Code.pySlice data (off + 4) (off + 4 + slen)) <;> simp
        | signature =>
          simp only [codeArm]
          norec_cases (Code.uSignature le data off) using (uSignature_norec le data off) with ns hx
          simp
        | array =>
          simp only [codeArm, List.tail_cons]
          norec_cases (Code.uLenWord le data f off) using (uLenWord_norec le data f off) with dlen hx
          cases hh : tl.head? with
          | none => simp
          | some ec =>
            simp only []
            norec_cases (Code.padLenOf ec (off + 4)) using (padLenOf_norec ec (off + 4)) with p0 hx
            norec_cases (Code.unmarshalElems (Code.unmarshalOne le data fds g tl) ec (off + 4 + p0 + dlen) dlen (off + 4 + p0))
              using (elems_norec (Code.unmarshalOne le data fds g tl) ec (off + 4 + p0 + dlen) dlen (off + 4 + p0) (by omega)
                (fun off' hle => ih tl off' (by omega))) with ov hx
            obtain ⟨o, values⟩ := ov
            simp only []
            split
            · simp
            · split
              · norec_cases (Code.buildDict values []) using (buildDict_norec values []) with d hx
                simp
              · simp
        | struct =>
          simp only [codeArm, List.tail_cons]
          have hdl : tl.dropLast.length ≤ tl.length := by simp [List.length_dropLast]
          norec_cases (Code.unmarshalTop (Code.unmarshalOne le data fds g) tl.dropLast off)
            using (top_norec (Code.unmarshalOne le data fds g) tl.dropLast off
              (fun ct' off' hlen hle => ih ct' off' (by omega))) with nv hx
          simp
        | variant =>
          simp only [codeArm]
          norec_cases (Code.uSignature le data off) using (uSignature_norec le data off) with nv hsg
          obtain ⟨nsig, vsig⟩ := nv
          simp only []
          cases hh : vsig.head? with
          | none => simp
          | some vc =>
            simp only []
            norec_cases (Code.padLenOf vc (off + nsig)) using (padLenOf_norec vc (off + nsig)) with p hx
            -- what `uSignature` returned: the signature is cut from the data after the length byte
            have hnv := hsg
            rw [uSignature_eq] at hnv
            by_cases hle : off + 1 ≤ data.length
            · simp only [hle, if_true] at hnv
              generalize hsl : Cost.uval le (Cost.slice data off (off + 1)) = slen at hnv
              cases hd : asciiDecode (Cost.slice data (off + 1) (off + 1 + slen)) with
              | none => simp [hd] at hnv
              | some s =>
                simp only [hd, Except.ok.injEq, Prod.mk.injEq] at hnv
                obtain ⟨rfl, rfl⟩ := hnv
                have hlen := Cost.asciiDecode_length _ _ hd
                have h1 := Cost.slice_length_le data (off + 1) (off + 1 + slen)
                have h2 := Cost.slice_length_le' data (off + 1) (off + 1 + slen)
                norec_cases (Code.unmarshalTop (Code.unmarshalOne le data fds g) s (off + (2 + slen) + p))
                  using (top_norec (Code.unmarshalOne le data fds g) s (off + (2 + slen) + p)
                    (fun ct' off' hlen' hle' => ih ct' off' (by omega))) with nv hx
                obtain ⟨nvar, vs⟩ := nv
                cases vs <;> simp
            · simp [hle] at hnv
        | bad => simp [codeArm]

/-- `Code.unmarshal` with `codeFuel` units of fuel (or more) does not run out of it - for every signature, data, offset,
byte order and EVERY descriptor argument. -/
theorem code_norec_gen (fv : Code.Fds) (sig : List Char) (data : Bytes) (off : Nat) (le : Bool) (fuelV : Nat)
    (hV : Cost.codeFuel sig data off ≤ fuelV) : Code.unmarshal fuelV sig data off le fv ≠ .error .recursion := by
  unfold Code.unmarshal
  refine top_norec _ _ _ (fun ct off' hlen hle => one_norec le data fv fuelV ct off' ?_)
  simp only [Cost.codeFuel] at hV
  omega

/-- `code_fuel_indep_gen` without the hypothesis on the descriptors. -/
theorem code_fuel_indep_free (fv : Code.Fds) (sig : List Char) (data : Bytes) (off : Nat) (le : Bool)
    (g : Nat) (hg : Code.unmarshal g sig data off le fv ≠ .error .recursion)
    (fuel : Nat) (hV : Cost.codeFuel sig data off ≤ fuel) :
    Code.unmarshal fuel sig data off le fv = Code.unmarshal g sig data off le fv := by
  have hf := code_norec_gen fv sig data off le fuel hV
  have h1 := unmarshal_mono_add sig data off le fv g (max g fuel - g) hg
  have h2 := unmarshal_mono_add sig data off le fv fuel (max g fuel - fuel) hf
  have e1 : g + (max g fuel - g) = max g fuel := by omega
  have e2 : fuel + (max g fuel - fuel) = max g fuel := by omega
  rw [e1] at h1
  rw [e2] at h2
  rw [← h2, h1]

/-- What `Code.unmarshal` returns is bounded by the input: the objects in the decoded values (`nodesList`) number at
most `Cost.stepBound sig data off` - linear in the data length (`result_size_bounded` and `unmarshal_steps_linear`
carried over to the value model). -/
theorem code_result_gen (fv : Code.Fds) (hfv : FdsPlain fv) (sig : List Char) (data : Bytes) (off : Nat) (le : Bool)
    (fuelV : Nat) (hV : Cost.codeFuel sig data off ≤ fuelV) (n : Nat) (vs : List PyVal)
    (h : Code.unmarshal fuelV sig data off le fv = .ok (n, vs)) :
    nodesList vs ≤ Cost.stepBound sig data off := by
  have hA := agree_gen _ fv (fdsRel_of_plain fv hfv) sig data off le _ fuelV (Nat.le_refl _) hV
  have hne := Cost.fuel_adequate_gen _ Cost.genTables_good (fv.map fun _ => []) sig data off le _ (Nat.le_refl (Cost.fuelFor sig data))
  have h1 := (hA.2.1 n vs h).2.2.2
  have h2 := Cost.size_le_steps_gen _ Cost.genTables_good (fv.map fun _ => []) sig data off le (Cost.fuelFor sig data)
  have h3 := Cost.steps_linear_gen _ Cost.genTables_good (fv.map fun _ => []) sig data off le (Cost.fuelFor sig data) hne
  exact Nat.le_trans h1 (Nat.le_trans h2 h3)

end Txdbus.CostVsCode
