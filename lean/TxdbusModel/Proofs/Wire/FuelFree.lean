import TxdbusModel.Proofs.Wire.TopLevel
import TxdbusModel.Proofs.Wire.ConfTop
import TxdbusModel.Wire.Cost
/-
The fuel premise of the "Code = Spec" theorems (`hfuel : depthAll vs ≤ fuel`, the nesting depth of the VALUE) replaced
by bounds that mention only what a caller has in hand: the signature and the bytes.

* `Spec.depth_le_sig_add_length`: a value that the reference encoder accepts nests no deeper than the characters of
  its type plus the bytes of its encoding (every nesting level is paid for by a signature character - array, struct,
  dict entry - or, for a variant, by the signature that travels in the data).  A fact about `Wire/Spec.lean` alone.
* `Spec.depthAll_le_codeFuel`: hence `depthAll vs < Cost.codeFuel (renderAll ts) (pre ++ bs ++ suf) off`, the fuel C05
  proved adequate for hostile input (`Properties/C05.lean: code_fuel_adequate`): for spec-conformant encodings the
  bound follows directly, WITHOUT the side condition `FdsPlain` (descriptors are scalars) that the route through
  `code_fuel_independent` needs.
* `Code.unmarshal_eq_spec_fuel_free`, `Code.marshal_eq_spec_sized`, `Code.marshal_eq_spec_conf_sized`.
* Encode direction, signature only: `Spec.depth_le_tyDepth` - below a type without `v` a value is no deeper than the
  type (`tyDepthAll ts`, at most the length of the signature); `Code.marshal_eq_spec_noVariant`.
-/
namespace Txdbus

/-! ### the nesting depth of a type -/

mutual
/-- Nesting depth of a type, counted like `Val.depth` (one per container level, one for the leaf). -/
def Ty.depth : Ty → Nat
  | .array e => e.depth + 1
  | .struct fs => tyDepthAll fs + 1
  | .dict k v => max k.depth v.depth + 1
  | _ => 1
def tyDepthAll : List Ty → Nat
  | [] => 0
  | t :: ts => max t.depth (tyDepthAll ts)
end

mutual
/-- No `v` anywhere inside the type. -/
def Ty.noVariant : Ty → Bool
  | .basic _ => true
  | .variant => false
  | .array e => e.noVariant
  | .struct fs => allNoVariant fs
  | .dict k v => k.noVariant && v.noVariant
def allNoVariant : List Ty → Bool
  | [] => true
  | t :: ts => t.noVariant && allNoVariant ts
end

mutual
theorem Ty.depth_le_render : ∀ t : Ty, t.depth ≤ t.render.length
  | .basic _ => by simp [Ty.depth, Ty.render]
  | .variant => by simp [Ty.depth, Ty.render]
  | .array e => by
    have := Ty.depth_le_render e
    simp [Ty.depth, Ty.render]; omega
  | .struct fs => by
    have := tyDepthAll_le_render fs
    simp [Ty.depth, Ty.render]; omega
  | .dict k v => by
    have := Ty.depth_le_render k
    have := Ty.depth_le_render v
    simp [Ty.depth, Ty.render]; omega
theorem tyDepthAll_le_render : ∀ ts : List Ty, tyDepthAll ts ≤ (renderAll ts).length
  | [] => by simp [tyDepthAll]
  | t :: ts => by
    have := Ty.depth_le_render t
    have := tyDepthAll_le_render ts
    simp [tyDepthAll, renderAll]; omega
end

theorem Ty.render_pos (t : Ty) : 1 ≤ t.render.length := by
  cases t <;> simp [Ty.render]

namespace Spec

/-! ### depth of an encoded value ≤ characters of its type + bytes of its encoding -/

mutual
theorem depth_le_sig_add_length (A : AlignTable) (e : Endian) :
    ∀ (v : Val) (t : Ty) (off : Nat) (bs : Bytes), encode A e t v off = some bs →
      v.depth ≤ t.render.length + bs.length
  | .int n, t, off, bs, h => by have := t.render_pos; simp [Val.depth]; omega
  | .bool b, t, off, bs, h => by have := t.render_pos; simp [Val.depth]; omega
  | .double b, t, off, bs, h => by have := t.render_pos; simp [Val.depth]; omega
  | .str b, t, off, bs, h => by have := t.render_pos; simp [Val.depth]; omega
  | .variant t' v', t, off, bs, h => by
    cases t <;> simp only [encode, reduceCtorEq] at h
    · simp [encBasic] at h
    · split at h <;> try (simp at h; done)
      split at h <;> try (simp at h; done)
      rename_i body hbody
      simp only [Option.some.injEq] at h; subst h
      have := depth_le_sig_add_length A e v' t' _ body hbody
      simp only [Val.depth, Ty.render, List.length_append, encUInt_length, sigBytes_length, List.length_cons,
        List.length_nil, zeros_length]
      omega
  | .array vs, t, off, bs, h => by
    cases t <;> simp only [encode, reduceCtorEq] at h
    · simp [encBasic] at h
    · split at h <;> try (simp at h; done)
      rename_i body hbody
      split at h <;> try (simp at h; done)
      simp only [Option.some.injEq] at h; subst h
      have := depth_elems A e vs _ _ body hbody
      simp only [Val.depth, Ty.render, List.length_append, encUInt_length, List.length_cons, zeros_length]
      omega
  | .struct vs, t, off, bs, h => by
    cases t <;> simp only [encode, reduceCtorEq] at h
    · simp [encBasic] at h
    · have := depth_fields A e vs _ _ bs h
      simp only [Val.depth, Ty.render, List.length_append, List.length_cons, List.length_nil]
      omega
  | .entry k v, t, off, bs, h => by
    cases t <;> simp only [encode, reduceCtorEq] at h
    · simp [encBasic] at h
    · split at h <;> try (simp at h; done)
      rename_i kb hkb
      split at h <;> try (simp at h; done)
      rename_i vb hvb
      simp only [Option.some.injEq] at h; subst h
      have := depth_le_sig_add_length A e k _ _ kb hkb
      have := depth_le_sig_add_length A e v _ _ vb hvb
      simp only [Val.depth, Ty.render, List.length_append, List.length_cons, List.length_nil, zeros_length]
      omega
theorem depth_elems (A : AlignTable) (e : Endian) :
    ∀ (vs : List Val) (el : Ty) (off : Nat) (bs : Bytes), encodeElems A e el vs off = some bs →
      depthAll vs ≤ el.render.length + bs.length
  | [], el, off, bs, h => by simp [depthAll]
  | v :: vs, el, off, bs, h => by
    simp only [encodeElems] at h
    split at h <;> try (simp at h; done)
    rename_i b hb
    split at h <;> try (simp at h; done)
    rename_i r hr
    simp only [Option.some.injEq] at h; subst h
    have := depth_le_sig_add_length A e v el _ b hb
    have := depth_elems A e vs el _ r hr
    simp only [depthAll, List.length_append, zeros_length]
    omega
theorem depth_fields (A : AlignTable) (e : Endian) :
    ∀ (vs : List Val) (ts : List Ty) (off : Nat) (bs : Bytes), encodeFields A e ts vs off = some bs →
      depthAll vs ≤ (renderAll ts).length + bs.length
  | [], ts, off, bs, h => by simp [depthAll]
  | v :: vs, ts, off, bs, h => by
    cases ts with
    | nil => simp [encodeFields] at h
    | cons t ts =>
      simp only [encodeFields] at h
      split at h <;> try (simp at h; done)
      rename_i b hb
      split at h <;> try (simp at h; done)
      rename_i r hr
      simp only [Option.some.injEq] at h; subst h
      have := depth_le_sig_add_length A e v t _ b hb
      have := depth_fields A e vs ts _ r hr
      simp only [depthAll, renderAll, List.length_append, zeros_length]
      omega
end

/-- The values of an accepted encoding nest no deeper than `|signature| + |encoding|`. -/
theorem depthAll_le_sized (A : AlignTable) (e : Endian) (ts : List Ty) (vs : List Val) (off : Nat) (bs : Bytes)
    (henc : encodeAll A e ts vs off = some bs) : depthAll vs ≤ (renderAll ts).length + bs.length :=
  depth_fields A e vs ts off bs henc

/-- ... hence strictly below the fuel `Cost.codeFuel sig data off = |sig| + (|data| - off) + 1` of C05, for the encoding
placed at `off` inside arbitrary surrounding bytes. -/
theorem depthAll_le_codeFuel (A : AlignTable) (e : Endian) (ts : List Ty) (vs : List Val) (off : Nat)
    (bs pre suf : Bytes) (henc : encodeAll A e ts vs off = some bs) (hpre : pre.length = off) :
    depthAll vs < Cost.codeFuel (renderAll ts) (pre ++ bs ++ suf) off := by
  have := depthAll_le_sized A e ts vs off bs henc
  simp only [Cost.codeFuel, List.length_append]
  omega

/-! ### below a type without `v`, the value is no deeper than the type -/

mutual
theorem depth_le_tyDepth (A : AlignTable) (e : Endian) :
    ∀ (v : Val) (t : Ty) (off : Nat) (bs : Bytes), encode A e t v off = some bs → t.noVariant = true →
      v.depth ≤ t.depth
  | .int n, t, off, bs, h, _ => by cases t <;> simp [Val.depth, Ty.depth]
  | .bool b, t, off, bs, h, _ => by cases t <;> simp [Val.depth, Ty.depth]
  | .double b, t, off, bs, h, _ => by cases t <;> simp [Val.depth, Ty.depth]
  | .str b, t, off, bs, h, _ => by cases t <;> simp [Val.depth, Ty.depth]
  | .variant t' v', t, off, bs, h, hn => by
    cases t <;> simp only [encode, reduceCtorEq] at h
    · simp [encBasic] at h
    · simp [Ty.noVariant] at hn
  | .array vs, t, off, bs, h, hn => by
    cases t <;> simp only [encode, reduceCtorEq] at h
    · simp [encBasic] at h
    · split at h <;> try (simp at h; done)
      rename_i body hbody
      simp only [Ty.noVariant] at hn
      have := depth_elems_ty A e vs _ _ body hbody hn
      simp only [Val.depth, Ty.depth]
      omega
  | .struct vs, t, off, bs, h, hn => by
    cases t <;> simp only [encode, reduceCtorEq] at h
    · simp [encBasic] at h
    · simp only [Ty.noVariant] at hn
      have := depth_fields_ty A e vs _ _ bs h hn
      simp only [Val.depth, Ty.depth]
      omega
  | .entry k v, t, off, bs, h, hn => by
    cases t <;> simp only [encode, reduceCtorEq] at h
    · simp [encBasic] at h
    · split at h <;> try (simp at h; done)
      rename_i kb hkb
      split at h <;> try (simp at h; done)
      rename_i vb hvb
      simp only [Ty.noVariant, Bool.and_eq_true] at hn
      have := depth_le_tyDepth A e k _ _ kb hkb hn.1
      have := depth_le_tyDepth A e v _ _ vb hvb hn.2
      simp only [Val.depth, Ty.depth]
      omega
theorem depth_elems_ty (A : AlignTable) (e : Endian) :
    ∀ (vs : List Val) (el : Ty) (off : Nat) (bs : Bytes), encodeElems A e el vs off = some bs → el.noVariant = true →
      depthAll vs ≤ el.depth
  | [], el, off, bs, h, _ => by simp [depthAll]
  | v :: vs, el, off, bs, h, hn => by
    simp only [encodeElems] at h
    split at h <;> try (simp at h; done)
    rename_i b hb
    split at h <;> try (simp at h; done)
    rename_i r hr
    have := depth_le_tyDepth A e v el _ b hb hn
    have := depth_elems_ty A e vs el _ r hr hn
    simp only [depthAll]
    omega
theorem depth_fields_ty (A : AlignTable) (e : Endian) :
    ∀ (vs : List Val) (ts : List Ty) (off : Nat) (bs : Bytes), encodeFields A e ts vs off = some bs →
      allNoVariant ts = true → depthAll vs ≤ tyDepthAll ts
  | [], ts, off, bs, h, _ => by simp [depthAll]
  | v :: vs, ts, off, bs, h, hn => by
    cases ts with
    | nil => simp [encodeFields] at h
    | cons t ts =>
      simp only [encodeFields] at h
      split at h <;> try (simp at h; done)
      rename_i b hb
      split at h <;> try (simp at h; done)
      rename_i r hr
      simp only [allNoVariant, Bool.and_eq_true] at hn
      have := depth_le_tyDepth A e v t _ b hb hn.1
      have := depth_fields_ty A e vs ts _ r hr hn.2
      simp only [depthAll, tyDepthAll]
      omega
end

end Spec

namespace Code

/-- `unmarshal_eq_spec` without the premise on the depth of the value: at `Cost.codeFuel` - computable from the lengths of
the signature and the data - or any larger fuel. -/
theorem unmarshal_eq_spec_fuel_free (A : AlignTable) (hA : PadOK A) (hpos : A.Pos) (le : Bool) (fds : Fds) (ts : List Ty)
    (vs : List Val) (off : Nat) (bs pre suf : Bytes) (values : List PyVal) (fuel : Nat)
    (hts : allWF ts = true) (henc : Spec.encodeAll A (endianOf le) ts vs off = some bs)
    (hpre : pre.length = off) (hval : fromSpecFields fds vs ts = some values)
    (hfuel : Cost.codeFuel (renderAll ts) (pre ++ bs ++ suf) off ≤ fuel) :
    unmarshal fuel (renderAll ts) (pre ++ bs ++ suf) off le fds = .ok (bs.length, values) :=
  unmarshal_eq_spec A hA hpos le fds ts vs off bs pre suf values fuel hts henc hpre hval
    (Nat.le_trans (Nat.le_of_lt (Spec.depthAll_le_codeFuel A (endianOf le) ts vs off bs pre suf henc hpre)) hfuel)

/-- `marshal_eq_spec` with the fuel bounded by the SIZE of what is produced: `|signature| + |bytes|` (or more). -/
theorem marshal_eq_spec_sized (A : AlignTable) (hA : PadOK A) (hpos : A.Pos) (le : Bool) (ts : List Ty) (pv : PyVal)
    (items : List PyVal) (vs : List Val) (lall : List PyVal) (k' off : Nat) (bs : Bytes) (fuel : Nat)
    (hitems : topItems pv = .ok items) (hrep : RepFields lall vs true ts items 0 k')
    (henc : Spec.encodeAll A (endianOf le) ts vs off = some bs) (hfuel : (renderAll ts).length + bs.length ≤ fuel) :
    marshal fuel (renderAll ts) pv off le (some []) = .ok (bs.length, bs, some (lall.take k')) :=
  marshal_eq_spec A hA hpos le ts pv items vs lall k' off bs fuel hitems hrep henc
    (Nat.le_trans (Spec.depthAll_le_sized A (endianOf le) ts vs off bs henc) hfuel)

theorem marshal_eq_spec_conf_sized (A : AlignTable) (hA : PadOK A) (hpos : A.Pos) (le : Bool) (ts : List Ty) (pv : PyVal)
    (items : List PyVal) (vs : List Val) (lall : List PyVal) (k' off : Nat) (bs : Bytes) (fuel : Nat)
    (hitems : structFields pv = some items) (hrep : ConfFields lall vs true ts items 0 k')
    (henc : Spec.encodeAll A (endianOf le) ts vs off = some bs) (hfuel : (renderAll ts).length + bs.length ≤ fuel) :
    marshal fuel (renderAll ts) pv off le (some []) = .ok (bs.length, bs, some (lall.take k')) :=
  marshal_eq_spec_conf A hA hpos le ts pv items vs lall k' off bs fuel hitems hrep henc
    (Nat.le_trans (Spec.depthAll_le_sized A (endianOf le) ts vs off bs henc) hfuel)

/-- `marshal_eq_spec` for a signature without `v`: the fuel is bounded by the SIGNATURE alone - its nesting depth
`tyDepthAll ts` (at most 64 + 1 for a valid signature), a fortiori its length. -/
theorem marshal_eq_spec_noVariant (A : AlignTable) (hA : PadOK A) (hpos : A.Pos) (le : Bool) (ts : List Ty) (pv : PyVal)
    (items : List PyVal) (vs : List Val) (lall : List PyVal) (k' off : Nat) (bs : Bytes) (fuel : Nat)
    (hitems : topItems pv = .ok items) (hrep : RepFields lall vs true ts items 0 k')
    (henc : Spec.encodeAll A (endianOf le) ts vs off = some bs)
    (hnv : allNoVariant ts = true) (hfuel : tyDepthAll ts ≤ fuel) :
    marshal fuel (renderAll ts) pv off le (some []) = .ok (bs.length, bs, some (lall.take k')) :=
  marshal_eq_spec A hA hpos le ts pv items vs lall k' off bs fuel hitems hrep henc
    (Nat.le_trans (Spec.depth_fields_ty A (endianOf le) vs ts off bs henc hnv) hfuel)

theorem marshal_eq_spec_conf_noVariant (A : AlignTable) (hA : PadOK A) (hpos : A.Pos) (le : Bool) (ts : List Ty)
    (pv : PyVal) (items : List PyVal) (vs : List Val) (lall : List PyVal) (k' off : Nat) (bs : Bytes) (fuel : Nat)
    (hitems : structFields pv = some items) (hrep : ConfFields lall vs true ts items 0 k')
    (henc : Spec.encodeAll A (endianOf le) ts vs off = some bs)
    (hnv : allNoVariant ts = true) (hfuel : tyDepthAll ts ≤ fuel) :
    marshal fuel (renderAll ts) pv off le (some []) = .ok (bs.length, bs, some (lall.take k')) :=
  marshal_eq_spec_conf A hA hpos le ts pv items vs lall k' off bs fuel hitems hrep henc
    (Nat.le_trans (Spec.depth_fields_ty A (endianOf le) vs ts off bs henc hnv) hfuel)

end Code

/-! ### data of the instances in `Properties/C01.lean`, `Properties/C02.lean`

A variant (holding the list `[1, 2]`, inferred `ai`) inside a dict inside an array inside an array, then a descriptor:
signature `aa{sv}h`, Python values `[[{'k': [1, 2]}], 5]`; little endian at offset 3 (41 bytes), big endian at offset 1
(43 bytes, padding in other places).  The value is 6 levels deep. -/
namespace FuelFreeEx

def ts : List Ty := [.array (.array (.dict (.basic .s) .variant)), .basic .h]
def sig : List Char := ['a', 'a', '{', 's', 'v', '}', 'h']
def pv : PyVal := .list [.list [.dict [(.str .plain ['k'], .list [.int .plain 1, .int .plain 2])]], .int .plain 5]
def vs : List Val :=
  [.array [.array [.entry (.str [107]) (.variant (.array (.basic .i)) (.array [.int 1, .int 2]))]], .int 0]
/-- what `unmarshal` returns (descriptor list `[5]`). -/
def decoded : List PyVal := [.list [.dict [(.str .plain ['k'], .list [.int .plain 1, .int .plain 2])]], .int .plain 5]
/-- `marshal('aa{sv}h', [[{'k': [1, 2]}], 5], 3, True, [])` as CPython produces it. -/
def bsL : Bytes := [0, 32, 0, 0, 0, 24, 0, 0, 0, 0, 0, 0, 0, 1, 0, 0, 0, 107, 0, 2, 97, 105, 0, 0, 0, 8, 0, 0, 0, 1, 0,
  0, 0, 2, 0, 0, 0, 0, 0, 0, 0]
/-- the same values big endian at offset 1. -/
def bsB : Bytes := [0, 0, 0, 0, 0, 0, 32, 0, 0, 0, 24, 0, 0, 0, 0, 0, 0, 0, 1, 107, 0, 2, 97, 105, 0, 0, 0, 0, 0, 0, 8,
  0, 0, 0, 1, 0, 0, 0, 2, 0, 0, 0, 0]
def pre3 : Bytes := [9, 9, 9]
def pre1 : Bytes := [9]
def suf : Bytes := [0xaa, 0x55]

end FuelFreeEx

end Txdbus
