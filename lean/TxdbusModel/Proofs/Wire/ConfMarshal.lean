import TxdbusModel.Proofs.Wire.MarshalSpec
import TxdbusModel.Proofs.Wire.Conf
/-
Code = Spec (encoding direction) for the second formulation of conformance, `Conf` (Proofs/Wire/Conf.lean):
the same structural recursion as MarshalSpec.lean; the differences are the scalar case (the `Boolean`
wrapper) and the lemmas that turn `Conf`'s own item functions into what the code iterates over.
-/
set_option linter.unusedSimpArgs false

namespace Txdbus
namespace Code
open Gen.Wire (Fn)

theorem arrayItems_of_elems (pv : PyVal) (xs : List PyVal) (h : arrayElems pv = some xs) :
    arrayItems pv = .ok xs := by
  cases pv <;> simp [arrayElems] at h <;> subst h <;> rfl

theorem topItems_of_fields (pv : PyVal) (xs : List PyVal) (h : structFields pv = some xs) :
    topItems pv = .ok xs := by
  cases pv <;> simp [structFields] at h <;> subst h <;> rfl

/-- `marshal_boolean` on any object whose truth value is `b`. -/
theorem marshalOne_truthy (le : Bool) (fuel : Nat) (pv : PyVal) (b : Bool) (off : Nat) (fds : Fds)
    (hr : truthy pv = b) :
    marshalOne le (fuel + 1) ['b'] pv off fds =
      .ok (4, encUInt (endianOf le) 4 (if b then 1 else 0), fds) := by
  simp only [marshalOne, List.head?_cons, disp_b]
  rw [mFixed_uint le _ 'I' 4 _ (if truthy pv = true then 1 else 0) fds (fmt_boolean le) size_boolean rfl rfl
    (by split <;> simp)]
  subst hr
  cases truthy pv <;> simp

theorem confBasic_cases (c : Basic) (v : Val) (pv : PyVal) (h : ConfBasic c v pv) :
    RepBasic c v pv ∨ (c = .b ∧ ∃ b, v = .bool b ∧ pv = .int .boolean (if b then 1 else 0)) := by
  by_cases hcb : c = .b
  · subst hcb
    cases v <;> simp only [ConfBasic] at h <;> try (exact False.elim h)
    rcases h with h | h
    · exact Or.inl (by simpa [RepBasic] using h)
    · exact Or.inr ⟨rfl, _, rfl, h⟩
  · left
    cases c <;> cases v <;> simp only [ConfBasic] at h <;> simp only [RepBasic] <;>
      first
      | exact False.elim h
      | exact absurd rfl hcb
      | (obtain ⟨cls, _, rfl⟩ := h; exact ⟨cls, rfl⟩)
      | exact h

theorem marshalOne_cscalar (A : AlignTable) (hA : PadOK A) (hpos : A.Pos) (lall : List PyVal) (le : Bool) (v : Val)
    (fd : Bool) (t : Ty) (pv : PyVal) (k k' off : Nat) (bs : Bytes) (fuel : Nat)
    (hr : ConfScalar lall v fd t pv k k')
    (he : Spec.encode A (endianOf le) t v off = some bs) (hf : 1 ≤ fuel) :
    marshalOne le fuel t.render pv off (fdsArg fd lall k) = .ok (bs.length, bs, fdsArg fd lall k') := by
  obtain ⟨c, rfl, hcase⟩ := hr
  rcases hcase with ⟨rfl, rfl, rfl, rfl, hl, _⟩ | ⟨hc, hb, rfl⟩
  · -- a descriptor: as for `Rep` (the condition on the normal form plays no role when encoding)
    have hk : k < lall.length := (List.getElem?_eq_some_iff.1 hl).1
    have hlen : (lall.take k).length = k := by simp; omega
    obtain ⟨f, rfl⟩ : ∃ f, fuel = f + 1 := ⟨fuel - 1, by omega⟩
    simp only [Spec.encode] at he
    obtain ⟨h, rfl⟩ := encBasic_uint _ .h 4 rfl _ _ he
    simp only [Ty.render, marshalOne, Basic.code, List.head?_cons, disp_h, fdsArg, if_true]
    rw [mFixed_uint le _ 'I' 4 (.int .plain ((lall.take k).length : Int)) (k : Int) _ (fmt_unix_fd le) size_unix_fd rfl
      (by simp [PyVal.asInt?, hlen]) h]
    simp [fdsArg_take_succ lall k pv hl]
  · rcases confBasic_cases c v pv hb with hrb | ⟨rfl, b, rfl, rfl⟩
    · exact marshalOne_scalar A hA hpos lall le v fd (.basic c) pv _ _ off bs fuel ⟨c, rfl, Or.inr ⟨hc, hrb, rfl⟩⟩ he hf
    · obtain ⟨f, rfl⟩ : ∃ f, fuel = f + 1 := ⟨fuel - 1, by omega⟩
      simp only [Spec.encode, Spec.encBasic, Basic.shape, Option.some.injEq] at he; subst he
      simp only [Ty.render, Basic.code]
      rw [marshalOne_truthy le f _ b off _ (by cases b <;> simp [truthy])]
      simp

mutual
theorem marshalOne_conf (A : AlignTable) (hA : PadOK A) (hpos : A.Pos) (lall : List PyVal) (le : Bool) :
    ∀ (v : Val) (fd : Bool) (t : Ty) (pv : PyVal) (k k' off : Nat) (bs : Bytes) (fuel : Nat),
      Conf lall v fd t pv k k' → Spec.encode A (endianOf le) t v off = some bs → v.depth ≤ fuel →
      marshalOne le fuel t.render pv off (fdsArg fd lall k) = .ok (bs.length, bs, fdsArg fd lall k')
  | .int n, fd, t, pv, k, k', off, bs, fuel, hr, he, hf => by
    simp only [Conf] at hr; simp only [Val.depth] at hf
    exact marshalOne_cscalar A hA hpos lall le _ fd t pv k k' off bs fuel hr he hf
  | .bool b, fd, t, pv, k, k', off, bs, fuel, hr, he, hf => by
    simp only [Conf] at hr; simp only [Val.depth] at hf
    exact marshalOne_cscalar A hA hpos lall le _ fd t pv k k' off bs fuel hr he hf
  | .double b, fd, t, pv, k, k', off, bs, fuel, hr, he, hf => by
    simp only [Conf] at hr; simp only [Val.depth] at hf
    exact marshalOne_cscalar A hA hpos lall le _ fd t pv k k' off bs fuel hr he hf
  | .str b, fd, t, pv, k, k', off, bs, fuel, hr, he, hf => by
    simp only [Conf] at hr; simp only [Val.depth] at hf
    exact marshalOne_cscalar A hA hpos lall le _ fd t pv k k' off bs fuel hr he hf
  | .variant t' v', fd, t, pv, k, k', off, bs, fuel, hr, he, hf => by
    simp only [Conf] at hr
    obtain ⟨rfl, hsig, hrep, rfl⟩ := hr
    simp only [Spec.encode] at he
    split at he <;> try (simp at he; done)
    rename_i hok
    split at he <;> try (simp at he; done)
    rename_i body hbody
    simp only [Option.some.injEq] at he; subst he
    simp only [Val.depth] at hf
    obtain ⟨f, rfl⟩ : ∃ f, fuel = f + 1 := ⟨fuel - 1, by omega⟩
    have ih := marshalOne_conf A hA hpos lall le v' false t' pv _ _ _ body f hrep hbody (by omega)
    have hok' := hok
    simp only [Spec.variantTypeOk, Bool.and_eq_true, decide_eq_true_eq] at hok'
    have hpos' := hpos t'
    simp only [List.length_append, encUInt_length, Spec.sigBytes_length, List.length_cons, List.length_nil] at ih hbody ⊢
    simp only [Ty.render, marshalOne, List.head?_cons, disp_v, hsig, mSignature_render le t' _ hok'.2,
      head?_render, hA]
    have e1 : off + (2 + t'.render.length) = off + (1 + t'.render.length + (0 + 1)) := by omega
    rw [e1, marshalTop_single A hA hpos _ t' pv _ none (padLen_after _ _ hpos')]
    simp only [fdsArg] at ih
    simp only [Bool.false_eq_true, if_false] at ih
    rw [ih]
    simp only [Except.ok.injEq, Prod.mk.injEq, and_true, zeros_length]
    omega
  | .array vs, fd, t, pv, k, k', off, bs, fuel, hr, he, hf => by
    simp only [Conf] at hr
    obtain ⟨el, rfl, hcase⟩ := hr
    have hit : ∃ items, arrayItems pv = .ok items ∧ ConfElems lall vs fd el items k k' := by
      rcases hcase with ⟨kt, vt, kvs, rfl, rfl, h⟩ | ⟨_, xs, hx, h⟩
      · exact ⟨_, rfl, h⟩
      · exact ⟨xs, arrayItems_of_elems pv xs hx, h⟩
    obtain ⟨items, hitems, hrep⟩ := hit
    simp only [Spec.encode] at he
    split at he <;> try (simp at he; done)
    rename_i body hbody
    split at he <;> try (simp at he; done)
    rename_i hmax
    simp only [Option.some.injEq] at he; subst he
    simp only [Val.depth] at hf
    obtain ⟨f, rfl⟩ : ∃ f, fuel = f + 1 := ⟨fuel - 1, by omega⟩
    have ih := marshalElems_conf A hA hpos lall le vs fd el items k k' _ body f 0 hrep hbody (by omega)
    have hlt : (body.length : Int) < ((256 ^ 4 : Nat) : Int) := by
      unfold Spec.maxArray at hmax; omega
    simp only [Ty.render, marshalOne, List.head?_cons, disp_a, List.tail, head?_render, hA, hitems, ih,
      fmt_array, frame_array, Nat.zero_add]
    rw [pack_uint 'I' le 4 (.int .plain (body.length : Int)) _ rfl rfl (by omega) hlt]
    simp only [Int.toNat_natCast, zeros_length, List.length_append, encUInt_length]
  | .struct vs, fd, t, pv, k, k', off, bs, fuel, hr, he, hf => by
    simp only [Conf] at hr
    obtain ⟨fs, items, rfl, hsf, hrep⟩ := hr
    have hitems := topItems_of_fields pv items hsf
    simp only [Spec.encode] at he
    simp only [Val.depth] at hf
    obtain ⟨f, rfl⟩ : ∃ f, fuel = f + 1 := ⟨fuel - 1, by omega⟩
    have ih := marshalSeq_conf A hA hpos lall le vs fd fs items k k' off bs f hrep he (by omega)
    have hd : marshalOne le (f + 1) (Ty.struct fs).render pv off (fdsArg fd lall k) =
        marshalTop (marshalOne le f) (Ty.struct fs).render.tail.dropLast pv off (fdsArg fd lall k) := by
      simp only [Ty.render, marshalOne, List.head?_cons, disp_struct]
    rw [hd, struct_inner]
    unfold marshalTop
    simp only [hitems, lazyPieces_renderAll, ih]
    simp
  | .entry a b, fd, t, pv, k, k', off, bs, fuel, hr, he, hf => by
    simp only [Conf] at hr
    obtain ⟨kt, vt, x, y, k1, rfl, hsf, hra, hrb⟩ := hr
    have hitems := topItems_of_fields pv [x, y] hsf
    simp only [Spec.encode] at he
    split at he <;> try (simp at he; done)
    rename_i kb hkb
    split at he <;> try (simp at he; done)
    rename_i vb hvb
    simp only [Option.some.injEq] at he; subst he
    simp only [Val.depth] at hf
    obtain ⟨f, rfl⟩ : ∃ f, fuel = f + 1 := ⟨fuel - 1, by omega⟩
    have iha := marshalOne_conf A hA hpos lall le a fd kt x k k1 _ kb f hra hkb (by omega)
    have ihb := marshalOne_conf A hA hpos lall le b fd vt y k1 k' _ vb f hrb hvb (by omega)
    have hd : marshalOne le (f + 1) (Ty.dict kt vt).render pv off (fdsArg fd lall k) =
        marshalTop (marshalOne le f) (Ty.dict kt vt).render.tail.dropLast pv off (fdsArg fd lall k) := by
      simp only [Ty.render, marshalOne, List.head?_cons, disp_dict]
    rw [hd, dict_inner]
    unfold marshalTop
    have hlp := lazyPieces_renderAll [kt, vt]
    simp only [List.map_cons, List.map_nil] at hlp
    simp only [hitems, hlp, marshalSeq, head?_render, hA, iha, ihb]
    simp only [Except.ok.injEq, Prod.mk.injEq, and_true, List.append_nil, List.length_append, zeros_length,
      List.append_assoc]
    omega
theorem marshalElems_conf (A : AlignTable) (hA : PadOK A) (hpos : A.Pos) (lall : List PyVal) (le : Bool) :
    ∀ (vs : List Val) (fd : Bool) (el : Ty) (items : List PyVal) (k k' off : Nat) (body : Bytes) (fuel dl : Nat),
      ConfElems lall vs fd el items k k' →
      Spec.encodeElems A (endianOf le) el vs off = some body → depthAll vs ≤ fuel →
      marshalElems (marshalOne le fuel el.render) el.code items off dl (fdsArg fd lall k) =
        .ok (off + body.length, dl + body.length, body, fdsArg fd lall k')
  | [], fd, el, items, k, k', off, body, fuel, dl, hr, he, _ => by
    simp only [ConfElems] at hr
    obtain ⟨rfl, rfl⟩ := hr
    simp only [Spec.encodeElems, Option.some.injEq] at he; subst he
    simp [marshalElems]
  | v :: vs, fd, el, items, k, k', off, body, fuel, dl, hr, he, hf => by
    simp only [ConfElems] at hr
    obtain ⟨x, xs, k1, rfl, hrv, hrs⟩ := hr
    simp only [Spec.encodeElems] at he
    split at he <;> try (simp at he; done)
    rename_i b hb
    split at he <;> try (simp at he; done)
    rename_i r hr'
    simp only [Option.some.injEq] at he; subst he
    simp only [depthAll] at hf
    have ih1 := marshalOne_conf A hA hpos lall le v fd el x k k1 _ b fuel hrv hb (by omega)
    have ih2 := marshalElems_conf A hA hpos lall le vs fd el xs k1 k' _ r fuel
      (dl + padLen (A el.code) off + b.length) hrs hr' (by omega)
    simp only [marshalElems, hA, ih1, ih2]
    simp only [Except.ok.injEq, Prod.mk.injEq, and_true, List.length_append, zeros_length]
    omega
theorem marshalSeq_conf (A : AlignTable) (hA : PadOK A) (hpos : A.Pos) (lall : List PyVal) (le : Bool) :
    ∀ (vs : List Val) (fd : Bool) (ts : List Ty) (items : List PyVal) (k k' off : Nat) (bs : Bytes) (fuel : Nat),
      ConfFields lall vs fd ts items k k' →
      Spec.encodeFields A (endianOf le) ts vs off = some bs → depthAll vs ≤ fuel →
      marshalSeq (marshalOne le fuel) (ts.map Ty.render) none items off (fdsArg fd lall k) =
        .ok (off + bs.length, bs, fdsArg fd lall k')
  | [], fd, ts, items, k, k', off, bs, fuel, hr, he, _ => by
    simp only [ConfFields] at hr
    obtain ⟨rfl, rfl, rfl⟩ := hr
    simp only [Spec.encodeFields, Option.some.injEq] at he; subst he
    simp [marshalSeq]
  | v :: vs, fd, ts, items, k, k', off, bs, fuel, hr, he, hf => by
    simp only [ConfFields] at hr
    obtain ⟨t, ts', x, xs, k1, rfl, rfl, hrv, hrs⟩ := hr
    simp only [Spec.encodeFields] at he
    split at he <;> try (simp at he; done)
    rename_i b hb
    split at he <;> try (simp at he; done)
    rename_i r hr'
    simp only [Option.some.injEq] at he; subst he
    simp only [depthAll] at hf
    have ih1 := marshalOne_conf A hA hpos lall le v fd t x k k1 _ b fuel hrv hb (by omega)
    have ih2 := marshalSeq_conf A hA hpos lall le vs fd ts' xs k1 k' _ r fuel hrs hr' (by omega)
    simp only [List.map_cons, marshalSeq, head?_render, hA, ih1, ih2]
    simp only [Except.ok.injEq, Prod.mk.injEq, and_true, List.length_append, zeros_length]
    omega
end

end Code
end Txdbus
