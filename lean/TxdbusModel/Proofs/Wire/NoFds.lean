import TxdbusModel.Proofs.Wire.TopLevel
import TxdbusModel.Proofs.Wire.Normal
/-
The wire codec WITHOUT a descriptor list (`oobFDs` left out or `None`), for values that hold no descriptor
(state-leak round 2026-09-30: the harnesses now also call `marshal` / `unmarshal` without the keyword).

`Rep lall v false t pv k k'` is conformance with the flag "no list" (`fdsArg false _ _ = none`): a UNIX_FD cannot
be represented under it (`RepScalar` asks `fd = true` for `h`), everything else can - it is the relation the
proofs already use for the content of a variant, where `marshal_variant` calls `marshal` without the list.

* `fromSpec_noFd` / `fromSpecList_noFd` / `fromSpecFields_noFd`: what the decoder returns for such a value does
  not depend on the descriptor list it is given (any list, or none).
* `marshal_eq_spec_noFd`: `marshal(sig, values, off, lendian)` = the bytes of the spec encoder, descriptor
  list stays `None`.
* `marshal_eq_spec_from`: `marshal` entered with a list that already holds `k` descriptors (left by earlier calls).
-/
namespace Txdbus
namespace Code
namespace NoFds

theorem fromSpec_scalar_noFd (lall : List PyVal) (fds : Fds) (v : Val) (t : Ty) (pv : PyVal) (k k' : Nat)
    (hv : (∃ n, v = .int n) ∨ (∃ b, v = .bool b) ∨ (∃ b, v = .double b) ∨ (∃ b, v = .str b))
    (hr : RepScalar lall v false t pv k k') : fromSpec fds v t = fromSpec (some lall) v t := by
  obtain ⟨c, rfl, hcase⟩ := hr
  rcases hcase with ⟨_, hfd, _⟩ | ⟨hc, _, _⟩
  · exact absurd hfd (by decide)
  · rcases hv with ⟨n, rfl⟩ | ⟨b, rfl⟩ | ⟨b, rfl⟩ | ⟨b, rfl⟩
    · cases c <;> first | (exfalso; exact hc rfl) | simp [fromSpec]
    · simp [fromSpec]
    · simp [fromSpec]
    · cases c <;> simp [fromSpec]

mutual
theorem fromSpec_noFd (lall : List PyVal) (fds : Fds) :
    ∀ (v : Val) (t : Ty) (pv : PyVal) (k k' : Nat),
      Rep lall v false t pv k k' → fromSpec fds v t = fromSpec (some lall) v t
  | .int n, t, pv, k, k', hr => by
    simp only [Rep] at hr; exact fromSpec_scalar_noFd lall fds _ t pv k k' (Or.inl ⟨_, rfl⟩) hr
  | .bool b, t, pv, k, k', hr => by
    simp only [Rep] at hr; exact fromSpec_scalar_noFd lall fds _ t pv k k' (Or.inr (Or.inl ⟨_, rfl⟩)) hr
  | .double b, t, pv, k, k', hr => by
    simp only [Rep] at hr; exact fromSpec_scalar_noFd lall fds _ t pv k k' (Or.inr (Or.inr (Or.inl ⟨_, rfl⟩))) hr
  | .str b, t, pv, k, k', hr => by
    simp only [Rep] at hr; exact fromSpec_scalar_noFd lall fds _ t pv k k' (Or.inr (Or.inr (Or.inr ⟨_, rfl⟩))) hr
  | .variant t' v', t, pv, k, k', hr => by
    simp only [Rep] at hr
    obtain ⟨rfl, _, hrep, _⟩ := hr
    simp only [fromSpec]
    exact fromSpec_noFd lall fds v' t' pv _ _ hrep
  | .array vs, t, pv, k, k', hr => by
    simp only [Rep] at hr
    obtain ⟨el, items, rfl, _, _, hrep⟩ := hr
    have ih := fromSpecList_noFd lall fds vs el items k k' hrep
    cases el <;> simp only [fromSpec, ih]
  | .struct vs, t, pv, k, k', hr => by
    simp only [Rep] at hr
    obtain ⟨fs, items, rfl, _, _, hrep⟩ := hr
    have ih := fromSpecFields_noFd lall fds vs fs items k k' hrep
    simp only [fromSpec, ih]
  | .entry a b, t, pv, k, k', hr => by
    simp only [Rep] at hr
    obtain ⟨kt, vt, x, y, k1, rfl, _, _, hra, hrb⟩ := hr
    have iha := fromSpec_noFd lall fds a kt x k k1 hra
    have ihb := fromSpec_noFd lall fds b vt y k1 k' hrb
    simp only [fromSpec, iha, ihb]
theorem fromSpecList_noFd (lall : List PyVal) (fds : Fds) :
    ∀ (vs : List Val) (el : Ty) (items : List PyVal) (k k' : Nat),
      RepElems lall vs false el items k k' → fromSpecList fds vs el = fromSpecList (some lall) vs el
  | [], el, items, k, k', _ => by simp only [fromSpecList]
  | v :: vs, el, items, k, k', hr => by
    simp only [RepElems] at hr
    obtain ⟨x, xs, k1, rfl, hrv, hrs⟩ := hr
    have ih1 := fromSpec_noFd lall fds v el x k k1 hrv
    have ih2 := fromSpecList_noFd lall fds vs el xs k1 k' hrs
    simp only [fromSpecList, ih1, ih2]
theorem fromSpecFields_noFd (lall : List PyVal) (fds : Fds) :
    ∀ (vs : List Val) (ts : List Ty) (items : List PyVal) (k k' : Nat),
      RepFields lall vs false ts items k k' → fromSpecFields fds vs ts = fromSpecFields (some lall) vs ts
  | [], ts, items, k, k', hr => by
    simp only [RepFields] at hr
    obtain ⟨rfl, _, _⟩ := hr
    simp only [fromSpecFields]
  | v :: vs, ts, items, k, k', hr => by
    simp only [RepFields] at hr
    obtain ⟨t, ts', x, xs, k1, rfl, rfl, hrv, hrs⟩ := hr
    have ih1 := fromSpec_noFd lall fds v t x k k1 hrv
    have ih2 := fromSpecFields_noFd lall fds vs ts' xs k1 k' hrs
    simp only [fromSpecFields, ih1, ih2]
end

/-- What `unmarshal` returns for conforming values without descriptors, whatever descriptor list it is given. -/
theorem fromSpecFields_of_rep_noFd (lall : List PyVal) (fds : Fds) (vs : List Val) (ts : List Ty) (items : List PyVal)
    (k k' : Nat) (hrep : RepFields lall vs false ts items k k') (hkeys : KeysOKList items) :
    fromSpecFields fds vs ts = some (plainList items) := by
  rw [fromSpecFields_noFd lall fds vs ts items k k' hrep]
  exact fromSpecFields_of_rep lall vs false ts items k k' hrep hkeys

/-- `marshal(render ts, pv, off, lendian)` - no `oobFDs` - produces exactly the bytes of the spec encoder for
conforming values that hold no descriptor; the descriptor list stays `None`. -/
theorem marshal_eq_spec_noFd (A : AlignTable) (hA : PadOK A) (hpos : A.Pos) (le : Bool) (ts : List Ty) (pv : PyVal)
    (items : List PyVal) (vs : List Val) (lall : List PyVal) (k' off : Nat) (bs : Bytes) (fuel : Nat)
    (hitems : topItems pv = .ok items) (hrep : RepFields lall vs false ts items 0 k')
    (henc : Spec.encodeAll A (endianOf le) ts vs off = some bs) (hfuel : depthAll vs ≤ fuel) :
    marshal fuel (renderAll ts) pv off le none = .ok (bs.length, bs, none) := by
  unfold marshal marshalTop
  unfold Spec.encodeAll at henc
  have h := marshalSeq_spec A hA hpos lall le vs false ts items 0 k' off bs fuel hrep henc hfuel
  simp only [fdsArg, Bool.false_eq_true, if_false] at h
  simp only [hitems, lazyPieces_renderAll, h]
  simp

/-- `marshal` called with a descriptor list that is NOT empty (`lall.take k`: what earlier calls - successful or failed -
left in it): the descriptors of this call are appended behind them, the bytes carry the indices `k, k+1, ..` (that is
what `RepFields lall vs true ts items k k'` says of the spec values), nothing already in the list is touched. -/
theorem marshal_eq_spec_from (A : AlignTable) (hA : PadOK A) (hpos : A.Pos) (le : Bool) (ts : List Ty) (pv : PyVal)
    (items : List PyVal) (vs : List Val) (lall : List PyVal) (k k' off : Nat) (bs : Bytes) (fuel : Nat)
    (hitems : topItems pv = .ok items) (hrep : RepFields lall vs true ts items k k')
    (henc : Spec.encodeAll A (endianOf le) ts vs off = some bs) (hfuel : depthAll vs ≤ fuel) :
    marshal fuel (renderAll ts) pv off le (some (lall.take k)) = .ok (bs.length, bs, some (lall.take k')) := by
  unfold marshal marshalTop
  unfold Spec.encodeAll at henc
  have h := marshalSeq_spec A hA hpos lall le vs true ts items k k' off bs fuel hrep henc hfuel
  simp only [fdsArg, if_true] at h
  simp only [hitems, lazyPieces_renderAll, h]
  simp

end NoFds
end Code
end Txdbus
