import TxdbusModel.Wire.Spec
import TxdbusModel.Proofs.Wire.Prim
import TxdbusModel.Proofs.Wire.SigParse
/-
Round trip of the spec codec, part 1: padding, fixed-size and string-like values.
-/
namespace Txdbus
namespace Spec

theorem all_zero_zeros (p : Nat) : (zeros p).all (· == 0) = true := by
  simp [zeros]

theorem skipPad_zeros (a off : Nat) (r : Bytes) :
    skipPad a (zeros (padLen a off) ++ r) off = some (r, off + padLen a off) := by
  unfold skipPad
  simp [all_zero_zeros]

theorem takeN_append (k : Nat) (w r : Bytes) (h : w.length = k) : takeN k (w ++ r) = some (w, r) := by
  unfold takeN
  subst h
  simp

/-- The widths of the two's-complement types are positive. -/
theorem Basic.shape_sint_pos (c : Basic) (k : Nat) (h : c.shape = .sint k) : 0 < k := by
  cases c <;> simp [Basic.shape] at h <;> omega

theorem Basic.shape_uint_pos (c : Basic) (k : Nat) (h : c.shape = .uint k) : 0 < k := by
  cases c <;> simp [Basic.shape] at h <;> omega

theorem rt_basic (e : Endian) (c : Basic) (v : Val) (bs rest : Bytes) (off : Nat)
    (h : encBasic e c v = some bs) :
    decBasic e c (bs ++ rest) off = some (v, rest, off + bs.length) := by
  unfold encBasic at h
  unfold decBasic
  have hs := Basic.shape_sint_pos c
  generalize c.shape = sh at *
  cases sh with
  | uint k =>
    cases v <;> try (simp at h; done)
    rename_i n
    dsimp only at h
    split at h <;> try (simp at h; done)
    rename_i hc
    obtain ⟨h0, h1⟩ := hc
    simp only [Option.some.injEq] at h; subst h
    have hlt : n.toNat < 256 ^ k := by omega
    simp [takeN_append, decUInt_encUInt e k _ hlt, Int.toNat_of_nonneg h0]
  | sint k =>
    cases v <;> try (simp at h; done)
    rename_i n
    dsimp only at h
    split at h <;> try (simp at h; done)
    rename_i hc
    obtain ⟨h0, h1⟩ := hc
    simp only [Option.some.injEq] at h; subst h
    simp [takeN_append, decSInt_encSInt e k (hs k rfl) n h0 h1]
  | bool =>
    cases v <;> simp at h
    rename_i b
    subst h
    cases b <;> simp [takeN_append, decUInt_encUInt]
  | double =>
    cases v <;> simp at h
    rename_i bits
    subst h
    have hlt : bits.toNat < 256 ^ 8 := by have := UInt64.toNat_lt bits; omega
    simp [takeN_append, decUInt_encUInt e 8 _ hlt]
  | str32 =>
    cases v <;> simp at h
    rename_i s
    obtain ⟨⟨h0, h1⟩, rfl⟩ := h
    have hlt : s.length < 256 ^ 4 := by omega
    simp only [List.append_assoc]
    rw [takeN_append 4 _ _ (by simp)]
    simp only [decUInt_encUInt e 4 _ hlt]
    rw [takeN_append s.length _ _ rfl]
    simp [h0]; omega
  | str8 =>
    cases v <;> simp at h
    rename_i s
    obtain ⟨⟨h0, h1⟩, rfl⟩ := h
    have hlt : s.length < 256 ^ 1 := by omega
    simp only [List.append_assoc]
    rw [takeN_append 1 _ _ (by simp)]
    simp only [decUInt_encUInt e 1 _ hlt]
    rw [takeN_append s.length _ _ rfl]
    simp [h0]; omega

theorem encBasic_nonempty (e : Endian) (c : Basic) (v : Val) (bs : Bytes)
    (h : encBasic e c v = some bs) : 0 < bs.length := by
  unfold encBasic at h
  have hs := Basic.shape_sint_pos c
  have hu := Basic.shape_uint_pos c
  generalize c.shape = sh at *
  cases sh <;> cases v <;> simp at h
  · obtain ⟨_, rfl⟩ := h; simp; exact hu _ rfl
  · obtain ⟨_, rfl⟩ := h; simp; exact hs _ rfl
  · subst h; simp
  · subst h; simp
  · obtain ⟨_, rfl⟩ := h; simp; omega
  · obtain ⟨_, rfl⟩ := h; simp; omega

/-- A signature survives the trip through bytes. -/
theorem bytesToChars_sigBytes (t : Ty) : bytesToChars (sigBytes t) = t.render := by
  unfold bytesToChars sigBytes
  rw [List.map_map]
  have h := t.render_ascii
  generalize t.render = cs at *
  induction cs with
  | nil => rfl
  | cons c cs ih =>
    have hc := h c (by simp)
    have ih' := ih (fun c' hc' => h c' (by simp [hc']))
    simp only [List.map_cons, ih', Function.comp]
    congr 1
    have : (UInt8.ofNat c.toNat).toNat = c.toNat := by
      rw [UInt8.toNat_ofNat']; unfold sigCharOk at hc; omega
    rw [this]
    exact Char.ofNat_toNat c

theorem strOk_sigBytes (t : Ty) : strOk (sigBytes t) = true := by
  unfold strOk sigBytes
  have h := t.render_ascii
  generalize t.render = cs at *
  simp only [Bool.not_eq_true', List.contains_eq_mem, List.mem_map, decide_eq_false_iff_not, not_exists, not_and]
  intro c hc habs
  have hc' := h c hc
  unfold sigCharOk at hc'
  have : (UInt8.ofNat c.toNat).toNat = c.toNat := by rw [UInt8.toNat_ofNat']; omega
  rw [habs] at this
  simp at this
  omega

@[simp] theorem sigBytes_length (t : Ty) : (sigBytes t).length = t.render.length := by
  simp [sigBytes]

end Spec
end Txdbus
