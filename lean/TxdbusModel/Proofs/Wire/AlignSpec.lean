import TxdbusModel.Proofs.Wire.CodePrim
/-
The alignment table generated from `dbus_types` is the table of the DBus specification, and therefore
`pad[tcode](x)` is the specification's padding rule (C02 only).
-/
namespace Txdbus
namespace Code

/-! ### the generated tables against the specification -/

/-- `dbus_types` is the alignment table of the specification on the 17 type codes: each of them is looked up
(the translator refuses a table that lists a code twice, so first match = last assignment of the `pad` loop) to the alignment the specification gives, and every
row for one of the 17 codes carries that alignment.  Rows for further codes (a future type) are not constrained. -/
theorem alignTable_eq_spec :
    (∀ c ∈ typeCodes, Gen.Wire.alignTable.lookup c = some (Spec.alignTable c)) ∧
    ∀ p ∈ Gen.Wire.alignTable, p.1 ∈ typeCodes → Spec.alignTable p.1 = p.2 := by
  decide

theorem lookup_align (t : Ty) : Gen.Wire.alignTable.lookup t.code = some (Spec.alignTable t.code) := by
  cases t with
  | basic c => cases c <;> rfl
  | _ => rfl

theorem align_cases (t : Ty) :
    Spec.alignTable t.code = 1 ∨ Spec.alignTable t.code = 2 ∨ Spec.alignTable t.code = 4 ∨
      Spec.alignTable t.code = 8 := by
  cases t with
  | basic c => cases c <;> decide
  | variant => decide
  | array _ => exact Or.inr (Or.inr (Or.inl rfl))
  | struct _ => exact Or.inr (Or.inr (Or.inr rfl))
  | dict _ _ => exact Or.inr (Or.inr (Or.inr rfl))

theorem alignTable_pos : AlignTable.Pos Spec.alignTable := by
  intro t
  rcases align_cases t with h | h | h | h <;> omega

/-- `pad[tcode](x)` is the padding rule of the specification, for every type code and every offset. -/
theorem padLenOf_code (t : Ty) (x : Nat) :
    padLenOf t.code x = .ok (padLen (Spec.alignTable t.code) x) := by
  have h := padOK_gen t x
  simp only [genAlign, lookup_align, Option.getD_some] at h
  exact h

theorem padOK_spec : PadOK Spec.alignTable := padLenOf_code

/-- The complete padding table of C02: for each of the 17 type codes and every offset, the number of
padding bytes is `(A - off % A) % A` with `A` the alignment the specification gives. -/
theorem padLenOf_spec (c : Char) (a : Nat) (h : (c, a) ∈ Gen.Wire.alignTable) (hc : c ∈ typeCodes) (x : Nat) :
    padLenOf c x = .ok ((a - x % a) % a) := by
  have ha : Spec.alignTable c = a := alignTable_eq_spec.2 (c, a) h hc
  have ht : ∃ t : Ty, t.code = c := by
    simp only [typeCodes, List.mem_cons, List.not_mem_nil, or_false] at hc
    rcases hc with h | h | h | h | h | h | h | h | h | h | h | h | h | h | h | h | h <;> rw [h]
    · exact ⟨.basic .y, rfl⟩
    · exact ⟨.basic .b, rfl⟩
    · exact ⟨.basic .n, rfl⟩
    · exact ⟨.basic .q, rfl⟩
    · exact ⟨.basic .i, rfl⟩
    · exact ⟨.basic .u, rfl⟩
    · exact ⟨.basic .x, rfl⟩
    · exact ⟨.basic .t, rfl⟩
    · exact ⟨.basic .d, rfl⟩
    · exact ⟨.basic .s, rfl⟩
    · exact ⟨.basic .o, rfl⟩
    · exact ⟨.basic .g, rfl⟩
    · exact ⟨.array (.basic .y), rfl⟩
    · exact ⟨.struct [], rfl⟩
    · exact ⟨.variant, rfl⟩
    · exact ⟨.dict (.basic .y) (.basic .y), rfl⟩
    · exact ⟨.basic .h, rfl⟩
  obtain ⟨t, ht⟩ := ht
  rw [← ht, padLenOf_code, ht, ha]
  rfl

end Code
end Txdbus
