import TxdbusModel.Wire.Prim
/-
Lemmas about the byte-level primitives: the integer codecs invert each other on their ranges, in
both byte orders; two's complement for every width >= 1; the padding arithmetic.
-/
namespace Txdbus

@[simp] theorem leBytes_length : ∀ k n, (leBytes k n).length = k
  | 0, _ => rfl
  | k + 1, n => by simp [leBytes, leBytes_length k]

theorem leVal_leBytes : ∀ k n, n < 256 ^ k → leVal (leBytes k n) = n
  | 0, n, h => by simp at h; simp [leBytes, leVal, h]
  | k + 1, n, h => by
    have h2 : n / 256 < 256 ^ k := by
      apply Nat.div_lt_of_lt_mul
      rw [Nat.pow_succ] at h; omega
    simp only [leBytes, leVal, leVal_leBytes k _ h2, UInt8.toNat_ofNat']
    omega

theorem leVal_lt : ∀ bs : Bytes, leVal bs < 256 ^ bs.length
  | [] => by simp [leVal]
  | b :: bs => by
    have := leVal_lt bs
    have hb : b.toNat < 256 := UInt8.toNat_lt b
    simp only [leVal, List.length_cons, Nat.pow_succ]
    omega

theorem leBytes_leVal : ∀ bs : Bytes, leBytes bs.length (leVal bs) = bs
  | [] => rfl
  | b :: bs => by
    have hb : b.toNat < 256 := UInt8.toNat_lt b
    have h1 : (b.toNat + 256 * leVal bs) % 256 = b.toNat := by omega
    have h2 : (b.toNat + 256 * leVal bs) / 256 = leVal bs := by omega
    simp only [leVal, List.length_cons, leBytes, h1, h2, leBytes_leVal bs]
    simp

@[simp] theorem encUInt_length (e : Endian) (k n : Nat) : (encUInt e k n).length = k := by
  cases e <;> simp [encUInt]

theorem decUInt_encUInt (e : Endian) (k n : Nat) (h : n < 256 ^ k) : decUInt e (encUInt e k n) = n := by
  cases e <;> simp [encUInt, decUInt, leVal_leBytes k n h]

theorem decUInt_lt (e : Endian) (bs : Bytes) : decUInt e bs < 256 ^ bs.length := by
  cases e
  · exact leVal_lt bs
  · have := leVal_lt bs.reverse
    simpa [decUInt] using this

/-- Every byte string of length `k` is the encoding of the number it decodes to (no other encodings). -/
theorem encUInt_decUInt (e : Endian) (bs : Bytes) : encUInt e bs.length (decUInt e bs) = bs := by
  cases e
  · exact leBytes_leVal bs
  · have := leBytes_leVal bs.reverse
    simp only [List.length_reverse] at this
    simp [encUInt, decUInt, this]

@[simp] theorem encSInt_length (e : Endian) (k : Nat) (i : Int) : (encSInt e k i).length = k := by
  simp [encSInt]

theorem pow256_even (k : Nat) (hk : 0 < k) : 2 * (256 ^ k / 2) = 256 ^ k := by
  cases k with
  | zero => omega
  | succ k => rw [Nat.pow_succ]; omega

theorem decSInt_encSInt (e : Endian) (k : Nat) (hk : 0 < k) (i : Int)
    (hlo : -((256 ^ k / 2 : Nat) : Int) ≤ i) (hhi : i < ((256 ^ k / 2 : Nat) : Int)) :
    decSInt e (encSInt e k i) = i := by
  have hM := pow256_even k hk
  generalize hMd : 256 ^ k = M at *
  generalize hHd : M / 2 = H at *
  have hMpos : (0 : Int) < (M : Int) := by omega
  unfold decSInt encSInt
  simp only [encUInt_length, hMd]
  by_cases hi : 0 ≤ i
  · have h1 : i % (M : Int) = i := Int.emod_eq_of_lt hi (by omega)
    have hlt : (i % (M : Int)).toNat < 256 ^ k := by rw [h1, hMd]; omega
    rw [decUInt_encUInt e k _ hlt, h1]
    have : 2 * i.toNat < M := by omega
    simp only [this, if_true]
    omega
  · have h1 : i % (M : Int) = i + M := by
      have : (i + M) % (M : Int) = i + M := Int.emod_eq_of_lt (by omega) (by omega)
      rw [← this, Int.add_emod_right]
    have hlt : (i % (M : Int)).toNat < 256 ^ k := by rw [h1, hMd]; omega
    rw [decUInt_encUInt e k _ hlt, h1]
    have : ¬ 2 * (i + (M : Int)).toNat < M := by omega
    simp only [this, if_false]
    omega

theorem padLen_lt (a off : Nat) (ha : 0 < a) : padLen a off < a := Nat.mod_lt _ ha

/-- After the padding the offset is a multiple of the alignment. -/
theorem padLen_aligned (a off : Nat) (ha : 0 < a) : (off + padLen a off) % a = 0 := by
  unfold padLen
  have h := Nat.mod_lt off ha
  by_cases h0 : off % a = 0
  · simp [h0]
  · have h1 : (a - off % a) % a = a - off % a := Nat.mod_eq_of_lt (by omega)
    rw [h1]
    have h2 : off = a * (off / a) + off % a := (Nat.div_add_mod off a).symm
    have h3 : off + (a - off % a) = a * (off / a + 1) := by
      rw [Nat.mul_add, Nat.mul_one]; omega
    rw [h3, Nat.mul_mod_right]

/-- An aligned offset needs no padding, and padding is the least amount that aligns. -/
theorem padLen_eq_zero_iff (a off : Nat) (ha : 0 < a) : padLen a off = 0 ↔ off % a = 0 := by
  unfold padLen
  have h := Nat.mod_lt off ha
  constructor
  · intro h0
    by_cases hz : off % a = 0
    · exact hz
    · rw [Nat.mod_eq_of_lt (by omega)] at h0; omega
  · intro hz; simp [hz]

theorem padLen_minimal (a off p : Nat) (ha : 0 < a) (hp : (off + p) % a = 0) : padLen a off ≤ p := by
  unfold padLen
  have h := Nat.mod_lt off ha
  by_cases hz : off % a = 0
  · simp [hz]
  · rw [Nat.mod_eq_of_lt (by omega)]
    -- off % a + p ≡ 0 (mod a), with 0 < off % a < a, forces p ≥ a - off % a
    have h2 : (off % a + p) % a = 0 := by rw [Nat.add_mod, Nat.mod_mod, ← Nat.add_mod]; exact hp
    by_cases hlt : off % a + p < a
    · rw [Nat.mod_eq_of_lt hlt] at h2; omega
    · omega

@[simp] theorem zeros_length (n : Nat) : (zeros n).length = n := by simp [zeros]

end Txdbus
