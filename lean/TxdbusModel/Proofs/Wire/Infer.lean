import TxdbusModel.Wire.InferTy
/-
The code model `sigFromPy` computes the rendering of the type `inferTy` on every value without
custom `dbusSignature` objects.  Core Lean only.
-/
namespace Txdbus

/-- How a type-level result shows up at string level. -/
def renderRes : Option Ty → Except PyErr (List Char)
  | some t => .ok t.render
  | none => .error .marshalling

def renderAllRes : Option (List Ty) → Except PyErr (List Char)
  | some ts => .ok (renderAll ts)
  | none => .error .marshalling

theorem intSig_eq (n : Int) : intSig n = (Ty.basic (intBasic n)).render := by
  unfold intSig intBasic
  split
  · rfl
  · split <;> rfl

theorem intCls_sig (cls : IntCls) :
    cls.dbusSignature = cls.basic?.map Basic.code := by
  cases cls <;> rfl

theorem strCls_sig (cls : StrCls) :
    (match cls.dbusSignature with | some c => [c] | none => ['s']) = [cls.basic.code] := by
  cases cls <;> rfl

mutual
theorem sigFromPy_eq_inferTy : ∀ v : PyVal, v.noCustomSig = true → sigFromPy v = renderRes (inferTy v)
  | .none, _ => by simp [sigFromPy, inferTy, renderRes]
  | .bool _, _ => by simp [sigFromPy, inferTy, renderRes, Ty.render, Basic.code]
  | .int cls n, _ => by
      cases cls <;> simp [sigFromPy, inferTy, renderRes, IntCls.dbusSignature, IntCls.basic?, intSig_eq,
        Ty.render, Basic.code]
  | .float _, _ => by simp [sigFromPy, inferTy, renderRes, Ty.render, Basic.code]
  | .str cls _, _ => by
      cases cls <;> simp [sigFromPy, inferTy, renderRes, StrCls.dbusSignature, StrCls.basic, Ty.render, Basic.code]
  | .bytearray _, _ => by simp [sigFromPy, inferTy, renderRes, Ty.render, Basic.code]
  | .list [], _ => by simp [sigFromPy, inferTy, renderRes, Ty.render]
  | .list (x :: xs), h => by
      have hx : x.noCustomSig = true := by
        simp [PyVal.noCustomSig, noCustomSigs] at h; exact h.1
      have ih := sigFromPy_eq_inferTy x hx
      simp only [sigFromPy, inferTy]
      split
      · rw [ih]; cases inferTy x <;> simp [renderRes, Ty.render]
      · simp [renderRes, Ty.render]
  | .tuple xs, h => by
      have ih := sigConcat_eq_inferTys xs (by simpa [PyVal.noCustomSig] using h)
      simp only [sigFromPy, inferTy]
      rw [ih]; cases inferTys xs <;> simp [renderRes, renderAllRes, Ty.render]
  | .dict [], _ => by simp [sigFromPy, inferTy, renderRes, Ty.render, Basic.code]
  | .dict ((k, v) :: rest), h => by
      have h' : k.noCustomSig = true ∧ v.noCustomSig = true ∧ noCustomSigPairs rest = true := by
        simp [PyVal.noCustomSig, noCustomSigPairs] at h; exact ⟨h.1.1, h.1.2, h.2⟩
      have ihk := sigLastKey_eq_inferLastKey ((k, v) :: rest)
        (by simp [noCustomSigPairs, h'.1, h'.2.1, h'.2.2]) (by simp)
      have ihv := sigFromPy_eq_inferTy v h'.2.1
      simp only [sigFromPy, inferTy]
      rw [ihk]
      cases inferLastKey ((k, v) :: rest) with
      | none => simp [renderRes]
      | some kt =>
        simp only [renderRes]
        split
        · rw [ihv]; cases inferTy v <;> simp [renderRes, Ty.render]
        · simp [Ty.render]
  | .obj _ (some _) _, h => by simp [PyVal.noCustomSig] at h
  | .obj _ Option.none _, _ => by simp [sigFromPy, inferTy, renderRes]
  | .other _, _ => by simp [sigFromPy, inferTy, renderRes]
theorem sigConcat_eq_inferTys : ∀ xs : List PyVal, noCustomSigs xs = true →
    sigConcat xs = renderAllRes (inferTys xs)
  | [], _ => by simp [sigConcat, inferTys, renderAllRes, renderAll]
  | x :: xs, h => by
      have h' : x.noCustomSig = true ∧ noCustomSigs xs = true := by
        simpa [noCustomSigs] using h
      have ih1 := sigFromPy_eq_inferTy x h'.1
      have ih2 := sigConcat_eq_inferTys xs h'.2
      simp only [sigConcat, inferTys]
      rw [ih1, ih2]
      cases inferTy x <;> cases inferTys xs <;> simp [renderRes, renderAllRes, renderAll]
theorem sigLastKey_eq_inferLastKey : ∀ kvs : List (PyVal × PyVal), noCustomSigPairs kvs = true →
    kvs ≠ [] → sigLastKey kvs = renderRes (inferLastKey kvs)
  | [], _, hne => absurd rfl hne
  | [(k, _)], h, _ => by
      have hk : k.noCustomSig = true := by
        simp [noCustomSigPairs] at h; exact h.1
      simpa [sigLastKey, inferLastKey] using sigFromPy_eq_inferTy k hk
  | _ :: p :: rest, h, _ => by
      have h' : noCustomSigPairs (p :: rest) = true := by
        simp [noCustomSigPairs] at h ⊢; exact ⟨h.2.1, h.2.2⟩
      simpa [sigLastKey, inferLastKey] using sigLastKey_eq_inferLastKey (p :: rest) h' (by simp)
end

/-! ### inference is total on the supported classes -/

mutual
theorem inferTy_total : ∀ v : PyVal, v.builtinOnly = true → ∃ t, inferTy v = some t
  | .none, h => by simp [PyVal.builtinOnly] at h
  | .bool _, _ => by simp [inferTy]
  | .int cls n, _ => by cases cls <;> simp [inferTy, IntCls.basic?]
  | .float _, _ => by simp [inferTy]
  | .str _ _, _ => by simp [inferTy]
  | .bytearray _, _ => by simp [inferTy]
  | .list [], _ => by simp [inferTy]
  | .list (x :: xs), h => by
      have hx : x.builtinOnly = true := by
        simp [PyVal.builtinOnly, builtinOnlys] at h; exact h.1
      obtain ⟨t, ht⟩ := inferTy_total x hx
      simp only [inferTy]
      split <;> simp [ht]
  | .tuple xs, h => by
      obtain ⟨ts, hts⟩ := inferTys_total xs (by simpa [PyVal.builtinOnly] using h)
      simp [inferTy, hts]
  | .dict [], _ => by simp [inferTy]
  | .dict ((k, v) :: rest), h => by
      have h' : k.builtinOnly = true ∧ v.builtinOnly = true ∧ builtinOnlyPairs rest = true := by
        simp [PyVal.builtinOnly, builtinOnlyPairs] at h; exact ⟨h.1.1, h.1.2, h.2⟩
      obtain ⟨kt, hk⟩ := inferLastKey_total ((k, v) :: rest)
        (by simp [builtinOnlyPairs, h'.1, h'.2.1, h'.2.2]) (by simp)
      obtain ⟨vt, hv⟩ := inferTy_total v h'.2.1
      simp only [inferTy, hk]
      split <;> simp [hv]
  | .obj _ _ _, h => by simp [PyVal.builtinOnly] at h
  | .other _, h => by simp [PyVal.builtinOnly] at h
theorem inferTys_total : ∀ xs : List PyVal, builtinOnlys xs = true → ∃ ts, inferTys xs = some ts
  | [], _ => ⟨[], by simp [inferTys]⟩
  | x :: xs, h => by
      have h' : x.builtinOnly = true ∧ builtinOnlys xs = true := by simpa [builtinOnlys] using h
      obtain ⟨t, ht⟩ := inferTy_total x h'.1
      obtain ⟨ts, hts⟩ := inferTys_total xs h'.2
      exact ⟨t :: ts, by simp [inferTys, ht, hts]⟩
theorem inferLastKey_total : ∀ kvs : List (PyVal × PyVal), builtinOnlyPairs kvs = true → kvs ≠ [] →
    ∃ t, inferLastKey kvs = some t
  | [], _, hne => absurd rfl hne
  | [(k, _)], h, _ => by
      have hk : k.builtinOnly = true := by simp [builtinOnlyPairs] at h; exact h.1
      simpa [inferLastKey] using inferTy_total k hk
  | _ :: p :: rest, h, _ => by
      have h' : builtinOnlyPairs (p :: rest) = true := by
        simp [builtinOnlyPairs] at h ⊢; exact ⟨h.2.1, h.2.2⟩
      simpa [inferLastKey] using inferLastKey_total (p :: rest) h' (by simp)
end

/-! ### the inferred type is well formed when the value has an encodable shape -/

theorem wf_array_of_notEntry (t : Ty) (h : t.notEntry = true) : (Ty.array t).wf = t.wf := by
  cases t <;> simp_all [Ty.wf, Ty.notEntry]

theorem scalarKey_basic (k : PyVal) (h : k.isScalarKey = true) : ∃ c, inferTy k = some (.basic c) := by
  cases k <;> simp [PyVal.isScalarKey] at h
  · simp [inferTy]
  · rename_i cls n; cases cls <;> simp [inferTy, IntCls.basic?]
  · simp [inferTy]
  · simp [inferTy]

mutual
theorem inferTy_wf_aux : ∀ v : PyVal, v.encodableShape = true →
    ∃ t, inferTy v = some t ∧ t.wf = true ∧ t.notEntry = true
  | .none, h => by simp [PyVal.encodableShape] at h
  | .bool _, _ => by refine ⟨_, rfl, ?_, ?_⟩ <;> simp [Ty.wf, Ty.notEntry]
  | .int cls n, _ => by cases cls <;> simp [inferTy, IntCls.basic?, Ty.wf, Ty.notEntry]
  | .float _, _ => by refine ⟨_, rfl, ?_, ?_⟩ <;> simp [Ty.wf, Ty.notEntry]
  | .str _ _, _ => by refine ⟨_, rfl, ?_, ?_⟩ <;> simp [Ty.wf, Ty.notEntry]
  | .bytearray _, _ => by refine ⟨_, rfl, ?_, ?_⟩ <;> simp [Ty.wf, Ty.notEntry]
  | .list [], _ => by refine ⟨_, rfl, ?_, ?_⟩ <;> simp [Ty.wf, Ty.notEntry]
  | .list (x :: xs), h => by
      have hx : x.encodableShape = true := by
        simp [PyVal.encodableShape, encodableShapes] at h; exact h.1
      obtain ⟨t, ht, hwf, hne⟩ := inferTy_wf_aux x hx
      simp only [inferTy]
      split
      · exact ⟨.array t, by simp [ht], by rw [wf_array_of_notEntry t hne]; exact hwf, by simp [Ty.notEntry]⟩
      · exact ⟨_, rfl, by simp [Ty.wf], by simp [Ty.notEntry]⟩
  | .tuple xs, h => by
      have h' : xs ≠ [] ∧ encodableShapes xs = true := by
        simp [PyVal.encodableShape] at h; exact h
      obtain ⟨ts, hts, hwf, hne⟩ := inferTys_wf_aux xs h'.2
      exact ⟨.struct ts, by simp [inferTy, hts], by simp [Ty.wf, hwf, hne h'.1], by simp [Ty.notEntry]⟩
  | .dict [], _ => by refine ⟨_, rfl, ?_, ?_⟩ <;> simp [Ty.wf, Ty.notEntry, Ty.isBasic]
  | .dict ((k, v) :: rest), h => by
      have h' : k.isScalarKey = true ∧ v.encodableShape = true ∧ encodableShapePairs rest = true := by
        simp [PyVal.encodableShape, encodableShapePairs] at h; exact ⟨h.1.1, h.1.2, h.2⟩
      obtain ⟨kc, hk⟩ := inferLastKey_basic ((k, v) :: rest)
        (by simp [encodableShapePairs, h'.1, h'.2.1, h'.2.2]) (by simp)
      obtain ⟨vt, hv, hwf, _⟩ := inferTy_wf_aux v h'.2.1
      simp only [inferTy, hk]
      split
      · exact ⟨.array (.dict (.basic kc) vt), by simp [hv], by simp [Ty.wf, Ty.isBasic, hwf], by simp [Ty.notEntry]⟩
      · exact ⟨_, rfl, by simp [Ty.wf, Ty.isBasic], by simp [Ty.notEntry]⟩
  | .obj _ _ _, h => by simp [PyVal.encodableShape] at h
  | .other _, h => by simp [PyVal.encodableShape] at h
theorem inferTys_wf_aux : ∀ xs : List PyVal, encodableShapes xs = true →
    ∃ ts, inferTys xs = some ts ∧ wfAll ts = true ∧ (xs ≠ [] → ts ≠ [])
  | [], _ => ⟨[], by simp [inferTys], by simp [wfAll], by simp⟩
  | x :: xs, h => by
      have h' : x.encodableShape = true ∧ encodableShapes xs = true := by simpa [encodableShapes] using h
      obtain ⟨t, ht, hwf, _⟩ := inferTy_wf_aux x h'.1
      obtain ⟨ts, hts, hwfs, _⟩ := inferTys_wf_aux xs h'.2
      exact ⟨t :: ts, by simp [inferTys, ht, hts], by simp [wfAll, hwf, hwfs], by simp⟩
theorem inferLastKey_basic : ∀ kvs : List (PyVal × PyVal), encodableShapePairs kvs = true → kvs ≠ [] →
    ∃ c, inferLastKey kvs = some (.basic c)
  | [], _, hne => absurd rfl hne
  | [(k, _)], h, _ => by
      have hk : k.isScalarKey = true := by simp [encodableShapePairs] at h; exact h.1
      simpa [inferLastKey] using scalarKey_basic k hk
  | _ :: p :: rest, h, _ => by
      have h' : encodableShapePairs (p :: rest) = true := by
        simp [encodableShapePairs] at h ⊢; exact ⟨h.2.1, h.2.2⟩
      simpa [inferLastKey] using inferLastKey_basic (p :: rest) h' (by simp)
end

theorem inferTy_wf (v : PyVal) (h : v.encodableShape = true) : ∃ t, inferTy v = some t ∧ t.wf = true := by
  obtain ⟨t, ht, hwf, _⟩ := inferTy_wf_aux v h
  exact ⟨t, ht, hwf⟩

/-! ### wherever the rules give a type, the code returns its rendering (no side condition) -/

mutual
theorem sigFromPy_of_inferTy : ∀ (v : PyVal) (t : Ty), inferTy v = some t → sigFromPy v = .ok t.render
  | .none, t, h => by simp [inferTy] at h
  | .bool _, t, h => by simp [inferTy] at h; subst h; simp [sigFromPy, Ty.render, Basic.code]
  | .int cls n, t, h => by
      cases cls <;> simp [inferTy, IntCls.basic?] at h <;> subst h <;>
        simp [sigFromPy, IntCls.dbusSignature, intSig_eq, Ty.render, Basic.code]
  | .float _, t, h => by simp [inferTy] at h; subst h; simp [sigFromPy, Ty.render, Basic.code]
  | .str cls _, t, h => by
      cases cls <;> simp [inferTy, StrCls.basic] at h <;> subst h <;>
        simp [sigFromPy, StrCls.dbusSignature, Ty.render, Basic.code]
  | .bytearray _, t, h => by simp [inferTy] at h; subst h; simp [sigFromPy, Ty.render, Basic.code]
  | .list [], t, h => by simp [inferTy] at h; subst h; simp [sigFromPy, Ty.render]
  | .list (x :: xs), t, h => by
      simp only [inferTy] at h
      simp only [sigFromPy]
      split at h
      · rename_i hs
        cases hx : inferTy x with
        | none => simp [hx] at h
        | some tx =>
          simp [hx] at h; subst h
          simp [hs, sigFromPy_of_inferTy x tx hx, Ty.render]
      · rename_i hs
        simp at h; subst h; simp [hs, Ty.render]
  | .tuple xs, t, h => by
      simp only [inferTy] at h
      cases hts : inferTys xs with
      | none => simp [hts] at h
      | some ts =>
        simp [hts] at h; subst h
        simp [sigFromPy, sigConcat_of_inferTys xs ts hts, Ty.render]
  | .dict [], t, h => by simp [inferTy] at h; subst h; simp [sigFromPy, Ty.render, Basic.code]
  | .dict ((k, v) :: rest), t, h => by
      simp only [inferTy] at h
      simp only [sigFromPy]
      cases hk : inferLastKey ((k, v) :: rest) with
      | none => simp [hk] at h
      | some kt =>
        simp only [hk] at h
        rw [sigLastKey_of_inferLastKey ((k, v) :: rest) kt hk]
        split at h
        · rename_i hs
          cases hv : inferTy v with
          | none => simp [hv] at h
          | some vt =>
            simp [hv] at h; subst h
            simp [hs, sigFromPy_of_inferTy v vt hv, Ty.render]
        · rename_i hs
          simp at h; subst h; simp [hs, Ty.render]
  | .obj _ _ _, t, h => by simp [inferTy] at h
  | .other _, t, h => by simp [inferTy] at h
theorem sigConcat_of_inferTys : ∀ (xs : List PyVal) (ts : List Ty), inferTys xs = some ts →
    sigConcat xs = .ok (renderAll ts)
  | [], ts, h => by simp [inferTys] at h; subst h; simp [sigConcat, renderAll]
  | x :: xs, ts, h => by
      simp only [inferTys] at h
      cases hx : inferTy x with
      | none => simp [hx] at h
      | some t =>
        cases hxs : inferTys xs with
        | none => simp [hx, hxs] at h
        | some ts' =>
          simp [hx, hxs] at h; subst h
          simp [sigConcat, sigFromPy_of_inferTy x t hx, sigConcat_of_inferTys xs ts' hxs, renderAll]
theorem sigLastKey_of_inferLastKey : ∀ (kvs : List (PyVal × PyVal)) (t : Ty), inferLastKey kvs = some t →
    sigLastKey kvs = .ok t.render
  | [], t, h => by simp [inferLastKey] at h
  | [(k, _)], t, h => by
      simp only [inferLastKey] at h
      simpa [sigLastKey] using sigFromPy_of_inferTy k t h
  | _ :: p :: rest, t, h => by
      simp only [inferLastKey] at h
      simpa [sigLastKey] using sigLastKey_of_inferLastKey (p :: rest) t h
end

end Txdbus
