import TxdbusModel.Wire.Infer
import TxdbusModel.Wire.InferTy
import TxdbusModel.Proofs.Sig.Split
/-
The code model `sigFromPy` computes the rendering of the type `inferTy`; the inferred type is always a
well-formed DBus type.  Core Lean only.
-/
namespace Txdbus

/-- How a type-level result shows up at string level. -/
def renderRes : Option Ty → Except PyErr (List Char)
  | some t => .ok t.render
  | none => .error .marshalling

def renderAllRes : Option (List Ty) → Except PyErr (List Char)
  | some ts => .ok (renderAll ts)
  | none => .error .marshalling

theorem intSig_eq (n : Int) : intSig n = (Ty.basic (intBasic n)).render := by
  unfold intSig intBasic
  split
  · rfl
  · split <;> rfl

theorem allSameType_eq (c : PyClass) (xs : List PyVal) : allSameType c xs = sameClass c xs := rfl
theorem allValuesSameType_eq (c : PyClass) (kvs : List (PyVal × PyVal)) :
    allValuesSameType c kvs = sameValueClass c kvs := rfl

theorem isBasicSig_basic (c : Basic) : isBasicSig (Ty.basic c).render = true := by
  cases c <;> decide

/-- The key test of the dict rule accepts exactly the renderings of basic types. -/
theorem isBasicSig_render : ∀ t : Ty, isBasicSig t.render = true → ∃ c, t = .basic c
  | .basic c, _ => ⟨c, rfl⟩
  | .variant, h => by simp [Ty.render, isBasicSig, basicCodes] at h
  | .array e, h => by
      have := render_ne_nil e
      cases he : e.render with
      | nil => exact absurd he this
      | cons a as => simp [Ty.render, he, isBasicSig] at h
  | .struct fs, h => by
      cases hf : renderAll fs ++ [')'] with
      | nil => simp at hf
      | cons a as => simp [Ty.render, hf, isBasicSig] at h
  | .dict k v, h => by
      cases hf : k.render ++ v.render ++ ['}'] with
      | nil => simp at hf
      | cons a as => simp [Ty.render, hf, isBasicSig] at h

/-! ### wherever the rules give a type, the code returns its rendering (no side condition) -/

mutual
theorem sigFromPy_of_inferTy : ∀ (v : PyVal) (t : Ty), inferTy v = some t → sigFromPy v = .ok t.render
  | .none, t, h => by simp [inferTy] at h
  | .bool _, t, h => by simp [inferTy] at h; subst h; simp [sigFromPy, Ty.render, Basic.code]
  | .int cls n, t, h => by
      cases cls <;> simp [inferTy, IntCls.basic?] at h <;> subst h <;>
        simp [sigFromPy, IntCls.dbusSignature, intSig_eq, Ty.render, Basic.code]
  | .float _, t, h => by simp [inferTy] at h; subst h; simp [sigFromPy, Ty.render, Basic.code]
  | .str cls _, t, h => by
      cases cls <;> simp [inferTy, StrCls.basic] at h <;> subst h <;>
        simp [sigFromPy, StrCls.dbusSignature, Ty.render, Basic.code]
  | .bytearray _, t, h => by simp [inferTy] at h; subst h; simp [sigFromPy, Ty.render, Basic.code]
  | .list [], t, h => by simp [inferTy] at h; subst h; simp [sigFromPy, Ty.render]
  | .list (x :: xs), t, h => by
      simp only [inferTy] at h
      simp only [sigFromPy, allSameType_eq]
      split at h
      · rename_i hs
        cases hx : inferTy x with
        | none => simp [hx] at h
        | some tx =>
          simp [hx] at h; subst h
          simp [hs, sigFromPy_of_inferTy x tx hx, Ty.render]
      · rename_i hs
        simp at h; subst h; simp [hs, Ty.render]
  | .tuple [], t, h => by simp [inferTy] at h
  | .tuple (x :: xs), t, h => by
      simp only [inferTy] at h
      cases hts : inferTys (x :: xs) with
      | none => simp [hts] at h
      | some ts =>
        simp [hts] at h; subst h
        simp [sigFromPy, sigConcat_of_inferTys (x :: xs) ts hts, Ty.render]
  | .dict [], t, h => by simp [inferTy] at h; subst h; simp [sigFromPy, Ty.render, Basic.code]
  | .dict ((k, v) :: rest), t, h => by
      simp only [inferTy] at h
      simp only [sigFromPy, allValuesSameType_eq]
      cases hk : inferLastKey ((k, v) :: rest) with
      | none => simp [hk] at h
      | some kt =>
        rw [sigLastKey_of_inferLastKey ((k, v) :: rest) kt hk]
        cases kt with
        | basic kc =>
          simp only [hk] at h
          simp only [isBasicSig_basic, if_true]
          split at h
          · rename_i hs
            cases hv : inferTy v with
            | none => simp [hv] at h
            | some vt =>
              simp [hv] at h; subst h
              simp [hs, sigFromPy_of_inferTy v vt hv, Ty.render]
          · rename_i hs
            simp at h; subst h; simp [hs, Ty.render]
        | variant => simp [hk] at h
        | array _ => simp [hk] at h
        | struct _ => simp [hk] at h
        | dict _ _ => simp [hk] at h
  | .obj _ _ _, t, h => by simp [inferTy] at h
  | .other _, t, h => by simp [inferTy] at h
theorem sigConcat_of_inferTys : ∀ (xs : List PyVal) (ts : List Ty), inferTys xs = some ts →
    sigConcat xs = .ok (renderAll ts)
  | [], ts, h => by simp [inferTys] at h; subst h; simp [sigConcat, renderAll]
  | x :: xs, ts, h => by
      simp only [inferTys] at h
      cases hx : inferTy x with
      | none => simp [hx] at h
      | some t =>
        cases hxs : inferTys xs with
        | none => simp [hx, hxs] at h
        | some ts' =>
          simp [hx, hxs] at h; subst h
          simp [sigConcat, sigFromPy_of_inferTy x t hx, sigConcat_of_inferTys xs ts' hxs, renderAll]
theorem sigLastKey_of_inferLastKey : ∀ (kvs : List (PyVal × PyVal)) (t : Ty), inferLastKey kvs = some t →
    sigLastKey kvs = .ok t.render
  | [], t, h => by simp [inferLastKey] at h
  | [(k, _)], t, h => by
      simp only [inferLastKey] at h
      simpa [sigLastKey] using sigFromPy_of_inferTy k t h
  | _ :: p :: rest, t, h => by
      simp only [inferLastKey] at h
      simpa [sigLastKey] using sigLastKey_of_inferLastKey (p :: rest) t h
end

/-! ### and where the rules give no type the code raises MarshallingError (values without custom
`dbusSignature` objects) -/

mutual
theorem sigFromPy_none : ∀ v : PyVal, v.noCustomSig = true → inferTy v = none →
    sigFromPy v = .error .marshalling
  | .none, _, _ => by simp [sigFromPy]
  | .bool _, _, h => by simp [inferTy] at h
  | .int cls n, _, h => by cases cls <;> simp [inferTy, IntCls.basic?] at h
  | .float _, _, h => by simp [inferTy] at h
  | .str _ _, _, h => by simp [inferTy] at h
  | .bytearray _, _, h => by simp [inferTy] at h
  | .list [], _, h => by simp [inferTy] at h
  | .list (x :: xs), hc, h => by
      have hx : x.noCustomSig = true := by
        simp [PyVal.noCustomSig, noCustomSigs] at hc; exact hc.1
      simp only [inferTy] at h
      simp only [sigFromPy, allSameType_eq]
      split at h
      · rename_i hs
        cases hi : inferTy x with
        | none => simp [hs, sigFromPy_none x hx hi]
        | some t => simp [hi] at h
      · simp at h
  | .tuple [], _, _ => by simp [sigFromPy]
  | .tuple (x :: xs), hc, h => by
      have hxs : noCustomSigs (x :: xs) = true := by simpa [PyVal.noCustomSig] using hc
      simp only [inferTy] at h
      cases hts : inferTys (x :: xs) with
      | none => simp [sigFromPy, sigConcat_none (x :: xs) hxs hts]
      | some ts => simp [hts] at h
  | .dict [], _, h => by simp [inferTy] at h
  | .dict ((k, v) :: rest), hc, h => by
      have h' : k.noCustomSig = true ∧ v.noCustomSig = true ∧ noCustomSigPairs rest = true := by
        simp [PyVal.noCustomSig, noCustomSigPairs] at hc; exact ⟨hc.1.1, hc.1.2, hc.2⟩
      have hp : noCustomSigPairs ((k, v) :: rest) = true := by simp [noCustomSigPairs, h'.1, h'.2.1, h'.2.2]
      simp only [inferTy] at h
      simp only [sigFromPy, allValuesSameType_eq]
      cases hk : inferLastKey ((k, v) :: rest) with
      | none => simp [sigLastKey_none ((k, v) :: rest) hp (by simp) hk]
      | some kt =>
        rw [sigLastKey_of_inferLastKey ((k, v) :: rest) kt hk]
        cases hb : isBasicSig kt.render with
        | false => simp [hb]
        | true =>
          obtain ⟨kc, rfl⟩ := isBasicSig_render kt hb
          simp only [hk] at h
          simp only [hb, if_true]
          split at h
          · rename_i hs
            cases hv : inferTy v with
            | none => simp [hs, sigFromPy_none v h'.2.1 hv]
            | some vt => simp [hv] at h
          · simp at h
  | .obj _ (some _) _, hc, _ => by simp [PyVal.noCustomSig] at hc
  | .obj _ Option.none _, _, _ => by simp [sigFromPy]
  | .other _, _, _ => by simp [sigFromPy]
theorem sigConcat_none : ∀ xs : List PyVal, noCustomSigs xs = true → inferTys xs = none →
    sigConcat xs = .error .marshalling
  | [], _, h => by simp [inferTys] at h
  | x :: xs, hc, h => by
      have h' : x.noCustomSig = true ∧ noCustomSigs xs = true := by simpa [noCustomSigs] using hc
      simp only [inferTys] at h
      simp only [sigConcat]
      cases hx : inferTy x with
      | none => simp [sigFromPy_none x h'.1 hx]
      | some t =>
        rw [sigFromPy_of_inferTy x t hx]
        cases hxs : inferTys xs with
        | none => simp [sigConcat_none xs h'.2 hxs]
        | some ts => simp [hx, hxs] at h
theorem sigLastKey_none : ∀ kvs : List (PyVal × PyVal), noCustomSigPairs kvs = true → kvs ≠ [] →
    inferLastKey kvs = none → sigLastKey kvs = .error .marshalling
  | [], _, hne, _ => absurd rfl hne
  | [(k, _)], hc, _, h => by
      have hk : k.noCustomSig = true := by simp [noCustomSigPairs] at hc; exact hc.1
      simp only [inferLastKey] at h
      simpa [sigLastKey] using sigFromPy_none k hk h
  | _ :: p :: rest, hc, _, h => by
      have h' : noCustomSigPairs (p :: rest) = true := by
        simp [noCustomSigPairs] at hc ⊢; exact ⟨hc.2.1, hc.2.2⟩
      simp only [inferLastKey] at h
      simpa [sigLastKey] using sigLastKey_none (p :: rest) h' (by simp) h
end

theorem sigFromPy_eq_inferTy (v : PyVal) (h : v.noCustomSig = true) : sigFromPy v = renderRes (inferTy v) := by
  cases hi : inferTy v with
  | none => simpa [renderRes] using sigFromPy_none v h hi
  | some t => simpa [renderRes] using sigFromPy_of_inferTy v t hi

/-! ### the inferred type is always a well-formed DBus type -/

theorem wf_array_of_notEntry (t : Ty) (h : t.notEntry = true) : (Ty.array t).wf = t.wf := by
  cases t <;> simp_all [Ty.wf, Ty.notEntry]

mutual
theorem inferTy_wf_aux : ∀ (v : PyVal) (t : Ty), inferTy v = some t → t.wf = true ∧ t.notEntry = true
  | .none, t, h => by simp [inferTy] at h
  | .bool _, t, h => by simp [inferTy] at h; subst h; simp [Ty.wf, Ty.notEntry]
  | .int cls n, t, h => by
      cases cls <;> simp [inferTy, IntCls.basic?] at h <;> subst h <;> simp [Ty.wf, Ty.notEntry]
  | .float _, t, h => by simp [inferTy] at h; subst h; simp [Ty.wf, Ty.notEntry]
  | .str _ _, t, h => by simp [inferTy] at h; subst h; simp [Ty.wf, Ty.notEntry]
  | .bytearray _, t, h => by simp [inferTy] at h; subst h; simp [Ty.wf, Ty.notEntry]
  | .list [], t, h => by simp [inferTy] at h; subst h; simp [Ty.wf, Ty.notEntry]
  | .list (x :: xs), t, h => by
      simp only [inferTy] at h
      split at h
      · cases hx : inferTy x with
        | none => simp [hx] at h
        | some tx =>
          simp [hx] at h; subst h
          obtain ⟨hwf, hne⟩ := inferTy_wf_aux x tx hx
          exact ⟨by rw [wf_array_of_notEntry tx hne]; exact hwf, by simp [Ty.notEntry]⟩
      · simp at h; subst h; simp [Ty.wf, Ty.notEntry]
  | .tuple [], t, h => by simp [inferTy] at h
  | .tuple (x :: xs), t, h => by
      simp only [inferTy] at h
      cases hts : inferTys (x :: xs) with
      | none => simp [hts] at h
      | some ts =>
        simp [hts] at h; subst h
        obtain ⟨hwf, hne⟩ := inferTys_wf_aux (x :: xs) ts hts
        exact ⟨by simp [Ty.wf, hwf, hne (by simp)], by simp [Ty.notEntry]⟩
  | .dict [], t, h => by simp [inferTy] at h; subst h; simp [Ty.wf, Ty.notEntry, Ty.isBasic]
  | .dict ((k, v) :: rest), t, h => by
      simp only [inferTy] at h
      cases hk : inferLastKey ((k, v) :: rest) with
      | none => simp [hk] at h
      | some kt =>
        cases kt with
        | basic kc =>
          simp only [hk] at h
          split at h
          · cases hv : inferTy v with
            | none => simp [hv] at h
            | some vt =>
              simp [hv] at h; subst h
              obtain ⟨hwf, _⟩ := inferTy_wf_aux v vt hv
              exact ⟨by simp [Ty.wf, Ty.isBasic, hwf], by simp [Ty.notEntry]⟩
          · simp at h; subst h; simp [Ty.wf, Ty.notEntry, Ty.isBasic]
        | variant => simp [hk] at h
        | array _ => simp [hk] at h
        | struct _ => simp [hk] at h
        | dict _ _ => simp [hk] at h
  | .obj _ _ _, t, h => by simp [inferTy] at h
  | .other _, t, h => by simp [inferTy] at h
theorem inferTys_wf_aux : ∀ (xs : List PyVal) (ts : List Ty), inferTys xs = some ts →
    wfAll ts = true ∧ (xs ≠ [] → ts ≠ [])
  | [], ts, h => by simp [inferTys] at h; subst h; simp [wfAll]
  | x :: xs, ts, h => by
      simp only [inferTys] at h
      cases hx : inferTy x with
      | none => simp [hx] at h
      | some t =>
        cases hxs : inferTys xs with
        | none => simp [hx, hxs] at h
        | some ts' =>
          simp [hx, hxs] at h; subst h
          obtain ⟨hwf, _⟩ := inferTy_wf_aux x t hx
          obtain ⟨hwfs, _⟩ := inferTys_wf_aux xs ts' hxs
          exact ⟨by simp [wfAll, hwf, hwfs], by simp⟩
end

/-- Whatever type the rules give is a well-formed DBus type: non-empty structs, dict entries only as
array elements, basic keys. -/
theorem inferTy_wf (v : PyVal) (t : Ty) (h : inferTy v = some t) : t.wf = true :=
  (inferTy_wf_aux v t h).1

theorem inferTy_notEntry (v : PyVal) (t : Ty) (h : inferTy v = some t) : t.notEntry = true :=
  (inferTy_wf_aux v t h).2

end Txdbus
