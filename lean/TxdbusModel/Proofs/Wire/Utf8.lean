import TxdbusModel.Wire.Utf8

namespace Txdbus

theorem char_toNat_valid (c : Char) :
    c.toNat < 0xD800 ∨ (0xDFFF < c.toNat ∧ c.toNat < 0x110000) := by
  have := c.valid
  simp only [UInt32.isValidChar, Nat.isValidChar, Char.toNat_val] at this
  omega

/-! ### One-step unfoldings of the decoder, by class of the lead byte -/

theorem utf8Decode_lead1 (b0 : UInt8) (bs : List UInt8) (h : b0.toNat < 0x80) :
    utf8Decode (b0 :: bs) = utf8Cons (Char.ofNat b0.toNat) (utf8Decode bs) := by
  rw [utf8Decode.eq_def]
  simp only [h, if_true]

theorem utf8Decode_leadBad (b0 : UInt8) (bs : List UInt8)
    (h : (0x80 ≤ b0.toNat ∧ b0.toNat < 0xC2) ∨ 0xF5 ≤ b0.toNat) :
    utf8Decode (b0 :: bs) = none := by
  rw [utf8Decode.eq_def]
  simp only []
  split
  · omega
  · split
    · rfl
    · split
      · omega
      · split
        · omega
        · split
          · omega
          · rfl

theorem utf8Decode_lead2 (b0 b1 : UInt8) (bs : List UInt8)
    (h0 : 0xC2 ≤ b0.toNat) (h0' : b0.toNat < 0xE0) :
    utf8Decode (b0 :: b1 :: bs) =
      if utf8IsCont b1 then utf8Cons (Char.ofNat (utf8Val2 b0 b1)) (utf8Decode bs) else none := by
  rw [utf8Decode.eq_def]
  have n1 : ¬ b0.toNat < 0x80 := by omega
  have n2 : ¬ b0.toNat < 0xC2 := by omega
  simp only [n1, n2, h0', if_true, if_false]

theorem utf8Decode_lead3 (b0 b1 b2 : UInt8) (bs : List UInt8)
    (h0 : 0xE0 ≤ b0.toNat) (h0' : b0.toNat < 0xF0) :
    utf8Decode (b0 :: b1 :: b2 :: bs) =
      if utf8IsCont b1 && utf8IsCont b2 && 0x800 ≤ utf8Val3 b0 b1 b2
          && !(0xD800 ≤ utf8Val3 b0 b1 b2 && utf8Val3 b0 b1 b2 < 0xE000) then
        utf8Cons (Char.ofNat (utf8Val3 b0 b1 b2)) (utf8Decode bs) else none := by
  rw [utf8Decode.eq_def]
  have n1 : ¬ b0.toNat < 0x80 := by omega
  have n2 : ¬ b0.toNat < 0xC2 := by omega
  have n3 : ¬ b0.toNat < 0xE0 := by omega
  simp only [n1, n2, n3, h0', if_true, if_false]

theorem utf8Decode_lead4 (b0 b1 b2 b3 : UInt8) (bs : List UInt8)
    (h0 : 0xF0 ≤ b0.toNat) (h0' : b0.toNat < 0xF5) :
    utf8Decode (b0 :: b1 :: b2 :: b3 :: bs) =
      if utf8IsCont b1 && utf8IsCont b2 && utf8IsCont b3 && 0x10000 ≤ utf8Val4 b0 b1 b2 b3
          && utf8Val4 b0 b1 b2 b3 < 0x110000 then
        utf8Cons (Char.ofNat (utf8Val4 b0 b1 b2 b3)) (utf8Decode bs) else none := by
  rw [utf8Decode.eq_def]
  have n1 : ¬ b0.toNat < 0x80 := by omega
  have n2 : ¬ b0.toNat < 0xC2 := by omega
  have n3 : ¬ b0.toNat < 0xE0 := by omega
  have n4 : ¬ b0.toNat < 0xF0 := by omega
  simp only [n1, n2, n3, n4, h0', if_true, if_false]

/-! ### Facts about the bytes the encoder produces (for an arbitrary number `v` in range) -/

theorem utf8_enc1_bytes (v : Nat) (h : v < 0x80) : (UInt8.ofNat v).toNat = v := by
  simp only [UInt8.toNat_ofNat']
  omega

theorem utf8_enc2_bytes (v : Nat) (h1 : 0x80 ≤ v) (h2 : v < 0x800) :
    0xC2 ≤ (UInt8.ofNat (0xC0 + v / 0x40)).toNat ∧ (UInt8.ofNat (0xC0 + v / 0x40)).toNat < 0xE0 ∧
    utf8IsCont (UInt8.ofNat (0x80 + v % 0x40)) = true ∧
    utf8Val2 (UInt8.ofNat (0xC0 + v / 0x40)) (UInt8.ofNat (0x80 + v % 0x40)) = v := by
  simp only [utf8IsCont, utf8Val2, UInt8.toNat_ofNat', Bool.and_eq_true, decide_eq_true_eq]
  omega

theorem utf8_enc3_bytes (v : Nat) (h1 : 0x800 ≤ v) (h2 : v < 0x10000) :
    0xE0 ≤ (UInt8.ofNat (0xE0 + v / 0x1000)).toNat ∧ (UInt8.ofNat (0xE0 + v / 0x1000)).toNat < 0xF0 ∧
    utf8IsCont (UInt8.ofNat (0x80 + v / 0x40 % 0x40)) = true ∧
    utf8IsCont (UInt8.ofNat (0x80 + v % 0x40)) = true ∧
    utf8Val3 (UInt8.ofNat (0xE0 + v / 0x1000)) (UInt8.ofNat (0x80 + v / 0x40 % 0x40))
      (UInt8.ofNat (0x80 + v % 0x40)) = v := by
  simp only [utf8IsCont, utf8Val3, UInt8.toNat_ofNat', Bool.and_eq_true, decide_eq_true_eq]
  omega

theorem utf8_enc4_bytes (v : Nat) (h1 : 0x10000 ≤ v) (h2 : v < 0x110000) :
    0xF0 ≤ (UInt8.ofNat (0xF0 + v / 0x40000)).toNat ∧ (UInt8.ofNat (0xF0 + v / 0x40000)).toNat < 0xF5 ∧
    utf8IsCont (UInt8.ofNat (0x80 + v / 0x1000 % 0x40)) = true ∧
    utf8IsCont (UInt8.ofNat (0x80 + v / 0x40 % 0x40)) = true ∧
    utf8IsCont (UInt8.ofNat (0x80 + v % 0x40)) = true ∧
    utf8Val4 (UInt8.ofNat (0xF0 + v / 0x40000)) (UInt8.ofNat (0x80 + v / 0x1000 % 0x40))
      (UInt8.ofNat (0x80 + v / 0x40 % 0x40)) (UInt8.ofNat (0x80 + v % 0x40)) = v := by
  simp only [utf8IsCont, utf8Val4, UInt8.toNat_ofNat', Bool.and_eq_true, decide_eq_true_eq]
  omega

/-! ### Decoding one encoded code point -/

theorem utf8Decode_encodeChar_append (c : Char) (rest : List UInt8) :
    utf8Decode (utf8EncodeChar c ++ rest) = utf8Cons c (utf8Decode rest) := by
  have hv := char_toNat_valid c
  unfold utf8EncodeChar
  simp only []
  split
  · next h =>
    have e0 := utf8_enc1_bytes c.toNat h
    rw [List.cons_append, List.nil_append, utf8Decode_lead1 _ _ (by rw [e0]; exact h), e0,
      Char.ofNat_toNat]
  · split
    · next h1 h2 =>
      obtain ⟨a0, a1, c1, hval⟩ := utf8_enc2_bytes c.toNat (by omega) h2
      rw [List.cons_append, List.cons_append, List.nil_append, utf8Decode_lead2 _ _ _ a0 a1, c1,
        hval, if_pos rfl, Char.ofNat_toNat]
    · split
      · next h1 h2 h3 =>
        obtain ⟨a0, a1, c1, c2, hval⟩ := utf8_enc3_bytes c.toNat (by omega) h3
        have hc : (0x800 ≤ c.toNat && !(0xD800 ≤ c.toNat && c.toNat < 0xE000)) = true := by
          simp only [Bool.and_eq_true, Bool.not_eq_true', Bool.and_eq_false_iff,
            decide_eq_true_eq, decide_eq_false_iff_not]
          omega
        rw [List.cons_append, List.cons_append, List.cons_append, List.nil_append,
          utf8Decode_lead3 _ _ _ _ a0 a1, c1, c2, hval, Bool.and_self, Bool.true_and,
          hc, if_pos rfl, Char.ofNat_toNat]
      · next h1 h2 h3 =>
        obtain ⟨a0, a1, c1, c2, c3, hval⟩ := utf8_enc4_bytes c.toNat (by omega) (by omega)
        have hc : (decide (0x10000 ≤ c.toNat) && decide (c.toNat < 0x110000)) = true := by
          simp only [Bool.and_eq_true, decide_eq_true_eq]
          omega
        rw [List.cons_append, List.cons_append, List.cons_append, List.cons_append, List.nil_append,
          utf8Decode_lead4 _ _ _ _ _ a0 a1, c1, c2, c3, hval, Bool.and_self, Bool.and_self,
          Bool.true_and, hc, if_pos rfl, Char.ofNat_toNat]

/-- Main round trip: strictly decoding the UTF-8 encoding of a string gives the string back. -/
theorem utf8Decode_encode (cs : List Char) : utf8Decode (utf8Encode cs) = some cs := by
  induction cs with
  | nil => rfl
  | cons c cs ih => rw [utf8Encode, utf8Decode_encodeChar_append, ih]; rfl

/-! ### Converse: whatever decodes is the encoding of the result (UTF-8 is canonical) -/

theorem char_ofNat_toNat_valid (n : Nat) (h : n < 0xD800 ∨ (0xDFFF < n ∧ n < 0x110000)) :
    (Char.ofNat n).toNat = n := by
  have h' : n.isValidChar := h
  unfold Char.ofNat
  rw [dif_pos h']
  rfl

theorem utf8Decode_short2 (b0 : UInt8) (h0 : 0xC2 ≤ b0.toNat) (h0' : b0.toNat < 0xE0) :
    utf8Decode [b0] = none := by
  rw [utf8Decode.eq_def]
  have n1 : ¬ b0.toNat < 0x80 := by omega
  have n2 : ¬ b0.toNat < 0xC2 := by omega
  simp only [n1, n2, h0', if_true, if_false]

theorem utf8Decode_short3 (b0 : UInt8) (bs : List UInt8) (h0 : 0xE0 ≤ b0.toNat) (h0' : b0.toNat < 0xF0)
    (hl : bs.length < 2) : utf8Decode (b0 :: bs) = none := by
  rw [utf8Decode.eq_def]
  have n1 : ¬ b0.toNat < 0x80 := by omega
  have n2 : ¬ b0.toNat < 0xC2 := by omega
  have n3 : ¬ b0.toNat < 0xE0 := by omega
  simp only [n1, n2, n3, h0', if_true, if_false]
  match bs, hl with
  | [], _ => rfl
  | [_], _ => rfl
  | _ :: _ :: _, hl => simp only [List.length_cons] at hl; omega

theorem utf8Decode_short4 (b0 : UInt8) (bs : List UInt8) (h0 : 0xF0 ≤ b0.toNat) (h0' : b0.toNat < 0xF5)
    (hl : bs.length < 3) : utf8Decode (b0 :: bs) = none := by
  rw [utf8Decode.eq_def]
  have n1 : ¬ b0.toNat < 0x80 := by omega
  have n2 : ¬ b0.toNat < 0xC2 := by omega
  have n3 : ¬ b0.toNat < 0xE0 := by omega
  have n4 : ¬ b0.toNat < 0xF0 := by omega
  simp only [n1, n2, n3, n4, h0', if_true, if_false]
  match bs, hl with
  | [], _ => rfl
  | [_], _ => rfl
  | [_, _], _ => rfl
  | _ :: _ :: _ :: _, hl => simp only [List.length_cons] at hl; omega

theorem uint8_ofNat_eq (n : Nat) (b : UInt8) (h : n = b.toNat) : UInt8.ofNat n = b := by
  subst h; exact UInt8.ofNat_toNat

theorem utf8EncodeChar_ofNat (v : Nat) (h : v < 0xD800 ∨ (0xDFFF < v ∧ v < 0x110000)) :
    utf8EncodeChar (Char.ofNat v) =
      if v < 0x80 then
        [UInt8.ofNat v]
      else if v < 0x800 then
        [UInt8.ofNat (0xC0 + v / 0x40), UInt8.ofNat (0x80 + v % 0x40)]
      else if v < 0x10000 then
        [UInt8.ofNat (0xE0 + v / 0x1000), UInt8.ofNat (0x80 + v / 0x40 % 0x40), UInt8.ofNat (0x80 + v % 0x40)]
      else
        [UInt8.ofNat (0xF0 + v / 0x40000), UInt8.ofNat (0x80 + v / 0x1000 % 0x40),
         UInt8.ofNat (0x80 + v / 0x40 % 0x40), UInt8.ofNat (0x80 + v % 0x40)] := by
  unfold utf8EncodeChar
  simp only [char_ofNat_toNat_valid v h]

theorem utf8EncodeChar_val1 (b0 : UInt8) (h0 : b0.toNat < 0x80) :
    utf8EncodeChar (Char.ofNat b0.toNat) = [b0] := by
  rw [utf8EncodeChar_ofNat _ (by omega), if_pos h0, uint8_ofNat_eq _ b0 rfl]

theorem utf8EncodeChar_val2 (b0 b1 : UInt8) (h0 : 0xC2 ≤ b0.toNat) (h0' : b0.toNat < 0xE0)
    (h1 : utf8IsCont b1 = true) :
    utf8EncodeChar (Char.ofNat (utf8Val2 b0 b1)) = [b0, b1] := by
  simp only [utf8IsCont, Bool.and_eq_true, decide_eq_true_eq] at h1
  have hv : utf8Val2 b0 b1 = b0.toNat % 0x20 * 0x40 + b1.toNat % 0x40 := rfl
  rw [utf8EncodeChar_ofNat _ (by omega), if_neg (by omega), if_pos (by omega),
    uint8_ofNat_eq _ b0 (by omega), uint8_ofNat_eq _ b1 (by omega)]

theorem utf8EncodeChar_val3 (b0 b1 b2 : UInt8) (h0 : 0xE0 ≤ b0.toNat) (h0' : b0.toNat < 0xF0)
    (h1 : utf8IsCont b1 = true) (h2 : utf8IsCont b2 = true)
    (hlo : 0x800 ≤ utf8Val3 b0 b1 b2)
    (hsur : ¬ (0xD800 ≤ utf8Val3 b0 b1 b2 ∧ utf8Val3 b0 b1 b2 < 0xE000)) :
    utf8EncodeChar (Char.ofNat (utf8Val3 b0 b1 b2)) = [b0, b1, b2] := by
  simp only [utf8IsCont, Bool.and_eq_true, decide_eq_true_eq] at h1 h2
  have hv : utf8Val3 b0 b1 b2 = b0.toNat % 0x10 * 0x1000 + b1.toNat % 0x40 * 0x40 + b2.toNat % 0x40 := rfl
  rw [utf8EncodeChar_ofNat _ (by omega), if_neg (by omega), if_neg (by omega), if_pos (by omega),
    uint8_ofNat_eq _ b0 (by omega), uint8_ofNat_eq _ b1 (by omega), uint8_ofNat_eq _ b2 (by omega)]

theorem utf8EncodeChar_val4 (b0 b1 b2 b3 : UInt8) (h0 : 0xF0 ≤ b0.toNat) (h0' : b0.toNat < 0xF5)
    (h1 : utf8IsCont b1 = true) (h2 : utf8IsCont b2 = true) (h3 : utf8IsCont b3 = true)
    (hlo : 0x10000 ≤ utf8Val4 b0 b1 b2 b3) (hhi : utf8Val4 b0 b1 b2 b3 < 0x110000) :
    utf8EncodeChar (Char.ofNat (utf8Val4 b0 b1 b2 b3)) = [b0, b1, b2, b3] := by
  simp only [utf8IsCont, Bool.and_eq_true, decide_eq_true_eq] at h1 h2 h3
  have hv : utf8Val4 b0 b1 b2 b3 =
      b0.toNat % 0x08 * 0x40000 + b1.toNat % 0x40 * 0x1000 + b2.toNat % 0x40 * 0x40 + b3.toNat % 0x40 := rfl
  rw [utf8EncodeChar_ofNat _ (by omega), if_neg (by omega), if_neg (by omega), if_neg (by omega),
    uint8_ofNat_eq _ b0 (by omega), uint8_ofNat_eq _ b1 (by omega), uint8_ofNat_eq _ b2 (by omega),
    uint8_ofNat_eq _ b3 (by omega)]

theorem utf8Cons_eq_some {c : Char} {o : Option (List Char)} {cs : List Char}
    (h : utf8Cons c o = some cs) : ∃ cs', o = some cs' ∧ cs = c :: cs' := by
  cases o with
  | none => simp only [utf8Cons] at h; cases h
  | some cs' => simp only [utf8Cons, Option.some.injEq] at h; exact ⟨cs', rfl, h.symm⟩

theorem utf8Encode_decode_aux (n : Nat) : ∀ (bs : List UInt8) (cs : List Char),
    bs.length ≤ n → utf8Decode bs = some cs → utf8Encode cs = bs := by
  induction n with
  | zero =>
    intro bs cs hl hd
    match bs, hl with
    | [], _ =>
      rw [utf8Decode] at hd
      cases hd; rfl
  | succ n ih =>
    intro bs cs hl hd
    match bs, hl with
    | [], _ =>
      rw [utf8Decode] at hd
      cases hd; rfl
    | b0 :: bs, hl =>
      simp only [List.length_cons] at hl
      by_cases c1 : b0.toNat < 0x80
      · rw [utf8Decode_lead1 _ _ c1] at hd
        obtain ⟨cs', hd', rfl⟩ := utf8Cons_eq_some hd
        rw [utf8Encode, ih bs cs' (by omega) hd', utf8EncodeChar_val1 _ c1]; rfl
      · by_cases c2 : b0.toNat < 0xC2
        · rw [utf8Decode_leadBad _ _ (by omega)] at hd; cases hd
        · by_cases c3 : b0.toNat < 0xE0
          · match bs, hl with
            | [], _ => rw [utf8Decode_short2 _ (by omega) c3] at hd; cases hd
            | b1 :: bs, hl =>
              simp only [List.length_cons] at hl
              rw [utf8Decode_lead2 _ _ _ (by omega) c3] at hd
              split at hd
              · next k1 =>
                obtain ⟨cs', hd', rfl⟩ := utf8Cons_eq_some hd
                rw [utf8Encode, ih bs cs' (by omega) hd', utf8EncodeChar_val2 _ _ (by omega) c3 k1]; rfl
              · cases hd
          · by_cases c4 : b0.toNat < 0xF0
            · match bs, hl with
              | [], _ => rw [utf8Decode_short3 _ _ (by omega) c4 (by decide)] at hd; cases hd
              | [_], _ => rw [utf8Decode_short3 _ _ (by omega) c4 (by simp only [List.length_cons, List.length_nil]; omega)] at hd; cases hd
              | b1 :: b2 :: bs, hl =>
                simp only [List.length_cons] at hl
                rw [utf8Decode_lead3 _ _ _ _ (by omega) c4] at hd
                split at hd
                · next k =>
                  simp only [Bool.and_eq_true, Bool.not_eq_true', Bool.and_eq_false_iff,
                    decide_eq_true_eq, decide_eq_false_iff_not] at k
                  obtain ⟨cs', hd', rfl⟩ := utf8Cons_eq_some hd
                  rw [utf8Encode, ih bs cs' (by omega) hd',
                    utf8EncodeChar_val3 _ _ _ (by omega) c4 k.1.1.1 k.1.1.2 k.1.2 (by omega)]
                  rfl
                · cases hd
            · by_cases c5 : b0.toNat < 0xF5
              · match bs, hl with
                | [], _ => rw [utf8Decode_short4 _ _ (by omega) c5 (by decide)] at hd; cases hd
                | [_], _ => rw [utf8Decode_short4 _ _ (by omega) c5 (by simp only [List.length_cons, List.length_nil]; omega)] at hd; cases hd
                | [_, _], _ => rw [utf8Decode_short4 _ _ (by omega) c5 (by simp only [List.length_cons, List.length_nil]; omega)] at hd; cases hd
                | b1 :: b2 :: b3 :: bs, hl =>
                  simp only [List.length_cons] at hl
                  rw [utf8Decode_lead4 _ _ _ _ _ (by omega) c5] at hd
                  split at hd
                  · next k =>
                    simp only [Bool.and_eq_true, decide_eq_true_eq] at k
                    obtain ⟨cs', hd', rfl⟩ := utf8Cons_eq_some hd
                    rw [utf8Encode, ih bs cs' (by omega) hd',
                      utf8EncodeChar_val4 _ _ _ _ (by omega) c5 k.1.1.1.1 k.1.1.1.2 k.1.1.2 k.1.2 k.2]
                    rfl
                  · cases hd
              · rw [utf8Decode_leadBad _ _ (by omega)] at hd; cases hd

/-- Canonical form: the only byte string that strictly decodes to `cs` is `utf8Encode cs`. -/
theorem utf8Encode_decode {bs : List UInt8} {cs : List Char}
    (h : utf8Decode bs = some cs) : utf8Encode cs = bs :=
  utf8Encode_decode_aux bs.length bs cs (Nat.le_refl _) h

/-- Strict decoding is injective. -/
theorem utf8Decode_inj {bs bs' : List UInt8} {cs : List Char}
    (h : utf8Decode bs = some cs) (h' : utf8Decode bs' = some cs) : bs = bs' := by
  rw [← utf8Encode_decode h, ← utf8Encode_decode h']

/-- `utf8Decode bs = some cs` exactly when `bs` is the encoding of `cs`. -/
theorem utf8Decode_eq_some_iff (bs : List UInt8) (cs : List Char) :
    utf8Decode bs = some cs ↔ utf8Encode cs = bs :=
  ⟨utf8Encode_decode, fun h => h ▸ utf8Decode_encode cs⟩

/-! ### Structure of the encoder -/

theorem utf8Encode_append (a b : List Char) : utf8Encode (a ++ b) = utf8Encode a ++ utf8Encode b := by
  induction a with
  | nil => rfl
  | cons c a ih => rw [List.cons_append, utf8Encode, utf8Encode, ih, List.append_assoc]

theorem utf8Encode_eq_flatMap (cs : List Char) : utf8Encode cs = cs.flatMap utf8EncodeChar := by
  induction cs with
  | nil => rfl
  | cons c cs ih => rw [utf8Encode, ih, List.flatMap_cons]

/-- The model's per-character encoder is the one of Lean core. -/
theorem utf8EncodeChar_eq_core (c : Char) : utf8EncodeChar c = String.utf8EncodeChar c := by
  have hv := char_toNat_valid c
  unfold utf8EncodeChar String.utf8EncodeChar
  simp only [Char.toNat_val]
  by_cases h1 : c.toNat < 0x80
  · rw [if_pos h1, if_pos (show c.toNat ≤ 127 by omega)]
  · rw [if_neg h1, if_neg (show ¬ c.toNat ≤ 127 by omega)]
    have m0 : 0x80 + c.toNat % 0x40 = c.toNat % 64 + 128 := by omega
    have m1 : 0x80 + c.toNat / 0x40 % 0x40 = c.toNat / 64 % 64 + 128 := by omega
    have m2 : 0x80 + c.toNat / 0x1000 % 0x40 = c.toNat / 4096 % 64 + 128 := by omega
    by_cases h2 : c.toNat < 0x800
    · rw [if_pos h2, if_pos (show c.toNat ≤ 2047 by omega), m0,
        show 0xC0 + c.toNat / 0x40 = c.toNat / 64 % 32 + 192 by omega]
    · rw [if_neg h2, if_neg (show ¬ c.toNat ≤ 2047 by omega)]
      by_cases h3 : c.toNat < 0x10000
      · rw [if_pos h3, if_pos (show c.toNat ≤ 65535 by omega), m0, m1,
          show 0xE0 + c.toNat / 0x1000 = c.toNat / 4096 % 16 + 224 by omega]
      · rw [if_neg h3, if_neg (show ¬ c.toNat ≤ 65535 by omega), m0, m1, m2,
          show 0xF0 + c.toNat / 0x40000 = c.toNat / 262144 % 8 + 240 by omega]

/-- The model's encoder is the one of Lean core (`List.utf8Encode`, `String.toUTF8`). -/
theorem utf8Encode_eq_core (cs : List Char) : (utf8Encode cs).toByteArray = cs.utf8Encode := by
  rw [utf8Encode_eq_flatMap, List.utf8Encode]
  congr 2
  funext c
  exact utf8EncodeChar_eq_core c

theorem utf8EncodeChar_length (c : Char) :
    1 ≤ (utf8EncodeChar c).length ∧ (utf8EncodeChar c).length ≤ 4 := by
  unfold utf8EncodeChar
  simp only []
  split
  · simp only [List.length_cons, List.length_nil]; omega
  · split
    · simp only [List.length_cons, List.length_nil]; omega
    · split <;> (simp only [List.length_cons, List.length_nil]; omega)

/-! ### NUL bytes -/

theorem utf8EncodeChar_zero_mem (c : Char) : (0 : UInt8) ∈ utf8EncodeChar c ↔ c.toNat = 0 := by
  have hv := char_toNat_valid c
  unfold utf8EncodeChar
  simp only []
  split
  · simp only [List.mem_cons, List.not_mem_nil, or_false, ← UInt8.toNat_inj, UInt8.toNat_ofNat',
      UInt8.toNat_zero]
    omega
  · split
    · simp only [List.mem_cons, List.not_mem_nil, or_false, ← UInt8.toNat_inj, UInt8.toNat_ofNat',
        UInt8.toNat_zero]
      omega
    · split
      · simp only [List.mem_cons, List.not_mem_nil, or_false, ← UInt8.toNat_inj, UInt8.toNat_ofNat',
          UInt8.toNat_zero]
        omega
      · simp only [List.mem_cons, List.not_mem_nil, or_false, ← UInt8.toNat_inj, UInt8.toNat_ofNat',
          UInt8.toNat_zero]
        omega

theorem char_toNat_eq_zero (c : Char) : c.toNat = 0 ↔ c = Char.ofNat 0 := by
  rw [← Char.toNat_inj]
  exact Iff.rfl

/-- A NUL byte occurs in the UTF-8 encoding exactly when the NUL character occurs in the string
(strict UTF-8 has no overlong `C0 80` form of U+0000, and every byte of a multi-byte sequence is
at least 0x80). -/
theorem utf8Encode_no_nul (cs : List Char) : (0 : UInt8) ∈ utf8Encode cs ↔ Char.ofNat 0 ∈ cs := by
  induction cs with
  | nil => simp only [utf8Encode, List.not_mem_nil]
  | cons c cs ih =>
    rw [utf8Encode, List.mem_append, List.mem_cons, ih, utf8EncodeChar_zero_mem, char_toNat_eq_zero]
    constructor
    · rintro (h | h)
      · exact Or.inl h.symm
      · exact Or.inr h
    · rintro (h | h)
      · exact Or.inl h.symm
      · exact Or.inr h

/-! ### ASCII -/

theorem asciiEncode_cons_eq_some {c : Char} {cs : List Char} {bs : List UInt8}
    (h : asciiEncode (c :: cs) = some bs) :
    c.toNat < 0x80 ∧ ∃ bs', asciiEncode cs = some bs' ∧ bs = UInt8.ofNat c.toNat :: bs' := by
  rw [asciiEncode] at h
  split at h
  · next hc =>
    refine ⟨hc, ?_⟩
    split at h
    · next bs' hbs' =>
      simp only [Option.some.injEq] at h
      exact ⟨bs', hbs', h.symm⟩
    · cases h
  · cases h

theorem asciiDecode_encode (cs : List Char) (bs : List UInt8)
    (h : asciiEncode cs = some bs) : asciiDecode bs = some cs := by
  induction cs generalizing bs with
  | nil => rw [asciiEncode] at h; cases h; rfl
  | cons c cs ih =>
    obtain ⟨hc, bs', hbs', rfl⟩ := asciiEncode_cons_eq_some h
    have e0 := utf8_enc1_bytes c.toNat hc
    rw [asciiDecode, e0, if_pos hc, ih bs' hbs', Char.ofNat_toNat]

theorem asciiEncode_length {cs : List Char} {bs : List UInt8}
    (h : asciiEncode cs = some bs) : bs.length = cs.length := by
  induction cs generalizing bs with
  | nil => rw [asciiEncode] at h; cases h; rfl
  | cons c cs ih =>
    obtain ⟨_, bs', hbs', rfl⟩ := asciiEncode_cons_eq_some h
    rw [List.length_cons, List.length_cons, ih hbs']

theorem asciiEncode_eq_utf8 {cs : List Char} {bs : List UInt8}
    (h : asciiEncode cs = some bs) : utf8Encode cs = bs := by
  induction cs generalizing bs with
  | nil => rw [asciiEncode] at h; cases h; rfl
  | cons c cs ih =>
    obtain ⟨hc, bs', hbs', rfl⟩ := asciiEncode_cons_eq_some h
    rw [utf8Encode, ih hbs', utf8EncodeChar, if_pos hc]
    rfl

/-- `asciiEncode` succeeds exactly on strings of code points below 128. -/
theorem asciiEncode_isSome_iff (cs : List Char) :
    (asciiEncode cs).isSome ↔ ∀ c ∈ cs, c.toNat < 0x80 := by
  induction cs with
  | nil => simp only [asciiEncode, Option.isSome_some, List.not_mem_nil, false_imp_iff, implies_true]
  | cons c cs ih =>
    rw [asciiEncode, List.forall_mem_cons, ← ih]
    split
    · next hc =>
      cases hcs : asciiEncode cs with
      | none => simp only [Option.isSome_none, Bool.false_eq_true, and_false]
      | some bs' => simp only [Option.isSome_some, hc, and_self]
    · next hc => simp only [Option.isSome_none, Bool.false_eq_true, hc, false_and]

/-- A byte string that decodes as ASCII decodes to the same string as UTF-8. -/
theorem asciiDecode_eq_utf8 {bs : List UInt8} {cs : List Char}
    (h : asciiDecode bs = some cs) : utf8Decode bs = some cs := by
  induction bs generalizing cs with
  | nil => rw [asciiDecode] at h; cases h; rfl
  | cons b bs ih =>
    rw [asciiDecode] at h
    split at h
    · next hb =>
      split at h
      · next cs' hcs' =>
        simp only [Option.some.injEq] at h
        rw [utf8Decode_lead1 _ _ hb, ih hcs', ← h]; rfl
      · cases h
    · cases h

/-- ASCII round trip in the other direction. -/
theorem asciiEncode_decode {bs : List UInt8} {cs : List Char}
    (h : asciiDecode bs = some cs) : asciiEncode cs = some bs := by
  induction bs generalizing cs with
  | nil => rw [asciiDecode] at h; cases h; rfl
  | cons b bs ih =>
    rw [asciiDecode] at h
    split at h
    · next hb =>
      split at h
      · next cs' hcs' =>
        simp only [Option.some.injEq] at h
        subst h
        have hv : (Char.ofNat b.toNat).toNat = b.toNat := char_ofNat_toNat_valid _ (by omega)
        rw [asciiEncode, hv, if_pos hb, ih hcs', uint8_ofNat_eq _ b rfl]
      · cases h
    · cases h

/-! ### Sanity checks (tests, not theorems) -/

example : utf8EncodeChar 'A' = [0x41] := by decide
example : utf8EncodeChar 'é' = [0xC3, 0xA9] := by decide
example : utf8EncodeChar '€' = [0xE2, 0x82, 0xAC] := by decide
example : utf8EncodeChar (Char.ofNat 0x1F600) = [0xF0, 0x9F, 0x98, 0x80] := by decide
example : utf8Encode ['A', 'é', '€', Char.ofNat 0x1F600] =
    [0x41, 0xC3, 0xA9, 0xE2, 0x82, 0xAC, 0xF0, 0x9F, 0x98, 0x80] := by decide
example : utf8Decode [0x41, 0xC3, 0xA9, 0xE2, 0x82, 0xAC, 0xF0, 0x9F, 0x98, 0x80] =
    some ['A', 'é', '€', Char.ofNat 0x1F600] := by decide
example : utf8Decode [0xC0, 0x80] = none := by decide             -- overlong NUL
example : utf8Decode [0xC1, 0xBF] = none := by decide             -- overlong U+007F
example : utf8Decode [0xE0, 0x9F, 0xBF] = none := by decide       -- overlong U+07FF
example : utf8Decode [0xF0, 0x8F, 0xBF, 0xBF] = none := by decide -- overlong U+FFFF
example : utf8Decode [0xED, 0xA0, 0x80] = none := by decide       -- surrogate U+D800
example : utf8Decode [0xED, 0xBF, 0xBF] = none := by decide       -- surrogate U+DFFF
example : utf8Decode [0xED, 0x9F, 0xBF] = some [Char.ofNat 0xD7FF] := by decide
example : utf8Decode [0xEE, 0x80, 0x80] = some [Char.ofNat 0xE000] := by decide
example : utf8Decode [0xF4, 0x8F, 0xBF, 0xBF] = some [Char.ofNat 0x10FFFF] := by decide
example : utf8Decode [0xF4, 0x90, 0x80, 0x80] = none := by decide -- U+110000
example : utf8Decode [0xF5, 0x80, 0x80, 0x80] = none := by decide -- lead 0xF5
example : utf8Decode [0xFF] = none := by decide
example : utf8Decode [0xE2, 0x82] = none := by decide             -- truncated
example : utf8Decode [0xE2, 0x82, 0x41] = none := by decide       -- cut short by a non-continuation
example : utf8Decode [0x80] = none := by decide                   -- stray continuation byte
example : utf8Decode [0x00] = some [Char.ofNat 0] := by decide
example : asciiEncode ['A', 'z'] = some [0x41, 0x7A] := by decide
example : asciiEncode ['A', 'é'] = none := by decide
example : asciiDecode [0x41, 0x7F] = some ['A', Char.ofNat 0x7F] := by decide
example : asciiDecode [0x41, 0x80] = none := by decide

end Txdbus

#print axioms Txdbus.utf8Decode_encode
#print axioms Txdbus.utf8Encode_decode
#print axioms Txdbus.utf8Decode_inj
#print axioms Txdbus.utf8Decode_eq_some_iff
#print axioms Txdbus.utf8Encode_append
#print axioms Txdbus.utf8Encode_eq_flatMap
#print axioms Txdbus.utf8EncodeChar_eq_core
#print axioms Txdbus.utf8Encode_eq_core
#print axioms Txdbus.utf8EncodeChar_length
#print axioms Txdbus.utf8Encode_no_nul
#print axioms Txdbus.asciiDecode_encode
#print axioms Txdbus.asciiEncode_decode
#print axioms Txdbus.asciiEncode_length
#print axioms Txdbus.asciiEncode_eq_utf8
#print axioms Txdbus.asciiEncode_isSome_iff
#print axioms Txdbus.asciiDecode_eq_utf8
