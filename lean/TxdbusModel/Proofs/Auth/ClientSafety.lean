/-
C07 proofs - safety of the handshake: invariants of `Core.run` (hence of every run of the client
model, whatever the reads): BEGIN only after OK (+ descriptor negotiation on UNIX transports),
authenticated iff BEGIN was sent.
-/
import TxdbusModel.Proofs.Auth.ClientCore
import TxdbusModel.Proofs.Auth.ClientHandle

namespace Txdbus.AuthClient

/-! ### Appending to a trace -/

theorem beginsJustified_append {unix : Bool} {tr ext : List Ev} (h : BeginsJustified unix tr)
    (hext : ∀ pre post, ext = pre ++ Ev.send (b!"BEGIN") :: post → Justified unix (tr ++ pre)) :
    BeginsJustified unix (tr ++ ext) := by
  intro pre post heq
  rcases List.append_eq_append_iff.mp heq with ⟨a', rfl, h2⟩ | ⟨c', h1, h2⟩
  · exact hext a' post h2
  · cases c' with
    | nil =>
      simp only [List.append_nil] at h1
      subst h1
      simpa using hext [] post (by simpa using h2.symm)
    | cons e c'' =>
      simp only [List.cons_append, List.cons.injEq] at h2
      obtain ⟨rfl, -⟩ := h2
      exact h pre c'' h1

theorem beginsJustified_append_noBegin {unix : Bool} {tr ext : List Ev} (h : BeginsJustified unix tr)
    (hext : Ev.send (b!"BEGIN") ∉ ext) : BeginsJustified unix (tr ++ ext) := by
  apply beginsJustified_append h
  intro pre post heq
  exact absurd (by rw [heq]; simp) hext

/-- The lines other than BEGIN that `handleAuthMessage` can write. -/
theorem authLine_ne_begin (env : Env) (m : Bytes) : authLine env m ≠ b!"BEGIN" := by
  unfold authLine
  split
  · simp
  · split <;> simp

/-! ### The invariant -/

structure InvB (unix : Bool) (c : Core) : Prop where
  unixEq : c.auth.unixFD = unix
  begins : BeginsJustified unix c.trace
  neg : c.auth.negotiating = true →
    unix = true ∧ ∃ okl, OkLine okl ∧ List.Sublist [Ev.recv okl, Ev.send (b!"NEGOTIATE_UNIX_FD")] c.trace
  authEq : c.auth.authenticated = c.authenticated
  authIff : c.authenticated = true ↔ Ev.send (b!"BEGIN") ∈ c.trace
  authEv : c.authenticated = true ↔ Ev.authenticated ∈ c.trace

theorem InvB.close {unix : Bool} {c : Core} (h : InvB unix c) : InvB unix c.close := by
  refine ⟨h.unixEq, ?_, ?_, h.authEq, ?_, ?_⟩
  · exact beginsJustified_append_noBegin h.begins (by simp)
  · intro hn
    obtain ⟨hu, okl, hok, hs⟩ := h.neg hn
    exact ⟨hu, okl, hok, hs.trans (List.sublist_append_left _ _)⟩
  · simpa [Core.close] using h.authIff
  · simpa [Core.close] using h.authEv

/-- Extending by a server line and an answer that is not BEGIN. -/
theorem InvB.extend {unix : Bool} {c : Core} (h : InvB unix c) (hna : c.authenticated = false)
    (a' : Auth) (l x : Bytes) (hu : a'.unixFD = unix) (ha : a'.authenticated = false) (hx : x ≠ b!"BEGIN")
    (hneg : a'.negotiating = true →
      unix = true ∧ ∃ okl, OkLine okl ∧
        List.Sublist [Ev.recv okl, Ev.send (b!"NEGOTIATE_UNIX_FD")] (c.trace ++ [Ev.recv l] ++ [Ev.send x])) :
    InvB unix { c with auth := a', trace := c.trace ++ [Ev.recv l] ++ [Ev.send x] } := by
  refine ⟨hu, ?_, hneg, ?_, ?_, ?_⟩
  · rw [List.append_assoc]
    apply beginsJustified_append_noBegin h.begins
    simp
    intro hh
    exact hx hh.symm
  · simp [ha, hna]
  · have := h.authIff
    simp only [hna, Bool.false_eq_true, false_iff] at this
    simp [hna, this]
    intro hh
    exact hx hh.symm
  · have := h.authEv
    simp only [hna, Bool.false_eq_true, false_iff] at this
    simp [hna, this]

/-- Extending by a server line answered with BEGIN. -/
theorem InvB.extendBegin {unix : Bool} {c : Core} (h : InvB unix c)
    (a' : Auth) (l : Bytes) (hu : a'.unixFD = unix) (ha : a'.authenticated = true)
    (hj : Justified unix (c.trace ++ [Ev.recv l]))
    (hneg : a'.negotiating = true → c.auth.negotiating = true) :
    InvB unix { c with auth := a', authenticated := true,
                       trace := c.trace ++ [Ev.recv l] ++ [Ev.send (b!"BEGIN")] ++ [Ev.authenticated] } := by
  refine ⟨hu, ?_, ?_, ?_, ?_, ?_⟩
  · have : c.trace ++ [Ev.recv l] ++ [Ev.send (b!"BEGIN")] ++ [Ev.authenticated]
        = c.trace ++ [Ev.recv l, Ev.send (b!"BEGIN"), Ev.authenticated] := by simp
    simp only [this]
    apply beginsJustified_append h.begins
    intro pre post heq
    have hpre : pre = [Ev.recv l] := by
      cases pre with
      | nil => simp at heq
      | cons e pre' =>
        simp only [List.cons_append, List.cons.injEq] at heq
        obtain ⟨rfl, heq⟩ := heq
        cases pre' with
        | nil => rfl
        | cons e' pre'' =>
          simp only [List.cons_append, List.cons.injEq] at heq
          obtain ⟨-, heq⟩ := heq
          cases pre'' with
          | nil => simp at heq
          | cons e'' p3 =>
            simp only [List.cons_append, List.cons.injEq] at heq
            obtain ⟨-, heq⟩ := heq
            cases p3 <;> simp at heq
    subst hpre
    exact hj
  · intro hn
    obtain ⟨hu', okl, hok, hs⟩ := h.neg (hneg hn)
    refine ⟨hu', okl, hok, hs.trans ?_⟩
    simp only [List.append_assoc]
    exact List.sublist_append_left _ _
  · simp [ha]
  · simp
  · simp

theorem InvB.recvClose {unix : Bool} {c : Core} (h : InvB unix c) (l : Bytes) :
    InvB unix ({ c with trace := c.trace ++ [Ev.recv l] } : Core).close := by
  have h1 : InvB unix ({ c with trace := c.trace ++ [Ev.recv l] } : Core) := by
    refine ⟨h.unixEq, ?_, ?_, h.authEq, ?_, ?_⟩
    · exact beginsJustified_append_noBegin h.begins (by simp)
    · intro hn
      obtain ⟨hu, okl, hok, hs⟩ := h.neg hn
      exact ⟨hu, okl, hok, hs.trans (List.sublist_append_left _ _)⟩
    · simpa using h.authIff
    · simpa using h.authEv
  exact h1.close

theorem InvB.line {unix : Bool} {c : Core} (h : InvB unix c) (env : Env) (l : Bytes) :
    InvB unix (c.line env l) := by
  unfold Core.line
  split
  · exact h
  · rename_i hna
    simp only [Bool.not_eq_true] at hna
    split
    · exact h
    · split
      · exact h.close
      · split
        · exact h.recvClose l
        · rename_i a' out hh
          have hauth : c.auth.authenticated = false := by rw [h.authEq]; exact hna
          have H := handle_ok_cases hh
          cases H with
          | next m rest hc ho =>
            simp only [hauth, Bool.false_eq_true, if_false, List.map_cons, List.map_nil]
            exact h.extend hna _ l _ h.unixEq rfl (authLine_ne_begin env m) (by simp)
          | okBegin g hok hu =>
            simp only [if_true, List.map_cons, List.map_nil]
            have hux : unix = false := by rw [← h.unixEq]; exact hu
            refine h.extendBegin _ l h.unixEq rfl ?_ (fun hn => hn)
            exact ⟨l, hok, by simp [hux]⟩
          | okNegotiate g hok hu =>
            simp only [hauth, Bool.false_eq_true, if_false, List.map_cons, List.map_nil]
            have hux : unix = true := by rw [← h.unixEq]; exact hu
            refine h.extend hna _ l _ h.unixEq rfl (by decide) ?_
            intro _
            refine ⟨hux, l, hok, ?_⟩
            rw [List.append_assoc]
            exact List.sublist_append_right _ _
          | agree hc hu hn =>
            simp only [if_true, List.map_cons, List.map_nil]
            obtain ⟨hux, okl, hok, hs⟩ := h.neg hn
            refine h.extendBegin _ l h.unixEq rfl ?_ (fun hn => hn)
            refine ⟨okl, hok, ?_⟩
            simp only [hux, if_true]
            exact ⟨l, Or.inl hc, by simpa using hs.append (List.Sublist.refl [Ev.recv l])⟩
          | errorBegin hc hn =>
            simp only [if_true, List.map_cons, List.map_nil]
            obtain ⟨hux, okl, hok, hs⟩ := h.neg hn
            refine h.extendBegin _ l h.unixEq rfl ?_ (fun hn => hn)
            refine ⟨okl, hok, ?_⟩
            simp only [hux, if_true]
            exact ⟨l, Or.inr hc, by simpa using hs.append (List.Sublist.refl [Ev.recv l])⟩
          | data line hc hl =>
            simp only [hauth, Bool.false_eq_true, if_false, List.map_cons, List.map_nil]
            refine h.extend hna _ l _ h.unixEq hauth ?_ ?_
            · rcases hl with rfl | rfl | ⟨x, rfl⟩ | ⟨x, rfl⟩ <;> simp [lDATA, lCANCEL]
            · intro hn
              obtain ⟨hu, okl, hok, hs⟩ := h.neg hn
              refine ⟨hu, okl, hok, hs.trans ?_⟩
              rw [List.append_assoc]
              exact List.sublist_append_left _ _

theorem InvB.step {unix : Bool} {c : Core} (h : InvB unix c) (s : Step) : InvB unix (c.step s) := by
  cases s with
  | line env l => exact h.line env l
  | overflow =>
    simp only [Core.step]
    split
    · exact h
    · exact h.close

theorem InvB.run {unix : Bool} (steps : List Step) : ∀ {c : Core}, InvB unix c → InvB unix (c.run steps) := by
  induction steps with
  | nil => intro c h; exact h
  | cons s t ih => intro c h; exact ih (h.step s)

theorem InvB.init (pref : List Bytes) (unix : Bool) (env : Env) :
    InvB unix (connectionMade pref unix env).core := by
  unfold connectionMade authTryNextMethod
  cases pref with
  | nil =>
    refine ⟨rfl, ?_, by simp [Proto.core, Proto.close], rfl, by simp [Proto.core, Proto.close],
      by simp [Proto.core, Proto.close]⟩
    intro pre post heq
    have : Ev.send (b!"BEGIN") ∈ [Ev.nul, Ev.close] := by
      have h2 : [Ev.nul, Ev.close] = pre ++ Ev.send (b!"BEGIN") :: post := heq
      rw [h2]; simp
    simp at this
  | cons m rest =>
    refine ⟨rfl, ?_, by simp [Proto.core], rfl, ?_, by simp [Proto.core]⟩
    · intro pre post heq
      have : Ev.send (b!"BEGIN") ∈ [Ev.nul, Ev.send (authLine env m)] := by
        have h2 : [Ev.nul, Ev.send (authLine env m)] = pre ++ Ev.send (b!"BEGIN") :: post := heq
        rw [h2]; simp
      simp at this
      exact absurd this.symm (authLine_ne_begin env m)
    · simp [Proto.core]
      intro hh
      exact authLine_ne_begin env m hh.symm

/-- The invariant holds after every run of the client model. -/
theorem invB_clientRun (pref : List Bytes) (unix : Bool) (envAt : Nat → Env) (chunks : List Bytes) :
    InvB unix (clientRun pref unix envAt chunks).core := by
  obtain ⟨steps, hs⟩ := clientRun_core pref unix envAt chunks
  rw [hs]
  exact (InvB.init pref unix (envAt 0)).run steps

end Txdbus.AuthClient
