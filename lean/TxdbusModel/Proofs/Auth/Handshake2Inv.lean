/-
C07 x C06 proofs, part 4 - every schedule of cuts.

`Inv`: every state the adversary can reach is a phase of the line-level conversation with a proper prefix of the
line in flight already read into the receiver's buffer (`partS`, `partC`), or the bus is reading `BEGIN\r\n`, or
both sides have authenticated.  The invariant holds initially (`inv_init`) and is kept by every move
(`inv_step`); from every state satisfying it a schedule leads to a state where nothing is in flight
(`inv_progress`), and such a state is the completed handshake (`inv_quiescent`).
-/
import TxdbusModel.Proofs.Auth.Handshake2Phase

namespace Txdbus.Handshake2

open Txdbus.AuthServer (real NoCR RealWorld Inst lit Server Out handle)
open Txdbus.Gen.ServerAuth (wOk maxAuthLength)
open Txdbus.AuthClient (Ev sends lBEGIN)

/-! ## a line partly read -/

/-- `L` after the bus has read `x` of the line in flight; `rest` is still queued. -/
def partS (L : State) (x rest : Bytes) : State := { L with s := L.s.setBuf x, c2s := rest }

/-- `L` after the client has read `x` of the line in flight; `rest` is still queued. -/
def partC (L : State) (x rest : Bytes) : State := { L with c := { L.c with buffer := x }, s2c := rest }

/-- The line in flight goes to the bus. -/
structure FlightS (cfg : Cfg) (L : State) (l : Bytes) : Prop where
  base : SBase cfg L.s
  q1 : L.c2s = l ++ [13, 10]
  q2 : L.s2c = []
  clean : NoCR l
  fits : l.length ≤ maxAuthLength

/-- The line in flight goes to the client. -/
structure FlightC (L : State) (l : Bytes) : Prop where
  unauth : L.c.authenticated = false
  buf : L.c.buffer = []
  q1 : L.s2c = l ++ [13, 10]
  q2 : L.c2s = []
  clean : NoCR l
  fits : l.length ≤ AuthClient.maxAuth

theorem le_of_le_100 {n : Nat} (h : n ≤ 100) : n ≤ 16384 := by omega

/-- Every phase but the first has exactly one clean line in flight towards a receiver at a line boundary. -/
theorem phase_flight {cfg : Cfg} (hyp : Hyp cfg) {r : Nat} {L : State} (hp : Phase cfg r L) :
    (∃ l, FlightS cfg L l) ∨ (∃ l, FlightC L l) ∨
    (r = 13 ∧ L.s = AuthServer.Proto.init cfg.guid cfg.w0 ∧ L.c2s = 0 :: (lit "AUTH EXTERNAL" ++ [13, 10]) ∧ L.s2c = [] ∧
      CBase L.c (authAt cfg.unix 0)) := by
  have cc := clean_const
  cases hp with
  | start _ hc hs q1 q2 => exact Or.inr (Or.inr ⟨rfl, hs, q1, q2, hc⟩)
  | auth0 _ hc hb hs ha q1 q2 => exact Or.inl ⟨_, hb, q1, q2, cc.1.1, le_of_le_100 cc.1.2⟩
  | extChal _ uid e h1 h2 hc hb hs ha q1 q2 =>
    exact Or.inr (Or.inl ⟨_, hc.unauth, hc.buf, q1, q2, cc.2.1.1, le_of_le_100 cc.2.1.2⟩)
  | extResp _ uid e h1 h2 hc hb hs ha q1 q2 => exact Or.inl ⟨_, hb, q1, q2, cc.2.2.1.1, le_of_le_100 cc.2.2.1.2⟩
  | okSent _ i hc hs q1 q2 =>
    exact Or.inr (Or.inl ⟨_, hc.unauth, hc.buf, q1, q2, (clean_ok hyp).1, (clean_ok hyp).2⟩)
  | negSent _ i g hu hc hs q1 q2 => exact Or.inl ⟨_, hs.base, q1, q2, cc.2.2.2.1.1, le_of_le_100 cc.2.2.2.1.2⟩
  | negErr _ i g hu hc hs q1 q2 =>
    exact Or.inr (Or.inl ⟨_, hc.unauth, hc.buf, q1, q2, cc.2.2.2.2.1.1, le_of_le_100 cc.2.2.2.2.1.2⟩)
  | rej0 _ h0 hc hb hs ha q1 q2 =>
    exact Or.inr (Or.inl ⟨_, hc.unauth, hc.buf, q1, q2, cc.2.2.2.2.2.1.1, le_of_le_100 cc.2.2.2.2.2.1.2⟩)
  | auth1 _ h0 hc hb hs ha q1 q2 =>
    exact Or.inl ⟨_, hb, q1, q2, (clean_cookieAuth hyp).1, (clean_cookieAuth hyp).2⟩
  | ckChal _ h0 m w1 c1 ho hc hb hs ha q1 q2 =>
    exact Or.inr (Or.inl ⟨_, hc.unauth, hc.buf, q1, q2, (clean_chal hyp ho).1, (clean_chal hyp ho).2⟩)
  | ckResp _ h0 m w1 c1 ho hc hb hs ha q1 q2 =>
    exact Or.inl ⟨_, hb, q1, q2, (clean_reply hyp ho).1, (clean_reply hyp ho).2.1⟩
  | rej1 _ h0 h1 hc hb hs ha q1 q2 =>
    exact Or.inr (Or.inl ⟨_, hc.unauth, hc.buf, q1, q2, cc.2.2.2.2.2.1.1, le_of_le_100 cc.2.2.2.2.2.1.2⟩)
  | auth2 _ h0 h1 hc hb hs ha q1 q2 =>
    exact Or.inl ⟨_, hb, q1, q2, cc.2.2.2.2.2.2.1.1, le_of_le_100 cc.2.2.2.2.2.2.1.2⟩

/-! ## one read of a partly read line -/

theorem recv_setBuf (p : SProto) (x y : Bytes) (hc : p.crashed = false) (ha : p.authenticated = false)
    (hf : p.firstByte = false) :
    AuthServer.recv real (p.setBuf x) y = AuthServer.recv real (p.setBuf []) (x ++ y) := by
  rw [AuthServer.recv_lines real (p.setBuf x) y hc ha hf, AuthServer.recv_lines real (p.setBuf []) (x ++ y) hc ha hf,
    AuthServer.recvLines_eq, AuthServer.recvLines_eq]
  simp only [AuthServer.setBuf_buffer, AuthServer.setBuf_setBuf, List.nil_append]

theorem setBuf_nil_self (p : SProto) (hb : p.buffer = []) : p.setBuf [] = p := by
  cases p; simp_all [AuthServer.Proto.setBuf]

/-- The bus reads `y` of a partly read line: the line stays incomplete, or the read is the line-level step. -/
theorem feedS_partS {cfg : Cfg} {L : State} {l : Bytes} (hf : FlightS cfg L l) (x y z : Bytes)
    (h : x ++ (y ++ z) = l ++ [13, 10]) :
    feedS (partS L x (y ++ z)) y z = if z = [] then lstepS L else partS L (x ++ y) z := by
  by_cases hz : z = []
  · subst hz
    simp only [if_true]
    unfold lstepS feedS partS
    simp only
    rw [recv_setBuf L.s x y hf.base.alive hf.base.unauth hf.base.first, setBuf_nil_self L.s hf.base.buf]
    have hxy : x ++ y = L.c2s := by rw [hf.q1, ← h]; simp
    rw [hxy]
    rfl
  · simp only [hz, if_false]
    unfold feedS partS
    simp only
    have hp := srv_partial (L.s.setBuf x) y l z hf.base.alive hf.base.unauth hf.base.first hf.clean hf.fits
      (by simpa using h) hz
    rw [hp]
    simp only [AuthServer.setBuf_buffer, AuthServer.setBuf_setBuf]
    have : ((L.s.setBuf (x ++ y)).sent.drop (L.s.setBuf x).sent.length) = [] := by
      show L.s.sent.drop L.s.sent.length = []
      simp
    rw [this]
    simp [wireS]

theorem cli_setBuf (envAt : Nat → AuthClient.Env) (c : CProto) (x y : Bytes) (hb : c.buffer = [])
    (ha : c.authenticated = false) :
    AuthClient.dataReceived envAt { c with buffer := x } y = AuthClient.dataReceived envAt c (x ++ y) := by
  unfold AuthClient.dataReceived
  simp only [hb, ha, List.nil_append, Bool.false_eq_true, if_false]

/-- The client reads `y` of a partly read line. -/
theorem feedC_partC {cfg : Cfg} {L : State} {l : Bytes} (hf : FlightC L l) (x y z : Bytes)
    (h : x ++ (y ++ z) = l ++ [13, 10]) :
    feedC cfg (partC L x (y ++ z)) y z = if z = [] then lstepC cfg L else partC L (x ++ y) z := by
  by_cases hz : z = []
  · subst hz
    simp only [if_true]
    unfold lstepC feedC partC
    simp only
    rw [cli_setBuf _ L.c x y hf.buf hf.unauth]
    have hxy : x ++ y = L.s2c := by rw [hf.q1, ← h]; simp
    rw [hxy]
  · simp only [hz, if_false]
    unfold feedC partC
    simp only
    have hp := cli_partial (fun _ => envOf cfg L.s.srv.world) { L.c with buffer := x } y l z hf.unauth hf.clean hf.fits
      (by simpa using h) hz
    rw [hp]
    simp [wireC]

/-! ## the invariant -/

/-- Upper bound on a line with its delimiter, plus one: the weight of one phase in the measure. -/
def W : Nat := 16387

/-- What every reachable state looks like.  The index is a MEASURE: it decreases with every move that delivers at
least one byte (`inv_step`): the rank of the phase (weight `W` each, above everything the end game needs), then the
number of bytes of the line in flight that are still queued. -/
inductive Inv (cfg : Cfg) : Nat → State → Prop
  /-- a phase with `x` of the line in flight read by the bus, `rest ≠ []` still queued -/
  | midS (r : Nat) (L : State) (l x rest : Bytes) (hp : Phase cfg r L) (hf : FlightS cfg L l)
      (h : x ++ rest = l ++ [13, 10]) (hr : rest ≠ []) :
      Inv cfg ((r + 1) * W + (cfg.hello.length + 8) + rest.length) (partS L x rest)
  /-- the same towards the client -/
  | midC (r : Nat) (L : State) (l x rest : Bytes) (hp : Phase cfg r L) (hf : FlightC L l)
      (h : x ++ rest = l ++ [13, 10]) (hr : rest ≠ []) :
      Inv cfg ((r + 1) * W + (cfg.hello.length + 8) + rest.length) (partC L x rest)
  /-- nothing delivered yet -/
  | start (L : State) (hp : Phase cfg 13 L) (hs : L.s = AuthServer.Proto.init cfg.guid cfg.w0)
      (q1 : L.c2s = 0 :: (lit "AUTH EXTERNAL" ++ [13, 10])) (q2 : L.s2c = [])
      (hc : CBase L.c (authAt cfg.unix 0)) : Inv cfg (14 * W + (cfg.hello.length + 8) + 16) L
  /-- the client has sent BEGIN and the Hello call; the bus has read `x`, fewer than the 7 bytes of `BEGIN\r\n` -/
  | begin (L : State) (x rest : Bytes) (hb : BeginSent cfg L) (h : x ++ rest = lBEGIN ++ 13 :: 10 :: cfg.hello)
      (hx : x.length < 7) : Inv cfg (rest.length + 1) (partS L x rest)
  /-- both sides have authenticated -/
  | done (st : State) (hd : Done cfg st) : Inv cfg st.c2s.length st

theorem partS_nil (L : State) (hb : L.s.buffer = []) : partS L [] L.c2s = L := by
  unfold partS
  rw [setBuf_nil_self L.s hb]

theorem partC_nil (L : State) (hb : L.c.buffer = []) : partC L [] L.s2c = L := by
  unfold partC
  have : ({ L.c with buffer := [] } : CProto) = L.c := by cases hc : L.c; simp_all
  rw [this]

theorem flightS_len {cfg : Cfg} {L : State} {l : Bytes} (hf : FlightS cfg L l) : L.c2s.length ≤ 16386 := by
  rw [hf.q1]; have := hf.fits; rw [maxAuthLength_eq] at this; simp; omega

theorem flightC_len {L : State} {l : Bytes} (hf : FlightC L l) : L.s2c.length ≤ 16386 := by
  rw [hf.q1]; have := hf.fits; rw [maxAuth_eq] at this; simp; omega

/-- A phase reached at a line boundary satisfies the invariant, with a measure below the next rank. -/
theorem inv_of_phase {cfg : Cfg} (hyp : Hyp cfg) {r : Nat} {L : State} (hp : Phase cfg r L) :
    ∃ n, n ≤ (r + 1) * W + (cfg.hello.length + 8) + 16386 ∧ Inv cfg n L := by
  rcases phase_flight hyp hp with ⟨l, hf⟩ | ⟨l, hf⟩ | ⟨hr, hs, q1, q2, hc⟩
  · have := Inv.midS r L l [] L.c2s hp hf (by rw [hf.q1]; rfl) (by rw [hf.q1]; simp)
    rw [partS_nil L hf.base.buf] at this
    exact ⟨_, by have := flightS_len hf; omega, this⟩
  · have := Inv.midC r L l [] L.s2c hp hf (by rw [hf.q1]; rfl) (by rw [hf.q1]; simp)
    rw [partC_nil L hf.buf] at this
    exact ⟨_, by have := flightC_len hf; omega, this⟩
  · subst hr
    exact ⟨_, by omega, Inv.start L hp hs q1 q2 hc⟩

theorem inv_of_begin {cfg : Cfg} {L : State} (hb : BeginSent cfg L) :
    ∃ n, n ≤ cfg.hello.length + 8 ∧ Inv cfg n L := by
  have := Inv.begin L [] L.c2s hb (by rw [hb.q1]; rfl) (by simp)
  rw [partS_nil L hb.srv.base.buf] at this
  refine ⟨_, ?_, this⟩
  rw [hb.q1]; simp [lBEGIN]

theorem inv_of_next {cfg : Cfg} (hyp : Hyp cfg) {r : Nat} {st : State} (h : Next cfg r st) :
    ∃ n, n ≤ r * W + (cfg.hello.length + 8) + 16386 ∧ Inv cfg n st := by
  rcases h with ⟨r', hr, hp⟩ | hb
  · obtain ⟨n, hn, hi⟩ := inv_of_phase hyp hp
    refine ⟨n, ?_, hi⟩
    have : (r' + 1) * W ≤ r * W := Nat.mul_le_mul_right W (by omega)
    omega
  · obtain ⟨n, hn, hi⟩ := inv_of_begin hb
    exact ⟨n, by omega, hi⟩

/-! ## the initial state -/

theorem init_phase (cfg : Cfg) : Phase cfg 13 (init cfg) ∧ (init cfg).s = AuthServer.Proto.init cfg.guid cfg.w0 ∧
    (init cfg).c2s = 0 :: (lit "AUTH EXTERNAL" ++ [13, 10]) ∧ (init cfg).s2c = [] ∧
    CBase (init cfg).c (authAt cfg.unix 0) := by
  have hc : CBase (init cfg).c (authAt cfg.unix 0) := by
    unfold init
    simp only [AuthClient.pref_eq, AuthClient.connectionMade, AuthClient.authTryNextMethod]
    refine ⟨rfl, rfl, rfl, rfl, rfl, ?_, ?_⟩
    · simp [sends, AuthClient.authLine, AuthClient.mEXTERNAL, AuthClient.mCOOKIE, AuthClient.mANONYMOUS, lBEGIN]
    · simp
  have hq : (init cfg).c2s = 0 :: (lit "AUTH EXTERNAL" ++ [13, 10]) := by
    unfold init
    simp only [AuthClient.pref_eq, AuthClient.connectionMade, AuthClient.authTryNextMethod]
    have := authLine_ext (envOf cfg cfg.w0)
    simp only [mechAt] at this
    simp [wireC, this]
  exact ⟨Phase.start _ hc rfl hq rfl, rfl, hq, rfl, hc⟩

theorem inv_init (cfg : Cfg) : Inv cfg (14 * W + (cfg.hello.length + 8) + 16) (init cfg) := by
  obtain ⟨hp, hs, q1, q2, hc⟩ := init_phase cfg
  exact Inv.start _ hp hs q1 q2 hc

/-! ## one move -/

theorem toServer_nil {st : State} (n : Nat) (h : st.c2s = []) : toServer n st = st := by
  unfold toServer; rw [h]

theorem toClient_nil {cfg : Cfg} {st : State} (n : Nat) (h : st.s2c = []) : toClient cfg n st = st := by
  unfold toClient; rw [h]

theorem toServer_eq {st : State} (n : Nat) (h : st.c2s ≠ []) :
    toServer n st = feedS st (st.c2s.take (n + 1)) (st.c2s.drop (n + 1)) := by
  unfold toServer
  cases hq : st.c2s with
  | nil => exact absurd hq h
  | cons _ _ => rfl

theorem toClient_eq {cfg : Cfg} {st : State} (n : Nat) (h : st.s2c ≠ []) :
    toClient cfg n st = feedC cfg st (st.s2c.take (n + 1)) (st.s2c.drop (n + 1)) := by
  unfold toClient
  cases hq : st.s2c with
  | nil => exact absurd hq h
  | cons _ _ => rfl

/-- The bus reads `y` while `BEGIN\r\n` is in flight (followed by the Hello call): still incomplete, or the bus
authenticates and what follows the delimiter goes to the binary branch. -/
theorem feedS_begin {cfg : Cfg} {L : State} (hb : BeginSent cfg L) (x y z : Bytes)
    (h : x ++ (y ++ z) = lBEGIN ++ 13 :: 10 :: cfg.hello) (hx : x.length < 7) :
    (x ++ y).length < 7 ∧ feedS (partS L x (y ++ z)) y z = partS L (x ++ y) z ∨
    Done cfg (feedS (partS L x (y ++ z)) y z) := by
  have hbase := hb.srv.base
  have hB : (lBEGIN ++ [13, 10] : Bytes).length = 7 := by decide
  have h' : (x ++ y) ++ z = (lBEGIN ++ [13, 10]) ++ cfg.hello := by simpa using h
  rcases List.append_eq_append_iff.1 h' with ⟨a', h1, h2⟩ | ⟨c', h1, h2⟩
  · by_cases ha : a' = []
    · -- exactly BEGIN\r\n
      subst ha
      right
      have hxy : x ++ y = lBEGIN ++ 13 :: 10 :: [] := by simpa using h1.symm
      have hz : z = cfg.hello := by simpa using h2
      obtain ⟨n, inst, u, hcur, hname⟩ := hb.srv.cur
      have ho := sv_begin L.s.srv n inst u hb.srv.state hcur hname
      rw [← lit_consts.2.2.1] at ho
      have hrecv : AuthServer.recv real (L.s.setBuf x) y = (L.s.handled lBEGIN (handle real L.s.srv lBEGIN)).handOff [] := by
        rw [recv_setBuf L.s x y hbase.alive hbase.unauth hbase.first, setBuf_nil_self L.s hbase.buf]
        exact srv_success L.s (x ++ y) lBEGIN [] hbase.alive hbase.unauth hbase.first hbase.open_ clean_const.2.2.2.2.2.2.2.1
          (by decide) (by rw [hbase.buf, hxy]; rfl) (by rw [ho]) (by rw [ho])
      unfold feedS partS
      simp only [hrecv, ho]
      refine ⟨hb.cAuth, hb.cOpen, hb.cMech, hb.cBegin, hb.cBin, rfl, hbase.open_, hbase.alive, ?_, ?_, rfl, ?_, ?_⟩
      · show accepts (L.s.log ++ [AuthServer.evOf L.s.srv lBEGIN _]) = _
        rw [accepts_snoc, hb.srv.acc]; rfl
      · show (wOk ++ cfg.guid) ∈ L.s.sent ++ []
        simpa using hb.srv.okSent
      · show (L.s.binary ++ []) ++ z = cfg.hello
        rw [hbase.bin, hz]; rfl
      · show L.s2c ++ wireS ((L.s.sent ++ []).drop L.s.sent.length) = []
        rw [hb.q2]; simp [wireS]
    · -- a proper prefix of BEGIN\r\n
      left
      have hlen : (x ++ y).length < 7 := by
        have := congrArg List.length h1
        rw [hB, List.length_append] at this
        have : a'.length ≥ 1 := by
          cases a' with
          | nil => exact absurd rfl ha
          | cons _ _ => simp
        omega
      refine ⟨hlen, ?_⟩
      unfold feedS partS
      simp only
      have hp := srv_partial (L.s.setBuf x) y lBEGIN a' hbase.alive hbase.unauth hbase.first clean_const.2.2.2.2.2.2.2.1
        (by decide) (by simpa using h1.symm) ha
      rw [hp]
      simp only [AuthServer.setBuf_buffer, AuthServer.setBuf_setBuf]
      have : ((L.s.setBuf (x ++ y)).sent.drop (L.s.setBuf x).sent.length) = [] := by
        show L.s.sent.drop L.s.sent.length = []
        simp
      rw [this]
      simp [wireS]
  · -- BEGIN\r\n and `c'` of the Hello call
    right
    have hxy : x ++ y = lBEGIN ++ 13 :: 10 :: c' := by simpa using h1
    obtain ⟨n, inst, u, hcur, hname⟩ := hb.srv.cur
    have ho := sv_begin L.s.srv n inst u hb.srv.state hcur hname
    rw [← lit_consts.2.2.1] at ho
    have hrecv : AuthServer.recv real (L.s.setBuf x) y = (L.s.handled lBEGIN (handle real L.s.srv lBEGIN)).handOff c' := by
      rw [recv_setBuf L.s x y hbase.alive hbase.unauth hbase.first, setBuf_nil_self L.s hbase.buf]
      exact srv_success L.s (x ++ y) lBEGIN c' hbase.alive hbase.unauth hbase.first hbase.open_ clean_const.2.2.2.2.2.2.2.1
        (by decide) (by rw [hbase.buf, hxy]; rfl) (by rw [ho]) (by rw [ho])
    unfold feedS partS
    simp only [hrecv, ho]
    refine ⟨hb.cAuth, hb.cOpen, hb.cMech, hb.cBegin, hb.cBin, rfl, hbase.open_, hbase.alive, ?_, ?_, rfl, ?_, ?_⟩
    · show accepts (L.s.log ++ [AuthServer.evOf L.s.srv lBEGIN _]) = _
      rw [accepts_snoc, hb.srv.acc]; rfl
    · show (wOk ++ cfg.guid) ∈ L.s.sent ++ []
      simpa using hb.srv.okSent
    · show (L.s.binary ++ c') ++ z = cfg.hello
      rw [hbase.bin, h2]; rfl
    · show L.s2c ++ wireS ((L.s.sent ++ []).drop L.s.sent.length) = []
      rw [hb.q2]; simp [wireS]

/-- After both sides have authenticated every read of the bus extends the binary branch. -/
theorem feedS_done {cfg : Cfg} {st : State} (hd : Done cfg st) (y z : Bytes) (h : st.c2s = y ++ z) :
    Done cfg (feedS st y z) := by
  unfold feedS
  rw [AuthServer.recv_auth real st.s y hd.sAlive hd.sAuth]
  refine ⟨hd.cAuth, hd.cOpen, hd.cMech, hd.cBegin, hd.cBin, hd.sAuth, hd.sOpen, hd.sAlive, hd.acc, hd.okSent, hd.guid,
    ?_, ?_⟩
  · show (st.s.binary ++ y) ++ z = cfg.hello
    rw [List.append_assoc, ← h]; exact hd.bin
  · show st.s2c ++ wireS (st.s.sent.drop st.s.sent.length) = []
    rw [hd.q2]; simp [wireS]

/-- The move delivers at least one byte. -/
def effective (st : State) : Move → Bool
  | .toServer _ => !st.c2s.isEmpty
  | .toClient _ => !st.s2c.isEmpty

/-- Every move keeps the invariant; a move that delivers at least one byte makes the measure smaller, any other
move changes nothing. -/
theorem inv_step {cfg : Cfg} (hyp : Hyp cfg) {n : Nat} {st : State} (hi : Inv cfg n st) (m : Move) :
    ∃ n', Inv cfg n' (step cfg st m) ∧ n' ≤ n ∧ (effective st m = true → n' < n) := by
  have hW : 16386 < W := by decide
  cases hi with
  | midS r L l x rest hp hf h hr =>
    cases m with
    | toClient n =>
      refine ⟨_, ?_, Nat.le_refl _, fun he => ?_⟩
      · show Inv cfg _ (toClient cfg n (partS L x rest))
        rw [toClient_nil n (show (partS L x rest).s2c = [] from hf.q2)]
        exact Inv.midS r L l x rest hp hf h hr
      · have : (partS L x rest).s2c = [] := hf.q2
        simp [effective, this] at he
    | toServer n =>
      show ∃ n', Inv cfg n' (toServer n (partS L x rest)) ∧ _
      rw [toServer_eq n (show (partS L x rest).c2s ≠ [] from hr)]
      show ∃ n', Inv cfg n' (feedS (partS L x rest) (rest.take (n + 1)) (rest.drop (n + 1))) ∧ _
      have hsplit : rest = rest.take (n + 1) ++ rest.drop (n + 1) := (List.take_append_drop _ _).symm
      have hy : rest.take (n + 1) ≠ [] := by
        cases rest with
        | nil => exact absurd rfl hr
        | cons a t => simp
      generalize rest.take (n + 1) = y at hsplit hy
      generalize rest.drop (n + 1) = z at hsplit
      subst hsplit
      have hylen : y.length ≥ 1 := by cases y with
        | nil => exact absurd rfl hy
        | cons _ _ => simp
      rw [feedS_partS hf x y z h]
      by_cases hz : z = []
      · simp only [hz, if_true]
        rw [← lstep_toS (cfg := cfg) hf.q1]
        obtain ⟨n', hn', hi'⟩ := inv_of_next hyp (phase_next hyp hp)
        refine ⟨n', hi', ?_, fun _ => ?_⟩ <;> (simp only [List.length_append]; have e : (r + 1) * W = r * W + W := (by rw [Nat.add_mul, Nat.one_mul]); omega)
      · simp only [hz, if_false]
        refine ⟨_, Inv.midS r L l (x ++ y) z hp hf (by simpa using h) hz, ?_, fun _ => ?_⟩ <;>
          (simp only [List.length_append]; omega)
  | midC r L l x rest hp hf h hr =>
    cases m with
    | toServer n =>
      refine ⟨_, ?_, Nat.le_refl _, fun he => ?_⟩
      · show Inv cfg _ (toServer n (partC L x rest))
        rw [toServer_nil n (show (partC L x rest).c2s = [] from hf.q2)]
        exact Inv.midC r L l x rest hp hf h hr
      · have : (partC L x rest).c2s = [] := hf.q2
        simp [effective, this] at he
    | toClient n =>
      show ∃ n', Inv cfg n' (toClient cfg n (partC L x rest)) ∧ _
      rw [toClient_eq n (show (partC L x rest).s2c ≠ [] from hr)]
      show ∃ n', Inv cfg n' (feedC cfg (partC L x rest) (rest.take (n + 1)) (rest.drop (n + 1))) ∧ _
      have hsplit : rest = rest.take (n + 1) ++ rest.drop (n + 1) := (List.take_append_drop _ _).symm
      have hy : rest.take (n + 1) ≠ [] := by
        cases rest with
        | nil => exact absurd rfl hr
        | cons a t => simp
      generalize rest.take (n + 1) = y at hsplit hy
      generalize rest.drop (n + 1) = z at hsplit
      subst hsplit
      have hylen : y.length ≥ 1 := by cases y with
        | nil => exact absurd rfl hy
        | cons _ _ => simp
      rw [feedC_partC hf x y z h]
      by_cases hz : z = []
      · simp only [hz, if_true]
        rw [← lstep_toC (cfg := cfg) hf.q2]
        obtain ⟨n', hn', hi'⟩ := inv_of_next hyp (phase_next hyp hp)
        refine ⟨n', hi', ?_, fun _ => ?_⟩ <;> (simp only [List.length_append]; have e : (r + 1) * W = r * W + W := (by rw [Nat.add_mul, Nat.one_mul]); omega)
      · simp only [hz, if_false]
        refine ⟨_, Inv.midC r L l (x ++ y) z hp hf (by simpa using h) hz, ?_, fun _ => ?_⟩ <;>
          (simp only [List.length_append]; omega)
  | start _ hp hs q1 q2 hc =>
    cases m with
    | toClient n =>
      refine ⟨_, ?_, Nat.le_refl _, fun he => ?_⟩
      · show Inv cfg _ (toClient cfg n st)
        rw [toClient_nil n q2]
        exact Inv.start st hp hs q1 q2 hc
      · simp [effective, q2] at he
    | toServer n =>
      show ∃ n', Inv cfg n' (toServer n st) ∧ _
      rw [toServer_eq n (by rw [q1]; simp), q1]
      show ∃ n', Inv cfg n' (feedS st (0 :: (lit "AUTH EXTERNAL" ++ [13, 10]).take n) ((lit "AUTH EXTERNAL" ++ [13, 10]).drop n)) ∧ _
      have hsplit : (lit "AUTH EXTERNAL" ++ [13, 10] : Bytes) =
          (lit "AUTH EXTERNAL" ++ [13, 10]).take n ++ (lit "AUTH EXTERNAL" ++ [13, 10]).drop n :=
        (List.take_append_drop _ _).symm
      generalize (lit "AUTH EXTERNAL" ++ [13, 10] : Bytes).take n = y at hsplit
      generalize (lit "AUTH EXTERNAL" ++ [13, 10] : Bytes).drop n = z at hsplit
      have hlen15 : y.length + z.length = 15 := by
        have := congrArg List.length hsplit
        have h15 : (lit "AUTH EXTERNAL" ++ [13, 10] : Bytes).length = 15 := by decide
        rw [h15, List.length_append] at this
        omega
      rw [feedS_nul st hs]
      have hp' := nulRead_phase st hc hs q1 q2
      have hq' : (nulRead st).c2s = lit "AUTH EXTERNAL" ++ [13, 10] := by show st.c2s.tail = _; rw [q1]; rfl
      rcases phase_flight hyp hp' with ⟨l, hf⟩ | ⟨l, hf⟩ | ⟨_, hs', _⟩
      · have hl : l ++ [13, 10] = y ++ z := by rw [← hf.q1, hq', hsplit]
        by_cases hy : y = []
        · simp only [hy, if_true]
          have hz : z = (nulRead st).c2s := by rw [hq', hsplit, hy]; rfl
          rw [hz]
          have hi' := Inv.midS 12 (nulRead st) l [] (nulRead st).c2s hp' hf (by rw [hf.q1]; rfl) (by rw [hf.q1]; simp)
          rw [partS_nil _ hf.base.buf] at hi'
          have hlen : (nulRead st).c2s.length = 15 := by rw [hq']; decide
          refine ⟨_, hi', ?_, fun _ => ?_⟩ <;> (rw [hlen]; omega)
        · simp only [hy, if_false]
          have hpart : nulRead st = partS (nulRead st) [] (y ++ z) := by
            rw [← hl, ← hf.q1, partS_nil _ hf.base.buf]
          rw [hpart, feedS_partS hf [] y z (by simpa using hl.symm)]
          by_cases hz : z = []
          · simp only [hz, if_true]
            rw [← lstep_toS (cfg := cfg) hf.q1]
            obtain ⟨n', hn', hi'⟩ := inv_of_next hyp (phase_next hyp hp')
            refine ⟨n', hi', ?_, fun _ => ?_⟩ <;> omega
          · simp only [hz, if_false]
            refine ⟨_, Inv.midS 12 (nulRead st) l ([] ++ y) z hp' hf (by simpa using hl.symm) hz, ?_, fun _ => ?_⟩ <;>
              omega
      · exfalso
        have := hf.q2
        rw [hq'] at this
        exact absurd this (by decide)
      · exfalso
        have : (nulRead st).s.firstByte = false := rfl
        rw [hs'] at this
        cases this
  | begin L x rest hb h hx =>
    cases m with
    | toClient n =>
      refine ⟨_, ?_, Nat.le_refl _, fun he => ?_⟩
      · show Inv cfg _ (toClient cfg n (partS L x rest))
        rw [toClient_nil n (show (partS L x rest).s2c = [] from hb.q2)]
        exact Inv.begin L x rest hb h hx
      · have : (partS L x rest).s2c = [] := hb.q2
        simp [effective, this] at he
    | toServer n =>
      have hr : rest ≠ [] := by
        intro h0
        rw [h0, List.append_nil] at h
        have := congrArg List.length h
        simp [lBEGIN] at this
        omega
      show ∃ n', Inv cfg n' (toServer n (partS L x rest)) ∧ _
      rw [toServer_eq n (show (partS L x rest).c2s ≠ [] from hr)]
      show ∃ n', Inv cfg n' (feedS (partS L x rest) (rest.take (n + 1)) (rest.drop (n + 1))) ∧ _
      have hsplit : rest = rest.take (n + 1) ++ rest.drop (n + 1) := (List.take_append_drop _ _).symm
      have hy : rest.take (n + 1) ≠ [] := by
        cases rest with
        | nil => exact absurd rfl hr
        | cons a t => simp
      generalize rest.take (n + 1) = y at hsplit hy
      generalize rest.drop (n + 1) = z at hsplit
      subst hsplit
      have hylen : y.length ≥ 1 := by cases y with
        | nil => exact absurd rfl hy
        | cons _ _ => simp
      rcases feedS_begin hb x y z h hx with ⟨hlen, heq⟩ | hd
      · rw [heq]
        refine ⟨_, Inv.begin L (x ++ y) z hb (by simpa using h) hlen, ?_, fun _ => ?_⟩ <;>
          (simp only [List.length_append]; omega)
      · have hc2s : (feedS (partS L x (y ++ z)) y z).c2s = z := rfl
        refine ⟨_, Inv.done _ hd, ?_, fun _ => ?_⟩ <;> (rw [hc2s]; simp only [List.length_append]; omega)
  | done _ hd =>
    cases m with
    | toClient n =>
      refine ⟨_, ?_, Nat.le_refl _, fun he => ?_⟩
      · show Inv cfg _ (toClient cfg n st)
        rw [toClient_nil n hd.q2]
        exact Inv.done st hd
      · simp [effective, hd.q2] at he
    | toServer n =>
      show ∃ n', Inv cfg n' (toServer n st) ∧ _
      by_cases hq : st.c2s = []
      · rw [toServer_nil n hq]
        exact ⟨_, Inv.done st hd, Nat.le_refl _, fun he => by simp [effective, hq] at he⟩
      · rw [toServer_eq n hq]
        have hc2s : (feedS st (st.c2s.take (n + 1)) (st.c2s.drop (n + 1))).c2s = st.c2s.drop (n + 1) := rfl
        refine ⟨_, Inv.done _ (feedS_done hd _ _ (List.take_append_drop _ _).symm), ?_, fun _ => ?_⟩ <;>
          (rw [hc2s, List.length_drop]; have : st.c2s.length ≥ 1 := by
            cases hc : st.c2s with
            | nil => exact absurd hc hq
            | cons _ _ => simp
           omega)

/-! ## reachable states, schedules -/

/-- The states the adversary can reach from the two `connectionMade`s. -/
inductive Reach (cfg : Cfg) : State → Prop
  | init : Reach cfg (init cfg)
  | step (st : State) (m : Move) (h : Reach cfg st) : Reach cfg (step cfg st m)

theorem reach_inv {cfg : Cfg} (hyp : Hyp cfg) {st : State} (h : Reach cfg st) : ∃ n, Inv cfg n st := by
  induction h with
  | init => exact ⟨_, inv_init cfg⟩
  | step st m _ ih =>
    obtain ⟨n, hi⟩ := ih
    obtain ⟨n', hi', _⟩ := inv_step hyp hi m
    exact ⟨n', hi'⟩

theorem reach_run {cfg : Cfg} {st : State} (h : Reach cfg st) (ms : List Move) : Reach cfg (run cfg st ms) := by
  induction ms generalizing st with
  | nil => exact h
  | cons m t ih => exact ih (Reach.step st m h)

theorem inv_run {cfg : Cfg} (hyp : Hyp cfg) {n : Nat} {st : State} (h : Inv cfg n st) (ms : List Move) :
    ∃ n', Inv cfg n' (run cfg st ms) := by
  induction ms generalizing st n with
  | nil => exact ⟨n, h⟩
  | cons m t ih =>
    obtain ⟨n', hi', _⟩ := inv_step hyp h m
    exact ih hi'

/-- Reachable = the result of a schedule. -/
theorem reach_iff_run {cfg : Cfg} {st : State} : Reach cfg st ↔ ∃ ms, st = run cfg (init cfg) ms := by
  constructor
  · intro h
    induction h with
    | init => exact ⟨[], rfl⟩
    | step st m _ ih =>
      obtain ⟨ms, rfl⟩ := ih
      exact ⟨ms ++ [m], by simp [run]⟩
  · rintro ⟨ms, rfl⟩
    exact reach_run Reach.init ms

/-! ## nothing in flight: the handshake is complete -/

theorem begin_len (hello : Bytes) : (lBEGIN ++ 13 :: 10 :: hello).length = 7 + hello.length := by
  simp [lBEGIN]; omega

theorem inv_quiescent {cfg : Cfg} {n : Nat} {st : State} (hi : Inv cfg n st) (hq : st.quiescent = true) :
    Done cfg st ∧ st.c2s = [] := by
  have hq' : st.c2s = [] ∧ st.s2c = [] := by
    unfold State.quiescent at hq
    simpa [List.isEmpty_iff] using hq
  cases hi with
  | midS r L l x rest hp hf h hr => exact absurd hq'.1 hr
  | midC r L l x rest hp hf h hr => exact absurd hq'.2 hr
  | start _ hp hs q1 q2 hc => rw [q1] at hq'; cases hq'.1
  | begin L x rest hb h hx =>
    exfalso
    have hr : rest = [] := hq'.1
    rw [hr, List.append_nil] at h
    have := congrArg List.length h
    rw [begin_len] at this
    omega
  | done _ hd => exact ⟨hd, hq'.1⟩

/-! ## progress: every queued byte can be delivered, and then nothing is in flight -/

/-- The move that delivers everything queued in the direction of the line in flight. -/
def fullMove (st : State) : Move :=
  match st.c2s with
  | [] => Move.toClient st.s2c.length
  | _ :: _ => Move.toServer st.c2s.length

theorem take_all (q : Bytes) : q.take (q.length + 1) = q ∧ q.drop (q.length + 1) = [] :=
  ⟨List.take_of_length_le (by omega), List.drop_eq_nil_of_le (by omega)⟩

theorem step_full_S {cfg : Cfg} {st : State} (h : st.c2s ≠ []) : step cfg st (fullMove st) = lstepS st := by
  unfold fullMove
  cases hq : st.c2s with
  | nil => exact absurd hq h
  | cons a t =>
    show toServer (a :: t).length st = _
    rw [← hq, toServer_eq _ h, (take_all st.c2s).1, (take_all st.c2s).2]
    rfl

theorem step_full_C {cfg : Cfg} {st : State} (h1 : st.c2s = []) (h : st.s2c ≠ []) :
    step cfg st (fullMove st) = lstepC cfg st := by
  unfold fullMove
  rw [h1]
  show toClient cfg st.s2c.length st = _
  rw [toClient_eq _ h, (take_all st.s2c).1, (take_all st.s2c).2]
  rfl

theorem step_full_phase {cfg : Cfg} (hyp : Hyp cfg) {r : Nat} {L : State} (hp : Phase cfg r L) :
    step cfg L (fullMove L) = lstep cfg L := by
  rcases phase_flight hyp hp with ⟨l, hf⟩ | ⟨l, hf⟩ | ⟨_, _, q1, _, _⟩
  · rw [step_full_S (by rw [hf.q1]; simp), lstep_toS hf.q1]
  · rw [step_full_C hf.q2 (by rw [hf.q1]; simp), lstep_toC hf.q2]
  · rw [step_full_S (by rw [q1]; simp)]
    unfold lstep; rw [q1]

theorem quiescent_of {st : State} (h1 : st.c2s = []) (h2 : st.s2c = []) : st.quiescent = true := by
  unfold State.quiescent; rw [h1, h2]; rfl

/-- After BEGIN one read of the bus ends the handshake. -/
theorem begin_progress {cfg : Cfg} {L : State} (x rest : Bytes) (hb : BeginSent cfg L)
    (h : x ++ rest = lBEGIN ++ 13 :: 10 :: cfg.hello) (hx : x.length < 7) :
    (step cfg (partS L x rest) (Move.toServer rest.length)).quiescent = true := by
  have hr : rest ≠ [] := by
    intro h0
    rw [h0, List.append_nil] at h
    have := congrArg List.length h
    rw [begin_len] at this
    omega
  show (toServer rest.length (partS L x rest)).quiescent = true
  rw [toServer_eq _ (show (partS L x rest).c2s ≠ [] from hr)]
  show (feedS (partS L x rest) (rest.take (rest.length + 1)) (rest.drop (rest.length + 1))).quiescent = true
  rw [(take_all rest).1, (take_all rest).2]
  have h' : x ++ (rest ++ []) = lBEGIN ++ 13 :: 10 :: cfg.hello := by simpa using h
  have hpart : partS L x rest = partS L x (rest ++ []) := by simp
  rw [hpart]
  rcases feedS_begin hb x rest [] h' hx with ⟨hlen, _⟩ | hd
  · exfalso
    have := congrArg List.length h
    rw [begin_len] at this
    omega
  · exact quiescent_of rfl hd.q2

theorem phase_progress {cfg : Cfg} (hyp : Hyp cfg) :
    ∀ (r : Nat) (L : State), Phase cfg r L → ∃ ms, (run cfg L ms).quiescent = true := by
  intro r
  induction r using Nat.strongRecOn with
  | _ r ih =>
    intro L hp
    have hn := phase_next hyp hp
    rw [← step_full_phase hyp hp] at hn
    rcases hn with ⟨r', hr, hp'⟩ | hb
    · obtain ⟨ms, hms⟩ := ih r' hr _ hp'
      exact ⟨fullMove L :: ms, hms⟩
    · refine ⟨[fullMove L, Move.toServer (step cfg L (fullMove L)).c2s.length], ?_⟩
      have := begin_progress [] (step cfg L (fullMove L)).c2s hb (by rw [hb.q1]; rfl) (by simp)
      rw [partS_nil _ hb.srv.base.buf] at this
      exact this

/-- From every state satisfying the invariant a schedule leads to a state where nothing is in flight. -/
theorem inv_progress {cfg : Cfg} (hyp : Hyp cfg) {n : Nat} {st : State} (hi : Inv cfg n st) :
    ∃ ms, (run cfg st ms).quiescent = true := by
  cases hi with
  | midS r L l x rest hp hf h hr =>
    have h1 : step cfg (partS L x rest) (Move.toServer rest.length) = lstep cfg L := by
      show toServer rest.length (partS L x rest) = _
      rw [toServer_eq _ (show (partS L x rest).c2s ≠ [] from hr)]
      show feedS (partS L x rest) (rest.take (rest.length + 1)) (rest.drop (rest.length + 1)) = _
      rw [(take_all rest).1, (take_all rest).2]
      have hpart : partS L x rest = partS L x (rest ++ []) := by simp
      rw [hpart, feedS_partS hf x rest [] (by simpa using h), if_pos rfl, lstep_toS hf.q1]
    obtain ⟨ms, hms⟩ : ∃ ms, (run cfg (lstep cfg L) ms).quiescent = true := by
      rcases phase_next hyp hp with ⟨r', _, hp'⟩ | hb
      · exact phase_progress hyp r' _ hp'
      · refine ⟨[Move.toServer (lstep cfg L).c2s.length], ?_⟩
        have := begin_progress [] (lstep cfg L).c2s hb (by rw [hb.q1]; rfl) (by simp)
        rw [partS_nil _ hb.srv.base.buf] at this
        exact this
    exact ⟨Move.toServer rest.length :: ms, by show (run cfg (step cfg _ _) ms).quiescent = true; rw [h1]; exact hms⟩
  | midC r L l x rest hp hf h hr =>
    have h1 : step cfg (partC L x rest) (Move.toClient rest.length) = lstep cfg L := by
      show toClient cfg rest.length (partC L x rest) = _
      rw [toClient_eq _ (show (partC L x rest).s2c ≠ [] from hr)]
      show feedC cfg (partC L x rest) (rest.take (rest.length + 1)) (rest.drop (rest.length + 1)) = _
      rw [(take_all rest).1, (take_all rest).2]
      have hpart : partC L x rest = partC L x (rest ++ []) := by simp
      rw [hpart, feedC_partC hf x rest [] (by simpa using h), if_pos rfl, lstep_toC hf.q2]
    obtain ⟨ms, hms⟩ : ∃ ms, (run cfg (lstep cfg L) ms).quiescent = true := by
      rcases phase_next hyp hp with ⟨r', _, hp'⟩ | hb
      · exact phase_progress hyp r' _ hp'
      · refine ⟨[Move.toServer (lstep cfg L).c2s.length], ?_⟩
        have := begin_progress [] (lstep cfg L).c2s hb (by rw [hb.q1]; rfl) (by simp)
        rw [partS_nil _ hb.srv.base.buf] at this
        exact this
    exact ⟨Move.toClient rest.length :: ms, by show (run cfg (step cfg _ _) ms).quiescent = true; rw [h1]; exact hms⟩
  | start _ hp hs q1 q2 hc => exact phase_progress hyp 13 st hp
  | begin L x rest hb h hx => exact ⟨[Move.toServer rest.length], begin_progress x rest hb h hx⟩
  | done _ hd =>
    by_cases hq : st.c2s = []
    · exact ⟨[], quiescent_of hq hd.q2⟩
    · refine ⟨[Move.toServer st.c2s.length], ?_⟩
      show (toServer st.c2s.length st).quiescent = true
      rw [toServer_eq _ hq, (take_all st.c2s).1, (take_all st.c2s).2]
      exact quiescent_of rfl (feedS_done hd st.c2s [] (by simp)).q2

/-! ## safety: no BEGIN and no binary byte before the bus accepted; no binary byte in line mode -/

theorem phase_cbase {cfg : Cfg} {r : Nat} {L : State} (hp : Phase cfg r L) : ∃ a, CBase L.c a := by
  cases hp with
  | start _ hc hs q1 q2 => exact ⟨_, hc⟩
  | auth0 _ hc hb hs ha q1 q2 => exact ⟨_, hc⟩
  | extChal _ uid e h1 h2 hc hb hs ha q1 q2 => exact ⟨_, hc⟩
  | extResp _ uid e h1 h2 hc hb hs ha q1 q2 => exact ⟨_, hc⟩
  | okSent _ i hc hs q1 q2 => exact ⟨_, hc⟩
  | negSent _ i g hu hc hs q1 q2 => exact ⟨_, hc⟩
  | negErr _ i g hu hc hs q1 q2 => exact ⟨_, hc⟩
  | rej0 _ h0 hc hb hs ha q1 q2 => exact ⟨_, hc⟩
  | auth1 _ h0 hc hb hs ha q1 q2 => exact ⟨_, hc⟩
  | ckChal _ h0 m w1 c1 ho hc hb hs ha q1 q2 => exact ⟨_, hc⟩
  | ckResp _ h0 m w1 c1 ho hc hb hs ha q1 q2 => exact ⟨_, hc⟩
  | rej1 _ h0 h1 hc hb hs ha q1 q2 => exact ⟨_, hc⟩
  | auth2 _ h0 h1 hc hb hs ha q1 q2 => exact ⟨_, hc⟩

theorem phase_sline {cfg : Cfg} {r : Nat} {L : State} (hp : Phase cfg r L) :
    L.s.authenticated = false ∧ L.s.binary = [] := by
  cases hp with
  | start _ hc hs q1 q2 => rw [hs]; exact ⟨rfl, rfl⟩
  | auth0 _ hc hb hs ha q1 q2 => exact ⟨hb.unauth, hb.bin⟩
  | extChal _ uid e h1 h2 hc hb hs ha q1 q2 => exact ⟨hb.unauth, hb.bin⟩
  | extResp _ uid e h1 h2 hc hb hs ha q1 q2 => exact ⟨hb.unauth, hb.bin⟩
  | okSent _ i hc hs q1 q2 => exact ⟨hs.base.unauth, hs.base.bin⟩
  | negSent _ i g hu hc hs q1 q2 => exact ⟨hs.base.unauth, hs.base.bin⟩
  | negErr _ i g hu hc hs q1 q2 => exact ⟨hs.base.unauth, hs.base.bin⟩
  | rej0 _ h0 hc hb hs ha q1 q2 => exact ⟨hb.unauth, hb.bin⟩
  | auth1 _ h0 hc hb hs ha q1 q2 => exact ⟨hb.unauth, hb.bin⟩
  | ckChal _ h0 m w1 c1 ho hc hb hs ha q1 q2 => exact ⟨hb.unauth, hb.bin⟩
  | ckResp _ h0 m w1 c1 ho hc hb hs ha q1 q2 => exact ⟨hb.unauth, hb.bin⟩
  | rej1 _ h0 h1 hc hb hs ha q1 q2 => exact ⟨hb.unauth, hb.bin⟩
  | auth2 _ h0 h1 hc hb hs ha q1 q2 => exact ⟨hb.unauth, hb.bin⟩

theorem prefix_split {x rest a b : Bytes} (h : x ++ rest = a ++ b) (hx : x.length ≤ a.length) :
    x = a.take x.length ∧ rest = a.drop x.length ++ b := by
  constructor
  · have h1 : (x ++ rest).take x.length = x := by simp
    rw [h, List.take_append_of_le_length hx] at h1
    exact h1.symm
  · have h1 : (x ++ rest).drop x.length = rest := by simp
    rw [h, List.drop_append_of_le_length hx] at h1
    exact h1.symm

/-- The client's part of C07's safety clause in the composition, and the bus's: see `own_bus_no_early_binary`. -/
structure Safe (cfg : Cfg) (st : State) : Prop where
  /-- BEGIN written, `connectionAuthenticated()` run or binary mode entered only after the bus wrote OK for a
  mechanism whose step accepted -/
  begin_after_ok : (lBEGIN ∈ sends st.c.trace ∨ Ev.authenticated ∈ st.c.trace ∨ st.c.authenticated = true) →
    (wOk ++ cfg.guid) ∈ st.s.sent ∧ accepts st.s.log ≠ []
  /-- while the bus is in line mode its binary branch has received nothing, and if the client has already switched
  to binary mode the bus's line buffer holds a proper prefix of `BEGIN\r\n` and the whole Hello call is still queued -/
  line_mode : st.s.authenticated = false → st.s.binary = [] ∧
    (st.c.authenticated = true → ∃ k, k < 7 ∧ st.s.buffer = (lBEGIN ++ [13, 10]).take k ∧
      st.c2s = (lBEGIN ++ [13, 10]).drop k ++ cfg.hello)
  /-- once the bus is in binary mode, what its binary branch received followed by what is still queued is exactly
  the Hello call: no byte of it was read as a line, none was lost -/
  binary_mode : st.s.authenticated = true → st.s.binary ++ st.c2s = cfg.hello

theorem inv_safe {cfg : Cfg} {n : Nat} {st : State} (hi : Inv cfg n st) : Safe cfg st := by
  have pre : ∀ (c : CProto) (a : AuthClient.Auth), CBase c a →
      ¬ (lBEGIN ∈ sends c.trace ∨ Ev.authenticated ∈ c.trace ∨ c.authenticated = true) := by
    intro c a hc h
    rcases h with h | h | h
    · exact hc.noBegin h
    · exact hc.noA h
    · rw [hc.unauth] at h; cases h
  cases hi with
  | midS r L l x rest hp hf h hr =>
    obtain ⟨a, hc⟩ := phase_cbase hp
    have hs := phase_sline hp
    refine ⟨fun h => absurd h (pre _ a hc), fun _ => ⟨hs.2, fun h => ?_⟩, fun h => ?_⟩
    · have : L.c.authenticated = true := h
      rw [hc.unauth] at this; cases this
    · have : L.s.authenticated = true := h
      rw [hs.1] at this; cases this
  | midC r L l x rest hp hf h hr =>
    obtain ⟨a, hc⟩ := phase_cbase hp
    have hs := phase_sline hp
    refine ⟨fun h => ?_, fun _ => ⟨hs.2, fun h => ?_⟩, fun h => ?_⟩
    · exact absurd (show lBEGIN ∈ sends L.c.trace ∨ Ev.authenticated ∈ L.c.trace ∨ L.c.authenticated = true from h)
        (pre _ a hc)
    · have : L.c.authenticated = true := h
      rw [hc.unauth] at this; cases this
    · have : L.s.authenticated = true := h
      rw [hs.1] at this; cases this
  | start _ hp hs q1 q2 hc =>
    have hsl := phase_sline hp
    refine ⟨fun h => absurd h (pre _ _ hc), fun _ => ⟨hsl.2, fun h => ?_⟩, fun h => ?_⟩
    · rw [hc.unauth] at h; cases h
    · rw [hsl.1] at h; cases h
  | begin L x rest hb h hx =>
    refine ⟨fun _ => ⟨hb.srv.okSent, ?_⟩, fun _ => ⟨hb.srv.base.bin, fun _ => ?_⟩, fun h => ?_⟩
    · show accepts L.s.log ≠ []
      rw [hb.srv.acc]; simp
    · have h' : x ++ rest = (lBEGIN ++ [13, 10]) ++ cfg.hello := by simpa using h
      have hlen : (lBEGIN ++ [13, 10] : Bytes).length = 7 := by decide
      obtain ⟨h1, h2⟩ := prefix_split h' (by rw [hlen]; omega)
      exact ⟨x.length, hx, h1, h2⟩
    · have : L.s.authenticated = true := h
      rw [hb.srv.base.unauth] at this; cases this
  | done _ hd =>
    refine ⟨fun _ => ⟨hd.okSent, ?_⟩, fun h => ?_, fun _ => hd.bin⟩
    · rw [hd.acc]; simp
    · rw [hd.sAuth] at h; cases h

/-! ## termination: every schedule that keeps delivering reaches the end -/

/-- Every move of the schedule delivers at least one byte (is made on a non-empty queue). -/
def AllEffective (cfg : Cfg) : State → List Move → Prop
  | _, [] => True
  | st, m :: t => effective st m = true ∧ AllEffective cfg (step cfg st m) t

/-- The measure bounds the number of moves that deliver something. -/
theorem inv_moves_bounded {cfg : Cfg} (hyp : Hyp cfg) : ∀ (ms : List Move) {n : Nat} {st : State},
    Inv cfg n st → AllEffective cfg st ms → ms.length ≤ n := by
  intro ms
  induction ms with
  | nil => intro n st _ _; exact Nat.zero_le _
  | cons m t ih =>
    intro n st hi he
    obtain ⟨n', hi', _, hlt⟩ := inv_step hyp hi m
    have := ih hi' he.2
    have := hlt he.1
    simp only [List.length_cons]
    omega

/-- The first `k` moves of an infinite schedule. -/
def prefixOf (sched : Nat → Move) (k : Nat) : List Move := (List.range k).map sched

theorem prefixOf_succ (sched : Nat → Move) (k : Nat) :
    prefixOf sched (k + 1) = sched 0 :: prefixOf (fun i => sched (i + 1)) k := by
  unfold prefixOf
  rw [List.range_succ_eq_map]
  simp [List.map_map, Function.comp_def]

/-- FAIR DELIVERY: an infinite schedule that, as long as something is in flight, makes a move that delivers at
least one byte, reaches a state with nothing in flight after at most `n` moves (`n` the measure of the start). -/
theorem inv_fair_completes {cfg : Cfg} (hyp : Hyp cfg) : ∀ (n : Nat) (st : State), Inv cfg n st →
    ∀ sched : Nat → Move,
      (∀ k, (run cfg st (prefixOf sched k)).quiescent = false →
        effective (run cfg st (prefixOf sched k)) (sched k) = true) →
      ∃ k, k ≤ n ∧ (run cfg st (prefixOf sched k)).quiescent = true := by
  intro n
  induction n using Nat.strongRecOn with
  | _ n ih =>
    intro st hi sched hfair
    cases hq : st.quiescent with
    | true => exact ⟨0, Nat.zero_le _, by simpa [prefixOf, run] using hq⟩
    | false =>
      have he : effective st (sched 0) = true := by
        have := hfair 0
        simpa [prefixOf, run, hq] using this
      obtain ⟨n', hi', _, hlt⟩ := inv_step hyp hi (sched 0)
      have hn' := hlt he
      obtain ⟨k, hk, hkq⟩ := ih n' hn' _ hi' (fun i => sched (i + 1)) (by
        intro k hnq
        have := hfair (k + 1)
        rw [prefixOf_succ] at this
        exact this hnq)
      refine ⟨k + 1, by omega, ?_⟩
      rw [prefixOf_succ]
      exact hkq

end Txdbus.Handshake2
