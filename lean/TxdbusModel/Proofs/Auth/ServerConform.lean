import TxdbusModel.Proofs.Auth.ServerMechs
import TxdbusModel.Proofs.Auth.ServerLines
/-
Conforming clients at protocol level (C06): a conversation whose lines are each answered without an
exception and whose last line authenticates is accepted, in one read and (by `runReads_sim_whole`)
under every splitting into reads.
-/
namespace Txdbus.AuthServer

open Txdbus.Gen.ServerAuth

variable {W I : Type} (S : MechSys W I)

/-- Every line is handled without raising, none before the last authenticates, the last one does. -/
def convOk (s : Server W I) : List Bytes → Prop
  | [] => False
  | [l] => (handle S s l).res = .ok ∧ (handle S s l).srv.authenticated = true ∧ l.length ≤ maxAuthLength
  | l :: l' :: t =>
    (handle S s l).res = .ok ∧ (handle S s l).srv.authenticated = false ∧ l.length ≤ maxAuthLength ∧
      convOk (handle S s l).srv (l' :: t)

/-- The authenticator after the conversation. -/
def convFinal (s : Server W I) : List Bytes → Server W I
  | [] => s
  | l :: t => convFinal (handle S s l).srv t

theorem lineLoop_convOk (p : Proto W I) (ls : List Bytes) (hc : p.closed = false) (h : convOk S p.srv ls) :
    (lineLoop S p ls).2 = .success [] ∧ (lineLoop S p ls).1.closed = false ∧
    (lineLoop S p ls).1.srv = convFinal S p.srv ls := by
  induction ls generalizing p with
  | nil => exact absurd h (by simp [convOk])
  | cons l t ih =>
    cases t with
    | nil =>
      obtain ⟨h1, h2, h3⟩ := h
      have h3' : ¬ l.length > maxAuthLength := by omega
      simp [lineLoop, hc, h3', h1, h2, convFinal]
    | cons l' t' =>
      obtain ⟨h1, h2, h3, h4⟩ := h
      have h3' : ¬ l.length > maxAuthLength := by omega
      have := ih (p.handled l (handle S p.srv l)) hc h4
      have step : lineLoop S p (l :: l' :: t') = lineLoop S (p.handled l (handle S p.srv l)) (l' :: t') := by
        rw [lineLoop]
        simp only [hc, h3', h1, h2, Bool.false_eq_true, if_false]
      rw [step]
      exact this

/-- The whole conversation in one read by a fresh protocol. -/
theorem conv_whole (guid : Bytes) (w : W) (stream : Bytes) (ls : List Bytes)
    (hsp : splitCRLF stream = (ls, [])) (h : convOk S (Server.init guid w) ls) :
    (recv S (Proto.init guid w) (0 :: stream)).authenticated = true ∧
    (recv S (Proto.init guid w) (0 :: stream)).closed = false ∧
    (recv S (Proto.init guid w) (0 :: stream)).guid = (convFinal S (Server.init guid w) ls).guid := by
  rw [recv_first_nul S _ _ rfl rfl rfl, recvLines_eq]
  rw [show (Proto.init guid w : Proto W I).dropFirst.buffer ++ stream = stream from rfl, hsp]
  have := lineLoop_convOk S ((Proto.init guid w : Proto W I).dropFirst.setBuf []) ls rfl h
  generalize lineLoop S ((Proto.init guid w : Proto W I).dropFirst.setBuf []) ls = qk at this
  obtain ⟨q, k⟩ := qk
  obtain ⟨h1, h2, h3⟩ := this
  simp only at h1 h2 h3
  subst h1
  exact ⟨rfl, h2, by show q.srv.guid = _; rw [h3]; rfl⟩

/-- ... and under every splitting of the same bytes into non-empty reads. -/
theorem conv_accepted (guid : Bytes) (w : W) (stream : Bytes) (ls : List Bytes)
    (hsp : splitCRLF stream = (ls, [])) (h : convOk S (Server.init guid w) ls)
    (reads : List Bytes) (hall : ∀ r ∈ reads, r ≠ []) (hflat : reads.flatten = 0 :: stream) :
    (runReads S (Proto.init guid w) reads).authenticated = true ∧
    (runReads S (Proto.init guid w) reads).closed = false ∧
    (runReads S (Proto.init guid w) reads).guid = (convFinal S (Server.init guid w) ls).guid := by
  have hne : reads ≠ [] := by
    intro h0; rw [h0] at hflat; cases hflat
  have hs := (runReads_sim_whole S (Proto.init guid w) reads hne hall).obs
  rw [hflat] at hs
  have hw := conv_whole S guid w stream ls hsp h
  have e1 : (runReads S (Proto.init guid w) reads).authenticated =
      (recv S (Proto.init guid w) (0 :: stream)).authenticated := congrArg Obs.authenticated hs
  have e2 : (runReads S (Proto.init guid w) reads).closed =
      (recv S (Proto.init guid w) (0 :: stream)).closed := congrArg Obs.closed hs
  have e3 : (runReads S (Proto.init guid w) reads).guid =
      (recv S (Proto.init guid w) (0 :: stream)).guid := congrArg Obs.guid hs
  rw [e1, e2, e3]
  exact hw

/-! ## the three conforming conversations -/

/-- `l1 \r\n l2 \r\n ...` -/
def encodeLines : List Bytes → Bytes
  | [] => []
  | l :: t => l ++ 13 :: 10 :: encodeLines t

def NoCR (l : Bytes) : Prop := ∀ b ∈ l, b ≠ 13

theorem splitCRLF_line (l rest : Bytes) (h : NoCR l) :
    splitCRLF (l ++ 13 :: 10 :: rest) = (l :: (splitCRLF rest).1, (splitCRLF rest).2) := by
  induction l with
  | nil => exact splitCRLF_crlf rest
  | cons c t ih =>
    have hc : c ≠ 13 := h c (by simp)
    have ht : NoCR t := fun b hb => h b (by simp [hb])
    cases t with
    | nil =>
      simp only [List.cons_append, List.nil_append]
      rw [splitCRLF_other c 13 _ (by simp [hc]), splitCRLF_crlf]
      rfl
    | cons d t' =>
      simp only [List.cons_append] at ih ⊢
      rw [splitCRLF_other c d _ (by simp [hc]), ih ht]
      rfl

theorem splitCRLF_encode (ls : List Bytes) (h : ∀ l ∈ ls, NoCR l) : splitCRLF (encodeLines ls) = (ls, []) := by
  induction ls with
  | nil => rfl
  | cons l t ih =>
    rw [encodeLines, splitCRLF_line l _ (h l (by simp)), ih (fun x hx => h x (by simp [hx]))]

theorem noCR_of_noSpace (l : Bytes) (h : NoSpace l) : NoCR l := by
  intro b hb hb13
  have := h b hb
  rw [hb13] at this
  exact absurd this (by decide)

theorem noCR_append (a b : Bytes) (ha : NoCR a) (hb : NoCR b) : NoCR (a ++ b) := by
  intro x hx
  rcases List.mem_append.1 hx with h | h
  · exact ha x h
  · exact hb x h

theorem convOk_cons (s : Server W I) (l : Bytes) (rest : List Bytes) (hrest : rest ≠ [])
    (h1 : (handle S s l).res = .ok) (h2 : (handle S s l).srv.authenticated = false)
    (h3 : l.length ≤ maxAuthLength) (h4 : convOk S (handle S s l).srv rest) : convOk S s (l :: rest) := by
  cases rest with
  | nil => exact absurd rfl hrest
  | cons l' t => exact ⟨h1, h2, h3, h4⟩

theorem convFinal_cons (s : Server W I) (l : Bytes) (rest : List Bytes) :
    convFinal S s (l :: rest) = convFinal S (handle S s l).srv rest := rfl

/-- `k` times NEGOTIATE_UNIX_FD in front of a conversation changes nothing (each is answered ERROR). -/
theorem convOk_negotiate (s : Server W I) (k : Nat) (ls : List Bytes) (hls : ls ≠ [])
    (ha : s.authenticated = false) (h : convOk S s ls) :
    convOk S s (List.replicate k (lit "NEGOTIATE_UNIX_FD") ++ ls) ∧
    convFinal S s (List.replicate k (lit "NEGOTIATE_UNIX_FD") ++ ls) = convFinal S s ls := by
  induction k with
  | zero => exact ⟨h, rfl⟩
  | succ k ih =>
    have hn := handle_negotiate S s
    have hsrv : (handle S s (lit "NEGOTIATE_UNIX_FD")).srv = s := by rw [hn]; rfl
    have hres : (handle S s (lit "NEGOTIATE_UNIX_FD")).res = .ok := by rw [hn]; rfl
    rw [List.replicate_succ, List.cons_append]
    refine ⟨convOk_cons S s _ _ (by simp [hls]) hres (by rw [hsrv]; exact ha) (by decide) (by rw [hsrv]; exact ih.1), ?_⟩
    rw [convFinal_cons, hsrv]; exact ih.2

/-- A conversation starting at a line boundary of an open, unauthenticated connection (not only a fresh one):
e.g. after earlier rejected attempts. -/
theorem conv_accepted_from (p : Proto W I) (hf : p.firstByte = false) (hb : p.buffer = [])
    (hc : p.closed = false) (hcr : p.crashed = false) (ha : p.authenticated = false)
    (stream : Bytes) (ls : List Bytes) (hsp : splitCRLF stream = (ls, [])) (h : convOk S p.srv ls)
    (reads : List Bytes) (hall : ∀ r ∈ reads, r ≠ []) (hflat : reads.flatten = stream) :
    (runReads S p reads).authenticated = true ∧ (runReads S p reads).closed = false ∧
    (runReads S p reads).guid = (convFinal S p.srv ls).guid := by
  have hne : reads ≠ [] := by
    intro h0
    rw [h0] at hflat
    have hst : stream = [] := hflat.symm
    rw [hst, splitCRLF_nil] at hsp
    have : ls = [] := (Prod.mk.inj hsp).1.symm
    rw [this] at h
    exact h
  have hs := (runReads_sim_whole S p reads hne hall).obs
  rw [hflat] at hs
  have hw : (recv S p stream).authenticated = true ∧ (recv S p stream).closed = false ∧
      (recv S p stream).guid = (convFinal S p.srv ls).guid := by
    rw [recv_lines S p stream hcr ha hf, recvLines_eq, hb, List.nil_append, hsp]
    have := lineLoop_convOk S (p.setBuf []) ls hc h
    generalize lineLoop S (p.setBuf []) ls = qk at this
    obtain ⟨q, k⟩ := qk
    obtain ⟨h1, h2, h3⟩ := this
    simp only at h1 h2 h3
    subst h1
    exact ⟨rfl, h2, by show q.srv.guid = _; rw [h3]; rfl⟩
  have e1 : (runReads S p reads).authenticated = (recv S p stream).authenticated := congrArg Obs.authenticated hs
  have e2 : (runReads S p reads).closed = (recv S p stream).closed := congrArg Obs.closed hs
  have e3 : (runReads S p reads).guid = (recv S p stream).guid := congrArg Obs.guid hs
  rw [e1, e2, e3]
  exact hw

/-- ANONYMOUS is accepted under every splitting of `\0AUTH ANONYMOUS\r\nBEGIN\r\n`. -/
theorem anonymous_accepted (guid : Bytes) (w : RealWorld) (reads : List Bytes) (hall : ∀ r ∈ reads, r ≠ [])
    (hflat : reads.flatten = 0 :: encodeLines [lit "AUTH ANONYMOUS", lit "BEGIN"]) :
    (runReads real (Proto.init guid w) reads).authenticated = true ∧
    (runReads real (Proto.init guid w) reads).closed = false ∧
    (runReads real (Proto.init guid w) reads).guid = some anonymousUser := by
  obtain ⟨a1, a2, a3, a4, a5, a6⟩ := anonymous_lines (Server.init guid w) rfl
  have hsp : splitCRLF (encodeLines [lit "AUTH ANONYMOUS", lit "BEGIN"]) = ([lit "AUTH ANONYMOUS", lit "BEGIN"], []) := by
    decide
  have hconv : convOk real (Server.init guid w) [lit "AUTH ANONYMOUS", lit "BEGIN"] :=
    ⟨a1, a3, by decide, a4, a5, by decide⟩
  have := conv_accepted real guid w (encodeLines [lit "AUTH ANONYMOUS", lit "BEGIN"]) [lit "AUTH ANONYMOUS", lit "BEGIN"] hsp hconv reads hall hflat
  simp only [convFinal] at this
  refine ⟨this.1, this.2.1, ?_⟩
  rw [this.2.2]
  exact a6

/-- EXTERNAL with peer credentials is accepted under every splitting of
`\0AUTH EXTERNAL\r\nDATA\r\nBEGIN\r\n`, as the passwd name of the peer uid. -/
theorem external_accepted (guid : Bytes) (w : RealWorld) (uid : Int) (e : PwEnt)
    (hc : w.cfg.creds = some uid) (hu : getpwuidI w.cfg uid = some e)
    (reads : List Bytes) (hall : ∀ r ∈ reads, r ≠ [])
    (hflat : reads.flatten = 0 :: encodeLines [lit "AUTH EXTERNAL", lit "DATA", lit "BEGIN"]) :
    (runReads real (Proto.init guid w) reads).authenticated = true ∧
    (runReads real (Proto.init guid w) reads).closed = false ∧
    (runReads real (Proto.init guid w) reads).guid = some e.name := by
  obtain ⟨a1, _, a2, _, a3, a4, a5, a6, a7⟩ := external_lines (Server.init guid w) uid e rfl hc hu
  have hsp : splitCRLF (encodeLines [lit "AUTH EXTERNAL", lit "DATA", lit "BEGIN"]) =
      ([lit "AUTH EXTERNAL", lit "DATA", lit "BEGIN"], []) := by decide
  have hconv : convOk real (Server.init guid w) [lit "AUTH EXTERNAL", lit "DATA", lit "BEGIN"] :=
    ⟨a1, a3, by decide, a2, a4, by decide, a5, a6, by decide⟩
  have := conv_accepted real guid w (encodeLines [lit "AUTH EXTERNAL", lit "DATA", lit "BEGIN"]) [lit "AUTH EXTERNAL", lit "DATA", lit "BEGIN"] hsp hconv reads hall hflat
  simp only [convFinal] at this
  refine ⟨this.1, this.2.1, ?_⟩
  rw [this.2.2]
  exact a7

theorem hexlify_length (x : Bytes) : (hexlify x).length = 2 * x.length := by
  induction x with
  | nil => rfl
  | cons b t ih => simp [hexlify, ih]; omega

/-- DBUS_COOKIE_SHA1 with the right cookie is accepted under every splitting: there are a challenge and a
cookie (the ones sent in the DATA reply and stored in the user's keyring file under the id sent) such
that the client answering `hexlify(sha1(challenge:cc:cookie))` is authenticated as `user`. -/
theorem cookie_accepted (guid : Bytes) (w : RealWorld) (arg user cc : Bytes) (e : PwEnt)
    (hu0 : arg ≠ []) (hua : isAscii arg = true) (hup : resolveUser w.cfg arg = some user) (hul : arg.length ≤ 8000)
    (hun : getpwnam w.cfg user = some e) (hud : lookupDir w e.home ≠ .bad)
    (hcc : cc ≠ []) (hncc : NoSpace cc) (hcca : isAscii cc = true) (hccl : cc.length ≤ 8000)
    (hsha : ∀ x, (w.cfg.sha1 x).length = 20) :
    ∃ (chal cookie : Bytes),
      ∀ (reads : List Bytes), (∀ r ∈ reads, r ≠ []) →
        reads.flatten = 0 :: encodeLines [cookieAuthLine arg, cookieDataLine w.cfg.sha1 chal cc cookie, lit "BEGIN"] →
        (runReads real (Proto.init guid w) reads).authenticated = true ∧
        (runReads real (Proto.init guid w) reads).closed = false ∧
        (runReads real (Proto.init guid w) reads).guid = some user := by
  have hsha' : ∀ x, w.cfg.sha1 x ≠ [] := by
    intro x hx
    have := hsha x
    rw [hx] at this
    cases this
  obtain ⟨c1, cid, a1, a2, a3, a4, a5, a6, a7, a8, a9, a10⟩ :=
    cookie_lines (Server.init guid w) arg user cc e rfl hu0 hua hup hun hud hcc hncc hcca hsha'
  have hw : (Server.init guid w : Server RealWorld Inst).world = w := rfl
  have hinit : (Server.init guid w : Server RealWorld Inst).authenticated = false := rfl
  rw [hw] at a5 a7 a8 a9 a10
  rw [hinit] at a2 a7
  refine ⟨c1.challenge, c1.cookie, ?_⟩
  intro reads hall hflat
  have hlit1 : NoCR (lit "AUTH DBUS_COOKIE_SHA1 ") := by unfold NoCR; decide
  have hlit2 : NoCR (lit "DATA ") := by unfold NoCR; decide
  have hlit3 : NoCR (lit "BEGIN") := by unfold NoCR; decide
  have hnc : ∀ l ∈ [cookieAuthLine arg, cookieDataLine w.cfg.sha1 c1.challenge cc c1.cookie, lit "BEGIN"], NoCR l := by
    intro l hl
    simp only [List.mem_cons, List.not_mem_nil, or_false] at hl
    rcases hl with rfl | rfl | rfl
    · exact noCR_append _ _ hlit1 (noCR_of_noSpace _ (noSpace_hexlify _))
    · exact noCR_append _ _ hlit2 (noCR_of_noSpace _ (noSpace_hexlify _))
    · exact hlit3
  have hsp := splitCRLF_encode _ hnc
  have hl1 : (cookieAuthLine arg).length ≤ maxAuthLength := by
    unfold cookieAuthLine
    rw [List.length_append, hexlify_length]
    have : (lit "AUTH DBUS_COOKIE_SHA1 ").length = 22 := by decide
    have : maxAuthLength = 16384 := rfl
    omega
  have hl2 : (cookieDataLine w.cfg.sha1 c1.challenge cc c1.cookie).length ≤ maxAuthLength := by
    unfold cookieDataLine cookieHash
    simp only [List.length_append, hexlify_length, List.length_cons, hsha]
    have : (lit "DATA ").length = 5 := by decide
    have : maxAuthLength = 16384 := rfl
    omega
  have hconv : convOk real (Server.init guid w)
      [cookieAuthLine arg, cookieDataLine w.cfg.sha1 c1.challenge cc c1.cookie, lit "BEGIN"] :=
    ⟨a1, a2, hl1, a5, a7, hl2, a8, a9, by decide⟩
  have := conv_accepted real guid w (encodeLines [cookieAuthLine arg, cookieDataLine w.cfg.sha1 c1.challenge cc c1.cookie, lit "BEGIN"])
    [cookieAuthLine arg, cookieDataLine w.cfg.sha1 c1.challenge cc c1.cookie, lit "BEGIN"] hsp hconv reads hall hflat
  simp only [convFinal] at this
  refine ⟨this.1, this.2.1, ?_⟩
  rw [this.2.2]
  exact a10

/-! ## the forms real clients use, from any open state at a line boundary -/

/-- `k` times NEGOTIATE_UNIX_FD, then BEGIN. -/
def tailLines (k : Nat) : List Bytes := List.replicate k (lit "NEGOTIATE_UNIX_FD") ++ [lit "BEGIN"]

theorem tailLines_noCR (k : Nat) : ∀ l ∈ tailLines k, NoCR l := by
  intro l hl
  unfold tailLines at hl
  rcases List.mem_append.1 hl with h | h
  · rw [List.eq_of_mem_replicate h]; unfold NoCR; decide
  · simp at h; rw [h]; unfold NoCR; decide

/-- In WaitingForBegin with a mechanism whose user name is known: any number of NEGOTIATE_UNIX_FD, then BEGIN
authenticates. -/
theorem conv_tail (s : Server RealWorld Inst) (k : Nat) (n : Bytes) (i : Inst) (u : Bytes)
    (hs : s.state = .waitingForBegin) (hc : s.cur = some (n, i)) (hu : real.userName s.world i = some u)
    (ha : s.authenticated = false) :
    convOk real s (tailLines k) ∧ (convFinal real s (tailLines k)).guid = some u := by
  obtain ⟨b1, b2, b3⟩ := begin_line s n i u hs hc hu
  have hb : convOk real s [lit "BEGIN"] := ⟨b1, b2, by decide⟩
  have := convOk_negotiate real s k [lit "BEGIN"] (by simp) ha hb
  unfold tailLines
  refine ⟨this.1, ?_⟩
  rw [this.2]
  exact b3

/-- The hypotheses "open, unauthenticated, at a line boundary, waiting for AUTH". -/
structure ReadyForAuth (p : Proto RealWorld Inst) : Prop where
  first : p.firstByte = false
  buf : p.buffer = []
  open_ : p.closed = false
  alive : p.crashed = false
  unauth : p.authenticated = false
  state : p.srv.state = .waitingForAuth
  srvUnauth : p.srv.authenticated = false

theorem authLineOf_noCR (mech : Bytes) (resp : Option Bytes) (hm : NoCR mech) : NoCR (authLineOf mech resp) := by
  have hl : NoCR (lit "AUTH ") := by unfold NoCR; decide
  cases resp with
  | none => exact noCR_append _ _ hl hm
  | some t =>
    refine noCR_append _ _ hl (noCR_append _ _ hm ?_)
    intro b hb
    simp only [List.mem_cons] at hb
    rcases hb with rfl | hb
    · decide
    · exact noCR_of_noSpace _ (noSpace_hexlify _) b hb

theorem authLineOf_length (mech : Bytes) (resp : Option Bytes) (hm : mech.length ≤ 100)
    (hr : ∀ t, resp = some t → t.length ≤ 8000) : (authLineOf mech resp).length ≤ maxAuthLength := by
  have h5 : (lit "AUTH ").length = 5 := by decide
  have hmax : maxAuthLength = 16384 := rfl
  cases resp with
  | none => simp only [authLineOf, List.length_append]; omega
  | some t =>
    have := hr t rfl
    simp only [authLineOf, List.length_append, List.length_cons, hexlify_length]; omega

/-- ANONYMOUS, with or without an initial response (txdbus's own client sends the trace `txdbus`), any number of
NEGOTIATE_UNIX_FD before BEGIN, from any open state waiting for AUTH (so also after earlier rejections), under
every splitting. -/
theorem anonymous_accepted_from (p : Proto RealWorld Inst) (hp : ReadyForAuth p) (resp : Option Bytes)
    (hr : GoodResp resp) (hrl : ∀ t, resp = some t → t.length ≤ 8000) (k : Nat)
    (reads : List Bytes) (hall : ∀ r ∈ reads, r ≠ [])
    (hflat : reads.flatten = encodeLines (authLineOf (lit "ANONYMOUS") resp :: tailLines k)) :
    (runReads real p reads).authenticated = true ∧ (runReads real p reads).closed = false ∧
    (runReads real p reads).guid = some anonymousUser := by
  obtain ⟨a1, _, a3⟩ := anonymous_lines_gen p.srv resp hp.state hr
  have ht := conv_tail (handle real p.srv (authLineOf (lit "ANONYMOUS") resp)).srv k (lit "ANONYMOUS") .anon
    anonymousUser (by rw [a3]) (by rw [a3]) (by rw [a3]; rfl) (by rw [a3]; exact hp.srvUnauth)
  have hlen := authLineOf_length (lit "ANONYMOUS") resp (by decide) hrl
  have hconv : convOk real p.srv (authLineOf (lit "ANONYMOUS") resp :: tailLines k) :=
    convOk_cons real p.srv _ _ (by simp [tailLines]) a1 (by rw [a3]; exact hp.srvUnauth) hlen ht.1
  have hnc : ∀ l ∈ authLineOf (lit "ANONYMOUS") resp :: tailLines k, NoCR l := by
    intro l hl
    rcases List.mem_cons.1 hl with rfl | hl
    · exact authLineOf_noCR _ _ (by unfold NoCR; decide)
    · exact tailLines_noCR k l hl
  have := conv_accepted_from real p hp.first hp.buf hp.open_ hp.alive hp.unauth
    (encodeLines (authLineOf (lit "ANONYMOUS") resp :: tailLines k)) (authLineOf (lit "ANONYMOUS") resp :: tailLines k)
    (splitCRLF_encode _ hnc) hconv reads hall hflat
  refine ⟨this.1, this.2.1, ?_⟩
  rw [this.2.2, convFinal_cons]
  exact ht.2

/-- EXTERNAL when the peer has credentials with a passwd entry, with or without a claimed identity
(`AUTH EXTERNAL 31303030` is what libdbus, GDBus and sd-bus send), `DATA`, any number of NEGOTIATE_UNIX_FD, BEGIN;
from any open state waiting for AUTH, under every splitting. -/
theorem external_accepted_from (p : Proto RealWorld Inst) (hp : ReadyForAuth p) (uid : Int) (e : PwEnt)
    (hc : p.srv.world.cfg.creds = some uid) (hu : getpwuidI p.srv.world.cfg uid = some e)
    (resp : Option Bytes) (hr : GoodResp resp) (hrl : ∀ t, resp = some t → t.length ≤ 8000) (k : Nat)
    (reads : List Bytes) (hall : ∀ r ∈ reads, r ≠ [])
    (hflat : reads.flatten = encodeLines (authLineOf (lit "EXTERNAL") resp :: lit "DATA" :: tailLines k)) :
    (runReads real p reads).authenticated = true ∧ (runReads real p reads).closed = false ∧
    (runReads real p reads).guid = some e.name := by
  obtain ⟨a1, _, a3⟩ := external_line_gen p.srv resp uid e hp.state hr hc hu
  obtain ⟨d1, _, d3⟩ := external_data_line (handle real p.srv (authLineOf (lit "EXTERNAL") resp)).srv uid e
    (by rw [a3]) (by rw [a3]) (by rw [a3]; exact hu)
  have hname : real.userName (handle real (handle real p.srv (authLineOf (lit "EXTERNAL") resp)).srv (lit "DATA")).srv.world
      (.ext true (some uid)) = some e.name := by
    rw [d3, a3, real_user_ext]
    show Option.map (fun x => x.name) (getpwuidI p.srv.world.cfg uid) = some e.name
    rw [hu]; rfl
  have ht := conv_tail (handle real (handle real p.srv (authLineOf (lit "EXTERNAL") resp)).srv (lit "DATA")).srv k
    (lit "EXTERNAL") (.ext true (some uid)) e.name (by rw [d3]) (by rw [d3, a3]) hname
    (by rw [d3, a3]; exact hp.srvUnauth)
  have hlen := authLineOf_length (lit "EXTERNAL") resp (by decide) hrl
  have hconv2 : convOk real (handle real p.srv (authLineOf (lit "EXTERNAL") resp)).srv (lit "DATA" :: tailLines k) :=
    convOk_cons real _ _ _ (by simp [tailLines]) d1 (by rw [d3, a3]; exact hp.srvUnauth) (by decide) ht.1
  have hconv : convOk real p.srv (authLineOf (lit "EXTERNAL") resp :: lit "DATA" :: tailLines k) :=
    convOk_cons real p.srv _ _ (by simp) a1 (by rw [a3]; exact hp.srvUnauth) hlen hconv2
  have hnc : ∀ l ∈ authLineOf (lit "EXTERNAL") resp :: lit "DATA" :: tailLines k, NoCR l := by
    intro l hl
    rcases List.mem_cons.1 hl with rfl | hl
    · exact authLineOf_noCR _ _ (by unfold NoCR; decide)
    · rcases List.mem_cons.1 hl with rfl | hl
      · unfold NoCR; decide
      · exact tailLines_noCR k l hl
  have := conv_accepted_from real p hp.first hp.buf hp.open_ hp.alive hp.unauth
    (encodeLines (authLineOf (lit "EXTERNAL") resp :: lit "DATA" :: tailLines k))
    (authLineOf (lit "EXTERNAL") resp :: lit "DATA" :: tailLines k)
    (splitCRLF_encode _ hnc) hconv reads hall hflat
  refine ⟨this.1, this.2.1, ?_⟩
  rw [this.2.2, convFinal_cons, convFinal_cons]
  exact ht.2

/-- DBUS_COOKIE_SHA1 with the right cookie, user given by name or by uid (`resolveUser`), from any open state
waiting for AUTH, under every splitting. -/
theorem cookie_accepted_from (p : Proto RealWorld Inst) (hp : ReadyForAuth p) (arg user cc : Bytes) (e : PwEnt)
    (hu0 : arg ≠ []) (hua : isAscii arg = true) (hup : resolveUser p.srv.world.cfg arg = some user)
    (hul : arg.length ≤ 8000) (hun : getpwnam p.srv.world.cfg user = some e)
    (hud : lookupDir p.srv.world e.home ≠ .bad)
    (hcc : cc ≠ []) (hncc : NoSpace cc) (hcca : isAscii cc = true) (hccl : cc.length ≤ 8000)
    (hsha : ∀ x, (p.srv.world.cfg.sha1 x).length = 20) :
    ∃ (chal cookie : Bytes),
      ∀ (reads : List Bytes), (∀ r ∈ reads, r ≠ []) →
        reads.flatten =
          encodeLines [cookieAuthLine arg, cookieDataLine p.srv.world.cfg.sha1 chal cc cookie, lit "BEGIN"] →
        (runReads real p reads).authenticated = true ∧ (runReads real p reads).closed = false ∧
        (runReads real p reads).guid = some user := by
  have hsha' : ∀ x, p.srv.world.cfg.sha1 x ≠ [] := by
    intro x hx
    have := hsha x
    rw [hx] at this
    cases this
  obtain ⟨c1, cid, a1, a2, a3, a4, a5, a6, a7, a8, a9, a10⟩ :=
    cookie_lines p.srv arg user cc e hp.state hu0 hua hup hun hud hcc hncc hcca hsha'
  rw [hp.srvUnauth] at a2 a7
  refine ⟨c1.challenge, c1.cookie, ?_⟩
  intro reads hall hflat
  have hlit1 : NoCR (lit "AUTH DBUS_COOKIE_SHA1 ") := by unfold NoCR; decide
  have hlit2 : NoCR (lit "DATA ") := by unfold NoCR; decide
  have hlit3 : NoCR (lit "BEGIN") := by unfold NoCR; decide
  have hnc : ∀ l ∈ [cookieAuthLine arg, cookieDataLine p.srv.world.cfg.sha1 c1.challenge cc c1.cookie, lit "BEGIN"],
      NoCR l := by
    intro l hl
    simp only [List.mem_cons, List.not_mem_nil, or_false] at hl
    rcases hl with rfl | rfl | rfl
    · exact noCR_append _ _ hlit1 (noCR_of_noSpace _ (noSpace_hexlify _))
    · exact noCR_append _ _ hlit2 (noCR_of_noSpace _ (noSpace_hexlify _))
    · exact hlit3
  have hsp := splitCRLF_encode _ hnc
  have hl1 : (cookieAuthLine arg).length ≤ maxAuthLength := by
    unfold cookieAuthLine
    rw [List.length_append, hexlify_length]
    have : (lit "AUTH DBUS_COOKIE_SHA1 ").length = 22 := by decide
    have : maxAuthLength = 16384 := rfl
    omega
  have hl2 : (cookieDataLine p.srv.world.cfg.sha1 c1.challenge cc c1.cookie).length ≤ maxAuthLength := by
    unfold cookieDataLine cookieHash
    simp only [List.length_append, hexlify_length, List.length_cons, hsha]
    have : (lit "DATA ").length = 5 := by decide
    have : maxAuthLength = 16384 := rfl
    omega
  have hconv : convOk real p.srv
      [cookieAuthLine arg, cookieDataLine p.srv.world.cfg.sha1 c1.challenge cc c1.cookie, lit "BEGIN"] :=
    ⟨a1, a2, hl1, a5, a7, hl2, a8, a9, by decide⟩
  have := conv_accepted_from real p hp.first hp.buf hp.open_ hp.alive hp.unauth
    (encodeLines [cookieAuthLine arg, cookieDataLine p.srv.world.cfg.sha1 c1.challenge cc c1.cookie, lit "BEGIN"])
    [cookieAuthLine arg, cookieDataLine p.srv.world.cfg.sha1 c1.challenge cc c1.cookie, lit "BEGIN"]
    hsp hconv reads hall hflat
  simp only [convFinal] at this
  refine ⟨this.1, this.2.1, ?_⟩
  rw [this.2.2]
  exact a10

end Txdbus.AuthServer
