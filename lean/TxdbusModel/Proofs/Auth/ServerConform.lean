import TxdbusModel.Proofs.Auth.ServerMechs
import TxdbusModel.Proofs.Auth.ServerLines
/-
Conforming clients against the real mechanisms, at protocol level (C06): the whole stream in one
read; any other splitting follows from `runReads_sim_whole`.
-/
namespace Txdbus.AuthServer

open Txdbus.Gen.ServerAuth

/-- The byte stream of the ANONYMOUS conversation. -/
def anonymousStream : Bytes := 0 :: lit "AUTH ANONYMOUS\r\nBEGIN\r\n"

/-- The byte stream of the EXTERNAL conversation. -/
def externalStream : Bytes := 0 :: lit "AUTH EXTERNAL\r\nDATA\r\nBEGIN\r\n"

theorem anonymous_whole (guid : Bytes) (w : RealWorld) :
    (recv real (Proto.init guid w) anonymousStream).authenticated = true ∧
    (recv real (Proto.init guid w) anonymousStream).closed = false ∧
    (recv real (Proto.init guid w) anonymousStream).sent = [wOk ++ guid] ∧
    (recv real (Proto.init guid w) anonymousStream).guid = some anonymousUser := by
  have hsp : splitCRLF (lit "AUTH ANONYMOUS\r\nBEGIN\r\n") = ([lit "AUTH ANONYMOUS", lit "BEGIN"], []) := by decide
  have hl1 : ¬ (lit "AUTH ANONYMOUS").length > maxAuthLength := by decide
  have hl2 : ¬ (lit "BEGIN").length > maxAuthLength := by decide
  obtain ⟨a1, a2, a3, a4, a5, a6⟩ := anonymous_lines (Server.init guid w) rfl
  unfold anonymousStream
  rw [recv_first_nul real _ _ rfl rfl rfl, recvLines_eq]
  simp only [show ({ (Proto.init guid w : Proto RealWorld Inst) with firstByte := false }).buffer = [] from rfl,
    List.nil_append, hsp]
  simp [lineLoop, Proto.setBuf, Proto.init, hl1, hl2, a1, a2, a3, a4, a5, a6, Proto.handled, Proto.handOff,
    Server.init, joinCRLF]
  sorry

end Txdbus.AuthServer
