/-
C07 x C06 proofs, part 6 - C07's safety theorem inside the composition, without assumptions on sizes.

For EVERY configuration whose bus GUID holds no CR (no assumption that lines fit, that the keyring is sane, ...):
* the client's part of the composed state always satisfies C07's invariant `InvB` (`begin_only_after_ok`,
  `authenticated_iff_begin`), because every read of the composition is a `dataReceived` of the client model
  (`comp_invB`);
* every line the client's authenticator was ever handed is a line the bus wrote, in order (`Wire`, `comp_wire`):
  the lines handed over are a prefix of the bus's `sent`, and while the client is in line mode its buffer followed
  by what is queued is exactly the rest of what the bus wrote.
Together: the OK that justifies a BEGIN is an OK line the bus wrote (`begin_needs_bus_ok`).
-/
import TxdbusModel.Proofs.Auth.Handshake2Bytes
import TxdbusModel.Proofs.Auth.ClientSafety
import TxdbusModel.Proofs.Auth.ServerRun

namespace Txdbus.Handshake2

open Txdbus.AuthServer (real NoCR RealWorld Inst Server Out handle reject stepAuth sendError)
open Txdbus.Gen.ServerAuth (wOk wData wError wErrorSp wUnknown)
open Txdbus.AuthClient (Ev)

/-! ## the lines the bus writes hold no CR -/

/-- The forms a line written by `BusAuthenticator` can have. -/
def SentForm (g : Bytes) (l : Bytes) : Prop :=
  l = AuthServer.rejectLine real ∨ l = wOk ++ g ∨ (∃ c, l = wData ++ AuthServer.hexlify c) ∨ l = wError ∨
  l = wErrorSp ++ wUnknown

theorem sentForm_clean {g l : Bytes} (hg : NoCR g) (h : SentForm g l) : NoCR l := by
  rcases h with rfl | rfl | ⟨c, rfl⟩ | rfl | rfl
  · have : AuthServer.rejectLine real = Gen.ServerAuth.rejectMsg := by decide
    rw [this]; unfold NoCR; decide
  · exact AuthServer.noCR_append _ _ (by unfold NoCR; decide) hg
  · exact AuthServer.noCR_append _ _ (by unfold NoCR; decide) (noCR_hexlify c)
  · unfold NoCR; decide
  · unfold NoCR; decide

theorem reject_forms (s : Server RealWorld Inst) (m) :
    (∀ l ∈ (reject real s m).sent, SentForm s.serverGuid l) ∧ (reject real s m).srv.serverGuid = s.serverGuid := by
  unfold reject
  cases hc : s.cur with
  | none =>
    simp only
    split
    · exact ⟨fun _ hl => (nomatch hl), rfl⟩
    · exact ⟨fun l hl => by simp only [List.mem_singleton] at hl; exact Or.inl hl, rfl⟩
  | some ni =>
    obtain ⟨n, i⟩ := ni
    simp only
    cases real.cancel s.world i with
    | none => exact ⟨fun _ hl => (nomatch hl), rfl⟩
    | some w =>
      simp only
      split
      · exact ⟨fun _ hl => (nomatch hl), rfl⟩
      · exact ⟨fun l hl => by simp only [List.mem_singleton] at hl; exact Or.inl hl, rfl⟩

theorem sendError_forms (s : Server RealWorld Inst) (msg : Bytes) (hm : msg = [] ∨ msg = wUnknown) :
    (∀ l ∈ (sendError s msg).sent, SentForm s.serverGuid l) ∧ (sendError s msg).srv.serverGuid = s.serverGuid := by
  refine ⟨fun l hl => ?_, rfl⟩
  unfold sendError at hl
  simp only [List.mem_singleton] at hl
  rcases hm with rfl | rfl
  · rw [hl]; exact Or.inr (Or.inr (Or.inr (Or.inl rfl)))
  · rw [hl]; exact Or.inr (Or.inr (Or.inr (Or.inr (by decide))))

theorem stepAuth_forms (s : Server RealWorld Inst) (resp : Option Bytes) :
    (∀ l ∈ (stepAuth real s resp).sent, SentForm s.serverGuid l) ∧
    (stepAuth real s resp).srv.serverGuid = s.serverGuid := by
  unfold stepAuth
  cases hc : s.cur with
  | none => exact reject_forms s none
  | some ni =>
    obtain ⟨name, i⟩ := ni
    simp only
    cases AuthServer.decodeResponse resp with
    | none => exact reject_forms s none
    | some arg =>
      simp only
      cases ho : (real.step s.world i arg).2.2 with
      | accept =>
        exact ⟨fun l hl => by simp only [List.mem_singleton] at hl; exact Or.inr (Or.inl hl), rfl⟩
      | challenge c =>
        exact ⟨fun l hl => by simp only [List.mem_singleton] at hl; exact Or.inr (Or.inr (Or.inl ⟨c, hl⟩)), rfl⟩
      | reject => exact reject_forms _ _

/-- Every line `handleAuthMessage` of the bus writes has one of the five forms, and the GUID never changes. -/
theorem handle_forms (s : Server RealWorld Inst) (line : Bytes) :
    (∀ l ∈ (handle real s line).sent, SentForm s.serverGuid l) ∧ (handle real s line).srv.serverGuid = s.serverGuid := by
  unfold handle
  simp only
  split
  · exact ⟨fun _ hl => (nomatch hl), rfl⟩
  · split
    · -- AUTH
      unfold AuthServer.authAUTH
      split
      · split
        · exact reject_forms s none
        · split
          · exact stepAuth_forms _ _
          · exact reject_forms s none
      · exact sendError_forms s [] (Or.inl rfl)
    · -- BEGIN
      unfold AuthServer.authBEGIN
      split
      · split
        · exact ⟨fun _ hl => (nomatch hl), rfl⟩
        · split
          · exact ⟨fun _ hl => (nomatch hl), rfl⟩
          · exact ⟨fun _ hl => (nomatch hl), rfl⟩
      · exact ⟨fun _ hl => (nomatch hl), rfl⟩
    · -- CANCEL
      unfold AuthServer.authCANCEL
      split
      · exact reject_forms s none
      · exact sendError_forms s [] (Or.inl rfl)
    · -- DATA
      unfold AuthServer.authDATA
      split
      · exact stepAuth_forms _ _
      · exact sendError_forms s [] (Or.inl rfl)
    · exact reject_forms s none
    · exact sendError_forms s [] (Or.inl rfl)
    · exact sendError_forms s wUnknown (Or.inr rfl)

/-- One read of the bus only appends lines of the five forms to what it has written. -/
theorem lineLoop_sent (g : Bytes) (ls : List Bytes) : ∀ p : SProto, p.srv.serverGuid = g →
    (∃ new, (AuthServer.lineLoop real p ls).1.sent = p.sent ++ new ∧ ∀ l ∈ new, SentForm g l) ∧
    (AuthServer.lineLoop real p ls).1.srv.serverGuid = g := by
  induction ls with
  | nil => intro p hg; exact ⟨⟨[], by simp [AuthServer.lineLoop], fun _ hl => (nomatch hl)⟩, by simp [AuthServer.lineLoop, hg]⟩
  | cons l t ih =>
    intro p hg
    have hf := handle_forms p.srv l
    rw [hg] at hf
    by_cases hc : p.closed = true
    · have : AuthServer.lineLoop real p (l :: t) = (p, .ret) := by simp [AuthServer.lineLoop, hc]
      rw [this]
      exact ⟨⟨[], by simp, fun _ hl => (nomatch hl)⟩, hg⟩
    · have hc' : p.closed = false := by simpa using hc
      by_cases hl : l.length > Gen.ServerAuth.maxAuthLength
      · have : AuthServer.lineLoop real p (l :: t) = (p.close, .ret) := by simp [AuthServer.lineLoop, hc', hl]
        rw [this]
        exact ⟨⟨[], by simp, fun _ hl => (nomatch hl)⟩, hg⟩
      · cases hr : (handle real p.srv l).res with
        | crash =>
          have : AuthServer.lineLoop real p (l :: t) = ((p.handled l (handle real p.srv l)).crash, .ret) := by
            simp [AuthServer.lineLoop, hc', hl, hr]
          rw [this]
          exact ⟨⟨_, rfl, hf.1⟩, hf.2⟩
        | failed =>
          have : AuthServer.lineLoop real p (l :: t) =
              AuthServer.lineLoop real (p.handled l (handle real p.srv l)).close t := by
            simp [AuthServer.lineLoop, hc', hl, hr]
          rw [this]
          obtain ⟨⟨new, h1, h2⟩, h3⟩ := ih (p.handled l (handle real p.srv l)).close hf.2
          refine ⟨⟨(handle real p.srv l).sent ++ new, ?_, ?_⟩, h3⟩
          · rw [h1]; simp
          · intro x hx
            rcases List.mem_append.1 hx with hx | hx
            · exact hf.1 x hx
            · exact h2 x hx
        | ok =>
          by_cases ha : (handle real p.srv l).srv.authenticated = true
          · have : AuthServer.lineLoop real p (l :: t) = (p.handled l (handle real p.srv l), .success t) := by
              simp [AuthServer.lineLoop, hc', hl, hr, ha]
            rw [this]
            exact ⟨⟨_, rfl, hf.1⟩, hf.2⟩
          · have : AuthServer.lineLoop real p (l :: t) =
                AuthServer.lineLoop real (p.handled l (handle real p.srv l)) t := by
              simp [AuthServer.lineLoop, hc', hl, hr, ha]
            rw [this]
            obtain ⟨⟨new, h1, h2⟩, h3⟩ := ih (p.handled l (handle real p.srv l)) hf.2
            refine ⟨⟨(handle real p.srv l).sent ++ new, ?_, ?_⟩, h3⟩
            · rw [h1]; simp
            · intro x hx
              rcases List.mem_append.1 hx with hx | hx
              · exact hf.1 x hx
              · exact h2 x hx

theorem recvLines_sent (g : Bytes) (p : SProto) (d : Bytes) (hg : p.srv.serverGuid = g) :
    (∃ new, (AuthServer.recvLines real p d).sent = p.sent ++ new ∧ ∀ l ∈ new, SentForm g l) ∧
    (AuthServer.recvLines real p d).srv.serverGuid = g := by
  rw [AuthServer.recvLines_eq]
  have h := lineLoop_sent g (AuthServer.splitCRLF (p.buffer ++ d)).1 (p.setBuf (AuthServer.splitCRLF (p.buffer ++ d)).2) hg
  cases hk : AuthServer.lineLoop real (p.setBuf (AuthServer.splitCRLF (p.buffer ++ d)).2) (AuthServer.splitCRLF (p.buffer ++ d)).1 with
  | mk q k =>
    rw [hk] at h
    simp only at h
    cases k with
    | done => simp only; split <;> exact h
    | ret => exact h
    | success rest => exact h

/-- One read of the bus: `sent` grows by lines of the five forms; the GUID stays. -/
theorem recv_sent (g : Bytes) (p : SProto) (d : Bytes) (hg : p.srv.serverGuid = g) :
    (∃ new, (AuthServer.recv real p d).sent = p.sent ++ new ∧ ∀ l ∈ new, SentForm g l) ∧
    (AuthServer.recv real p d).srv.serverGuid = g := by
  unfold AuthServer.recv
  split
  · exact ⟨⟨[], by simp, fun _ hl => (nomatch hl)⟩, hg⟩
  · split
    · exact ⟨⟨[], by simp, fun _ hl => (nomatch hl)⟩, hg⟩
    · split
      · split
        · exact ⟨⟨[], by simp [AuthServer.Proto.crash], fun _ hl => (nomatch hl)⟩, hg⟩
        · split
          · exact ⟨⟨[], by simp, fun _ hl => (nomatch hl)⟩, hg⟩
          · exact recvLines_sent g p.dropFirst _ hg
      · exact recvLines_sent g p d hg

/-! ## the lines the client's authenticator is handed -/

/-- The server lines handed to the client's authenticator, in order. -/
def recvs : List Ev → List Bytes
  | [] => []
  | .recv l :: t => l :: recvs t
  | _ :: t => recvs t

theorem recvs_append (a b : List Ev) : recvs (a ++ b) = recvs a ++ recvs b := by
  induction a with
  | nil => rfl
  | cons e t ih => cases e <;> simp [recvs, ih]

theorem recvs_sends (out : List Bytes) : recvs (out.map Ev.send) = [] := by
  induction out with
  | nil => rfl
  | cons a t ih => simp [recvs, ih]

theorem mem_recvs {l : Bytes} {tr : List Ev} : l ∈ recvs tr ↔ Ev.recv l ∈ tr := by
  induction tr with
  | nil => simp [recvs]
  | cons e t ih => cases e <;> simp [recvs, ih]

/-- The loop of `dataReceived` hands over a prefix of the lines it is given - all of them, leaving the buffer
alone, if the client is still in line mode and open afterwards. -/
theorem processLines_recvs (envAt : Nat → AuthClient.Env) (ls : List Bytes) : ∀ p : CProto,
    ∃ j, recvs (AuthClient.processLines envAt p ls).trace = recvs p.trace ++ ls.take j ∧
      (((AuthClient.processLines envAt p ls).authenticated = false ∧
        (AuthClient.processLines envAt p ls).disconnecting = false) →
        j = ls.length ∧ (AuthClient.processLines envAt p ls).buffer = p.buffer) := by
  induction ls with
  | nil =>
    intro p
    refine ⟨0, ?_, ?_⟩
    · unfold AuthClient.processLines
      split <;> simp [AuthClient.Proto.close, recvs_append, recvs]
    · intro _
      refine ⟨rfl, ?_⟩
      unfold AuthClient.processLines
      split <;> simp [AuthClient.Proto.close]
  | cons l ls ih =>
    intro p
    obtain ⟨auth, buffer, disc, authd, binary, seen, trace⟩ := p
    unfold AuthClient.processLines
    cases disc with
    | true => exact ⟨0, by simp, fun h => by simp at h⟩
    | false =>
      by_cases hlen : l.length > AuthClient.maxAuth
      · refine ⟨0, by simp [hlen, AuthClient.Proto.close, recvs_append, recvs], fun h => ?_⟩
        simp [hlen, AuthClient.Proto.close] at h
      · cases hh : AuthClient.handleAuthMessage (envAt seen) auth l with
        | error e =>
          simp only [hlen, hh, Bool.false_eq_true, if_false]
          obtain ⟨j, h1, h2⟩ := ih (AuthClient.Proto.close ⟨auth, buffer, false, authd, binary, seen + 1, trace ++ [Ev.recv l]⟩)
          refine ⟨j + 1, ?_, fun h => ?_⟩
          · rw [h1]; simp [AuthClient.Proto.close, recvs_append, recvs]
          · obtain ⟨hj, hb⟩ := h2 h
            exact ⟨by simp [hj], by rw [hb]; rfl⟩
        | ok r =>
          obtain ⟨a, out⟩ := r
          simp only [hlen, hh, Bool.false_eq_true, if_false]
          by_cases ha : a.authenticated = true
          · simp only [ha, if_true]
            refine ⟨1, ?_, fun h => ?_⟩
            · simp [recvs_append, recvs, recvs_sends]
            · simp at h
          · have ha' : a.authenticated = false := by simpa using ha
            simp only [ha', Bool.false_eq_true, if_false]
            obtain ⟨j, h1, h2⟩ := ih ⟨a, buffer, false, authd, binary, seen + 1, trace ++ [Ev.recv l] ++ out.map Ev.send⟩
            refine ⟨j + 1, ?_, fun h => ?_⟩
            · rw [h1]; simp [recvs_append, recvs, recvs_sends]
            · obtain ⟨hj, hb⟩ := h2 h
              exact ⟨by simp [hj], hb⟩

/-- A closed client is handed nothing more, and stays closed. -/
theorem processLines_closed (envAt : Nat → AuthClient.Env) (ls : List Bytes) (p : CProto)
    (hd : p.disconnecting = true) :
    recvs (AuthClient.processLines envAt p ls).trace = recvs p.trace ∧
    (AuthClient.processLines envAt p ls).disconnecting = true := by
  cases ls with
  | nil =>
    unfold AuthClient.processLines
    split
    · simp [AuthClient.Proto.close, recvs_append, recvs]
    · exact ⟨rfl, hd⟩
  | cons l t =>
    unfold AuthClient.processLines
    simp [hd]

/-- What the client's framing finds in a prefix `x` of clean lines on the wire: some of the lines, whole, and a
remainder that together with the rest is the wire form of the other lines. -/
theorem split_prefix_wire (L : List Bytes) (hL : ∀ l ∈ L, NoCR l) : ∀ (x rest : Bytes), x ++ rest = wireS L →
    ∃ j, j ≤ L.length ∧ (AuthClient.splitCRLF x).1 = L.take j ∧ (AuthClient.splitCRLF x).2 ++ rest = wireS (L.drop j) := by
  induction L with
  | nil =>
    intro x rest h
    have hx : x = [] := by
      cases x with
      | nil => rfl
      | cons a t => simp [wireS] at h
    subst hx
    exact ⟨0, Nat.le_refl _, rfl, by simpa [AuthClient.splitCRLF] using h⟩
  | cons l t ih =>
    intro x rest h
    have hl : NoCR l := hL l (by simp)
    have hw : wireS (l :: t) = (l ++ [13, 10]) ++ wireS t := by simp [wireS]
    rw [hw] at h
    rcases List.append_eq_append_iff.1 h with ⟨a', h1, h2⟩ | ⟨c', h1, h2⟩
    · by_cases ha : a' = []
      · subst ha
        have hx : x = l ++ [13, 10] := by simpa using h1.symm
        refine ⟨1, by simp, ?_, ?_⟩
        · rw [hx]
          have := AuthClient.splitCRLF_line (hasCRLF_of_noCR hl) []
          simp only [AuthClient.splitCRLF] at this
          simpa using congrArg Prod.fst this
        · rw [hx]
          have := AuthClient.splitCRLF_line (hasCRLF_of_noCR hl) []
          simp only [AuthClient.splitCRLF] at this
          have h3 := congrArg Prod.snd this
          simp only at h3
          rw [show l ++ [13, 10] = l ++ 13 :: 10 :: [] from rfl, h3]
          simpa using h2
      · refine ⟨0, Nat.zero_le _, ?_, ?_⟩
        · rw [AuthClient.splitCRLF_noCRLF (cli_noCRLF_proper hl h1.symm ha)]; rfl
        · rw [AuthClient.splitCRLF_noCRLF (cli_noCRLF_proper hl h1.symm ha)]
          show x ++ rest = wireS (l :: t)
          rw [hw, ← h]
    · obtain ⟨j, hj, k1, k2⟩ := ih (fun y hy => hL y (by simp [hy])) c' rest h2.symm
      refine ⟨j + 1, by simp; omega, ?_, ?_⟩
      · rw [h1, show (l ++ [13, 10]) ++ c' = l ++ 13 :: 10 :: c' by simp,
          AuthClient.splitCRLF_line (hasCRLF_of_noCR hl) c']
        simp [k1]
      · rw [h1, show (l ++ [13, 10]) ++ c' = l ++ 13 :: 10 :: c' by simp,
          AuthClient.splitCRLF_line (hasCRLF_of_noCR hl) c']
        simpa using k2

/-! ## the invariant: what the client was handed is what the bus wrote -/

/-- The lines handed to the client's authenticator are the first `k` lines the bus wrote; while the client is
open and in line mode, its buffer followed by the queue is the wire form of the other lines the bus wrote. -/
structure Wire (cfg : Cfg) (st : State) : Prop where
  guid : st.s.srv.serverGuid = cfg.guid
  forms : ∀ l ∈ st.s.sent, SentForm cfg.guid l
  tie : ∃ k, k ≤ st.s.sent.length ∧ recvs st.c.trace = st.s.sent.take k ∧
    ((st.c.authenticated = false ∧ st.c.disconnecting = false) →
      st.c.buffer ++ st.s2c = wireS (st.s.sent.drop k))

theorem wire_init (cfg : Cfg) : Wire cfg (init cfg) := by
  refine ⟨rfl, fun _ hl => (nomatch hl), 0, Nat.le_refl _, ?_, ?_⟩
  · show recvs (AuthClient.connectionMade _ _ _).trace = []
    unfold AuthClient.connectionMade
    simp only
    split
    · simp [AuthClient.Proto.close, recvs]
    · simp [recvs, recvs_append, recvs_sends]
  · intro _
    show (AuthClient.connectionMade _ _ _).buffer ++ [] = wireS []
    unfold AuthClient.connectionMade
    simp only
    split <;> rfl

theorem wire_feedS {cfg : Cfg} {st : State} (h : Wire cfg st) (d rest : Bytes) (hq : st.c2s = d ++ rest) :
    Wire cfg (feedS st d rest) := by
  obtain ⟨⟨new, h1, h2⟩, h3⟩ := recv_sent cfg.guid st.s d h.guid
  obtain ⟨k, hk, ht, hl⟩ := h.tie
  unfold feedS
  refine ⟨h3, ?_, k, ?_, ?_, ?_⟩
  · intro l hl'
    rw [h1] at hl'
    rcases List.mem_append.1 hl' with hl' | hl'
    · exact h.forms l hl'
    · exact h2 l hl'
  · show k ≤ (AuthServer.recv real st.s d).sent.length
    rw [h1, List.length_append]; omega
  · show recvs st.c.trace = (AuthServer.recv real st.s d).sent.take k
    rw [h1, List.take_append_of_le_length hk]; exact ht
  · intro hlive
    show st.c.buffer ++ (st.s2c ++ wireS ((AuthServer.recv real st.s d).sent.drop st.s.sent.length)) =
      wireS ((AuthServer.recv real st.s d).sent.drop k)
    rw [h1, List.drop_left, List.drop_append_of_le_length hk, wireS_append, ← List.append_assoc, hl hlive]

theorem take_add_prefix (sent P : List Bytes) (k : Nat) (h : P <+: sent.drop k) :
    sent.take k ++ P = sent.take (k + P.length) := by
  rw [List.take_add, List.prefix_iff_eq_take.1 h]
  simp

theorem wire_feedC {cfg : Cfg} (hg : NoCR cfg.guid) {st : State} (h : Wire cfg st) (d rest : Bytes)
    (hq : st.s2c = d ++ rest) : Wire cfg (feedC cfg st d rest) := by
  obtain ⟨k, hk, ht, hl⟩ := h.tie
  unfold feedC
  refine ⟨h.guid, h.forms, ?_⟩
  show ∃ k', k' ≤ st.s.sent.length ∧
    recvs (AuthClient.dataReceived (fun _ => envOf cfg st.s.srv.world) st.c d).trace = st.s.sent.take k' ∧
    (((AuthClient.dataReceived (fun _ => envOf cfg st.s.srv.world) st.c d).authenticated = false ∧
      (AuthClient.dataReceived (fun _ => envOf cfg st.s.srv.world) st.c d).disconnecting = false) →
      (AuthClient.dataReceived (fun _ => envOf cfg st.s.srv.world) st.c d).buffer ++ rest = wireS (st.s.sent.drop k'))
  by_cases ha : st.c.authenticated = true
  · have hdr : AuthClient.dataReceived (fun _ => envOf cfg st.s.srv.world) st.c d =
        { st.c with binary := st.c.binary ++ d } := by
      unfold AuthClient.dataReceived; rw [if_pos ha]
    rw [hdr]
    exact ⟨k, hk, ht, fun hh => by rw [show ({ st.c with binary := st.c.binary ++ d } : CProto).authenticated = true from ha] at hh; exact absurd hh.1 (by decide)⟩
  · have ha' : st.c.authenticated = false := by simpa using ha
    have hdr : AuthClient.dataReceived (fun _ => envOf cfg st.s.srv.world) st.c d =
        AuthClient.processLines (fun _ => envOf cfg st.s.srv.world)
          { st.c with buffer := (AuthClient.splitCRLF (st.c.buffer ++ d)).2 } (AuthClient.splitCRLF (st.c.buffer ++ d)).1 := by
      unfold AuthClient.dataReceived; rw [if_neg ha]
    rw [hdr]
    by_cases hd : st.c.disconnecting = true
    · obtain ⟨c1, c2⟩ := processLines_closed (fun _ => envOf cfg st.s.srv.world)
        (AuthClient.splitCRLF (st.c.buffer ++ d)).1 { st.c with buffer := (AuthClient.splitCRLF (st.c.buffer ++ d)).2 } hd
      refine ⟨k, hk, by rw [c1]; exact ht, fun hh => ?_⟩
      rw [c2] at hh
      exact absurd hh.2 (by decide)
    · have hd' : st.c.disconnecting = false := by simpa using hd
      have hwire := hl ⟨ha', hd'⟩
      rw [hq, ← List.append_assoc] at hwire
      have hclean : ∀ l ∈ st.s.sent.drop k, NoCR l := fun l hl' =>
        sentForm_clean hg (h.forms l (List.mem_of_mem_drop hl'))
      obtain ⟨j, hj, s1, s2⟩ := split_prefix_wire (st.s.sent.drop k) hclean (st.c.buffer ++ d) rest hwire
      obtain ⟨j', p1, p2⟩ := processLines_recvs (fun _ => envOf cfg st.s.srv.world)
        (AuthClient.splitCRLF (st.c.buffer ++ d)).1 { st.c with buffer := (AuthClient.splitCRLF (st.c.buffer ++ d)).2 }
      have hpre : ((AuthClient.splitCRLF (st.c.buffer ++ d)).1.take j') <+: st.s.sent.drop k := by
        rw [s1]
        exact (List.take_prefix _ _).trans (List.take_prefix _ _)
      have hlen : ((AuthClient.splitCRLF (st.c.buffer ++ d)).1.take j').length ≤ (st.s.sent.drop k).length :=
        hpre.length_le
      refine ⟨k + ((AuthClient.splitCRLF (st.c.buffer ++ d)).1.take j').length, ?_, ?_, fun hh => ?_⟩
      · rw [List.length_drop] at hlen; omega
      · rw [p1]
        show recvs st.c.trace ++ _ = _
        rw [ht]
        exact take_add_prefix _ _ _ hpre
      · obtain ⟨q1, q2⟩ := p2 hh
        rw [q2]
        show (AuthClient.splitCRLF (st.c.buffer ++ d)).2 ++ rest = _
        rw [s2, q1, List.take_length, s1, List.length_take, List.length_drop, List.drop_drop]
        have : min j (st.s.sent.length - k) = j := by rw [List.length_drop] at hj; omega
        rw [this, Nat.add_comm]

/-- Every move keeps the tie between what the client was handed and what the bus wrote. -/
theorem wire_step {cfg : Cfg} (hg : NoCR cfg.guid) {st : State} (h : Wire cfg st) (m : Move) :
    Wire cfg (step cfg st m) := by
  cases m with
  | toServer n =>
    show Wire cfg (toServer n st)
    unfold toServer
    split
    · exact h
    · rename_i a t hq
      exact wire_feedS h _ _ (by rw [hq]; exact (List.take_append_drop _ _).symm)
  | toClient n =>
    show Wire cfg (toClient cfg n st)
    unfold toClient
    split
    · exact h
    · rename_i a t hq
      exact wire_feedC hg h _ _ (by rw [hq]; exact (List.take_append_drop _ _).symm)

theorem wire_run {cfg : Cfg} (hg : NoCR cfg.guid) (ms : List Move) : ∀ {st : State}, Wire cfg st →
    Wire cfg (run cfg st ms) := by
  induction ms with
  | nil => intro st h; exact h
  | cons m t ih => intro st h; exact ih (wire_step hg h m)

/-! ## C07's invariant in the composition -/

theorem invB_step {cfg : Cfg} {st : State} (h : AuthClient.InvB cfg.unix st.c.core) (m : Move) :
    AuthClient.InvB cfg.unix (step cfg st m).c.core := by
  cases m with
  | toServer n =>
    show AuthClient.InvB cfg.unix (toServer n st).c.core
    unfold toServer
    split
    · exact h
    · exact h
  | toClient n =>
    show AuthClient.InvB cfg.unix (toClient cfg n st).c.core
    unfold toClient
    split
    · exact h
    · obtain ⟨steps, hs⟩ := AuthClient.dataReceived_core (fun _ => envOf cfg st.s.srv.world) st.c
        (st.s2c.take (n + 1))
      show AuthClient.InvB cfg.unix (AuthClient.dataReceived _ st.c _).core
      rw [hs]
      exact h.run steps

theorem invB_run {cfg : Cfg} (ms : List Move) : ∀ {st : State}, AuthClient.InvB cfg.unix st.c.core →
    AuthClient.InvB cfg.unix (run cfg st ms).c.core := by
  induction ms with
  | nil => intro st h; exact h
  | cons m t ih => intro st h; exact ih (invB_step h m)

theorem invB_init (cfg : Cfg) : AuthClient.InvB cfg.unix (init cfg).c.core :=
  AuthClient.InvB.init _ cfg.unix _

/-- Every line handed to the client's authenticator was written by the bus. -/
theorem recv_was_sent {cfg : Cfg} {st : State} (h : Wire cfg st) (l : Bytes) (hl : Ev.recv l ∈ st.c.trace) :
    l ∈ st.s.sent := by
  obtain ⟨k, _, ht, _⟩ := h.tie
  have : l ∈ recvs st.c.trace := mem_recvs.2 hl
  rw [ht] at this
  exact List.mem_of_mem_take this

/-- A BEGIN in the client's trace is justified (C07) by an OK line that the bus wrote. -/
theorem begin_needs_bus_ok {cfg : Cfg} {st : State} (hw : Wire cfg st) (hb : AuthClient.InvB cfg.unix st.c.core)
    (h : Ev.send AuthClient.lBEGIN ∈ st.c.trace) : ∃ okl ∈ st.s.sent, AuthClient.OkLine okl := by
  obtain ⟨pre, post, hsplit⟩ := List.append_of_mem h
  obtain ⟨okl, hok, hj⟩ := hb.begins pre post hsplit
  refine ⟨okl, recv_was_sent hw okl ?_, hok⟩
  have hpre : Ev.recv okl ∈ pre := by
    cases hu : cfg.unix with
    | true =>
      rw [hu] at hj
      simp only [if_true] at hj
      obtain ⟨ans, _, hs⟩ := hj
      exact hs.subset (by simp)
    | false =>
      rw [hu] at hj
      simpa using hj
  show Ev.recv okl ∈ st.c.trace
  rw [hsplit]
  exact List.mem_append_left _ hpre

/-! ## the bus's part of a composed run is a run of C06's model -/

theorem runReads_snoc (p : SProto) (reads : List Bytes) (d : Bytes) :
    AuthServer.runReads real p (reads ++ [d]) = AuthServer.recv real (AuthServer.runReads real p reads) d := by
  induction reads generalizing p with
  | nil => rfl
  | cons a t ih => simp only [List.cons_append, AuthServer.runReads]; exact ih _

/-- PROJECTION: the bus component of the composition after any schedule is C06's `runReads` of the real
mechanisms from `Proto.init` on some list of non-empty reads (the pieces the adversary delivered).  Every theorem
of C06 about `runReads real (Proto.init guid w) reads` therefore holds of the composition - without `Hyp`. -/
theorem bus_is_runReads (cfg : Cfg) (ms : List Move) :
    ∃ reads, (∀ r ∈ reads, r ≠ []) ∧
      (run cfg (init cfg) ms).s = AuthServer.runReads real (AuthServer.Proto.init cfg.guid cfg.w0) reads := by
  have key : ∀ (ms : List Move) (st : State),
      (∃ reads, (∀ r ∈ reads, r ≠ []) ∧ st.s = AuthServer.runReads real (AuthServer.Proto.init cfg.guid cfg.w0) reads) →
      ∃ reads, (∀ r ∈ reads, r ≠ []) ∧
        (run cfg st ms).s = AuthServer.runReads real (AuthServer.Proto.init cfg.guid cfg.w0) reads := by
    intro ms
    induction ms with
    | nil => intro st h; exact h
    | cons m t ih =>
      intro st h
      apply ih
      obtain ⟨reads, hne, hs⟩ := h
      cases m with
      | toServer n =>
        show ∃ reads, _ ∧ (toServer n st).s = _
        unfold toServer
        split
        · exact ⟨reads, hne, hs⟩
        · rename_i a t' hq
          refine ⟨reads ++ [(a :: t').take (n + 1)], ?_, ?_⟩
          · intro r hr
            rcases List.mem_append.1 hr with hr | hr
            · exact hne r hr
            · simp only [List.mem_singleton] at hr; rw [hr]; simp
          · rw [runReads_snoc, ← hs, hq]; rfl
      | toClient n =>
        show ∃ reads, _ ∧ (toClient cfg n st).s = _
        unfold toClient
        split
        · exact ⟨reads, hne, hs⟩
        · exact ⟨reads, hne, hs⟩
  exact key ms (init cfg) ⟨[], fun _ h => (nomatch h), rfl⟩

/-- C06's safety theorem in the composition, without `Hyp`: if the bus is authenticated after a schedule, its log
decomposes as `pre ++ a :: (mid ++ [b])` with `a` an accepting step of an offered mechanism, `b` the BEGIN line and
no rejection in between; and it did not close. -/
theorem bus_authenticated_only_after_accept (cfg : Cfg) (ms : List Move)
    (h : (run cfg (init cfg) ms).s.authenticated = true) :
    AuthServer.AuthWitness real.offered (run cfg (init cfg) ms).s.log ∧ (run cfg (init cfg) ms).s.closed = false := by
  obtain ⟨reads, _, hs⟩ := bus_is_runReads cfg ms
  rw [hs] at h ⊢
  have hinv := AuthServer.runReads_inv real cfg.guid _ reads (AuthServer.inv_init real cfg.guid cfg.w0)
  exact ⟨((hinv.2.1 h)).1, ((hinv.2.1 h)).2.2⟩

/-! ## no binary byte reaches the binary branch while the bus is in line mode - no hypothesis -/

theorem recvLines_binary_nil (p : SProto) (d : Bytes) (ha : p.authenticated = false) (hb : p.binary = [])
    (h : (AuthServer.recvLines real p d).authenticated = false) : (AuthServer.recvLines real p d).binary = [] := by
  rw [AuthServer.recvLines_eq] at h ⊢
  have hf := AuthServer.lineLoop_frame real (p.setBuf (AuthServer.splitCRLF (p.buffer ++ d)).2)
    (AuthServer.splitCRLF (p.buffer ++ d)).1
  cases hk : AuthServer.lineLoop real (p.setBuf (AuthServer.splitCRLF (p.buffer ++ d)).2) (AuthServer.splitCRLF (p.buffer ++ d)).1 with
  | mk q k =>
    rw [hk] at hf
    try rw [hk] at h
    try rw [hk]
    simp only at hf h ⊢
    have hqb : q.binary = [] := hf.2.2.2.2.trans hb
    cases k with
    | done => simp only at h ⊢; split <;> simpa using hqb
    | ret => exact hqb
    | success rest => exact absurd h (by simp [AuthServer.Proto.handOff])

theorem recv_binary_nil (p : SProto) (d : Bytes) (hb : p.authenticated = false → p.binary = [])
    (h : (AuthServer.recv real p d).authenticated = false) : (AuthServer.recv real p d).binary = [] := by
  cases hc : p.crashed with
  | true =>
    rw [AuthServer.recv_crashed real p d hc] at h ⊢
    exact hb h
  | false =>
    cases ha : p.authenticated with
    | true =>
      rw [AuthServer.recv_auth real p d hc ha] at h
      exact absurd (show p.authenticated = false from h) (by rw [ha]; decide)
    | false =>
      cases hf : p.firstByte with
      | true =>
        cases d with
        | nil =>
          have : AuthServer.recv real p [] = p.crash := by simp [AuthServer.recv, hc, ha, hf]
          rw [this]; exact hb ha
        | cons b t =>
          by_cases hb0 : b = 0
          · subst hb0
            rw [AuthServer.recv_first_nul real p t hc ha hf] at h ⊢
            exact recvLines_binary_nil p.dropFirst t ha (hb ha) h
          · rw [AuthServer.recv_first_bad real p b t hc ha hf hb0]
            exact hb ha
      | false =>
        rw [AuthServer.recv_lines real p d hc ha hf] at h ⊢
        exact recvLines_binary_nil p d ha (hb ha) h

/-- While the bus is in line mode its binary branch has received nothing - in every reachable state, no hypothesis. -/
theorem bus_line_mode_binary_empty (cfg : Cfg) (ms : List Move) :
    (run cfg (init cfg) ms).s.authenticated = false → (run cfg (init cfg) ms).s.binary = [] := by
  have key : ∀ (ms : List Move) (st : State), (st.s.authenticated = false → st.s.binary = []) →
      ((run cfg st ms).s.authenticated = false → (run cfg st ms).s.binary = []) := by
    intro ms
    induction ms with
    | nil => intro st h; exact h
    | cons m t ih =>
      intro st h
      apply ih
      cases m with
      | toServer n =>
        show (toServer n st).s.authenticated = false → (toServer n st).s.binary = []
        unfold toServer
        split
        · exact h
        · exact fun h' => recv_binary_nil st.s _ h h'
      | toClient n =>
        show (toClient cfg n st).s.authenticated = false → (toClient cfg n st).s.binary = []
        unfold toClient
        split
        · exact h
        · exact h
  exact key ms (init cfg) (fun _ => rfl)

end Txdbus.Handshake2
