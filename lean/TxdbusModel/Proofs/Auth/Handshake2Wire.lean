/-
C07 x C06 proofs, part 6 - C07's safety theorem inside the composition, without assumptions on sizes.

For EVERY configuration whose bus GUID holds no CR (no assumption that lines fit, that the keyring is sane, ...):
* the client's part of the composed state always satisfies C07's invariant `InvB` (`begin_only_after_ok`,
  `authenticated_iff_begin`), because every read of the composition is a `dataReceived` of the client model
  (`comp_invB`);
* every line the client's authenticator was ever handed is a line the bus wrote, in order (`Wire`, `comp_wire`):
  the lines handed over are a prefix of the bus's `sent`, and while the client is in line mode its buffer followed
  by what is queued is exactly the rest of what the bus wrote.
Together: the OK that justifies a BEGIN is an OK line the bus wrote (`begin_needs_bus_ok`).
-/
import TxdbusModel.Proofs.Auth.Handshake2Bytes
import TxdbusModel.Proofs.Auth.ClientSafety

namespace Txdbus.Handshake2

open Txdbus.AuthServer (real NoCR RealWorld Inst Server Out handle reject stepAuth sendError)
open Txdbus.Gen.ServerAuth (wOk wData wError wErrorSp wUnknown)
open Txdbus.AuthClient (Ev)

/-! ## the lines the bus writes hold no CR -/

/-- The forms a line written by `BusAuthenticator` can have. -/
def SentForm (g : Bytes) (l : Bytes) : Prop :=
  l = AuthServer.rejectLine real ∨ l = wOk ++ g ∨ (∃ c, l = wData ++ AuthServer.hexlify c) ∨ l = wError ∨
  l = wErrorSp ++ wUnknown

theorem sentForm_clean {g l : Bytes} (hg : NoCR g) (h : SentForm g l) : NoCR l := by
  rcases h with rfl | rfl | ⟨c, rfl⟩ | rfl | rfl
  · have : AuthServer.rejectLine real = Gen.ServerAuth.rejectMsg := by decide
    rw [this]; unfold NoCR; decide
  · exact AuthServer.noCR_append _ _ (by unfold NoCR; decide) hg
  · exact AuthServer.noCR_append _ _ (by unfold NoCR; decide) (noCR_hexlify c)
  · unfold NoCR; decide
  · unfold NoCR; decide

theorem reject_forms (s : Server RealWorld Inst) (m) :
    (∀ l ∈ (reject real s m).sent, SentForm s.serverGuid l) ∧ (reject real s m).srv.serverGuid = s.serverGuid := by
  unfold reject
  cases hc : s.cur with
  | none =>
    simp only
    split
    · exact ⟨fun _ hl => (nomatch hl), rfl⟩
    · exact ⟨fun l hl => by simp only [List.mem_singleton] at hl; exact Or.inl hl, rfl⟩
  | some ni =>
    obtain ⟨n, i⟩ := ni
    simp only
    cases real.cancel s.world i with
    | none => exact ⟨fun _ hl => (nomatch hl), rfl⟩
    | some w =>
      simp only
      split
      · exact ⟨fun _ hl => (nomatch hl), rfl⟩
      · exact ⟨fun l hl => by simp only [List.mem_singleton] at hl; exact Or.inl hl, rfl⟩

theorem sendError_forms (s : Server RealWorld Inst) (msg : Bytes) (hm : msg = [] ∨ msg = wUnknown) :
    (∀ l ∈ (sendError s msg).sent, SentForm s.serverGuid l) ∧ (sendError s msg).srv.serverGuid = s.serverGuid := by
  refine ⟨fun l hl => ?_, rfl⟩
  unfold sendError at hl
  simp only [List.mem_singleton] at hl
  rcases hm with rfl | rfl
  · rw [hl]; exact Or.inr (Or.inr (Or.inr (Or.inl rfl)))
  · rw [hl]; exact Or.inr (Or.inr (Or.inr (Or.inr (by decide))))

theorem stepAuth_forms (s : Server RealWorld Inst) (resp : Option Bytes) :
    (∀ l ∈ (stepAuth real s resp).sent, SentForm s.serverGuid l) ∧
    (stepAuth real s resp).srv.serverGuid = s.serverGuid := by
  unfold stepAuth
  cases hc : s.cur with
  | none => exact reject_forms s none
  | some ni =>
    obtain ⟨name, i⟩ := ni
    simp only
    cases AuthServer.decodeResponse resp with
    | none => exact reject_forms s none
    | some arg =>
      simp only
      cases ho : (real.step s.world i arg).2.2 with
      | accept =>
        exact ⟨fun l hl => by simp only [List.mem_singleton] at hl; exact Or.inr (Or.inl hl), rfl⟩
      | challenge c =>
        exact ⟨fun l hl => by simp only [List.mem_singleton] at hl; exact Or.inr (Or.inr (Or.inl ⟨c, hl⟩)), rfl⟩
      | reject => exact reject_forms _ _

/-- Every line `handleAuthMessage` of the bus writes has one of the five forms, and the GUID never changes. -/
theorem handle_forms (s : Server RealWorld Inst) (line : Bytes) :
    (∀ l ∈ (handle real s line).sent, SentForm s.serverGuid l) ∧ (handle real s line).srv.serverGuid = s.serverGuid := by
  unfold handle
  simp only
  split
  · exact ⟨fun _ hl => (nomatch hl), rfl⟩
  · split
    · -- AUTH
      unfold AuthServer.authAUTH
      split
      · split
        · exact reject_forms s none
        · split
          · exact stepAuth_forms _ _
          · exact reject_forms s none
      · exact sendError_forms s [] (Or.inl rfl)
    · -- BEGIN
      unfold AuthServer.authBEGIN
      split
      · split
        · exact ⟨fun _ hl => (nomatch hl), rfl⟩
        · split
          · exact ⟨fun _ hl => (nomatch hl), rfl⟩
          · exact ⟨fun _ hl => (nomatch hl), rfl⟩
      · exact ⟨fun _ hl => (nomatch hl), rfl⟩
    · -- CANCEL
      unfold AuthServer.authCANCEL
      split
      · exact reject_forms s none
      · exact sendError_forms s [] (Or.inl rfl)
    · -- DATA
      unfold AuthServer.authDATA
      split
      · exact stepAuth_forms _ _
      · exact sendError_forms s [] (Or.inl rfl)
    · exact reject_forms s none
    · exact sendError_forms s [] (Or.inl rfl)
    · exact sendError_forms s wUnknown (Or.inr rfl)

/-- One read of the bus only appends lines of the five forms to what it has written. -/
theorem lineLoop_sent (g : Bytes) (ls : List Bytes) : ∀ p : SProto, p.srv.serverGuid = g →
    (∃ new, (AuthServer.lineLoop real p ls).1.sent = p.sent ++ new ∧ ∀ l ∈ new, SentForm g l) ∧
    (AuthServer.lineLoop real p ls).1.srv.serverGuid = g := by
  induction ls with
  | nil => intro p hg; exact ⟨⟨[], by simp [AuthServer.lineLoop], fun _ hl => (nomatch hl)⟩, by simp [AuthServer.lineLoop, hg]⟩
  | cons l t ih =>
    intro p hg
    have hf := handle_forms p.srv l
    rw [hg] at hf
    by_cases hc : p.closed = true
    · have : AuthServer.lineLoop real p (l :: t) = (p, .ret) := by simp [AuthServer.lineLoop, hc]
      rw [this]
      exact ⟨⟨[], by simp, fun _ hl => (nomatch hl)⟩, hg⟩
    · have hc' : p.closed = false := by simpa using hc
      by_cases hl : l.length > Gen.ServerAuth.maxAuthLength
      · have : AuthServer.lineLoop real p (l :: t) = (p.close, .ret) := by simp [AuthServer.lineLoop, hc', hl]
        rw [this]
        exact ⟨⟨[], by simp, fun _ hl => (nomatch hl)⟩, hg⟩
      · cases hr : (handle real p.srv l).res with
        | crash =>
          have : AuthServer.lineLoop real p (l :: t) = ((p.handled l (handle real p.srv l)).crash, .ret) := by
            simp [AuthServer.lineLoop, hc', hl, hr]
          rw [this]
          exact ⟨⟨_, rfl, hf.1⟩, hf.2⟩
        | failed =>
          have : AuthServer.lineLoop real p (l :: t) =
              AuthServer.lineLoop real (p.handled l (handle real p.srv l)).close t := by
            simp [AuthServer.lineLoop, hc', hl, hr]
          rw [this]
          obtain ⟨⟨new, h1, h2⟩, h3⟩ := ih (p.handled l (handle real p.srv l)).close hf.2
          refine ⟨⟨(handle real p.srv l).sent ++ new, ?_, ?_⟩, h3⟩
          · rw [h1]; simp
          · intro x hx
            rcases List.mem_append.1 hx with hx | hx
            · exact hf.1 x hx
            · exact h2 x hx
        | ok =>
          by_cases ha : (handle real p.srv l).srv.authenticated = true
          · have : AuthServer.lineLoop real p (l :: t) = (p.handled l (handle real p.srv l), .success t) := by
              simp [AuthServer.lineLoop, hc', hl, hr, ha]
            rw [this]
            exact ⟨⟨_, rfl, hf.1⟩, hf.2⟩
          · have : AuthServer.lineLoop real p (l :: t) =
                AuthServer.lineLoop real (p.handled l (handle real p.srv l)) t := by
              simp [AuthServer.lineLoop, hc', hl, hr, ha]
            rw [this]
            obtain ⟨⟨new, h1, h2⟩, h3⟩ := ih (p.handled l (handle real p.srv l)) hf.2
            refine ⟨⟨(handle real p.srv l).sent ++ new, ?_, ?_⟩, h3⟩
            · rw [h1]; simp
            · intro x hx
              rcases List.mem_append.1 hx with hx | hx
              · exact hf.1 x hx
              · exact h2 x hx

theorem recvLines_sent (g : Bytes) (p : SProto) (d : Bytes) (hg : p.srv.serverGuid = g) :
    (∃ new, (AuthServer.recvLines real p d).sent = p.sent ++ new ∧ ∀ l ∈ new, SentForm g l) ∧
    (AuthServer.recvLines real p d).srv.serverGuid = g := by
  rw [AuthServer.recvLines_eq]
  have h := lineLoop_sent g (AuthServer.splitCRLF (p.buffer ++ d)).1 (p.setBuf (AuthServer.splitCRLF (p.buffer ++ d)).2) hg
  cases hk : AuthServer.lineLoop real (p.setBuf (AuthServer.splitCRLF (p.buffer ++ d)).2) (AuthServer.splitCRLF (p.buffer ++ d)).1 with
  | mk q k =>
    rw [hk] at h
    simp only at h
    cases k with
    | done => simp only; split <;> exact h
    | ret => exact h
    | success rest => exact h

/-- One read of the bus: `sent` grows by lines of the five forms; the GUID stays. -/
theorem recv_sent (g : Bytes) (p : SProto) (d : Bytes) (hg : p.srv.serverGuid = g) :
    (∃ new, (AuthServer.recv real p d).sent = p.sent ++ new ∧ ∀ l ∈ new, SentForm g l) ∧
    (AuthServer.recv real p d).srv.serverGuid = g := by
  unfold AuthServer.recv
  split
  · exact ⟨⟨[], by simp, fun _ hl => (nomatch hl)⟩, hg⟩
  · split
    · exact ⟨⟨[], by simp, fun _ hl => (nomatch hl)⟩, hg⟩
    · split
      · split
        · exact ⟨⟨[], by simp [AuthServer.Proto.crash], fun _ hl => (nomatch hl)⟩, hg⟩
        · split
          · exact ⟨⟨[], by simp, fun _ hl => (nomatch hl)⟩, hg⟩
          · exact recvLines_sent g p.dropFirst _ hg
      · exact recvLines_sent g p d hg

end Txdbus.Handshake2
