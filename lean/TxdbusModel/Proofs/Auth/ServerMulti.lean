import TxdbusModel.Proofs.Auth.ServerRun
import TxdbusModel.Auth.ServerMulti
/-
Several connections of one bus process (C06, state-leak round): the run-level invariant of
`Proofs/Auth/ServerRun.lean` holds of EVERY connection after EVERY interleaving of reads, connects, losses and
changes of the outside, whatever the other connections did to the shared world in between (the invariant does
not look at the world); and with a private view (scripted mechanisms) what a connection does is a function of
its own reads only.
-/
namespace Txdbus.AuthServer.Multi

open Txdbus.AuthServer Txdbus.Gen.ServerAuth

variable {G W I : Type} (S : MechSys W I) (V : View G W) (guid : Bytes)

/-- The invariant does not see the world a connection is shown. -/
theorem inv_withWorld (p : Proto W I) (w : W) : Inv S guid (withWorld p w) ↔ Inv S guid p := Iff.rfl

/-- Every connection of the bus satisfies the run-level invariant. -/
def AllInv (b : Bus G W I) : Prop := ∀ c ∈ b.conns, Inv S guid c.proto

theorem allInv_init (g : G) : AllInv S guid (Bus.init g : Bus G W I) := by
  intro c hc; cases hc

theorem step_allInv (b : Bus G W I) (e : Event G) (h : AllInv S guid b) : AllInv S guid (step S V guid b e) := by
  cases e with
  | connect =>
    intro c hc
    rcases List.mem_append.1 hc with hc | hc
    · exact h c hc
    · simp at hc; rw [hc]; exact inv_init S guid _
  | read k d =>
    show AllInv S guid (deliver S V b k d)
    unfold deliver
    cases hk : b.conns[k]? with
    | none => exact h
    | some c =>
      simp only
      by_cases hl : c.lost = true
      · simp only [hl, if_true]; exact h
      · simp only [hl, Bool.false_eq_true, if_false]
        intro c' hc'
        rcases List.mem_or_eq_of_mem_set hc' with hc' | hc'
        · exact h c' hc'
        · rw [hc']
          exact recv_inv S guid _ d ((inv_withWorld S guid c.proto _).2 (h c (List.mem_of_getElem? hk)))
  | lose k =>
    show AllInv S guid (markLost b k)
    unfold markLost
    cases hk : b.conns[k]? with
    | none => exact h
    | some c =>
      intro c' hc'
      rcases List.mem_or_eq_of_mem_set hc' with hc' | hc'
      · exact h c' hc'
      · rw [hc']; exact h c (List.mem_of_getElem? hk)
  | env f => exact h

theorem run_allInv (b : Bus G W I) (evs : List (Event G)) (h : AllInv S guid b) :
    AllInv S guid (run S V guid b evs) := by
  induction evs generalizing b with
  | nil => exact h
  | cons e es ih => exact ih _ (step_allInv S V guid b e h)

/-- Safety on a shared bus: whatever the interleaving and whatever the other connections did to the keyring,
a connection for which `connectionAuthenticated()` ran has, in ITS OWN log, an accept by an offered mechanism,
then only non-rejecting lines, then BEGIN as the last line handled. -/
theorem bus_authenticated_only_after_accept (g : G) (evs : List (Event G)) :
    ∀ c ∈ (run S V guid (Bus.init g : Bus G W I) evs).conns,
      c.proto.authenticated = true → AuthWitness S.offered c.proto.log ∧ c.proto.closed = false := by
  intro c hc ha
  have := run_allInv S V guid _ evs (allInv_init S guid g) c hc
  have h2 := this.2.1 ha
  exact ⟨h2.1, h2.2.2⟩

/-- Every connection's replies are the specification table's, folded over its own log. -/
theorem bus_refines_spec (g : G) (evs : List (Event G)) :
    ∀ c ∈ (run S V guid (Bus.init g : Bus G W I) evs).conns,
      (specRun S.offered maxRejects guid c.proto.log).ok = true ∧
      (c.proto.authenticated = false →
        (specRun S.offered maxRejects guid c.proto.log).st.phase ≠ .authenticated) ∧
      (c.proto.closed = false → c.proto.crashed = false → c.proto.authenticated = false →
        c.proto.srv.rejects = countRejections c.proto.log) := by
  intro c hc
  have := run_allInv S V guid _ evs (allInv_init S guid g) c hc
  exact ⟨this.2.2.1, this.2.2.2.2, fun h1 h2 h3 => (this.1 h1 h2 h3).2.2.2.2.2⟩

/-! ## private views: a connection is a function of its own reads -/

/-- Connection `k` reads back what it wrote, and nobody else's write reaches it. -/
structure Private (V : View G W) : Prop where
  get_put : ∀ g k w, V.get (V.put g k w) k = w
  get_put_ne : ∀ g j k w, j ≠ k → V.get (V.put g j w) k = V.get g k

/-- The world stored in every protocol object is the one the process shows that connection. -/
def Coherent (b : Bus G W I) : Prop := ∀ k c, b.conns[k]? = some c → c.proto.srv.world = V.get b.global k

/-- The changes of the outside in this history leave every connection's world alone. -/
def EnvKeeps (evs : List (Event G)) : Prop := ∀ f, Event.env f ∈ evs → ∀ g k, V.get (f g) k = V.get g k

theorem withWorld_self (p : Proto W I) : withWorld p p.srv.world = p := rfl

theorem step_coherent (hV : Private V) (b : Bus G W I) (e : Event G) (hb : Coherent V b)
    (he : ∀ f, e = .env f → ∀ g k, V.get (f g) k = V.get g k) : Coherent V (step S V guid b e) := by
  cases e with
  | connect =>
    intro k c hk
    show c.proto.srv.world = V.get b.global k
    by_cases hlt : k < b.conns.length
    · rw [show (step S V guid b .connect).conns = b.conns ++ [⟨Proto.init guid (V.get b.global b.conns.length), false⟩]
        from rfl, List.getElem?_append_left hlt] at hk
      exact hb k c hk
    · have hge : b.conns.length ≤ k := Nat.le_of_not_lt hlt
      rw [show (step S V guid b .connect).conns = b.conns ++ [⟨Proto.init guid (V.get b.global b.conns.length), false⟩]
        from rfl, List.getElem?_append_right hge] at hk
      cases hd : k - b.conns.length with
      | zero =>
        rw [hd] at hk
        simp at hk
        have hke : k = b.conns.length := by omega
        rw [← hk, hke]; rfl
      | succ n => rw [hd] at hk; simp at hk
  | read j d =>
    show Coherent V (deliver S V b j d)
    unfold deliver
    cases hj : b.conns[j]? with
    | none => exact hb
    | some cj =>
      simp only
      by_cases hl : cj.lost = true
      · simp only [hl, if_true]; exact hb
      · simp only [hl, Bool.false_eq_true, if_false]
        intro k c hk
        simp only at hk ⊢
        by_cases hjk : j = k
        · subst hjk
          have hlt : j < b.conns.length := by
            rcases List.getElem?_eq_some_iff.1 hj with ⟨h, _⟩; exact h
          rw [List.getElem?_set_self hlt] at hk
          simp at hk
          rw [← hk, hV.get_put]
        · rw [List.getElem?_set_ne hjk] at hk
          rw [hV.get_put_ne _ _ _ _ hjk]
          exact hb k c hk
  | lose j =>
    show Coherent V (markLost b j)
    unfold markLost
    cases hj : b.conns[j]? with
    | none => exact hb
    | some cj =>
      intro k c hk
      simp only at hk ⊢
      by_cases hjk : j = k
      · subst hjk
        have hlt : j < b.conns.length := by
          rcases List.getElem?_eq_some_iff.1 hj with ⟨h, _⟩; exact h
        rw [List.getElem?_set_self hlt] at hk
        simp at hk
        rw [← hk]; exact hb j cj hj
      · rw [List.getElem?_set_ne hjk] at hk
        exact hb k c hk
  | env f =>
    intro k c hk
    show c.proto.srv.world = V.get (f b.global) k
    rw [he f rfl]
    exact hb k c hk

/-- The event is a read for, or the loss of, connection `k`. -/
def touches (k : Nat) : Event G → Prop
  | .read j _ => j = k
  | .lose j => j = k
  | _ => False

theorem lt_of_conn (b : Bus G W I) (k : Nat) (c : Conn W I) (hk : b.conns[k]? = some c) : k < b.conns.length := by
  rcases List.getElem?_eq_some_iff.1 hk with ⟨h, _⟩; exact h

/-- An event for somebody else leaves connection `k` as it is. -/
theorem step_conn_other (b : Bus G W I) (e : Event G) (k : Nat) (c : Conn W I)
    (hk : b.conns[k]? = some c) (ht : ¬ touches k e) : (step S V guid b e).conns[k]? = some c := by
  have hlt := lt_of_conn b k c hk
  cases e with
  | connect =>
    show (b.conns ++ _)[k]? = some c
    rw [List.getElem?_append_left hlt]; exact hk
  | env f => exact hk
  | read j d =>
    have hjk : j ≠ k := ht
    show (deliver S V b j d).conns[k]? = some c
    unfold deliver
    cases hj : b.conns[j]? with
    | none => exact hk
    | some cj =>
      simp only
      by_cases hl : cj.lost = true
      · simp only [hl, if_true]; exact hk
      · simp only [hl, Bool.false_eq_true, if_false]
        rw [List.getElem?_set_ne hjk]; exact hk
  | lose j =>
    have hjk : j ≠ k := ht
    show (markLost b j).conns[k]? = some c
    unfold markLost
    cases hj : b.conns[j]? with
    | none => exact hk
    | some cj =>
      simp only
      rw [List.getElem?_set_ne hjk]; exact hk

/-- A read for connection `k` is `dataReceived` of the single-connection model on its own state. -/
theorem step_conn_read (b : Bus G W I) (hb : Coherent V b) (k : Nat) (d : Bytes) (c : Conn W I)
    (hk : b.conns[k]? = some c) (hl : c.lost = false) :
    (step S V guid b (.read k d)).conns[k]? = some ⟨recv S c.proto d, false⟩ := by
  have hlt := lt_of_conn b k c hk
  show (deliver S V b k d).conns[k]? = _
  unfold deliver
  rw [hk]
  simp only [hl, Bool.false_eq_true, if_false]
  rw [List.getElem?_set_self hlt, ← hb k c hk, withWorld_self]

theorem step_conn_lose (b : Bus G W I) (k : Nat) (c : Conn W I) (hk : b.conns[k]? = some c) :
    (step S V guid b (.lose k)).conns[k]? = some { c with lost := true } := by
  have hlt := lt_of_conn b k c hk
  show (markLost b k).conns[k]? = _
  unfold markLost
  rw [hk]
  simp only
  rw [List.getElem?_set_self hlt]

/-- No event changes a lost connection. -/
theorem step_conn_lost (b : Bus G W I) (e : Event G) (k : Nat) (c : Conn W I)
    (hk : b.conns[k]? = some c) (hl : c.lost = true) : (step S V guid b e).conns[k]? = some c := by
  by_cases ht : touches k e
  · cases e with
    | connect => exact absurd ht (fun h => h)
    | env f => exact absurd ht (fun h => h)
    | read j d =>
      have hjk : j = k := ht
      subst hjk
      show (deliver S V b j d).conns[j]? = some c
      unfold deliver
      rw [hk]
      simp only [hl, if_true]
      exact hk
    | lose j =>
      have hjk : j = k := ht
      subst hjk
      rw [step_conn_lose S V guid b j c hk]
      cases c with
      | mk p l => simp at hl; rw [hl]
  · exact step_conn_other S V guid b e k c hk ht

theorem envKeeps_tail (e : Event G) (es : List (Event G)) (h : EnvKeeps V (e :: es)) : EnvKeeps V es :=
  fun f hf => h f (List.mem_cons_of_mem _ hf)

theorem envKeeps_head (e : Event G) (es : List (Event G)) (h : EnvKeeps V (e :: es)) :
    ∀ f, e = .env f → ∀ g k, V.get (f g) k = V.get g k :=
  fun f hf => h f (by rw [hf]; exact List.mem_cons_self)

/-- A lost connection never changes again. -/
theorem lost_stays (b : Bus G W I) (evs : List (Event G)) (k : Nat) (c : Conn W I)
    (hk : b.conns[k]? = some c) (hl : c.lost = true) : (run S V guid b evs).conns[k]? = some c := by
  induction evs generalizing b with
  | nil => exact hk
  | cons e es ih => exact ih _ (step_conn_lost S V guid b e k c hk hl)

/-- With a private view, the state of connection `k` after any history of the whole bus is the state the
single-connection model reaches on the reads of `k` alone: nothing another connection does - rejections,
cancelled or half-finished exchanges, closing, crashing - shows on `k`. -/
theorem private_independent (hV : Private V) (b : Bus G W I) (evs : List (Event G)) (hb : Coherent V b)
    (he : EnvKeeps V evs) (k : Nat) (c : Conn W I) (hk : b.conns[k]? = some c) (hl : c.lost = false) :
    ∃ c', (run S V guid b evs).conns[k]? = some c' ∧ c'.proto = runReads S c.proto (readsOf k evs) := by
  induction evs generalizing b c with
  | nil => exact ⟨c, hk, rfl⟩
  | cons e es ih =>
    have hco := step_coherent S V guid hV b e hb (envKeeps_head V e es he)
    have het := envKeeps_tail V e es he
    cases e with
    | connect =>
      exact ih _ hco het c (step_conn_other S V guid b _ k c hk (fun h => h)) hl
    | env f =>
      exact ih _ hco het c (step_conn_other S V guid b _ k c hk (fun h => h)) hl
    | read j d =>
      by_cases hjk : j = k
      · subst hjk
        obtain ⟨c2, g1, g2⟩ := ih _ hco het _ (step_conn_read S V guid b hb j d c hk hl) rfl
        refine ⟨c2, g1, ?_⟩
        rw [g2]
        simp [readsOf, runReads]
      · obtain ⟨c2, g1, g2⟩ := ih _ hco het c (step_conn_other S V guid b _ k c hk hjk) hl
        refine ⟨c2, g1, ?_⟩
        rw [g2]
        simp [readsOf, hjk]
    | lose j =>
      by_cases hjk : j = k
      · subst hjk
        have := lost_stays S V guid _ es j _ (step_conn_lose S V guid b j c hk) rfl
        exact ⟨_, this, by simp [readsOf, runReads]⟩
      · obtain ⟨c2, g1, g2⟩ := ih _ hco het c (step_conn_other S V guid b _ k c hk hjk) hl
        refine ⟨c2, g1, ?_⟩
        rw [g2]
        simp [readsOf, hjk]

/-- The scripted mechanisms of the harness (one outcome script per connection) are a private view. -/
theorem scriptedView_private : Private scriptedView := by
  constructor
  · intro g k w; simp [scriptedView]
  · intro g j k w hjk
    have : k ≠ j := fun h => hjk h.symm
    simp [scriptedView, this]

end Txdbus.AuthServer.Multi
