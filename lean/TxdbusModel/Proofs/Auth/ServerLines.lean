import TxdbusModel.Auth.ServerLines
import TxdbusModel.Proofs.Auth.ServerSplit
/-
Lemmas about the line-mode step `recv` (C06): the loop over an appended list of lines, what the
loop leaves untouched, closed / crashed connections absorb every further read, and the merge lemma
`recv (recv p a) b ~ recv p (a ++ b)` from which independence of the splitting follows.
-/
namespace Txdbus.AuthServer

open Txdbus.Gen.ServerAuth

variable {W I : Type} (S : MechSys W I)

@[simp] theorem setBuf_close (p : Proto W I) (r : Bytes) : (p.setBuf r).close = p.close.setBuf r := rfl
@[simp] theorem setBuf_crash (p : Proto W I) (r : Bytes) : (p.setBuf r).crash = p.crash.setBuf r := rfl
@[simp] theorem setBuf_handled (p : Proto W I) (r l : Bytes) (o : Out W I) :
    (p.setBuf r).handled l o = (p.handled l o).setBuf r := rfl
@[simp] theorem setBuf_closed (p : Proto W I) (r : Bytes) : (p.setBuf r).closed = p.closed := rfl
@[simp] theorem setBuf_srv (p : Proto W I) (r : Bytes) : (p.setBuf r).srv = p.srv := rfl
@[simp] theorem setBuf_buffer (p : Proto W I) (r : Bytes) : (p.setBuf r).buffer = r := rfl
@[simp] theorem setBuf_setBuf (p : Proto W I) (r r' : Bytes) : (p.setBuf r).setBuf r' = p.setBuf r' := rfl
theorem setBuf_self (p : Proto W I) : p.setBuf p.buffer = p := rfl

/-! ## projections of the update helpers -/

@[simp] theorem close_firstByte (p : Proto W I) : p.close.firstByte = p.firstByte := rfl
@[simp] theorem crash_firstByte (p : Proto W I) : p.crash.firstByte = p.firstByte := rfl
@[simp] theorem handled_firstByte (p : Proto W I) (l : Bytes) (o : Out W I) : (p.handled l o).firstByte = p.firstByte := rfl
@[simp] theorem close_buffer (p : Proto W I) : p.close.buffer = p.buffer := rfl
@[simp] theorem crash_buffer (p : Proto W I) : p.crash.buffer = p.buffer := rfl
@[simp] theorem handled_buffer (p : Proto W I) (l : Bytes) (o : Out W I) : (p.handled l o).buffer = p.buffer := rfl
@[simp] theorem close_closed (p : Proto W I) : p.close.closed = true := rfl
@[simp] theorem crash_closed (p : Proto W I) : p.crash.closed = p.closed := rfl
@[simp] theorem handled_closed (p : Proto W I) (l : Bytes) (o : Out W I) : (p.handled l o).closed = p.closed := rfl
@[simp] theorem close_authenticated (p : Proto W I) : p.close.authenticated = p.authenticated := rfl
@[simp] theorem crash_authenticated (p : Proto W I) : p.crash.authenticated = p.authenticated := rfl
@[simp] theorem handled_authenticated (p : Proto W I) (l : Bytes) (o : Out W I) : (p.handled l o).authenticated = p.authenticated := rfl
@[simp] theorem close_crashed (p : Proto W I) : p.close.crashed = p.crashed := rfl
@[simp] theorem crash_crashed (p : Proto W I) : p.crash.crashed = true := rfl
@[simp] theorem handled_crashed (p : Proto W I) (l : Bytes) (o : Out W I) : (p.handled l o).crashed = p.crashed := rfl
@[simp] theorem close_srv (p : Proto W I) : p.close.srv = p.srv := rfl
@[simp] theorem crash_srv (p : Proto W I) : p.crash.srv = p.srv := rfl
@[simp] theorem handled_srv (p : Proto W I) (l : Bytes) (o : Out W I) : (p.handled l o).srv = o.srv := rfl
@[simp] theorem close_guid (p : Proto W I) : p.close.guid = p.guid := rfl
@[simp] theorem crash_guid (p : Proto W I) : p.crash.guid = p.guid := rfl
@[simp] theorem handled_guid (p : Proto W I) (l : Bytes) (o : Out W I) : (p.handled l o).guid = p.guid := rfl
@[simp] theorem close_sent (p : Proto W I) : p.close.sent = p.sent := rfl
@[simp] theorem crash_sent (p : Proto W I) : p.crash.sent = p.sent := rfl
@[simp] theorem handled_sent (p : Proto W I) (l : Bytes) (o : Out W I) : (p.handled l o).sent = p.sent ++ o.sent := rfl
@[simp] theorem close_log (p : Proto W I) : p.close.log = p.log := rfl
@[simp] theorem crash_log (p : Proto W I) : p.crash.log = p.log := rfl
@[simp] theorem handled_log (p : Proto W I) (l : Bytes) (o : Out W I) : (p.handled l o).log = p.log ++ [evOf p.srv l o] := rfl
@[simp] theorem close_binary (p : Proto W I) : p.close.binary = p.binary := rfl
@[simp] theorem crash_binary (p : Proto W I) : p.crash.binary = p.binary := rfl
@[simp] theorem handled_binary (p : Proto W I) (l : Bytes) (o : Out W I) : (p.handled l o).binary = p.binary := rfl

/-! ## the loop -/

theorem lineLoop_buffer (p : Proto W I) (r : Bytes) (ls : List Bytes) :
    lineLoop S (p.setBuf r) ls = ((lineLoop S p ls).1.setBuf r, (lineLoop S p ls).2) := by
  induction ls generalizing p with
  | nil => simp [lineLoop]
  | cons l t ih =>
    simp only [lineLoop, setBuf_closed, setBuf_srv, setBuf_close, setBuf_handled, setBuf_crash]
    by_cases hc : p.closed = true
    · simp [hc]
    · by_cases hl : l.length > maxAuthLength
      · simp [hc, hl]
      · simp only [hc, hl, if_false]
        cases hr : (handle S p.srv l).res with
        | crash => simp
        | failed => simp only []; exact ih _
        | ok =>
          by_cases ha : (handle S p.srv l).srv.authenticated = true
          · simp [ha]
          · simp only [ha, if_false]; exact ih _

/-- The loop over an appended list. -/
theorem lineLoop_append (p : Proto W I) (l1 l2 : List Bytes) :
    lineLoop S p (l1 ++ l2) =
      match lineLoop S p l1 with
      | (p1, .done) => lineLoop S p1 l2
      | (p1, .ret) => (p1, .ret)
      | (p1, .success rest) => (p1, .success (rest ++ l2)) := by
  induction l1 generalizing p with
  | nil => simp [lineLoop]
  | cons l t ih =>
    simp only [List.cons_append, lineLoop]
    by_cases hc : p.closed = true
    · simp [hc]
    · by_cases hl : l.length > maxAuthLength
      · simp [hc, hl]
      · simp only [hc, hl, if_false]
        cases hr : (handle S p.srv l).res with
        | crash => simp
        | failed => simp only []; exact ih _
        | ok =>
          by_cases ha : (handle S p.srv l).srv.authenticated = true
          · simp [ha]
          · simp only [ha, if_false]; exact ih _

/-- What the loop never touches. -/
theorem lineLoop_frame (p : Proto W I) (ls : List Bytes) :
    (lineLoop S p ls).1.firstByte = p.firstByte ∧ (lineLoop S p ls).1.buffer = p.buffer ∧
    (lineLoop S p ls).1.authenticated = p.authenticated ∧ (lineLoop S p ls).1.guid = p.guid ∧
    (lineLoop S p ls).1.binary = p.binary := by
  induction ls generalizing p with
  | nil => simp [lineLoop]
  | cons l t ih =>
    simp only [lineLoop]
    by_cases hc : p.closed = true
    · simp [hc]
    · by_cases hl : l.length > maxAuthLength
      · simp [hc, hl]
      · simp only [hc, hl, if_false]
        cases hr : (handle S p.srv l).res with
        | crash => simp
        | failed =>
          simp only []
          have := ih (p.handled l (handle S p.srv l)).close
          simpa using this
        | ok =>
          by_cases ha : (handle S p.srv l).srv.authenticated = true
          · simp [ha]
          · simp only [ha]
            have := ih (p.handled l (handle S p.srv l))
            simpa using this

/-- How the loop ends. -/
theorem lineLoop_kind (p : Proto W I) (ls : List Bytes) :
    ((lineLoop S p ls).2 = .done → (lineLoop S p ls).1.crashed = p.crashed) ∧
    ((lineLoop S p ls).2 = .ret → (lineLoop S p ls).1.closed = true ∨ (lineLoop S p ls).1.crashed = true) ∧
    (∀ rest, (lineLoop S p ls).2 = .success rest → (lineLoop S p ls).1.crashed = p.crashed) ∧
    (p.closed = true → (lineLoop S p ls).1.closed = true) := by
  induction ls generalizing p with
  | nil => simp [lineLoop]
  | cons l t ih =>
    simp only [lineLoop]
    by_cases hc : p.closed = true
    · simp [hc]
    · by_cases hl : l.length > maxAuthLength
      · simp [hc, hl]
      · simp only [hc, hl, if_false]
        cases hr : (handle S p.srv l).res with
        | crash => simp
        | failed =>
          simp only []
          have := ih (p.handled l (handle S p.srv l)).close
          simp at this
          simp
          exact ⟨this.1, this.2.1, this.2.2.1⟩
        | ok =>
          by_cases ha : (handle S p.srv l).srv.authenticated = true
          · simp [ha]
          · simp only [ha]
            have := ih (p.handled l (handle S p.srv l))
            simp at this
            simp
            exact ⟨this.1, this.2.1, this.2.2.1⟩

/-- A closed connection: the loop does nothing. -/
theorem lineLoop_closed (p : Proto W I) (ls : List Bytes) (hc : p.closed = true) :
    (lineLoop S p ls).1 = p := by
  cases ls with
  | nil => simp [lineLoop]
  | cons l t => simp [lineLoop, hc]

/-! ## observations; dead connections -/

/-- Everything except the two framing variables `_firstByte` and `_buffer`. -/
structure Obs (W I : Type) where
  closed : Bool
  authenticated : Bool
  crashed : Bool
  srv : Server W I
  guid : Option Bytes
  sent : List Bytes
  log : List Ev
  binary : Bytes

def Proto.obs (p : Proto W I) : Obs W I :=
  ⟨p.closed, p.authenticated, p.crashed, p.srv, p.guid, p.sent, p.log, p.binary⟩

/-- Closed or crashed before authentication: nothing is interpreted any more. -/
def Proto.dead (p : Proto W I) : Prop := (p.closed = true ∨ p.crashed = true) ∧ p.authenticated = false

@[simp] theorem setBuf_obs (p : Proto W I) (r : Bytes) : (p.setBuf r).obs = p.obs := rfl
@[simp] theorem setBuf_dead (p : Proto W I) (r : Bytes) : (p.setBuf r).dead ↔ p.dead := Iff.rfl

theorem close_obs_of_closed (p : Proto W I) (h : p.closed = true) : p.close.obs = p.obs := by
  simp [Proto.obs, h]

theorem recvLines_eq (p : Proto W I) (data : Bytes) :
    recvLines S p data =
      match lineLoop S (p.setBuf (splitCRLF (p.buffer ++ data)).2) (splitCRLF (p.buffer ++ data)).1 with
      | (q, .done) => if q.buffer.length > remainderLimit then q.close else q
      | (q, .ret) => q
      | (q, .success rest) => q.handOff (joinCRLF rest (splitCRLF (p.buffer ++ data)).2) := rfl

theorem recvLines_dead (p : Proto W I) (d : Bytes) (hc : p.closed = true) :
    (recvLines S p d).obs = p.obs ∧ (recvLines S p d).closed = true ∧
      (recvLines S p d).authenticated = p.authenticated ∧ (recvLines S p d).firstByte = p.firstByte := by
  rw [recvLines_eq]
  have h1 := lineLoop_closed S (p.setBuf (splitCRLF (p.buffer ++ d)).2) (splitCRLF (p.buffer ++ d)).1 (by simpa using hc)
  cases hk : lineLoop S (p.setBuf (splitCRLF (p.buffer ++ d)).2) (splitCRLF (p.buffer ++ d)).1 with
  | mk q k =>
    rw [hk] at h1
    simp only at h1
    subst h1
    cases k with
    | done =>
      simp only
      split
      · refine ⟨?_, rfl, rfl, rfl⟩
        rw [close_obs_of_closed _ (by simpa using hc)]; rfl
      · exact ⟨rfl, hc, rfl, rfl⟩
    | ret => exact ⟨rfl, hc, rfl, rfl⟩
    | success rest =>
      -- impossible: a closed connection never reports success
      exfalso
      have : (lineLoop S (p.setBuf (splitCRLF (p.buffer ++ d)).2) (splitCRLF (p.buffer ++ d)).1).2 = .success rest := by
        rw [hk]
      cases hl : (splitCRLF (p.buffer ++ d)).1 with
      | nil => rw [hl] at this; simp [lineLoop] at this
      | cons l t => rw [hl] at this; simp [lineLoop, hc] at this

/-! ## `recv` case by case -/

theorem recv_crashed (p : Proto W I) (d : Bytes) (h : p.crashed = true) : recv S p d = p := by
  simp [recv, h]

theorem recv_auth (p : Proto W I) (d : Bytes) (h1 : p.crashed = false) (h2 : p.authenticated = true) :
    recv S p d = { p with binary := p.binary ++ d } := by
  simp [recv, h1, h2]

theorem recv_first_bad (p : Proto W I) (b : UInt8) (d : Bytes) (h1 : p.crashed = false)
    (h2 : p.authenticated = false) (h3 : p.firstByte = true) (hb : b ≠ 0) : recv S p (b :: d) = p.close := by
  simp [recv, h1, h2, h3, hb]

theorem recv_first_nul (p : Proto W I) (d : Bytes) (h1 : p.crashed = false)
    (h2 : p.authenticated = false) (h3 : p.firstByte = true) :
    recv S p (0 :: d) = recvLines S p.dropFirst d := by
  simp [recv, h1, h2, h3]

theorem recv_lines (p : Proto W I) (d : Bytes) (h1 : p.crashed = false)
    (h2 : p.authenticated = false) (h3 : p.firstByte = false) : recv S p d = recvLines S p d := by
  simp [recv, h1, h2, h3]

/-- A dead connection absorbs every non-empty read. -/
theorem recv_dead (p : Proto W I) (d : Bytes) (hd : d ≠ []) (h : p.dead) :
    (recv S p d).dead ∧ (recv S p d).obs = p.obs := by
  obtain ⟨h1, h2⟩ := h
  cases hcr : p.crashed with
  | true => rw [recv_crashed S p d hcr]; exact ⟨⟨h1, h2⟩, rfl⟩
  | false =>
    have hc : p.closed = true := by
      rcases h1 with h | h
      · exact h
      · rw [hcr] at h; cases h
    cases hf : p.firstByte with
    | true =>
      cases d with
      | nil => exact absurd rfl hd
      | cons b d' =>
        by_cases hb : b = 0
        · subst hb
          rw [recv_first_nul S p d' hcr h2 hf]
          have := recvLines_dead S p.dropFirst d' hc
          exact ⟨⟨Or.inl this.2.1, this.2.2.1.trans h2⟩, this.1⟩
        · rw [recv_first_bad S p b d' hcr h2 hf hb]
          exact ⟨⟨Or.inl rfl, h2⟩, close_obs_of_closed _ hc⟩
    | false =>
      rw [recv_lines S p d hcr h2 hf]
      have := recvLines_dead S p d hc
      exact ⟨⟨Or.inl this.2.1, this.2.2.1.trans h2⟩, this.1⟩

/-- Equal, or both dead with equal observations. -/
def Sim (p q : Proto W I) : Prop := p = q ∨ (p.dead ∧ q.dead ∧ p.obs = q.obs)

theorem Sim.refl (p : Proto W I) : Sim p p := Or.inl rfl

theorem Sim.trans {p q r : Proto W I} (h1 : Sim p q) (h2 : Sim q r) : Sim p r := by
  rcases h1 with rfl | ⟨a, b, c⟩
  · exact h2
  · rcases h2 with rfl | ⟨a', b', c'⟩
    · exact Or.inr ⟨a, b, c⟩
    · exact Or.inr ⟨a, b', c.trans c'⟩

theorem Sim.obs {p q : Proto W I} (h : Sim p q) : p.obs = q.obs := by
  rcases h with rfl | ⟨_, _, c⟩
  · rfl
  · exact c

/-! ## the merge lemma -/

theorem close_eq_self (p : Proto W I) (h : p.closed = true) : p.close = p := by
  cases p; simp_all [Proto.close]

/-- The remainder limit is one more than the line limit (repair 839b5f3): a remainder may hold a
maximum-length line plus the first byte of its delimiter. -/
theorem remainderLimit_eq : remainderLimit = maxAuthLength + 1 := by decide

theorem lineLoop_setBuf_fst (p : Proto W I) (r : Bytes) (ls : List Bytes) :
    (lineLoop S (p.setBuf r) ls).1 = (lineLoop S p ls).1.setBuf r := by rw [lineLoop_buffer]
theorem lineLoop_setBuf_snd (p : Proto W I) (r : Bytes) (ls : List Bytes) :
    (lineLoop S (p.setBuf r) ls).2 = (lineLoop S p ls).2 := by rw [lineLoop_buffer]

/-- Two consecutive reads of the line branch against the one concatenated read. -/
theorem merge_lines (p : Proto W I) (a b : Bytes) (hb : b ≠ []) (h1 : p.crashed = false)
    (h2 : p.authenticated = false) (h3 : p.firstByte = false) :
    Sim (recv S (recvLines S p a) b) (recvLines S p (a ++ b)) := by
  -- the split of the concatenation
  have hsplit : splitCRLF (p.buffer ++ (a ++ b)) =
      ((splitCRLF (p.buffer ++ a)).1 ++ (splitCRLF ((splitCRLF (p.buffer ++ a)).2 ++ b)).1,
       (splitCRLF ((splitCRLF (p.buffer ++ a)).2 ++ b)).2) := by
    rw [← List.append_assoc, splitCRLF_append]
  generalize hl1 : (splitCRLF (p.buffer ++ a)).1 = l1 at hsplit
  generalize hr1 : (splitCRLF (p.buffer ++ a)).2 = r1 at hsplit
  have hr1n : (splitCRLF r1).1 = [] := by rw [← hr1]; exact splitCRLF_rem_nolines _
  generalize hl2 : (splitCRLF (r1 ++ b)).1 = l2 at hsplit
  generalize hr2 : (splitCRLF (r1 ++ b)).2 = r2 at hsplit
  have hjoin : joinCRLF l2 r2 = r1 ++ b := by rw [← hl2, ← hr2]; exact joinCRLF_split _
  rw [recvLines_eq S p (a ++ b), hsplit]
  simp only
  rw [recvLines_eq S p a, hl1, hr1]
  rw [lineLoop_append, lineLoop_buffer S p r2 l1, lineLoop_buffer S p r1 l1]
  have hfr := lineLoop_frame S p l1
  have hkd := lineLoop_kind S p l1
  cases hq : lineLoop S p l1 with
  | mk q k =>
  rw [hq] at hfr hkd
  simp only at hfr hkd ⊢
  obtain ⟨hf1, hf2, hf3, hf4, hf5⟩ := hfr
  obtain ⟨hk1, hk2, hk3, hk4⟩ := hkd
  cases k with
  | done =>
    simp only
    have hqc : q.crashed = false := (hk1 rfl).trans h1
    have hqa : q.authenticated = false := hf3.trans h2
    have hqf : q.firstByte = false := hf1.trans h3
    by_cases hlong : r1.length > remainderLimit
    · simp only [setBuf_buffer, hlong, if_true]
      rw [recv_lines S (q.setBuf r1).close b hqc hqa hqf]
      rw [recvLines_eq]
      simp only [setBuf_buffer, hl2, hr2, setBuf_close, setBuf_setBuf]
      have hcl := lineLoop_closed S (q.close.setBuf r2) l2 (by simp)
      cases l2 with
      | nil =>
        simp only [lineLoop]
        have : r2 = r1 ++ b := by
          have := splitCRLF_rem_of_nil (r1 ++ b) hl2
          rw [hr2] at this; exact this
        have hlong2 : r2.length > remainderLimit := by rw [this]; simp; omega
        simp only [setBuf_buffer, hlong2, if_true]
        exact Or.inl rfl
      | cons l t =>
        have hl : l.length > maxAuthLength := by
          have := first_line_long r1 b hr1n l t hl2
          rw [remainderLimit_eq] at hlong
          omega
        simp only [lineLoop, setBuf_closed, close_closed, if_true]
        by_cases hqcl : q.closed = true
        · simp only [hqcl, if_true]
          rw [close_eq_self q hqcl]
          exact Or.inl rfl
        · simp only [hqcl, hl, if_true]
          exact Or.inl rfl
    · simp only [setBuf_buffer, hlong, if_false]
      rw [recv_lines S (q.setBuf r1) b hqc hqa hqf]
      rw [recvLines_eq]
      simp only [setBuf_buffer, hl2, hr2, setBuf_setBuf]
      exact Or.inl rfl
  | ret =>
    simp only
    have hdead : (q.setBuf r1).dead := ⟨hk2 rfl, hf3.trans h2⟩
    have := recv_dead S (q.setBuf r1) b hb hdead
    exact Or.inr ⟨this.1, ⟨hk2 rfl, hf3.trans h2⟩, this.2⟩
  | success rest =>
    simp only
    have hqc : q.crashed = false := (hk3 rest rfl).trans h1
    rw [recv_auth S ((q.setBuf r1).handOff (joinCRLF rest r1)) b hqc rfl]
    left
    simp only [Proto.handOff, Proto.setBuf, joinCRLF_append, hjoin, joinCRLF_last_append, List.append_assoc]

/-- Two consecutive non-empty reads against the one concatenated read. -/
theorem recv_merge (p : Proto W I) (a b : Bytes) (ha : a ≠ []) (hb : b ≠ []) :
    Sim (recv S (recv S p a) b) (recv S p (a ++ b)) := by
  cases h1 : p.crashed with
  | true => rw [recv_crashed S p a h1, recv_crashed S p b h1, recv_crashed S p (a ++ b) h1]; exact Sim.refl _
  | false =>
    cases h2 : p.authenticated with
    | true =>
      rw [recv_auth S p a h1 h2, recv_auth S p (a ++ b) h1 h2,
        recv_auth S { p with binary := p.binary ++ a } b h1 h2]
      left; simp
    | false =>
      cases h3 : p.firstByte with
      | true =>
        cases a with
        | nil => exact absurd rfl ha
        | cons x a' =>
          by_cases hx : x = 0
          · subst hx
            rw [List.cons_append, recv_first_nul S p a' h1 h2 h3, recv_first_nul S p (a' ++ b) h1 h2 h3]
            exact merge_lines S p.dropFirst a' b hb h1 h2 rfl
          · rw [List.cons_append, recv_first_bad S p x a' h1 h2 h3 hx, recv_first_bad S p x (a' ++ b) h1 h2 h3 hx]
            have hd : p.close.dead := ⟨Or.inl rfl, h2⟩
            have := recv_dead S p.close b hb hd
            exact Or.inr ⟨this.1, hd, this.2⟩
      | false =>
        rw [recv_lines S p a h1 h2 h3, recv_lines S p (a ++ b) h1 h2 h3]
        exact merge_lines S p a b hb h1 h2 h3

/-- Any splitting into non-empty reads against the single read of the whole stream. -/
theorem runReads_sim_whole (p : Proto W I) (reads : List Bytes) (hne : reads ≠ [])
    (hall : ∀ r ∈ reads, r ≠ []) : Sim (runReads S p reads) (recv S p reads.flatten) := by
  induction reads generalizing p with
  | nil => exact absurd rfl hne
  | cons a t ih =>
    cases t with
    | nil => simp [runReads]; exact Sim.refl _
    | cons b t' =>
      have ha : a ≠ [] := hall a (by simp)
      have hrest : ∀ r ∈ b :: t', r ≠ [] := fun r hr => hall r (by simp [hr])
      have hflat : (b :: t').flatten ≠ [] := by
        have := hall b (by simp)
        simp [this]
      have h1 := ih (recv S p a) (by simp) hrest
      have h2 := recv_merge S p a (b :: t').flatten ha hflat
      have : runReads S p (a :: b :: t') = runReads S (recv S p a) (b :: t') := rfl
      rw [this]
      have hf : (a :: b :: t').flatten = a ++ (b :: t').flatten := by simp
      rw [hf]
      exact Sim.trans h1 h2

end Txdbus.AuthServer
