import TxdbusModel.Auth.Mechs
import TxdbusModel.Auth.ServerLines
import TxdbusModel.Proofs.Auth.ServerHex
/-
The real mechanisms (C06): the cookie mechanism accepts only on its second step and only the right
hash; what the conforming conversations need from the three mechanisms.
-/
namespace Txdbus.AuthServer

open Txdbus.Gen.ServerAuth

theorem cookieStepOne_not_accept (w : RealWorld) (c : CookieSt) (u : Bytes) :
    (cookieStepOne w c u).2.2 ≠ .accept := by
  unfold cookieStepOne
  cases resolveUser w.cfg u with
  | none => simp
  | some uname =>
    simp only
    cases getpwnam w.cfg uname with
    | none => simp
    | some e =>
      simp only
      cases lookupDir w e.home <;> simp [cookieChallenge]

/-- DBUS_COOKIE_SHA1 accepts only on its second step, and only a response `<cc> <hash>` whose hash is
`hexlify(sha1(server_challenge:cc:cookie))`. -/
theorem cookieStep_accept (w : RealWorld) (c : CookieSt) (arg : Option Bytes)
    (h : (cookieStep w c arg).2.2 = .accept) :
    c.stepNum = 1 ∧ ∃ a cc hh, arg = some a ∧ splitWs a = [cc, hh] ∧
      hh = cookieHash w.cfg.sha1 c.challenge cc c.cookie := by
  unfold cookieStep at h
  cases arg with
  | none => simp at h
  | some a =>
    simp only at h
    by_cases h0 : c.stepNum = 0
    · simp only [h0, if_true] at h
      exact absurd h (cookieStepOne_not_accept _ _ _)
    · simp only [h0, if_false] at h
      by_cases h1 : c.stepNum = 1
      · simp only [h1, if_true] at h
        refine ⟨h1, a, ?_⟩
        unfold cookieStepTwo at h
        split at h
        · simp at h
        · split at h
          · rename_i cc hh hsp
            split at h
            · rename_i heq
              exact ⟨cc, hh, rfl, hsp, heq.symm⟩
            · simp at h
          · simp at h
      · simp [h1] at h

/-! ## the cookie mechanism on a conforming exchange -/

theorem lookupFile_setFile (w : RealWorld) (h : Bytes) (f : Option (List CookieEnt)) :
    lookupFile (setFile w h f) h = f := by
  unfold lookupFile setFile
  cases f with
  | none =>
    simp only
    have : (w.files.filter (fun p => p.1 ≠ h)).find? (fun p => p.1 = h) = none := by
      rw [List.find?_eq_none]; intro x hx; simp at hx; simp [hx.2]
    simp [this]
  | some c => simp

theorem deleteCookie_isSome (w : RealWorld) (home : Bytes) (id : Option Nat)
    (h : (lookupFile w home).isSome = true) : (deleteCookie w home id).isSome = true := by
  unfold deleteCookie
  cases hl : lookupFile w home with
  | none => rw [hl] at h; cases h
  | some v =>
    simp only
    split <;> (split <;> rfl)

theorem cookieChallenge_spec (w : RealWorld) (c : CookieSt) (home : Bytes) :
    ∃ w1 cid cookie chal,
      cookieChallenge w c home =
        (w1, { c with cookieId := some cid, cookie := cookie, challenge := chal },
         .challenge (w.cfg.ctx ++ 32 :: natToDec cid ++ 32 :: chal)) ∧
      w1.cfg = w.cfg ∧ lookupFile w1 home = some (getCookies w home ++ [⟨cid, w.cfg.now, cookie⟩]) :=
  ⟨_, _, _, _, rfl, rfl, by
    show lookupFile (urandom (createCookie w home).1 8).1 home = _
    unfold createCookie urandom
    exact lookupFile_setFile _ _ _⟩

/-- First step of DBUS_COOKIE_SHA1 for a user name with a passwd entry and a usable (or absent) keyring
directory: a challenge, and the session's cookie is in the file. -/
theorem cookie_step_one_ok (w : RealWorld) (c : CookieSt) (arg user : Bytes) (e : PwEnt)
    (h0 : c.stepNum = 0) (hp : resolveUser w.cfg arg = some user) (hn : getpwnam w.cfg user = some e)
    (hd : lookupDir w e.home ≠ .bad) :
    ∃ w1 c1 cid,
      cookieStep w c (some arg) =
        (w1, c1, .challenge (w.cfg.ctx ++ 32 :: natToDec cid ++ 32 :: c1.challenge)) ∧
      c1.stepNum = 1 ∧ c1.username = some user ∧ c1.home = e.home ∧ c1.cookieId = some cid ∧ w1.cfg = w.cfg ∧
      (∃ old, lookupFile w1 e.home = some (old ++ [⟨cid, w.cfg.now, c1.cookie⟩])) := by
  unfold cookieStep
  simp only [h0, if_true]
  unfold cookieStepOne
  simp only [hp, hn]
  cases hdir : lookupDir w e.home with
  | bad => exact absurd hdir hd
  | absent =>
    simp only
    obtain ⟨w1, cid, cookie, chal, h1, h2, h3⟩ :=
      cookieChallenge_spec (setDir w e.home .good) { c with stepNum := 0 + 1, username := some user, home := e.home } e.home
    rw [h1]
    exact ⟨w1, _, cid, rfl, rfl, rfl, rfl, rfl, h2, _, h3⟩
  | good =>
    simp only
    obtain ⟨w1, cid, cookie, chal, h1, h2, h3⟩ :=
      cookieChallenge_spec w { c with stepNum := 0 + 1, username := some user, home := e.home } e.home
    rw [h1]
    exact ⟨w1, _, cid, rfl, rfl, rfl, rfl, rfl, h2, _, h3⟩

/-- Second step: the response `<cc> <hexlify(sha1(challenge:cc:cookie))>` is accepted. -/
theorem cookie_step_two_ok (w : RealWorld) (c : CookieSt) (cc : Bytes) (h1 : c.stepNum = 1)
    (hfile : (lookupFile w c.home).isSome = true) (hcc : cc ≠ []) (hncc : NoSpace cc)
    (hsha : ∀ x, w.cfg.sha1 x ≠ []) :
    (cookieStep w c (some (cc ++ 32 :: cookieHash w.cfg.sha1 c.challenge cc c.cookie))).2.2 = .accept ∧
    (cookieStep w c (some (cc ++ 32 :: cookieHash w.cfg.sha1 c.challenge cc c.cookie))).2.1.username = c.username := by
  unfold cookieStep
  simp only [h1, show ¬ (1 = 0) by decide, if_false, if_true]
  unfold cookieStepTwo
  have hdel := deleteCookie_isSome w c.home c.cookieId hfile
  cases hd : deleteCookie w c.home c.cookieId with
  | none => rw [hd] at hdel; cases hdel
  | some w1 =>
    simp only
    have hsplit : splitWs (cc ++ 32 :: cookieHash w.cfg.sha1 c.challenge cc c.cookie) =
        [cc, cookieHash w.cfg.sha1 c.challenge cc c.cookie] :=
      splitWs_two _ _ hcc (hexlify_ne_nil _ (hsha _)) hncc (noSpace_hexlify _)
    rw [hsplit]
    simp

/-! ## conforming conversations, line level -/

theorem real_offers_anonymous : lit "ANONYMOUS" ∈ real.offered := by decide
theorem real_offers_external : lit "EXTERNAL" ∈ real.offered := by decide
theorem real_offers_cookie : lit "DBUS_COOKIE_SHA1" ∈ real.offered := by decide

theorem real_start_anonymous (w : RealWorld) : real.start w (lit "ANONYMOUS") = (w, .anon) := by
  have : kindOf (lit "ANONYMOUS") = some .anonymous := by decide
  simp [real, this]
theorem real_start_external (w : RealWorld) : real.start w (lit "EXTERNAL") = (w, .ext false w.cfg.creds) := by
  have : kindOf (lit "EXTERNAL") = some .external := by decide
  simp [real, this]
theorem real_start_cookie (w : RealWorld) : real.start w (lit "DBUS_COOKIE_SHA1") = (w, .cookie CookieSt.init) := by
  have : kindOf (lit "DBUS_COOKIE_SHA1") = some .cookie := by decide
  simp [real, this]
theorem real_step_anon (w : RealWorld) (arg) : real.step w .anon arg = (w, .anon, .accept) := rfl
theorem real_step_ext0 (w : RealWorld) (uid : Int) (e : PwEnt) (arg) (h : getpwuidI w.cfg uid = some e) :
    real.step w (.ext false (some uid)) arg = (w, .ext true (some uid), .challenge []) := by
  simp [real, h]
theorem real_step_ext1 (w : RealWorld) (uid : Int) (e : PwEnt) (arg) (h : getpwuidI w.cfg uid = some e) :
    real.step w (.ext true (some uid)) arg = (w, .ext true (some uid), .accept) := by
  simp [real, h]
theorem real_step_cookie (w : RealWorld) (c : CookieSt) (arg) :
    real.step w (.cookie c) arg = ((cookieStep w c arg).1, .cookie (cookieStep w c arg).2.1, (cookieStep w c arg).2.2) := rfl
theorem real_user_anon (w : RealWorld) : real.userName w .anon = some anonymousUser := rfl
theorem real_user_ext (w : RealWorld) (ok : Bool) (uid : Int) :
    real.userName w (.ext ok (some uid)) = (getpwuidI w.cfg uid).map (·.name) := rfl
theorem real_user_cookie (w : RealWorld) (c : CookieSt) : real.userName w (.cookie c) = c.username := rfl

/-- ANONYMOUS: `AUTH ANONYMOUS` is answered OK, `BEGIN` then authenticates. -/
theorem anonymous_lines (s : Server RealWorld Inst) (hs : s.state = .waitingForAuth) :
    (handle real s (lit "AUTH ANONYMOUS")).res = .ok ∧
    (handle real s (lit "AUTH ANONYMOUS")).sent = [wOk ++ s.serverGuid] ∧
    (handle real s (lit "AUTH ANONYMOUS")).srv.authenticated = s.authenticated ∧
    (handle real (handle real s (lit "AUTH ANONYMOUS")).srv (lit "BEGIN")).res = .ok ∧
    (handle real (handle real s (lit "AUTH ANONYMOUS")).srv (lit "BEGIN")).srv.authenticated = true ∧
    (handle real (handle real s (lit "AUTH ANONYMOUS")).srv (lit "BEGIN")).srv.guid = some anonymousUser := by
  have e1 : splitCmd (lit "AUTH ANONYMOUS") = (lit "AUTH", lit "ANONYMOUS") := by decide
  have e2 : utf8Valid (lit "AUTH") = true := by decide
  have e3 : parseCmd (lit "AUTH") = .auth := by decide
  have e4 : splitWs (lit "ANONYMOUS") = [lit "ANONYMOUS"] := by decide
  have f1 : splitCmd (lit "BEGIN") = (lit "BEGIN", []) := by decide
  have f2 : utf8Valid (lit "BEGIN") = true := by decide
  have f3 : parseCmd (lit "BEGIN") = .begin := by decide
  have h1 : handle real s (lit "AUTH ANONYMOUS") =
      ⟨{ s with cur := some (lit "ANONYMOUS", .anon), state := .waitingForBegin }, [wOk ++ s.serverGuid], .ok,
        some (lit "ANONYMOUS", .accept), false⟩ := by
    simp [handle, e1, e2, e3, authAUTH, hs, e4, real_offers_anonymous, stepAuth, decodeResponse,
      real_start_anonymous, real_step_anon]
  rw [h1]
  simp [handle, f1, f2, f3, authBEGIN, real_user_anon]

/-- EXTERNAL with peer credentials: `AUTH EXTERNAL` -> `DATA`, `DATA` -> `OK`, `BEGIN` authenticates as
the passwd name of the peer uid. -/
theorem external_lines (s : Server RealWorld Inst) (uid : Int) (e : PwEnt) (hs : s.state = .waitingForAuth)
    (hc : s.world.cfg.creds = some uid) (hu : getpwuidI s.world.cfg uid = some e) :
    let o1 := handle real s (lit "AUTH EXTERNAL")
    let o2 := handle real o1.srv (lit "DATA")
    let o3 := handle real o2.srv (lit "BEGIN")
    o1.res = .ok ∧ o1.sent = [wData] ∧ o2.res = .ok ∧ o2.sent = [wOk ++ s.serverGuid] ∧
    o1.srv.authenticated = s.authenticated ∧ o2.srv.authenticated = s.authenticated ∧
    o3.res = .ok ∧ o3.srv.authenticated = true ∧ o3.srv.guid = some e.name := by
  have e1 : splitCmd (lit "AUTH EXTERNAL") = (lit "AUTH", lit "EXTERNAL") := by decide
  have e2 : utf8Valid (lit "AUTH") = true := by decide
  have e3 : parseCmd (lit "AUTH") = .auth := by decide
  have e4 : splitWs (lit "EXTERNAL") = [lit "EXTERNAL"] := by decide
  have d1 : splitCmd (lit "DATA") = (lit "DATA", []) := by decide
  have d2 : utf8Valid (lit "DATA") = true := by decide
  have d3 : parseCmd (lit "DATA") = .data := by decide
  have f1 : splitCmd (lit "BEGIN") = (lit "BEGIN", []) := by decide
  have f2 : utf8Valid (lit "BEGIN") = true := by decide
  have f3 : parseCmd (lit "BEGIN") = .begin := by decide
  have h1 : handle real s (lit "AUTH EXTERNAL") =
      ⟨{ s with cur := some (lit "EXTERNAL", .ext true (some uid)), state := .waitingForData }, [wData], .ok,
        some (lit "EXTERNAL", .challenge []), false⟩ := by
    simp [handle, e1, e2, e3, authAUTH, hs, e4, real_offers_external, stepAuth, decodeResponse,
      real_start_external, hc, real_step_ext0 _ _ e _ hu, hexlify]
  simp only
  rw [h1]
  have h2 : handle real { s with cur := some (lit "EXTERNAL", .ext true (some uid)), state := .waitingForData }
      (lit "DATA") =
      ⟨{ s with cur := some (lit "EXTERNAL", .ext true (some uid)), state := .waitingForBegin },
        [wOk ++ s.serverGuid], .ok, some (lit "EXTERNAL", .accept), false⟩ := by
    simp [handle, d1, d2, d3, authDATA, stepAuth, decodeResponse, real_step_ext1 _ _ e _ hu]
  rw [h2]
  simp [handle, f1, f2, f3, authBEGIN, real_user_ext, hu]

theorem decodeResponse_hexlify (x : Bytes) (hx : x ≠ []) (ha : isAscii x = true) :
    decodeResponse (some (hexlify x)) = some (some x) := by
  have hne := hexlify_ne_nil x hx
  unfold decodeResponse
  cases hh : hexlify x with
  | nil => exact absurd hh hne
  | cons b t =>
    simp only
    rw [← hh, strip_noSpace _ (noSpace_hexlify x), unhexlify_hexlify]
    simp [ha]

/-- The first line of a DBUS_COOKIE_SHA1 client. -/
def cookieAuthLine (user : Bytes) : Bytes := lit "AUTH DBUS_COOKIE_SHA1 " ++ hexlify user

/-- Its answer to the challenge: `DATA hex(<cc> <hexlify(sha1(challenge:cc:cookie))>)`. -/
def cookieDataLine (sha1 : Bytes → Bytes) (chal cc cookie : Bytes) : Bytes :=
  lit "DATA " ++ hexlify (cc ++ 32 :: cookieHash sha1 chal cc cookie)

/-- DBUS_COOKIE_SHA1 with the right cookie: challenge, OK, BEGIN authenticates as the named user. -/
theorem cookie_lines (s : Server RealWorld Inst) (arg user cc : Bytes) (e : PwEnt)
    (hs : s.state = .waitingForAuth)
    (hu0 : arg ≠ []) (hua : isAscii arg = true) (hup : resolveUser s.world.cfg arg = some user)
    (hun : getpwnam s.world.cfg user = some e) (hud : lookupDir s.world e.home ≠ .bad)
    (hcc : cc ≠ []) (hncc : NoSpace cc) (hcca : isAscii cc = true)
    (hsha : ∀ x, s.world.cfg.sha1 x ≠ []) :
    ∃ (c1 : CookieSt) (cid : Nat),
      (handle real s (cookieAuthLine arg)).res = .ok ∧
      (handle real s (cookieAuthLine arg)).srv.authenticated = s.authenticated ∧
      (handle real s (cookieAuthLine arg)).sent =
        [wData ++ hexlify (s.world.cfg.ctx ++ 32 :: natToDec cid ++ 32 :: c1.challenge)] ∧
      (∃ old, lookupFile (handle real s (cookieAuthLine arg)).srv.world e.home =
        some (old ++ [⟨cid, s.world.cfg.now, c1.cookie⟩])) ∧
      (handle real (handle real s (cookieAuthLine arg)).srv
        (cookieDataLine s.world.cfg.sha1 c1.challenge cc c1.cookie)).res = .ok ∧
      (handle real (handle real s (cookieAuthLine arg)).srv
        (cookieDataLine s.world.cfg.sha1 c1.challenge cc c1.cookie)).sent = [wOk ++ s.serverGuid] ∧
      (handle real (handle real s (cookieAuthLine arg)).srv
        (cookieDataLine s.world.cfg.sha1 c1.challenge cc c1.cookie)).srv.authenticated = s.authenticated ∧
      (handle real (handle real (handle real s (cookieAuthLine arg)).srv
        (cookieDataLine s.world.cfg.sha1 c1.challenge cc c1.cookie)).srv (lit "BEGIN")).res = .ok ∧
      (handle real (handle real (handle real s (cookieAuthLine arg)).srv
        (cookieDataLine s.world.cfg.sha1 c1.challenge cc c1.cookie)).srv (lit "BEGIN")).srv.authenticated = true ∧
      (handle real (handle real (handle real s (cookieAuthLine arg)).srv
        (cookieDataLine s.world.cfg.sha1 c1.challenge cc c1.cookie)).srv (lit "BEGIN")).srv.guid = some user := by
  -- line 1
  have a1 : cookieAuthLine arg = lit "AUTH" ++ 32 :: (lit "DBUS_COOKIE_SHA1" ++ 32 :: hexlify arg) := rfl
  have a2 : splitCmd (cookieAuthLine arg) = (lit "AUTH", lit "DBUS_COOKIE_SHA1" ++ 32 :: hexlify arg) := by
    rw [a1]; exact splitCmd_noSpace _ _ (by decide)
  have a3 : utf8Valid (lit "AUTH") = true := by decide
  have a4 : parseCmd (lit "AUTH") = .auth := by decide
  have a5 : splitWs (lit "DBUS_COOKIE_SHA1" ++ 32 :: hexlify arg) = [lit "DBUS_COOKIE_SHA1", hexlify arg] :=
    splitWs_two _ _ (by decide) (hexlify_ne_nil _ hu0) (by unfold NoSpace; decide) (noSpace_hexlify _)
  obtain ⟨w1, c1, cid, k1, k2, k3, k4, k5, k6, k7⟩ :=
    cookie_step_one_ok s.world CookieSt.init arg user e rfl hup hun hud
  have h1 : handle real s (cookieAuthLine arg) =
      ⟨{ s with world := w1, cur := some (lit "DBUS_COOKIE_SHA1", .cookie c1), state := .waitingForData },
        [wData ++ hexlify (s.world.cfg.ctx ++ 32 :: natToDec cid ++ 32 :: c1.challenge)], .ok,
        some (lit "DBUS_COOKIE_SHA1", .challenge (s.world.cfg.ctx ++ 32 :: natToDec cid ++ 32 :: c1.challenge)),
        false⟩ := by
    simp [handle, a2, a3, a4, authAUTH, hs, a5, real_offers_cookie, stepAuth, decodeResponse_hexlify arg hu0 hua,
      real_start_cookie, real_step_cookie, k1]
  refine ⟨c1, cid, ?_⟩
  rw [h1]
  refine ⟨rfl, rfl, rfl, ?_, ?_⟩
  · exact k7
  -- line 2
  have b1 : cookieDataLine s.world.cfg.sha1 c1.challenge cc c1.cookie =
      lit "DATA" ++ 32 :: hexlify (cc ++ 32 :: cookieHash s.world.cfg.sha1 c1.challenge cc c1.cookie) := rfl
  have b2 : splitCmd (cookieDataLine s.world.cfg.sha1 c1.challenge cc c1.cookie) =
      (lit "DATA", hexlify (cc ++ 32 :: cookieHash s.world.cfg.sha1 c1.challenge cc c1.cookie)) := by
    rw [b1]; exact splitCmd_noSpace _ _ (by decide)
  have b3 : utf8Valid (lit "DATA") = true := by decide
  have b4 : parseCmd (lit "DATA") = .data := by decide
  have b5 : decodeResponse (some (hexlify (cc ++ 32 :: cookieHash s.world.cfg.sha1 c1.challenge cc c1.cookie))) =
      some (some (cc ++ 32 :: cookieHash s.world.cfg.sha1 c1.challenge cc c1.cookie)) := by
    apply decodeResponse_hexlify
    · simp
    · have : isAscii (cookieHash s.world.cfg.sha1 c1.challenge cc c1.cookie) = true := isAscii_hexlify _
      rw [isAscii_append, hcca]
      simp only [Bool.true_and]
      unfold isAscii at this ⊢
      simp [this]
  have hfile : (lookupFile w1 c1.home).isSome = true := by
    obtain ⟨old, ho⟩ := k7
    rw [k4, ho]; rfl
  have hsha1 : ∀ x, w1.cfg.sha1 x ≠ [] := by rw [k6]; exact hsha
  obtain ⟨m1, m2⟩ := cookie_step_two_ok w1 c1 cc k2 hfile hcc hncc hsha1
  rw [k6] at m1 m2
  generalize hstep2 : cookieStep w1 c1 (some (cc ++ 32 :: cookieHash s.world.cfg.sha1 c1.challenge cc c1.cookie)) = r2
    at m1 m2
  obtain ⟨w2, c2, o2⟩ := r2
  simp only at m1 m2
  subst m1
  have h2 : handle real
      { s with world := w1, cur := some (lit "DBUS_COOKIE_SHA1", .cookie c1), state := .waitingForData }
      (cookieDataLine s.world.cfg.sha1 c1.challenge cc c1.cookie) =
      ⟨{ s with world := w2, cur := some (lit "DBUS_COOKIE_SHA1", .cookie c2), state := .waitingForBegin },
        [wOk ++ s.serverGuid], .ok, some (lit "DBUS_COOKIE_SHA1", .accept), false⟩ := by
    simp [handle, b2, b3, b4, authDATA, stepAuth, b5, real_step_cookie, hstep2]
  rw [h2]
  refine ⟨rfl, rfl, rfl, ?_⟩
  have f1 : splitCmd (lit "BEGIN") = (lit "BEGIN", []) := by decide
  have f2 : utf8Valid (lit "BEGIN") = true := by decide
  have f3 : parseCmd (lit "BEGIN") = .begin := by decide
  simp [handle, f1, f2, f3, authBEGIN, real_user_cookie, m2, k3]

/-! ## the line forms real clients use -/

/-- `AUTH <mech>` or `AUTH <mech> <hex of an initial response>`. -/
def authLineOf (mech : Bytes) : Option Bytes → Bytes
  | none => lit "AUTH " ++ mech
  | some t => lit "AUTH " ++ (mech ++ 32 :: hexlify t)

/-- An initial response a client may send: absent, or non-empty ASCII text (hex-encoded on the wire). -/
def GoodResp : Option Bytes → Prop
  | none => True
  | some t => t ≠ [] ∧ isAscii t = true

section
variable {W I : Type} (S : MechSys W I)

/-- `AUTH <offered mech> [<hex>]` in WaitingForAuth starts the mechanism and steps it with the decoded
response. -/
theorem handle_authLine (s : Server W I) (mech : Bytes) (resp : Option Bytes)
    (hs : s.state = .waitingForAuth) (hm0 : mech ≠ []) (hmn : NoSpace mech) (hoff : mech ∈ S.offered)
    (hr : GoodResp resp) :
    ∃ r', decodeResponse r' = some resp ∧
      handle S s (authLineOf mech resp) =
        stepAuth S { s with world := (S.start s.world mech).1, cur := some (mech, (S.start s.world mech).2) } r' := by
  have a3 : utf8Valid (lit "AUTH") = true := by decide
  have a4 : parseCmd (lit "AUTH") = .auth := by decide
  cases resp with
  | none =>
    refine ⟨none, rfl, ?_⟩
    have a1 : authLineOf mech none = lit "AUTH" ++ 32 :: mech := rfl
    have a2 : splitCmd (authLineOf mech none) = (lit "AUTH", mech) := by
      rw [a1]; exact splitCmd_noSpace _ _ (by decide)
    simp [handle, a2, a3, a4, authAUTH, hs, splitWs_one mech hm0 hmn, hoff]
  | some t =>
    refine ⟨some (hexlify t), decodeResponse_hexlify t hr.1 hr.2, ?_⟩
    have a1 : authLineOf mech (some t) = lit "AUTH" ++ 32 :: (mech ++ 32 :: hexlify t) := rfl
    have a2 : splitCmd (authLineOf mech (some t)) = (lit "AUTH", mech ++ 32 :: hexlify t) := by
      rw [a1]; exact splitCmd_noSpace _ _ (by decide)
    have a5 := splitWs_two mech (hexlify t) hm0 (hexlify_ne_nil _ hr.1) hmn (noSpace_hexlify _)
    simp [handle, a2, a3, a4, authAUTH, hs, a5, hoff]

/-- NEGOTIATE_UNIX_FD (this bus passes no descriptors): ERROR, nothing changes. -/
theorem handle_negotiate (s : Server W I) :
    handle S s (lit "NEGOTIATE_UNIX_FD") = sendError s [] := by
  have f1 : splitCmd (lit "NEGOTIATE_UNIX_FD") = (lit "NEGOTIATE_UNIX_FD", []) :=
    splitCmd_noSpace_all _ (by decide)
  have f2 : utf8Valid (lit "NEGOTIATE_UNIX_FD") = true := utf8Valid_ascii _ (by decide)
  have f3 : parseCmd (lit "NEGOTIATE_UNIX_FD") = .negotiate := by decide
  simp [handle, f1, f2, f3]

end

/-- ANONYMOUS with or without an initial response (txdbus's own client sends a trace string). -/
theorem anonymous_lines_gen (s : Server RealWorld Inst) (resp : Option Bytes) (hs : s.state = .waitingForAuth)
    (hr : GoodResp resp) :
    (handle real s (authLineOf (lit "ANONYMOUS") resp)).res = .ok ∧
    (handle real s (authLineOf (lit "ANONYMOUS") resp)).sent = [wOk ++ s.serverGuid] ∧
    (handle real s (authLineOf (lit "ANONYMOUS") resp)).srv =
      { s with cur := some (lit "ANONYMOUS", .anon), state := .waitingForBegin } := by
  obtain ⟨r', h1, h2⟩ := handle_authLine real s (lit "ANONYMOUS") resp hs (by decide) (by unfold NoSpace; decide)
    real_offers_anonymous hr
  rw [h2]
  simp [stepAuth, h1, real_start_anonymous, real_step_anon]

/-- EXTERNAL with or without a claimed identity: the challenge. -/
theorem external_line_gen (s : Server RealWorld Inst) (resp : Option Bytes) (uid : Int) (e : PwEnt)
    (hs : s.state = .waitingForAuth) (hr : GoodResp resp)
    (hc : s.world.cfg.creds = some uid) (hu : getpwuidI s.world.cfg uid = some e) :
    (handle real s (authLineOf (lit "EXTERNAL") resp)).res = .ok ∧
    (handle real s (authLineOf (lit "EXTERNAL") resp)).sent = [wData] ∧
    (handle real s (authLineOf (lit "EXTERNAL") resp)).srv =
      { s with cur := some (lit "EXTERNAL", .ext true (some uid)), state := .waitingForData } := by
  obtain ⟨r', h1, h2⟩ := handle_authLine real s (lit "EXTERNAL") resp hs (by decide) (by unfold NoSpace; decide)
    real_offers_external hr
  rw [h2]
  simp [stepAuth, h1, real_start_external, hc, real_step_ext0 _ _ e _ hu, hexlify]

/-- BEGIN in WaitingForBegin with a mechanism whose user name is known authenticates. -/
theorem begin_line (s : Server RealWorld Inst) (n : Bytes) (i : Inst) (u : Bytes)
    (hs : s.state = .waitingForBegin) (hc : s.cur = some (n, i)) (hu : real.userName s.world i = some u) :
    (handle real s (lit "BEGIN")).res = .ok ∧ (handle real s (lit "BEGIN")).srv.authenticated = true ∧
    (handle real s (lit "BEGIN")).srv.guid = some u := by
  have f1 : splitCmd (lit "BEGIN") = (lit "BEGIN", []) := by decide
  have f2 : utf8Valid (lit "BEGIN") = true := by decide
  have f3 : parseCmd (lit "BEGIN") = .begin := by decide
  simp [handle, f1, f2, f3, authBEGIN, hs, hc, hu]

/-- DATA (no argument) in WaitingForData for EXTERNAL after its challenge: OK. -/
theorem external_data_line (s : Server RealWorld Inst) (uid : Int) (e : PwEnt)
    (hs : s.state = .waitingForData) (hc : s.cur = some (lit "EXTERNAL", .ext true (some uid)))
    (hu : getpwuidI s.world.cfg uid = some e) :
    (handle real s (lit "DATA")).res = .ok ∧ (handle real s (lit "DATA")).sent = [wOk ++ s.serverGuid] ∧
    (handle real s (lit "DATA")).srv = { s with state := .waitingForBegin } := by
  have d1 : splitCmd (lit "DATA") = (lit "DATA", []) := by decide
  have d2 : utf8Valid (lit "DATA") = true := by decide
  have d3 : parseCmd (lit "DATA") = .data := by decide
  simp [handle, d1, d2, d3, authDATA, hs, stepAuth, hc, decodeResponse, real_step_ext1 _ _ e _ hu]

end Txdbus.AuthServer
