import TxdbusModel.Auth.Mechs
import TxdbusModel.Auth.ServerLines
/-
The real mechanisms (C06): the cookie mechanism accepts only on its second step and only the right
hash; what the conforming conversations need from the three mechanisms.
-/
namespace Txdbus.AuthServer

open Txdbus.Gen.ServerAuth

theorem cookieStepOne_not_accept (w : RealWorld) (c : CookieSt) (u : Bytes) :
    (cookieStepOne w c u).2.2 ≠ .accept := by
  unfold cookieStepOne
  cases resolveUser w.cfg u with
  | none => simp
  | some uname =>
    simp only
    cases getpwnam w.cfg uname with
    | none => simp
    | some e =>
      simp only
      cases lookupDir w e.home <;> simp [cookieChallenge]

/-- DBUS_COOKIE_SHA1 accepts only on its second step, and only a response `<cc> <hash>` whose hash is
`hexlify(sha1(server_challenge:cc:cookie))`. -/
theorem cookieStep_accept (w : RealWorld) (c : CookieSt) (arg : Option Bytes)
    (h : (cookieStep w c arg).2.2 = .accept) :
    c.stepNum = 1 ∧ ∃ a cc hh, arg = some a ∧ splitWs a = [cc, hh] ∧
      hh = cookieHash w.cfg.sha1 c.challenge cc c.cookie := by
  unfold cookieStep at h
  cases arg with
  | none => simp at h
  | some a =>
    simp only at h
    by_cases h0 : c.stepNum = 0
    · simp only [h0, if_true] at h
      exact absurd h (cookieStepOne_not_accept _ _ _)
    · simp only [h0, if_false] at h
      by_cases h1 : c.stepNum = 1
      · simp only [h1, if_true] at h
        refine ⟨h1, a, ?_⟩
        unfold cookieStepTwo at h
        split at h
        · simp at h
        · split at h
          · rename_i cc hh hsp
            split at h
            · rename_i heq
              exact ⟨cc, hh, rfl, hsp, heq.symm⟩
            · simp at h
          · simp at h
      · simp [h1] at h

/-! ## conforming conversations, line level -/

theorem real_offers_anonymous : lit "ANONYMOUS" ∈ real.offered := by decide
theorem real_offers_external : lit "EXTERNAL" ∈ real.offered := by decide
theorem real_offers_cookie : lit "DBUS_COOKIE_SHA1" ∈ real.offered := by decide

theorem real_start_anonymous (w : RealWorld) : real.start w (lit "ANONYMOUS") = (w, .anon) := by
  have : kindOf (lit "ANONYMOUS") = some .anonymous := by decide
  simp [real, this]
theorem real_start_external (w : RealWorld) : real.start w (lit "EXTERNAL") = (w, .ext false w.cfg.creds) := by
  have : kindOf (lit "EXTERNAL") = some .external := by decide
  simp [real, this]
theorem real_start_cookie (w : RealWorld) : real.start w (lit "DBUS_COOKIE_SHA1") = (w, .cookie CookieSt.init) := by
  have : kindOf (lit "DBUS_COOKIE_SHA1") = some .cookie := by decide
  simp [real, this]
theorem real_step_anon (w : RealWorld) (arg) : real.step w .anon arg = (w, .anon, .accept) := rfl
theorem real_step_ext0 (w : RealWorld) (uid : Nat) (arg) :
    real.step w (.ext false (some uid)) arg = (w, .ext true (some uid), .challenge []) := rfl
theorem real_step_ext1 (w : RealWorld) (uid : Nat) (arg) :
    real.step w (.ext true (some uid)) arg = (w, .ext true (some uid), .accept) := rfl
theorem real_step_cookie (w : RealWorld) (c : CookieSt) (arg) :
    real.step w (.cookie c) arg = ((cookieStep w c arg).1, .cookie (cookieStep w c arg).2.1, (cookieStep w c arg).2.2) := rfl
theorem real_user_anon (w : RealWorld) : real.userName w .anon = some anonymousUser := rfl
theorem real_user_ext (w : RealWorld) (ok : Bool) (uid : Nat) :
    real.userName w (.ext ok (some uid)) = (getpwuid w.cfg uid).map (·.name) := rfl
theorem real_user_cookie (w : RealWorld) (c : CookieSt) : real.userName w (.cookie c) = c.username := rfl

/-- ANONYMOUS: `AUTH ANONYMOUS` is answered OK, `BEGIN` then authenticates. -/
theorem anonymous_lines (s : Server RealWorld Inst) (hs : s.state = .waitingForAuth) :
    (handle real s (lit "AUTH ANONYMOUS")).res = .ok ∧
    (handle real s (lit "AUTH ANONYMOUS")).sent = [wOk ++ s.serverGuid] ∧
    (handle real s (lit "AUTH ANONYMOUS")).srv.authenticated = s.authenticated ∧
    (handle real (handle real s (lit "AUTH ANONYMOUS")).srv (lit "BEGIN")).res = .ok ∧
    (handle real (handle real s (lit "AUTH ANONYMOUS")).srv (lit "BEGIN")).srv.authenticated = true ∧
    (handle real (handle real s (lit "AUTH ANONYMOUS")).srv (lit "BEGIN")).srv.guid = some anonymousUser := by
  have e1 : splitCmd (lit "AUTH ANONYMOUS") = (lit "AUTH", lit "ANONYMOUS") := by decide
  have e2 : utf8Valid (lit "AUTH") = true := by decide
  have e3 : parseCmd (lit "AUTH") = .auth := by decide
  have e4 : splitWs (lit "ANONYMOUS") = [lit "ANONYMOUS"] := by decide
  have f1 : splitCmd (lit "BEGIN") = (lit "BEGIN", []) := by decide
  have f2 : utf8Valid (lit "BEGIN") = true := by decide
  have f3 : parseCmd (lit "BEGIN") = .begin := by decide
  have h1 : handle real s (lit "AUTH ANONYMOUS") =
      ⟨{ s with cur := some (lit "ANONYMOUS", .anon), state := .waitingForBegin }, [wOk ++ s.serverGuid], .ok,
        some (lit "ANONYMOUS", .accept), false⟩ := by
    simp [handle, e1, e2, e3, authAUTH, hs, e4, real_offers_anonymous, stepAuth, decodeResponse,
      real_start_anonymous, real_step_anon]
  rw [h1]
  simp [handle, f1, f2, f3, authBEGIN, real_user_anon]

/-- EXTERNAL with peer credentials: `AUTH EXTERNAL` -> `DATA`, `DATA` -> `OK`, `BEGIN` authenticates as
the passwd name of the peer uid. -/
theorem external_lines (s : Server RealWorld Inst) (uid : Nat) (e : PwEnt) (hs : s.state = .waitingForAuth)
    (hc : s.world.cfg.creds = some uid) (hu : getpwuid s.world.cfg uid = some e) :
    let o1 := handle real s (lit "AUTH EXTERNAL")
    let o2 := handle real o1.srv (lit "DATA")
    let o3 := handle real o2.srv (lit "BEGIN")
    o1.res = .ok ∧ o1.sent = [wData] ∧ o2.res = .ok ∧ o2.sent = [wOk ++ s.serverGuid] ∧
    o1.srv.authenticated = s.authenticated ∧ o2.srv.authenticated = s.authenticated ∧
    o3.res = .ok ∧ o3.srv.authenticated = true ∧ o3.srv.guid = some e.name := by
  have e1 : splitCmd (lit "AUTH EXTERNAL") = (lit "AUTH", lit "EXTERNAL") := by decide
  have e2 : utf8Valid (lit "AUTH") = true := by decide
  have e3 : parseCmd (lit "AUTH") = .auth := by decide
  have e4 : splitWs (lit "EXTERNAL") = [lit "EXTERNAL"] := by decide
  have d1 : splitCmd (lit "DATA") = (lit "DATA", []) := by decide
  have d2 : utf8Valid (lit "DATA") = true := by decide
  have d3 : parseCmd (lit "DATA") = .data := by decide
  have f1 : splitCmd (lit "BEGIN") = (lit "BEGIN", []) := by decide
  have f2 : utf8Valid (lit "BEGIN") = true := by decide
  have f3 : parseCmd (lit "BEGIN") = .begin := by decide
  have h1 : handle real s (lit "AUTH EXTERNAL") =
      ⟨{ s with cur := some (lit "EXTERNAL", .ext true (some uid)), state := .waitingForData }, [wData], .ok,
        some (lit "EXTERNAL", .challenge []), false⟩ := by
    simp [handle, e1, e2, e3, authAUTH, hs, e4, real_offers_external, stepAuth, decodeResponse,
      real_start_external, hc, real_step_ext0, hexlify]
  simp only
  rw [h1]
  have h2 : handle real { s with cur := some (lit "EXTERNAL", .ext true (some uid)), state := .waitingForData }
      (lit "DATA") =
      ⟨{ s with cur := some (lit "EXTERNAL", .ext true (some uid)), state := .waitingForBegin },
        [wOk ++ s.serverGuid], .ok, some (lit "EXTERNAL", .accept), false⟩ := by
    simp [handle, d1, d2, d3, authDATA, stepAuth, decodeResponse, real_step_ext1]
  rw [h2]
  simp [handle, f1, f2, f3, authBEGIN, real_user_ext, hu]

end Txdbus.AuthServer
