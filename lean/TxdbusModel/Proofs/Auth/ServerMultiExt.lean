import TxdbusModel.Proofs.Auth.ServerMulti
/-
Several connections of one bus process, real mechanisms (C06, state-leak round): the EXTERNAL mechanism
instance a connection holds was built from THAT connection's peer credentials - whatever the other
connections did before, in between or at the same time - and EXTERNAL only ever accepts credentials that have a
passwd entry.  Together: a connection that gets through EXTERNAL is recorded under the identity of its own peer.

Generic part: a property of the world that everything the mechanisms do preserves (`Q`), and a property of
mechanism instances established by `start` and kept by `step` under `Q` (`P`), are kept by
`handleAuthMessage`, by the line loop and by `dataReceived`.
-/
namespace Txdbus.AuthServer.Multi

open Txdbus.AuthServer Txdbus.Gen.ServerAuth

section generic
variable {W I : Type} (S : MechSys W I)

structure MechKeeps (Q : W → Prop) (P : I → Prop) : Prop where
  start_w : ∀ w n, Q w → Q (S.start w n).1
  start_i : ∀ w n, Q w → P (S.start w n).2
  step_w : ∀ w i a, Q w → Q (S.step w i a).1
  step_i : ∀ w i a, Q w → P i → P (S.step w i a).2.1
  cancel_w : ∀ w i w', Q w → S.cancel w i = some w' → Q w'

/-- The world of the authenticator satisfies `Q`, the mechanism in progress (if any) `P`. -/
def KP (Q : W → Prop) (P : I → Prop) (s : Server W I) : Prop :=
  Q s.world ∧ ∀ n i, s.cur = some (n, i) → P i

variable {Q : W → Prop} {P : I → Prop}

theorem reject_keeps (hm : MechKeeps S Q P) (s : Server W I) (m) (h : KP Q P s) : KP Q P (reject S s m).srv := by
  unfold reject
  cases hc : s.cur with
  | none =>
    simp only
    split
    · exact ⟨h.1, fun n i hn => by simp at hn⟩
    · exact ⟨h.1, fun n i hn => by simp at hn⟩
  | some ni =>
    obtain ⟨n0, i0⟩ := ni
    simp only
    cases hcan : S.cancel s.world i0 with
    | none => exact h
    | some w =>
      have hw := hm.cancel_w _ _ _ h.1 hcan
      simp only
      split
      · exact ⟨hw, fun n i hn => by simp at hn⟩
      · exact ⟨hw, fun n i hn => by simp at hn⟩

theorem stepAuth_keeps (hm : MechKeeps S Q P) (s : Server W I) (resp) (h : KP Q P s) :
    KP Q P (stepAuth S s resp).srv := by
  unfold stepAuth
  cases hc : s.cur with
  | none => exact reject_keeps S hm s none h
  | some ni =>
    obtain ⟨name, i⟩ := ni
    simp only
    cases hd : decodeResponse resp with
    | none => exact reject_keeps S hm s none h
    | some arg =>
      simp only
      have hw := hm.step_w s.world i arg h.1
      have hi := hm.step_i s.world i arg h.1 (h.2 name i hc)
      have h1 : KP Q P { s with world := (S.step s.world i arg).1, cur := some (name, (S.step s.world i arg).2.1) } :=
        ⟨hw, fun n j hn => by simp at hn; rw [← hn.2]; exact hi⟩
      cases ho : (S.step s.world i arg).2.2 with
      | accept => exact ⟨hw, fun n j hn => by simp at hn; rw [← hn.2]; exact hi⟩
      | challenge c => exact ⟨hw, fun n j hn => by simp at hn; rw [← hn.2]; exact hi⟩
      | reject => exact reject_keeps S hm _ _ h1

theorem handle_keeps (hm : MechKeeps S Q P) (s : Server W I) (line : Bytes) (h : KP Q P s) :
    KP Q P (handle S s line).srv := by
  unfold handle
  dsimp only
  split
  · exact h
  · split
    · -- AUTH
      unfold authAUTH
      split
      · cases splitWs (splitCmd line).2 with
        | nil => exact reject_keeps S hm s none h
        | cons mech rest =>
          simp only
          split
          · apply stepAuth_keeps S hm
            exact ⟨hm.start_w _ _ h.1, fun n i hn => by simp at hn; rw [← hn.2]; exact hm.start_i _ _ h.1⟩
          · exact reject_keeps S hm s none h
      · exact h
    · -- BEGIN
      unfold authBEGIN
      split
      · cases hc : s.cur with
        | none => exact ⟨h.1, fun n i hn => by simp at hn⟩
        | some ni =>
          obtain ⟨n0, i0⟩ := ni
          simp only
          cases S.userName s.world i0 with
          | none => exact ⟨h.1, fun n i hn => by simp at hn; rw [← hn.2]; exact h.2 n0 i0 hc⟩
          | some u => exact ⟨h.1, fun n i hn => by simp at hn⟩
      · exact h
    · -- CANCEL
      unfold authCANCEL
      split
      · exact reject_keeps S hm s none h
      · exact h
    · -- DATA
      unfold authDATA
      split
      · exact stepAuth_keeps S hm s _ h
      · exact h
    · exact reject_keeps S hm s none h
    · exact h
    · exact h

theorem lineLoop_keeps (hm : MechKeeps S Q P) (p : Proto W I) (ls : List Bytes) (h : KP Q P p.srv) :
    KP Q P (lineLoop S p ls).1.srv := by
  induction ls generalizing p with
  | nil => exact h
  | cons l t ih =>
    simp only [lineLoop]
    split
    · exact h
    · split
      · exact h
      · have hk := handle_keeps S hm p.srv l h
        cases hr : (handle S p.srv l).res with
        | crash => exact hk
        | failed => exact ih _ hk
        | ok =>
          simp only
          split
          · exact hk
          · exact ih _ hk

theorem recv_keeps (hm : MechKeeps S Q P) (p : Proto W I) (d : Bytes) (h : KP Q P p.srv) :
    KP Q P (recv S p d).srv := by
  have hl : ∀ (q : Proto W I) (d : Bytes), KP Q P q.srv → KP Q P (recvLines S q d).srv := by
    intro q d hq
    unfold recvLines
    have := lineLoop_keeps S hm (q.setBuf (splitCRLF (q.buffer ++ d)).2) (splitCRLF (q.buffer ++ d)).1 hq
    cases hk : lineLoop S (q.setBuf (splitCRLF (q.buffer ++ d)).2) (splitCRLF (q.buffer ++ d)).1 with
    | mk r k =>
      rw [hk] at this
      cases k with
      | done => simp only; split <;> exact this
      | ret => exact this
      | success rest => exact this
  unfold recv
  split
  · exact h
  · split
    · exact h
    · split
      · cases d with
        | nil => exact h
        | cons b d' =>
          simp only
          split
          · exact h
          · exact hl p.dropFirst d' h
      · exact hl p d h

end generic

/-! ## the real mechanisms: EXTERNAL instances carry the connection's own credentials -/

/-- An EXTERNAL instance holds the credentials `c`. -/
def ExtOwn (c : Option Int) : Inst → Prop
  | .ext _ cr => cr = c
  | _ => True

theorem setFile_cfg (w : RealWorld) (h : Bytes) (f) : (setFile w h f).cfg = w.cfg := by
  unfold setFile; cases f <;> rfl

theorem deleteCookie_aux (w : RealWorld) (home : Bytes) (cs : List CookieEnt) (w' : RealWorld)
    (h : (if cs.isEmpty = true then
            (match lookupFile w home with
              | none => none
              | some _ => some (setFile w home none))
          else some (setFile w home (some cs))) = some w') : w'.cfg = w.cfg := by
  by_cases he : cs.isEmpty = true
  · rw [if_pos he] at h
    cases hf : lookupFile w home with
    | none => rw [hf] at h; cases h
    | some x => rw [hf] at h; cases h; exact setFile_cfg _ _ _
  · rw [if_neg he] at h; cases h; exact setFile_cfg _ _ _

theorem deleteCookie_cfg (w : RealWorld) (home : Bytes) (id : Option Nat) (w' : RealWorld)
    (h : deleteCookie w home id = some w') : w'.cfg = w.cfg := by
  unfold deleteCookie at h
  exact deleteCookie_aux w home _ w' h

theorem cookieChallenge_cfg (w : RealWorld) (c : CookieSt) (home : Bytes) : (cookieChallenge w c home).1.cfg = w.cfg := by
  simp [cookieChallenge, createCookie, urandom, setFile_cfg]

theorem cookieStepOne_cfg (w : RealWorld) (c : CookieSt) (u : Bytes) : (cookieStepOne w c u).1.cfg = w.cfg := by
  unfold cookieStepOne
  cases resolveUser w.cfg u with
  | none => rfl
  | some uname =>
    simp only
    cases getpwnam w.cfg uname with
    | none => rfl
    | some e =>
      simp only
      cases lookupDir w e.home with
      | bad => rfl
      | absent => simp only; rw [cookieChallenge_cfg]; rfl
      | good => simp only; rw [cookieChallenge_cfg]

theorem cookieStepTwo_cfg (w : RealWorld) (c : CookieSt) (r : Bytes) : (cookieStepTwo w c r).1.cfg = w.cfg := by
  unfold cookieStepTwo
  cases hd : deleteCookie w c.home c.cookieId with
  | none => rfl
  | some w1 =>
    have := deleteCookie_cfg w c.home c.cookieId w1 hd
    simp only
    split
    · split <;> exact this
    · exact this

theorem cookieStep_cfg (w : RealWorld) (c : CookieSt) (a : Option Bytes) : (cookieStep w c a).1.cfg = w.cfg := by
  unfold cookieStep
  cases a with
  | none => rfl
  | some x =>
    simp only
    split
    · exact cookieStepOne_cfg _ _ _
    · split
      · exact cookieStepTwo_cfg _ _ _
      · rfl

/-- Everything the real mechanisms do leaves the configuration (in particular the credentials the running
connection is shown) alone; an EXTERNAL instance is created with them and keeps them. -/
theorem real_keeps (c : Option Int) : MechKeeps real (fun w => w.cfg.creds = c) (ExtOwn c) where
  start_w := by
    intro w n h
    show (real.start w n).1.cfg.creds = c
    simp only [real]
    split <;> exact h
  start_i := by
    intro w n h
    show ExtOwn c (real.start w n).2
    simp only [real]
    split
    · exact h
    · trivial
    · trivial
  step_w := by
    intro w i a h
    show (real.step w i a).1.cfg.creds = c
    cases i with
    | ext ok cr =>
      simp only [real]
      cases cr with
      | none => exact h
      | some uid =>
        simp only
        cases getpwuidI w.cfg uid with
        | none => exact h
        | some e => simp only; split <;> exact h
    | cookie cs => simp only [real]; rw [cookieStep_cfg]; exact h
    | anon => exact h
  step_i := by
    intro w i a _ hp
    show ExtOwn c (real.step w i a).2.1
    cases i with
    | ext ok cr =>
      simp only [real]
      cases cr with
      | none => exact hp
      | some uid =>
        simp only
        cases getpwuidI w.cfg uid with
        | none => exact hp
        | some e => simp only; split <;> exact hp
    | cookie cs => trivial
    | anon => trivial
  cancel_w := by
    intro w i w' h hc
    show w'.cfg.creds = c
    cases i with
    | ext ok cr => simp [real] at hc; rw [← hc]; exact h
    | anon => simp [real] at hc; rw [← hc]; exact h
    | cookie cs =>
      simp only [real] at hc
      cases hid : cs.cookieId with
      | none => rw [hid] at hc; simp at hc; rw [← hc]; exact h
      | some id =>
        rw [hid] at hc
        simp only at hc
        rw [deleteCookie_cfg w cs.home (some id) w' hc]; exact h

/-- EXTERNAL says accept only for credentials that have a passwd entry. -/
theorem external_accept_has_entry (w : RealWorld) (ok : Bool) (cr : Option Int) (a : Option Bytes)
    (h : (real.step w (.ext ok cr) a).2.2 = .accept) :
    ∃ uid e, cr = some uid ∧ getpwuidI w.cfg uid = some e := by
  simp only [real] at h
  cases cr with
  | none => simp at h
  | some uid =>
    simp only at h
    cases he : getpwuidI w.cfg uid with
    | none => rw [he] at h; simp at h
    | some e => exact ⟨uid, e, rfl, he⟩

/-- The changes of the outside in this history leave the peer credentials of the connections alone. -/
def EnvKeepsCreds (evs : List (Event RealBus)) : Prop := ∀ f, Event.env f ∈ evs → ∀ g, (f g).creds = g.creds

/-- The invariant of the bus run. -/
def ExtInv (cr : Nat → Option Int) (b : Bus RealBus RealWorld Inst) : Prop :=
  b.global.creds = cr ∧
  ∀ k c, b.conns[k]? = some c → ∀ n i, c.proto.srv.cur = some (n, i) → ExtOwn (cr k) i

theorem step_extInv (guid : Bytes) (cr : Nat → Option Int) (b : Bus RealBus RealWorld Inst) (e : Event RealBus)
    (h : ExtInv cr b) (he : ∀ f, e = .env f → ∀ g, (f g).creds = g.creds) :
    ExtInv cr (step real realView guid b e) := by
  cases e with
  | env f => exact ⟨by show (f b.global).creds = cr; rw [he f rfl]; exact h.1, h.2⟩
  | connect =>
    refine ⟨h.1, ?_⟩
    intro k c hk n i hc
    by_cases hlt : k < b.conns.length
    · rw [show (step real realView guid b .connect).conns =
        b.conns ++ [⟨Proto.init guid (realView.get b.global b.conns.length), false⟩] from rfl,
        List.getElem?_append_left hlt] at hk
      exact h.2 k c hk n i hc
    · have hge : b.conns.length ≤ k := Nat.le_of_not_lt hlt
      rw [show (step real realView guid b .connect).conns =
        b.conns ++ [⟨Proto.init guid (realView.get b.global b.conns.length), false⟩] from rfl,
        List.getElem?_append_right hge] at hk
      cases hd : k - b.conns.length with
      | zero =>
        rw [hd] at hk
        simp at hk
        rw [← hk] at hc
        simp [Proto.init, Server.init] at hc
      | succ m => rw [hd] at hk; simp at hk
  | lose j =>
    show ExtInv cr (markLost b j)
    unfold markLost
    cases hj : b.conns[j]? with
    | none => exact h
    | some cj =>
      refine ⟨h.1, ?_⟩
      intro k c hk n i hc
      simp only at hk
      by_cases hjk : j = k
      · subst hjk
        rw [List.getElem?_set_self (lt_of_conn b j cj hj)] at hk
        simp at hk
        rw [← hk] at hc
        exact h.2 j cj hj n i hc
      · rw [List.getElem?_set_ne hjk] at hk
        exact h.2 k c hk n i hc
  | read j d =>
    show ExtInv cr (deliver real realView b j d)
    unfold deliver
    cases hj : b.conns[j]? with
    | none => exact h
    | some cj =>
      simp only
      by_cases hl : cj.lost = true
      · simp only [hl, if_true]; exact h
      · simp only [hl, Bool.false_eq_true, if_false]
        refine ⟨h.1, ?_⟩
        intro k c hk n i hc
        simp only at hk
        by_cases hjk : j = k
        · subst hjk
          rw [List.getElem?_set_self (lt_of_conn b j cj hj)] at hk
          simp at hk
          rw [← hk] at hc
          have hq : KP (fun w => w.cfg.creds = cr j) (ExtOwn (cr j)) (withWorld cj.proto (realView.get b.global j)).srv := by
            refine ⟨?_, fun n' i' hn' => h.2 j cj hj n' i' hn'⟩
            show (focusCreds b.global.world (b.global.creds j)).cfg.creds = cr j
            rw [h.1]; rfl
          exact (recv_keeps real (real_keeps (cr j)) _ d hq).2 n i hc
        · rw [List.getElem?_set_ne hjk] at hk
          exact h.2 k c hk n i hc

/-- On a bus with any number of connections, after any history: the EXTERNAL instance connection `k` holds was
built from the peer credentials of connection `k` - not from those of a connection served before, at the same
time, or by the same class.  (With `external_accept_has_entry`: EXTERNAL accepts connection `k` only when ITS
credentials have a passwd entry, and `getUserName()` of that instance - what BEGIN records as the identity -
is the name of that entry.) -/
theorem bus_external_own_credentials (guid : Bytes) (g : RealBus) (evs : List (Event RealBus))
    (he : EnvKeepsCreds evs) :
    ∀ k c, (run real realView guid (Bus.init g) evs).conns[k]? = some c →
      ∀ n ok cr, c.proto.srv.cur = some (n, .ext ok cr) → cr = g.creds k := by
  have key : ∀ (evs : List (Event RealBus)) (b : Bus RealBus RealWorld Inst), EnvKeepsCreds evs →
      ExtInv g.creds b → ExtInv g.creds (run real realView guid b evs) := by
    intro evs
    induction evs with
    | nil => intro b _ hb; exact hb
    | cons e es ih =>
      intro b hev hb
      exact ih _ (fun f hf => hev f (List.mem_cons_of_mem _ hf))
        (step_extInv guid g.creds b e hb (fun f hf => hev f (by rw [hf]; exact List.mem_cons_self)))
  have h0 : ExtInv g.creds (Bus.init g : Bus RealBus RealWorld Inst) :=
    ⟨rfl, fun k c hk => by simp [Bus.init] at hk⟩
  intro k c hk n ok cr hc
  exact (key evs _ he h0).2 k c hk n (.ext ok cr) hc

end Txdbus.AuthServer.Multi
