/-
C07 x C06 proofs, part 1 - bytes and single reads.

* the byte helpers of the two models agree (`hexlify`), hex text holds no CR;
* one read of the client / of the bus that does NOT complete the line in flight only extends the buffer
  (`cli_partial`, `srv_partial`); one read that completes it is the line-level step
  (`cli_complete`, `srv_complete`); the NUL byte; the hand-over of what follows BEGIN.
-/
import TxdbusModel.Auth.Handshake2
import TxdbusModel.Proofs.Auth.ClientFraming
import TxdbusModel.Proofs.Auth.ClientBytesLemmas
import TxdbusModel.Proofs.Auth.ServerConform
import TxdbusModel.Proofs.Auth.ServerRealSafe

namespace Txdbus.Handshake2

open Txdbus.AuthServer (real NoCR)

/-! ## the two sets of byte helpers -/

theorem hexChar_eq (n : Nat) : AuthClient.hexChar n = AuthServer.hexChar n := rfl

theorem hexlify_eq (x : Bytes) : AuthClient.hexlify x = AuthServer.hexlify x := by
  induction x with
  | nil => rfl
  | cons b t ih => simp [AuthClient.hexlify, AuthServer.hexlify, ih, hexChar_eq]

theorem noCR_hexlify (x : Bytes) : NoCR (AuthServer.hexlify x) :=
  AuthServer.noCR_of_noSpace _ (AuthServer.noSpace_hexlify x)

theorem noCR_nil : NoCR [] := fun _ h => nomatch h

theorem noCR_cons {b : UInt8} {t : Bytes} (hb : b ≠ 13) (ht : NoCR t) : NoCR (b :: t) := by
  intro x hx
  rcases List.mem_cons.1 hx with rfl | h
  · exact hb
  · exact ht x h

theorem noCR_tail {b : UInt8} {t : Bytes} (h : NoCR (b :: t)) : NoCR t := fun x hx => h x (by simp [hx])

theorem noCR_left {a b : Bytes} (h : NoCR (a ++ b)) : NoCR a := fun x hx => h x (by simp [hx])

theorem hasCRLF_of_noCR {x : Bytes} (h : NoCR x) : AuthClient.hasCRLF x = false := by
  induction x with
  | nil => rfl
  | cons b t ih =>
    have ht := ih (noCR_tail h)
    unfold AuthClient.hasCRLF
    split
    · rfl
    · rename_i t' heq
      simp only [List.cons.injEq] at heq
      exact absurd heq.1 (h b (by simp))
    · rename_i x t' _ heq
      simp only [List.cons.injEq] at heq
      rw [← heq.2]; exact ht

/-! ## proper prefixes of a line in flight -/

/-- `x` is what has been delivered of `l ++ "\r\n"` and something is still queued: `x` is a prefix of `l`,
or `l` followed by the CR. -/
theorem proper_prefix_cases {l x rest : Bytes} (h : x ++ rest = l ++ [13, 10]) (hr : rest ≠ []) :
    (∃ a, l = x ++ a) ∨ x = l ++ [13] := by
  rcases List.append_eq_append_iff.1 h with ⟨a, h1, h2⟩ | ⟨c, h1, h2⟩
  · exact Or.inl ⟨a, h1⟩
  · -- x = l ++ c, [13,10] = c ++ rest
    cases c with
    | nil => exact Or.inl ⟨[], by simpa using h1.symm⟩
    | cons c0 c1 =>
      cases c1 with
      | nil =>
        simp only [List.cons_append, List.nil_append, List.cons.injEq] at h2
        right; rw [h1, h2.1]
      | cons c2 c3 =>
        cases c3 with
        | nil =>
          simp only [List.cons_append, List.nil_append, List.cons.injEq] at h2
          exact absurd h2.2.2.symm hr
        | cons _ _ => simp at h2

theorem proper_prefix_length {l x rest : Bytes} (h : x ++ rest = l ++ [13, 10]) (hr : rest ≠ []) :
    x.length ≤ l.length + 1 := by
  have := congrArg List.length h
  simp only [List.length_append, List.length_cons, List.length_nil] at this
  have : rest.length ≥ 1 := by
    cases rest with
    | nil => exact absurd rfl hr
    | cons _ _ => simp
  omega

/-- The bus's framing finds no complete line in a string without CR, also when a CR follows it. -/
theorem srv_split_noCR (x : Bytes) (h : NoCR x) : AuthServer.splitCRLF x = ([], x) := by
  induction x with
  | nil => rfl
  | cons a t ih =>
    have ha : a ≠ 13 := h a (by simp)
    have iht := ih (noCR_tail h)
    cases t with
    | nil => exact AuthServer.splitCRLF_single a
    | cons b t' =>
      rw [AuthServer.splitCRLF_other a b t' (by simp [ha]), iht]
      rfl

theorem srv_split_noCR_cr (x : Bytes) (h : NoCR x) : AuthServer.splitCRLF (x ++ [13]) = ([], x ++ [13]) := by
  induction x with
  | nil => rfl
  | cons a t ih =>
    have ha : a ≠ 13 := h a (by simp)
    have iht := ih (noCR_tail h)
    cases t with
    | nil =>
      show AuthServer.splitCRLF [a, 13] = _
      rw [AuthServer.splitCRLF_other a 13 [] (by simp [ha])]
      rfl
    | cons b t' =>
      show AuthServer.splitCRLF (a :: b :: (t' ++ [13])) = _
      rw [AuthServer.splitCRLF_other a b _ (by simp [ha])]
      have : b :: (t' ++ [13]) = (b :: t') ++ [13] := rfl
      rw [this, iht]
      rfl

theorem srv_split_proper {l x rest : Bytes} (hl : NoCR l) (h : x ++ rest = l ++ [13, 10]) (hr : rest ≠ []) :
    AuthServer.splitCRLF x = ([], x) := by
  rcases proper_prefix_cases h hr with ⟨a, ha⟩ | hx
  · exact srv_split_noCR x (noCR_left (ha ▸ hl))
  · rw [hx]; exact srv_split_noCR_cr l hl

theorem cli_noCRLF_proper {l x rest : Bytes} (hl : NoCR l) (h : x ++ rest = l ++ [13, 10]) (hr : rest ≠ []) :
    AuthClient.hasCRLF x = false := by
  rcases proper_prefix_cases h hr with ⟨a, ha⟩ | hx
  · exact hasCRLF_of_noCR (noCR_left (ha ▸ hl))
  · rw [hx]; exact AuthClient.hasCRLF_snoc_cr (hasCRLF_of_noCR hl)

/-! ## one read of the client -/

/-- A read that leaves the line in flight incomplete only extends the client's buffer. -/
theorem cli_partial (envAt : Nat → AuthClient.Env) (p : CProto) (d l rest : Bytes)
    (ha : p.authenticated = false) (hl : NoCR l) (hlen : l.length ≤ AuthClient.maxAuth)
    (h : (p.buffer ++ d) ++ rest = l ++ [13, 10]) (hr : rest ≠ []) :
    AuthClient.dataReceived envAt p d = { p with buffer := p.buffer ++ d } :=
  AuthClient.dataReceived_partial envAt p d ha (cli_noCRLF_proper hl h hr)
    (by have := proper_prefix_length h hr; omega)

/-- The read that completes the line: the loop of `dataReceived` runs on exactly that line. -/
theorem cli_complete (envAt : Nat → AuthClient.Env) (p : CProto) (d l : Bytes)
    (ha : p.authenticated = false) (hl : NoCR l) (h : p.buffer ++ d = l ++ [13, 10]) :
    AuthClient.dataReceived envAt p d = AuthClient.processLines envAt { p with buffer := [] } [l] := by
  unfold AuthClient.dataReceived
  simp only [ha, Bool.false_eq_true, if_false]
  rw [h]
  have := AuthClient.splitCRLF_line (hasCRLF_of_noCR hl) []
  rw [this]
  simp [AuthClient.splitCRLF]

/-- The loop on one line that the authenticator answers without authenticating. -/
theorem processLines_reply (envAt : Nat → AuthClient.Env) (p : CProto) (l : Bytes) (a : AuthClient.Auth)
    (out : List Bytes) (hd : p.disconnecting = false) (hb : p.buffer = []) (hlen : l.length ≤ AuthClient.maxAuth)
    (hh : AuthClient.handleAuthMessage (envAt p.seen) p.auth l = .ok (a, out)) (hna : a.authenticated = false) :
    AuthClient.processLines envAt p [l] =
      { p with seen := p.seen + 1, auth := a,
               trace := p.trace ++ [AuthClient.Ev.recv l] ++ out.map AuthClient.Ev.send } := by
  have h1 : ¬ l.length > AuthClient.maxAuth := by omega
  unfold AuthClient.processLines
  simp only [hd, Bool.false_eq_true, if_false, h1, hh, hna]
  unfold AuthClient.processLines
  simp [hb, AuthClient.maxAuth, Gen.ClientAuth.maxAuthLength, AuthClient.CRLF]

/-- The loop on the line that makes the authenticator succeed: `setAuthenticationSucceeded()`. -/
theorem processLines_success (envAt : Nat → AuthClient.Env) (p : CProto) (l : Bytes) (a : AuthClient.Auth)
    (out : List Bytes) (hd : p.disconnecting = false) (hb : p.buffer = []) (hlen : l.length ≤ AuthClient.maxAuth)
    (hh : AuthClient.handleAuthMessage (envAt p.seen) p.auth l = .ok (a, out)) (hna : a.authenticated = true) :
    AuthClient.processLines envAt p [l] =
      { p with seen := p.seen + 1, auth := a, authenticated := true, buffer := [], binary := [],
               trace := p.trace ++ [AuthClient.Ev.recv l] ++ out.map AuthClient.Ev.send ++ [AuthClient.Ev.authenticated] } := by
  have h1 : ¬ l.length > AuthClient.maxAuth := by omega
  unfold AuthClient.processLines
  simp only [hd, Bool.false_eq_true, if_false, h1, hh, hna, if_true]
  simp [hb, AuthClient.joinWith]

/-! ## one read of the bus -/

/-- A read that leaves the line in flight incomplete only extends the bus's buffer. -/
theorem srv_partial (p : SProto) (d l rest : Bytes) (hc : p.crashed = false) (ha : p.authenticated = false)
    (hf : p.firstByte = false) (hl : NoCR l) (hlen : l.length ≤ Gen.ServerAuth.maxAuthLength)
    (h : (p.buffer ++ d) ++ rest = l ++ [13, 10]) (hr : rest ≠ []) :
    AuthServer.recv real p d = p.setBuf (p.buffer ++ d) := by
  rw [AuthServer.recv_lines real p d hc ha hf, AuthServer.recvLines_eq, srv_split_proper hl h hr]
  have hle := proper_prefix_length h hr
  have : ¬ (p.buffer ++ d).length > AuthServer.remainderLimit := by
    rw [AuthServer.remainderLimit_eq]; omega
  simp only [AuthServer.lineLoop, AuthServer.setBuf_buffer, this, if_false]

/-- The read that completes a line which the authenticator handles without raising and without
authenticating. -/
theorem srv_complete (p : SProto) (d l : Bytes) (hc : p.crashed = false) (ha : p.authenticated = false)
    (hf : p.firstByte = false) (ho : p.closed = false) (hl : NoCR l) (hlen : l.length ≤ Gen.ServerAuth.maxAuthLength)
    (h : p.buffer ++ d = l ++ [13, 10])
    (hres : (AuthServer.handle real p.srv l).res = .ok)
    (hna : (AuthServer.handle real p.srv l).srv.authenticated = false) :
    AuthServer.recv real p d = (p.handled l (AuthServer.handle real p.srv l)).setBuf [] := by
  rw [AuthServer.recv_lines real p d hc ha hf, AuthServer.recvLines_eq, h]
  have hs : AuthServer.splitCRLF (l ++ [13, 10]) = ([l], []) := by
    have := AuthServer.splitCRLF_line l [] hl
    simpa [AuthServer.splitCRLF_nil] using this
  rw [hs]
  have h1 : ¬ l.length > Gen.ServerAuth.maxAuthLength := by omega
  simp [AuthServer.lineLoop, ho, h1, hres, hna, AuthServer.remainderLimit_eq]

/-- The read that completes BEGIN (the line on which the authenticator succeeds): everything after the
delimiter goes to the binary branch. -/
theorem srv_success (p : SProto) (d l tail : Bytes) (hc : p.crashed = false) (ha : p.authenticated = false)
    (hf : p.firstByte = false) (ho : p.closed = false) (hl : NoCR l) (hlen : l.length ≤ Gen.ServerAuth.maxAuthLength)
    (h : p.buffer ++ d = l ++ 13 :: 10 :: tail)
    (hres : (AuthServer.handle real p.srv l).res = .ok)
    (hna : (AuthServer.handle real p.srv l).srv.authenticated = true) :
    AuthServer.recv real p d = (p.handled l (AuthServer.handle real p.srv l)).handOff tail := by
  rw [AuthServer.recv_lines real p d hc ha hf, AuthServer.recvLines_eq, h, AuthServer.splitCRLF_line l tail hl]
  have h1 : ¬ l.length > Gen.ServerAuth.maxAuthLength := by omega
  simp only [AuthServer.lineLoop, AuthServer.setBuf_closed, ho, Bool.false_eq_true, if_false, h1,
    AuthServer.setBuf_srv, hres, hna, if_true]
  simp only [AuthServer.Proto.handOff, AuthServer.joinCRLF_split]
  rfl

/-- The first read of the bus: the NUL byte is dropped, the rest is a read in line mode. -/
theorem srv_first (p : SProto) (d : Bytes) (hc : p.crashed = false) (ha : p.authenticated = false)
    (hf : p.firstByte = true) :
    AuthServer.recv real p (0 :: d) = AuthServer.recvLines real p.dropFirst d :=
  AuthServer.recv_first_nul real p d hc ha hf

theorem srv_first_only (p : SProto) (hb : p.buffer = []) :
    AuthServer.recvLines real p.dropFirst [] = p.dropFirst := by
  rw [AuthServer.recvLines_eq]
  simp [AuthServer.Proto.dropFirst, hb, AuthServer.splitCRLF_nil, AuthServer.lineLoop, AuthServer.remainderLimit_eq,
    AuthServer.Proto.setBuf]

/-! ## bytes on the wire -/

theorem wireS_append (a b : List Bytes) : wireS (a ++ b) = wireS a ++ wireS b := by
  induction a with
  | nil => rfl
  | cons l t ih => simp [wireS, ih]

theorem wireC_append (hello : Bytes) (a b : List AuthClient.Ev) :
    wireC hello (a ++ b) = wireC hello a ++ wireC hello b := by
  induction a with
  | nil => rfl
  | cons e t ih => cases e <;> simp [wireC, ih]

end Txdbus.Handshake2
