/-
C07 proofs - the line framing of the client (`splitCRLF`, `dataReceived`): the remainder kept in the
buffer never contains a complete line; pieces and remainder reassemble the input; a line delivered in
any pieces reaches the authenticator exactly once, when its delimiter is complete.
-/
import TxdbusModel.Auth.Client

namespace Txdbus.AuthClient

/-- The byte string contains the delimiter `\r\n`. -/
def hasCRLF : Bytes → Bool
  | [] => false
  | 13 :: 10 :: _ => true
  | _ :: t => hasCRLF t

theorem hasCRLF_tail {b : UInt8} {t : Bytes} (h : hasCRLF (b :: t) = false) : hasCRLF t = false := by
  unfold hasCRLF at h
  split at h
  · rename_i heq; cases heq
  · cases h
  · rename_i x t' _ heq
    cases heq
    exact h

theorem splitCRLF_noLines {t : Bytes} : (splitCRLF t).1 = [] → (splitCRLF t).2 = t := by
  fun_induction splitCRLF t with
  | case1 => intro _; rfl
  | case2 t p => intro h; simp at h
  | case3 b t hne p hp ih =>
    intro _
    show b :: p.2 = b :: t
    rw [ih hp]
  | case4 b t hne p l ls hp ih => intro h; simp at h

/-- The remainder kept in the buffer contains no complete line. -/
theorem splitCRLF_rest_noCRLF (bs : Bytes) : hasCRLF (splitCRLF bs).2 = false := by
  fun_induction splitCRLF bs with
  | case1 => rfl
  | case2 t p ih => exact ih
  | case3 b t hne p hp ih =>
    show hasCRLF (b :: p.2) = false
    have hpt : p.2 = t := splitCRLF_noLines hp
    rw [hpt] at ih ⊢
    unfold hasCRLF
    split
    · rfl
    · rename_i t' heq
      simp only [List.cons.injEq] at heq
      exact (hne t' heq.1 heq.2).elim
    · rename_i x t' _ heq
      simp only [List.cons.injEq] at heq
      rw [← heq.2]; exact ih
  | case4 b t hne p l ls hp ih => exact ih

/-- A string without delimiter is all remainder. -/
theorem splitCRLF_noCRLF {x : Bytes} (h : hasCRLF x = false) : splitCRLF x = ([], x) := by
  fun_induction splitCRLF x with
  | case1 => rfl
  | case2 t p ih => simp [hasCRLF] at h
  | case3 b t hne p hp ih =>
    have := ih (hasCRLF_tail h)
    show (([], b :: p.2) : List Bytes × Bytes) = ([], b :: t)
    simp [p, this]
  | case4 b t hne p l ls hp ih =>
    have := ih (hasCRLF_tail h)
    simp [p, this] at hp

theorem joinWith_cons_snoc (sep l : Bytes) (ls : List Bytes) (r : Bytes) :
    joinWith sep (l :: (ls ++ [r])) = l ++ sep ++ joinWith sep (ls ++ [r]) := by
  cases ls <;> simp [joinWith]

/-- One unfolding of `splitCRLF` on a byte that does not start a delimiter. -/
theorem splitCRLF_cons {b : UInt8} {t : Bytes} (hne : ∀ t', b = 13 → t = 10 :: t' → False) :
    splitCRLF (b :: t) =
      (match (splitCRLF t).1 with
       | [] => ([], b :: (splitCRLF t).2)
       | l :: ls => ((b :: l) :: ls, (splitCRLF t).2)) := by
  conv => lhs; unfold splitCRLF
  split
  · rename_i heq; cases heq
  · rename_i t' heq
    simp only [List.cons.injEq] at heq
    exact (hne t' heq.1 heq.2).elim
  · rename_i x t' _ heq
    simp only [List.cons.injEq] at heq
    obtain ⟨rfl, rfl⟩ := heq
    rfl

/-- The pieces and the remainder reassemble the input. -/
theorem splitCRLF_join (bs : Bytes) : joinWith CRLF ((splitCRLF bs).1 ++ [(splitCRLF bs).2]) = bs := by
  fun_induction splitCRLF bs with
  | case1 => rfl
  | case2 t p ih =>
    show joinWith CRLF ([] :: (p.1 ++ [p.2])) = 13 :: 10 :: t
    rw [joinWith_cons_snoc, ih]; rfl
  | case3 b t hne p hp ih =>
    show joinWith CRLF ([] ++ [b :: p.2]) = b :: t
    rw [hp] at ih
    simp only [List.nil_append, joinWith] at ih ⊢
    rw [ih]
  | case4 b t hne p l ls hp ih =>
    show joinWith CRLF ((b :: l) :: (ls ++ [p.2])) = b :: t
    rw [hp, List.cons_append, joinWith_cons_snoc] at ih
    rw [joinWith_cons_snoc, ← ih]
    simp
    rfl

/-- A line without delimiter inside, followed by the delimiter, is split off as one piece. -/
theorem splitCRLF_line {l : Bytes} (h : hasCRLF l = false) (rest : Bytes) :
    splitCRLF (l ++ 13 :: 10 :: rest) = (l :: (splitCRLF rest).1, (splitCRLF rest).2) := by
  induction l with
  | nil => simp [splitCRLF]
  | cons b t ih =>
    have ht := hasCRLF_tail h
    have hne : ∀ t', b = 13 → t ++ 13 :: 10 :: rest = 10 :: t' → False := by
      intro t' hb heq
      cases t with
      | nil => simp at heq
      | cons c t'' =>
        simp only [List.cons_append, List.cons.injEq] at heq
        subst hb
        rw [heq.1] at h
        simp [hasCRLF] at h
    rw [List.cons_append, splitCRLF_cons hne, ih ht]

/-- Framing does not depend on the reads: splitting `a ++ b` at once yields the lines of `a` followed by
the lines of (remainder of `a`) ++ `b`, and the same final remainder. -/
theorem splitCRLF_append (a : Bytes) : ∀ b : Bytes,
    splitCRLF (a ++ b) =
      ((splitCRLF a).1 ++ (splitCRLF ((splitCRLF a).2 ++ b)).1, (splitCRLF ((splitCRLF a).2 ++ b)).2) := by
  fun_induction splitCRLF a with
  | case1 => intro b; simp
  | case2 t p ih =>
    intro b
    show splitCRLF (13 :: 10 :: (t ++ b)) = _
    rw [splitCRLF, ih b]
    rfl
  | case3 x t hne p hp ih =>
    intro b
    have hpt : p.2 = t := splitCRLF_noLines hp
    show splitCRLF (x :: t ++ b) = (([] : List Bytes) ++ (splitCRLF ((x :: p.2) ++ b)).1, (splitCRLF ((x :: p.2) ++ b)).2)
    rw [hpt]; simp
  | case4 x t hne p l ls hp ih =>
    intro b
    have hne' : ∀ t', x = 13 → t ++ b = 10 :: t' → False := by
      intro t' hx heq
      cases t with
      | nil => simp [p, splitCRLF] at hp
      | cons c t'' =>
        simp only [List.cons_append, List.cons.injEq] at heq
        exact hne t'' hx (by rw [heq.1])
    show splitCRLF (x :: (t ++ b)) = (((x :: l) :: ls) ++ (splitCRLF (p.2 ++ b)).1, (splitCRLF (p.2 ++ b)).2)
    rw [splitCRLF_cons hne', ih b, hp]
    simp
    exact ⟨rfl, rfl⟩

/-! ### The buffer never holds a complete line -/

theorem processLines_buffer (envAt : Nat → Env) (ls : List Bytes) :
    ∀ p : Proto, (processLines envAt p ls).buffer = p.buffer ∨ (processLines envAt p ls).buffer = [] := by
  induction ls with
  | nil =>
    intro p
    unfold processLines
    split <;> simp [Proto.close]
  | cons l ls ih =>
    intro p
    obtain ⟨auth, buffer, disc, authd, binary, seen, trace⟩ := p
    unfold processLines
    cases disc with
    | true => exact Or.inl rfl
    | false =>
      by_cases hlen : l.length > maxAuth
      · simp [hlen, Proto.close]
      · cases hh : handleAuthMessage (envAt seen) auth l with
        | error e =>
          simp only [hlen, hh, Bool.false_eq_true, if_false]
          exact ih _
        | ok r =>
          obtain ⟨a, out⟩ := r
          simp only [hlen, hh, Bool.false_eq_true, if_false]
          by_cases ha : a.authenticated = true
          · simp [ha]
          · simp only [ha, if_false]
            exact ih _

/-- After every read the line buffer contains no complete line: whatever the reads were, every
complete line received so far has been split off and offered to `processLines`. -/
theorem dataReceived_buffer_noCRLF (envAt : Nat → Env) (p : Proto) (data : Bytes)
    (h : hasCRLF p.buffer = false) : hasCRLF (dataReceived envAt p data).buffer = false := by
  unfold dataReceived
  split
  · exact h
  · rcases processLines_buffer envAt (splitCRLF (p.buffer ++ data)).1
      { p with buffer := (splitCRLF (p.buffer ++ data)).2 } with hb | hb
    · rw [hb]; exact splitCRLF_rest_noCRLF _
    · rw [hb]; rfl

theorem clientRun_buffer_noCRLF (pref : List Bytes) (unix : Bool) (envAt : Nat → Env) (chunks : List Bytes) :
    hasCRLF (clientRun pref unix envAt chunks).buffer = false := by
  unfold clientRun
  have h0 : hasCRLF (connectionMade pref unix (envAt 0)).buffer = false := by
    unfold connectionMade
    simp only []
    split <;> rfl
  generalize connectionMade pref unix (envAt 0) = p at h0
  induction chunks generalizing p with
  | nil => exact h0
  | cons d ds ih => exact ih _ (dataReceived_buffer_noCRLF envAt p d h0)

/-! ### A line delivered in pieces -/

theorem hasCRLF_append_left {x y : Bytes} (h : hasCRLF (x ++ y) = false) : hasCRLF x = false := by
  induction x with
  | nil => rfl
  | cons b t ih =>
    have ht := ih (hasCRLF_tail (by simpa using h))
    unfold hasCRLF
    split
    · rfl
    · rename_i t' heq
      simp only [List.cons.injEq] at heq
      obtain ⟨rfl, rfl⟩ := heq
      simp [hasCRLF] at h
    · rename_i x t' _ heq
      simp only [List.cons.injEq] at heq
      rw [← heq.2]; exact ht

theorem hasCRLF_snoc_cr {l : Bytes} (h : hasCRLF l = false) : hasCRLF (l ++ [13]) = false := by
  induction l with
  | nil => rfl
  | cons b t ih =>
    have ht := ih (hasCRLF_tail h)
    rw [List.cons_append]
    unfold hasCRLF
    split
    · rfl
    · rename_i t' heq
      simp only [List.cons.injEq] at heq
      obtain ⟨rfl, heq2⟩ := heq
      cases t with
      | nil => simp at heq2
      | cons c t'' =>
        simp only [List.cons_append, List.cons.injEq] at heq2
        rw [heq2.1] at h
        simp [hasCRLF] at h
    · rename_i x t' _ heq
      simp only [List.cons.injEq] at heq
      rw [← heq.2]; exact ht

/-- A proper prefix of `l ++ "\r\n"` (for `l` without delimiter) contains no delimiter and is at most
one byte longer than `l`. -/
theorem proper_prefix_of_line {l x r : Bytes} (hl : hasCRLF l = false) (hr : r ≠ [])
    (h : x ++ r = l ++ CRLF) : hasCRLF x = false ∧ x.length ≤ l.length + 1 := by
  obtain ⟨r0, z, rfl⟩ : ∃ r0 z, r = r0 ++ [z] := ⟨r.dropLast, r.getLast hr, (List.dropLast_concat_getLast hr).symm⟩
  have h2 : (x ++ r0) ++ [z] = (l ++ [13]) ++ [10] := by simpa [CRLF] using h
  have h3 := List.append_inj' h2 rfl
  have hx : hasCRLF (x ++ r0) = false := by rw [h3.1]; exact hasCRLF_snoc_cr hl
  refine ⟨hasCRLF_append_left hx, ?_⟩
  have := congrArg List.length h3.1
  simp at this
  omega

theorem foldl_binary (envAt : Nat → Env) (cs : List Bytes) :
    ∀ p : Proto, p.authenticated = true →
      cs.foldl (dataReceived envAt) p = { p with binary := p.binary ++ cs.flatten } := by
  induction cs with
  | nil => intro p _; simp
  | cons c cs ih =>
    intro p hp
    have h1 : dataReceived envAt p c = { p with binary := p.binary ++ c } := by
      unfold dataReceived; simp [hp]
    rw [List.foldl_cons, h1, ih _ (by simpa using hp)]
    simp

/-- A read that does not complete a line only extends the buffer. -/
theorem dataReceived_partial (envAt : Nat → Env) (p : Proto) (c : Bytes) (ha : p.authenticated = false)
    (hn : hasCRLF (p.buffer ++ c) = false) (hlen : (p.buffer ++ c).length ≤ maxAuth + 1) :
    dataReceived envAt p c = { p with buffer := p.buffer ++ c } := by
  unfold dataReceived
  simp only [ha, Bool.false_eq_true, if_false, splitCRLF_noCRLF hn]
  unfold processLines
  have : ¬ ((p.buffer ++ c).length > maxAuth + CRLF.length - 1) := by
    simp only [CRLF, List.length_cons, List.length_nil] at hlen ⊢; omega
  simp only [this, if_false]

/-- A line without delimiter inside and within the length limit, delivered in any pieces (also empty
ones, also with a boundary inside the delimiter) to a connection with an empty line buffer, has the
effect of `lineReceived`: it reaches the authenticator exactly once, when the delimiter is complete. -/
theorem deliver_line (envAt : Nat → Env) (l : Bytes) (hl : hasCRLF l = false) (hlen : l.length ≤ maxAuth) :
    ∀ (cs : List Bytes) (p : Proto), p.authenticated = false → p.buffer ++ cs.flatten = l ++ CRLF →
      (p.buffer ≠ l ++ CRLF) →
      cs.foldl (dataReceived envAt) p = lineReceived envAt { p with buffer := [] } l := by
  intro cs
  induction cs with
  | nil =>
    intro p _ h hne
    simp at h
    exact absurd h hne
  | cons c cs ih =>
    intro p ha h hne
    rw [List.foldl_cons]
    by_cases hrest : cs.flatten = []
    · -- this read completes the line
      have hfull : p.buffer ++ c = l ++ CRLF := by simpa [hrest] using h
      have h1 : dataReceived envAt p c = lineReceived envAt { p with buffer := [] } l := by
        unfold dataReceived lineReceived
        simp only [ha, Bool.false_eq_true, if_false]
        rw [hfull]
        have := splitCRLF_line hl []
        simp only [CRLF] at this ⊢
        rw [this]
        simp [splitCRLF]
      rw [h1]
      -- the remaining reads are empty
      have hempty : ∀ q : Proto, q.buffer = [] → cs.foldl (dataReceived envAt) q = q := by
        intro q hq
        have hall : ∀ c' ∈ cs, c' = [] := by
          intro c' hc'
          have := List.flatten_eq_nil_iff.mp hrest c' hc'
          exact this
        clear ih h1 hfull h hrest
        induction cs generalizing q with
        | nil => rfl
        | cons d ds ihd =>
          have hd : d = [] := hall d (by simp)
          subst hd
          have hq2 : dataReceived envAt q [] = q := by
            unfold dataReceived
            split
            · simp
            · simp only [hq, List.append_nil]
              unfold splitCRLF processLines
              simp [maxAuth, Gen.ClientAuth.maxAuthLength, CRLF]
              cases q; simp_all
          rw [List.foldl_cons, hq2]
          exact ihd q hq (fun c' hc' => hall c' (by simp [hc']))
      apply hempty
      unfold lineReceived
      simp only [ha, Bool.false_eq_true, if_false]
      rcases processLines_buffer envAt [l] { p with buffer := [] } with hb | hb <;> simpa [ha] using hb
    · -- a proper prefix so far
      have hp := proper_prefix_of_line (x := p.buffer ++ c) hl hrest (by simpa using h)
      have h1 := dataReceived_partial envAt p c ha hp.1 (by omega)
      rw [h1]
      have := ih { p with buffer := p.buffer ++ c } ha (by simpa using h) (by
        intro heq
        simp only at heq
        have h' : (p.buffer ++ c) ++ cs.flatten = l ++ CRLF := by simpa using h
        rw [heq] at h'
        have h'' : cs.flatten = [] := by simpa using h'
        exact hrest h'')
      simpa using this

/-- One read holding exactly the line and its delimiter is `lineReceived`. -/
theorem lineReceived_eq_dataReceived (envAt : Nat → Env) (p : Proto) (l : Bytes) (hb : p.buffer = [])
    (hl : hasCRLF l = false) (hlen : l.length ≤ maxAuth) :
    dataReceived envAt p (l ++ CRLF) = lineReceived envAt p l := by
  by_cases ha : p.authenticated = true
  · unfold dataReceived lineReceived; simp [ha]
  · have ha' : p.authenticated = false := by simpa using ha
    have := deliver_line envAt l hl hlen [l ++ CRLF] p ha' (by simp [hb]) (by simp [hb, CRLF])
    have hp : ({ p with buffer := [] } : Proto) = p := by cases p; simp_all
    simpa [hp] using this

end Txdbus.AuthClient
