import TxdbusModel.Proofs.Auth.ServerNoCrash
import TxdbusModel.Proofs.Auth.ServerMechs
/-
The real mechanisms never raise (C06): `MechSafe real`, hence `handleAuthMessage` over the real mechanisms
raises nothing but DBusAuthenticationFailed on lines whose command word is UTF-8.  The scripted system is
safe trivially.  Undoing repair C06-04 (forgetting the cookie id after step two) or C06-05 (EXTERNAL
accepting a peer uid without passwd entry) in `Auth/Mechs.lean` breaks `real_safe`.
-/
namespace Txdbus.AuthServer

open Txdbus.Gen.ServerAuth

/-- A newly created mechanism instance. -/
def RealFresh (i : Inst) : Prop :=
  i = .anon ∨ (∃ creds, i = .ext false creds) ∨ i = .cookie CookieSt.init

/-- The session's cookie, if one is outstanding, is in a keyring file that exists. -/
def PreC (w : RealWorld) (c : CookieSt) : Prop := c.cookieId.isSome = true → (lookupFile w c.home).isSome = true

/-- An instance after a step that did not reject. -/
def RealGood (w : RealWorld) : Inst → Prop
  | .anon => True
  | .ext _ creds => ∃ uid e, creds = some uid ∧ getpwuidI w.cfg uid = some e
  | .cookie c => c.stepNum ≥ 1 ∧ c.username.isSome = true ∧ PreC w c

theorem cancel_cookie_isSome (w : RealWorld) (c : CookieSt) (h : PreC w c) :
    (real.cancel w (.cookie c)).isSome = true := by
  show (match c.cookieId with | some id => deleteCookie w c.home (some id) | none => some w).isSome = true
  cases hid : c.cookieId with
  | none => rfl
  | some id => exact deleteCookie_isSome w c.home (some id) (h (by rw [hid]; rfl))

theorem cookieChallenge_good (w : RealWorld) (c : CookieSt) (home : Bytes) (hh : c.home = home)
    (h1 : c.stepNum ≥ 1) (h2 : c.username.isSome = true) :
    ∃ msg, (cookieChallenge w c home).2.2 = .challenge msg ∧
      RealGood (cookieChallenge w c home).1 (.cookie (cookieChallenge w c home).2.1) := by
  obtain ⟨w1, cid, cookie, chal, e1, _, e3⟩ := cookieChallenge_spec w c home
  rw [e1]
  refine ⟨_, rfl, h1, h2, ?_⟩
  intro _
  show (lookupFile w1 c.home).isSome = true
  rw [hh, e3]; rfl

/-- One step of the cookie mechanism from a fresh or good instance. -/
theorem cookieStep_safe (w : RealWorld) (c : CookieSt) (a : Option Bytes)
    (h : RealGood w (.cookie c) ∨ c = CookieSt.init) :
    PreC (cookieStep w c a).1 (cookieStep w c a).2.1 ∧
    ((cookieStep w c a).2.2 ≠ .reject → RealGood (cookieStep w c a).1 (.cookie (cookieStep w c a).2.1)) := by
  have hpre : PreC w c := by
    rcases h with h | h
    · exact h.2.2
    · rw [h]; intro hx; cases hx
  unfold cookieStep
  cases a with
  | none => exact ⟨hpre, fun hx => absurd rfl hx⟩
  | some arg =>
    simp only
    by_cases h0 : c.stepNum = 0
    · simp only [h0, if_true]
      have hinit : c = CookieSt.init := by
        rcases h with h | h
        · have := h.1; omega
        · exact h
      subst hinit
      unfold cookieStepOne
      cases resolveUser w.cfg arg with
      | none => exact ⟨fun hx => (nomatch hx), fun hx => absurd rfl hx⟩
      | some uname =>
        simp only
        cases getpwnam w.cfg uname with
        | none => exact ⟨fun hx => (nomatch hx), fun hx => absurd rfl hx⟩
        | some e =>
          simp only
          cases lookupDir w e.home with
          | bad => exact ⟨fun hx => (nomatch hx), fun hx => absurd rfl hx⟩
          | absent =>
            simp only
            obtain ⟨msg, _, hg⟩ := cookieChallenge_good (setDir w e.home .good)
              { CookieSt.init with stepNum := 0 + 1, username := some uname, home := e.home } e.home rfl
              (by simp) rfl
            exact ⟨hg.2.2, fun _ => hg⟩
          | good =>
            simp only
            obtain ⟨msg, _, hg⟩ := cookieChallenge_good w
              { CookieSt.init with stepNum := 0 + 1, username := some uname, home := e.home } e.home rfl
              (by simp) rfl
            exact ⟨hg.2.2, fun _ => hg⟩
    · have hgood : RealGood w (.cookie c) := by
        rcases h with h | h
        · exact h
        · rw [h] at h0; exact absurd rfl h0
      simp only [h0, if_false]
      by_cases h1 : c.stepNum = 1
      · simp only [h1, if_true]
        unfold cookieStepTwo
        cases hd : deleteCookie w c.home c.cookieId with
        | none =>
          simp only
          exact ⟨hpre, fun hx => absurd rfl hx⟩
        | some w1 =>
          simp only
          have hg : RealGood w1 (.cookie { c with stepNum := 1 + 1, cookieId := none }) :=
            ⟨by simp, hgood.2.1, fun hx => nomatch hx⟩
          split
          · split
            · exact ⟨hg.2.2, fun _ => hg⟩
            · exact ⟨hg.2.2, fun hx => absurd rfl hx⟩
          · exact ⟨hg.2.2, fun hx => absurd rfl hx⟩
      · simp only [h1, if_false]
        exact ⟨hpre, fun hx => absurd rfl hx⟩

/-- The real mechanisms keep `cancel()` and `getUserName()` from raising. -/
theorem real_safe : MechSafe real RealFresh RealGood where
  start_fresh := by
    intro w n
    show RealFresh (match kindOf n with
      | some .external => (w, Inst.ext false w.cfg.creds)
      | some .cookie => (w, Inst.cookie CookieSt.init)
      | _ => (w, Inst.anon)).2
    cases kindOf n with
    | none => exact Or.inl rfl
    | some k => cases k
                · exact Or.inr (Or.inl ⟨_, rfl⟩)
                · exact Or.inr (Or.inr rfl)
                · exact Or.inl rfl
  fresh_cancel := by
    intro w i h
    rcases h with rfl | ⟨c, rfl⟩ | rfl
    · rfl
    · rfl
    · exact cancel_cookie_isSome w _ (fun hx => nomatch hx)
  good_cancel := by
    intro w i h
    cases i with
    | anon => rfl
    | ext ok creds => rfl
    | cookie c => exact cancel_cookie_isSome w c h.2.2
  good_name := by
    intro w i h
    cases i with
    | anon => rfl
    | ext ok creds =>
      obtain ⟨uid, e, rfl, he⟩ := h
      show ((getpwuidI w.cfg uid).map (·.name)).isSome = true
      rw [he]; rfl
    | cookie c => exact h.2.1
  step_ok := by
    intro w i a h
    cases i with
    | anon => exact ⟨rfl, fun _ => trivial⟩
    | ext ok creds =>
      cases creds with
      | none => exact ⟨rfl, fun hx => absurd rfl hx⟩
      | some uid =>
        cases he : getpwuidI w.cfg uid with
        | none =>
          have : real.step w (.ext ok (some uid)) a = (w, .ext ok (some uid), .reject) := by simp [real, he]
          rw [this]; exact ⟨rfl, fun hx => absurd rfl hx⟩
        | some e =>
          cases ok with
          | false => rw [real_step_ext0 w uid e a he]; exact ⟨rfl, fun _ => ⟨uid, e, rfl, he⟩⟩
          | true => rw [real_step_ext1 w uid e a he]; exact ⟨rfl, fun _ => ⟨uid, e, rfl, he⟩⟩
    | cookie c =>
      rw [real_step_cookie]
      have hc : RealGood w (.cookie c) ∨ c = CookieSt.init := by
        rcases h with h | h
        · exact Or.inl h
        · rcases h with h | ⟨_, h⟩ | h
          · cases h
          · cases h
          · exact Or.inr (by injection h)
      obtain ⟨k1, k2⟩ := cookieStep_safe w c a hc
      exact ⟨cancel_cookie_isSome _ _ k1, k2⟩

/-- The scripted mechanisms never raise. -/
theorem scripted_safe (offered : List Bytes) :
    MechSafe (scripted offered) (fun _ => True) (fun _ _ => True) where
  start_fresh := fun _ _ => trivial
  fresh_cancel := fun _ _ _ => rfl
  good_cancel := fun _ _ _ => rfl
  good_name := fun _ _ _ => rfl
  step_ok := fun _ _ _ _ => ⟨rfl, fun _ => trivial⟩

/-! ## the accepted hash is over the challenge that was sent and the cookie that is in the file -/

/-- One exchange of a fresh DBUS_COOKIE_SHA1 instance: if its first step answers a challenge `msg` and its
second step accepts, then `msg` is `<context> <id> <chal>`, the keyring file of the user's home ends (right after
step one) with the entry `(id, now, cookie)`, and the accepted response is `<cc> <hexlify(sha1(chal:cc:cookie))>`
for exactly that `chal` and `cookie`. -/
theorem cookie_exchange_tied (w : RealWorld) (a1 a2 : Option Bytes) (msg : Bytes)
    (h1 : (cookieStep w CookieSt.init a1).2.2 = .challenge msg)
    (h2 : (cookieStep (cookieStep w CookieSt.init a1).1 (cookieStep w CookieSt.init a1).2.1 a2).2.2 = .accept) :
    ∃ (id : Nat) (chal cookie cc resp : Bytes),
      msg = w.cfg.ctx ++ 32 :: natToDec id ++ 32 :: chal ∧
      (∃ old, lookupFile (cookieStep w CookieSt.init a1).1 (cookieStep w CookieSt.init a1).2.1.home =
        some (old ++ [⟨id, w.cfg.now, cookie⟩])) ∧
      a2 = some resp ∧ splitWs resp = [cc, cookieHash w.cfg.sha1 chal cc cookie] := by
  -- step one: which branch produced the challenge
  have hstep1 : ∃ w1 c1 id, cookieStep w CookieSt.init a1 =
      (w1, c1, .challenge (w.cfg.ctx ++ 32 :: natToDec id ++ 32 :: c1.challenge)) ∧ w1.cfg = w.cfg ∧
      (∃ old, lookupFile w1 c1.home = some (old ++ [⟨id, w.cfg.now, c1.cookie⟩])) := by
    unfold cookieStep at h1 ⊢
    cases a1 with
    | none => simp at h1
    | some arg =>
      simp only [show CookieSt.init.stepNum = 0 from rfl, if_true] at h1 ⊢
      unfold cookieStepOne at h1 ⊢
      cases hr : resolveUser w.cfg arg with
      | none => simp [hr] at h1
      | some uname =>
        simp only [hr] at h1 ⊢
        cases hn : getpwnam w.cfg uname with
        | none => simp [hn] at h1
        | some e =>
          simp only [hn] at h1 ⊢
          cases hd : lookupDir w e.home with
          | bad => simp [hd] at h1
          | absent =>
            simp only
            obtain ⟨w1, cid, cookie, chal, e1, e2, e3⟩ := cookieChallenge_spec (setDir w e.home .good)
              { CookieSt.init with stepNum := 0 + 1, username := some uname, home := e.home } e.home
            rw [e1]
            exact ⟨w1, _, cid, rfl, e2, _, e3⟩
          | good =>
            simp only
            obtain ⟨w1, cid, cookie, chal, e1, e2, e3⟩ := cookieChallenge_spec w
              { CookieSt.init with stepNum := 0 + 1, username := some uname, home := e.home } e.home
            rw [e1]
            exact ⟨w1, _, cid, rfl, e2, _, e3⟩
  obtain ⟨w1, c1, id, hs1, hcfg, hfile⟩ := hstep1
  rw [hs1] at h1 h2 ⊢
  simp only at h1 h2 ⊢
  obtain ⟨_, a, cc, hh, ha, hsp, hhash⟩ := cookieStep_accept w1 c1 a2 h2
  injection h1 with h1
  refine ⟨id, c1.challenge, c1.cookie, cc, a, h1.symm, hfile, ha, ?_⟩
  rw [hsp, hhash, hcfg]

/-! ## witness: the code before repair C06-04 -/

/-- `_step_two` before C06-04: the cookie id is kept after the cookie was deleted. -/
def cookieStepTwoPre (w : RealWorld) (c : CookieSt) (response : Bytes) : RealWorld × CookieSt × Outcome :=
  match deleteCookie w c.home c.cookieId with
  | none => (w, c, .reject)
  | some w1 =>
    match splitWs response with
    | [cc, h] => if cookieHash w.cfg.sha1 c.challenge cc c.cookie = h then (w1, c, .accept) else (w1, c, .reject)
    | _ => (w1, c, .reject)

/-- a keyring file holding only the session's cookie (id 1) -/
def w0 : RealWorld :=
  ⟨⟨none, [], 0, false, fun _ _ => [], fun _ => [1], []⟩, [], [([], [⟨1, 0, []⟩])], 0⟩
/-- the cookie mechanism after its challenge, cookie id 1 outstanding -/
def c0 : CookieSt := ⟨1, some [], some 1, [], [], []⟩

/-- With the pre-repair step two, a wrong response on a keyring file holding only the session's cookie leaves
an instance whose `cancel()` (called by `reject()`) raises FileNotFoundError; the repaired step does not. -/
theorem prefix_cookie_double_delete_raises :
    (real.cancel (cookieStepTwoPre w0 c0 []).1 (.cookie (cookieStepTwoPre w0 c0 []).2.1)).isNone = true ∧
    (real.cancel (cookieStepTwo w0 c0 []).1 (.cookie (cookieStepTwo w0 c0 []).2.1)).isSome = true := by
  decide

end Txdbus.AuthServer
