/-
C07 proofs - the client model completes the handshake against the reference server
(`Auth/SpecServerRef.lean`) whenever the server accepts a mechanism the client can use.
The composition (`handshake`) is evaluated symbolically round by round; what is not concrete
(user name, GUID, cookie, challenge, hash function, keyring) is handled by the byte-string lemmas.
-/
import TxdbusModel.Auth.ClientHandshake
import TxdbusModel.Proofs.Auth.ClientBytesLemmas

namespace Txdbus.AuthClient

open SpecServer

theorem pref_eq : Gen.ClientAuth.preference = [mEXTERNAL, mCOOKIE, mANONYMOUS] := by decide

theorem hexlify_txdbus : hexlify [116, 120, 100, 98, 117, 115] = b!"747864627573" := by decide

theorem splitWsAux_hexlify (x : Bytes) :
    splitWsAux [] (hexlify x) = if x = [] then [] else [hexlify x] := by
  split
  · rename_i h; subst h; rfl
  · rename_i h
    exact splitWs_one (noSpace_hexlify x) (hexlify_ne_nil h)

theorem strip_hexlify (x : Bytes) : strip (hexlify x) = hexlify x := strip_noSpace (noSpace_hexlify x)

theorem hexlify_isEmpty {x : Bytes} (h : x ≠ []) : (hexlify x).isEmpty = false := by
  cases x with
  | nil => exact absurd rfl h
  | cons b t => simp [hexlify]

theorem strip_nil : strip [] = [] := rfl
theorem unhexlify_nil : unhexlify [] = .ok [] := rfl

theorem hexlify_eq_nil_iff (x : Bytes) : hexlify x = [] ↔ x = [] := by
  cases x <;> simp [hexlify]

theorem splitWsAux_two' {a b : Bytes} (ha : NoSpace a) (hb : NoSpace b) (hane : a ≠ []) (hbne : b ≠ []) :
    splitWsAux [] (a ++ 32 :: b) = [a, b] := splitWs_two ha hb hane hbne

theorem splitWsAux_three' {a b c : Bytes} (ha : NoSpace a) (hb : NoSpace b) (hc : NoSpace c)
    (hane : a ≠ []) (hbne : b ≠ []) (hcne : c ≠ []) :
    splitWsAux [] (a ++ 32 :: (b ++ 32 :: c)) = [a, b, c] := splitWs_three ha hb hc hane hbne hcne

/-- What makes DBUS_COOKIE_SHA1 usable for this client against this server: the server's challenge is
three clean tokens on a line within the limit, the client's keyring holds the server's cookie, both
use the same hash function (whose digests are not empty), and the user name is not empty. -/
structure CookieUsable (cfg : Cfg) (env : Env) : Prop where
  user : env.user ≠ []
  ctxClean : NoSpace cfg.cookieCtx
  ctxNe : cfg.cookieCtx ≠ []
  idClean : NoSpace cfg.cookieId
  idNe : cfg.cookieId ≠ []
  chalClean : NoSpace cfg.challenge
  chalNe : cfg.challenge ≠ []
  lineLen : 5 + 2 * (cfg.cookieCtx.length + 1 + (cfg.cookieId.length + 1 + cfg.challenge.length)) ≤ maxAuth
  lookup : getCookie env cfg.cookieCtx cfg.cookieId = .ok (some cfg.cookie)
  sameHash : env.sha1 = cfg.sha1
  digestNe : ∀ x, cfg.sha1 x ≠ []

/-- The simp set that evaluates one round of the composition. -/
macro "hs_eval" : tactic =>
  `(tactic| simp [handshakeLoop, sends, SpecServer.feed, SpecServer.step, splitCmd, splitWs, splitWsAux, isSpace,
      SpecServer.findMech, SpecServer.Mech.all, SpecServer.Mech.name, SpecServer.rejected, joinWith,
      SpecServer.mechStart, SpecServer.mechData, SpecServer.okLine, SpecServer.lERROR,
      lineReceived, processLines, handleAuthMessage, authREJECTED, authTryNextMethod, authOK, authAGREE, authDATA, authERROR,
      cREJECTED, cOK, cAGREE, cDATA, cERROR, lBEGIN, lNEGOTIATE, lDATA, lCANCEL,
      maxAuth, Gen.ClientAuth.maxAuthLength, CRLF,
      mEXTERNAL, mCOOKIE, mANONYMOUS, authLine, splitWsAux_hexlify, strip_hexlify,
      unhexlify_hexlify, hexlify_isEmpty, strip_nil, unhexlify_nil, cookieResponse, noSpace_hexlify,
      hexlify_eq_nil_iff, splitWsAux_two', splitWsAux_three', hexlify_length, *])

/-- The outcome the completion theorem is about. -/
def Completed (sys : Sys) : Prop :=
  sys.client.authenticated = true ∧ sys.server = .authenticated ∧ sys.client.disconnecting = false

set_option maxRecDepth 8000 in
theorem completes_external (unix : Bool) (cfg : Cfg) (env : Env) (g : Bytes) (hg : g ≠ [])
    (hguid : cfg.guidHex = hexlify g) (hglen : 2 * g.length + 3 ≤ maxAuth) (h1 : cfg.accepts .external = true) :
    Completed (handshake Gen.ClientAuth.preference unix cfg (fun _ => env) 16) := by
  rw [pref_eq]
  unfold Completed
  have hl : ¬ 16384 < 2 * List.length g + 1 + 1 + 1 := by
    simp only [maxAuth, Gen.ClientAuth.maxAuthLength] at hglen; omega
  simp only [handshake, connectionMade, authTryNextMethod, mEXTERNAL, authLine]
  cases unix <;> cases hfd : cfg.fdAgree <;> hs_eval

set_option maxRecDepth 8000 in
theorem completes_anonymous (unix : Bool) (cfg : Cfg) (env : Env) (g : Bytes) (hg : g ≠ [])
    (hguid : cfg.guidHex = hexlify g) (hglen : 2 * g.length + 3 ≤ maxAuth) (h1 : cfg.accepts .external = false) (h2 : cfg.accepts .cookie = false)
    (h3 : cfg.accepts .anonymous = true) :
    Completed (handshake Gen.ClientAuth.preference unix cfg (fun _ => env) 16) := by
  rw [pref_eq]
  unfold Completed
  have hl : ¬ 16384 < 2 * List.length g + 1 + 1 + 1 := by
    simp only [maxAuth, Gen.ClientAuth.maxAuthLength] at hglen; omega
  simp only [handshake, connectionMade, authTryNextMethod, mEXTERNAL, authLine]
  cases unix <;> cases hfd : cfg.fdAgree <;> hs_eval

set_option maxRecDepth 8000 in
theorem completes_cookie (unix : Bool) (cfg : Cfg) (env : Env) (g : Bytes) (hg : g ≠ [])
    (hguid : cfg.guidHex = hexlify g) (hglen : 2 * g.length + 3 ≤ maxAuth)
    (h1 : cfg.accepts .external = false) (h2 : cfg.accepts .cookie = true) (hc : CookieUsable cfg env) :
    Completed (handshake Gen.ClientAuth.preference unix cfg (fun _ => env) 16) := by
  rw [pref_eq]
  unfold Completed
  have hl : ¬ 16384 < 2 * List.length g + 1 + 1 + 1 := by
    simp only [maxAuth, Gen.ClientAuth.maxAuthLength] at hglen; omega
  obtain ⟨hu, hc1, hc2, hi1, hi2, hh1, hh2, hlen, hlook, hsame, hdig⟩ := hc
  have hl2 : ¬ 16384 < 2 * (List.length cfg.cookieCtx +
      (List.length cfg.cookieId + (List.length cfg.challenge + 1) + 1)) + 1 + 1 + 1 + 1 + 1 := by
    simp only [maxAuth, Gen.ClientAuth.maxAuthLength] at hlen; omega
  simp only [handshake, connectionMade, authTryNextMethod, mEXTERNAL, authLine]
  cases unix <;> cases hfd : cfg.fdAgree <;> cases h3 : cfg.accepts .anonymous <;> hs_eval

/-- Same as `hs_eval`, but the cookie step of the client and the cookie check of the server stay folded. -/
macro "hs_eval_folded" : tactic =>
  `(tactic| simp [handshakeLoop, sends, SpecServer.feed, SpecServer.step, splitCmd, splitWs, splitWsAux, isSpace,
      SpecServer.findMech, SpecServer.Mech.all, SpecServer.Mech.name, SpecServer.rejected, joinWith,
      SpecServer.mechStart, SpecServer.okLine, SpecServer.lERROR,
      lineReceived, processLines, handleAuthMessage, authREJECTED, authTryNextMethod, authOK, authAGREE, authDATA, authERROR,
      cREJECTED, cOK, cAGREE, cDATA, cERROR, lBEGIN, lNEGOTIATE, lDATA, lCANCEL,
      maxAuth, Gen.ClientAuth.maxAuthLength, CRLF,
      mEXTERNAL, mCOOKIE, mANONYMOUS, authLine, splitWsAux_hexlify, strip_hexlify,
      unhexlify_hexlify, hexlify_isEmpty, strip_nil, unhexlify_nil, noSpace_hexlify,
      hexlify_eq_nil_iff, hexlify_length, *])

theorem cookieResponse_ok_form {env : Env} {args l : Bytes} (h : cookieResponse env args = .ok l) :
    ∃ y, l = b!"DATA " ++ hexlify y := by
  unfold cookieResponse at h
  split at h <;> try (simp at h)
  split at h <;> try (simp at h)
  split at h <;> try (simp at h)
  exact ⟨_, h.symm⟩

theorem mechData_cookie_cases (cfg : Cfg) (y : Bytes) :
    mechData cfg .cookie y = (.waitingForBegin, [okLine cfg]) ∨
    mechData cfg .cookie y = (.waitingForAuth, [rejected cfg]) := by
  unfold mechData
  simp only
  split
  · split
    · exact Or.inl rfl
    · exact Or.inr rfl
  · exact Or.inr rfl

set_option maxRecDepth 8000 in
theorem completes_cookie_or_anonymous (unix : Bool) (cfg : Cfg) (env : Env) (g : Bytes) (hg : g ≠ [])
    (hguid : cfg.guidHex = hexlify g) (hglen : 2 * g.length + 3 ≤ maxAuth)
    (hclen : 5 + 2 * (cfg.cookieCtx.length + 1 + (cfg.cookieId.length + 1 + cfg.challenge.length)) ≤ maxAuth)
    (h1 : cfg.accepts .external = false) (h2 : cfg.accepts .cookie = true) (h3 : cfg.accepts .anonymous = true) :
    Completed (handshake Gen.ClientAuth.preference unix cfg (fun _ => env) 16) := by
  rw [pref_eq]
  unfold Completed
  have hl : ¬ 16384 < 2 * List.length g + 1 + 1 + 1 := by
    simp only [maxAuth, Gen.ClientAuth.maxAuthLength] at hglen; omega
  have hl2 : ¬ 16384 < 2 * (List.length cfg.cookieCtx +
      (List.length cfg.cookieId + (List.length cfg.challenge + 1) + 1)) + 1 + 1 + 1 + 1 + 1 := by
    simp only [maxAuth, Gen.ClientAuth.maxAuthLength] at hclen; omega
  simp only [handshake, connectionMade, authTryNextMethod, mEXTERNAL, authLine]
  by_cases hu : env.user = []
  · cases unix <;> cases hfd : cfg.fdAgree <;> hs_eval_folded
  · obtain ⟨r, hcr⟩ : ∃ r, cookieResponse env
        (hexlify (cfg.cookieCtx ++ 32 :: (cfg.cookieId ++ 32 :: cfg.challenge))) = r := ⟨_, rfl⟩
    cases r with
    | error e => cases unix <;> cases hfd : cfg.fdAgree <;> hs_eval_folded
    | ok line =>
      obtain ⟨y, rfl⟩ := cookieResponse_ok_form hcr
      rcases mechData_cookie_cases cfg y with hm | hm <;>
        cases unix <;> cases hfd : cfg.fdAgree <;> hs_eval_folded

end Txdbus.AuthClient
