/-
C07 proofs - shape of the trace of every run: each step appends one of four short patterns;
consequences: every received line is directly followed by a reaction, nothing is written after
closing, nothing happens in line mode after authentication, the AUTH lines follow the preference list.
-/
import TxdbusModel.Proofs.Auth.ClientCore
import TxdbusModel.Proofs.Auth.ClientHandle
import TxdbusModel.Proofs.Auth.ClientLiveness

namespace Txdbus.AuthClient

/-- What one step does to the observable part of the state. -/
inductive StepForm (c c' : Core) : Prop
  | same : c' = c → StepForm c c'
  | closed : c.authenticated = false → c'.trace = c.trace ++ [Ev.close] → c'.disconnecting = true →
      c'.authenticated = false → c'.auth = c.auth → StepForm c c'
  | failed (l : Bytes) : c.authenticated = false → c.disconnecting = false →
      c'.trace = c.trace ++ [Ev.recv l, Ev.close] → c'.disconnecting = true → c'.authenticated = false →
      c'.auth = c.auth → StepForm c c'
  | answered (env : Env) (l x : Bytes) : c.authenticated = false → c.disconnecting = false →
      c'.trace = c.trace ++ [Ev.recv l, Ev.send x] → c'.disconnecting = false → c'.authenticated = false →
      c'.auth.authenticated = false → Handled env c.auth l c'.auth [x] → StepForm c c'
  | finished (env : Env) (l x : Bytes) : c.authenticated = false → c.disconnecting = false →
      c'.trace = c.trace ++ [Ev.recv l, Ev.send x, Ev.authenticated] → c'.disconnecting = false →
      c'.authenticated = true → c'.auth.authenticated = true → Handled env c.auth l c'.auth [x] → StepForm c c'

theorem Core.step_form (c : Core) (s : Step) : StepForm c (c.step s) := by
  cases s with
  | overflow =>
    simp only [Core.step]
    split
    · exact .same rfl
    · rename_i h
      exact .closed (by simpa using h) rfl rfl (by simpa [Core.close] using h) rfl
  | line env l =>
    simp only [Core.step, Core.line]
    split
    · exact .same rfl
    · rename_i ha
      simp only [Bool.not_eq_true] at ha
      split
      · exact .same rfl
      · rename_i hd
        simp only [Bool.not_eq_true] at hd
        split
        · exact .closed ha rfl rfl (by simp [Core.close, ha]) rfl
        · split
          · exact .failed l ha hd (by simp [Core.close]) rfl (by simp [Core.close, ha]) rfl
          · rename_i a out hh
            have H := handle_ok_cases hh
            obtain ⟨x, rfl⟩ := handled_one_reply H
            split
            · rename_i hau
              exact .finished env l x ha hd (by simp) hd rfl hau H
            · rename_i hau
              exact .answered env l x ha hd (by simp) hd ha (by simpa using hau) H

/-- Induction principle: a property of cores that holds initially and is kept by every step form
holds after every run. -/
theorem Core.run_induct (P : Core → Prop) (steps : List Step) :
    ∀ c : Core, P c → (∀ c c', P c → StepForm c c' → P c') → P (c.run steps) := by
  induction steps with
  | nil => intro c h _; exact h
  | cons s t ih =>
    intro c h hstep
    exact ih (c.step s) (hstep c _ h (c.step_form s)) hstep

theorem split_append {tr ext pre post : List Ev} {e : Ev} (h : tr ++ ext = pre ++ e :: post) :
    (∃ p', tr = pre ++ e :: p' ∧ post = p' ++ ext) ∨ (∃ q, pre = tr ++ q ∧ ext = q ++ e :: post) := by
  rcases List.append_eq_append_iff.mp h with ⟨a', rfl, h2⟩ | ⟨c', h1, h2⟩
  · exact Or.inr ⟨a', rfl, h2⟩
  · cases c' with
    | nil =>
      simp only [List.append_nil] at h1
      exact Or.inr ⟨[], by simp [h1], by simpa using h2.symm⟩
    | cons x c'' =>
      simp only [List.cons_append, List.cons.injEq] at h2
      obtain ⟨rfl, rfl⟩ := h2
      exact Or.inl ⟨c'', h1, rfl⟩

structure InvT (c : Core) : Prop where
  reacts : ReactsToEveryLine c.trace
  silent : SilentAfterClose c.trace
  noClose : c.disconnecting = false → Ev.close ∉ c.trace
  final : ∀ pre post, c.trace = pre ++ Ev.authenticated :: post → post = []
  notAuth : c.authenticated = false → Ev.authenticated ∉ c.trace

theorem InvT.step {c c' : Core} (h : InvT c) (f : StepForm c c') : InvT c' := by
  cases f with
  | same e => subst e; exact h
  | closed ha ht hd ha' _ =>
    refine ⟨?_, ?_, by simp [hd], ?_, ?_⟩
    · intro pre l post heq
      rw [ht] at heq
      rcases split_append heq with ⟨p', h1, rfl⟩ | ⟨q, -, h2⟩
      · obtain ⟨e, rest, rfl, he⟩ := h.reacts pre l p' h1
        exact ⟨e, rest ++ [Ev.close], rfl, he⟩
      · rcases q with _ | ⟨q1, _ | ⟨q2, q⟩⟩ <;> simp at h2
    · intro pre post heq
      rw [ht] at heq
      rcases split_append heq with ⟨p', h1, rfl⟩ | ⟨q, -, h2⟩
      · intro e he
        simp only [List.mem_append, List.mem_singleton] at he
        rcases he with he | he
        · exact h.silent pre p' h1 e he
        · exact he
      · rcases q with _ | ⟨q1, _ | ⟨q2, q⟩⟩ <;> simp at h2
        subst h2; simp
    · intro pre post heq
      rw [ht] at heq
      rcases split_append heq with ⟨p', h1, rfl⟩ | ⟨q, -, h2⟩
      · exact absurd (by rw [h1]; simp) (h.notAuth ha)
      · rcases q with _ | ⟨q1, _ | ⟨q2, q⟩⟩ <;> simp at h2
    · intro _
      rw [ht]
      simpa using h.notAuth ha
  | failed l ha hd ht hd' ha' _ =>
    refine ⟨?_, ?_, by simp [hd'], ?_, ?_⟩
    · intro pre l' post heq
      rw [ht] at heq
      rcases split_append heq with ⟨p', h1, rfl⟩ | ⟨q, -, h2⟩
      · obtain ⟨e, rest, rfl, he⟩ := h.reacts pre l' p' h1
        exact ⟨e, rest ++ _, rfl, he⟩
      · rcases q with _ | ⟨q1, _ | ⟨q2, _ | ⟨q3, q⟩⟩⟩ <;> simp at h2
        obtain ⟨-, rfl⟩ := h2
        exact ⟨Ev.close, [], rfl, rfl⟩
    · intro pre post heq
      rw [ht] at heq
      rcases split_append heq with ⟨p', h1, rfl⟩ | ⟨q, -, h2⟩
      · exact absurd (by rw [h1]; simp) (h.noClose hd)
      · rcases q with _ | ⟨q1, _ | ⟨q2, _ | ⟨q3, q⟩⟩⟩ <;> simp at h2
        obtain ⟨-, rfl⟩ := h2; simp
    · intro pre post heq
      rw [ht] at heq
      rcases split_append heq with ⟨p', h1, rfl⟩ | ⟨q, -, h2⟩
      · exact absurd (by rw [h1]; simp) (h.notAuth ha)
      · rcases q with _ | ⟨q1, _ | ⟨q2, _ | ⟨q3, q⟩⟩⟩ <;> simp at h2
    · intro _
      rw [ht]
      simpa using h.notAuth ha
  | answered env l x ha hd ht hd' ha' _ _ =>
    refine ⟨?_, ?_, ?_, ?_, ?_⟩
    · intro pre l' post heq
      rw [ht] at heq
      rcases split_append heq with ⟨p', h1, rfl⟩ | ⟨q, -, h2⟩
      · obtain ⟨e, rest, rfl, he⟩ := h.reacts pre l' p' h1
        exact ⟨e, rest ++ _, rfl, he⟩
      · rcases q with _ | ⟨q1, _ | ⟨q2, _ | ⟨q3, q⟩⟩⟩ <;> simp at h2
        obtain ⟨-, rfl⟩ := h2
        exact ⟨Ev.send x, [], rfl, rfl⟩
    · intro pre post heq
      rw [ht] at heq
      rcases split_append heq with ⟨p', h1, rfl⟩ | ⟨q, -, h2⟩
      · exact absurd (by rw [h1]; simp) (h.noClose hd)
      · rcases q with _ | ⟨q1, _ | ⟨q2, _ | ⟨q3, q⟩⟩⟩ <;> simp at h2
    · intro _
      rw [ht]
      simpa using h.noClose hd
    · intro pre post heq
      rw [ht] at heq
      rcases split_append heq with ⟨p', h1, rfl⟩ | ⟨q, -, h2⟩
      · exact absurd (by rw [h1]; simp) (h.notAuth ha)
      · rcases q with _ | ⟨q1, _ | ⟨q2, _ | ⟨q3, q⟩⟩⟩ <;> simp at h2
    · intro _
      rw [ht]
      simpa using h.notAuth ha
  | finished env l x ha hd ht hd' ha' _ _ =>
    refine ⟨?_, ?_, ?_, ?_, by simp [ha']⟩
    · intro pre l' post heq
      rw [ht] at heq
      rcases split_append heq with ⟨p', h1, rfl⟩ | ⟨q, -, h2⟩
      · obtain ⟨e, rest, rfl, he⟩ := h.reacts pre l' p' h1
        exact ⟨e, rest ++ _, rfl, he⟩
      · rcases q with _ | ⟨q1, _ | ⟨q2, _ | ⟨q3, _ | ⟨q4, q⟩⟩⟩⟩ <;> simp at h2
        obtain ⟨-, rfl⟩ := h2
        exact ⟨Ev.send x, _, rfl, rfl⟩
    · intro pre post heq
      rw [ht] at heq
      rcases split_append heq with ⟨p', h1, rfl⟩ | ⟨q, -, h2⟩
      · exact absurd (by rw [h1]; simp) (h.noClose hd)
      · rcases q with _ | ⟨q1, _ | ⟨q2, _ | ⟨q3, _ | ⟨q4, q⟩⟩⟩⟩ <;> simp at h2
    · intro _
      rw [ht]
      simpa using h.noClose hd
    · intro pre post heq
      rw [ht] at heq
      rcases split_append heq with ⟨p', h1, rfl⟩ | ⟨q, -, h2⟩
      · exact absurd (by rw [h1]; simp) (h.notAuth ha)
      · rcases q with _ | ⟨q1, _ | ⟨q2, _ | ⟨q3, _ | ⟨q4, q⟩⟩⟩⟩ <;> simp at h2
        exact h2.2.2

theorem InvT.init (pref : List Bytes) (unix : Bool) (env : Env) :
    InvT (connectionMade pref unix env).core := by
  unfold connectionMade authTryNextMethod
  cases pref with
  | nil =>
    refine ⟨?_, ?_, by simp [Proto.core, Proto.close], ?_, by simp [Proto.core, Proto.close]⟩
    · intro pre l post heq
      have h2 : [Ev.nul, Ev.close] = pre ++ Ev.recv l :: post := heq
      rcases pre with _ | ⟨q1, _ | ⟨q2, q⟩⟩ <;> simp at h2
    · intro pre post heq
      have h2 : [Ev.nul, Ev.close] = pre ++ Ev.close :: post := heq
      rcases pre with _ | ⟨q1, _ | ⟨q2, q⟩⟩ <;> simp at h2
      obtain ⟨-, rfl⟩ := h2; simp
    · intro pre post heq
      have h2 : [Ev.nul, Ev.close] = pre ++ Ev.authenticated :: post := heq
      rcases pre with _ | ⟨q1, _ | ⟨q2, q⟩⟩ <;> simp at h2
  | cons m rest =>
    refine ⟨?_, ?_, by simp [Proto.core], ?_, by simp [Proto.core]⟩
    · intro pre l post heq
      have h2 : [Ev.nul, Ev.send (authLine env m)] = pre ++ Ev.recv l :: post := heq
      rcases pre with _ | ⟨q1, _ | ⟨q2, q⟩⟩ <;> simp at h2
    · intro pre post heq
      have h2 : [Ev.nul, Ev.send (authLine env m)] = pre ++ Ev.close :: post := heq
      rcases pre with _ | ⟨q1, _ | ⟨q2, q⟩⟩ <;> simp at h2
    · intro pre post heq
      have h2 : [Ev.nul, Ev.send (authLine env m)] = pre ++ Ev.authenticated :: post := heq
      rcases pre with _ | ⟨q1, _ | ⟨q2, q⟩⟩ <;> simp at h2

theorem invT_clientRun (pref : List Bytes) (unix : Bool) (envAt : Nat → Env) (chunks : List Bytes) :
    InvT (clientRun pref unix envAt chunks).core := by
  obtain ⟨steps, hs⟩ := clientRun_core pref unix envAt chunks
  rw [hs]
  exact Core.run_induct InvT steps _ (InvT.init pref unix (envAt 0)) (fun _ _ h f => h.step f)

/-! ### The AUTH lines follow the preference list -/

theorem authLines_append (a b : List Ev) : authLines (a ++ b) = authLines a ++ authLines b := by
  induction a with
  | nil => rfl
  | cons e t ih =>
    cases e <;> simp [authLines, ih]
    split <;> simp

theorem authLine_isAuth (env : Env) (m : Bytes) : (b!"AUTH ").isPrefixOf (authLine env m) = true := by
  unfold authLine
  split
  · simp
  · split <;> simp

theorem authLine_isOffer (env : Env) (m : Bytes) : IsOfferOf (authLine env m) m := by
  unfold authLine
  split
  · exact Or.inr ⟨_, rfl⟩
  · split
    · exact Or.inr ⟨_, rfl⟩
    · exact Or.inl rfl

theorem OfferedInOrder.snoc {ls ms : List Bytes} {l m : Bytes} (h : OfferedInOrder ls ms)
    (hl : IsOfferOf l m) : OfferedInOrder (ls ++ [l]) (ms ++ [m]) := by
  induction h with
  | nil => exact .cons hl .nil
  | cons h1 _ ih => exact .cons h1 ih

structure InvM (pref : List Bytes) (c : Core) : Prop where
  ex : ∃ k, k ≤ pref.length ∧ c.auth.authOrder = pref.drop k ∧
    OfferedInOrder (authLines c.trace) (pref.take k)

theorem InvM.handled {pref : List Bytes} {c : Core} (h : InvM pref c) {env : Env} {l x : Bytes} {a' : Auth}
    (H : Handled env c.auth l a' [x]) (tail : List Ev) (htail : authLines tail = []) :
    ∃ k, k ≤ pref.length ∧ a'.authOrder = pref.drop k ∧
      OfferedInOrder (authLines (c.trace ++ [Ev.recv l, Ev.send x] ++ tail)) (pref.take k) := by
  obtain ⟨k, hk, ho, hf⟩ := h.ex
  rw [authLines_append, authLines_append, htail, List.append_nil]
  cases H with
  | next m rest hc hm =>
    rw [ho] at hm
    have hlt : k < pref.length := by
      rcases Nat.lt_or_ge k pref.length with hh | hh
      · exact hh
      · rw [List.drop_eq_nil_of_le hh] at hm
        simp at hm
    rw [List.drop_eq_getElem_cons hlt] at hm
    simp only [List.cons.injEq] at hm
    obtain ⟨hm1, hm2⟩ := hm
    refine ⟨k + 1, by omega, hm2.symm, ?_⟩
    simp only [authLines, authLine_isAuth, if_true]
    rw [List.take_succ_eq_append_getElem hlt, hm1]
    exact hf.snoc (authLine_isOffer env m)
  | okNegotiate g hok hu => exact ⟨k, hk, ho, by simpa [authLines, lNEGOTIATE] using hf⟩
  | data line hc hl =>
    refine ⟨k, hk, ho, ?_⟩
    rcases hl with rfl | rfl | ⟨y, rfl⟩ | ⟨y, rfl⟩ <;> simpa [authLines, lDATA, lCANCEL] using hf
  | okBegin g hok hu => exact ⟨k, hk, ho, by simpa [authLines, lBEGIN] using hf⟩
  | agree hc hu hn => exact ⟨k, hk, ho, by simpa [authLines, lBEGIN] using hf⟩
  | errorBegin hc hn => exact ⟨k, hk, ho, by simpa [authLines, lBEGIN] using hf⟩

theorem InvM.step {pref : List Bytes} {c c' : Core} (h : InvM pref c) (f : StepForm c c') : InvM pref c' := by
  obtain ⟨k, hk, ho, hf⟩ := h.ex
  obtain ⟨a', d', au', t'⟩ := c'
  cases f with
  | same e => rw [e]; exact h
  | closed ha ht hd ha' hau =>
    simp only at ht hau
    subst ht hau
    exact ⟨k, hk, ho, by rw [authLines_append]; simpa [authLines] using hf⟩
  | failed l ha hd ht hd' ha' hau =>
    simp only at ht hau
    subst ht hau
    exact ⟨k, hk, ho, by rw [authLines_append]; simpa [authLines] using hf⟩
  | answered env l x ha hd ht hd' ha' haa H =>
    simp only at ht H
    subst ht
    exact ⟨by simpa using h.handled H [] rfl⟩
  | finished env l x ha hd ht hd' ha' haa H =>
    simp only at ht H
    subst ht
    exact ⟨by simpa using h.handled H [Ev.authenticated] rfl⟩

theorem InvM.init (pref : List Bytes) (unix : Bool) (env : Env) :
    InvM pref (connectionMade pref unix env).core := by
  unfold connectionMade authTryNextMethod
  cases pref with
  | nil => exact ⟨0, by simp, rfl, by simpa [Proto.core, Proto.close, authLines] using OfferedInOrder.nil⟩
  | cons m rest =>
    refine ⟨1, by simp, rfl, ?_⟩
    simp only [Proto.core, List.map_cons, List.map_nil, List.cons_append, List.nil_append, authLines,
      authLine_isAuth, if_true, List.take_succ_cons, List.take_zero]
    exact .cons (authLine_isOffer env m) .nil

theorem invM_clientRun (pref : List Bytes) (unix : Bool) (envAt : Nat → Env) (chunks : List Bytes) :
    InvM pref (clientRun pref unix envAt chunks).core := by
  obtain ⟨steps, hs⟩ := clientRun_core pref unix envAt chunks
  rw [hs]
  exact Core.run_induct (InvM pref) steps _ (InvM.init pref unix (envAt 0)) (fun _ _ h f => h.step f)

end Txdbus.AuthClient
