/-
C07 proofs - shape of the trace of every run: each step appends one of four short patterns;
consequences: every received line is directly followed by a reaction, nothing is written after
closing, nothing happens in line mode after authentication, the AUTH lines follow the preference list.
-/
import TxdbusModel.Proofs.Auth.ClientCore
import TxdbusModel.Proofs.Auth.ClientHandle
import TxdbusModel.Proofs.Auth.ClientLiveness

namespace Txdbus.AuthClient

/-- What one step does to the observable part of the state. -/
inductive StepForm (c c' : Core) : Prop
  | same : c' = c → StepForm c c'
  | closed : c.authenticated = false → c'.trace = c.trace ++ [Ev.close] → c'.disconnecting = true →
      c'.authenticated = false → c'.auth = c.auth → StepForm c c'
  | failed (l : Bytes) : c.authenticated = false → c.disconnecting = false →
      c'.trace = c.trace ++ [Ev.recv l, Ev.close] → c'.disconnecting = true → c'.authenticated = false →
      c'.auth = c.auth → StepForm c c'
  | answered (env : Env) (l x : Bytes) : c.authenticated = false → c.disconnecting = false →
      c'.trace = c.trace ++ [Ev.recv l, Ev.send x] → c'.disconnecting = false → c'.authenticated = false →
      Handled env c.auth l c'.auth [x] → StepForm c c'
  | finished (env : Env) (l x : Bytes) : c.authenticated = false → c.disconnecting = false →
      c'.trace = c.trace ++ [Ev.recv l, Ev.send x, Ev.authenticated] → c'.disconnecting = false →
      c'.authenticated = true → Handled env c.auth l c'.auth [x] → StepForm c c'

theorem Core.step_form (c : Core) (s : Step) : StepForm c (c.step s) := by
  cases s with
  | overflow =>
    simp only [Core.step]
    split
    · exact .same rfl
    · rename_i h
      exact .closed (by simpa using h) rfl rfl (by simpa [Core.close] using h) rfl
  | line env l =>
    simp only [Core.step, Core.line]
    split
    · exact .same rfl
    · rename_i ha
      simp only [Bool.not_eq_true] at ha
      split
      · exact .same rfl
      · rename_i hd
        simp only [Bool.not_eq_true] at hd
        split
        · exact .closed ha rfl rfl (by simp [Core.close, ha]) rfl
        · split
          · exact .failed l ha hd (by simp [Core.close]) rfl (by simp [Core.close, ha]) rfl
          · rename_i a out hh
            have H := handle_ok_cases hh
            obtain ⟨x, rfl⟩ := handled_one_reply H
            split
            · rename_i hau
              exact .finished env l x ha hd (by simp) hd rfl H
            · rename_i hau
              exact .answered env l x ha hd (by simp) hd ha H

/-- Induction principle: a property of cores that holds initially and is kept by every step form
holds after every run. -/
theorem Core.run_induct (P : Core → Prop) (steps : List Step) :
    ∀ c : Core, P c → (∀ c c', P c → StepForm c c' → P c') → P (c.run steps) := by
  induction steps with
  | nil => intro c h _; exact h
  | cons s t ih =>
    intro c h hstep
    exact ih (c.step s) (hstep c _ h (c.step_form s)) hstep

theorem split_append {tr ext pre post : List Ev} {e : Ev} (h : tr ++ ext = pre ++ e :: post) :
    (∃ p', tr = pre ++ e :: p' ∧ post = p' ++ ext) ∨ (∃ q, pre = tr ++ q ∧ ext = q ++ e :: post) := by
  rcases List.append_eq_append_iff.mp h with ⟨a', rfl, h2⟩ | ⟨c', h1, h2⟩
  · exact Or.inr ⟨a', rfl, h2⟩
  · cases c' with
    | nil =>
      simp only [List.append_nil] at h1
      exact Or.inr ⟨[], by simp [h1], by simpa using h2.symm⟩
    | cons x c'' =>
      simp only [List.cons_append, List.cons.injEq] at h2
      obtain ⟨rfl, rfl⟩ := h2
      exact Or.inl ⟨c'', h1, rfl⟩

structure InvT (c : Core) : Prop where
  reacts : ReactsToEveryLine c.trace
  silent : SilentAfterClose c.trace
  noClose : c.disconnecting = false → Ev.close ∉ c.trace
  final : ∀ pre post, c.trace = pre ++ Ev.authenticated :: post → post = []
  notAuth : c.authenticated = false → Ev.authenticated ∉ c.trace

theorem InvT.step {c c' : Core} (h : InvT c) (f : StepForm c c') : InvT c' := by
  cases f with
  | same e => subst e; exact h
  | closed ha ht hd ha' _ =>
    refine ⟨?_, ?_, by simp [hd], ?_, ?_⟩
    · intro pre l post heq
      rw [ht] at heq
      rcases split_append heq with ⟨p', h1, rfl⟩ | ⟨q, -, h2⟩
      · obtain ⟨e, rest, rfl, he⟩ := h.reacts pre l p' h1
        exact ⟨e, rest ++ [Ev.close], rfl, he⟩
      · rcases q with _ | ⟨q1, _ | ⟨q2, q⟩⟩ <;> simp at h2
    · intro pre post heq
      rw [ht] at heq
      rcases split_append heq with ⟨p', h1, rfl⟩ | ⟨q, -, h2⟩
      · intro e he
        simp only [List.mem_append, List.mem_singleton] at he
        rcases he with he | he
        · exact h.silent pre p' h1 e he
        · exact he
      · rcases q with _ | ⟨q1, _ | ⟨q2, q⟩⟩ <;> simp at h2
        subst h2; simp
    · intro pre post heq
      rw [ht] at heq
      rcases split_append heq with ⟨p', h1, rfl⟩ | ⟨q, -, h2⟩
      · exact absurd (by rw [h1]; simp) (h.notAuth ha)
      · rcases q with _ | ⟨q1, _ | ⟨q2, q⟩⟩ <;> simp at h2
    · intro _
      rw [ht]
      simpa using h.notAuth ha
  | failed l ha hd ht hd' ha' _ =>
    refine ⟨?_, ?_, by simp [hd'], ?_, ?_⟩
    · intro pre l' post heq
      rw [ht] at heq
      rcases split_append heq with ⟨p', h1, rfl⟩ | ⟨q, -, h2⟩
      · obtain ⟨e, rest, rfl, he⟩ := h.reacts pre l' p' h1
        exact ⟨e, rest ++ _, rfl, he⟩
      · rcases q with _ | ⟨q1, _ | ⟨q2, _ | ⟨q3, q⟩⟩⟩ <;> simp at h2
        obtain ⟨-, rfl⟩ := h2
        exact ⟨Ev.close, [], rfl, rfl⟩
    · intro pre post heq
      rw [ht] at heq
      rcases split_append heq with ⟨p', h1, rfl⟩ | ⟨q, -, h2⟩
      · exact absurd (by rw [h1]; simp) (h.noClose hd)
      · rcases q with _ | ⟨q1, _ | ⟨q2, _ | ⟨q3, q⟩⟩⟩ <;> simp at h2
        obtain ⟨-, rfl⟩ := h2; simp
    · intro pre post heq
      rw [ht] at heq
      rcases split_append heq with ⟨p', h1, rfl⟩ | ⟨q, -, h2⟩
      · exact absurd (by rw [h1]; simp) (h.notAuth ha)
      · rcases q with _ | ⟨q1, _ | ⟨q2, _ | ⟨q3, q⟩⟩⟩ <;> simp at h2
    · intro _
      rw [ht]
      simpa using h.notAuth ha
  | answered env l x ha hd ht hd' ha' _ =>
    refine ⟨?_, ?_, ?_, ?_, ?_⟩
    · intro pre l' post heq
      rw [ht] at heq
      rcases split_append heq with ⟨p', h1, rfl⟩ | ⟨q, -, h2⟩
      · obtain ⟨e, rest, rfl, he⟩ := h.reacts pre l' p' h1
        exact ⟨e, rest ++ _, rfl, he⟩
      · rcases q with _ | ⟨q1, _ | ⟨q2, _ | ⟨q3, q⟩⟩⟩ <;> simp at h2
        obtain ⟨-, rfl⟩ := h2
        exact ⟨Ev.send x, [], rfl, rfl⟩
    · intro pre post heq
      rw [ht] at heq
      rcases split_append heq with ⟨p', h1, rfl⟩ | ⟨q, -, h2⟩
      · exact absurd (by rw [h1]; simp) (h.noClose hd)
      · rcases q with _ | ⟨q1, _ | ⟨q2, _ | ⟨q3, q⟩⟩⟩ <;> simp at h2
    · intro _
      rw [ht]
      simpa using h.noClose hd
    · intro pre post heq
      rw [ht] at heq
      rcases split_append heq with ⟨p', h1, rfl⟩ | ⟨q, -, h2⟩
      · exact absurd (by rw [h1]; simp) (h.notAuth ha)
      · rcases q with _ | ⟨q1, _ | ⟨q2, _ | ⟨q3, q⟩⟩⟩ <;> simp at h2
    · intro _
      rw [ht]
      simpa using h.notAuth ha
  | finished env l x ha hd ht hd' ha' _ =>
    refine ⟨?_, ?_, ?_, ?_, by simp [ha']⟩
    · intro pre l' post heq
      rw [ht] at heq
      rcases split_append heq with ⟨p', h1, rfl⟩ | ⟨q, -, h2⟩
      · obtain ⟨e, rest, rfl, he⟩ := h.reacts pre l' p' h1
        exact ⟨e, rest ++ _, rfl, he⟩
      · rcases q with _ | ⟨q1, _ | ⟨q2, _ | ⟨q3, _ | ⟨q4, q⟩⟩⟩⟩ <;> simp at h2
        obtain ⟨-, rfl⟩ := h2
        exact ⟨Ev.send x, _, rfl, rfl⟩
    · intro pre post heq
      rw [ht] at heq
      rcases split_append heq with ⟨p', h1, rfl⟩ | ⟨q, -, h2⟩
      · exact absurd (by rw [h1]; simp) (h.noClose hd)
      · rcases q with _ | ⟨q1, _ | ⟨q2, _ | ⟨q3, _ | ⟨q4, q⟩⟩⟩⟩ <;> simp at h2
    · intro _
      rw [ht]
      simpa using h.noClose hd
    · intro pre post heq
      rw [ht] at heq
      rcases split_append heq with ⟨p', h1, rfl⟩ | ⟨q, -, h2⟩
      · exact absurd (by rw [h1]; simp) (h.notAuth ha)
      · rcases q with _ | ⟨q1, _ | ⟨q2, _ | ⟨q3, _ | ⟨q4, q⟩⟩⟩⟩ <;> simp at h2
        exact h2.2.2

end Txdbus.AuthClient
