import TxdbusModel.Proofs.Auth.ServerRun
/-
When the bus closes the connection (C06): analysis of the single read of a whole stream; the
general statement follows from independence of the splitting.
-/
namespace Txdbus.AuthServer

open Txdbus.Gen.ServerAuth

variable {W I : Type} (S : MechSys W I) (guid : Bytes)

/-- A handled line raises DBusAuthenticationFailed exactly when it is BEGIN out of turn or a rejection
over the limit. -/
theorem ev_failed_iff (s : Server W I) (l : Bytes) (h1 : CurOffered S s) (h2 : Inv2 s) :
    (handle S s l).res = .failed ↔
      (evOf s l (handle S s l)).beginOutOfTurn ∨ (evOf s l (handle S s l)).overLimit := by
  obtain ⟨_, _, _, _, _, f6, _⟩ := facts_handle S s l h1 h2
  rw [f6]
  simp only [Ev.beginOutOfTurn, Ev.overLimit, Ev.isBegin, evOf, parseCmd_begin]

/-- The loop: why it closed, and what an open connection at its end means. -/
theorem loop_close (p : Proto W I) (ls : List Bytes) (h : Inv S guid p) (hc : p.closed = false)
    (hcr : p.crashed = false) (ha : p.authenticated = false) :
    ∃ new, (lineLoop S p ls).1.log = p.log ++ new ∧
      ((lineLoop S p ls).1.closed = true →
        (∃ e ∈ new, e.beginOutOfTurn ∨ e.overLimit) ∨ (∃ l ∈ ls, l.length > maxAuthLength)) ∧
      ((lineLoop S p ls).1.closed = false → (lineLoop S p ls).2 = .done →
        (∀ l ∈ ls, l.length ≤ maxAuthLength) ∧ (∀ e ∈ new, ¬(e.beginOutOfTurn ∨ e.overLimit))) := by
  induction ls generalizing p with
  | nil => exact ⟨[], by simp [lineLoop], by simp [lineLoop, hc], by simp [lineLoop]⟩
  | cons l t ih =>
    obtain ⟨hcur, hinv2, _⟩ := h.1 hc hcr ha
    have hev := ev_failed_iff S p.srv l hcur hinv2
    obtain ⟨s1, s2, s3, s4⟩ := step_inv S guid p l h hc hcr ha
    simp only [lineLoop, hc, Bool.false_eq_true, if_false]
    by_cases hl : l.length > maxAuthLength
    · simp only [hl, if_true]
      exact ⟨[], by simp, fun _ => Or.inr ⟨l, by simp, hl⟩, fun hx => by simp at hx⟩
    · simp only [hl, if_false]
      cases hr : (handle S p.srv l).res with
      | crash =>
        simp only
        refine ⟨[evOf p.srv l (handle S p.srv l)], rfl, ?_, ?_⟩
        · intro hx; have : p.closed = true := hx; rw [hc] at this; cases this
        · intro _ hx; cases hx
      | failed =>
        simp only
        rw [lineLoop_closed S _ t rfl]
        refine ⟨[evOf p.srv l (handle S p.srv l)], rfl, ?_, ?_⟩
        · intro _; exact Or.inl ⟨_, by simp, hev.1 hr⟩
        · intro hx; cases hx
      | ok =>
        simp only
        by_cases hau : (handle S p.srv l).srv.authenticated = true
        · simp only [hau, if_true]
          refine ⟨[evOf p.srv l (handle S p.srv l)], rfl, ?_, ?_⟩
          · intro hx; have : p.closed = true := hx; rw [hc] at this; cases this
          · intro _ hx; cases hx
        · have hau' : (handle S p.srv l).srv.authenticated = false := by simpa using hau
          simp only [hau', Bool.false_eq_true, if_false]
          obtain ⟨new, h1, h2, h3⟩ := ih (p.handled l (handle S p.srv l)) (s4 hr hau') hc hcr ha
          refine ⟨evOf p.srv l (handle S p.srv l) :: new, by rw [h1]; simp, ?_, ?_⟩
          · intro hx
            rcases h2 hx with ⟨e, he, hb⟩ | ⟨l', hl', hb⟩
            · exact Or.inl ⟨e, by simp [he], hb⟩
            · exact Or.inr ⟨l', by simp [hl'], hb⟩
          · intro hx hd
            obtain ⟨g1, g2⟩ := h3 hx hd
            constructor
            · intro l' hl'
              rcases List.mem_cons.1 hl' with rfl | hl'
              · omega
              · exact g1 l' hl'
            · intro e he
              rcases List.mem_cons.1 he with rfl | he
              · intro hb
                have := hev.2 hb
                rw [hr] at this; cases this
              · exact g2 e he

/-- The line branch on a fresh, open protocol with an empty buffer and log. -/
theorem recvLines_closed_iff (p0 : Proto W I) (d : Bytes) (hinv : Inv S guid p0) (hc : p0.closed = false)
    (hcr0 : p0.crashed = false) (ha0 : p0.authenticated = false) (hlog0 : p0.log = []) (hbuf : p0.buffer = [])
    (hcr : (recvLines S p0 d).crashed = false) (hau : (recvLines S p0 d).authenticated = false) :
    (recvLines S p0 d).closed = true ↔
      (∃ e ∈ (recvLines S p0 d).log, e.beginOutOfTurn ∨ e.overLimit) ∨
      (∃ l ∈ (splitCRLF d).1, l.length > maxAuthLength) ∨
      (splitCRLF d).2.length > remainderLimit := by
  rw [recvLines_eq] at hcr hau ⊢
  rw [hbuf, List.nil_append] at hcr hau ⊢
  have hinv' : Inv S guid (p0.setBuf (splitCRLF d).2) := hinv
  obtain ⟨new, h1, h2, h3⟩ := loop_close S guid (p0.setBuf (splitCRLF d).2) (splitCRLF d).1 hinv' hc hcr0 ha0
  have hfr := lineLoop_frame S (p0.setBuf (splitCRLF d).2) (splitCRLF d).1
  have hkd := lineLoop_kind S (p0.setBuf (splitCRLF d).2) (splitCRLF d).1
  rw [show (p0.setBuf (splitCRLF d).2).log = [] from hlog0, List.nil_append] at h1
  rw [show (p0.setBuf (splitCRLF d).2).crashed = false from hcr0] at hkd
  rw [show (p0.setBuf (splitCRLF d).2).buffer = (splitCRLF d).2 from rfl] at hfr
  generalize lineLoop S (p0.setBuf (splitCRLF d).2) (splitCRLF d).1 = qk at *
  obtain ⟨q, k⟩ := qk
  simp only at h1 h2 h3 hfr hkd
  have hqb : q.buffer = (splitCRLF d).2 := hfr.2.1
  cases k with
  | done =>
    simp only at hcr hau ⊢
    by_cases hlong : q.buffer.length > remainderLimit
    · simp only [hlong, if_true] at hcr hau ⊢
      simp only [close_closed, true_iff]
      right; right; rw [← hqb]; exact hlong
    · simp only [hlong, if_false] at hcr hau ⊢
      rw [h1]
      constructor
      · intro hx
        rcases h2 hx with h | h
        · exact Or.inl h
        · exact Or.inr (Or.inl h)
      · intro hx
        cases hqc : q.closed with
        | true => rfl
        | false =>
          obtain ⟨g1, g2⟩ := h3 hqc rfl
          rcases hx with ⟨e, he, hb⟩ | ⟨l, hl, hb⟩ | hb
          · exact absurd hb (g2 e he)
          · have := g1 l hl; omega
          · rw [← hqb] at hb; exact absurd hb hlong
  | ret =>
    simp only at hcr hau ⊢
    have hqc : q.closed = true := by
      rcases hkd.2.1 rfl with h | h
      · exact h
      · rw [hcr] at h; cases h
    simp only [hqc, true_iff]
    rw [h1]
    rcases h2 hqc with h | h
    · exact Or.inl h
    · exact Or.inr (Or.inl h)
  | success rest =>
    simp only [Proto.handOff] at hau
    cases hau

/-- The single read of a whole stream by a fresh protocol. -/
theorem whole_read_closed (w : W) (stream : Bytes) (hne : stream ≠ [])
    (hcr : (recv S (Proto.init guid w) stream).crashed = false)
    (hau : (recv S (Proto.init guid w) stream).authenticated = false) :
    (recv S (Proto.init guid w) stream).closed = true ↔
      CloseCause stream (recv S (Proto.init guid w) stream).log := by
  cases stream with
  | nil => exact absurd rfl hne
  | cons b d =>
    by_cases hb : b = 0
    · subst hb
      rw [recv_first_nul S _ d rfl rfl rfl] at hcr hau ⊢
      unfold CloseCause
      simp only [List.head?_cons, List.tail_cons, ne_eq, not_true_eq_false, false_or]
      exact recvLines_closed_iff S guid _ d (inv_init S guid w) rfl rfl rfl rfl rfl hcr hau
    · rw [recv_first_bad S _ b d rfl rfl rfl hb]
      simp only [close_closed, true_iff]
      left
      simp [hb]

end Txdbus.AuthServer
