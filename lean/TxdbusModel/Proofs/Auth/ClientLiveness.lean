/-
C07 proofs - the client never stalls and closes when it must: every server line that reaches the
authenticator is answered by a line or by closing; REJECTED / ERROR with no mechanism left and
lines outside the protocol close without writing; nothing is written after closing.
-/
import TxdbusModel.Proofs.Auth.ClientCore
import TxdbusModel.Proofs.Auth.ClientHandle

namespace Txdbus.AuthClient

theorem handled_one_reply {env : Env} {a a' : Auth} {l : Bytes} {out : List Bytes}
    (h : Handled env a l a' out) : ∃ x, out = [x] := by
  cases h <;> exact ⟨_, rfl⟩

theorem sends_append (a b : List Ev) : sends (a ++ b) = sends a ++ sends b := by
  induction a with
  | nil => rfl
  | cons e t ih => cases e <;> simp [sends, ih]

/-! ### One line -/

/-- The result of handing one line to a connection that is open and not yet authenticated:
the trace grows by the line and a reaction. -/
theorem processLines_single (envAt : Nat → Env) (p : Proto) (l : Bytes)
    (hd : p.disconnecting = false) (ha : p.authenticated = false) :
    let p' := processLines envAt p [l]
    (p'.disconnecting = true ∧ sends p'.trace = sends p.trace) ∨
    (∃ x, sends p'.trace = sends p.trace ++ [x]) := by
  obtain ⟨auth, buffer, disc, authd, binary, seen, trace⟩ := p
  simp only at hd ha
  subst hd ha
  simp only
  unfold processLines
  simp only [Bool.false_eq_true, if_false]
  split
  · left; simp [Proto.close, sends_append, sends]
  · cases hh : handleAuthMessage (envAt seen) auth l with
    | error e =>
      left
      simp only
      unfold processLines
      split <;> simp [Proto.close, sends_append, sends]
    | ok r =>
      obtain ⟨a, out⟩ := r
      obtain ⟨x, rfl⟩ := handled_one_reply (handle_ok_cases hh)
      simp only
      split
      · right; exact ⟨x, by simp [sends_append, sends]⟩
      · unfold processLines
        split
        · right; exact ⟨x, by simp [Proto.close, sends_append, sends]⟩
        · right; exact ⟨x, by simp [sends_append, sends]⟩

theorem handle_exhausted {env : Env} {a : Auth} {l : Bytes} (hex : a.authOrder = [])
    (hc : (splitCmd l).1 = cREJECTED ∨ ((splitCmd l).1 = cERROR ∧ a.negotiating = false)) :
    handleAuthMessage env a l = .error .authFailed := by
  unfold handleAuthMessage
  simp only
  rcases hc with hc | ⟨hc, hn⟩
  · simp [hc, authREJECTED, authTryNextMethod, hex]
  · have h1 : ¬ (splitCmd l).1 = cREJECTED := by rw [hc]; decide
    have h2 : ¬ (splitCmd l).1 = cOK := by rw [hc]; decide
    have h3 : ¬ (splitCmd l).1 = cAGREE := by rw [hc]; decide
    have h4 : ¬ (splitCmd l).1 = cDATA := by rw [hc]; decide
    rw [if_neg h1, if_neg h2, if_neg h3, if_neg h4, if_pos hc]
    simp [authERROR, hn, authTryNextMethod, hex]

theorem handle_unknown {env : Env} {a : Auth} {l : Bytes} (hc : (splitCmd l).1 ∉ serverWords) :
    handleAuthMessage env a l = .error .authFailed := by
  unfold handleAuthMessage
  simp only [serverWords, List.mem_cons, List.not_mem_nil, or_false, not_or] at hc
  obtain ⟨h1, h2, h3, h4, h5⟩ := hc
  simp only
  rw [if_neg (by simpa [cREJECTED] using h1), if_neg (by simpa [cOK] using h2), if_neg (by simpa [cAGREE] using h5),
    if_neg (by simpa [cDATA] using h3), if_neg (by simpa [cERROR] using h4)]

/-- A line on which `handleAuthMessage` raises closes the connection and writes nothing. -/
theorem processLines_single_error (envAt : Nat → Env) (p : Proto) (l : Bytes)
    (hd : p.disconnecting = false) (ha : p.authenticated = false)
    (he : handleAuthMessage (envAt p.seen) p.auth l = .error .authFailed) :
    let p' := processLines envAt p [l]
    p'.disconnecting = true ∧ sends p'.trace = sends p.trace ∧ p'.authenticated = false := by
  obtain ⟨auth, buffer, disc, authd, binary, seen, trace⟩ := p
  simp only at hd ha he
  subst hd ha
  simp only
  unfold processLines
  simp only [Bool.false_eq_true, if_false]
  split
  · simp [Proto.close, sends_append, sends]
  · simp only [he]
    unfold processLines
    split <;> simp [Proto.close, sends_append, sends]

theorem handle_moves_on {env : Env} {a : Auth} {l m : Bytes} {rest : List Bytes} (ho : a.authOrder = m :: rest)
    (hc : (splitCmd l).1 = cREJECTED ∨ ((splitCmd l).1 = cERROR ∧ a.negotiating = false)) :
    handleAuthMessage env a l =
      .ok ({ a with authOrder := rest, authMech := some m, negotiating := false }, [authLine env m]) := by
  unfold handleAuthMessage
  simp only
  rcases hc with hc | ⟨hc, hn⟩
  · simp [hc, authREJECTED, authTryNextMethod, ho]
  · have h1 : ¬ (splitCmd l).1 = cREJECTED := by rw [hc]; decide
    have h2 : ¬ (splitCmd l).1 = cOK := by rw [hc]; decide
    have h3 : ¬ (splitCmd l).1 = cAGREE := by rw [hc]; decide
    have h4 : ¬ (splitCmd l).1 = cDATA := by rw [hc]; decide
    rw [if_neg h1, if_neg h2, if_neg h3, if_neg h4, if_pos hc]
    simp [authERROR, hn, authTryNextMethod, ho]

/-- REJECTED, or ERROR outside the descriptor negotiation, while a mechanism is left: the connection stays
open and exactly the AUTH line of the next mechanism of the list is written. -/
theorem processLines_moves_on (envAt : Nat → Env) (p : Proto) (l m : Bytes) (rest : List Bytes)
    (hd : p.disconnecting = false) (ha : p.authenticated = false) (haa : p.auth.authenticated = false)
    (hlen : l.length ≤ maxAuth) (hbuf : p.buffer.length ≤ maxAuth + 1)
    (ho : p.auth.authOrder = m :: rest)
    (hc : (splitCmd l).1 = cREJECTED ∨ ((splitCmd l).1 = cERROR ∧ p.auth.negotiating = false)) :
    let p' := processLines envAt p [l]
    p'.disconnecting = false ∧ p'.authenticated = false ∧
      sends p'.trace = sends p.trace ++ [authLine (envAt p.seen) m] ∧
      p'.auth.authOrder = rest ∧ p'.auth.authMech = some m := by
  obtain ⟨auth, buffer, disc, authd, binary, seen, trace⟩ := p
  simp only at hd ha haa ho hc hbuf
  subst hd ha
  simp only
  unfold processLines
  have h1 : ¬ l.length > maxAuth := by omega
  simp only [Bool.false_eq_true, if_false, h1, handle_moves_on ho hc, haa]
  unfold processLines
  have h2 : ¬ buffer.length > maxAuth + CRLF.length - 1 := by
    simp only [CRLF, List.length_cons, List.length_nil]; omega
  simp [h2, sends_append, sends]

end Txdbus.AuthClient
