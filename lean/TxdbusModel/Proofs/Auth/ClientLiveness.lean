/-
C07 proofs - the client never stalls and closes when it must: every server line that reaches the
authenticator is answered by a line or by closing; REJECTED / ERROR with no mechanism left and
lines outside the protocol close without writing; nothing is written after closing.
-/
import TxdbusModel.Proofs.Auth.ClientCore
import TxdbusModel.Proofs.Auth.ClientHandle

namespace Txdbus.AuthClient

theorem handled_one_reply {env : Env} {a a' : Auth} {l : Bytes} {out : List Bytes}
    (h : Handled env a l a' out) : ∃ x, out = [x] := by
  cases h <;> exact ⟨_, rfl⟩

theorem sends_append (a b : List Ev) : sends (a ++ b) = sends a ++ sends b := by
  induction a with
  | nil => rfl
  | cons e t ih => cases e <;> simp [sends, ih]

/-! ### One line -/

/-- The result of handing one line to a connection that is open and not yet authenticated:
the trace grows by the line and a reaction. -/
theorem processLines_single (envAt : Nat → Env) (p : Proto) (l : Bytes)
    (hd : p.disconnecting = false) (ha : p.authenticated = false) :
    let p' := processLines envAt p [l]
    (p'.disconnecting = true ∧ sends p'.trace = sends p.trace) ∨
    (∃ x, sends p'.trace = sends p.trace ++ [x]) := by
  obtain ⟨auth, buffer, disc, authd, binary, seen, trace⟩ := p
  simp only at hd ha
  subst hd ha
  simp only
  unfold processLines
  simp only [Bool.false_eq_true, if_false]
  split
  · left; simp [Proto.close, sends_append, sends]
  · cases hh : handleAuthMessage (envAt seen) auth l with
    | error e =>
      left
      simp only
      unfold processLines
      split <;> simp [Proto.close, sends_append, sends]
    | ok r =>
      obtain ⟨a, out⟩ := r
      obtain ⟨x, rfl⟩ := handled_one_reply (handle_ok_cases hh)
      simp only
      split
      · right; exact ⟨x, by simp [sends_append, sends]⟩
      · unfold processLines
        split
        · right; exact ⟨x, by simp [Proto.close, sends_append, sends]⟩
        · right; exact ⟨x, by simp [sends_append, sends]⟩

theorem handle_exhausted {env : Env} {a : Auth} {l : Bytes} (hex : a.authOrder = [])
    (hc : (splitCmd l).1 = cREJECTED ∨ ((splitCmd l).1 = cERROR ∧ a.negotiating = false)) :
    handleAuthMessage env a l = .error .authFailed := by
  unfold handleAuthMessage
  simp only
  rcases hc with hc | ⟨hc, hn⟩
  · simp [hc, authREJECTED, authTryNextMethod, hex]
  · have h1 : ¬ (splitCmd l).1 = cREJECTED := by rw [hc]; decide
    have h2 : ¬ (splitCmd l).1 = cOK := by rw [hc]; decide
    have h3 : ¬ (splitCmd l).1 = cAGREE := by rw [hc]; decide
    have h4 : ¬ (splitCmd l).1 = cDATA := by rw [hc]; decide
    rw [if_neg h1, if_neg h2, if_neg h3, if_neg h4, if_pos hc]
    simp [authERROR, hn, authTryNextMethod, hex]

theorem handle_unknown {env : Env} {a : Auth} {l : Bytes} (hc : (splitCmd l).1 ∉ serverWords) :
    handleAuthMessage env a l = .error .authFailed := by
  unfold handleAuthMessage
  simp only [serverWords, List.mem_cons, List.not_mem_nil, or_false, not_or] at hc
  obtain ⟨h1, h2, h3, h4, h5⟩ := hc
  simp only
  rw [if_neg (by simpa [cREJECTED] using h1), if_neg (by simpa [cOK] using h2), if_neg (by simpa [cAGREE] using h5),
    if_neg (by simpa [cDATA] using h3), if_neg (by simpa [cERROR] using h4)]

/-- A line on which `handleAuthMessage` raises closes the connection and writes nothing. -/
theorem processLines_single_error (envAt : Nat → Env) (p : Proto) (l : Bytes)
    (hd : p.disconnecting = false) (ha : p.authenticated = false)
    (he : handleAuthMessage (envAt p.seen) p.auth l = .error .authFailed) :
    let p' := processLines envAt p [l]
    p'.disconnecting = true ∧ sends p'.trace = sends p.trace ∧ p'.authenticated = false := by
  obtain ⟨auth, buffer, disc, authd, binary, seen, trace⟩ := p
  simp only at hd ha he
  subst hd ha
  simp only
  unfold processLines
  simp only [Bool.false_eq_true, if_false]
  split
  · simp [Proto.close, sends_append, sends]
  · simp only [he]
    unfold processLines
    split <;> simp [Proto.close, sends_append, sends]

end Txdbus.AuthClient
