import TxdbusModel.Auth.ServerBytes
/-
Byte-string lemmas for the conforming conversations (C06): hex round trip, hex text is ASCII without
blanks, `strip` / `split()` on blank-free tokens, the command split.
-/
namespace Txdbus.AuthServer

theorem hexVal_hexChar (n : Nat) (h : n < 16) : hexVal? (hexChar n) = some n := by
  have : ∀ n : Fin 16, hexVal? (hexChar n.val) = some n.val := by decide
  exact this ⟨n, h⟩

theorem hexChar_props (n : Nat) (h : n < 16) : isSpace (hexChar n) = false ∧ (hexChar n < 128) = true := by
  have : ∀ n : Fin 16, isSpace (hexChar n.val) = false ∧ (hexChar n.val < 128) = true := by decide
  exact this ⟨n, h⟩

theorem unhexlify_hexlify (x : Bytes) : unhexlify (hexlify x) = some x := by
  induction x with
  | nil => rfl
  | cons b t ih =>
    have h1 : b.toNat / 16 < 16 := by have := b.toNat_lt; omega
    have h2 : b.toNat % 16 < 16 := Nat.mod_lt _ (by decide)
    simp only [hexlify, unhexlify, hexVal_hexChar _ h1, hexVal_hexChar _ h2, ih]
    have : b.toNat / 16 * 16 + b.toNat % 16 = b.toNat := by omega
    simp [this]

/-- No blank (as `bytes.split()` / `strip()` see it) in the string. -/
def NoSpace (x : Bytes) : Prop := ∀ b ∈ x, isSpace b = false

theorem noSpace_hexlify (x : Bytes) : NoSpace (hexlify x) := by
  induction x with
  | nil => intro b hb; cases hb
  | cons c t ih =>
    have h1 : c.toNat / 16 < 16 := by have := c.toNat_lt; omega
    have h2 : c.toNat % 16 < 16 := Nat.mod_lt _ (by decide)
    intro b hb
    simp only [hexlify, List.mem_cons] at hb
    rcases hb with rfl | rfl | hb
    · exact (hexChar_props _ h1).1
    · exact (hexChar_props _ h2).1
    · exact ih b hb

theorem isAscii_hexlify (x : Bytes) : isAscii (hexlify x) = true := by
  induction x with
  | nil => rfl
  | cons c t ih =>
    have h1 : c.toNat / 16 < 16 := by have := c.toNat_lt; omega
    have h2 : c.toNat % 16 < 16 := Nat.mod_lt _ (by decide)
    unfold isAscii at ih ⊢
    simp [hexlify, List.all_cons, (hexChar_props _ h1).2, (hexChar_props _ h2).2, ih]

theorem hexlify_ne_nil (x : Bytes) (h : x ≠ []) : hexlify x ≠ [] := by
  cases x with
  | nil => exact absurd rfl h
  | cons b t => simp [hexlify]

theorem isAscii_append (x y : Bytes) : isAscii (x ++ y) = (isAscii x && isAscii y) := by
  simp [isAscii, List.all_append]

theorem dropWhile_noSpace (x : Bytes) (h : NoSpace x) : x.dropWhile isSpace = x := by
  cases x with
  | nil => rfl
  | cons b t => simp [List.dropWhile, h b (by simp)]

theorem strip_noSpace (x : Bytes) (h : NoSpace x) : strip x = x := by
  unfold strip
  rw [dropWhile_noSpace x h]
  have : NoSpace x.reverse := fun b hb => h b (List.mem_reverse.1 hb)
  rw [dropWhile_noSpace _ this, List.reverse_reverse]

theorem splitWsAux_noSpace (cur t rest : Bytes) (h : NoSpace t) :
    splitWsAux cur (t ++ rest) = splitWsAux (t.reverse ++ cur) rest := by
  induction t generalizing cur with
  | nil => rfl
  | cons b t ih =>
    have hb : isSpace b = false := h b (by simp)
    have ht : NoSpace t := fun c hc => h c (by simp [hc])
    simp only [List.cons_append, splitWsAux, hb, Bool.false_eq_true, if_false]
    rw [ih _ ht]
    simp

theorem splitWs_one (a : Bytes) (ha : a ≠ []) (hna : NoSpace a) : splitWs a = [a] := by
  have := splitWsAux_noSpace [] a [] hna
  simp only [List.append_nil] at this
  unfold splitWs
  rw [this]
  simp [splitWsAux, ha]

/-- `(a + b' ' + b).split() == [a, b]` for blank-free non-empty tokens. -/
theorem splitWs_two (a b : Bytes) (ha : a ≠ []) (hb : b ≠ []) (hna : NoSpace a) (hnb : NoSpace b) :
    splitWs (a ++ 32 :: b) = [a, b] := by
  unfold splitWs
  rw [splitWsAux_noSpace [] a (32 :: b) hna]
  have hr : a.reverse ≠ [] := by simpa using ha
  have h32 : isSpace 32 = true := by decide
  simp only [List.append_nil, splitWsAux, h32, if_true]
  have hre : (a.reverse.isEmpty) = false := by
    cases h : a.reverse with
    | nil => exact absurd h hr
    | cons _ _ => rfl
  simp only [hre, Bool.false_eq_true, if_false, List.reverse_reverse]
  have := splitWs_one b hb hnb
  unfold splitWs at this
  rw [this]

theorem splitCmd_noSpace (a rest : Bytes) (h : ∀ b ∈ a, b ≠ 32) : splitCmd (a ++ 32 :: rest) = (a, rest) := by
  induction a with
  | nil => simp [splitCmd]
  | cons c t ih =>
    have hc : c ≠ 32 := h c (by simp)
    have ht : ∀ b ∈ t, b ≠ 32 := fun b hb => h b (by simp [hb])
    simp [splitCmd, hc, ih ht]

theorem utf8Valid_ascii (a : Bytes) (h : ∀ b ∈ a, b < 0x80) : utf8Valid a = true := by
  induction a with
  | nil => unfold utf8Valid; rfl
  | cons c t ih =>
    have hc : c < 0x80 := h c (by simp)
    have ht : ∀ b ∈ t, b < 0x80 := fun b hb => h b (by simp [hb])
    unfold utf8Valid
    simp only [hc, if_true]
    exact ih ht

theorem splitCmd_noSpace_all (a : Bytes) (h : ∀ b ∈ a, b ≠ 32) : splitCmd a = (a, []) := by
  induction a with
  | nil => simp [splitCmd]
  | cons c t ih =>
    have hc : c ≠ 32 := h c (by simp)
    have ht : ∀ b ∈ t, b ≠ 32 := fun b hb => h b (by simp [hb])
    simp [splitCmd, hc, ih ht]

end Txdbus.AuthServer
