/-
C07 proofs - the part of the protocol state the handshake theorems talk about (`Core`: the
authenticator, the two flags, the trace) and the fact that every run of the client model - any
reads, split anywhere - moves it only by the steps `line` (one server line reaches the loop body of
`dataReceived`) and `overflow` (the unterminated remainder exceeds the limit).  Theorems proved for
all step sequences therefore hold for all reads.
-/
import TxdbusModel.Auth.Client

namespace Txdbus.AuthClient

structure Core where
  auth : Auth
  disconnecting : Bool
  authenticated : Bool
  trace : List Ev

def Proto.core (p : Proto) : Core :=
  { auth := p.auth, disconnecting := p.disconnecting, authenticated := p.authenticated, trace := p.trace }

inductive Step where
  | line (env : Env) (l : Bytes)
  | overflow

def Core.close (c : Core) : Core :=
  { c with disconnecting := true, trace := c.trace ++ [Ev.close] }

/-- One iteration of the loop body of `dataReceived` (line mode), including the hand-over to the
binary mode when the authenticator reports success. -/
def Core.line (c : Core) (env : Env) (l : Bytes) : Core :=
  if c.authenticated then c
  else if c.disconnecting then c
  else if l.length > maxAuth then c.close
  else
    match handleAuthMessage env c.auth l with
    | .error _ => ({ c with trace := c.trace ++ [Ev.recv l] } : Core).close
    | .ok (a, out) =>
      if a.authenticated then
        { c with auth := a, authenticated := true,
                 trace := c.trace ++ [Ev.recv l] ++ out.map Ev.send ++ [Ev.authenticated] }
      else { c with auth := a, trace := c.trace ++ [Ev.recv l] ++ out.map Ev.send }

def Core.step (c : Core) : Step → Core
  | .line env l => c.line env l
  | .overflow => if c.authenticated then c else c.close

def Core.run (c : Core) (steps : List Step) : Core := steps.foldl Core.step c

theorem Core.run_append (c : Core) (s t : List Step) : c.run (s ++ t) = (c.run s).run t := by
  simp [Core.run, List.foldl_append]

theorem Proto.close_core (p : Proto) : p.close.core = p.core.close := rfl

/-- The loop over the complete lines of one read is a sequence of steps. -/
theorem processLines_core (envAt : Nat → Env) (lines : List Bytes) :
    ∀ p : Proto, p.authenticated = false →
      ∃ steps, (processLines envAt p lines).core = p.core.run steps := by
  induction lines with
  | nil =>
    intro p hp
    unfold processLines
    split
    · exact ⟨[.overflow], by simp [Core.run, Core.step, Proto.core, Proto.close, Core.close, hp]⟩
    · exact ⟨[], rfl⟩
  | cons l ls ih =>
    intro p hp
    obtain ⟨auth, buffer, disc, authd, binary, seen, trace⟩ := p
    simp only at hp
    subst hp
    unfold processLines
    cases disc with
    | true => exact ⟨[], by simp [Core.run]⟩
    | false =>
      by_cases hlen : l.length > maxAuth
      · refine ⟨[.line (envAt seen) l], ?_⟩
        simp [Core.run, Core.step, Core.line, Proto.core, Proto.close, Core.close, hlen]
      · cases hh : handleAuthMessage (envAt seen) auth l with
        | error e =>
          obtain ⟨steps, hs⟩ := ih ⟨auth, buffer, true, false, binary, seen + 1, trace ++ [Ev.recv l] ++ [Ev.close]⟩ rfl
          refine ⟨.line (envAt seen) l :: steps, ?_⟩
          simp only [Proto.close, hlen, hh, Bool.false_eq_true, if_false]
          simp only [List.append_assoc] at hs ⊢
          rw [hs]
          simp [Core.run, Core.step, Core.line, Proto.core, Core.close, hlen, hh]
        | ok r =>
          obtain ⟨a, out⟩ := r
          by_cases ha : a.authenticated = true
          · refine ⟨[.line (envAt seen) l], ?_⟩
            simp [Core.run, Core.step, Core.line, Proto.core, hlen, hh, ha]
          · obtain ⟨steps, hs⟩ := ih ⟨a, buffer, false, false, binary, seen + 1,
                trace ++ [Ev.recv l] ++ out.map Ev.send⟩ rfl
            refine ⟨.line (envAt seen) l :: steps, ?_⟩
            simp only [hlen, hh, ha, Bool.false_eq_true, if_false]
            simp only [List.append_assoc] at hs ⊢
            rw [hs]
            simp [Core.run, Core.step, Core.line, Proto.core, hlen, hh, ha]

theorem dataReceived_core (envAt : Nat → Env) (p : Proto) (data : Bytes) :
    ∃ steps, (dataReceived envAt p data).core = p.core.run steps := by
  unfold dataReceived
  split
  · exact ⟨[], rfl⟩
  · rename_i hp
    simp only [Bool.not_eq_true] at hp
    exact processLines_core envAt _ { p with buffer := (splitCRLF (p.buffer ++ data)).2 } hp

theorem foldl_dataReceived_core (envAt : Nat → Env) (chunks : List Bytes) :
    ∀ p : Proto, ∃ steps, (chunks.foldl (dataReceived envAt) p).core = p.core.run steps := by
  induction chunks with
  | nil => intro p; exact ⟨[], rfl⟩
  | cons d ds ih =>
    intro p
    obtain ⟨s1, h1⟩ := dataReceived_core envAt p d
    obtain ⟨s2, h2⟩ := ih (dataReceived envAt p d)
    refine ⟨s1 ++ s2, ?_⟩
    rw [List.foldl_cons, h2, h1, Core.run_append]

/-- Every run of the client model, whatever the reads, is a run of the step system. -/
theorem clientRun_core (pref : List Bytes) (unix : Bool) (envAt : Nat → Env) (chunks : List Bytes) :
    ∃ steps, (clientRun pref unix envAt chunks).core = (connectionMade pref unix (envAt 0)).core.run steps :=
  foldl_dataReceived_core envAt chunks _

end Txdbus.AuthClient
