/-
C07 proofs - facts about the byte-string helpers needed by the completion theorem:
hexlify/unhexlify round trip, hex text contains no blanks, `split()` on blank-separated tokens.
-/
import TxdbusModel.Auth.ClientBytes

namespace Txdbus.AuthClient

def NoSpace (l : Bytes) : Prop := ∀ b ∈ l, isSpace b = false

instance (l : Bytes) : Decidable (NoSpace l) := by unfold NoSpace; infer_instance

theorem hexVal_hexChar : ∀ n, n < 16 → hexVal? (hexChar n) = some n := by decide

theorem isSpace_hexChar : ∀ n, n < 16 → isSpace (hexChar n) = false := by decide

theorem hexlify_length (x : Bytes) : (hexlify x).length = 2 * x.length := by
  induction x with
  | nil => rfl
  | cons b t ih => simp [hexlify, ih]; omega

theorem unhexPairs_hexlify (x : Bytes) : unhexPairs (hexlify x) = .ok x := by
  induction x with
  | nil => rfl
  | cons b t ih =>
    have h1 : b.toNat / 16 < 16 := by have := b.toNat_lt; omega
    have h2 : b.toNat % 16 < 16 := by omega
    simp only [hexlify, unhexPairs, hexVal_hexChar _ h1, hexVal_hexChar _ h2, ih]
    have : b.toNat / 16 * 16 + b.toNat % 16 = b.toNat := by omega
    simp [this]

theorem unhexlify_hexlify (x : Bytes) : unhexlify (hexlify x) = .ok x := by
  unfold unhexlify
  rw [hexlify_length]
  have : ¬ (2 * x.length % 2 = 1) := by omega
  simp [this, unhexPairs_hexlify]

theorem noSpace_hexlify (x : Bytes) : NoSpace (hexlify x) := by
  induction x with
  | nil => intro b hb; simp [hexlify] at hb
  | cons c t ih =>
    intro b hb
    have h1 : c.toNat / 16 < 16 := by have := c.toNat_lt; omega
    have h2 : c.toNat % 16 < 16 := by omega
    simp only [hexlify, List.mem_cons] at hb
    rcases hb with rfl | rfl | hb
    · exact isSpace_hexChar _ h1
    · exact isSpace_hexChar _ h2
    · exact ih b hb

theorem hexlify_ne_nil {x : Bytes} (h : x ≠ []) : hexlify x ≠ [] := by
  cases x with
  | nil => exact absurd rfl h
  | cons b t => simp [hexlify]

theorem dropWhile_noSpace {l : Bytes} (h : NoSpace l) : l.dropWhile isSpace = l := by
  cases l with
  | nil => rfl
  | cons b t => simp [List.dropWhile, h b (by simp)]

theorem strip_noSpace {l : Bytes} (h : NoSpace l) : strip l = l := by
  unfold strip lstrip rstrip
  rw [dropWhile_noSpace h]
  have hr : NoSpace l.reverse := fun b hb => h b (by simpa using hb)
  rw [dropWhile_noSpace hr, List.reverse_reverse]

theorem NoSpace.append {a b : Bytes} (ha : NoSpace a) (hb : NoSpace b) : NoSpace (a ++ b) := by
  intro x hx
  rcases List.mem_append.mp hx with h | h
  · exact ha x h
  · exact hb x h

/-! ### `bytes.split()` -/

theorem splitWsAux_token (tok : Bytes) (h : NoSpace tok) :
    ∀ (cur rest : Bytes), splitWsAux cur (tok ++ rest) = splitWsAux (tok.reverse ++ cur) rest := by
  induction tok with
  | nil => intro cur rest; rfl
  | cons b t ih =>
    intro cur rest
    have hb : isSpace b = false := h b (by simp)
    have ht : NoSpace t := fun x hx => h x (by simp [hx])
    simp only [List.cons_append, splitWsAux, hb, Bool.false_eq_true, if_false]
    rw [ih ht]
    simp

theorem splitWsAux_space {cur : Bytes} (hc : cur ≠ []) (rest : Bytes) :
    splitWsAux cur (32 :: rest) = cur.reverse :: splitWsAux [] rest := by
  cases cur with
  | nil => exact absurd rfl hc
  | cons c t => simp [splitWsAux, isSpace]

theorem splitWsAux_end {cur : Bytes} (hc : cur ≠ []) : splitWsAux cur [] = [cur.reverse] := by
  cases cur with
  | nil => exact absurd rfl hc
  | cons c t => simp [splitWsAux]

theorem splitWs_one {a : Bytes} (ha : NoSpace a) (hne : a ≠ []) : splitWs a = [a] := by
  have := splitWsAux_token a ha [] []
  simp only [List.append_nil] at this
  unfold splitWs
  rw [this, splitWsAux_end (by simpa using hne)]
  simp

theorem splitWs_two {a b : Bytes} (ha : NoSpace a) (hb : NoSpace b) (hane : a ≠ []) (hbne : b ≠ []) :
    splitWs (a ++ 32 :: b) = [a, b] := by
  unfold splitWs
  rw [splitWsAux_token a ha, List.append_nil, splitWsAux_space (by simpa using hane)]
  have := splitWsAux_token b hb [] []
  simp only [List.append_nil] at this
  rw [this, splitWsAux_end (by simpa using hbne)]
  simp

theorem splitWs_three {a b c : Bytes} (ha : NoSpace a) (hb : NoSpace b) (hc : NoSpace c)
    (hane : a ≠ []) (hbne : b ≠ []) (hcne : c ≠ []) :
    splitWs (a ++ 32 :: (b ++ 32 :: c)) = [a, b, c] := by
  unfold splitWs
  rw [splitWsAux_token a ha, List.append_nil, splitWsAux_space (by simpa using hane)]
  rw [splitWsAux_token b hb, List.append_nil, splitWsAux_space (by simpa using hbne)]
  have := splitWsAux_token c hc [] []
  simp only [List.append_nil] at this
  rw [this, splitWsAux_end (by simpa using hcne)]
  simp

/-- A token followed by a blank and nothing else. -/
theorem splitWs_one_trailing {a : Bytes} (ha : NoSpace a) (hne : a ≠ []) : splitWs (a ++ [32]) = [a] := by
  unfold splitWs
  rw [splitWsAux_token a ha, List.append_nil, splitWsAux_space (by simpa using hne)]
  simp [splitWsAux]

end Txdbus.AuthClient
