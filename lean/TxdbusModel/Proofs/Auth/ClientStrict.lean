/-
C07 proofs - the strict form of "BEGIN only after OK": the OK that justifies a BEGIN belongs to
the mechanism in progress (no AUTH line between that OK and the BEGIN).
-/
import TxdbusModel.Proofs.Auth.ClientTraces
import TxdbusModel.Proofs.Auth.ClientSafety

namespace Txdbus.AuthClient

theorem beginsCurrent_append {unix : Bool} {tr ext : List Ev} (h : BeginsJustifiedCurrent unix tr)
    (hext : ∀ pre post, ext = pre ++ Ev.send (b!"BEGIN") :: post → JustifiedCurrent unix (tr ++ pre)) :
    BeginsJustifiedCurrent unix (tr ++ ext) := by
  intro pre post heq
  rcases split_append heq with ⟨p', h1, -⟩ | ⟨q, rfl, h2⟩
  · exact h pre p' h1
  · exact hext q post h2

/-- The strict justification implies the one of the statement. -/
theorem JustifiedCurrent.justified {unix : Bool} {pre : List Ev} (h : JustifiedCurrent unix pre) :
    Justified unix pre := by
  obtain ⟨okl, p1, p2, rfl, hok, -, hfd⟩ := h
  refine ⟨okl, hok, ?_⟩
  cases unix with
  | false => simp
  | true =>
    obtain ⟨ans, ha, hs⟩ := hfd rfl
    simp only [if_true]
    refine ⟨ans, ha, ?_⟩
    have : List.Sublist (Ev.recv okl :: [Ev.send (b!"NEGOTIATE_UNIX_FD"), Ev.recv ans]) (Ev.recv okl :: p2) :=
      hs.cons₂ _
    exact this.trans (List.sublist_append_right p1 _)

structure InvC (unix : Bool) (c : Core) : Prop where
  unixEq : c.auth.unixFD = unix
  authEq : c.auth.authenticated = c.authenticated
  begins : BeginsJustifiedCurrent unix c.trace
  neg : c.auth.negotiating = true →
    ∃ okl p1 p2, c.trace = p1 ++ Ev.recv okl :: p2 ∧ OkLine okl ∧ authLines p2 = [] ∧
      List.Sublist [Ev.send (b!"NEGOTIATE_UNIX_FD")] p2

theorem noBegin_ext {unix : Bool} {tr ext : List Ev} (h : BeginsJustifiedCurrent unix tr)
    (hext : Ev.send (b!"BEGIN") ∉ ext) : BeginsJustifiedCurrent unix (tr ++ ext) := by
  apply beginsCurrent_append h
  intro pre post heq
  exact absurd (by rw [heq]; simp) hext

theorem neg_extend {tr ext : List Ev} (hext : authLines ext = [])
    (h : ∃ okl p1 p2, tr = p1 ++ Ev.recv okl :: p2 ∧ OkLine okl ∧ authLines p2 = [] ∧
      List.Sublist [Ev.send (b!"NEGOTIATE_UNIX_FD")] p2) :
    ∃ okl p1 p2, tr ++ ext = p1 ++ Ev.recv okl :: p2 ∧ OkLine okl ∧ authLines p2 = [] ∧
      List.Sublist [Ev.send (b!"NEGOTIATE_UNIX_FD")] p2 := by
  obtain ⟨okl, p1, p2, rfl, hok, ha, hs⟩ := h
  exact ⟨okl, p1, p2 ++ ext, by simp, hok, by rw [authLines_append, ha, hext]; rfl,
    hs.trans (List.sublist_append_left _ _)⟩

theorem InvC.step {unix : Bool} {c c' : Core} (h : InvC unix c) (f : StepForm c c') : InvC unix c' := by
  obtain ⟨a', d', au', t'⟩ := c'
  cases f with
  | same e => rw [e]; exact h
  | closed ha ht hd ha' hau =>
    simp only at ht hau ha'
    subst ht hau ha'
    exact ⟨h.unixEq, by rw [h.authEq]; exact ha, noBegin_ext h.begins (by simp),
      fun hn => neg_extend rfl (h.neg hn)⟩
  | failed l ha hd ht hd' ha' hau =>
    simp only at ht hau ha'
    subst ht hau ha'
    exact ⟨h.unixEq, by rw [h.authEq]; exact ha, noBegin_ext h.begins (by simp),
      fun hn => neg_extend rfl (h.neg hn)⟩
  | answered env l x ha hd ht hd' ha' haa H =>
    simp only at ht H haa ha'
    subst ht ha'
    have hca : c.auth.authenticated = false := by rw [h.authEq]; exact ha
    cases H with
    | next m rest hc hm =>
      refine ⟨h.unixEq, hca, noBegin_ext h.begins ?_, by simp⟩
      simp only [List.mem_cons, Ev.send.injEq, List.not_mem_nil, or_false, reduceCtorEq, false_or]
      exact fun hh => authLine_ne_begin env m hh.symm
    | okNegotiate g hok hu =>
      refine ⟨h.unixEq, hca, noBegin_ext h.begins (by simp [lNEGOTIATE]), fun _ => ?_⟩
      exact ⟨l, c.trace, [Ev.send lNEGOTIATE], by simp, hok, by simp [authLines, lNEGOTIATE],
        List.Sublist.refl _⟩
    | data _ hc hl =>
      have hne : x ≠ b!"BEGIN" := by
        rcases hl with rfl | rfl | ⟨y, rfl⟩ | ⟨y, rfl⟩ <;> simp [lDATA, lCANCEL]
      have hna : authLines [Ev.recv l, Ev.send x] = [] := by
        rcases hl with rfl | rfl | ⟨y, rfl⟩ | ⟨y, rfl⟩ <;> simp [authLines, lDATA, lCANCEL]
      refine ⟨h.unixEq, hca, noBegin_ext h.begins ?_, fun hn => neg_extend hna (h.neg hn)⟩
      simp only [List.mem_cons, Ev.send.injEq, List.not_mem_nil, or_false, reduceCtorEq, false_or]
      exact fun hh => hne hh.symm
    | okBegin g hok hu => simp at haa
    | agree hc hu hn => simp at haa
    | errorBegin hc hn => simp at haa
  | finished env l x ha hd ht hd' ha' haa H =>
    simp only at ht H haa ha'
    subst ht ha'
    have hca : c.auth.authenticated = false := by rw [h.authEq]; exact ha
    have key : ∀ (J : JustifiedCurrent unix (c.trace ++ [Ev.recv l])),
        BeginsJustifiedCurrent unix (c.trace ++ [Ev.recv l, Ev.send (b!"BEGIN"), Ev.authenticated]) := by
      intro J
      apply beginsCurrent_append h.begins
      intro pre post heq
      rcases pre with _ | ⟨q1, _ | ⟨q2, _ | ⟨q3, q⟩⟩⟩ <;> simp at heq
      obtain ⟨rfl, -⟩ := heq
      exact J
    cases H with
    | okBegin g hok hu =>
      have hux : unix = false := by rw [← h.unixEq]; exact hu
      refine ⟨h.unixEq, rfl, key ⟨l, c.trace, [], by simp, hok, rfl, by simp [hux]⟩, fun hn => ?_⟩
      exact neg_extend (by simp [authLines, lBEGIN]) (h.neg hn)
    | agree hc hu hn =>
      obtain ⟨okl, p1, p2, htr, hok, hal, hs⟩ := h.neg hn
      refine ⟨h.unixEq, rfl, key ⟨okl, p1, p2 ++ [Ev.recv l], by rw [htr]; simp, hok,
        by rw [authLines_append, hal]; rfl, fun _ => ⟨l, Or.inl hc, ?_⟩⟩, fun hn' => ?_⟩
      · exact hs.append (List.Sublist.refl [Ev.recv l])
      · exact neg_extend (by simp [authLines, lBEGIN]) (h.neg hn)
    | errorBegin hc hn =>
      obtain ⟨okl, p1, p2, htr, hok, hal, hs⟩ := h.neg hn
      refine ⟨h.unixEq, rfl, key ⟨okl, p1, p2 ++ [Ev.recv l], by rw [htr]; simp, hok,
        by rw [authLines_append, hal]; rfl, fun _ => ⟨l, Or.inr hc, ?_⟩⟩, fun hn' => ?_⟩
      · exact hs.append (List.Sublist.refl [Ev.recv l])
      · exact neg_extend (by simp [authLines, lBEGIN]) (h.neg hn)
    | next m rest hc hm => simp [hca] at haa
    | okNegotiate g hok hu => simp [hca] at haa
    | data line hc hl => simp [hca] at haa

theorem InvC.init (pref : List Bytes) (unix : Bool) (env : Env) :
    InvC unix (connectionMade pref unix env).core := by
  unfold connectionMade authTryNextMethod
  cases pref with
  | nil =>
    refine ⟨rfl, rfl, ?_, by simp [Proto.core, Proto.close]⟩
    intro pre post heq
    have h2 : [Ev.nul, Ev.close] = pre ++ Ev.send (b!"BEGIN") :: post := heq
    rcases pre with _ | ⟨q1, _ | ⟨q2, q⟩⟩ <;> simp at h2
  | cons m rest =>
    refine ⟨rfl, rfl, ?_, by simp [Proto.core]⟩
    intro pre post heq
    have h2 : [Ev.nul, Ev.send (authLine env m)] = pre ++ Ev.send (b!"BEGIN") :: post := heq
    rcases pre with _ | ⟨q1, _ | ⟨q2, q⟩⟩ <;> simp at h2
    exact absurd h2.2.1 (authLine_ne_begin env m)

theorem invC_clientRun (pref : List Bytes) (unix : Bool) (envAt : Nat → Env) (chunks : List Bytes) :
    InvC unix (clientRun pref unix envAt chunks).core := by
  obtain ⟨steps, hs⟩ := clientRun_core pref unix envAt chunks
  rw [hs]
  exact Core.run_induct (InvC unix) steps _ (InvC.init pref unix (envAt 0)) (fun _ _ h f => h.step f)

end Txdbus.AuthClient
