import TxdbusModel.Proofs.Auth.ServerStep
import TxdbusModel.Proofs.Auth.ServerLines
/-
Run-level invariant of the bus side of authentication (C06), preserved by every read: safety
bookkeeping over the ghost log, agreement with the specification's state table, the rejection counter.
-/
namespace Txdbus.AuthServer

open Txdbus.Gen.ServerAuth

variable {W I : Type} (S : MechSys W I) (guid : Bytes)

/-! ## log bookkeeping -/

theorem specRun_snoc (offered : List Bytes) (limit : Nat) (g : Bytes) (log : List Ev) (e : Ev) :
    specRun offered limit g (log ++ [e]) = specFold offered limit g (specRun offered limit g log) e := by
  simp [specRun, List.foldl_append]

theorem countRejections_snoc (log : List Ev) (e : Ev) :
    countRejections (log ++ [e]) = countRejections log + (if (e.rejected && e.res != .crash) = true then 1 else 0) := by
  simp only [countRejections, List.filter_append, List.length_append]
  by_cases h : (e.rejected && e.res != .crash) = true <;> simp [List.filter, h]

theorem acceptedOpen_new (offered : List Bytes) (log : List Ev) (e : Ev) (h : e.accepts offered) :
    AcceptedOpen offered (log ++ [e]) := ⟨log, e, [], rfl, h, by simp⟩

theorem acceptedOpen_ext (offered : List Bytes) (log : List Ev) (e : Ev) (h : AcceptedOpen offered log)
    (he : e.rejected = false) : AcceptedOpen offered (log ++ [e]) := by
  obtain ⟨pre, a, mid, h1, h2, h3⟩ := h
  refine ⟨pre, a, mid ++ [e], by simp [h1], h2, ?_⟩
  intro x hx
  rcases List.mem_append.1 hx with hx | hx
  · exact h3 x hx
  · simp at hx; rw [hx]; exact he

theorem authWitness_of (offered : List Bytes) (log : List Ev) (e : Ev) (h : AcceptedOpen offered log)
    (he : e.isBegin) : AuthWitness offered (log ++ [e]) := by
  obtain ⟨pre, a, mid, h1, h2, h3⟩ := h
  exact ⟨pre, a, mid, e, by simp [h1], h2, he, h3⟩

/-! ## the invariant -/

/-- The invariant, over the observable part of a protocol state. -/
def InvO (closed crashed authd : Bool) (srv : Server W I) (log : List Ev) : Prop :=
  (closed = false → crashed = false → authd = false →
      CurOffered S srv ∧ Inv2 srv ∧ srv.serverGuid = guid ∧
      (srv.state = .waitingForBegin → AcceptedOpen S.offered log) ∧
      (specRun S.offered maxRejects guid log).st = absSrv srv ∧
      srv.rejects = countRejections log) ∧
  (authd = true → AuthWitness S.offered log ∧
      (specRun S.offered maxRejects guid log).st.phase = .authenticated ∧ closed = false) ∧
  (specRun S.offered maxRejects guid log).ok = true ∧
  (crashed = false → (specRun S.offered maxRejects guid log).crashSeen = false) ∧
  (authd = false → (specRun S.offered maxRejects guid log).st.phase ≠ .authenticated)

def Inv (p : Proto W I) : Prop := InvO S guid p.closed p.crashed p.authenticated p.srv p.log

theorem inv_init (w : W) : Inv S guid (Proto.init guid w) := by
  refine ⟨?_, ?_, rfl, fun _ => rfl, fun _ h => nomatch h⟩
  · intro _ _ _
    refine ⟨?_, ⟨?_, rfl⟩, rfl, ?_, rfl, rfl⟩
    · intro n i h; cases h
    · intro h; exact absurd rfl h
    · intro h; cases h
  · intro h; cases h

/-- One handled line preserves the invariant. -/
theorem step_inv (p : Proto W I) (l : Bytes) (h : Inv S guid p) (hc : p.closed = false)
    (hcr : p.crashed = false) (ha : p.authenticated = false) :
    ((handle S p.srv l).res = .crash → Inv S guid (p.handled l (handle S p.srv l)).crash) ∧
    ((handle S p.srv l).res = .failed → Inv S guid (p.handled l (handle S p.srv l)).close) ∧
    ((handle S p.srv l).res = .ok → (handle S p.srv l).srv.authenticated = true →
        InvO S guid false false true (handle S p.srv l).srv (p.log ++ [evOf p.srv l (handle S p.srv l)])) ∧
    ((handle S p.srv l).res = .ok → (handle S p.srv l).srv.authenticated = false →
        Inv S guid (p.handled l (handle S p.srv l))) := by
  obtain ⟨hlive, _, hok, hcs, hph⟩ := h
  obtain ⟨hcur, hinv2, hguid, hwfb, hspec, hrej⟩ := hlive hc hcr ha
  have hcs := hcs hcr
  have hph := hph ha
  obtain ⟨f1, f2, f3, f4, f5, f6, f7⟩ := facts_handle S p.srv l hcur hinv2
  generalize ho : handle S p.srv l = o at *
  have hrun : specRun S.offered maxRejects guid (p.log ++ [evOf p.srv l o]) =
      specFold S.offered maxRejects guid (specRun S.offered maxRejects guid p.log) (evOf p.srv l o) :=
    specRun_snoc _ _ _ _ _
  -- the specification step for a line that did not crash
  have hstep : o.res ≠ .crash →
      (specRun S.offered maxRejects guid (p.log ++ [evOf p.srv l o])).ok = true ∧
      (specRun S.offered maxRejects guid (p.log ++ [evOf p.srv l o])).st = absOut o ∧
      (specRun S.offered maxRejects guid (p.log ++ [evOf p.srv l o])).crashSeen = false := by
    intro hnc
    have hR := handle_refines S p.srv l hinv2 (by rw [ho]; exact hnc)
    rw [ho, hguid] at hR
    rw [hrun]
    unfold specFold
    simp only [hcs, evOf, hnc, if_false, Bool.false_eq_true]
    rw [hspec]
    exact ⟨by rw [hok, hR.2]; rfl, hR.1, trivial⟩
  refine ⟨?_, ?_, ?_, ?_⟩
  · intro hres
    refine ⟨?_, ?_, ?_, ?_, ?_⟩
    · intro _ hx; cases hx
    · intro hx; have hx' : p.authenticated = true := hx; rw [ha] at hx'; cases hx'
    · show (specRun S.offered maxRejects guid (p.log ++ [evOf p.srv l o])).ok = true
      rw [hrun]; unfold specFold
      simp [hcs, evOf, hres, hok]
    · intro hx; cases hx
    · intro _
      show (specRun S.offered maxRejects guid (p.log ++ [evOf p.srv l o])).st.phase ≠ .authenticated
      rw [hrun]; unfold specFold
      simp only [hcs, evOf, hres, Bool.false_eq_true, if_false, if_true]
      exact hph
  · intro hres
    have := hstep (by rw [hres]; decide)
    refine ⟨?_, ?_, this.1, fun _ => this.2.2, ?_⟩
    · intro hx; cases hx
    · intro hx; have hx' : p.authenticated = true := hx; rw [ha] at hx'; cases hx'
    · intro _
      show (specRun S.offered maxRejects guid (p.log ++ [evOf p.srv l o])).st.phase ≠ .authenticated
      rw [this.2.1]; simp [absOut, hres]
  · intro hres hauth
    have := hstep (by rw [hres]; decide)
    obtain ⟨g1, g2, g3⟩ := f4 hauth
    refine ⟨?_, ?_, this.1, fun _ => this.2.2, fun hx => nomatch hx⟩
    · intro _ _ hx; cases hx
    · intro _
      refine ⟨?_, ?_, rfl⟩
      · apply authWitness_of _ _ _ (hwfb g1)
        exact (parseCmd_begin _).1 g2
      · rw [this.2.1]; simp [absOut, hres, hauth]
  · intro hres hauth
    have := hstep (by rw [hres]; decide)
    refine ⟨?_, ?_, this.1, fun _ => this.2.2, ?_⟩
    rotate_left 2
    · intro _
      show (specRun S.offered maxRejects guid (p.log ++ [evOf p.srv l o])).st.phase ≠ .authenticated
      rw [this.2.1]
      simp only [absOut, hres, hauth, absSrv]
      cases o.srv.state <;> simp [phaseOf]
    · intro _ _ _
      refine ⟨f1, f3 hres hauth, f2.trans hguid, ?_, ?_, ?_⟩
      · intro hs
        rcases f5 hres hs with ⟨n, hn1, hn2⟩ | ⟨hs0, hr0⟩
        · exact acceptedOpen_new _ _ _ ⟨n, hn1, hn2⟩
        · exact acceptedOpen_ext _ _ _ (hwfb hs0) hr0
      · show (specRun S.offered maxRejects guid (p.log ++ [evOf p.srv l o])).st = absSrv o.srv
        rw [this.2.1]; simp [absOut, hres, hauth]
      · show o.srv.rejects = countRejections (p.log ++ [evOf p.srv l o])
        rw [countRejections_snoc, f7 (by rw [hres]; decide), hrej]
        simp [evOf, hres]
    · intro hx; have hx' : p.authenticated = true := hx; rw [ha] at hx'; cases hx'

/-- A state that is closed or crashed (and not authenticated) with the same log keeps the invariant. -/
theorem inv_dead (p q : Proto W I) (h : Inv S guid p) (hq : q.closed = true ∨ q.crashed = true)
    (ha : q.authenticated = false) (hlog : q.log = p.log) (hcr : q.crashed = false → p.crashed = false)
    (hpa : p.authenticated = false) :
    Inv S guid q := by
  unfold Inv InvO
  rw [hlog, ha]
  refine ⟨?_, ?_, h.2.2.1, fun hx => h.2.2.2.1 (hcr hx), fun _ => ?_⟩
  rotate_left 2
  · exact h.2.2.2.2 hpa
  · intro h1 h2 _
    rcases hq with hq | hq
    · rw [hq] at h1; cases h1
    · rw [hq] at h2; cases h2
  · intro hx; cases hx

/-- The loop over the lines of one read preserves the invariant; on success the invariant holds with
`authenticated` set (what the hand-off does next). -/
theorem lineLoop_inv (p : Proto W I) (ls : List Bytes) (h : Inv S guid p) (hcr : p.crashed = false)
    (ha : p.authenticated = false) :
    (∀ rest, (lineLoop S p ls).2 = .success rest →
      InvO S guid (lineLoop S p ls).1.closed (lineLoop S p ls).1.crashed true (lineLoop S p ls).1.srv
        (lineLoop S p ls).1.log) ∧
    ((∀ rest, (lineLoop S p ls).2 ≠ .success rest) → Inv S guid (lineLoop S p ls).1) := by
  induction ls generalizing p with
  | nil => simp [lineLoop]; exact h
  | cons l t ih =>
    simp only [lineLoop]
    by_cases hc : p.closed = true
    · simp [hc]; exact h
    · have hc' : p.closed = false := by simpa using hc
      by_cases hl : l.length > maxAuthLength
      · simp only [hc', hl, if_true, Bool.false_eq_true, if_false]
        refine ⟨fun _ hx => (nomatch hx), fun _ => ?_⟩
        exact inv_dead S guid p p.close h (Or.inl rfl) ha rfl (fun hx => hx) ha
      · simp only [hc', hl, Bool.false_eq_true, if_false]
        obtain ⟨s1, s2, s3, s4⟩ := step_inv S guid p l h hc' hcr ha
        cases hr : (handle S p.srv l).res with
        | crash =>
          simp only
          exact ⟨fun _ hx => (nomatch hx), fun _ => s1 hr⟩
        | failed =>
          simp only
          exact ih _ (s2 hr) hcr ha
        | ok =>
          simp only
          by_cases hau : (handle S p.srv l).srv.authenticated = true
          · simp only [hau, if_true]
            refine ⟨fun _ _ => ?_, fun hx => absurd rfl (hx t)⟩
            have := s3 hr hau
            simpa [hc', hcr] using this
          · simp only [hau]
            exact ih _ (s4 hr (by simpa using hau)) hcr ha

theorem recvLines_inv (p : Proto W I) (d : Bytes) (h : Inv S guid p) (hcr : p.crashed = false)
    (ha : p.authenticated = false) : Inv S guid (recvLines S p d) := by
  rw [recvLines_eq]
  have hp : Inv S guid (p.setBuf (splitCRLF (p.buffer ++ d)).2) := h
  have := lineLoop_inv S guid (p.setBuf (splitCRLF (p.buffer ++ d)).2) (splitCRLF (p.buffer ++ d)).1 hp hcr ha
  have hfr := lineLoop_frame S (p.setBuf (splitCRLF (p.buffer ++ d)).2) (splitCRLF (p.buffer ++ d)).1
  cases hk : lineLoop S (p.setBuf (splitCRLF (p.buffer ++ d)).2) (splitCRLF (p.buffer ++ d)).1 with
  | mk q k =>
    rw [hk] at this hfr
    cases k with
    | done =>
      have hq : Inv S guid q := this.2 (fun _ hx => by cases hx)
      simp only
      split
      · exact inv_dead S guid q q.close hq (Or.inl rfl) (hfr.2.2.1.trans ha) rfl (fun hx => hx) (hfr.2.2.1.trans ha)
      · exact hq
    | ret => exact this.2 (fun _ hx => by cases hx)
    | success rest => exact this.1 rest rfl

theorem recv_inv (p : Proto W I) (d : Bytes) (h : Inv S guid p) : Inv S guid (recv S p d) := by
  cases hcr : p.crashed with
  | true => rw [recv_crashed S p d hcr]; exact h
  | false =>
    cases ha : p.authenticated with
    | true => rw [recv_auth S p d hcr ha]; exact h
    | false =>
      cases hf : p.firstByte with
      | true =>
        cases d with
        | nil =>
          simp only [recv, hcr, ha, hf, if_true, Bool.false_eq_true, if_false]
          exact inv_dead S guid p p.crash h (Or.inr rfl) ha rfl (fun hx => by cases hx) ha
        | cons b d' =>
          by_cases hb : b = 0
          · subst hb
            rw [recv_first_nul S p d' hcr ha hf]
            exact recvLines_inv S guid p.dropFirst d' h hcr ha
          · rw [recv_first_bad S p b d' hcr ha hf hb]
            exact inv_dead S guid p p.close h (Or.inl rfl) ha rfl (fun hx => hx) ha
      | false =>
        rw [recv_lines S p d hcr ha hf]
        exact recvLines_inv S guid p d h hcr ha

theorem runReads_inv (p : Proto W I) (reads : List Bytes) (h : Inv S guid p) :
    Inv S guid (runReads S p reads) := by
  induction reads generalizing p with
  | nil => exact h
  | cons d t ih => exact ih _ (recv_inv S guid p d h)

end Txdbus.AuthServer
