import TxdbusModel.Auth.ServerBytes
/-
Lemmas about `splitCRLF` / `joinCRLF` (C06 line framing): splitting is incremental
(`splitCRLF (x ++ y)` from `splitCRLF x`), joining undoes splitting, the remainder holds no
complete delimiter, and a long remainder makes a long next line.
-/
namespace Txdbus.AuthServer

theorem splitCRLF_nil : splitCRLF [] = ([], []) := by simp [splitCRLF]
theorem splitCRLF_single (x : UInt8) : splitCRLF [x] = ([], [x]) := by simp [splitCRLF]

theorem splitCRLF_crlf (t : Bytes) : splitCRLF (13 :: 10 :: t) = ([] :: (splitCRLF t).1, (splitCRLF t).2) := by
  simp [splitCRLF]

theorem splitCRLF_other (x y : UInt8) (t : Bytes) (h : ¬(x = 13 ∧ y = 10)) :
    splitCRLF (x :: y :: t) = pushFront x (splitCRLF (y :: t)) := by
  simp only [splitCRLF, h, if_false]

theorem pushFront_fst_nil (x : UInt8) (r : List Bytes × Bytes) : (pushFront x r).1 = [] ↔ r.1 = [] := by
  unfold pushFront; split <;> simp_all

/-- No complete line: the remainder is the whole input. -/
theorem splitCRLF_rem_of_nil (z : Bytes) : (splitCRLF z).1 = [] → (splitCRLF z).2 = z := by
  fun_induction splitCRLF z with
  | case1 => simp
  | case2 a => simp
  | case3 a b t h ih => simp
  | case4 a b t h ih =>
    intro h1
    rw [pushFront_fst_nil] at h1
    have := ih h1
    unfold pushFront
    rw [h1]; simp [this]

/-- Incrementality. -/
theorem splitCRLF_append (x y : Bytes) :
    splitCRLF (x ++ y) =
      ((splitCRLF x).1 ++ (splitCRLF ((splitCRLF x).2 ++ y)).1, (splitCRLF ((splitCRLF x).2 ++ y)).2) := by
  fun_induction splitCRLF x with
  | case1 => simp
  | case2 a => simp
  | case3 a b t h ih =>
    obtain ⟨rfl, rfl⟩ := h
    simp only [List.cons_append, splitCRLF_crlf, ih, List.cons_append]
  | case4 a b t h ih =>
    rw [List.cons_append, List.cons_append, splitCRLF_other a b (t ++ y) h]
    rw [List.cons_append] at ih
    rw [ih]
    cases hr : (splitCRLF (b :: t)).1 with
    | nil =>
      have h2 := splitCRLF_rem_of_nil _ hr
      simp only [pushFront, hr, h2, List.nil_append, List.cons_append]
      rw [splitCRLF_other a b (t ++ y) h]
      simp only [pushFront]
    | cons l ls =>
      simp only [pushFront, hr, List.cons_append]

/-! ## join -/

theorem joinCRLF_pushFront (x : UInt8) (r : List Bytes × Bytes) :
    joinCRLF (pushFront x r).1 (pushFront x r).2 = x :: joinCRLF r.1 r.2 := by
  unfold pushFront; split <;> simp_all [joinCRLF]

/-- Joining undoes splitting. -/
theorem joinCRLF_split (z : Bytes) : joinCRLF (splitCRLF z).1 (splitCRLF z).2 = z := by
  fun_induction splitCRLF z with
  | case1 => simp [joinCRLF]
  | case2 a => simp [joinCRLF]
  | case3 a b t h ih => obtain ⟨rfl, rfl⟩ := h; simp [joinCRLF, ih]
  | case4 a b t h ih => rw [joinCRLF_pushFront, ih]

theorem joinCRLF_append (ls ms : List Bytes) (last : Bytes) :
    joinCRLF (ls ++ ms) last = joinCRLF ls (joinCRLF ms last) := by
  induction ls with
  | nil => simp [joinCRLF]
  | cons l t ih => simp [joinCRLF, ih]

theorem joinCRLF_last_append (ls : List Bytes) (r b : Bytes) :
    joinCRLF ls (r ++ b) = joinCRLF ls r ++ b := by
  induction ls with
  | nil => simp [joinCRLF]
  | cons l t ih => simp [joinCRLF, ih]

/-! ## the remainder -/

theorem pushFront_snd (x : UInt8) (r : List Bytes × Bytes) :
    (pushFront x r).2 = if r.1 = [] then x :: r.2 else r.2 := by
  unfold pushFront; split <;> simp_all

/-- The remainder holds no complete delimiter. -/
theorem splitCRLF_rem_nolines (z : Bytes) : (splitCRLF (splitCRLF z).2).1 = [] := by
  fun_induction splitCRLF z with
  | case1 => simp [splitCRLF]
  | case2 a => simp [splitCRLF]
  | case3 a b t h ih => simpa using ih
  | case4 a b t h ih =>
    rw [pushFront_snd]
    split
    · rename_i h1
      have h2 := splitCRLF_rem_of_nil _ h1
      rw [h2, splitCRLF_other a b t h, pushFront_fst_nil]; exact h1
    · exact ih

/-- With no complete delimiter in `r`, the first line of `r ++ b` holds all of `r` except possibly a
trailing CR. -/
theorem first_line_long (r b : Bytes) :
    (splitCRLF r).1 = [] → ∀ l ls, (splitCRLF (r ++ b)).1 = l :: ls → r.length ≤ l.length + 1 := by
  fun_induction splitCRLF r with
  | case1 => intro _ l ls _; simp
  | case2 a => intro _ l ls _; simp
  | case3 a b' t h ih => intro h1; simp at h1
  | case4 a b' t h ih =>
    intro h1 l ls h2
    rw [pushFront_fst_nil] at h1
    rw [List.cons_append, List.cons_append, splitCRLF_other a b' (t ++ b) h] at h2
    rw [← List.cons_append] at h2
    cases h3 : (splitCRLF (b' :: t ++ b)).1 with
    | nil => rw [(pushFront_fst_nil _ _).2 h3] at h2; cases h2
    | cons l' ls' =>
      have := ih h1 l' ls' h3
      unfold pushFront at h2
      rw [h3] at h2
      simp at h2
      obtain ⟨rfl, _⟩ := h2
      simp at this ⊢
      omega

end Txdbus.AuthServer
