/-
C07 x C06 proofs, part 3 - the conversation at the level of whole lines.

`Hyp` (what the theorems assume about the environment), `expectedMech` (which mechanism the environment
allows), the phases of the conversation (`Phase`: exactly one complete line is in flight and both line buffers
are empty; `BeginSent`; `Done`) and what delivering the line in flight leads to (`phase_next`).
-/
import TxdbusModel.Proofs.Auth.Handshake2Lines
import TxdbusModel.Proofs.Auth.ClientLiveness

namespace Txdbus.Handshake2

open Txdbus.AuthServer (real NoCR RealWorld Inst lit Server Out handle cookieAuthLine getpwuidI)
open Txdbus.Gen.ServerAuth (wOk wData wError wErrorSp maxRejects maxAuthLength)
open Txdbus.AuthClient (Ev sends lBEGIN lDATA lNEGOTIATE)

/-! ## what the environment allows -/

/-- The peer credentials carry a uid that has a passwd entry. -/
def credsOk (cfg : Cfg) : Bool :=
  match cfg.w0.cfg.creds with
  | some uid => (getpwuidI cfg.w0.cfg uid).isSome
  | none => false

/-- The bus's authenticator after it rejected EXTERNAL. -/
def srv1 (cfg : Cfg) : Server RealWorld Inst := { Server.init cfg.guid cfg.w0 with rejects := 1 }

/-- The bus's answer to the client's `AUTH DBUS_COOKIE_SHA1 <hex user>` ... -/
def o1 (cfg : Cfg) : Out RealWorld Inst := handle real (srv1 cfg) (cookieAuthLine cfg.user)

/-- ... is a challenge (and not REJECTED) ... -/
def challenged (cfg : Cfg) : Bool := (o1 cfg).srv.state == .waitingForData

def chalLine (cfg : Cfg) : Bytes := (o1 cfg).sent.headD []

/-- ... the client's answer to it, computed in the world the bus's first step left (the cookie is in the
keyring file now) ... -/
def reply (cfg : Cfg) : Bytes :=
  match AuthClient.handleAuthMessage (envOf cfg (o1 cfg).srv.world) (authAt cfg.unix 1) (chalLine cfg) with
  | .ok (_, [r]) => r
  | _ => []

/-- ... and the bus's answer to that. -/
def o2 (cfg : Cfg) : Out RealWorld Inst := handle real (o1 cfg).srv (reply cfg)

/-- "The keyring is usable": the three-line DBUS_COOKIE_SHA1 exchange of the two models, run on whole lines,
ends with the bus waiting for BEGIN.  (`keyringUsable_of_shared_keyring` gives a sufficient condition in terms of
passwd, directories and files.) -/
def keyringUsable (cfg : Cfg) : Bool := challenged cfg && (o2 cfg).srv.state == .waitingForBegin

/-- Index into the client's preference list of the mechanism the environment allows:
0 EXTERNAL when credentials are available and the uid has a passwd entry, else 1 DBUS_COOKIE_SHA1 when the
keyring is usable, else 2 ANONYMOUS. -/
def expectedMech (cfg : Cfg) : Nat := if credsOk cfg then 0 else if keyringUsable cfg then 1 else 2

/-- The hypotheses of the composition theorems: every line fits the 16384-byte limit of the other side and holds
no CR. -/
structure Hyp (cfg : Cfg) : Prop where
  /-- the bus's GUID is hex text (it is `binascii.hexlify(os.urandom(16))`-like: 32 digits) -/
  guid : ∃ g, g ≠ [] ∧ cfg.guid = AuthServer.hexlify g ∧ 2 * g.length + 3 ≤ 16384
  /-- the user name fits `AUTH DBUS_COOKIE_SHA1 <hex>` -/
  user : 2 * cfg.user.length + 22 ≤ 16384
  /-- `str(e).encode('unicode-escape')` holds no CR and fits -/
  errText : ∀ e, NoCR (cfg.errText e) ∧ (cfg.errText e).length + 6 ≤ 16384
  /-- SHA-1 digests have 20 bytes -/
  sha : ∀ x, (cfg.w0.cfg.sha1 x).length = 20
  /-- the bus's answer to `AUTH DBUS_COOKIE_SHA1` (the challenge with context name and cookie id) fits -/
  challenge : ∀ l ∈ (o1 cfg).sent, l.length ≤ 16384

/-- The mechanisms whose step accepted, in order (ghost log of the bus). -/
def accepts : List AuthServer.Ev → List Bytes
  | [] => []
  | e :: t =>
    match e.mech with
    | some (n, .accept) => n :: accepts t
    | _ => accepts t

theorem accepts_append (a b : List AuthServer.Ev) : accepts (a ++ b) = accepts a ++ accepts b := by
  induction a with
  | nil => rfl
  | cons e t ih =>
    simp only [List.cons_append, accepts]
    split <;> simp [ih]

/-! ## delivering one whole line -/

/-- Deliver everything that is queued for the bus / for the client in one read. -/
def lstepS (st : State) : State := feedS st st.c2s []
def lstepC (cfg : Cfg) (st : State) : State := feedC cfg st st.s2c []

/-- What holds of the bus before it authenticates, at a line boundary. -/
structure SBase (cfg : Cfg) (s : SProto) : Prop where
  first : s.firstByte = false
  buf : s.buffer = []
  open_ : s.closed = false
  alive : s.crashed = false
  unauth : s.authenticated = false
  srvUnauth : s.srv.authenticated = false
  guid : s.srv.serverGuid = cfg.guid
  bin : s.binary = []

/-- What holds of the client before it authenticates, at a line boundary. -/
structure CBase (c : CProto) (a : AuthClient.Auth) : Prop where
  auth : c.auth = a
  open_ : c.disconnecting = false
  unauth : c.authenticated = false
  buf : c.buffer = []
  bin : c.binary = []
  noBegin : lBEGIN ∉ sends c.trace
  noA : Ev.authenticated ∉ c.trace

theorem feedS_line (cfg : Cfg) (st : State) (l : Bytes) (hb : SBase cfg st.s) (hq : st.c2s = l ++ [13, 10])
    (hl : NoCR l) (hlen : l.length ≤ maxAuthLength)
    (hres : (handle real st.s.srv l).res = .ok) (hna : (handle real st.s.srv l).srv.authenticated = false) :
    lstepS st =
      { st with s := (st.s.handled l (handle real st.s.srv l)).setBuf [], c2s := [],
                s2c := st.s2c ++ wireS (handle real st.s.srv l).sent, fedS := st.fedS ++ st.c2s } := by
  unfold lstepS feedS
  have h := srv_complete st.s st.c2s l hb.alive hb.unauth hb.first hb.open_ hl hlen (by rw [hb.buf, hq]; rfl) hres hna
  simp only [h]
  have : ((st.s.handled l (handle real st.s.srv l)).setBuf []).sent = st.s.sent ++ (handle real st.s.srv l).sent := rfl
  rw [this, List.drop_left]

theorem wireC_reply (hello l r : Bytes) :
    wireC hello ([Ev.recv l] ++ [r].map Ev.send) = r ++ [13, 10] := by
  simp [wireC]

theorem feedC_line (cfg : Cfg) (st : State) (l r : Bytes) (a a' : AuthClient.Auth) (hb : CBase st.c a)
    (hq : st.s2c = l ++ [13, 10]) (hl : NoCR l) (hlen : l.length ≤ AuthClient.maxAuth)
    (hh : AuthClient.handleAuthMessage (envOf cfg st.s.srv.world) a l = .ok (a', [r]))
    (hna : a'.authenticated = false) :
    lstepC cfg st =
      { st with c := { st.c with seen := st.c.seen + 1, auth := a',
                                 trace := st.c.trace ++ [Ev.recv l] ++ [r].map Ev.send },
                s2c := [], c2s := st.c2s ++ (r ++ [13, 10]), fedC := st.fedC ++ st.s2c } := by
  unfold lstepC feedC
  have h1 := cli_complete (fun _ => envOf cfg st.s.srv.world) st.c st.s2c l hb.unauth hl (by rw [hb.buf, hq]; rfl)
  have hbuf : ({ st.c with buffer := [] } : CProto) = st.c := by
    have := hb.buf; cases hc : st.c; simp_all
  rw [hbuf] at h1
  have h2 := processLines_reply (fun _ => envOf cfg st.s.srv.world) st.c l a' [r] hb.open_ hb.buf hlen
    (by rw [hb.auth]; exact hh) hna
  simp only [h1, h2]
  rw [List.append_assoc, List.drop_left, wireC_reply]

theorem wireC_success (hello l r : Bytes) :
    wireC hello ([Ev.recv l] ++ [r].map Ev.send ++ [Ev.authenticated]) = r ++ 13 :: 10 :: hello := by
  simp [wireC]

theorem feedC_success (cfg : Cfg) (st : State) (l r : Bytes) (a a' : AuthClient.Auth) (hb : CBase st.c a)
    (hq : st.s2c = l ++ [13, 10]) (hl : NoCR l) (hlen : l.length ≤ AuthClient.maxAuth)
    (hh : AuthClient.handleAuthMessage (envOf cfg st.s.srv.world) a l = .ok (a', [r]))
    (hna : a'.authenticated = true) :
    lstepC cfg st =
      { st with c := { st.c with seen := st.c.seen + 1, auth := a', authenticated := true, buffer := [], binary := [],
                                 trace := st.c.trace ++ [Ev.recv l] ++ [r].map Ev.send ++ [Ev.authenticated] },
                s2c := [], c2s := st.c2s ++ (r ++ 13 :: 10 :: cfg.hello), fedC := st.fedC ++ st.s2c } := by
  unfold lstepC feedC
  have h1 := cli_complete (fun _ => envOf cfg st.s.srv.world) st.c st.s2c l hb.unauth hl (by rw [hb.buf, hq]; rfl)
  have hbuf : ({ st.c with buffer := [] } : CProto) = st.c := by
    have := hb.buf; cases hc : st.c; simp_all
  rw [hbuf] at h1
  have h2 := processLines_success (fun _ => envOf cfg st.s.srv.world) st.c l a' [r] hb.open_ hb.buf hlen
    (by rw [hb.auth]; exact hh) hna
  simp only [h1, h2]
  have hd : (st.c.trace ++ [Ev.recv l] ++ [r].map Ev.send ++ [Ev.authenticated]).drop st.c.trace.length =
      [Ev.recv l] ++ [r].map Ev.send ++ [Ev.authenticated] := by
    rw [List.append_assoc, List.append_assoc, List.drop_left]; simp
  rw [hd, wireC_success]

/-! ## the DBUS_COOKIE_SHA1 exchange of the two models -/

theorem srv1_facts (cfg : Cfg) :
    (srv1 cfg).state = .waitingForAuth ∧ (srv1 cfg).rejects = 1 ∧ (srv1 cfg).cur = none ∧
    (srv1 cfg).world = cfg.w0 ∧ (srv1 cfg).serverGuid = cfg.guid ∧ (srv1 cfg).authenticated = false :=
  ⟨rfl, rfl, rfl, rfl, rfl, rfl⟩

/-- The bus's answer to AUTH DBUS_COOKIE_SHA1: REJECTED ... -/
def O1Rejected (cfg : Cfg) : Prop :=
  ∃ w' mm, o1 cfg =
    ⟨{ srv1 cfg with cur := none, world := w', rejects := 2, state := .waitingForAuth },
      [AuthServer.rejectLine real], .ok, mm, true⟩ ∧ (∀ n, mm ≠ some (n, .accept))

/-- ... or a challenge. -/
def O1Challenge (cfg : Cfg) (m : Bytes) (w1 : RealWorld) (c1 : AuthServer.CookieSt) : Prop :=
  o1 cfg =
    ⟨{ srv1 cfg with world := w1, cur := some (lit "DBUS_COOKIE_SHA1", .cookie c1), state := .waitingForData },
      [wData ++ AuthServer.hexlify m], .ok, some (lit "DBUS_COOKIE_SHA1", .challenge m), false⟩ ∧
  AuthServer.RealGood w1 (.cookie c1) ∧ w1.cfg = cfg.w0.cfg

theorem o1_cases (cfg : Cfg) :
    (challenged cfg = false ∧ O1Rejected cfg) ∨ (challenged cfg = true ∧ ∃ m w1 c1, O1Challenge cfg m w1 c1) := by
  rcases sv_auth_cookie (srv1 cfg) cfg.user rfl (by show 1 + 1 ≤ maxRejects; decide) with ⟨w', mm, h, hm⟩ | ⟨m, w1, c1, h, hg, hc⟩
  · left
    refine ⟨?_, w', mm, h, hm⟩
    unfold challenged o1
    rw [h]; rfl
  · right
    refine ⟨?_, m, w1, c1, h, hg, hc⟩
    unfold challenged o1
    rw [h]; rfl

theorem chalLine_eq {cfg : Cfg} {m w1 c1} (h : O1Challenge cfg m w1 c1) :
    chalLine cfg = wData ++ AuthServer.hexlify m := by
  unfold chalLine; rw [h.1]; rfl

theorem o1_world {cfg : Cfg} {m w1 c1} (h : O1Challenge cfg m w1 c1) : (o1 cfg).srv.world = w1 := by
  rw [h.1]

/-- The client's answer to the challenge: the response, or ERROR. -/
theorem reply_spec {cfg : Cfg} {m w1 c1} (h : O1Challenge cfg m w1 c1) :
    AuthClient.handleAuthMessage (envOf cfg w1) (authAt cfg.unix 1) (chalLine cfg) =
      .ok (authAt cfg.unix 1, [reply cfg]) ∧
    reply cfg = (match AuthClient.cookieResponse (envOf cfg w1) (AuthServer.hexlify m) with
                 | .ok l => l
                 | .error e => b!"ERROR " ++ cfg.errText e) := by
  have h1 := cl_data_cookie (envOf cfg w1) (authAt cfg.unix 1) (AuthServer.hexlify m) (authAt_mech cfg.unix 1)
  rw [← chalLine_eq h] at h1
  have hr : reply cfg = (match AuthClient.cookieResponse (envOf cfg w1) (AuthServer.hexlify m) with
                 | .ok l => l
                 | .error e => b!"ERROR " ++ cfg.errText e) := by
    unfold reply
    rw [o1_world h, h1]
    rfl
  exact ⟨by rw [hr]; exact h1, hr⟩

theorem isAscii_hexlify_pair (a b : Bytes) :
    AuthServer.isAscii (AuthServer.hexlify a ++ 32 :: AuthServer.hexlify b) = true := by
  rw [AuthServer.isAscii_append, AuthServer.isAscii_hexlify]
  have := AuthServer.isAscii_hexlify b
  unfold AuthServer.isAscii at this ⊢
  simp [this]

/-- The shape of the client's answer: `DATA <hex of non-empty ASCII text>` of 167 bytes, or `ERROR <text>`. -/
theorem reply_shape {cfg : Cfg} (hyp : Hyp cfg) {m w1 c1} (h : O1Challenge cfg m w1 c1) :
    (∃ y, reply cfg = wData ++ AuthServer.hexlify y ∧ y ≠ [] ∧ AuthServer.isAscii y = true ∧ y.length = 81) ∨
    (∃ e, reply cfg = wErrorSp ++ cfg.errText e) := by
  rw [(reply_spec h).2]
  cases hc : AuthClient.cookieResponse (envOf cfg w1) (AuthServer.hexlify m) with
  | error e => right; exact ⟨e, rfl⟩
  | ok l =>
    left
    obtain ⟨a, b, hl⟩ := cookieResponse_ok_shape hc
    refine ⟨_, hl, by simp, isAscii_hexlify_pair _ _, ?_⟩
    have hs : ∀ x, ((envOf cfg w1).sha1 x).length = 20 := by
      intro x; show (w1.cfg.sha1 x).length = 20; rw [h.2.2]; exact hyp.sha x
    simp [AuthServer.hexlify_length, hs]

/-- The bus's answer to the client's answer: OK (and BEGIN will find the user name), or REJECTED. -/
def O2Accepted (cfg : Cfg) : Prop :=
  ∃ w2 c2 u, o2 cfg =
    ⟨{ (o1 cfg).srv with world := w2, cur := some (lit "DBUS_COOKIE_SHA1", .cookie c2), state := .waitingForBegin },
      [wOk ++ cfg.guid], .ok, some (lit "DBUS_COOKIE_SHA1", .accept), false⟩ ∧
    real.userName w2 (.cookie c2) = some u

def O2Rejected (cfg : Cfg) : Prop :=
  ∃ w' mm, o2 cfg =
    ⟨{ (o1 cfg).srv with cur := none, world := w', rejects := 2, state := .waitingForAuth },
      [AuthServer.rejectLine real], .ok, mm, true⟩ ∧ (∀ n, mm ≠ some (n, .accept))

theorem o2_cases {cfg : Cfg} (hyp : Hyp cfg) {m w1 c1} (h : O1Challenge cfg m w1 c1) :
    (keyringUsable cfg = true ∧ O2Accepted cfg) ∨ (keyringUsable cfg = false ∧ O2Rejected cfg) := by
  have hch : challenged cfg = true := by
    unfold challenged; rw [h.1]; rfl
  have hs : (o1 cfg).srv.state = .waitingForData := by rw [h.1]
  have hcur : (o1 cfg).srv.cur = some (lit "DBUS_COOKIE_SHA1", .cookie c1) := by rw [h.1]
  have hw : (o1 cfg).srv.world = w1 := o1_world h
  have hrej : (o1 cfg).srv.rejects = 1 := by rw [h.1]; rfl
  have hguid : (o1 cfg).srv.serverGuid = cfg.guid := by rw [h.1]; rfl
  have hg : AuthServer.RealGood (o1 cfg).srv.world (.cookie c1) := by rw [hw]; exact h.2.1
  rcases reply_shape hyp h with ⟨y, hy, hy0, hya, _⟩ | ⟨e, he⟩
  · rcases sv_cookie_data (o1 cfg).srv c1 y hs hcur hg hy0 hya (by rw [hrej]; decide) with
      ⟨w2, c2, u, ho, hu⟩ | ⟨w', mm, ho, hm⟩
    · left
      have ho2 := ho
      rw [← hy] at ho2
      change o2 cfg = _ at ho2
      refine ⟨?_, w2, c2, u, by rw [ho2, hguid], hu⟩
      unfold keyringUsable
      rw [hch, ho2]; rfl
    · right
      have ho2 := ho
      rw [← hy] at ho2
      change o2 cfg = _ at ho2
      refine ⟨?_, w', mm, by rw [ho2, hrej], hm⟩
      unfold keyringUsable
      rw [hch, ho2]; rfl
  · obtain ⟨w', ho⟩ := sv_cookie_error (o1 cfg).srv c1 (cfg.errText e) hs hcur hg (by rw [hrej]; decide)
    right
    have ho2 := ho
    rw [← he] at ho2
    change o2 cfg = _ at ho2
    refine ⟨?_, w', none, by rw [ho2, hrej], fun n hn => by simp at hn⟩
    unfold keyringUsable
    rw [hch, ho2]; rfl

end Txdbus.Handshake2
