/-
C07 x C06 proofs, part 3 - the conversation at the level of whole lines.

`Hyp` (what the theorems assume about the environment), `expectedMech` (which mechanism the environment
allows), the phases of the conversation (`Phase`: exactly one complete line is in flight and both line buffers
are empty; `BeginSent`; `Done`) and what delivering the line in flight leads to (`phase_next`).
-/
import TxdbusModel.Proofs.Auth.Handshake2Lines
import TxdbusModel.Proofs.Auth.ClientLiveness

namespace Txdbus.Handshake2

open Txdbus.AuthServer (real NoCR RealWorld Inst lit Server Out handle cookieAuthLine getpwuidI)
open Txdbus.Gen.ServerAuth (wOk wData wError wErrorSp maxRejects maxAuthLength)
open Txdbus.AuthClient (Ev sends lBEGIN lDATA lNEGOTIATE)

/-! ## what the environment allows -/

/-- The peer credentials carry a uid that has a passwd entry. -/
def credsOk (cfg : Cfg) : Bool :=
  match cfg.w0.cfg.creds with
  | some uid => (getpwuidI cfg.w0.cfg uid).isSome
  | none => false

/-- The bus's authenticator after it rejected EXTERNAL. -/
def srv1 (cfg : Cfg) : Server RealWorld Inst := { Server.init cfg.guid cfg.w0 with rejects := 1 }

/-- The bus's answer to the client's `AUTH DBUS_COOKIE_SHA1 <hex user>` ... -/
def o1 (cfg : Cfg) : Out RealWorld Inst := handle real (srv1 cfg) (cookieAuthLine cfg.user)

/-- ... is a challenge (and not REJECTED) ... -/
def challenged (cfg : Cfg) : Bool := (o1 cfg).srv.state == .waitingForData

def chalLine (cfg : Cfg) : Bytes := (o1 cfg).sent.headD []

/-- ... the client's answer to it, computed in the world the bus's first step left (the cookie is in the
keyring file now) ... -/
def reply (cfg : Cfg) : Bytes :=
  match AuthClient.handleAuthMessage (envOf cfg (o1 cfg).srv.world) (authAt cfg.unix 1) (chalLine cfg) with
  | .ok (_, [r]) => r
  | _ => []

/-- ... and the bus's answer to that. -/
def o2 (cfg : Cfg) : Out RealWorld Inst := handle real (o1 cfg).srv (reply cfg)

/-- "The keyring is usable": the three-line DBUS_COOKIE_SHA1 exchange of the two models, run on whole lines,
ends with the bus waiting for BEGIN.  (`keyringUsable_of_shared_keyring` gives a sufficient condition in terms of
passwd, directories and files.) -/
def keyringUsable (cfg : Cfg) : Bool := challenged cfg && (o2 cfg).srv.state == .waitingForBegin

/-- Index into the client's preference list of the mechanism the environment allows:
0 EXTERNAL when credentials are available and the uid has a passwd entry, else 1 DBUS_COOKIE_SHA1 when the
keyring is usable, else 2 ANONYMOUS. -/
def expectedMech (cfg : Cfg) : Nat := if credsOk cfg then 0 else if keyringUsable cfg then 1 else 2

/-- The hypotheses of the composition theorems: every line fits the 16384-byte limit of the other side and holds
no CR. -/
structure Hyp (cfg : Cfg) : Prop where
  /-- the bus's GUID is hex text (it is `binascii.hexlify(os.urandom(16))`-like: 32 digits) -/
  guid : ∃ g, g ≠ [] ∧ cfg.guid = AuthServer.hexlify g ∧ 2 * g.length + 3 ≤ 16384
  /-- the user name fits `AUTH DBUS_COOKIE_SHA1 <hex>` -/
  user : 2 * cfg.user.length + 22 ≤ 16384
  /-- `str(e).encode('unicode-escape')` holds no CR and fits -/
  errText : ∀ e, NoCR (cfg.errText e) ∧ (cfg.errText e).length + 6 ≤ 16384
  /-- SHA-1 digests have 20 bytes -/
  sha : ∀ x, (cfg.w0.cfg.sha1 x).length = 20
  /-- the bus's answer to `AUTH DBUS_COOKIE_SHA1` (the challenge with context name and cookie id) fits -/
  challenge : ∀ l ∈ (o1 cfg).sent, l.length ≤ 16384

/-- The mechanisms whose step accepted, in order (ghost log of the bus). -/
def accepts : List AuthServer.Ev → List Bytes
  | [] => []
  | e :: t =>
    match e.mech with
    | some (n, .accept) => n :: accepts t
    | _ => accepts t

theorem accepts_append (a b : List AuthServer.Ev) : accepts (a ++ b) = accepts a ++ accepts b := by
  induction a with
  | nil => rfl
  | cons e t ih =>
    simp only [List.cons_append, accepts]
    split <;> simp [ih]

/-! ## delivering one whole line -/

/-- Deliver everything that is queued for the bus / for the client in one read. -/
def lstepS (st : State) : State := feedS st st.c2s []
def lstepC (cfg : Cfg) (st : State) : State := feedC cfg st st.s2c []

/-- What holds of the bus before it authenticates, at a line boundary. -/
structure SBase (cfg : Cfg) (s : SProto) : Prop where
  first : s.firstByte = false
  buf : s.buffer = []
  open_ : s.closed = false
  alive : s.crashed = false
  unauth : s.authenticated = false
  srvUnauth : s.srv.authenticated = false
  guid : s.srv.serverGuid = cfg.guid
  bin : s.binary = []

/-- What holds of the client before it authenticates, at a line boundary. -/
structure CBase (c : CProto) (a : AuthClient.Auth) : Prop where
  auth : c.auth = a
  open_ : c.disconnecting = false
  unauth : c.authenticated = false
  buf : c.buffer = []
  bin : c.binary = []
  noBegin : lBEGIN ∉ sends c.trace
  noA : Ev.authenticated ∉ c.trace

theorem feedS_line (cfg : Cfg) (st : State) (l : Bytes) (hb : SBase cfg st.s) (hq : st.c2s = l ++ [13, 10])
    (hl : NoCR l) (hlen : l.length ≤ maxAuthLength)
    (hres : (handle real st.s.srv l).res = .ok) (hna : (handle real st.s.srv l).srv.authenticated = false) :
    lstepS st =
      { st with s := (st.s.handled l (handle real st.s.srv l)).setBuf [], c2s := [],
                s2c := st.s2c ++ wireS (handle real st.s.srv l).sent } := by
  unfold lstepS feedS
  have h := srv_complete st.s st.c2s l hb.alive hb.unauth hb.first hb.open_ hl hlen (by rw [hb.buf, hq]; rfl) hres hna
  simp only [h]
  have : ((st.s.handled l (handle real st.s.srv l)).setBuf []).sent = st.s.sent ++ (handle real st.s.srv l).sent := rfl
  rw [this, List.drop_left]

theorem wireC_reply (hello l r : Bytes) :
    wireC hello ([Ev.recv l] ++ [r].map Ev.send) = r ++ [13, 10] := by
  simp [wireC]

theorem feedC_line (cfg : Cfg) (st : State) (l r : Bytes) (a a' : AuthClient.Auth) (hb : CBase st.c a)
    (hq : st.s2c = l ++ [13, 10]) (hl : NoCR l) (hlen : l.length ≤ AuthClient.maxAuth)
    (hh : AuthClient.handleAuthMessage (envOf cfg st.s.srv.world) a l = .ok (a', [r]))
    (hna : a'.authenticated = false) :
    lstepC cfg st =
      { st with c := { st.c with seen := st.c.seen + 1, auth := a',
                                 trace := st.c.trace ++ [Ev.recv l] ++ [r].map Ev.send },
                s2c := [], c2s := st.c2s ++ (r ++ [13, 10]) } := by
  unfold lstepC feedC
  have h1 := cli_complete (fun _ => envOf cfg st.s.srv.world) st.c st.s2c l hb.unauth hl (by rw [hb.buf, hq]; rfl)
  have hbuf : ({ st.c with buffer := [] } : CProto) = st.c := by
    have := hb.buf; cases hc : st.c; simp_all
  rw [hbuf] at h1
  have h2 := processLines_reply (fun _ => envOf cfg st.s.srv.world) st.c l a' [r] hb.open_ hb.buf hlen
    (by rw [hb.auth]; exact hh) hna
  simp only [h1, h2]
  rw [List.append_assoc, List.drop_left, wireC_reply]

theorem wireC_success (hello l r : Bytes) :
    wireC hello ([Ev.recv l] ++ [r].map Ev.send ++ [Ev.authenticated]) = r ++ 13 :: 10 :: hello := by
  simp [wireC]

theorem feedC_success (cfg : Cfg) (st : State) (l r : Bytes) (a a' : AuthClient.Auth) (hb : CBase st.c a)
    (hq : st.s2c = l ++ [13, 10]) (hl : NoCR l) (hlen : l.length ≤ AuthClient.maxAuth)
    (hh : AuthClient.handleAuthMessage (envOf cfg st.s.srv.world) a l = .ok (a', [r]))
    (hna : a'.authenticated = true) :
    lstepC cfg st =
      { st with c := { st.c with seen := st.c.seen + 1, auth := a', authenticated := true, buffer := [], binary := [],
                                 trace := st.c.trace ++ [Ev.recv l] ++ [r].map Ev.send ++ [Ev.authenticated] },
                s2c := [], c2s := st.c2s ++ (r ++ 13 :: 10 :: cfg.hello) } := by
  unfold lstepC feedC
  have h1 := cli_complete (fun _ => envOf cfg st.s.srv.world) st.c st.s2c l hb.unauth hl (by rw [hb.buf, hq]; rfl)
  have hbuf : ({ st.c with buffer := [] } : CProto) = st.c := by
    have := hb.buf; cases hc : st.c; simp_all
  rw [hbuf] at h1
  have h2 := processLines_success (fun _ => envOf cfg st.s.srv.world) st.c l a' [r] hb.open_ hb.buf hlen
    (by rw [hb.auth]; exact hh) hna
  simp only [h1, h2]
  have hd : (st.c.trace ++ [Ev.recv l] ++ [r].map Ev.send ++ [Ev.authenticated]).drop st.c.trace.length =
      [Ev.recv l] ++ [r].map Ev.send ++ [Ev.authenticated] := by
    rw [List.append_assoc, List.append_assoc, List.drop_left]; simp
  rw [hd, wireC_success]

/-! ## the DBUS_COOKIE_SHA1 exchange of the two models -/

theorem srv1_facts (cfg : Cfg) :
    (srv1 cfg).state = .waitingForAuth ∧ (srv1 cfg).rejects = 1 ∧ (srv1 cfg).cur = none ∧
    (srv1 cfg).world = cfg.w0 ∧ (srv1 cfg).serverGuid = cfg.guid ∧ (srv1 cfg).authenticated = false :=
  ⟨rfl, rfl, rfl, rfl, rfl, rfl⟩

/-- The bus's answer to AUTH DBUS_COOKIE_SHA1: REJECTED ... -/
def O1Rejected (cfg : Cfg) : Prop :=
  ∃ w' mm, o1 cfg =
    ⟨{ srv1 cfg with cur := none, world := w', rejects := 2, state := .waitingForAuth },
      [AuthServer.rejectLine real], .ok, mm, true⟩ ∧ (∀ n, mm ≠ some (n, .accept))

/-- ... or a challenge. -/
def O1Challenge (cfg : Cfg) (m : Bytes) (w1 : RealWorld) (c1 : AuthServer.CookieSt) : Prop :=
  o1 cfg =
    ⟨{ srv1 cfg with world := w1, cur := some (lit "DBUS_COOKIE_SHA1", .cookie c1), state := .waitingForData },
      [wData ++ AuthServer.hexlify m], .ok, some (lit "DBUS_COOKIE_SHA1", .challenge m), false⟩ ∧
  AuthServer.RealGood w1 (.cookie c1) ∧ w1.cfg = cfg.w0.cfg

theorem o1_cases (cfg : Cfg) :
    (challenged cfg = false ∧ O1Rejected cfg) ∨ (challenged cfg = true ∧ ∃ m w1 c1, O1Challenge cfg m w1 c1) := by
  rcases sv_auth_cookie (srv1 cfg) cfg.user rfl (by show 1 + 1 ≤ maxRejects; decide) with ⟨w', mm, h, hm⟩ | ⟨m, w1, c1, h, hg, hc⟩
  · left
    refine ⟨?_, w', mm, h, hm⟩
    unfold challenged o1
    rw [h]; rfl
  · right
    refine ⟨?_, m, w1, c1, h, hg, hc.1⟩
    unfold challenged o1
    rw [h]; rfl

/-- When the bus answers with a challenge, the user name was not empty and ASCII and the first step of the cookie
mechanism produced that challenge. -/
theorem challenged_step {cfg : Cfg} (h : challenged cfg = true) :
    cfg.user ≠ [] ∧ AuthServer.isAscii cfg.user = true ∧
    ∃ m w1 c1, AuthServer.cookieStep cfg.w0 AuthServer.CookieSt.init (some cfg.user) = (w1, c1, .challenge m) := by
  rcases sv_auth_cookie (srv1 cfg) cfg.user rfl (by show 1 + 1 ≤ maxRejects; decide) with ⟨w', mm, h1, _⟩ | ⟨m, w1, c1, _, _, hc⟩
  · exfalso
    unfold challenged o1 at h
    rw [h1] at h
    cases h
  · exact ⟨hc.2.1, hc.2.2.1, m, w1, c1, hc.2.2.2⟩

theorem chalLine_eq {cfg : Cfg} {m w1 c1} (h : O1Challenge cfg m w1 c1) :
    chalLine cfg = wData ++ AuthServer.hexlify m := by
  unfold chalLine; rw [h.1]; rfl

theorem o1_world {cfg : Cfg} {m w1 c1} (h : O1Challenge cfg m w1 c1) : (o1 cfg).srv.world = w1 := by
  rw [h.1]

/-- The client's answer to the challenge: the response, or ERROR. -/
theorem reply_spec {cfg : Cfg} {m w1 c1} (h : O1Challenge cfg m w1 c1) :
    AuthClient.handleAuthMessage (envOf cfg w1) (authAt cfg.unix 1) (chalLine cfg) =
      .ok (authAt cfg.unix 1, [reply cfg]) ∧
    reply cfg = (match AuthClient.cookieResponse (envOf cfg w1) (AuthServer.hexlify m) with
                 | .ok l => l
                 | .error e => b!"ERROR " ++ cfg.errText e) := by
  have h1 := cl_data_cookie (envOf cfg w1) (authAt cfg.unix 1) (AuthServer.hexlify m) (authAt_mech cfg.unix 1)
  rw [← chalLine_eq h] at h1
  have hr : reply cfg = (match AuthClient.cookieResponse (envOf cfg w1) (AuthServer.hexlify m) with
                 | .ok l => l
                 | .error e => b!"ERROR " ++ cfg.errText e) := by
    unfold reply
    rw [o1_world h, h1]
    rfl
  exact ⟨by rw [hr]; exact h1, hr⟩

theorem isAscii_hexlify_pair (a b : Bytes) :
    AuthServer.isAscii (AuthServer.hexlify a ++ 32 :: AuthServer.hexlify b) = true := by
  rw [AuthServer.isAscii_append, AuthServer.isAscii_hexlify]
  have := AuthServer.isAscii_hexlify b
  unfold AuthServer.isAscii at this ⊢
  simp [this]

/-- The shape of the client's answer: `DATA <hex of non-empty ASCII text>` of 167 bytes, or `ERROR <text>`. -/
theorem reply_shape {cfg : Cfg} (hyp : Hyp cfg) {m w1 c1} (h : O1Challenge cfg m w1 c1) :
    (∃ y, reply cfg = wData ++ AuthServer.hexlify y ∧ y ≠ [] ∧ AuthServer.isAscii y = true ∧ y.length = 81) ∨
    (∃ e, reply cfg = wErrorSp ++ cfg.errText e) := by
  rw [(reply_spec h).2]
  cases hc : AuthClient.cookieResponse (envOf cfg w1) (AuthServer.hexlify m) with
  | error e => right; exact ⟨e, rfl⟩
  | ok l =>
    left
    obtain ⟨a, b, hl⟩ := cookieResponse_ok_shape hc
    refine ⟨_, hl, by simp, isAscii_hexlify_pair _ _, ?_⟩
    have hs : ∀ x, ((envOf cfg w1).sha1 x).length = 20 := by
      intro x; show (w1.cfg.sha1 x).length = 20; rw [h.2.2]; exact hyp.sha x
    simp [AuthServer.hexlify_length, hs]

/-- The bus's answer to the client's answer: OK (and BEGIN will find the user name), or REJECTED. -/
def O2Accepted (cfg : Cfg) : Prop :=
  ∃ w2 c2 u, o2 cfg =
    ⟨{ (o1 cfg).srv with world := w2, cur := some (lit "DBUS_COOKIE_SHA1", .cookie c2), state := .waitingForBegin },
      [wOk ++ cfg.guid], .ok, some (lit "DBUS_COOKIE_SHA1", .accept), false⟩ ∧
    real.userName w2 (.cookie c2) = some u

def O2Rejected (cfg : Cfg) : Prop :=
  ∃ w' mm, o2 cfg =
    ⟨{ (o1 cfg).srv with cur := none, world := w', rejects := 2, state := .waitingForAuth },
      [AuthServer.rejectLine real], .ok, mm, true⟩ ∧ (∀ n, mm ≠ some (n, .accept))

theorem o2_cases {cfg : Cfg} (hyp : Hyp cfg) {m w1 c1} (h : O1Challenge cfg m w1 c1) :
    (keyringUsable cfg = true ∧ O2Accepted cfg) ∨ (keyringUsable cfg = false ∧ O2Rejected cfg) := by
  have hch : challenged cfg = true := by
    unfold challenged; rw [h.1]; rfl
  have hs : (o1 cfg).srv.state = .waitingForData := by rw [h.1]
  have hcur : (o1 cfg).srv.cur = some (lit "DBUS_COOKIE_SHA1", .cookie c1) := by rw [h.1]
  have hw : (o1 cfg).srv.world = w1 := o1_world h
  have hrej : (o1 cfg).srv.rejects = 1 := by rw [h.1]; rfl
  have hguid : (o1 cfg).srv.serverGuid = cfg.guid := by rw [h.1]; rfl
  have hg : AuthServer.RealGood (o1 cfg).srv.world (.cookie c1) := by rw [hw]; exact h.2.1
  rcases reply_shape hyp h with ⟨y, hy, hy0, hya, _⟩ | ⟨e, he⟩
  · rcases sv_cookie_data (o1 cfg).srv c1 y hs hcur hg hy0 hya (by rw [hrej]; decide) with
      ⟨w2, c2, u, ho, hu⟩ | ⟨w', mm, ho, hm⟩
    · left
      have ho2 := ho
      rw [← hy] at ho2
      change o2 cfg = _ at ho2
      refine ⟨?_, w2, c2, u, by rw [ho2]; simp only [hguid], hu⟩
      unfold keyringUsable
      rw [hch, ho2]; rfl
    · right
      have ho2 := ho
      rw [← hy] at ho2
      change o2 cfg = _ at ho2
      refine ⟨?_, w', mm, by rw [ho2]; simp only [hrej], hm⟩
      unfold keyringUsable
      rw [hch, ho2]; rfl
  · obtain ⟨w', ho⟩ := sv_cookie_error (o1 cfg).srv c1 (cfg.errText e) hs hcur hg (by rw [hrej]; decide)
    right
    have ho2 := ho
    rw [← he] at ho2
    change o2 cfg = _ at ho2
    refine ⟨?_, w', none, by rw [ho2]; simp only [hrej], fun n hn => by simp at hn⟩
    unfold keyringUsable
    rw [hch, ho2]; rfl

theorem o1_def (cfg : Cfg) : o1 cfg = handle real (srv1 cfg) (cookieAuthLine cfg.user) := rfl
theorem o2_def (cfg : Cfg) : o2 cfg = handle real (o1 cfg).srv (reply cfg) := rfl

-- from here on the two answers of the bus and the client's answer are opaque: only the case lemmas above are used
-- (a definitional unfolding of `handle` inside a unification problem does not terminate in reasonable time)
attribute [irreducible] o1 o2 reply chalLine

/-! ## the phases of the conversation -/

/-- The bus waits for BEGIN: mechanism number `i` of the client's list was accepted, and it is the mechanism
the environment allows. -/
structure SAccepted (cfg : Cfg) (i : Nat) (s : SProto) : Prop where
  base : SBase cfg s
  state : s.srv.state = .waitingForBegin
  cur : ∃ n inst u, s.srv.cur = some (n, inst) ∧ real.userName s.srv.world inst = some u
  acc : accepts s.log = [mechAt i]
  okSent : (wOk ++ cfg.guid) ∈ s.sent
  idx : i = expectedMech cfg

/-- The bus's authenticator at the start, and after the EXTERNAL challenge. -/
def srv0 (cfg : Cfg) : Server RealWorld Inst := Server.init cfg.guid cfg.w0
def srvExt (cfg : Cfg) (uid : Int) : Server RealWorld Inst :=
  { srv0 cfg with cur := some (lit "EXTERNAL", .ext true (some uid)), state := .waitingForData }

/-- The client's authenticator after OK on a UNIX transport. -/
def authNeg (unix : Bool) (i : Nat) (g : Bytes) : AuthClient.Auth :=
  { authAt unix i with guid := some g, negotiating := true }

/-- One complete line is in flight, both line buffers are empty.  The index is a rank: it decreases with every
line delivered (no phase is visited twice). -/
inductive Phase (cfg : Cfg) : Nat → State → Prop
  /-- nothing delivered yet: NUL and `AUTH EXTERNAL` are queued -/
  | start (st : State) (hc : CBase st.c (authAt cfg.unix 0)) (hs : st.s = AuthServer.Proto.init cfg.guid cfg.w0)
      (q1 : st.c2s = 0 :: (lit "AUTH EXTERNAL" ++ [13, 10])) (q2 : st.s2c = []) : Phase cfg 13 st
  /-- the NUL byte was read -/
  | auth0 (st : State) (hc : CBase st.c (authAt cfg.unix 0)) (hb : SBase cfg st.s)
      (hs : st.s.srv = srv0 cfg) (ha : accepts st.s.log = [])
      (q1 : st.c2s = lit "AUTH EXTERNAL" ++ [13, 10]) (q2 : st.s2c = []) : Phase cfg 12 st
  | extChal (st : State) (uid : Int) (e : AuthServer.PwEnt) (h1 : cfg.w0.cfg.creds = some uid)
      (h2 : getpwuidI cfg.w0.cfg uid = some e) (hc : CBase st.c (authAt cfg.unix 0)) (hb : SBase cfg st.s)
      (hs : st.s.srv = srvExt cfg uid)
      (ha : accepts st.s.log = []) (q1 : st.s2c = wData ++ [13, 10]) (q2 : st.c2s = []) : Phase cfg 11 st
  | extResp (st : State) (uid : Int) (e : AuthServer.PwEnt) (h1 : cfg.w0.cfg.creds = some uid)
      (h2 : getpwuidI cfg.w0.cfg uid = some e) (hc : CBase st.c (authAt cfg.unix 0)) (hb : SBase cfg st.s)
      (hs : st.s.srv = srvExt cfg uid)
      (ha : accepts st.s.log = []) (q1 : st.c2s = lDATA ++ [13, 10]) (q2 : st.s2c = []) : Phase cfg 10 st
  | okSent (st : State) (i : Nat) (hc : CBase st.c (authAt cfg.unix i)) (hs : SAccepted cfg i st.s)
      (q1 : st.s2c = (wOk ++ cfg.guid) ++ [13, 10]) (q2 : st.c2s = []) : Phase cfg 5 st
  | negSent (st : State) (i : Nat) (g : Bytes) (hu : cfg.unix = true) (hc : CBase st.c (authNeg cfg.unix i g))
      (hs : SAccepted cfg i st.s) (q1 : st.c2s = lNEGOTIATE ++ [13, 10]) (q2 : st.s2c = []) : Phase cfg 4 st
  | negErr (st : State) (i : Nat) (g : Bytes) (hu : cfg.unix = true) (hc : CBase st.c (authNeg cfg.unix i g))
      (hs : SAccepted cfg i st.s) (q1 : st.s2c = wError ++ [13, 10]) (q2 : st.c2s = []) : Phase cfg 3 st
  | rej0 (st : State) (h0 : credsOk cfg = false) (hc : CBase st.c (authAt cfg.unix 0)) (hb : SBase cfg st.s)
      (hs : st.s.srv = srv1 cfg) (ha : accepts st.s.log = [])
      (q1 : st.s2c = AuthServer.rejectLine real ++ [13, 10]) (q2 : st.c2s = []) : Phase cfg 11 st
  | auth1 (st : State) (h0 : credsOk cfg = false) (hc : CBase st.c (authAt cfg.unix 1)) (hb : SBase cfg st.s)
      (hs : st.s.srv = srv1 cfg) (ha : accepts st.s.log = [])
      (q1 : st.c2s = cookieAuthLine cfg.user ++ [13, 10]) (q2 : st.s2c = []) : Phase cfg 10 st
  | ckChal (st : State) (h0 : credsOk cfg = false) (m : Bytes) (w1 : RealWorld) (c1 : AuthServer.CookieSt)
      (ho : O1Challenge cfg m w1 c1) (hc : CBase st.c (authAt cfg.unix 1)) (hb : SBase cfg st.s)
      (hs : st.s.srv = (o1 cfg).srv) (ha : accepts st.s.log = [])
      (q1 : st.s2c = chalLine cfg ++ [13, 10]) (q2 : st.c2s = []) : Phase cfg 9 st
  | ckResp (st : State) (h0 : credsOk cfg = false) (m : Bytes) (w1 : RealWorld) (c1 : AuthServer.CookieSt)
      (ho : O1Challenge cfg m w1 c1) (hc : CBase st.c (authAt cfg.unix 1)) (hb : SBase cfg st.s)
      (hs : st.s.srv = (o1 cfg).srv) (ha : accepts st.s.log = [])
      (q1 : st.c2s = reply cfg ++ [13, 10]) (q2 : st.s2c = []) : Phase cfg 8 st
  | rej1 (st : State) (h0 : credsOk cfg = false) (h1 : keyringUsable cfg = false)
      (hc : CBase st.c (authAt cfg.unix 1)) (hb : SBase cfg st.s)
      (hs : st.s.srv.state = .waitingForAuth ∧ st.s.srv.rejects = 2) (ha : accepts st.s.log = [])
      (q1 : st.s2c = AuthServer.rejectLine real ++ [13, 10]) (q2 : st.c2s = []) : Phase cfg 7 st
  | auth2 (st : State) (h0 : credsOk cfg = false) (h1 : keyringUsable cfg = false)
      (hc : CBase st.c (authAt cfg.unix 2)) (hb : SBase cfg st.s)
      (hs : st.s.srv.state = .waitingForAuth ∧ st.s.srv.rejects = 2) (ha : accepts st.s.log = [])
      (q1 : st.c2s = AuthServer.authLineOf (lit "ANONYMOUS") (some (lit "txdbus")) ++ [13, 10]) (q2 : st.s2c = []) :
      Phase cfg 6 st

/-- The client has authenticated: BEGIN and the Hello call are queued for the bus, which still waits for BEGIN.
`x` is what the bus has read of `BEGIN\r\n` so far. -/
structure BeginSent (cfg : Cfg) (st : State) : Prop where
  cAuth : st.c.authenticated = true
  cOpen : st.c.disconnecting = false
  cMech : st.c.auth.authMech = some (mechAt (expectedMech cfg))
  cBegin : (sends st.c.trace).count lBEGIN = 1
  cBin : st.c.binary = []
  srv : SAccepted cfg (expectedMech cfg) st.s
  q1 : st.c2s = lBEGIN ++ 13 :: 10 :: cfg.hello
  q2 : st.s2c = []

/-- Both sides have authenticated; what is left of the Hello call is queued. -/
structure Done (cfg : Cfg) (st : State) : Prop where
  cAuth : st.c.authenticated = true
  cOpen : st.c.disconnecting = false
  cMech : st.c.auth.authMech = some (mechAt (expectedMech cfg))
  cBegin : (sends st.c.trace).count lBEGIN = 1
  cBin : st.c.binary = []
  sAuth : st.s.authenticated = true
  sOpen : st.s.closed = false
  sAlive : st.s.crashed = false
  acc : accepts st.s.log = [mechAt (expectedMech cfg)]
  okSent : (wOk ++ cfg.guid) ∈ st.s.sent
  guid : st.s.guid.isSome = true
  bin : st.s.binary ++ st.c2s = cfg.hello
  q2 : st.s2c = []

/-! ## one line delivered: what changes -/

theorem accepts_snoc (log : List AuthServer.Ev) (s : Server RealWorld Inst) (l : Bytes) (o : Out RealWorld Inst) :
    accepts (log ++ [AuthServer.evOf s l o]) =
      accepts log ++ (match o.mech with
                      | some (n, .accept) => [n]
                      | _ => []) := by
  rw [accepts_append]
  congr 1

/-- The bus reads the line in flight; its authenticator answers `o` without raising or authenticating. -/
theorem srv_step (cfg : Cfg) (st : State) (l : Bytes) (o : Out RealWorld Inst) (hb : SBase cfg st.s)
    (hq : st.c2s = l ++ [13, 10]) (hq2 : st.s2c = []) (hl : NoCR l) (hlen : l.length ≤ maxAuthLength)
    (ho : handle real st.s.srv l = o) (hres : o.res = .ok) (hna : o.srv.authenticated = false)
    (hg : o.srv.serverGuid = cfg.guid) :
    (lstepS st).c = st.c ∧ SBase cfg (lstepS st).s ∧ (lstepS st).s.srv = o.srv ∧
    (lstepS st).s.log = st.s.log ++ [AuthServer.evOf st.s.srv l o] ∧
    (lstepS st).s.sent = st.s.sent ++ o.sent ∧ (lstepS st).c2s = [] ∧ (lstepS st).s2c = wireS o.sent := by
  have h := feedS_line cfg st l hb hq hl hlen (by rw [ho]; exact hres) (by rw [ho]; exact hna)
  rw [ho] at h
  rw [h]
  refine ⟨rfl, ⟨hb.first, rfl, hb.open_, hb.alive, hb.unauth, hna, hg, hb.bin⟩, rfl, rfl, rfl, rfl, ?_⟩
  show st.s2c ++ wireS o.sent = wireS o.sent
  rw [hq2]; rfl

/-- The client reads the line in flight and answers with one line that is not BEGIN. -/
theorem cli_step (cfg : Cfg) (st : State) (l r : Bytes) (a a' : AuthClient.Auth) (hb : CBase st.c a)
    (hq : st.s2c = l ++ [13, 10]) (hq2 : st.c2s = []) (hl : NoCR l) (hlen : l.length ≤ AuthClient.maxAuth)
    (hh : AuthClient.handleAuthMessage (envOf cfg st.s.srv.world) a l = .ok (a', [r]))
    (hna : a'.authenticated = false) (hr : r ≠ lBEGIN) :
    (lstepC cfg st).s = st.s ∧ CBase (lstepC cfg st).c a' ∧ (lstepC cfg st).s2c = [] ∧
    (lstepC cfg st).c2s = r ++ [13, 10] := by
  rw [feedC_line cfg st l r a a' hb hq hl hlen hh hna]
  refine ⟨rfl, ⟨rfl, hb.open_, hb.unauth, hb.buf, hb.bin, ?_, ?_⟩, rfl, ?_⟩
  · show lBEGIN ∉ sends (st.c.trace ++ [Ev.recv l] ++ [r].map Ev.send)
    rw [AuthClient.sends_append, AuthClient.sends_append]
    simp only [List.map, sends, List.append_nil, List.mem_append, List.mem_singleton]
    intro h
    rcases h with h | h
    · exact hb.noBegin h
    · exact hr h.symm
  · show Ev.authenticated ∉ st.c.trace ++ [Ev.recv l] ++ [r].map Ev.send
    simp only [List.map, List.mem_append, List.mem_singleton, List.mem_cons, List.not_mem_nil, or_false]
    intro h
    rcases h with (h | h) | h
    · exact hb.noA h
    · cases h
    · cases h
  · show st.c2s ++ (r ++ [13, 10]) = r ++ [13, 10]
    rw [hq2]; rfl

/-- The client reads the line in flight and answers BEGIN: it is authenticated and writes the Hello call. -/
theorem cli_step_begin (cfg : Cfg) (st : State) (l : Bytes) (a a' : AuthClient.Auth) (hb : CBase st.c a)
    (hq : st.s2c = l ++ [13, 10]) (hq2 : st.c2s = []) (hl : NoCR l) (hlen : l.length ≤ AuthClient.maxAuth)
    (hh : AuthClient.handleAuthMessage (envOf cfg st.s.srv.world) a l = .ok (a', [lBEGIN]))
    (hna : a'.authenticated = true) :
    (lstepC cfg st).s = st.s ∧ (lstepC cfg st).c.authenticated = true ∧ (lstepC cfg st).c.disconnecting = false ∧
    (lstepC cfg st).c.auth = a' ∧ (sends (lstepC cfg st).c.trace).count lBEGIN = 1 ∧
    (lstepC cfg st).c.binary = [] ∧ (lstepC cfg st).s2c = [] ∧
    (lstepC cfg st).c2s = lBEGIN ++ 13 :: 10 :: cfg.hello := by
  rw [feedC_success cfg st l lBEGIN a a' hb hq hl hlen hh hna]
  refine ⟨rfl, rfl, hb.open_, rfl, ?_, rfl, rfl, ?_⟩
  · show (sends (st.c.trace ++ [Ev.recv l] ++ [lBEGIN].map Ev.send ++ [Ev.authenticated])).count lBEGIN = 1
    rw [AuthClient.sends_append, AuthClient.sends_append, AuthClient.sends_append]
    simp only [List.map, sends, List.append_nil, List.count_append, List.count_singleton_self]
    have : (sends st.c.trace).count lBEGIN = 0 := List.count_eq_zero.2 hb.noBegin
    simp [this]
  · show st.c2s ++ (lBEGIN ++ 13 :: 10 :: cfg.hello) = lBEGIN ++ 13 :: 10 :: cfg.hello
    rw [hq2]; rfl

/-! ## the lines are clean and fit -/

theorem maxAuth_eq : AuthClient.maxAuth = 16384 := rfl
theorem maxAuthLength_eq : maxAuthLength = 16384 := rfl

theorem clean_const :
    (NoCR (lit "AUTH EXTERNAL") ∧ (lit "AUTH EXTERNAL").length ≤ 100) ∧
    (NoCR wData ∧ wData.length ≤ 100) ∧ (NoCR lDATA ∧ lDATA.length ≤ 100) ∧
    (NoCR lNEGOTIATE ∧ lNEGOTIATE.length ≤ 100) ∧ (NoCR wError ∧ wError.length ≤ 100) ∧
    (NoCR (AuthServer.rejectLine real) ∧ (AuthServer.rejectLine real).length ≤ 100) ∧
    (NoCR (AuthServer.authLineOf (lit "ANONYMOUS") (some (lit "txdbus"))) ∧
      (AuthServer.authLineOf (lit "ANONYMOUS") (some (lit "txdbus"))).length ≤ 100) ∧
    (NoCR lBEGIN ∧ lBEGIN.length ≤ 100) := by
  rw [rejectLine_eq]
  unfold NoCR
  decide

theorem clean_ok {cfg : Cfg} (hyp : Hyp cfg) : NoCR (wOk ++ cfg.guid) ∧ (wOk ++ cfg.guid).length ≤ 16384 := by
  obtain ⟨g, _, hg, hlen⟩ := hyp.guid
  rw [hg]
  refine ⟨AuthServer.noCR_append _ _ (by unfold NoCR; decide) (noCR_hexlify g), ?_⟩
  simp [AuthServer.hexlify_length, wOk]; omega

theorem clean_cookieAuth {cfg : Cfg} (hyp : Hyp cfg) :
    NoCR (cookieAuthLine cfg.user) ∧ (cookieAuthLine cfg.user).length ≤ 16384 := by
  refine ⟨AuthServer.noCR_append _ _ (by unfold NoCR; decide) (noCR_hexlify _), ?_⟩
  have h22 : (lit "AUTH DBUS_COOKIE_SHA1 ").length = 22 := by decide
  have := hyp.user
  simp only [cookieAuthLine, List.length_append, AuthServer.hexlify_length, h22]; omega

theorem clean_chal {cfg : Cfg} (hyp : Hyp cfg) {m w1 c1} (h : O1Challenge cfg m w1 c1) :
    NoCR (chalLine cfg) ∧ (chalLine cfg).length ≤ 16384 := by
  refine ⟨?_, ?_⟩
  · rw [chalLine_eq h]
    exact AuthServer.noCR_append _ _ (by unfold NoCR; decide) (noCR_hexlify _)
  · apply hyp.challenge
    rw [chalLine_eq h, h.1]; simp

theorem clean_reply {cfg : Cfg} (hyp : Hyp cfg) {m w1 c1} (h : O1Challenge cfg m w1 c1) :
    NoCR (reply cfg) ∧ (reply cfg).length ≤ 16384 ∧ reply cfg ≠ lBEGIN := by
  rcases reply_shape hyp h with ⟨y, hy, _, _, hlen⟩ | ⟨e, he⟩
  · rw [hy]
    refine ⟨AuthServer.noCR_append _ _ (by unfold NoCR; decide) (noCR_hexlify _), ?_, ?_⟩
    · simp [AuthServer.hexlify_length, wData, hlen]
    · intro hh
      have := congrArg List.head? hh
      simp [wData, lBEGIN] at this
  · rw [he]
    refine ⟨AuthServer.noCR_append _ _ (by unfold NoCR; decide) (hyp.errText e).1, ?_, ?_⟩
    · have := (hyp.errText e).2
      simp [wErrorSp]; omega
    · intro hh
      have := congrArg List.head? hh
      simp [wErrorSp, lBEGIN] at this

theorem cookieAuthLine_ne_begin (u : Bytes) : cookieAuthLine u ≠ lBEGIN := by
  intro hh
  have h1 : cookieAuthLine u = 65 :: (lit "UTH DBUS_COOKIE_SHA1 " ++ AuthServer.hexlify u) := rfl
  rw [h1] at hh
  have := congrArg List.head? hh
  simp [lBEGIN] at this

theorem accepts_tail_nil {mm : Option (Bytes × AuthServer.Outcome)} (h : ∀ n, mm ≠ some (n, .accept)) :
    (match mm with
     | some (n, .accept) => [n]
     | _ => ([] : List Bytes)) = [] := by
  split
  · rename_i n; exact absurd rfl (h n)
  · rfl

theorem credsOk_true {cfg : Cfg} (h : credsOk cfg = true) :
    ∃ uid e, cfg.w0.cfg.creds = some uid ∧ getpwuidI cfg.w0.cfg uid = some e := by
  unfold credsOk at h
  cases hc : cfg.w0.cfg.creds with
  | none => rw [hc] at h; cases h
  | some uid =>
    rw [hc] at h
    simp only at h
    obtain ⟨e, he⟩ := Option.isSome_iff_exists.1 h
    exact ⟨uid, e, rfl, he⟩

theorem credsOk_false {cfg : Cfg} (h : credsOk cfg = false) :
    ∀ uid, cfg.w0.cfg.creds = some uid → getpwuidI cfg.w0.cfg uid = none := by
  intro uid hc
  unfold credsOk at h
  rw [hc] at h
  simp only at h
  cases hg : getpwuidI cfg.w0.cfg uid with
  | none => rfl
  | some e => rw [hg] at h; cases h

/-! ## the transitions -/

/-- Where delivering the line in flight leads: a phase of smaller rank, or the client has authenticated. -/
def Next (cfg : Cfg) (r : Nat) (st : State) : Prop := (∃ r', r' < r ∧ Phase cfg r' st) ∨ BeginSent cfg st

theorem lit_consts :
    lDATA = lit "DATA" ∧ lNEGOTIATE = lit "NEGOTIATE_UNIX_FD" ∧ lBEGIN = lit "BEGIN" ∧
    lit "EXTERNAL" = mechAt 0 ∧ lit "DBUS_COOKIE_SHA1" = mechAt 1 ∧ lit "ANONYMOUS" = mechAt 2 := by decide

theorem expectedMech_0 {cfg : Cfg} (h : credsOk cfg = true) : expectedMech cfg = 0 := by
  simp [expectedMech, h]
theorem expectedMech_1 {cfg : Cfg} (h0 : credsOk cfg = false) (h1 : keyringUsable cfg = true) :
    expectedMech cfg = 1 := by simp [expectedMech, h0, h1]
theorem expectedMech_2 {cfg : Cfg} (h0 : credsOk cfg = false) (h1 : keyringUsable cfg = false) :
    expectedMech cfg = 2 := by simp [expectedMech, h0, h1]

/-- `AUTH EXTERNAL` reaches the bus. -/
theorem next_auth0 {cfg : Cfg} (st : State) (hc : CBase st.c (authAt cfg.unix 0)) (hb : SBase cfg st.s)
    (hs : st.s.srv = srv0 cfg) (ha : accepts st.s.log = [])
    (q1 : st.c2s = lit "AUTH EXTERNAL" ++ [13, 10]) (q2 : st.s2c = []) : Next cfg 12 (lstepS st) := by
  left
  cases hok : credsOk cfg with
  | true =>
    obtain ⟨uid, e, h1, h2⟩ := credsOk_true hok
    have ho := sv_auth_ext_ok (srv0 cfg) uid e rfl h1 h2
    rw [← hs] at ho
    obtain ⟨k1, k2, k3, k4, k5, k6, k7⟩ := srv_step cfg st _ _ hb q1 q2 clean_const.1.1
      (by have := clean_const.1.2; rw [maxAuthLength_eq]; omega) ho rfl (by show st.s.srv.authenticated = false; exact hb.srvUnauth)
      (by show st.s.srv.serverGuid = cfg.guid; exact hb.guid)
    refine ⟨11, by decide, Phase.extChal _ uid e h1 h2 (k1 ▸ hc) k2 ?_ ?_ (by rw [k7]; rfl) k6⟩
    · rw [k3, hs]; rfl
    · rw [k4, accepts_snoc, ha]; rfl
  | false =>
    have ho := sv_auth_ext_rej (srv0 cfg) rfl (credsOk_false hok) (by show 0 + 1 ≤ maxRejects; decide)
    rw [← hs] at ho
    obtain ⟨k1, k2, k3, k4, k5, k6, k7⟩ := srv_step cfg st _ _ hb q1 q2 clean_const.1.1
      (by have := clean_const.1.2; rw [maxAuthLength_eq]; omega) ho rfl (by show st.s.srv.authenticated = false; exact hb.srvUnauth)
      (by show st.s.srv.serverGuid = cfg.guid; exact hb.guid)
    refine ⟨11, by decide, Phase.rej0 _ hok (k1 ▸ hc) k2 ?_ ?_ (by rw [k7]; rfl) k6⟩
    · rw [k3, hs]; rfl
    · rw [k4, accepts_snoc, ha]; rfl

/-- The empty EXTERNAL challenge reaches the client. -/
theorem next_extChal {cfg : Cfg} (st : State) (uid : Int) (e : AuthServer.PwEnt) (h1 : cfg.w0.cfg.creds = some uid)
    (h2 : getpwuidI cfg.w0.cfg uid = some e) (hc : CBase st.c (authAt cfg.unix 0)) (hb : SBase cfg st.s)
    (hs : st.s.srv = srvExt cfg uid) (ha : accepts st.s.log = [])
    (q1 : st.s2c = wData ++ [13, 10]) (q2 : st.c2s = []) : Next cfg 11 (lstepC cfg st) := by
  left
  have hh := cl_data_ext (envOf cfg st.s.srv.world) (authAt cfg.unix 0) [] (authAt_mech cfg.unix 0)
  rw [List.append_nil] at hh
  obtain ⟨k1, k2, k3, k4⟩ := cli_step cfg st wData lDATA _ _ hc q1 q2 clean_const.2.1.1
    (by have := clean_const.2.1.2; rw [maxAuth_eq]; omega) hh (authAt_flags cfg.unix 0).1 (by decide)
  exact ⟨10, by decide, Phase.extResp _ uid e h1 h2 k2 (k1 ▸ hb) (by rw [k1]; exact hs) (by rw [k1]; exact ha) k4 k3⟩

/-- The client's `DATA` reaches the bus: OK. -/
theorem next_extResp {cfg : Cfg} (st : State) (uid : Int) (e : AuthServer.PwEnt) (h1 : cfg.w0.cfg.creds = some uid)
    (h2 : getpwuidI cfg.w0.cfg uid = some e) (hc : CBase st.c (authAt cfg.unix 0)) (hb : SBase cfg st.s)
    (hs : st.s.srv = srvExt cfg uid) (ha : accepts st.s.log = [])
    (q1 : st.c2s = lDATA ++ [13, 10]) (q2 : st.s2c = []) : Next cfg 10 (lstepS st) := by
  left
  have ho := sv_data_ext (srvExt cfg uid) uid e rfl rfl h2
  rw [← hs, ← lit_consts.1] at ho
  have hg : st.s.srv.serverGuid = cfg.guid := hb.guid
  obtain ⟨k1, k2, k3, k4, k5, k6, k7⟩ := srv_step cfg st _ _ hb q1 q2 clean_const.2.2.1.1
    (by have := clean_const.2.2.1.2; rw [maxAuthLength_eq]; omega) ho rfl
    (by show st.s.srv.authenticated = false; exact hb.srvUnauth) (by show st.s.srv.serverGuid = cfg.guid; exact hg)
  have hok : credsOk cfg = true := by unfold credsOk; rw [h1]; simp [h2]
  refine ⟨5, by decide, Phase.okSent _ 0 (k1 ▸ hc) ⟨k2, by rw [k3], ?_, ?_, ?_, (expectedMech_0 hok).symm⟩
    (by rw [k7, hg]; rfl) k6⟩
  · refine ⟨lit "EXTERNAL", .ext true (some uid), e.name, by rw [k3], ?_⟩
    rw [k3]
    show real.userName st.s.srv.world (.ext true (some uid)) = some e.name
    rw [hs, AuthServer.real_user_ext]
    show Option.map (fun x => x.name) (getpwuidI cfg.w0.cfg uid) = some e.name
    rw [h2]; rfl
  · rw [k4, accepts_snoc, ha, lit_consts.2.2.2.1]; rfl
  · rw [k5, hg]; simp

/-- OK reaches the client: NEGOTIATE_UNIX_FD on a UNIX transport, BEGIN otherwise. -/
theorem next_okSent {cfg : Cfg} (hyp : Hyp cfg) (st : State) (i : Nat) (hc : CBase st.c (authAt cfg.unix i))
    (hs : SAccepted cfg i st.s) (q1 : st.s2c = (wOk ++ cfg.guid) ++ [13, 10]) (q2 : st.c2s = []) :
    Next cfg 5 (lstepC cfg st) := by
  obtain ⟨g, hg0, hg, _⟩ := hyp.guid
  have hh := cl_ok (envOf cfg st.s.srv.world) (authAt cfg.unix i) g hg0
  rw [hexlify_eq, ← hg] at hh
  have hcl := clean_ok hyp
  cases hu : cfg.unix with
  | true =>
    left
    rw [hu] at hh hc
    rw [if_pos (authAt_unix true i)] at hh
    obtain ⟨k1, k2, k3, k4⟩ := cli_step cfg st _ lNEGOTIATE _ _ hc q1 q2 hcl.1 (by rw [maxAuth_eq]; exact hcl.2) hh
      (authAt_flags true i).1 (by decide)
    refine ⟨4, by decide, Phase.negSent _ i g hu ?_ (k1 ▸ hs) k4 k3⟩
    rw [hu]; exact k2
  | false =>
    right
    rw [hu] at hh hc
    rw [if_neg (by rw [authAt_unix]; decide)] at hh
    obtain ⟨k1, k2, k3, k4, k5, k6, k7, k8⟩ := cli_step_begin cfg st _ _ _ hc q1 q2 hcl.1
      (by rw [maxAuth_eq]; exact hcl.2) hh rfl
    refine ⟨k2, k3, ?_, k5, k6, ?_, k8, k7⟩
    · rw [k4, ← hs.idx]; exact authAt_mech false i
    · rw [k1, ← hs.idx]; exact hs

/-- NEGOTIATE_UNIX_FD reaches the bus: ERROR. -/
theorem next_negSent {cfg : Cfg} (st : State) (i : Nat) (g : Bytes) (hu : cfg.unix = true)
    (hc : CBase st.c (authNeg cfg.unix i g)) (hs : SAccepted cfg i st.s)
    (q1 : st.c2s = lNEGOTIATE ++ [13, 10]) (q2 : st.s2c = []) : Next cfg 4 (lstepS st) := by
  left
  have ho := sv_negotiate st.s.srv
  rw [← lit_consts.2.1] at ho
  obtain ⟨k1, k2, k3, k4, k5, k6, k7⟩ := srv_step cfg st _ _ hs.base q1 q2 clean_const.2.2.2.1.1
    (by have := clean_const.2.2.2.1.2; rw [maxAuthLength_eq]; omega) ho rfl hs.base.srvUnauth hs.base.guid
  obtain ⟨n, inst, u, hcur, hname⟩ := hs.cur
  refine ⟨3, by decide, Phase.negErr _ i g hu (k1 ▸ hc)
    ⟨k2, by rw [k3]; exact hs.state, ⟨n, inst, u, by rw [k3]; exact hcur, by rw [k3]; exact hname⟩, ?_, ?_, hs.idx⟩
    (by rw [k7]; rfl) k6⟩
  · rw [k4, accepts_snoc, hs.acc]; rfl
  · rw [k5]; exact List.mem_append_left _ hs.okSent

/-- The bus's ERROR reaches the client, which was negotiating: BEGIN. -/
theorem next_negErr {cfg : Cfg} (st : State) (i : Nat) (g : Bytes) (hu : cfg.unix = true)
    (hc : CBase st.c (authNeg cfg.unix i g)) (hs : SAccepted cfg i st.s)
    (q1 : st.s2c = wError ++ [13, 10]) (q2 : st.c2s = []) : Next cfg 3 (lstepC cfg st) := by
  right
  have hh := cl_error_neg (envOf cfg st.s.srv.world) (authNeg cfg.unix i g) rfl
  obtain ⟨k1, k2, k3, k4, k5, k6, k7, k8⟩ := cli_step_begin cfg st _ _ _ hc q1 q2 clean_const.2.2.2.2.1.1
    (by have := clean_const.2.2.2.2.1.2; rw [maxAuth_eq]; omega) hh rfl
  refine ⟨k2, k3, ?_, k5, k6, ?_, k8, k7⟩
  · rw [k4, ← hs.idx]; exact authAt_mech cfg.unix i
  · rw [k1, ← hs.idx]; exact hs

/-- REJECTED (EXTERNAL) reaches the client: `AUTH DBUS_COOKIE_SHA1 <hex user>`. -/
theorem next_rej0 {cfg : Cfg} (hyp : Hyp cfg) (st : State) (h0 : credsOk cfg = false)
    (hc : CBase st.c (authAt cfg.unix 0)) (hb : SBase cfg st.s) (hs : st.s.srv = srv1 cfg)
    (ha : accepts st.s.log = []) (q1 : st.s2c = AuthServer.rejectLine real ++ [13, 10]) (q2 : st.c2s = []) :
    Next cfg 11 (lstepC cfg st) := by
  left
  have hh := cl_rejected (envOf cfg st.s.srv.world) cfg.unix 0 (by decide)
  rw [authLine_cookie] at hh
  obtain ⟨k1, k2, k3, k4⟩ := cli_step cfg st _ _ _ _ hc q1 q2 clean_const.2.2.2.2.2.1.1
    (by have := clean_const.2.2.2.2.2.1.2; rw [maxAuth_eq]; omega) hh (authAt_flags cfg.unix 1).1
    (cookieAuthLine_ne_begin _)
  exact ⟨10, by decide, Phase.auth1 _ h0 k2 (k1 ▸ hb) (by rw [k1]; exact hs) (by rw [k1]; exact ha) k4 k3⟩

/-- `AUTH DBUS_COOKIE_SHA1` reaches the bus: REJECTED, or the challenge. -/
theorem next_auth1 {cfg : Cfg} (hyp : Hyp cfg) (st : State) (h0 : credsOk cfg = false)
    (hc : CBase st.c (authAt cfg.unix 1)) (hb : SBase cfg st.s) (hs : st.s.srv = srv1 cfg)
    (ha : accepts st.s.log = []) (q1 : st.c2s = cookieAuthLine cfg.user ++ [13, 10]) (q2 : st.s2c = []) :
    Next cfg 10 (lstepS st) := by
  left
  have ho : handle real st.s.srv (cookieAuthLine cfg.user) = o1 cfg := by rw [hs, o1_def]
  have hcl := clean_cookieAuth hyp
  rcases o1_cases cfg with ⟨hch, w', mm, h1, hm⟩ | ⟨hch, m, w1, c1, h1⟩
  · obtain ⟨k1, k2, k3, k4, k5, k6, k7⟩ := srv_step cfg st _ _ hb q1 q2 hcl.1 (by rw [maxAuthLength_eq]; exact hcl.2)
      ho (by rw [h1]) (by rw [h1]; rfl) (by rw [h1]; rfl)
    have hku : keyringUsable cfg = false := by unfold keyringUsable; rw [hch]; rfl
    refine ⟨7, by decide, Phase.rej1 _ h0 hku (k1 ▸ hc) k2 ?_ ?_ (by rw [k7, h1]; rfl) k6⟩
    · rw [k3, h1]; exact ⟨rfl, rfl⟩
    · rw [k4, accepts_snoc, ha, h1]; exact accepts_tail_nil hm
  · obtain ⟨k1, k2, k3, k4, k5, k6, k7⟩ := srv_step cfg st _ _ hb q1 q2 hcl.1 (by rw [maxAuthLength_eq]; exact hcl.2)
      ho (by rw [h1.1]) (by rw [h1.1]; rfl) (by rw [h1.1]; rfl)
    refine ⟨9, by decide, Phase.ckChal _ h0 m w1 c1 h1 (k1 ▸ hc) k2 k3 ?_ ?_ k6⟩
    · rw [k4, accepts_snoc, ha, h1.1]; rfl
    · rw [k7, chalLine_eq h1, h1.1]; rfl

/-- The challenge reaches the client: the response, or ERROR. -/
theorem next_ckChal {cfg : Cfg} (hyp : Hyp cfg) (st : State) (h0 : credsOk cfg = false) (m : Bytes) (w1 : RealWorld)
    (c1 : AuthServer.CookieSt) (ho : O1Challenge cfg m w1 c1) (hc : CBase st.c (authAt cfg.unix 1))
    (hb : SBase cfg st.s) (hs : st.s.srv = (o1 cfg).srv) (ha : accepts st.s.log = [])
    (q1 : st.s2c = chalLine cfg ++ [13, 10]) (q2 : st.c2s = []) : Next cfg 9 (lstepC cfg st) := by
  left
  have hw : st.s.srv.world = w1 := by rw [hs]; exact o1_world ho
  have hh := (reply_spec ho).1
  rw [← hw] at hh
  have hcl := clean_chal hyp ho
  have hcr := clean_reply hyp ho
  obtain ⟨k1, k2, k3, k4⟩ := cli_step cfg st _ _ _ _ hc q1 q2 hcl.1 (by rw [maxAuth_eq]; exact hcl.2) hh
    (authAt_flags cfg.unix 1).1 hcr.2.2
  exact ⟨8, by decide, Phase.ckResp _ h0 m w1 c1 ho k2 (k1 ▸ hb) (by rw [k1]; exact hs) (by rw [k1]; exact ha) k4 k3⟩

/-- The client's answer reaches the bus: OK, or REJECTED. -/
theorem next_ckResp {cfg : Cfg} (hyp : Hyp cfg) (st : State) (h0 : credsOk cfg = false) (m : Bytes) (w1 : RealWorld)
    (c1 : AuthServer.CookieSt) (ho : O1Challenge cfg m w1 c1) (hc : CBase st.c (authAt cfg.unix 1))
    (hb : SBase cfg st.s) (hs : st.s.srv = (o1 cfg).srv) (ha : accepts st.s.log = [])
    (q1 : st.c2s = reply cfg ++ [13, 10]) (q2 : st.s2c = []) : Next cfg 8 (lstepS st) := by
  left
  have hh : handle real st.s.srv (reply cfg) = o2 cfg := by rw [hs, o2_def]
  have hcr := clean_reply hyp ho
  have hua : (o1 cfg).srv.authenticated = false := by rw [ho.1]; rfl
  have hgu : (o1 cfg).srv.serverGuid = cfg.guid := by rw [ho.1]; rfl
  rcases o2_cases hyp ho with ⟨hku, w2, c2, u, h2, hu⟩ | ⟨hku, w', mm, h2, hm⟩
  · obtain ⟨k1, k2, k3, k4, k5, k6, k7⟩ := srv_step cfg st _ _ hb q1 q2 hcr.1 (by rw [maxAuthLength_eq]; exact hcr.2.1)
      hh (by rw [h2]) (by rw [h2]; exact hua) (by rw [h2]; exact hgu)
    refine ⟨5, by decide, Phase.okSent _ 1 (k1 ▸ hc)
      ⟨k2, by rw [k3, h2], ?_, ?_, ?_, (expectedMech_1 h0 hku).symm⟩ (by rw [k7, h2]; rfl) k6⟩
    · exact ⟨lit "DBUS_COOKIE_SHA1", .cookie c2, u, by rw [k3, h2], by rw [k3, h2]; exact hu⟩
    · rw [k4, accepts_snoc, ha, h2, lit_consts.2.2.2.2.1]; rfl
    · rw [k5, h2]; simp
  · obtain ⟨k1, k2, k3, k4, k5, k6, k7⟩ := srv_step cfg st _ _ hb q1 q2 hcr.1 (by rw [maxAuthLength_eq]; exact hcr.2.1)
      hh (by rw [h2]) (by rw [h2]; exact hua) (by rw [h2]; exact hgu)
    refine ⟨7, by decide, Phase.rej1 _ h0 hku (k1 ▸ hc) k2 ?_ ?_ (by rw [k7, h2]; rfl) k6⟩
    · rw [k3, h2]; exact ⟨rfl, rfl⟩
    · rw [k4, accepts_snoc, ha, h2]; exact accepts_tail_nil hm

/-- REJECTED (DBUS_COOKIE_SHA1) reaches the client: `AUTH ANONYMOUS 747864627573`. -/
theorem next_rej1 {cfg : Cfg} (st : State) (h0 : credsOk cfg = false) (h1 : keyringUsable cfg = false)
    (hc : CBase st.c (authAt cfg.unix 1)) (hb : SBase cfg st.s)
    (hs : st.s.srv.state = .waitingForAuth ∧ st.s.srv.rejects = 2) (ha : accepts st.s.log = [])
    (q1 : st.s2c = AuthServer.rejectLine real ++ [13, 10]) (q2 : st.c2s = []) : Next cfg 7 (lstepC cfg st) := by
  left
  have hh := cl_rejected (envOf cfg st.s.srv.world) cfg.unix 1 (by decide)
  rw [authLine_anon] at hh
  obtain ⟨k1, k2, k3, k4⟩ := cli_step cfg st _ _ _ _ hc q1 q2 clean_const.2.2.2.2.2.1.1
    (by have := clean_const.2.2.2.2.2.1.2; rw [maxAuth_eq]; omega) hh (authAt_flags cfg.unix 2).1 (by decide)
  exact ⟨6, by decide, Phase.auth2 _ h0 h1 k2 (k1 ▸ hb) (by rw [k1]; exact hs) (by rw [k1]; exact ha) k4 k3⟩

/-- `AUTH ANONYMOUS` reaches the bus: OK. -/
theorem next_auth2 {cfg : Cfg} (st : State) (h0 : credsOk cfg = false) (h1 : keyringUsable cfg = false)
    (hc : CBase st.c (authAt cfg.unix 2)) (hb : SBase cfg st.s)
    (hs : st.s.srv.state = .waitingForAuth ∧ st.s.srv.rejects = 2) (ha : accepts st.s.log = [])
    (q1 : st.c2s = AuthServer.authLineOf (lit "ANONYMOUS") (some (lit "txdbus")) ++ [13, 10]) (q2 : st.s2c = []) :
    Next cfg 6 (lstepS st) := by
  left
  have ho := sv_auth_anon st.s.srv hs.1
  have hg : st.s.srv.serverGuid = cfg.guid := hb.guid
  obtain ⟨k1, k2, k3, k4, k5, k6, k7⟩ := srv_step cfg st _ _ hb q1 q2 clean_const.2.2.2.2.2.2.1.1
    (by have := clean_const.2.2.2.2.2.2.1.2; rw [maxAuthLength_eq]; omega) ho rfl
    (by show st.s.srv.authenticated = false; exact hb.srvUnauth) (by show st.s.srv.serverGuid = cfg.guid; exact hg)
  refine ⟨5, by decide, Phase.okSent _ 2 (k1 ▸ hc)
    ⟨k2, by rw [k3], ?_, ?_, ?_, (expectedMech_2 h0 h1).symm⟩ (by rw [k7, hg]; rfl) k6⟩
  · exact ⟨lit "ANONYMOUS", .anon, AuthServer.anonymousUser, by rw [k3], by rw [k3]; rfl⟩
  · rw [k4, accepts_snoc, ha, lit_consts.2.2.2.2.2]; rfl
  · rw [k5, hg]; simp

/-! ## the first read of the bus -/

/-- The state after the bus has read exactly the NUL byte. -/
def nulRead (st : State) : State :=
  { st with s := st.s.dropFirst, c2s := st.c2s.tail }

theorem init_proto_facts (cfg : Cfg) :
    (AuthServer.Proto.init cfg.guid cfg.w0 : SProto).crashed = false ∧
    (AuthServer.Proto.init cfg.guid cfg.w0 : SProto).authenticated = false ∧
    (AuthServer.Proto.init cfg.guid cfg.w0 : SProto).firstByte = true ∧
    (AuthServer.Proto.init cfg.guid cfg.w0 : SProto).buffer = [] := ⟨rfl, rfl, rfl, rfl⟩

/-- After the NUL byte the conversation is in phase `auth0`. -/
theorem nulRead_phase {cfg : Cfg} (st : State) (hc : CBase st.c (authAt cfg.unix 0))
    (hs : st.s = AuthServer.Proto.init cfg.guid cfg.w0)
    (q1 : st.c2s = 0 :: (lit "AUTH EXTERNAL" ++ [13, 10])) (q2 : st.s2c = []) : Phase cfg 12 (nulRead st) := by
  refine Phase.auth0 _ hc ?_ ?_ ?_ ?_ q2
  · show SBase cfg st.s.dropFirst
    rw [hs]; exact ⟨rfl, rfl, rfl, rfl, rfl, rfl, rfl, rfl⟩
  · show st.s.dropFirst.srv = srv0 cfg
    rw [hs]; rfl
  · show accepts st.s.dropFirst.log = []
    rw [hs]; rfl
  · show st.c2s.tail = _
    rw [q1]; rfl

/-- Reading the NUL byte together with `d` is reading `d` after the NUL byte. -/
theorem feedS_nul {cfg : Cfg} (st : State) (hs : st.s = AuthServer.Proto.init cfg.guid cfg.w0) (d rest : Bytes) :
    feedS st (0 :: d) rest = (if d = [] then { nulRead st with c2s := rest } else feedS (nulRead st) d rest) := by
  have hf := init_proto_facts cfg
  unfold feedS
  rw [srv_first st.s d (hs ▸ hf.1) (hs ▸ hf.2.1) (hs ▸ hf.2.2.1)]
  by_cases hd : d = []
  · subst hd
    simp only [if_true]
    rw [srv_first_only st.s (hs ▸ hf.2.2.2)]
    simp [nulRead, AuthServer.Proto.dropFirst, wireS]
  · simp only [hd, if_false]
    have : AuthServer.recv real (nulRead st).s d = AuthServer.recvLines real st.s.dropFirst d := by
      show AuthServer.recv real st.s.dropFirst d = _
      exact AuthServer.recv_lines real _ d (by rw [hs]; rfl) (by rw [hs]; rfl) rfl
    simp only [this]
    simp [nulRead, AuthServer.Proto.dropFirst]

/-! ## every phase has a successor -/

/-- Deliver the line in flight. -/
def lstep (cfg : Cfg) (st : State) : State :=
  match st.c2s with
  | [] => lstepC cfg st
  | _ :: _ => lstepS st

theorem lstep_toS {cfg : Cfg} {st : State} {l : Bytes} (q : st.c2s = l ++ [13, 10]) : lstep cfg st = lstepS st := by
  unfold lstep
  cases hl : st.c2s with
  | nil => rw [hl] at q; cases l <;> cases q
  | cons _ _ => rfl

theorem lstep_toC {cfg : Cfg} {st : State} (q : st.c2s = []) : lstep cfg st = lstepC cfg st := by
  unfold lstep; rw [q]

/-- Delivering the line in flight leads to a phase of smaller rank, or to the client's BEGIN. -/
theorem phase_next {cfg : Cfg} (hyp : Hyp cfg) {r : Nat} {st : State} (hp : Phase cfg r st) :
    Next cfg r (lstep cfg st) := by
  cases hp with
  | start _ hc hs q1 q2 =>
    have h1 : lstep cfg st = lstepS (nulRead st) := by
      unfold lstep lstepS
      rw [q1]
      simp only
      rw [feedS_nul st hs]
      have : (nulRead st).c2s = lit "AUTH EXTERNAL" ++ [13, 10] := by show st.c2s.tail = _; rw [q1]; rfl
      rw [this, if_neg (by decide)]
    rw [h1]
    cases nulRead_phase st hc hs q1 q2 with
    | auth0 _ hc' hb' hs' ha' q1' q2' =>
      rcases next_auth0 _ hc' hb' hs' ha' q1' q2' with ⟨r', hr, hp'⟩ | hb
      · exact Or.inl ⟨r', by omega, hp'⟩
      · exact Or.inr hb
  | auth0 _ hc hb hs ha q1 q2 => rw [lstep_toS q1]; exact next_auth0 _ hc hb hs ha q1 q2
  | extChal _ uid e h1 h2 hc hb hs ha q1 q2 => rw [lstep_toC q2]; exact next_extChal _ uid e h1 h2 hc hb hs ha q1 q2
  | extResp _ uid e h1 h2 hc hb hs ha q1 q2 => rw [lstep_toS q1]; exact next_extResp _ uid e h1 h2 hc hb hs ha q1 q2
  | okSent _ i hc hs q1 q2 => rw [lstep_toC q2]; exact next_okSent hyp _ i hc hs q1 q2
  | negSent _ i g hu hc hs q1 q2 => rw [lstep_toS q1]; exact next_negSent _ i g hu hc hs q1 q2
  | negErr _ i g hu hc hs q1 q2 => rw [lstep_toC q2]; exact next_negErr _ i g hu hc hs q1 q2
  | rej0 _ h0 hc hb hs ha q1 q2 => rw [lstep_toC q2]; exact next_rej0 hyp _ h0 hc hb hs ha q1 q2
  | auth1 _ h0 hc hb hs ha q1 q2 => rw [lstep_toS q1]; exact next_auth1 hyp _ h0 hc hb hs ha q1 q2
  | ckChal _ h0 m w1 c1 ho hc hb hs ha q1 q2 => rw [lstep_toC q2]; exact next_ckChal hyp _ h0 m w1 c1 ho hc hb hs ha q1 q2
  | ckResp _ h0 m w1 c1 ho hc hb hs ha q1 q2 => rw [lstep_toS q1]; exact next_ckResp hyp _ h0 m w1 c1 ho hc hb hs ha q1 q2
  | rej1 _ h0 h1 hc hb hs ha q1 q2 => rw [lstep_toC q2]; exact next_rej1 _ h0 h1 hc hb hs ha q1 q2
  | auth2 _ h0 h1 hc hb hs ha q1 q2 => rw [lstep_toS q1]; exact next_auth2 _ h0 h1 hc hb hs ha q1 q2

end Txdbus.Handshake2
