import TxdbusModel.Proofs.Auth.ServerRun
/-
No exception escapes (C06): for a mechanism system whose instances, from the moment they are created,
keep `cancel()` and (once they accepted) `getUserName()` from raising, a line with a UTF-8 command word
never makes `handleAuthMessage` raise anything but DBusAuthenticationFailed; at run level a crashed
connection has handled a line whose command word is not UTF-8.  Also: the mechanism is consulted exactly
where the specification's table asks.
-/
namespace Txdbus.AuthServer

open Txdbus.Gen.ServerAuth

variable {W I : Type} (S : MechSys W I)

/-- What a mechanism system must guarantee for `handleAuthMessage` never to raise: `Fresh` holds of a newly
started instance, `G` ("good") of an instance after a step that did not reject. -/
structure MechSafe (Fresh : I → Prop) (G : W → I → Prop) : Prop where
  start_fresh : ∀ w n, Fresh (S.start w n).2
  fresh_cancel : ∀ w i, Fresh i → (S.cancel w i).isSome = true
  good_cancel : ∀ w i, G w i → (S.cancel w i).isSome = true
  good_name : ∀ w i, G w i → (S.userName w i).isSome = true
  step_ok : ∀ w i a, (G w i ∨ Fresh i) →
    (S.cancel (S.step w i a).1 (S.step w i a).2.1).isSome = true ∧
    ((S.step w i a).2.2 ≠ .reject → G (S.step w i a).1 (S.step w i a).2.1)

/-- The mechanism in progress is good. -/
def CurGood (G : W → I → Prop) (s : Server W I) : Prop := ∀ n i, s.cur = some (n, i) → G s.world i

theorem reject_no_crash (s : Server W I) (m)
    (h : ∀ n i, s.cur = some (n, i) → (S.cancel s.world i).isSome = true) :
    (reject S s m).res ≠ .crash ∧ (reject S s m).srv.cur = none := by
  unfold reject
  cases hc : s.cur with
  | none =>
    simp only
    split <;> simp
  | some ni =>
    obtain ⟨n, i⟩ := ni
    have := h n i hc
    cases hcan : S.cancel s.world i with
    | none => rw [hcan] at this; cases this
    | some w =>
      simp only [hcan]
      split <;> simp

variable {Fresh : I → Prop} {G : W → I → Prop}

theorem stepAuth_no_crash (hs : MechSafe S Fresh G) (s : Server W I) (resp : Option Bytes)
    (h : ∀ n i, s.cur = some (n, i) → G s.world i ∨ Fresh i) :
    (stepAuth S s resp).res ≠ .crash ∧ CurGood G (stepAuth S s resp).srv := by
  have hcan : ∀ n i, s.cur = some (n, i) → (S.cancel s.world i).isSome = true := by
    intro n i hc
    rcases h n i hc with hg | hf
    · exact hs.good_cancel _ _ hg
    · exact hs.fresh_cancel _ _ hf
  unfold stepAuth
  cases hc : s.cur with
  | none =>
    have := reject_no_crash S s none hcan
    exact ⟨this.1, fun n i hn => by rw [this.2] at hn; cases hn⟩
  | some ni =>
    obtain ⟨name, i⟩ := ni
    simp only
    cases hd : decodeResponse resp with
    | none =>
      have := reject_no_crash S s none hcan
      exact ⟨this.1, fun n i hn => by rw [this.2] at hn; cases hn⟩
    | some arg =>
      simp only
      obtain ⟨k1, k2⟩ := hs.step_ok s.world i arg (h name i hc)
      cases ho : (S.step s.world i arg).2.2 with
      | accept =>
        simp only
        refine ⟨by simp, ?_⟩
        intro n j hn
        simp at hn
        rw [← hn.2]
        exact k2 (by rw [ho]; simp)
      | challenge c =>
        simp only
        refine ⟨by simp, ?_⟩
        intro n j hn
        simp at hn
        rw [← hn.2]
        exact k2 (by rw [ho]; simp)
      | reject =>
        simp only
        have := reject_no_crash S
          { s with world := (S.step s.world i arg).1, cur := some (name, (S.step s.world i arg).2.1) }
          (some (name, .reject)) (by intro n j hn; simp at hn; rw [← hn.2]; exact k1)
        exact ⟨this.1, fun n i hn => by rw [this.2] at hn; cases hn⟩

/-- One line never raises anything but DBusAuthenticationFailed, and keeps the mechanism in progress good. -/
theorem handle_no_crash (hs : MechSafe S Fresh G) (s : Server W I) (line : Bytes) (hg : CurGood G s)
    (hinv : Inv2 s) (hu : utf8Valid (splitCmd line).1 = true) :
    (handle S s line).res ≠ .crash ∧ CurGood G (handle S s line).srv := by
  have hcan : ∀ n i, s.cur = some (n, i) → (S.cancel s.world i).isSome = true :=
    fun n i hc => hs.good_cancel _ _ (hg n i hc)
  have hrej : ∀ m, (reject S s m).res ≠ .crash ∧ CurGood G (reject S s m).srv := by
    intro m
    have := reject_no_crash S s m hcan
    exact ⟨this.1, fun n i hn => by rw [this.2] at hn; cases hn⟩
  have herr : ∀ msg, (sendError s msg).res ≠ .crash ∧ CurGood G (sendError s msg).srv :=
    fun msg => ⟨by simp [sendError], hg⟩
  unfold handle
  simp only [hu, Bool.not_true, Bool.false_eq_true, if_false]
  cases hp : parseCmd (splitCmd line).1 with
  | auth =>
    simp only
    unfold authAUTH
    split
    · cases splitWs (splitCmd line).2 with
      | nil => exact hrej none
      | cons mech rest =>
        simp only
        split
        · apply stepAuth_no_crash S hs
          intro n i hn
          simp at hn
          rw [← hn.2]
          exact Or.inr (hs.start_fresh _ _)
        · exact hrej none
    · exact herr []
  | begin =>
    simp only
    unfold authBEGIN
    split
    · rename_i hst
      have hcs := hinv.1 (by rw [hst]; decide)
      cases hc : s.cur with
      | none => rw [hc] at hcs; cases hcs
      | some ni =>
        obtain ⟨n, i⟩ := ni
        simp only
        have := hs.good_name _ _ (hg n i hc)
        cases hn : S.userName s.world i with
        | none => rw [hn] at this; cases this
        | some u =>
          simp only
          exact ⟨by simp, fun n j hj => by simp at hj⟩
    · exact ⟨by simp, hg⟩
  | cancel =>
    simp only
    unfold authCANCEL
    split
    · exact hrej none
    · exact herr []
  | data =>
    simp only
    unfold authDATA
    split
    · exact stepAuth_no_crash S hs s _ (fun n i hn => Or.inl (hg n i hn))
    · exact herr []
  | error => exact hrej none
  | negotiate => exact herr []
  | unknown => exact herr wUnknown

/-! ## the mechanism is consulted exactly where the table asks -/

/-- The rows of the specification's table that hand a response to the mechanism. -/
def asksMech (offered : List Bytes) : St → Spec.Line → Bool
  | .waitingForAuth, .auth (some m) true => offered.contains m
  | .waitingForData, .data true => true
  | _, _ => false

theorem stepAuth_mech (s : Server W I) (resp : Option Bytes) :
    (stepAuth S s resp).mech.isSome = (s.cur.isSome && (decodeResponse resp).isSome) := by
  unfold stepAuth
  cases hc : s.cur with
  | none => simp [reject_mech]
  | some ni =>
    obtain ⟨n, i⟩ := ni
    simp only
    cases hd : decodeResponse resp with
    | none => simp [reject_mech]
    | some arg =>
      simp only
      cases (S.step s.world i arg).2.2 <;> simp [reject_mech]

/-- A mechanism step happens on a line exactly when the specification's table consults the mechanism there
(AUTH of an offered mechanism with a usable response in WaitingForAuth, DATA with a usable response in
WaitingForData). -/
theorem mechanism_consulted_iff (s : Server W I) (line : Bytes) (hinv : Inv2 s)
    (hu : utf8Valid (splitCmd line).1 = true) :
    (handle S s line).mech.isSome = asksMech S.offered s.state (Spec.parse line) := by
  rw [parse_via_parseCmd]
  unfold handle
  simp only [hu, Bool.not_true, Bool.false_eq_true, if_false]
  cases hp : parseCmd (splitCmd line).1 with
  | auth =>
    simp only
    unfold authAUTH
    cases hs : s.state with
    | waitingForAuth =>
      simp only [if_true]
      cases hw : splitWs (splitCmd line).2 with
      | nil => simp [reject_mech, asksMech]
      | cons mech rest =>
        simp only
        by_cases hoff : S.offered.contains mech = true
        · simp only [hoff, if_true]
          rw [stepAuth_mech, respOk_eq]
          have hm : mech ∈ S.offered := by simpa using hoff
          cases hd : (decodeResponse rest.head?).isSome <;> simp [asksMech, hm]
        · simp only [hoff]
          have hm : ¬ mech ∈ S.offered := by simpa using hoff
          cases hr : Spec.respOk rest.head? <;> simp [reject_mech, asksMech, hm]
    | waitingForData =>
      cases splitWs (splitCmd line).2 <;> simp [sendError, asksMech]
    | waitingForBegin =>
      cases splitWs (splitCmd line).2 <;> simp [sendError, asksMech]
  | begin =>
    simp only
    unfold authBEGIN
    split
    · cases s.cur with
      | none => cases hs : s.state <;> simp [asksMech]
      | some ni =>
        simp only
        cases S.userName s.world ni.2 <;> (cases hs : s.state <;> simp [asksMech])
    · cases hs : s.state <;> simp [asksMech]
  | cancel =>
    simp only
    unfold authCANCEL
    split <;> (cases hs : s.state <;> simp [reject_mech, sendError, asksMech])
  | data =>
    simp only
    unfold authDATA
    cases hs : s.state with
    | waitingForAuth => simp [sendError, asksMech]
    | waitingForData =>
      simp only [if_true]
      rw [stepAuth_mech, respOk_eq]
      have := hinv.1 (by rw [hs]; decide)
      rw [this]
      cases hd : (decodeResponse (some (splitCmd line).2)).isSome <;> simp [asksMech]
    | waitingForBegin => simp [sendError, asksMech]
  | error => cases hs : s.state <;> simp [authERROR, reject_mech, asksMech]
  | negotiate => cases hs : s.state <;> simp [sendError, asksMech]
  | unknown => cases hs : s.state <;> simp [sendError, asksMech]

/-! ## run level -/

/-- The no-crash invariant: the mechanism in progress of a live connection is good; a crashed connection
handled a line whose command word is not valid UTF-8. -/
def NC (G : W → I → Prop) (p : Proto W I) : Prop :=
  (p.closed = false → p.crashed = false → p.authenticated = false → CurGood G p.srv) ∧
  (p.crashed = true → ∃ e ∈ p.log, utf8Valid (splitCmd e.line).1 = false)

theorem nc_not_live (q : Proto W I) (h1 : q.closed = true ∨ q.authenticated = true ∨ q.crashed = true)
    (h2 : q.crashed = true → ∃ e ∈ q.log, utf8Valid (splitCmd e.line).1 = false) : NC G q := by
  refine ⟨?_, h2⟩
  intro a b c
  rcases h1 with h | h | h
  · rw [h] at a; cases a
  · rw [h] at c; cases c
  · rw [h] at b; cases b

theorem not_crashed_vacuous (q : Proto W I) (h : q.crashed = false) :
    q.crashed = true → ∃ e ∈ q.log, utf8Valid (splitCmd e.line).1 = false := by
  intro hx; rw [h] at hx; cases hx

theorem handle_crash_of_not_utf8 (s : Server W I) (line : Bytes) (hu : utf8Valid (splitCmd line).1 = false) :
    (handle S s line).res = .crash := by
  unfold handle
  simp [hu]

theorem lineLoop_nc (hs : MechSafe S Fresh G) (guid : Bytes) (p : Proto W I) (ls : List Bytes)
    (hinv : Inv S guid p) (hn : NC G p) (hcr : p.crashed = false) (ha : p.authenticated = false) :
    NC G (lineLoop S p ls).1 := by
  induction ls generalizing p with
  | nil => exact hn
  | cons l t ih =>
    simp only [lineLoop]
    by_cases hc : p.closed = true
    · simp only [hc, if_true]; exact hn
    · have hc' : p.closed = false := by simpa using hc
      simp only [hc', Bool.false_eq_true, if_false]
      by_cases hl : l.length > maxAuthLength
      · simp only [hl, if_true]
        exact nc_not_live _ (Or.inl rfl) (not_crashed_vacuous _ hcr)
      · simp only [hl, if_false]
        obtain ⟨s1, s2, s3, s4⟩ := step_inv S guid p l hinv hc' hcr ha
        have hgood := hn.1 hc' hcr ha
        have hinv2 := (hinv.1 hc' hcr ha).2.1
        cases hu : utf8Valid (splitCmd l).1 with
        | false =>
          have hres := handle_crash_of_not_utf8 S p.srv l hu
          simp only [hres]
          refine nc_not_live _ (Or.inr (Or.inr rfl)) (fun _ => ⟨evOf p.srv l (handle S p.srv l), ?_, hu⟩)
          show evOf p.srv l (handle S p.srv l) ∈ p.log ++ [evOf p.srv l (handle S p.srv l)]
          simp
        | true =>
          obtain ⟨k1, k2⟩ := handle_no_crash S hs p.srv l hgood hinv2 hu
          cases hr : (handle S p.srv l).res with
          | crash => exact absurd hr k1
          | failed =>
            simp only
            exact ih _ (s2 hr) (nc_not_live _ (Or.inl rfl) (not_crashed_vacuous _ hcr)) hcr ha
          | ok =>
            simp only
            have hnc : NC G (p.handled l (handle S p.srv l)) :=
              ⟨fun _ _ _ => k2, not_crashed_vacuous _ hcr⟩
            by_cases hau : (handle S p.srv l).srv.authenticated = true
            · simp only [hau, if_true]; exact hnc
            · have hau' : (handle S p.srv l).srv.authenticated = false := by simpa using hau
              simp only [hau', Bool.false_eq_true, if_false]
              exact ih _ (s4 hr hau') hnc hcr ha

theorem recvLines_nc (hs : MechSafe S Fresh G) (guid : Bytes) (p : Proto W I) (d : Bytes)
    (hinv : Inv S guid p) (hn : NC G p) (hcr : p.crashed = false) (ha : p.authenticated = false) :
    NC G (recvLines S p d) := by
  rw [recvLines_eq]
  have := lineLoop_nc S hs guid (p.setBuf (splitCRLF (p.buffer ++ d)).2) (splitCRLF (p.buffer ++ d)).1 hinv hn hcr ha
  generalize lineLoop S (p.setBuf (splitCRLF (p.buffer ++ d)).2) (splitCRLF (p.buffer ++ d)).1 = qk at this
  obtain ⟨q, k⟩ := qk
  cases k with
  | done =>
    simp only
    split
    · exact nc_not_live _ (Or.inl rfl) this.2
    · exact this
  | ret => exact this
  | success rest => exact nc_not_live _ (Or.inr (Or.inl rfl)) this.2

theorem recv_nc (hs : MechSafe S Fresh G) (guid : Bytes) (p : Proto W I) (d : Bytes) (hd : d ≠ [])
    (hinv : Inv S guid p) (hn : NC G p) : NC G (recv S p d) := by
  cases hcr : p.crashed with
  | true => rw [recv_crashed S p d hcr]; exact hn
  | false =>
    cases ha : p.authenticated with
    | true =>
      rw [recv_auth S p d hcr ha]
      exact nc_not_live _ (Or.inr (Or.inl ha)) hn.2
    | false =>
      cases hf : p.firstByte with
      | true =>
        cases d with
        | nil => exact absurd rfl hd
        | cons b d' =>
          by_cases hb : b = 0
          · subst hb
            rw [recv_first_nul S p d' hcr ha hf]
            exact recvLines_nc S hs guid p.dropFirst d' hinv hn hcr ha
          · rw [recv_first_bad S p b d' hcr ha hf hb]
            exact nc_not_live _ (Or.inl rfl) hn.2
      | false =>
        rw [recv_lines S p d hcr ha hf]
        exact recvLines_nc S hs guid p d hinv hn hcr ha

theorem runReads_nc (hs : MechSafe S Fresh G) (guid : Bytes) (p : Proto W I) (reads : List Bytes)
    (hall : ∀ r ∈ reads, r ≠ []) (hinv : Inv S guid p) (hn : NC G p) : NC G (runReads S p reads) := by
  induction reads generalizing p with
  | nil => exact hn
  | cons d t ih =>
    exact ih _ (fun r hr => hall r (by simp [hr])) (recv_inv S guid p d hinv)
      (recv_nc S hs guid p d (hall d (by simp)) hinv hn)

theorem nc_init (guid : Bytes) (w : W) : NC G (Proto.init guid w : Proto W I) :=
  ⟨fun _ _ _ n i h => (nomatch h), fun h => (nomatch h)⟩

end Txdbus.AuthServer
