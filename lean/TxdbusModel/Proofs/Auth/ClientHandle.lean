/-
C07 proofs - what one call of `handleAuthMessage` can do: a complete case list.
-/
import TxdbusModel.Auth.Client
import TxdbusModel.Auth.ClientSpec

namespace Txdbus.AuthClient

theorem hexVal?_isHexDigit {c : UInt8} {n : Nat} (h : hexVal? c = some n) : isHexDigit c = true := by
  unfold hexVal? at h
  unfold isHexDigit
  split at h
  · simp_all
  · split at h
    · simp_all
    · split at h
      · simp_all
      · simp at h

theorem unhexPairs_ok {bs r : Bytes} (h : unhexPairs bs = .ok r) : bs.all isHexDigit = true := by
  fun_induction unhexPairs bs generalizing r with
  | case1 => rfl
  | case2 => simp at h
  | case3 a b t x y hx hy r' hr ih =>
    simp [List.all_cons, ih hr, hexVal?_isHexDigit hx, hexVal?_isHexDigit hy]
  | case4 a b t x y hx hy e hr ih => simp at h
  | case5 => simp_all

theorem unhexlify_ok {bs r : Bytes} (h : unhexlify bs = .ok r) :
    bs.length % 2 = 0 ∧ bs.all isHexDigit = true := by
  unfold unhexlify at h
  split at h
  · simp at h
  · exact ⟨by omega, unhexPairs_ok h⟩

/-- Everything a successful call of `handleAuthMessage` can do. -/
inductive Handled (env : Env) (a : Auth) (l : Bytes) : Auth → List Bytes → Prop
  | next (m : Bytes) (rest : List Bytes) :
      ((splitCmd l).1 = cREJECTED ∨ ((splitCmd l).1 = cERROR ∧ a.negotiating = false)) →
      a.authOrder = m :: rest →
      Handled env a l { a with authOrder := rest, authMech := some m, negotiating := false } [authLine env m]
  | okBegin (g : Bytes) : OkLine l → a.unixFD = false →
      Handled env a l { a with guid := some g, authenticated := true } [lBEGIN]
  | okNegotiate (g : Bytes) : OkLine l → a.unixFD = true →
      Handled env a l { a with guid := some g, negotiating := true } [lNEGOTIATE]
  | agree : (splitCmd l).1 = cAGREE → a.unixFD = true → a.negotiating = true →
      Handled env a l { a with authenticated := true } [lBEGIN]
  | errorBegin : (splitCmd l).1 = cERROR → a.negotiating = true →
      Handled env a l { a with authenticated := true } [lBEGIN]
  | data (line : Bytes) : (splitCmd l).1 = cDATA →
      (line = lDATA ∨ line = lCANCEL ∨ (∃ x, line = b!"DATA " ++ x) ∨ ∃ x, line = b!"ERROR " ++ x) →
      Handled env a l a [line]

theorem tryNext_handled {env : Env} {a a' : Auth} {l : Bytes} {out : List Bytes}
    (hc : (splitCmd l).1 = cREJECTED ∨ ((splitCmd l).1 = cERROR ∧ a.negotiating = false))
    (h : authTryNextMethod env a = .ok (a', out)) : Handled env a l a' out := by
  unfold authTryNextMethod at h
  split at h
  · simp at h
  · rename_i m rest hm
    simp only [Except.ok.injEq, Prod.mk.injEq] at h
    obtain ⟨rfl, rfl⟩ := h
    exact Handled.next m rest hc hm

theorem handle_ok_cases {env : Env} {a a' : Auth} {l : Bytes} {out : List Bytes}
    (h : handleAuthMessage env a l = .ok (a', out)) : Handled env a l a' out := by
  unfold handleAuthMessage at h
  simp only at h
  split at h
  · -- REJECTED
    rename_i hc
    exact tryNext_handled (Or.inl hc) h
  · split at h
    · -- OK
      rename_i hc
      unfold authOK at h
      simp only at h
      split at h
      · simp at h
      · rename_i hne
        split at h
        · simp at h
        · rename_i g hg
          have hx := unhexlify_ok hg
          have hok : OkLine l := ⟨hc, by simpa using hne, hx.1, hx.2⟩
          split at h
          · rename_i hu
            simp only [Except.ok.injEq, Prod.mk.injEq] at h
            obtain ⟨rfl, rfl⟩ := h
            exact Handled.okNegotiate g hok hu
          · rename_i hu
            simp only [Except.ok.injEq, Prod.mk.injEq] at h
            obtain ⟨rfl, rfl⟩ := h
            exact Handled.okBegin g hok (by simpa using hu)
    · split at h
      · -- AGREE_UNIX_FD
        rename_i hc
        unfold authAGREE at h
        split at h
        · rename_i hu
          simp only [Bool.and_eq_true] at hu
          simp only [Except.ok.injEq, Prod.mk.injEq] at h
          obtain ⟨rfl, rfl⟩ := h
          exact Handled.agree hc hu.1 hu.2
        · simp at h
      · split at h
        · -- DATA
          rename_i hc
          unfold authDATA at h
          split at h
          · simp only [Except.ok.injEq, Prod.mk.injEq] at h
            obtain ⟨rfl, rfl⟩ := h
            exact Handled.data _ hc (Or.inl rfl)
          · split at h
            · split at h
              · rename_i line hl
                simp only [Except.ok.injEq, Prod.mk.injEq] at h
                obtain ⟨rfl, rfl⟩ := h
                refine Handled.data _ hc (Or.inr (Or.inr (Or.inl ?_)))
                unfold cookieResponse at hl
                split at hl <;> try (simp at hl)
                split at hl <;> try (simp at hl)
                split at hl <;> try (simp at hl)
                exact ⟨_, hl.symm⟩
              · simp only [Except.ok.injEq, Prod.mk.injEq] at h
                obtain ⟨rfl, rfl⟩ := h
                exact Handled.data _ hc (Or.inr (Or.inr (Or.inr ⟨_, rfl⟩)))
            · simp only [Except.ok.injEq, Prod.mk.injEq] at h
              obtain ⟨rfl, rfl⟩ := h
              exact Handled.data _ hc (Or.inr (Or.inl rfl))
        · split at h
          · -- ERROR
            rename_i hc
            unfold authERROR at h
            split at h
            · rename_i hn
              simp only [Except.ok.injEq, Prod.mk.injEq] at h
              obtain ⟨rfl, rfl⟩ := h
              exact Handled.errorBegin hc hn
            · rename_i hn
              exact tryNext_handled (Or.inr ⟨hc, by simpa using hn⟩) h
          · simp at h

end Txdbus.AuthClient
