import TxdbusModel.Auth.ServerTrace
/-
Lemmas about one call of `handleAuthMessage` (C06): the command dispatch, what `reject` does,
what makes the call raise, what makes it set `authenticated`, and the refinement of the
specification's state table.
-/
namespace Txdbus.AuthServer

open Txdbus.Gen.ServerAuth

/-! ## command dispatch -/

/-- The specification's reading of a line, through the code's command dispatch. -/
theorem parse_via_parseCmd (line : Bytes) :
    Spec.parse line =
      match parseCmd (splitCmd line).1 with
      | .auth =>
        (match splitWs (splitCmd line).2 with
         | [] => .auth none true
         | m :: rest => .auth (some m) (Spec.respOk rest.head?))
      | .data => .data (Spec.respOk (some (splitCmd line).2))
      | .begin => .begin
      | .cancel => .cancel
      | .error => .error
      | .negotiate => .other
      | .unknown => .other := by
  by_cases h1 : (splitCmd line).1 = lit "AUTH"
  · simp +decide [Spec.parse, parseCmd, h1]
    cases splitWs (splitCmd line).2 <;> rfl
  by_cases h2 : (splitCmd line).1 = lit "BEGIN"
  · simp +decide [Spec.parse, parseCmd, h2]
  by_cases h3 : (splitCmd line).1 = lit "CANCEL"
  · simp +decide [Spec.parse, parseCmd, h3]
  by_cases h4 : (splitCmd line).1 = lit "DATA"
  · simp +decide [Spec.parse, parseCmd, h4]
  by_cases h5 : (splitCmd line).1 = lit "ERROR"
  · simp +decide [Spec.parse, parseCmd, h5]
  by_cases h6 : (splitCmd line).1 = lit "NEGOTIATE_UNIX_FD"
  · simp +decide [Spec.parse, parseCmd, h6]
  simp [Spec.parse, parseCmd, h1, h2, h3, h4, h5, h6]

variable {W I : Type} (S : MechSys W I)

/-! ## `reject` -/

/-- The authenticator after `reject()` got past `cancel()`. -/
def rejected1 (s : Server W I) (w : W) : Server W I :=
  { s with cur := none, world := w, rejects := s.rejects + 1 }

theorem reject_cases (s : Server W I) (m : Option (Bytes × Outcome)) :
    reject S s m = ⟨s, [], .crash, m, true⟩ ∨
    ∃ w, reject S s m =
      if s.rejects + 1 > maxRejects then ⟨rejected1 s w, [], .failed, m, true⟩
      else ⟨{ rejected1 s w with state := .waitingForAuth }, [rejectLine S], .ok, m, true⟩ := by
  unfold reject
  cases hc : s.cur with
  | none => right; exact ⟨s.world, by simp [rejected1]⟩
  | some ni =>
    obtain ⟨n, i⟩ := ni
    cases hcan : S.cancel s.world i with
    | none => left; simp [hcan]
    | some w => right; exact ⟨w, by simp [hcan, rejected1, hc]⟩

theorem reject_rejected (s : Server W I) (m) : (reject S s m).rejected = true := by
  rcases reject_cases S s m with h | ⟨w, h⟩ <;> rw [h]
  split <;> rfl

theorem reject_mech (s : Server W I) (m) : (reject S s m).mech = m := by
  rcases reject_cases S s m with h | ⟨w, h⟩ <;> rw [h]
  split <;> rfl

theorem reject_auth (s : Server W I) (m) : (reject S s m).srv.authenticated = s.authenticated := by
  rcases reject_cases S s m with h | ⟨w, h⟩ <;> rw [h]
  split <;> rfl

theorem reject_guid (s : Server W I) (m) : (reject S s m).srv.serverGuid = s.serverGuid := by
  rcases reject_cases S s m with h | ⟨w, h⟩ <;> rw [h]
  split <;> rfl

theorem reject_ok (s : Server W I) (m) (h : (reject S s m).res = .ok) :
    (reject S s m).srv.rejects = s.rejects + 1 ∧ s.rejects + 1 ≤ maxRejects ∧
    (reject S s m).srv.state = .waitingForAuth ∧ (reject S s m).srv.cur = none ∧
    (reject S s m).sent = [rejectLine S] := by
  rcases reject_cases S s m with h' | ⟨w, h'⟩ <;> rw [h'] at h ⊢
  · cases h
  · by_cases hc : s.rejects + 1 > maxRejects
    · simp [hc] at h
    · rw [if_neg hc]
      exact ⟨rfl, by omega, rfl, rfl, rfl⟩

theorem reject_failed (s : Server W I) (m) (h : (reject S s m).res = .failed) :
    (reject S s m).srv.rejects = s.rejects + 1 ∧ s.rejects + 1 > maxRejects ∧
    (reject S s m).srv.state = s.state ∧ (reject S s m).sent = [] := by
  rcases reject_cases S s m with h' | ⟨w, h'⟩ <;> rw [h'] at h ⊢
  · cases h
  · by_cases hc : s.rejects + 1 > maxRejects
    · rw [if_pos hc]
      exact ⟨rfl, hc, rfl, rfl⟩
    · simp [hc] at h

theorem reject_crash (s : Server W I) (m) (h : (reject S s m).res = .crash) :
    (reject S s m).srv = s ∧ (reject S s m).sent = [] := by
  rcases reject_cases S s m with h' | ⟨w, h'⟩ <;> rw [h'] at h ⊢
  · exact ⟨rfl, rfl⟩
  · by_cases hc : s.rejects + 1 > maxRejects <;> simp [hc] at h

/-- Over the limit exactly when it raises (unless `cancel()` itself raised). -/
theorem reject_failed_iff (s : Server W I) (m) (h : (reject S s m).res ≠ .crash) :
    (reject S s m).res = .failed ↔ s.rejects ≥ maxRejects := by
  rcases reject_cases S s m with h' | ⟨w, h'⟩ <;> rw [h'] at h ⊢
  · exact absurd rfl h
  · by_cases hc : s.rejects + 1 > maxRejects
    · rw [if_pos hc]; constructor
      · intro _; omega
      · intro _; rfl
    · rw [if_neg hc]; constructor
      · intro h2; cases h2
      · intro h2; omega

/-! ## abstraction to the specification's state -/

/-- The specification state of a live authenticator. -/
def absSrv (s : Server W I) : Spec.State := ⟨phaseOf s.state, s.rejects⟩

/-- The specification state after a call: raised -> closed, BEGIN accepted -> authenticated. -/
def absOut (o : Out W I) : Spec.State :=
  if o.res = .failed then ⟨.closed, o.srv.rejects⟩
  else if o.srv.authenticated then ⟨.authenticated, o.srv.rejects⟩
  else absSrv o.srv

theorem wRejected_eq : wRejected = lit "REJECTED " := by decide
theorem wOk_eq : wOk = lit "OK " := by decide
theorem wData_eq : wData = lit "DATA " := by decide
theorem wError_eq : wError = lit "ERROR" := by decide
theorem wErrorSp_eq : wErrorSp = lit "ERROR " := by decide

theorem respOk_eq (r : Option Bytes) : Spec.respOk r = (decodeResponse r).isSome := by
  unfold Spec.respOk decodeResponse
  cases r with
  | none => rfl
  | some b =>
    cases b with
    | nil => rfl
    | cons x t =>
      simp only
      cases unhexlify (strip (x :: t)) with
      | none => rfl
      | some d => cases h : isAscii d <;> simp [h]

/-- `reject()` against the specification's rejection rule. -/
theorem reject_refines (s : Server W I) (m) (ph : Spec.Phase) (ha : s.authenticated = false)
    (h : (reject S s m).res ≠ .crash) :
    (Spec.rej S.offered maxRejects ⟨ph, s.rejects⟩).1 = absOut (reject S s m) ∧
    (Spec.rej S.offered maxRejects ⟨ph, s.rejects⟩).2.matches s.serverGuid (reject S s m).sent = true := by
  have hauth := reject_auth S s m
  cases hr : (reject S s m).res with
  | crash => exact absurd hr h
  | failed =>
    obtain ⟨h1, h2, h3, h4⟩ := reject_failed S s m hr
    have : s.rejects + 1 > maxRejects := h2
    simp only [Spec.rej, this, if_true, absOut, hr, h1, h4, Spec.Reply.matches, and_self]
  | ok =>
    obtain ⟨h1, h2, h3, h4, h5⟩ := reject_ok S s m hr
    have : ¬ (s.rejects + 1 > maxRejects) := by omega
    simp [Spec.rej, this, absOut, hr, h1, h5, Spec.Reply.matches, hauth, ha, absSrv, h3, phaseOf, rejectLine,
      wRejected_eq]

/-- `stepAuth` against the specification: a usable response is judged by the mechanism, an unusable one
is rejected. -/
theorem stepAuth_refines (s : Server W I) (resp : Option Bytes) (ph : Spec.Phase)
    (ha : s.authenticated = false) (hcur : s.cur.isSome = true) (h : (stepAuth S s resp).res ≠ .crash) :
    (if Spec.respOk resp then
        Spec.onVerdict S.offered maxRejects ⟨ph, s.rejects⟩ (verdictOf (stepAuth S s resp).mech)
      else Spec.rej S.offered maxRejects ⟨ph, s.rejects⟩).1 = absOut (stepAuth S s resp) ∧
    (if Spec.respOk resp then
        Spec.onVerdict S.offered maxRejects ⟨ph, s.rejects⟩ (verdictOf (stepAuth S s resp).mech)
      else Spec.rej S.offered maxRejects ⟨ph, s.rejects⟩).2.matches s.serverGuid (stepAuth S s resp).sent = true := by
  cases hc : s.cur with
  | none => rw [hc] at hcur; cases hcur
  | some ni =>
    obtain ⟨name, i⟩ := ni
    rw [respOk_eq]
    unfold stepAuth at h ⊢
    simp only [hc] at h ⊢
    cases hd : decodeResponse resp with
    | none =>
      simp only [hd] at h ⊢
      exact reject_refines S s none ph ha h
    | some arg =>
      simp only [hd] at h ⊢
      cases ho : (S.step s.world i arg).2.2 with
      | accept =>
        simp only [ho] at h ⊢
        simp [Spec.onVerdict, verdictOf, absOut, absSrv, phaseOf, ha, Spec.Reply.matches, wOk_eq]
      | challenge c =>
        simp only [ho] at h ⊢
        simp [Spec.onVerdict, verdictOf, absOut, absSrv, phaseOf, ha, Spec.Reply.matches, wData_eq]
      | reject =>
        simp only [ho] at h ⊢
        rw [reject_mech]
        simp only [Option.isSome_some, if_true, verdictOf, Spec.onVerdict]
        refine reject_refines S _ _ ph ?_ h
        exact ha

theorem isPrefixOf_append_self (l x : Bytes) : l.isPrefixOf (l ++ x) = true := by
  induction l with
  | nil => simp [List.isPrefixOf]
  | cons a t ih => simp [List.isPrefixOf, ih]

/-- `sendError` is the table's ERROR reply, the state stays. -/
theorem sendError_refines (s : Server W I) (msg : Bytes) (ha : s.authenticated = false) :
    absOut (sendError s msg) = absSrv s ∧
    Spec.Reply.error.matches s.serverGuid (sendError s msg).sent = true := by
  constructor
  · simp [absOut, sendError, ha]
  · unfold sendError
    by_cases hm : msg.isEmpty
    · simp [hm, Spec.Reply.matches, wError_eq]
    · simp only [hm, Spec.Reply.matches, wErrorSp_eq, isPrefixOf_append_self, Bool.or_true]
      simp

/-- The invariant the refinement needs: a mechanism is in progress outside WaitingForAuth, and BEGIN has
not been accepted yet. -/
def Inv2 (s : Server W I) : Prop :=
  (s.state ≠ .waitingForAuth → s.cur.isSome = true) ∧ s.authenticated = false

/-- One line: reply and next state are the specification table's. -/
theorem handle_refines (s : Server W I) (line : Bytes) (hinv : Inv2 s)
    (h : (handle S s line).res ≠ .crash) :
    (Spec.step S.offered maxRejects (absSrv s) (Spec.parse line) (verdictOf (handle S s line).mech)).1
      = absOut (handle S s line) ∧
    (Spec.step S.offered maxRejects (absSrv s) (Spec.parse line) (verdictOf (handle S s line).mech)).2.matches
      s.serverGuid (handle S s line).sent = true := by
  obtain ⟨hcur, ha⟩ := hinv
  rw [parse_via_parseCmd]
  unfold handle at h ⊢
  by_cases hu : utf8Valid (splitCmd line).1 = true
  · simp only [hu, Bool.not_true, Bool.false_eq_true, if_false] at h ⊢
    have hse := fun msg => sendError_refines s msg ha
    cases hp : parseCmd (splitCmd line).1 with
    | auth =>
      simp only [hp] at h ⊢
      unfold authAUTH at h ⊢
      cases hs : s.state with
      | waitingForAuth =>
        simp only [hs, if_true] at h ⊢
        simp only [Spec.step, absSrv, phaseOf, hs]
        cases hw : splitWs (splitCmd line).2 with
        | nil =>
          simp only [hw] at h ⊢
          simp only [Spec.stepWaitingForAuth]
          exact reject_refines S s none _ ha h
        | cons mech rest =>
          simp only [hw] at h ⊢
          simp only [Spec.stepWaitingForAuth]
          by_cases hoff : S.offered.contains mech = true
          · simp only [hoff, if_true, true_and] at h ⊢
            exact stepAuth_refines S _ rest.head? .waitingForAuth ha rfl h
          · simp only [hoff, if_false, false_and] at h ⊢
            exact reject_refines S s none _ ha h
      | waitingForData =>
        simp only [hs] at h ⊢
        have := hse []
        cases hw : splitWs (splitCmd line).2 <;>
          simp [Spec.step, Spec.stepWaitingForData, absSrv, phaseOf, hs, this.1, this.2]
      | waitingForBegin =>
        simp only [hs] at h ⊢
        have := hse []
        cases hw : splitWs (splitCmd line).2 <;>
          simp [Spec.step, Spec.stepWaitingForBegin, absSrv, phaseOf, hs, this.1, this.2]
    | begin =>
      simp only [hp] at h ⊢
      unfold authBEGIN at h ⊢
      cases hs : s.state with
      | waitingForAuth => simp [hs, Spec.step, Spec.stepWaitingForAuth, absSrv, phaseOf, absOut, Spec.Reply.matches]
      | waitingForData => simp [hs, Spec.step, Spec.stepWaitingForData, absSrv, phaseOf, absOut, Spec.Reply.matches]
      | waitingForBegin =>
        simp only [hs, if_true] at h ⊢
        cases hc : s.cur with
        | none => simp [hc] at h
        | some ni =>
          obtain ⟨n, i⟩ := ni
          simp only [hc] at h ⊢
          cases hu2 : S.userName s.world i with
          | none => simp [hu2] at h
          | some u =>
            simp [hu2, Spec.step, Spec.stepWaitingForBegin, absSrv, phaseOf, hs, absOut, Spec.Reply.matches]
    | cancel =>
      simp only [hp] at h ⊢
      unfold authCANCEL at h ⊢
      cases hs : s.state with
      | waitingForAuth =>
        have := hse []
        simp [hs, Spec.step, Spec.stepWaitingForAuth, absSrv, phaseOf, this.1, this.2]
      | waitingForData =>
        simp only [hs] at h ⊢
        simp only [Spec.step, absSrv, phaseOf, hs, Spec.stepWaitingForData]
        simp only [reduceCtorEq, or_false, if_true, true_or] at h ⊢
        exact reject_refines S s none _ ha h
      | waitingForBegin =>
        simp only [hs] at h ⊢
        simp only [Spec.step, absSrv, phaseOf, hs, Spec.stepWaitingForBegin]
        simp only [reduceCtorEq, or_true, if_true, false_or] at h ⊢
        exact reject_refines S s none _ ha h
    | data =>
      simp only [hp] at h ⊢
      unfold authDATA at h ⊢
      cases hs : s.state with
      | waitingForAuth =>
        have := hse []
        simp [hs, Spec.step, Spec.stepWaitingForAuth, absSrv, phaseOf, this.1, this.2]
      | waitingForData =>
        simp only [hs, if_true] at h ⊢
        simp only [Spec.step, absSrv, phaseOf, hs, Spec.stepWaitingForData]
        have hc := hcur (by rw [hs]; decide)
        exact stepAuth_refines S s (some (splitCmd line).2) .waitingForData ha hc h
      | waitingForBegin =>
        have := hse []
        simp [hs, Spec.step, Spec.stepWaitingForBegin, absSrv, phaseOf, this.1, this.2]
    | error =>
      simp only [hp] at h ⊢
      unfold authERROR at h ⊢
      cases hs : s.state <;>
        simp only [Spec.step, absSrv, phaseOf, hs, Spec.stepWaitingForAuth, Spec.stepWaitingForData,
          Spec.stepWaitingForBegin] <;>
        exact reject_refines S s none _ ha h
    | negotiate =>
      simp only [hp] at h ⊢
      have := hse []
      cases hs : s.state <;>
        simp [Spec.step, Spec.stepWaitingForAuth, Spec.stepWaitingForData, Spec.stepWaitingForBegin, absSrv,
          phaseOf, hs, this.1, this.2] <;> simp [absSrv, phaseOf, hs]
    | unknown =>
      simp only [hp] at h ⊢
      have := hse wUnknown
      cases hs : s.state <;>
        simp [Spec.step, Spec.stepWaitingForAuth, Spec.stepWaitingForData, Spec.stepWaitingForBegin, absSrv,
          phaseOf, hs, this.1, this.2] <;> simp [absSrv, phaseOf, hs]
  · simp [hu] at h

/-! ## facts about one call, for the safety and closing theorems -/

/-- The mechanism in progress was looked up in the offered table. -/
def CurOffered (s : Server W I) : Prop := ∀ n i, s.cur = some (n, i) → S.offered.contains n = true

/-- Everything the run-level theorems need to know about one `handleAuthMessage` (`c`: the command). -/
def Facts (s : Server W I) (c : Cmd) (o : Out W I) : Prop :=
  CurOffered S o.srv ∧ o.srv.serverGuid = s.serverGuid ∧
  (o.res = .ok → o.srv.authenticated = false → Inv2 o.srv) ∧
  (o.srv.authenticated = true → s.state = .waitingForBegin ∧ c = .begin ∧ o.rejected = false) ∧
  (o.res = .ok → o.srv.state = .waitingForBegin →
    (∃ n, o.mech = some (n, .accept) ∧ S.offered.contains n = true) ∨
    (s.state = .waitingForBegin ∧ o.rejected = false)) ∧
  (o.res = .failed ↔ (c = .begin ∧ s.state ≠ .waitingForBegin) ∨
    (o.rejected = true ∧ s.rejects ≥ maxRejects ∧ o.res ≠ .crash)) ∧
  (o.res ≠ .crash → o.srv.rejects = s.rejects + (if o.rejected then 1 else 0))

theorem facts_reject (s s' : Server W I) (c : Cmd) (m) (hc : c ≠ .begin) (h1 : CurOffered S s')
    (h2 : s'.authenticated = false) (h3 : s'.rejects = s.rejects) (h4 : s'.serverGuid = s.serverGuid) :
    Facts S s c (reject S s' m) := by
  have hrj := reject_rejected S s' m
  have hau := reject_auth S s' m
  have hgu := reject_guid S s' m
  refine ⟨?_, hgu.trans h4, ?_, ?_, ?_, ?_, ?_⟩
  · cases hr : (reject S s' m).res with
    | crash => rw [(reject_crash S s' m hr).1]; exact h1
    | ok => intro n i hn; rw [(reject_ok S s' m hr).2.2.2.1] at hn; cases hn
    | failed =>
      rcases reject_cases S s' m with h | ⟨w, h⟩
      · rw [h] at hr; cases hr
      · intro n i hn; rw [h] at hn; split at hn <;> simp [rejected1] at hn
  · intro hr _
    have := reject_ok S s' m hr
    exact ⟨fun hne => absurd this.2.2.1 hne, hau.trans h2⟩
  · intro ha; rw [hau, h2] at ha; cases ha
  · intro hr hs; rw [(reject_ok S s' m hr).2.2.1] at hs; cases hs
  · constructor
    · intro hr
      right
      have := reject_failed S s' m hr
      refine ⟨hrj, by omega, by rw [hr]; decide⟩
    · rintro (⟨hb, _⟩ | ⟨_, hge, hnc⟩)
      · exact absurd hb hc
      · exact (reject_failed_iff S s' m hnc).2 (by omega)
  · intro hnc
    rw [hrj]
    cases hr : (reject S s' m).res with
    | crash => exact absurd hr hnc
    | ok => rw [(reject_ok S s' m hr).1, h3]; rfl
    | failed => rw [(reject_failed S s' m hr).1, h3]; rfl

theorem facts_sendError (s : Server W I) (c : Cmd) (msg : Bytes) (hc : c ≠ .begin) (h1 : CurOffered S s)
    (h2 : Inv2 s) : Facts S s c (sendError s msg) := by
  refine ⟨h1, rfl, fun _ _ => h2, ?_, ?_, ?_, ?_⟩
  · intro ha; rw [show (sendError s msg).srv = s from rfl, h2.2] at ha; cases ha
  · intro _ hs; exact Or.inr ⟨hs, rfl⟩
  · constructor
    · intro h; cases h
    · rintro (⟨hb, _⟩ | ⟨hr, _⟩)
      · exact absurd hb hc
      · cases hr
  · intro _; simp [sendError]

theorem facts_stepAuth (s s' : Server W I) (c : Cmd) (resp : Option Bytes) (hc : c ≠ .begin)
    (h1 : CurOffered S s') (h2 : s'.authenticated = false) (h3 : s'.rejects = s.rejects)
    (h4 : s'.serverGuid = s.serverGuid) : Facts S s c (stepAuth S s' resp) := by
  unfold stepAuth
  cases hcur : s'.cur with
  | none => exact facts_reject S s s' c none hc h1 h2 h3 h4
  | some ni =>
    obtain ⟨name, i⟩ := ni
    have hoff := h1 name i hcur
    simp only
    cases hd : decodeResponse resp with
    | none => exact facts_reject S s s' c none hc h1 h2 h3 h4
    | some arg =>
      simp only
      cases ho : (S.step s'.world i arg).2.2 with
      | accept =>
        simp only
        refine ⟨?_, h4, ?_, ?_, ?_, ?_, ?_⟩
        · intro n j hn; simp at hn; rw [← hn.1]; exact hoff
        · intro _ _; exact ⟨fun _ => rfl, h2⟩
        · intro ha; rw [show _ = s'.authenticated from rfl, h2] at ha; cases ha
        · intro _ _; exact Or.inl ⟨name, rfl, hoff⟩
        · constructor
          · intro h; cases h
          · rintro (⟨hb, _⟩ | ⟨hr, _⟩)
            · exact absurd hb hc
            · cases hr
        · intro _; simp [h3]
      | challenge ch =>
        simp only
        refine ⟨?_, h4, ?_, ?_, ?_, ?_, ?_⟩
        · intro n j hn; simp at hn; rw [← hn.1]; exact hoff
        · intro _ _; exact ⟨fun _ => rfl, h2⟩
        · intro ha; rw [show _ = s'.authenticated from rfl, h2] at ha; cases ha
        · intro _ hs; cases hs
        · constructor
          · intro h; cases h
          · rintro (⟨hb, _⟩ | ⟨hr, _⟩)
            · exact absurd hb hc
            · cases hr
        · intro _; simp [h3]
      | reject =>
        simp only
        refine facts_reject S s _ c _ hc ?_ h2 h3 h4
        intro n j hn; simp at hn; rw [← hn.1]; exact hoff

theorem parseCmd_begin (w : Bytes) : parseCmd w = .begin ↔ w = lit "BEGIN" := by
  unfold parseCmd
  by_cases h1 : w = lit "AUTH"
  · simp +decide [h1]
  by_cases h2 : w = lit "BEGIN"
  · simp +decide [h2]
  by_cases h3 : w = lit "CANCEL"
  · simp +decide [h3]
  by_cases h4 : w = lit "DATA"
  · simp +decide [h4]
  by_cases h5 : w = lit "ERROR"
  · simp +decide [h5]
  by_cases h6 : w = lit "NEGOTIATE_UNIX_FD"
  · simp +decide [h6]
  simp [h1, h2, h3, h4, h5, h6]

theorem facts_handle (s : Server W I) (line : Bytes) (h1 : CurOffered S s) (h2 : Inv2 s) :
    Facts S s (parseCmd (splitCmd line).1) (handle S s line) := by
  unfold handle
  by_cases hu : utf8Valid (splitCmd line).1 = true
  · simp only [hu, Bool.not_true, Bool.false_eq_true, if_false]
    cases hp : parseCmd (splitCmd line).1 with
    | auth =>
      simp only
      unfold authAUTH
      by_cases hs : s.state = .waitingForAuth
      · simp only [hs, if_true]
        cases hw : splitWs (splitCmd line).2 with
        | nil => exact facts_reject S s s _ none (by decide) h1 h2.2 rfl rfl
        | cons mech rest =>
          simp only
          by_cases hoff : S.offered.contains mech = true
          · simp only [hoff, if_true]
            refine facts_stepAuth S s _ _ _ (by decide) ?_ h2.2 rfl rfl
            intro n i hn; simp at hn; rw [← hn.1]; exact hoff
          · simp only [hoff]
            exact facts_reject S s s _ none (by decide) h1 h2.2 rfl rfl
      · simp only [hs, if_false]
        exact facts_sendError S s _ [] (by decide) h1 h2
    | begin =>
      simp only
      unfold authBEGIN
      by_cases hs : s.state = .waitingForBegin
      · simp only [hs, if_true]
        cases hc : s.cur with
        | none =>
          simp only
          refine ⟨?_, rfl, ?_, ?_, ?_, ?_, ?_⟩
          · intro n i hn; simp at hn
          · intro h; cases h
          · intro _; exact ⟨hs, rfl, rfl⟩
          · intro h; cases h
          · constructor
            · intro h; cases h
            · rintro (⟨_, hne⟩ | ⟨hr, _⟩)
              · exact absurd hs hne
              · cases hr
          · intro h; exact absurd rfl h
        | some ni =>
          obtain ⟨n0, i0⟩ := ni
          simp only
          cases hun : S.userName s.world i0 with
          | none =>
            simp only
            refine ⟨?_, rfl, ?_, ?_, ?_, ?_, ?_⟩
            · intro n i hn; exact h1 n i (hc.trans hn)
            · intro h; cases h
            · intro _; exact ⟨hs, rfl, rfl⟩
            · intro h; cases h
            · constructor
              · intro h; cases h
              · rintro (⟨_, hne⟩ | ⟨hr, _⟩)
                · exact absurd hs hne
                · cases hr
            · intro h; exact absurd rfl h
          | some u =>
            simp only
            refine ⟨?_, rfl, ?_, ?_, ?_, ?_, ?_⟩
            · intro n i hn; simp at hn
            · intro _ h; cases h
            · intro _; exact ⟨hs, rfl, rfl⟩
            · intro _ _; exact Or.inr ⟨hs, rfl⟩
            · constructor
              · intro h; cases h
              · rintro (⟨_, hne⟩ | ⟨hr, _⟩)
                · exact absurd hs hne
                · cases hr
            · intro _; simp
      · simp only [hs, if_false]
        refine ⟨h1, rfl, ?_, ?_, ?_, ?_, ?_⟩
        · intro h; cases h
        · intro h; rw [show _ = s.authenticated from rfl, h2.2] at h; cases h
        · intro h; cases h
        · constructor
          · intro _; exact Or.inl ⟨rfl, hs⟩
          · intro _; rfl
        · intro _; simp
    | cancel =>
      simp only
      unfold authCANCEL
      split
      · exact facts_reject S s s _ none (by decide) h1 h2.2 rfl rfl
      · exact facts_sendError S s _ [] (by decide) h1 h2
    | data =>
      simp only
      unfold authDATA
      split
      · exact facts_stepAuth S s s _ _ (by decide) h1 h2.2 rfl rfl
      · exact facts_sendError S s _ [] (by decide) h1 h2
    | error => exact facts_reject S s s _ none (by decide) h1 h2.2 rfl rfl
    | negotiate => exact facts_sendError S s _ [] (by decide) h1 h2
    | unknown => exact facts_sendError S s _ wUnknown (by decide) h1 h2
  · simp only [hu, Bool.not_false, if_true]
    have hnb : parseCmd (splitCmd line).1 ≠ .begin := by
      intro hb
      rw [parseCmd_begin] at hb
      rw [hb] at hu
      exact hu (by decide)
    refine ⟨h1, rfl, ?_, ?_, ?_, ?_, ?_⟩
    · intro h; cases h
    · intro h; rw [show _ = s.authenticated from rfl, h2.2] at h; cases h
    · intro h; cases h
    · constructor
      · intro h; cases h
      · rintro (⟨hb, _⟩ | ⟨hr, _⟩)
        · exact absurd hb hnb
        · cases hr
    · intro h; exact absurd rfl h

end Txdbus.AuthServer
