/-
C07 proofs - the completion theorem at the level of bytes: however the answers of the reference
server are cut into reads, the composition behaves exactly as the line-level composition
(`handshakeBytes_eq`), hence completes in the same cases.
-/
import TxdbusModel.Proofs.Auth.ClientFraming
import TxdbusModel.Proofs.Auth.ClientComplete

namespace Txdbus.AuthClient

open SpecServer

/-- A line the client's framing passes on unchanged: no delimiter inside, within the length limit. -/
def Clean (r : Bytes) : Prop := hasCRLF r = false ∧ r.length ≤ maxAuth

theorem hasCRLF_of_no_cr {x : Bytes} (h : ∀ b ∈ x, b ≠ 13) : hasCRLF x = false := by
  induction x with
  | nil => rfl
  | cons b t ih =>
    have ht := ih (fun c hc => h c (by simp [hc]))
    unfold hasCRLF
    split
    · rfl
    · rename_i t' heq
      simp only [List.cons.injEq] at heq
      exact absurd heq.1 (h b (by simp))
    · rename_i x t' _ heq
      simp only [List.cons.injEq] at heq
      rw [← heq.2]; exact ht

theorem no_cr_hexlify (x : Bytes) : ∀ b ∈ hexlify x, b ≠ 13 := by
  intro b hb h13
  have := noSpace_hexlify x b hb
  rw [h13] at this
  simp [isSpace] at this

/-- What the completion theorem assumes about the server's lines, as cleanliness. -/
structure ServerLinesFit (cfg : Cfg) : Prop where
  ok : Clean (okLine cfg)
  challenge : cfg.accepts .cookie = true →
    Clean (b!"DATA " ++ hexlify (joinWith (b!" ") [cfg.cookieCtx, cfg.cookieId, cfg.challenge]))

theorem rejected_clean (cfg : Cfg) : Clean (rejected cfg) := by
  unfold Clean rejected
  cases h1 : cfg.accepts .external <;> cases h2 : cfg.accepts .cookie <;> cases h3 : cfg.accepts .anonymous <;>
    simp [Mech.all, List.filter, h1, h2, h3, Mech.name, joinWith, hasCRLF, maxAuth, Gen.ClientAuth.maxAuthLength]

theorem const_clean : Clean lERROR ∧ Clean (b!"DATA") ∧ Clean (b!"AGREE_UNIX_FD") := by
  refine ⟨⟨by decide, by decide⟩, ⟨by decide, by decide⟩, ⟨by decide, by decide⟩⟩

theorem mechStart_clean {cfg : Cfg} (hf : ServerLinesFit cfg) (m : Mech) (hm : cfg.accepts m = true)
    (resp : Option Bytes) : ∀ r ∈ (mechStart cfg m resp).2, Clean r := by
  intro r hr
  unfold mechStart at hr
  cases m with
  | anonymous => simp at hr; subst hr; exact hf.ok
  | external =>
    cases resp with
    | some x => simp at hr; subst hr; exact hf.ok
    | none => simp at hr; subst hr; exact const_clean.2.1
  | cookie =>
    cases resp with
    | some x => simp only [List.mem_singleton] at hr; subst hr; exact hf.challenge hm
    | none => simp at hr; subst hr; exact rejected_clean cfg

theorem mechData_clean {cfg : Cfg} (hf : ServerLinesFit cfg) (m : Mech) (resp : Bytes) :
    ∀ r ∈ (mechData cfg m resp).2, Clean r := by
  intro r hr
  unfold mechData at hr
  cases m with
  | anonymous => simp at hr; subst hr; exact rejected_clean cfg
  | external => simp at hr; subst hr; exact hf.ok
  | cookie =>
    simp only at hr
    split at hr
    · split at hr
      · simp at hr; subst hr; exact hf.ok
      · simp at hr; subst hr; exact rejected_clean cfg
    · simp at hr; subst hr; exact rejected_clean cfg

theorem step_clean {cfg : Cfg} (hf : ServerLinesFit cfg) (st : St) (line : Bytes) :
    ∀ r ∈ (step cfg st line).2, Clean r := by
  intro r hr
  unfold step at hr
  simp only at hr
  cases st with
  | authenticated => simp at hr
  | closed => simp at hr
  | waitingForAuth =>
    simp only at hr
    split at hr
    · split at hr
      · simp at hr; subst hr; exact rejected_clean cfg
      · split at hr
        · simp at hr; subst hr; exact rejected_clean cfg
        · rename_i m hm
          split at hr
          · rename_i hacc
            split at hr
            · exact mechStart_clean hf m hacc none r hr
            · split at hr
              · exact mechStart_clean hf m hacc _ r hr
              · simp at hr; subst hr; exact const_clean.1
          · simp at hr; subst hr; exact rejected_clean cfg
    · split at hr
      · simp at hr
      · split at hr
        · simp at hr; subst hr; exact rejected_clean cfg
        · simp at hr; subst hr; exact const_clean.1
  | waitingForData m =>
    simp only at hr
    split at hr
    · split at hr
      · exact mechData_clean hf m _ r hr
      · simp at hr; subst hr; exact const_clean.1
    · split at hr
      · simp at hr
      · split at hr
        · simp at hr; subst hr; exact rejected_clean cfg
        · simp at hr; subst hr; exact const_clean.1
  | waitingForBegin =>
    simp only at hr
    split at hr
    · simp at hr
    · split at hr
      · simp only [List.mem_singleton] at hr
        subst hr
        split
        · exact const_clean.2.2
        · exact const_clean.1
      · split at hr
        · simp at hr; subst hr; exact rejected_clean cfg
        · simp at hr; subst hr; exact const_clean.1

theorem feed_clean {cfg : Cfg} (hf : ServerLinesFit cfg) (lines : List Bytes) :
    ∀ st, ∀ r ∈ (feed cfg st lines).2, Clean r := by
  induction lines with
  | nil => intro st r hr; simp [feed] at hr
  | cons l ls ih =>
    intro st r hr
    simp only [feed, List.mem_append] at hr
    rcases hr with hr | hr
    · exact step_clean hf st l r hr
    · exact ih _ r hr

/-! ### Delivery in pieces = delivery of lines -/

theorem lineReceived_buffer (envAt : Nat → Env) (p : Proto) (l : Bytes) (hb : p.buffer = []) :
    (lineReceived envAt p l).buffer = [] := by
  unfold lineReceived
  split
  · exact hb
  · rcases processLines_buffer envAt [l] p with h | h
    · rw [h, hb]
    · exact h

theorem deliver_replies (cut : Bytes → List Bytes) (hcut : ∀ x, (cut x).flatten = x) (envAt : Nat → Env)
    (replies : List Bytes) : ∀ c : Proto, c.buffer = [] → (∀ r ∈ replies, Clean r) →
      replies.foldl (fun c l => (cut (l ++ CRLF)).foldl (dataReceived envAt) c) c
        = replies.foldl (lineReceived envAt) c := by
  induction replies with
  | nil => intro c _ _; rfl
  | cons r rs ih =>
    intro c hb hclean
    have hr := hclean r (by simp)
    have h1 : (cut (r ++ CRLF)).foldl (dataReceived envAt) c = lineReceived envAt c r := by
      by_cases ha : c.authenticated = true
      · rw [foldl_binary envAt _ c ha, hcut]
        unfold lineReceived
        simp [ha]
      · have ha' : c.authenticated = false := by simpa using ha
        have := deliver_line envAt r hr.1 hr.2 (cut (r ++ CRLF)) c ha' (by rw [hb, hcut]; rfl)
          (by rw [hb]; simp [CRLF])
        have hc : ({ c with buffer := [] } : Proto) = c := by cases c; simp_all
        rw [hc] at this
        exact this
    simp only [List.foldl_cons]
    rw [h1]
    exact ih _ (lineReceived_buffer envAt c r hb) (fun x hx => hclean x (by simp [hx]))

theorem foldl_lineReceived_buffer (envAt : Nat → Env) (replies : List Bytes) :
    ∀ c : Proto, c.buffer = [] → (replies.foldl (lineReceived envAt) c).buffer = [] := by
  induction replies with
  | nil => intro c h; exact h
  | cons r rs ih => intro c h; exact ih _ (lineReceived_buffer envAt c r h)

/-- However the server's answers are cut into reads, the byte-level composition is the line-level one. -/
theorem handshakeLoopBytes_eq (cut : Bytes → List Bytes) (hcut : ∀ x, (cut x).flatten = x) {cfg : Cfg}
    (hf : ServerLinesFit cfg) (envAt : Nat → Env) (fuel : Nat) :
    ∀ (sys : Sys) (pending : List Bytes), sys.client.buffer = [] →
      handshakeLoopBytes cut cfg envAt fuel sys pending = handshakeLoop cfg envAt fuel sys pending := by
  induction fuel with
  | zero => intro sys pending _; rfl
  | succ n ih =>
    intro sys pending hb
    unfold handshakeLoopBytes handshakeLoop
    have hd := deliver_replies cut hcut envAt (feed cfg sys.server pending).2 sys.client hb
      (feed_clean hf pending sys.server)
    simp only [hd]
    split
    · rfl
    · exact ih _ _ (foldl_lineReceived_buffer envAt _ _ hb)

theorem handshakeBytes_eq (cut : Bytes → List Bytes) (hcut : ∀ x, (cut x).flatten = x) {cfg : Cfg}
    (hf : ServerLinesFit cfg) (pref : List Bytes) (unix : Bool) (envAt : Nat → Env) (fuel : Nat) :
    handshakeBytes cut pref unix cfg envAt fuel = handshake pref unix cfg envAt fuel := by
  unfold handshakeBytes handshake
  apply handshakeLoopBytes_eq cut hcut hf
  unfold connectionMade
  simp only []
  split <;> rfl

end Txdbus.AuthClient
