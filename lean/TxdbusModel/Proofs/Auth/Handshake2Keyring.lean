/-
C07 x C06 proofs, part 5 - "the keyring is usable", declaratively.

`keyringUsable` (Handshake2Phase.lean) is defined by running the three-line DBUS_COOKIE_SHA1 exchange of the two
models.  Here: a sufficient condition in terms of passwd, directories and files (`keyringUsable_of_shared_keyring`):
the client's user name resolves to a passwd entry whose keyring directory the bus accepts (absent or good), the
client reads that same directory and passes its own `os.stat` tests, the context name is one clean token, and the
unexpired cookies already in the file are clean tokens.  Then the client finds, in the file the bus has just
written, the cookie under the id the bus announced, both sides hash the same string, and the bus accepts.
-/
import TxdbusModel.Proofs.Auth.Handshake2Phase

namespace Txdbus.Handshake2

open Txdbus.AuthServer (real RealWorld Inst lit Server Out handle cookieAuthLine natToDec CookieEnt lookupFile lookupDir
  getCookies nextCookieId cookieStep CookieSt)
open Txdbus.Gen.ServerAuth (wOk wData)

/-! ## decimal numbers -/

theorem digit_byte (c : Char) (h : c.isDigit = true) :
    48 ≤ (UInt8.ofNat c.toNat).toNat ∧ (UInt8.ofNat c.toNat).toNat ≤ 57 ∧ (UInt8.ofNat c.toNat).toNat = c.toNat := by
  have h' : 48 ≤ c.toNat ∧ c.toNat ≤ 57 := by
    simp only [Char.isDigit, Bool.and_eq_true, decide_eq_true_eq] at h
    have h1 : (48 : UInt32) ≤ c.val := h.1
    have h2 : c.val ≤ (57 : UInt32) := h.2
    rw [UInt32.le_iff_toNat_le] at h1 h2
    exact ⟨h1, h2⟩
  have : (UInt8.ofNat c.toNat).toNat = c.toNat := by
    rw [UInt8.toNat_ofNat']
    omega
  omega

theorem natToDec_ne_nil (n : Nat) : natToDec n ≠ [] := by
  unfold natToDec
  simp

theorem natToDec_digits (n : Nat) : ∀ b ∈ natToDec n, 48 ≤ b.toNat ∧ b.toNat ≤ 57 := by
  intro b hb
  unfold natToDec at hb
  obtain ⟨c, hc, rfl⟩ := List.mem_map.1 hb
  have := digit_byte c (Nat.isDigit_of_mem_toDigits (by decide) (by decide) hc)
  omega

theorem map_digit_inj : ∀ (l1 l2 : List Char), (∀ c ∈ l1, c.isDigit = true) → (∀ c ∈ l2, c.isDigit = true) →
    l1.map (fun c => UInt8.ofNat c.toNat) = l2.map (fun c => UInt8.ofNat c.toNat) → l1 = l2
  | [], [], _, _, _ => rfl
  | [], _ :: _, _, _, h => by simp at h
  | _ :: _, [], _, _, h => by simp at h
  | a :: t1, b :: t2, h1, h2, h => by
    simp only [List.map_cons, List.cons.injEq] at h
    have ha := digit_byte a (h1 a (by simp))
    have hb := digit_byte b (h2 b (by simp))
    have : a.toNat = b.toNat := by rw [← ha.2.2, ← hb.2.2, h.1]
    have hab : a = b := Char.toNat_inj.1 this
    rw [hab, map_digit_inj t1 t2 (fun c hc => h1 c (by simp [hc])) (fun c hc => h2 c (by simp [hc])) h.2]

theorem natToDec_inj {a b : Nat} (h : natToDec a = natToDec b) : a = b := by
  unfold natToDec at h
  have := map_digit_inj _ _ (fun c hc => Nat.isDigit_of_mem_toDigits (by decide) (by decide) hc)
    (fun c hc => Nat.isDigit_of_mem_toDigits (by decide) (by decide) hc) h
  have h2 := congrArg (fun l => Nat.ofDigitChars 10 l 0) this
  simpa using h2

/-- Decimal digits are neither blanks nor line ends (as the client's `split()` / file iteration see them). -/
theorem natToDec_clean (n : Nat) : AuthClient.NoSpace (natToDec n) ∧ ∀ b ∈ natToDec n, b ≠ 10 := by
  constructor
  · intro b hb
    have := natToDec_digits n b hb
    have hb' : b = UInt8.ofNat b.toNat := by simp
    rw [hb']
    have key : ∀ k, k < 10 → AuthClient.isSpace (UInt8.ofNat (48 + k)) = false := by decide
    have hk : b.toNat = 48 + (b.toNat - 48) := by omega
    rw [hk]
    exact key _ (by omega)
  · intro b hb h10
    have := natToDec_digits n b hb
    rw [h10] at this
    exact absurd this.1 (by decide)

/-! ## the cookie file as the client reads it -/

/-- A token of the cookie file: not empty, no blank (so no line end either). -/
def CleanTok (k : Bytes) : Prop := k ≠ [] ∧ AuthClient.NoSpace k

theorem cleanTok_noNl {k : Bytes} (h : CleanTok k) : ∀ b ∈ k, b ≠ 10 := by
  intro b hb h10
  have := h.2 b hb
  rw [h10] at this
  exact absurd this (by decide)

theorem natToDec_tok (n : Nat) : CleanTok (natToDec n) := ⟨natToDec_ne_nil n, (natToDec_clean n).1⟩

theorem splitNlAux_line (t : Bytes) : ∀ (cur rest : Bytes), (∀ b ∈ t, b ≠ 10) →
    AuthClient.splitNlAux cur (t ++ 10 :: rest) = (cur.reverse ++ t ++ [10]) :: AuthClient.splitNlAux [] rest := by
  induction t with
  | nil => intro cur rest _; simp [AuthClient.splitNlAux]
  | cons b t ih =>
    intro cur rest h
    have hb : b ≠ 10 := h b (by simp)
    have : (b == 10) = false := by simpa using hb
    simp only [List.cons_append, AuthClient.splitNlAux, this, Bool.false_eq_true, if_false]
    rw [ih (b :: cur) rest (fun x hx => h x (by simp [hx]))]
    simp

/-- The body of a line of the cookie file (without its line end). -/
def entBody (e : CookieEnt) : Bytes := natToDec e.id ++ 32 :: (natToDec e.time ++ 32 :: e.cookie)

theorem renderEnt_eq (e : CookieEnt) : renderEnt e = entBody e ++ [10] := by
  simp [renderEnt, entBody]

theorem entBody_noNl (e : CookieEnt) (h : CleanTok e.cookie) : ∀ b ∈ entBody e, b ≠ 10 := by
  intro b hb
  simp only [entBody, List.mem_append, List.mem_cons] at hb
  rcases hb with hb | rfl | hb | rfl | hb
  · exact (natToDec_clean _).2 b hb
  · decide
  · exact (natToDec_clean _).2 b hb
  · decide
  · exact cleanTok_noNl h b hb

/-- Iterating over the file yields its entries, one line each. -/
theorem splitNl_render (es : List CookieEnt) (h : ∀ e ∈ es, CleanTok e.cookie) :
    AuthClient.splitNl (renderFile es) = es.map renderEnt := by
  unfold AuthClient.splitNl
  induction es with
  | nil => rfl
  | cons e t ih =>
    have he := h e (by simp)
    have : renderFile (e :: t) = entBody e ++ 10 :: renderFile t := by
      simp [renderFile, renderEnt_eq]
    rw [this, splitNlAux_line _ [] _ (entBody_noNl e he), ih (fun x hx => h x (by simp [hx]))]
    simp [renderEnt_eq]

/-- `line.split()` of an entry: id, time, cookie. -/
theorem splitWs_renderEnt (e : CookieEnt) (h : CleanTok e.cookie) :
    AuthClient.splitWs (renderEnt e) = [natToDec e.id, natToDec e.time, e.cookie] := by
  have hi := natToDec_tok e.id
  have ht := natToDec_tok e.time
  unfold AuthClient.splitWs renderEnt
  rw [AuthClient.splitWsAux_token _ hi.2, List.append_nil, AuthClient.splitWsAux_space (by simpa using hi.1)]
  rw [AuthClient.splitWsAux_token _ ht.2, List.append_nil, AuthClient.splitWsAux_space (by simpa using ht.1)]
  rw [AuthClient.splitWsAux_token _ h.2, List.append_nil]
  have hne : e.cookie.reverse ≠ [] := by simpa using h.1
  cases hc : e.cookie.reverse with
  | nil => exact absurd hc hne
  | cons a t =>
    have : (a :: t).reverse = e.cookie := by rw [← hc]; simp
    simp [AuthClient.splitWsAux, AuthClient.isSpace, this]

/-- The client finds the cookie of the last entry under its id when no earlier entry has that id. -/
theorem findCookie_render (cid tm : Nat) (k : Bytes) (hk : CleanTok k) (es : List CookieEnt)
    (h : ∀ e ∈ es, CleanTok e.cookie ∧ e.id ≠ cid) :
    AuthClient.findCookie (natToDec cid) (es.map renderEnt ++ [renderEnt ⟨cid, tm, k⟩]) = some k := by
  induction es with
  | nil =>
    simp only [List.map_nil, List.nil_append, AuthClient.findCookie]
    rw [splitWs_renderEnt ⟨cid, tm, k⟩ hk]
    simp
  | cons e t ih =>
    have he := h e (by simp)
    simp only [List.map_cons, List.cons_append, AuthClient.findCookie]
    rw [splitWs_renderEnt e he.1]
    have : ¬ natToDec e.id = natToDec cid := fun hh => he.2 (natToDec_inj hh)
    simp only [this, if_false]
    exact ih (fun x hx => h x (by simp [hx]))

/-! ## the id the bus chooses is new -/

theorem nextId_fold (es : List CookieEnt) : ∀ acc : Nat,
    acc ≤ es.foldl (fun acc e => if e.id ≥ acc then e.id + 1 else acc) acc ∧
    ∀ e ∈ es, e.id < es.foldl (fun acc e => if e.id ≥ acc then e.id + 1 else acc) acc := by
  induction es with
  | nil => intro acc; exact ⟨Nat.le_refl _, fun e he => nomatch he⟩
  | cons a t ih =>
    intro acc
    simp only [List.foldl_cons]
    have h := ih (if a.id ≥ acc then a.id + 1 else acc)
    constructor
    · refine Nat.le_trans ?_ h.1
      split <;> omega
    · intro e he
      rcases List.mem_cons.1 he with rfl | he
      · refine Nat.lt_of_lt_of_le ?_ h.1
        split <;> omega
      · exact h.2 e he

theorem nextCookieId_fresh (es : List CookieEnt) : ∀ e ∈ es, e.id ≠ nextCookieId es := by
  intro e he
  have := (nextId_fold es 1).2 e he
  unfold nextCookieId
  omega

/-! ## the client's answer when it finds the cookie -/

theorem cookieResponse_found (env : AuthClient.Env) (ctx idt chal cookie : Bytes) (hctx : CleanTok ctx)
    (hid : CleanTok idt) (hchal : CleanTok chal) (hlook : AuthClient.getCookie env ctx idt = .ok (some cookie)) :
    AuthClient.cookieResponse env (AuthClient.hexlify (ctx ++ 32 :: (idt ++ 32 :: chal))) =
      .ok (b!"DATA " ++ AuthClient.hexlify (AuthClient.hexlify (env.sha1 env.rnd) ++ b!" " ++
        AuthClient.hexlify (env.sha1 (AuthClient.joinWith (b!":") [chal, AuthClient.hexlify (env.sha1 env.rnd), cookie])))) := by
  unfold AuthClient.cookieResponse
  rw [AuthClient.strip_hexlify, AuthClient.unhexlify_hexlify]
  simp only
  rw [AuthClient.splitWs_three hctx.2 hid.2 hchal.2 hctx.1 hid.1 hchal.1]
  simp only [hlook]

/-- The bus's first step, explicitly: the new entry is appended to the unexpired ones under a fresh id, the directory
is good afterwards. -/
theorem cookieChallenge_explicit (w : RealWorld) (c : CookieSt) (home : Bytes) :
    ∃ w1 src, AuthServer.cookieChallenge w c home =
        (w1, { c with cookieId := some (nextCookieId (getCookies w home)),
                      cookie := AuthServer.hexlify (w.cfg.rnd w.rndCalls Gen.ServerAuth.cookieRandomBytes),
                      challenge := AuthServer.hexlify (w.cfg.sha1 src) },
         .challenge (w.cfg.ctx ++ 32 :: natToDec (nextCookieId (getCookies w home)) ++
            32 :: AuthServer.hexlify (w.cfg.sha1 src))) ∧
      w1.cfg = w.cfg ∧
      lookupFile w1 home = some (getCookies w home ++
        [⟨nextCookieId (getCookies w home), w.cfg.now,
          AuthServer.hexlify (w.cfg.rnd w.rndCalls Gen.ServerAuth.cookieRandomBytes)⟩]) ∧
      ∀ h, lookupDir w1 h = lookupDir w h :=
  ⟨_, _, rfl, rfl, by
    show lookupFile (AuthServer.urandom (AuthServer.createCookie w home).1 8).1 home = _
    unfold AuthServer.createCookie AuthServer.urandom
    exact AuthServer.lookupFile_setFile _ _ _, fun _ => rfl⟩

theorem lookupDir_setDir (w : RealWorld) (h : Bytes) (d : AuthServer.DirState) :
    lookupDir (AuthServer.setDir w h d) h = d := by
  simp [lookupDir, AuthServer.setDir]

theorem busUserEntry_some {cfg : Cfg} {e : AuthServer.PwEnt} (h : busUserEntry cfg = some e) :
    ∃ uname, AuthServer.resolveUser cfg.w0.cfg cfg.user = some uname ∧ AuthServer.getpwnam cfg.w0.cfg uname = some e := by
  unfold busUserEntry at h
  cases hr : AuthServer.resolveUser cfg.w0.cfg cfg.user with
  | none => rw [hr] at h; cases h
  | some uname => rw [hr] at h; exact ⟨uname, rfl, h⟩

theorem stepOne_explicit (w : RealWorld) (user uname : Bytes) (e : AuthServer.PwEnt)
    (hres : AuthServer.resolveUser w.cfg user = some uname) (hn : AuthServer.getpwnam w.cfg uname = some e)
    (hd : lookupDir w e.home ≠ .bad) :
    ∃ w1 c1 src, cookieStep w CookieSt.init (some user) =
        (w1, c1, .challenge (w.cfg.ctx ++ 32 :: natToDec (nextCookieId (getCookies w e.home)) ++
          32 :: AuthServer.hexlify (w.cfg.sha1 src))) ∧
      c1.stepNum = 1 ∧ c1.home = e.home ∧ c1.challenge = AuthServer.hexlify (w.cfg.sha1 src) ∧
      (∃ k n, c1.cookie = AuthServer.hexlify (w.cfg.rnd k n) ∧ n = Gen.ServerAuth.cookieRandomBytes) ∧
      w1.cfg = w.cfg ∧
      lookupFile w1 e.home = some (getCookies w e.home ++
        [⟨nextCookieId (getCookies w e.home), w.cfg.now, c1.cookie⟩]) ∧
      lookupDir w1 e.home = .good := by
  unfold cookieStep
  simp only [show CookieSt.init.stepNum = 0 from rfl, if_true]
  unfold AuthServer.cookieStepOne
  simp only [hres, hn]
  cases hdir : lookupDir w e.home with
  | bad => exact absurd hdir hd
  | absent =>
    simp only
    obtain ⟨w1, src, h1, h2, h3, h4⟩ := cookieChallenge_explicit (AuthServer.setDir w e.home .good)
      { CookieSt.init with stepNum := 0 + 1, username := some uname, home := e.home } e.home
    rw [h1]
    exact ⟨w1, _, src, rfl, rfl, rfl, rfl, ⟨_, _, rfl, rfl⟩, h2, h3, by rw [h4, lookupDir_setDir]⟩
  | good =>
    simp only
    obtain ⟨w1, src, h1, h2, h3, h4⟩ := cookieChallenge_explicit w
      { CookieSt.init with stepNum := 0 + 1, username := some uname, home := e.home } e.home
    rw [h1]
    exact ⟨w1, _, src, rfl, rfl, rfl, rfl, ⟨_, _, rfl, rfl⟩, h2, h3, by rw [h4, hdir]⟩

/-! ## the two answers of the bus, when the steps of the mechanism are known -/

theorem sv_auth_cookie_challenge (s : Server RealWorld Inst) (user m : Bytes) (w1 : RealWorld) (c1 : CookieSt)
    (hs : s.state = .waitingForAuth) (hu : user ≠ []) (hasc : AuthServer.isAscii user = true)
    (hstep : cookieStep s.world CookieSt.init (some user) = (w1, c1, .challenge m)) :
    handle real s (cookieAuthLine user) =
      ⟨{ s with world := w1, cur := some (lit "DBUS_COOKIE_SHA1", .cookie c1), state := .waitingForData },
        [wData ++ AuthServer.hexlify m], .ok, some (lit "DBUS_COOKIE_SHA1", .challenge m), false⟩ := by
  have a3 : AuthServer.utf8Valid (lit "AUTH") = true := by decide
  have a4 : AuthServer.parseCmd (lit "AUTH") = .auth := by decide
  have a1 : cookieAuthLine user = lit "AUTH" ++ 32 :: (lit "DBUS_COOKIE_SHA1" ++ 32 :: AuthServer.hexlify user) := rfl
  have a2 : AuthServer.splitCmd (cookieAuthLine user) =
      (lit "AUTH", lit "DBUS_COOKIE_SHA1" ++ 32 :: AuthServer.hexlify user) := by
    rw [a1]; exact AuthServer.splitCmd_noSpace _ _ (by decide)
  have a5 : AuthServer.splitWs (lit "DBUS_COOKIE_SHA1" ++ 32 :: AuthServer.hexlify user) =
      [lit "DBUS_COOKIE_SHA1", AuthServer.hexlify user] :=
    AuthServer.splitWs_two _ _ (by decide) (AuthServer.hexlify_ne_nil _ hu) (by unfold AuthServer.NoSpace; decide)
      (AuthServer.noSpace_hexlify _)
  simp [handle, a2, a3, a4, AuthServer.authAUTH, hs, a5, AuthServer.real_offers_cookie, AuthServer.stepAuth,
    AuthServer.decodeResponse_hexlify user hu hasc, AuthServer.real_start_cookie, AuthServer.real_step_cookie, hstep]

theorem sv_cookie_data_accept (s : Server RealWorld Inst) (c1 : CookieSt) (y : Bytes) (hs : s.state = .waitingForData)
    (hc : s.cur = some (lit "DBUS_COOKIE_SHA1", .cookie c1)) (hy : y ≠ []) (hya : AuthServer.isAscii y = true)
    (hacc : (cookieStep s.world c1 (some y)).2.2 = .accept) :
    (handle real s (wData ++ AuthServer.hexlify y)).srv.state = .waitingForBegin := by
  have b1 : wData ++ AuthServer.hexlify y = lit "DATA" ++ 32 :: AuthServer.hexlify y := rfl
  have b2 : AuthServer.splitCmd (wData ++ AuthServer.hexlify y) = (lit "DATA", AuthServer.hexlify y) := by
    rw [b1]; exact AuthServer.splitCmd_noSpace _ _ (by decide)
  have b3 : AuthServer.utf8Valid (lit "DATA") = true := by decide
  have b4 : AuthServer.parseCmd (lit "DATA") = .data := by decide
  have b5 := AuthServer.decodeResponse_hexlify y hy hya
  have h1 : handle real s (wData ++ AuthServer.hexlify y) = AuthServer.stepAuth real s (some (AuthServer.hexlify y)) := by
    simp [handle, b2, b3, b4, AuthServer.authDATA, hs]
  rw [h1]
  unfold AuthServer.stepAuth
  simp only [hc, b5, AuthServer.real_step_cookie]
  generalize cookieStep s.world c1 (some y) = r at hacc
  obtain ⟨w2, c2, o⟩ := r
  simp only at hacc
  subst hacc
  rfl

/-! ## the sufficient condition -/

/-- "The client and the bus share a usable keyring". -/
structure SharedKeyring (cfg : Cfg) (e : AuthServer.PwEnt) : Prop where
  /-- the client's user name is not empty and ASCII ... -/
  user0 : cfg.user ≠ []
  userAscii : AuthServer.isAscii cfg.user = true
  /-- ... and resolves (by name, or as a decimal uid) to the passwd entry `e` -/
  entry : busUserEntry cfg = some e
  /-- the bus accepts the keyring directory of `e` (it exists without group/other bits, or does not exist yet) -/
  dir : lookupDir cfg.w0 e.home ≠ .bad
  /-- the client looks into the same directory ... -/
  home : cfg.clientHome = e.home
  /-- ... and passes its own tests: mode & 0o066 = 0 and owned by its euid (a directory the bus creates: `createdOwned`) -/
  stat : if lookupDir cfg.w0 e.home = .absent then createdOwned cfg = true
         else (cfg.initStat.1 &&& 0o066 = 0 ∧ cfg.initStat.2 = true)
  /-- the context name is one token without blanks, a plain ASCII file name -/
  ctx : CleanTok cfg.w0.cfg.ctx ∧ AuthClient.contextOk cfg.w0.cfg.ctx = true ∧
        cfg.w0.cfg.ctx.all (· < 128) = true
  /-- SHA-1 digests have 20 bytes, `os.urandom(24)` is not empty -/
  sha : ∀ x, (cfg.w0.cfg.sha1 x).length = 20
  rnd : ∀ k, cfg.w0.cfg.rnd k Gen.ServerAuth.cookieRandomBytes ≠ []
  /-- the unexpired cookies already in the file are tokens without blanks -/
  old : ∀ c ∈ getCookies cfg.w0 e.home, CleanTok c.cookie

theorem cleanTok_hexlify {r : Bytes} (h : r ≠ []) : CleanTok (AuthServer.hexlify r) := by
  refine ⟨AuthServer.hexlify_ne_nil r h, ?_⟩
  rw [← hexlify_eq]
  exact AuthClient.noSpace_hexlify r

theorem sha_ne_nil {f : Bytes → Bytes} (h : ∀ x, (f x).length = 20) (x : Bytes) : f x ≠ [] := by
  intro h0
  have := h x
  rw [h0] at this
  cases this

/-- The client's lookup in the world the bus's first step left. -/
theorem getCookie_shared {cfg : Cfg} {e : AuthServer.PwEnt} (h : SharedKeyring cfg e) (w1 : RealWorld) (cookie : Bytes)
    (hcfg : w1.cfg = cfg.w0.cfg) (hdir : lookupDir w1 e.home = .good) (hck : CleanTok cookie)
    (hfile : lookupFile w1 e.home = some (getCookies cfg.w0 e.home ++
      [⟨nextCookieId (getCookies cfg.w0 e.home), cfg.w0.cfg.now, cookie⟩])) :
    AuthClient.getCookie (envOf cfg w1) cfg.w0.cfg.ctx (natToDec (nextCookieId (getCookies cfg.w0 e.home))) =
      .ok (some cookie) := by
  have hstat : ∃ mode, (envOf cfg w1).dirStat = some (mode, true) ∧ mode &&& 0o066 = 0 := by
    show ∃ mode, clientStat cfg w1 = some (mode, true) ∧ mode &&& 0o066 = 0
    unfold clientStat
    rw [h.home, hdir]
    simp only
    have hs := h.stat
    by_cases ha : lookupDir cfg.w0 e.home = .absent
    · rw [if_pos ha] at hs ⊢
      exact ⟨0o40700, by rw [hs], by decide⟩
    · rw [if_neg ha] at hs ⊢
      exact ⟨cfg.initStat.1, by rw [← hs.2], hs.1⟩
  obtain ⟨mode, hds, hmode⟩ := hstat
  have hf : (envOf cfg w1).file cfg.w0.cfg.ctx = some (renderFile (getCookies cfg.w0 e.home ++
      [⟨nextCookieId (getCookies cfg.w0 e.home), cfg.w0.cfg.now, cookie⟩])) := by
    show (if cfg.w0.cfg.ctx = w1.cfg.ctx then (lookupFile w1 cfg.clientHome).map renderFile else none) = _
    rw [hcfg, if_pos rfl, h.home, hfile]; rfl
  unfold AuthClient.getCookie
  simp only [h.ctx.2.1, Bool.not_true, Bool.false_eq_true, if_false, hds, hmode, ne_eq, not_true_eq_false, h.ctx.2.2, hf]
  rw [splitNl_render _ (by
    intro c hc
    rcases List.mem_append.1 hc with hc | hc
    · exact h.old c hc
    · simp only [List.mem_singleton] at hc; rw [hc]; exact hck)]
  rw [List.map_append]
  simp only [List.map_cons, List.map_nil]
  rw [findCookie_render _ _ _ hck _ (fun c hc => ⟨h.old c hc, nextCookieId_fresh _ c hc⟩)]

/-- A shared usable keyring is usable: the three-line exchange of the models ends with the bus waiting for BEGIN. -/
theorem keyringUsable_of_shared_keyring (cfg : Cfg) (e : AuthServer.PwEnt) (h : SharedKeyring cfg e) :
    keyringUsable cfg = true := by
  obtain ⟨uname, hres, hn⟩ := busUserEntry_some h.entry
  obtain ⟨w1, c1, src, hstep, hnum, hhome, hchal, ⟨k, n, hck, hn24⟩, hcfg, hfile, hdir⟩ :=
    stepOne_explicit cfg.w0 cfg.user uname e hres hn h.dir
  have hcookie : CleanTok c1.cookie := by rw [hck, hn24]; exact cleanTok_hexlify (h.rnd k)
  have hchalTok : CleanTok (AuthServer.hexlify (cfg.w0.cfg.sha1 src)) := cleanTok_hexlify (sha_ne_nil h.sha src)
  -- the bus's first answer
  have ho1 := sv_auth_cookie_challenge (srv1 cfg) cfg.user _ w1 c1 rfl h.user0 h.userAscii hstep
  rw [← o1_def] at ho1
  have hgood : AuthServer.RealGood w1 (.cookie c1) := by
    have := (AuthServer.cookieStep_safe cfg.w0 CookieSt.init (some cfg.user) (Or.inr rfl)).2
    rw [hstep] at this
    exact this (by simp)
  have hO1 : O1Challenge cfg _ w1 c1 := ⟨ho1, hgood, hcfg⟩
  -- the client's answer
  have hlook := getCookie_shared h w1 c1.cookie hcfg hdir hcookie hfile
  have hresp := cookieResponse_found (envOf cfg w1) cfg.w0.cfg.ctx _ _ c1.cookie h.ctx.1 (natToDec_tok _) hchalTok hlook
  have hr := (reply_spec hO1).2
  have hm : cfg.w0.cfg.ctx ++ 32 :: natToDec (nextCookieId (getCookies cfg.w0 e.home)) ++
        32 :: AuthServer.hexlify (cfg.w0.cfg.sha1 src) =
      cfg.w0.cfg.ctx ++ 32 :: (natToDec (nextCookieId (getCookies cfg.w0 e.home)) ++
        32 :: AuthServer.hexlify (cfg.w0.cfg.sha1 src)) := by simp
  rw [hm, ← hexlify_eq, hresp] at hr
  simp only at hr
  -- ... is the response the bus's second step accepts
  have hsha1 : (envOf cfg w1).sha1 = cfg.w0.cfg.sha1 := by show w1.cfg.sha1 = _; rw [hcfg]
  have hy : reply cfg = wData ++ AuthServer.hexlify
      (AuthServer.hexlify (cfg.w0.cfg.sha1 (envOf cfg w1).rnd) ++
        32 :: AuthServer.cookieHash cfg.w0.cfg.sha1 c1.challenge
          (AuthServer.hexlify (cfg.w0.cfg.sha1 (envOf cfg w1).rnd)) c1.cookie) := by
    rw [hr, hsha1, hchal]
    simp only [hexlify_eq, AuthClient.joinWith, AuthServer.cookieHash, wData]
    simp
  have hcc : CleanTok (AuthServer.hexlify (cfg.w0.cfg.sha1 (envOf cfg w1).rnd)) :=
    cleanTok_hexlify (sha_ne_nil h.sha _)
  have hncc : AuthServer.NoSpace (AuthServer.hexlify (cfg.w0.cfg.sha1 (envOf cfg w1).rnd)) := AuthServer.noSpace_hexlify _
  have hacc := (AuthServer.cookie_step_two_ok w1 c1 _ hnum (by rw [hhome, hfile]; rfl) hcc.1 hncc
    (by rw [hcfg]; exact sha_ne_nil h.sha)).1
  rw [hcfg] at hacc
  -- the bus's second answer
  have hs1 : (o1 cfg).srv.state = .waitingForData := by rw [ho1]
  have hc1 : (o1 cfg).srv.cur = some (lit "DBUS_COOKIE_SHA1", .cookie c1) := by rw [ho1]
  have hw1 : (o1 cfg).srv.world = w1 := by rw [ho1]
  have ho2 := sv_cookie_data_accept (o1 cfg).srv c1 _ hs1 hc1 (by simp) (isAscii_hexlify_pair _ _)
    (by rw [hw1]; exact hacc)
  simp only [AuthServer.cookieHash] at hy ho2
  rw [← hy, ← o2_def] at ho2
  unfold keyringUsable challenged
  rw [hs1, ho2]
  rfl

/-! ## what a usable keyring requires on the bus's side -/

/-- If the first step of the cookie mechanism sends a challenge, the user name resolved to a passwd entry whose
keyring directory the bus did not refuse. -/
theorem stepOne_challenge_inv (w : RealWorld) (user m : Bytes) (w1 : RealWorld) (c1 : CookieSt)
    (h : cookieStep w CookieSt.init (some user) = (w1, c1, .challenge m)) :
    ∃ uname e, AuthServer.resolveUser w.cfg user = some uname ∧ AuthServer.getpwnam w.cfg uname = some e ∧
      lookupDir w e.home ≠ .bad := by
  unfold cookieStep at h
  simp only [show CookieSt.init.stepNum = 0 from rfl, if_true] at h
  unfold AuthServer.cookieStepOne at h
  cases hr : AuthServer.resolveUser w.cfg user with
  | none => simp [hr] at h
  | some uname =>
    simp only [hr] at h
    cases hn : AuthServer.getpwnam w.cfg uname with
    | none => simp [hn] at h
    | some e =>
      simp only [hn] at h
      refine ⟨uname, e, rfl, hn, ?_⟩
      intro hd
      simp [hd] at h

/-- NECESSARY for `keyringUsable`: a non-empty ASCII user name that resolves to a passwd entry whose keyring
directory is absent or good. -/
theorem keyringUsable_requires (cfg : Cfg) (h : keyringUsable cfg = true) :
    cfg.user ≠ [] ∧ AuthServer.isAscii cfg.user = true ∧
    ∃ e, busUserEntry cfg = some e ∧ lookupDir cfg.w0 e.home ≠ .bad := by
  have hch : challenged cfg = true := by
    unfold keyringUsable at h
    cases hc : challenged cfg with
    | true => rfl
    | false => rw [hc] at h; cases h
  obtain ⟨h1, h2, m, w1, c1, hstep⟩ := challenged_step hch
  obtain ⟨uname, e, hr, hn, hd⟩ := stepOne_challenge_inv cfg.w0 cfg.user m w1 c1 hstep
  refine ⟨h1, h2, e, ?_, hd⟩
  unfold busUserEntry
  rw [hr]; exact hn

end Txdbus.Handshake2
